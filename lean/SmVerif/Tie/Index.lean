import SmVerif.Tie.PreludeLemmas16
import SmVerif.Tie.Lookup
import SmVerif.Tie.Hermes
import SmVerif.Generated.RsIndex
import SmVerif.Generated.RsDecodedMap
import SmVerif.Model.Index
import SmVerif.Proofs.IndexLookup
import SmVerif.Props.C08
import SmVerif.Props.C14
/-
Tie unit "Index": `SourceMapIndex::lookup_token`, `DecodedMap::lookup_token`,
`DecodedMap::get_original_function_name` (types.rs) and `SourceMapHermes::get_original_function_name` (hermes.rs)
as translated by `tools/rs2lean` (units RsIndex, RsDecodedMap, RsHermes; the mutual recursion
`DecodedMap::lookup_token` ↔ `SourceMapIndex::lookup_token` is translated as OPEN recursion: the callee is a
function parameter) against the hand-written model `SmVerif/Model/Index.lean` (`dmapLookup`, `lookupAt`,
`indexLookup`) and `SmVerif/Model/Hermes.lean` (`functionName`).

A. one level, for every callee `f` and every opaque map type `DM`:
* `tie_index_lookup_token`     : `SourceMapIndex.lookup_token f smi line col = indexAnswer f smi.sections line col`:
                                 no section at or before the query: `.ok none`; else the section
                                 `greatest_lower_bound` chooses (the model's `glb` on the offsets) answers: `.ok none`
                                 if unresolved, else `f d (line - ol) (if line = ol then col - oc else col)` - for
                                 EVERY section list, sorted or not.  Neither checked subtraction can underflow (the
                                 two `.error .panic` arms of the generated code are dead);
* `index_lookup_token_cases`   : the same as a disjunction, with the chosen section at or before the query;
* `index_lookup_token_error`   : an error of the index lookup is an error returned by the callee;
* `glb_section_some`           : a `some i` of `glb` is an index of the section list.

D. the dispatch of `DecodedMap` (for every instantiation of the open parameters):
* `gen_c04_dispatch_regular/_hermes/_index`, `gen_c14_dispatch_hermes/_regular/_index/_no_name/_no_view`;
* `tie_get_original_function_name` : `SourceMapHermes.get_original_function_name smh off` = the model's
                                 `Hermes.functionName h off` for every `HMap` `h` with the same tokens and function
                                 maps (`toHMap smh` is one); `get_original_function_name_total`: it never fails;
* `gen_c14_dispatch_hermes_model`, `gen_c14_scope_offset` : C14 for the generated function.

B. tying the knot: `GMap`/`GSecs` (closed datatype of the generated side), `gLookup` (each level literally calls the
generated `DecodedMap.lookup_token` and `SourceMapIndex.lookup_token`, the recursive call as the parameter; fuel =
nesting depth), `absG` (abstraction into the model's `DMap`; the sources tables, which the translation drops, are a
parameter `srcs` - every statement is for all `srcs`), and
* `gLookup_regular/_hermes/_index_gen/_index` : the unfolding equations;
* `gLookup_fuel`               : fuel above the nesting depth is irrelevant; `gLookup_total`: then it never fails;
* `tie_gLookup`                : `gLookup fuel g line col`, the token read through `tokOrigin`, is the model's
                                 `Index.dmapLookup (absG g) (line, col)` - errors to errors, `none` to `none`, a token to
                                 its `Origin` (source string, original line, REPORTED original column, name string);
* `tie_gLookup_index`          : the same for `Index.indexLookup`;
* `tie_gLookup_raw`            : the same at the raw level (`rawLookup` = `dmapLookup` before `originOf`,
                                 `dmapLookup_eq_raw`): same leaf map, same index, same raw token, same reported column.

C. corollaries about the generated code: `gen_c08_no_underflow`, `gen_c08_total_of_total`, `gen_c08_lookup_total`,
`gen_c08_model_no_underflow`, `gen_c08_section_choice`, `gen_c08_unresolved_none`, `gen_c08_section_choice_closed`,
`gen_c08_agree`.

Hypotheses: only the Rust types (`src_col` of every token `< 2^32`, as in `tie_lookup_token`) and `depth g < fuel`.
No order hypothesis on sections or tokens except in the section-CHOICE statements (`gen_c08_section_choice` (b)), where
it is needed (`exDescending`).  No panic is reachable from the offset subtraction on any section list.
-/
namespace SmVerif.Tie.Index
open SmVerif SmVerif.Rs SmVerif.Rs.L16 SmVerif.Tie
open Gen.RsTypes Gen.RsHermes Gen.RsIndex Gen.RsDecodedMap

/-! ## A. one level of index lookup (open recursion) -/

/-- the query in the coordinates of a section at offset `o`: what `SourceMapIndex::lookup_token` passes on
(`line - off_line`, and `col - off_col` on the section's first line only) -/
def relLine (line : Nat) (o : Nat × Nat) : Nat := line - o.1
def relCol (line col : Nat) (o : Nat × Nat) : Nat := if line = o.1 then col - o.2 else col

/-- what one section answers: nothing when unresolved (`get_sourcemap()?`), else the embedded map's answer at the
relative position -/
def inSectionG {DM : Type} (f : DM → Nat → Nat → Res (Option Token)) (s : SourceMapSection DM) (line col : Nat) :
    Res (Option Token) :=
  match s.map with
  | none => .ok none
  | some d => f d (relLine line s.offset) (relCol line col s.offset)

/-- the answer of an index with sections `secs`: nothing when no offset is at or before the query (`glb` of the
model, `Model/Lookup.lean`, on the list of offsets in section order); else the section at the index `glb` returns
answers.  (The inner `none` arm is unreachable, see `glb_section_some`; it keeps the definition free of proofs.) -/
def indexAnswer {DM : Type} (f : DM → Nat → Nat → Res (Option Token)) (secs : List (SourceMapSection DM))
    (line col : Nat) : Res (Option Token) :=
  match Lookup.glb (secs.map (·.offset)) (line, col) with
  | none => .ok none
  | some i =>
    match secs[i]? with
    | none => .ok none
    | some s => inSectionG f s line col

/-- **A. `SourceMapIndex::lookup_token`, one level, exactly.**  For every opaque map type `DM`, every callee `f`
(standing for `DecodedMap::lookup_token`), every index (sections in ANY order, equal offsets, unresolved sections
allowed) and every query: the section is the one the model's `glb` picks on the list of offsets; an unresolved
section answers `None`; otherwise the callee is asked at the relative position.  There is no `.error .panic`
on the right-hand side: the two checked subtractions `line - off_line`, `col - off_col` cannot underflow, because
`greatest_lower_bound` returns an element at or before the key on every slice (`IndexP.glb_le_any`), sorted or not. -/
theorem tie_index_lookup_token {DM : Type} [DecidableEq DM] (f : DM → Nat → Nat → Res (Option Token))
    (smi : SourceMapIndex DM) (line col : Nat) :
    SourceMapIndex.lookup_token f smi line col = indexAnswer f smi.sections line col := by
  unfold SourceMapIndex.lookup_token indexAnswer
  simp only [tie_glb]
  cases hg : Lookup.glb (smi.sections.map (·.offset)) (line, col) with
  | none => rfl
  | some i =>
    obtain ⟨hi, hle⟩ := IndexP.glb_le_any _ _ _ hg
    rw [List.length_map] at hi
    have h1 : smi.sections[i]? = some smi.sections[i] := List.getElem?_eq_getElem hi
    have h2 : (smi.sections.map (·.offset)).getD i (0, 0) = smi.sections[i].offset := by
      simp only [List.getD_eq_getElem?_getD, List.getElem?_map, h1, Option.map_some, Option.getD_some]
    rw [h2, Lookup.posLe_iff] at hle
    simp only [Option.bind_some, h1, Option.map_some]
    generalize smi.sections[i] = s at hle
    simp only at hle
    unfold inSectionG relLine relCol
    cases s.map with
    | none => rfl
    | some d =>
      have hl : s.offset.1 ≤ line := by omega
      simp only [hl, ↓reduceIte]
      by_cases h3 : line = s.offset.1
      · have hc : s.offset.2 ≤ col := by omega
        simp only [h3, hc, ↓reduceIte]
        split <;> simp only [*]
      · simp only [h3, ↓reduceIte]
        split <;> simp only [*]

/-- a `some i` of `glb` on the offsets is an index of the section list, and that section's offset is at or
before the query (any order of the sections) -/
theorem glb_section_some {DM : Type} (secs : List (SourceMapSection DM)) (q : Nat × Nat) (i : Nat)
    (hg : Lookup.glb (secs.map (·.offset)) q = some i) :
    ∃ s, secs[i]? = some s ∧ Lookup.posLe s.offset q = true := by
  obtain ⟨hi, hle⟩ := IndexP.glb_le_any _ _ _ hg
  rw [List.length_map] at hi
  have h1 : secs[i]? = some secs[i] := List.getElem?_eq_getElem hi
  refine ⟨secs[i], h1, ?_⟩
  rw [← hle]
  simp only [List.getD_eq_getElem?_getD, List.getElem?_map, h1, Option.map_some, Option.getD_some]

/-- the same, without the unreachable arm: nothing, or the answer of a section of the list whose offset is at or
before the query -/
theorem index_lookup_token_cases {DM : Type} [DecidableEq DM] (f : DM → Nat → Nat → Res (Option Token))
    (smi : SourceMapIndex DM) (line col : Nat) :
    (Lookup.glb (smi.sections.map (·.offset)) (line, col) = none ∧
      SourceMapIndex.lookup_token f smi line col = .ok none) ∨
    (∃ i s, Lookup.glb (smi.sections.map (·.offset)) (line, col) = some i ∧ smi.sections[i]? = some s ∧
      Lookup.posLe s.offset (line, col) = true ∧
      SourceMapIndex.lookup_token f smi line col = inSectionG f s line col) := by
  rw [tie_index_lookup_token]
  unfold indexAnswer
  cases hg : Lookup.glb (smi.sections.map (·.offset)) (line, col) with
  | none => exact Or.inl ⟨rfl, rfl⟩
  | some i =>
    obtain ⟨s, hs, hle⟩ := glb_section_some smi.sections (line, col) i hg
    refine Or.inr ⟨i, s, rfl, hs, hle, ?_⟩
    simp only [hs]

/-- an error of the index lookup is an error the callee returned (at the relative position, for a map embedded in a
section): the index level adds no failure of its own - in particular no panic -/
theorem index_lookup_token_error {DM : Type} [DecidableEq DM] (f : DM → Nat → Nat → Res (Option Token))
    (smi : SourceMapIndex DM) (line col : Nat) (e : Err)
    (h : SourceMapIndex.lookup_token f smi line col = .error e) :
    ∃ s ∈ smi.sections, ∃ d, s.map = some d ∧ Lookup.posLe s.offset (line, col) = true ∧
      f d (relLine line s.offset) (relCol line col s.offset) = .error e := by
  rcases index_lookup_token_cases f smi line col with ⟨_, h0⟩ | ⟨i, s, _, hs, hle, h1⟩
  · rw [h0] at h; cases h
  · rw [h1] at h
    unfold inSectionG at h
    cases hm : s.map with
    | none => rw [hm] at h; cases h
    | some d =>
      rw [hm] at h
      exact ⟨s, List.mem_of_getElem? hs, d, hm, hle, h⟩

/-! examples: an index over an opaque map type (`Nat`: the callee echoes its arguments in a token) -/

/-- a callee that records what it was asked: map number in `src_id`, relative line and column in `dst_*` -/
def echo (d line col : Nat) : Res (Option Token) :=
  .ok (some { raw := { dst_line := line, dst_col := col, src_line := 0, src_col := 0, src_id := d,
                       name_id := 4294967295, is_range := false },
              sm := { (default : SmVerif.Gen.RsTypes.SourceMap) with tokens := [], names := [] }, idx := 0, offset := 0 })

/-- three sections, NOT in order, the one at 1:3 unresolved -/
def exOpaque : SourceMapIndex Nat :=
  { sections := [{ offset := (2, 0), url := none, map := some 7 }, { offset := (0, 0), url := none, map := some 8 },
                 { offset := (1, 3), url := some [117], map := none }] }

-- 1:5 lies in the unresolved section (first line, right of its column offset): `None`
example : SourceMapIndex.lookup_token echo exOpaque 1 5 = .ok none := by
  rw [tie_index_lookup_token]; rfl
-- 1:2 lies left of 1:3: the section at 0:0 answers, asked at 1:2 (not its first line: the column stays)
example : SourceMapIndex.lookup_token echo exOpaque 1 2 = echo 8 1 2 := by
  rw [tie_index_lookup_token]; rfl
-- 0:4: the section at 0:0, its first line
example : SourceMapIndex.lookup_token echo exOpaque 0 4 = echo 8 0 4 := by
  rw [tie_index_lookup_token]; rfl
-- a callee that fails: the failure is passed on unchanged
example : SourceMapIndex.lookup_token (fun _ _ _ => .error .overflow) exOpaque 0 4 = .error .overflow := by
  rw [tie_index_lookup_token]; rfl

/-- sections in DESCENDING order (such an index cannot come out of `decode_index`, which sorts; it can be built through
the public constructor `SourceMapIndex::new`) -/
def exDescending : SourceMapIndex Nat :=
  { sections := [{ offset := (5, 0), url := none, map := some 7 }, { offset := (3, 0), url := none, map := some 8 },
                 { offset := (0, 0), url := none, map := some 9 }] }

-- no underflow, but NOT the section with the greatest offset at or before 4:1 (that is 3:0, map 8): the bisection
-- ends on 0:0.  The choice of the section needs the order (`gen_c08_section_choice`), the absence of panics does not.
example : SourceMapIndex.lookup_token echo exDescending 4 1 = echo 9 4 1 := by
  rw [tie_index_lookup_token]; rfl
-- … and 1:1 finds nothing although the section at 0:0 starts before it
example : SourceMapIndex.lookup_token echo exDescending 1 1 = .ok none := by
  rw [tie_index_lookup_token]; rfl

/-! ## D. the dispatch of `DecodedMap` -/

section Dispatch
variable {SMI : Type} [DecidableEq SMI] {SV : Type} [DecidableEq SV]
  (fi : SMI → Nat → Nat → Res (Option Token))
  (fn : SourceMap → Nat → Nat → List Nat → SV → Res (Option (List Nat)))
  (fin : SMI → Nat → Nat → List Nat → SV → Res (Option (List Nat)))

/-- `DecodedMap::lookup_token` on a regular map is `SourceMap::lookup_token` -/
theorem gen_c04_dispatch_regular (sm : SourceMap) (line col : Nat) :
    DecodedMap.lookup_token fi fn fin (.Regular sm) line col = SourceMap.lookup_token sm line col := by
  unfold DecodedMap.lookup_token
  simp only
  split <;> simp only [*]

/-- … on a Hermes map it is `SourceMap::lookup_token` of the embedded map (`Deref`) -/
theorem gen_c04_dispatch_hermes (smh : SourceMapHermes) (line col : Nat) :
    DecodedMap.lookup_token fi fn fin (.Hermes smh) line col = SourceMap.lookup_token smh.sm line col := by
  unfold DecodedMap.lookup_token
  simp only
  split <;> simp only [*]

/-- … on an index it is the index-level callee -/
theorem gen_c04_dispatch_index (smi : SMI) (line col : Nat) :
    DecodedMap.lookup_token fi fn fin (.Index smi) line col = fi smi line col := by
  unfold DecodedMap.lookup_token
  simp only
  split <;> simp only [*]

/-- `DecodedMap::get_original_function_name` on a Hermes map: nothing on a line other than 0, else
`SourceMapHermes::get_original_function_name` at the column (= bytecode offset); the minified name and the
source view are ignored -/
theorem gen_c14_dispatch_hermes (smh : SourceMapHermes) (line col : Nat) (mn : Option (List Nat)) (sv : Option SV) :
    DecodedMap.get_original_function_name fi fn fin (.Hermes smh) line col mn sv =
      if line ≠ 0 then .ok none else SourceMapHermes.get_original_function_name smh col := by
  unfold DecodedMap.get_original_function_name
  simp only
  by_cases h : line = 0
  · simp only [h, ne_eq, not_true_eq_false, ↓reduceIte]
    split <;> simp only [*]
  · simp only [ne_eq, h, not_false_eq_true, ↓reduceIte]

/-- … on a regular map: `SourceMap::get_original_function_name`, given both a minified name and a source view -/
theorem gen_c14_dispatch_regular (sm : SourceMap) (line col : Nat) (n : List Nat) (v : SV) :
    DecodedMap.get_original_function_name fi fn fin (.Regular sm) line col (some n) (some v) =
      fn sm line col n v := by
  unfold DecodedMap.get_original_function_name
  simp only
  split <;> simp only [*]

/-- … on an index: `SourceMapIndex::get_original_function_name`, given both -/
theorem gen_c14_dispatch_index (smi : SMI) (line col : Nat) (n : List Nat) (v : SV) :
    DecodedMap.get_original_function_name fi fn fin (.Index smi) line col (some n) (some v) =
      fin smi line col n v := by
  unfold DecodedMap.get_original_function_name
  simp only
  split <;> simp only [*]

/-- … without a minified name a regular map or an index answers nothing (the callees are not called) -/
theorem gen_c14_dispatch_no_name (line col : Nat) (sv : Option SV) :
    (∀ sm, DecodedMap.get_original_function_name fi fn fin (.Regular sm) line col none sv = .ok none) ∧
    (∀ smi, DecodedMap.get_original_function_name fi fn fin (.Index smi) line col none sv = .ok none) := by
  constructor <;> intro _ <;> rfl

/-- … and without a source view likewise -/
theorem gen_c14_dispatch_no_view (line col : Nat) (mn : Option (List Nat)) :
    (∀ sm, DecodedMap.get_original_function_name fi fn fin (.Regular sm) line col mn none = .ok none) ∧
    (∀ smi, DecodedMap.get_original_function_name fi fn fin (.Index smi) line col mn none = .ok none) := by
  constructor <;> intro _ <;> cases mn <;> rfl

end Dispatch

/-! ### `SourceMapHermes::get_original_function_name` -/

/-- the model `HMap` of a generated `SourceMapHermes`: tokens field by field, function maps through `toFMap`
(Tie/Hermes.lean); the fields `functionName` does not read (`nsrc`, `nnames`, `raw`) are left empty -/
def toHMap (smh : SourceMapHermes) : Hermes.HMap :=
  { nsrc := 0, nnames := 0, toks := smh.sm.tokens.map toTok,
    fms := smh.function_maps.map (Option.map toFMap), raw := [] }

/-- **`get_original_function_name(bytecode_offset)`.**  For every `SourceMapHermes` whose tokens have `src_col` in
the `u32` range (the Rust type) and every model map `h` with the same tokens and the same function maps (in
particular `toHMap smh`): the translated function is the model's `functionName` - `lookup_token(0, offset)`, then
the scope of the token at its source id, source line and reported source column. -/
theorem tie_get_original_function_name (smh : SourceMapHermes) (h : Hermes.HMap)
    (htoks : h.toks = smh.sm.tokens.map toTok)
    (hfms : h.fms = smh.function_maps.map (Option.map toFMap))
    (hsc : ∀ t ∈ smh.sm.tokens, t.src_col < 4294967296) (off : Nat) :
    SourceMapHermes.get_original_function_name smh off = Hermes.functionName h off := by
  unfold SourceMapHermes.get_original_function_name Hermes.functionName
  rw [htoks, hfms, ← tie_lookup_token smh.sm 0 off hsc]
  cases SourceMap.lookup_token smh.sm 0 off with
  | error e => rfl
  | ok r =>
    cases r with
    | none => rfl
    | some tok =>
      simp only [Except.map, Option.map_some, tokView, tie_get_scope_for_token, toTok]

/-- the same with the canonical model map -/
theorem tie_get_original_function_name' (smh : SourceMapHermes)
    (hsc : ∀ t ∈ smh.sm.tokens, t.src_col < 4294967296) (off : Nat) :
    SourceMapHermes.get_original_function_name smh off = Hermes.functionName (toHMap smh) off :=
  tie_get_original_function_name smh (toHMap smh) rfl rfl hsc off

/-- in particular it never fails (no hypothesis: the lookup is total, the scope is total) -/
theorem get_original_function_name_total (smh : SourceMapHermes) (off : Nat) :
    ∃ r, SourceMapHermes.get_original_function_name smh off = .ok r := by
  unfold SourceMapHermes.get_original_function_name
  obtain ⟨r, hr⟩ := lookup_token_total smh.sm 0 off
  rw [hr]
  cases r with
  | none => exact ⟨_, rfl⟩
  | some tok =>
    simp only [tie_get_scope_for_token]
    exact ⟨_, rfl⟩

/-- **C14 through the dispatch**: `DecodedMap::get_original_function_name` on a Hermes map at line 0 is the model's
`functionName` at the column, whatever the minified name and the source view -/
theorem gen_c14_dispatch_hermes_model {SMI : Type} [DecidableEq SMI] {SV : Type} [DecidableEq SV]
    (fi : SMI → Nat → Nat → Res (Option Token))
    (fn : SourceMap → Nat → Nat → List Nat → SV → Res (Option (List Nat)))
    (fin : SMI → Nat → Nat → List Nat → SV → Res (Option (List Nat)))
    (smh : SourceMapHermes) (hsc : ∀ t ∈ smh.sm.tokens, t.src_col < 4294967296) (col : Nat)
    (mn : Option (List Nat)) (sv : Option SV) :
    DecodedMap.get_original_function_name fi fn fin (.Hermes smh) 0 col mn sv =
      Hermes.functionName (toHMap smh) col := by
  rw [gen_c14_dispatch_hermes, tie_get_original_function_name' smh hsc]
  simp only [ne_eq, not_true_eq_false, ↓reduceIte]

/-- **C14: the function name of a bytecode offset** (`C14.c14_scope_offset` for the generated function): when
`lookup_token(0, offset)` returns `tok`, the source of `tok` has a function map with offsets in non-decreasing order
and the source line is below `u32::MAX`, the answer is the name of the last scope offset at or before
`(src_line + 1, reported src_col)`. -/
theorem gen_c14_scope_offset (smh : SourceMapHermes) (hsc : ∀ t ∈ smh.sm.tokens, t.src_col < 4294967296)
    (off : Nat) (tok : Token) (fm : HermesFunctionMap)
    (hlk : SourceMap.lookup_token smh.sm 0 off = .ok (some tok))
    (hfm : smh.function_maps[tok.raw.src_id]? = some (some fm))
    (hs : Hermes.Metro.Sorted (toFMap fm).entries) (hl : tok.raw.src_line < NONE) :
    SourceMapHermes.get_original_function_name smh off =
      .ok (Hermes.Metro.scope (toFMap fm) tok.raw.src_line (Lookup.satAdd tok.raw.src_col tok.offset)) := by
  rw [tie_get_original_function_name' smh hsc]
  refine C14.c14_scope_offset (toHMap smh) off tok.idx (toTok tok.raw) _ (toFMap fm) ?_ ?_ hs hl
  · show Lookup.lookup (smh.sm.tokens.map toTok) (0, off) = _
    rw [← tie_lookup_token smh.sm 0 off hsc, hlk]
    rfl
  · show (smh.function_maps.map (Option.map toFMap))[tok.raw.src_id]? = _
    rw [List.getElem?_map, hfm]
    rfl

/-- a Hermes map: bytecode offsets 0.. → source 0 line 0 col 0, 20.. → source 0 line 0 col 12 (range token) -/
def exHermesMap : SourceMapHermes :=
  { sm := { (default : SmVerif.Gen.RsTypes.SourceMap) with
           tokens := [{ dst_line := 0, dst_col := 0, src_line := 0, src_col := 0, src_id := 0,
                         name_id := 4294967295, is_range := false },
                       { dst_line := 0, dst_col := 20, src_line := 0, src_col := 7, src_id := 0,
                         name_id := 4294967295, is_range := true }], names := [] },
    function_maps := [some exFMap, none] }

/-- the hypothesis of `tie_get_original_function_name` on a concrete map -/
example : ∀ t ∈ exHermesMap.sm.tokens, t.src_col < 4294967296 := by decide
-- offset 25 = range token at 20, 5 further: source column 12, the second scope (`b`)
example : SourceMapHermes.get_original_function_name exHermesMap 25 = .ok (some [98]) := by
  rw [tie_get_original_function_name' _ (by decide)]; rfl
-- offset 3: source column 0, the first scope (`a`)
example : SourceMapHermes.get_original_function_name exHermesMap 3 = .ok (some [97]) := by
  rw [tie_get_original_function_name' _ (by decide)]; rfl
/-- the hypotheses of `gen_c14_scope_offset` on the concrete map, offset 25 -/
example : ∃ tok, SourceMap.lookup_token exHermesMap.sm 0 25 = .ok (some tok) ∧
    exHermesMap.function_maps[tok.raw.src_id]? = some (some exFMap) ∧
    Hermes.Metro.Sorted (toFMap exFMap).entries ∧ tok.raw.src_line < NONE := by
  refine ⟨_, rfl, rfl, ?_, by decide⟩
  simp [Hermes.Metro.Sorted, toFMap, exFMap, toEntry, Lookup.posLe, Hermes.Entry.pos]
-- through the dispatch: line 0 only
example : DecodedMap.get_original_function_name (SourceMapIndex := Unit) (SourceView := Unit) (fun _ _ _ => .ok none)
    (fun _ _ _ _ _ => .ok none) (fun _ _ _ _ _ => .ok none) (.Hermes exHermesMap) 0 25 none none = .ok (some [98]) := by
  rw [gen_c14_dispatch_hermes, tie_get_original_function_name' _ (by decide)]; rfl
example : DecodedMap.get_original_function_name (SourceMapIndex := Unit) (SourceView := Unit) (fun _ _ _ => .ok none)
    (fun _ _ _ _ _ => .ok none) (fun _ _ _ _ _ => .ok none) (.Hermes exHermesMap) 1 25 (some [102]) (some ()) = .ok none := by
  rw [gen_c14_dispatch_hermes]; rfl

/-! ## B. tying the knot -/

mutual
/-- the closed datatype of the generated side: `DecodedMap` with `SourceMapIndex` tied back to it -/
inductive GMap where
  | regular (sm : SourceMap)
  | hermes (smh : SourceMapHermes)
  | index (secs : GSecs)
  deriving DecidableEq, Repr
/-- `Vec<SourceMapSection>`: offset, url, embedded map (absent: `unres`) - the same shape as the model's `Secs` -/
inductive GSecs where
  | nil
  | unres (offset : Nat × Nat) (url : Option (List Nat)) (rest : GSecs)
  | cons (offset : Nat × Nat) (url : Option (List Nat)) (d : GMap) (rest : GSecs)
  deriving DecidableEq, Repr
end

/-- the sections as the generated structure: a list of `SourceMapSection GMap` -/
def toSections : GSecs → List (SourceMapSection GMap)
  | .nil => []
  | .unres o u rest => { offset := o, url := u, map := none } :: toSections rest
  | .cons o u d rest => { offset := o, url := u, map := some d } :: toSections rest

/-- a `GMap` as the generated enum, instantiated at `SourceMapIndex := SourceMapIndex GMap` -/
def toDecoded : GMap → DecodedMap (SourceMapIndex GMap)
  | .regular sm => .Regular sm
  | .hermes smh => .Hermes smh
  | .index secs => .Index { sections := toSections secs }

/-- **the closed lookup**: every level is the GENERATED `DecodedMap.lookup_token`, its index callee the GENERATED
`SourceMapIndex.lookup_token`, whose callee is the recursive call.  `fuel` bounds the nesting depth (the Rust
recursion is on the finite tree of maps); running out of it is `.error .diverge`.  The two
`get_original_function_name` parameters of the unit are not used by `lookup_token`. -/
def gLookup : Nat → GMap → Nat → Nat → Res (Option Token)
  | 0, _, _, _ => .error .diverge
  | fuel + 1, g, line, col =>
    DecodedMap.lookup_token (SourceView := Unit)
      (fun smi l c => SourceMapIndex.lookup_token (gLookup fuel) smi l c)
      (fun _ _ _ _ _ => .ok none) (fun _ _ _ _ _ => .ok none) (toDecoded g) line col

mutual
/-- nesting depth: `gLookup` needs `depth g < fuel` -/
def depth : GMap → Nat
  | .regular _ => 0
  | .hermes _ => 0
  | .index secs => depthSecs secs + 1
def depthSecs : GSecs → Nat
  | .nil => 0
  | .unres _ _ rest => depthSecs rest
  | .cons _ _ d rest => max (depth d) (depthSecs rest)
end

mutual
/-- the Rust types: `src_col` of every token of every plain map inside is a `u32` -/
def u32ok : GMap → Prop
  | .regular sm => ∀ t ∈ sm.tokens, t.src_col < 4294967296
  | .hermes smh => ∀ t ∈ smh.sm.tokens, t.src_col < 4294967296
  | .index secs => u32okSecs secs
def u32okSecs : GSecs → Prop
  | .nil => True
  | .unres _ _ rest => u32okSecs rest
  | .cons _ _ d rest => u32ok d ∧ u32okSecs rest
end

/-- the model map of a generated `SourceMap`: tokens field by field (`toTok`), the names table as it is; the
translation drops the `sources` table (no translated function reads it), so it is a parameter: `srcs sm` is the
sources table of `sm` - every statement below holds for EVERY choice of `srcs`. -/
def absLeaf (srcs : SourceMap → List Bytes) (sm : SourceMap) : SMap :=
  { tokens := sm.tokens.map toTok, names := sm.names, sources := srcs sm }

mutual
/-- the abstraction into the model's `DMap`: structure preserved, sections in the same order, offsets and urls
unchanged, `hermes` by its embedded map, the index's `file` absent (the lookup does not read it) -/
def absG (srcs : SourceMap → List Bytes) : GMap → DMap
  | .regular sm => .regular (absLeaf srcs sm)
  | .hermes smh => .hermes (absLeaf srcs smh.sm)
  | .index secs => .index none (absSecs srcs secs)
def absSecs (srcs : SourceMap → List Bytes) : GSecs → Secs
  | .nil => .nil
  | .unres o u rest => .unres o.1 o.2 u (absSecs srcs rest)
  | .cons o u d rest => .cons o.1 o.2 u (absG srcs d) (absSecs srcs rest)
end

/-- what the model reports of a `Token` (`Origin`): source and name resolved in the token's own map (the `sm` field
of the `Token`), original line, and the original column `get_src_col` reports (range offset added, saturating) -/
def tokOrigin (srcs : SourceMap → List Bytes) (tok : Token) : Origin :=
  Index.originOf (absLeaf srcs tok.sm) (toTok tok.raw) (Lookup.satAdd tok.raw.src_col tok.offset)

/-! ### list views of the sections -/

theorem offsets_abs (srcs : SourceMap → List Bytes) : (secs : GSecs) →
    Index.offsets (absSecs srcs secs) = (toSections secs).map (·.offset)
  | .nil => rfl
  | .unres _ _ rest => by rw [absSecs, Index.offsets, toSections, List.map_cons, offsets_abs srcs rest]
  | .cons _ _ _ rest => by rw [absSecs, Index.offsets, toSections, List.map_cons, offsets_abs srcs rest]

theorem sections_abs (srcs : SourceMap → List Bytes) : (secs : GSecs) →
    IndexP.sections (absSecs srcs secs) = (toSections secs).map (fun s => (s.offset, s.map.map (absG srcs)))
  | .nil => rfl
  | .unres _ _ rest => by
    rw [absSecs, IndexP.sections, toSections, List.map_cons, sections_abs srcs rest]; rfl
  | .cons _ _ _ rest => by
    rw [absSecs, IndexP.sections, toSections, List.map_cons, sections_abs srcs rest]; rfl

theorem depth_mem : (secs : GSecs) → ∀ s ∈ toSections secs, ∀ d, s.map = some d → depth d ≤ depthSecs secs
  | .nil, s, hs, _, _ => by simp only [toSections, List.not_mem_nil] at hs
  | .unres _ _ rest, s, hs, d, hd => by
    simp only [toSections, List.mem_cons] at hs
    rw [depthSecs]
    rcases hs with rfl | hs
    · cases hd
    · exact depth_mem rest s hs d hd
  | .cons _ _ d' rest, s, hs, d, hd => by
    simp only [toSections, List.mem_cons] at hs
    rw [depthSecs]
    rcases hs with rfl | hs
    · simp only [Option.some.injEq] at hd
      subst hd
      exact Nat.le_max_left _ _
    · exact Nat.le_trans (depth_mem rest s hs d hd) (Nat.le_max_right _ _)

theorem u32ok_mem : (secs : GSecs) → u32okSecs secs → ∀ s ∈ toSections secs, ∀ d, s.map = some d → u32ok d
  | .nil, _, s, hs, _, _ => by simp only [toSections, List.not_mem_nil] at hs
  | .unres _ _ rest, h, s, hs, d, hd => by
    simp only [toSections, List.mem_cons] at hs
    rw [u32okSecs] at h
    rcases hs with rfl | hs
    · cases hd
    · exact u32ok_mem rest h s hs d hd
  | .cons _ _ d' rest, h, s, hs, d, hd => by
    simp only [toSections, List.mem_cons] at hs
    rw [u32okSecs] at h
    rcases hs with rfl | hs
    · simp only [Option.some.injEq] at hd
      subst hd
      exact h.1
    · exact u32ok_mem rest h.2 s hs d hd

/-! ### unfolding `gLookup` (raw level) -/

theorem gLookup_zero (g : GMap) (line col : Nat) : gLookup 0 g line col = .error .diverge := rfl

/-- a plain map: `SourceMap::lookup_token` -/
theorem gLookup_regular (fuel : Nat) (sm : SourceMap) (line col : Nat) :
    gLookup (fuel + 1) (.regular sm) line col = SourceMap.lookup_token sm line col := by
  rw [gLookup, toDecoded, gen_c04_dispatch_regular]

/-- a Hermes map: `SourceMap::lookup_token` of the embedded map -/
theorem gLookup_hermes (fuel : Nat) (smh : SourceMapHermes) (line col : Nat) :
    gLookup (fuel + 1) (.hermes smh) line col = SourceMap.lookup_token smh.sm line col := by
  rw [gLookup, toDecoded, gen_c04_dispatch_hermes]

/-- an index: the generated `SourceMapIndex.lookup_token` with the closed lookup (one unit of fuel less) as the
callee … -/
theorem gLookup_index_gen (fuel : Nat) (secs : GSecs) (line col : Nat) :
    gLookup (fuel + 1) (.index secs) line col =
      SourceMapIndex.lookup_token (gLookup fuel) { sections := toSections secs } line col := by
  rw [gLookup, toDecoded, gen_c04_dispatch_index]

/-- … that is (A): the section `glb` chooses answers, at the relative position -/
theorem gLookup_index (fuel : Nat) (secs : GSecs) (line col : Nat) :
    gLookup (fuel + 1) (.index secs) line col = indexAnswer (gLookup fuel) (toSections secs) line col := by
  rw [gLookup_index_gen, tie_index_lookup_token]

/-- **fuel is irrelevant above the nesting depth** (one step) -/
theorem gLookup_fuel_succ : ∀ (fuel : Nat) (g : GMap), depth g < fuel → ∀ line col,
    gLookup (fuel + 1) g line col = gLookup fuel g line col := by
  intro fuel
  induction fuel with
  | zero => intro g h; omega
  | succ fuel ih =>
    intro g h line col
    cases g with
    | regular sm => rw [gLookup_regular, gLookup_regular]
    | hermes smh => rw [gLookup_hermes, gLookup_hermes]
    | index secs =>
      rw [gLookup_index, gLookup_index]
      unfold indexAnswer
      rw [depth] at h
      cases Lookup.glb ((toSections secs).map (·.offset)) (line, col) with
      | none => rfl
      | some i =>
        simp only
        cases hs : (toSections secs)[i]? with
        | none => rfl
        | some s =>
          simp only
          unfold inSectionG
          cases hm : s.map with
          | none => rfl
          | some d =>
            simp only
            have := depth_mem secs s (List.mem_of_getElem? hs) d hm
            exact ih d (by omega) _ _

/-- **fuel is irrelevant above the nesting depth**: any two amounts of fuel above `depth g` give the same result -/
theorem gLookup_fuel (g : GMap) (fuel₁ fuel₂ : Nat) (h₁ : depth g < fuel₁) (h₂ : depth g < fuel₂)
    (line col : Nat) : gLookup fuel₁ g line col = gLookup fuel₂ g line col := by
  have key : ∀ k fuel, depth g < fuel → gLookup (fuel + k) g line col = gLookup fuel g line col := by
    intro k
    induction k with
    | zero => intro fuel _; rfl
    | succ k ih =>
      intro fuel hf
      rw [← Nat.add_assoc, gLookup_fuel_succ (fuel + k) g (by omega), ih fuel hf]
  rcases Nat.le_total fuel₁ fuel₂ with h | h
  · obtain ⟨k, rfl⟩ := Nat.exists_eq_add_of_le h
    exact (key k fuel₁ h₁).symm
  · obtain ⟨k, rfl⟩ := Nat.exists_eq_add_of_le h
    exact key k fuel₂ h₂

/-- with enough fuel the closed lookup never diverges - and, the leaves being total (`lookup_token_total`) and the
index level adding no failure (A), it never fails at all: **for every closed map, any arrangement of sections, any
token order inside, every query** -/
theorem gLookup_total : ∀ (fuel : Nat) (g : GMap), depth g < fuel → ∀ line col,
    ∃ r, gLookup fuel g line col = .ok r := by
  intro fuel
  induction fuel with
  | zero => intro g h; omega
  | succ fuel ih =>
    intro g h line col
    cases g with
    | regular sm => rw [gLookup_regular]; exact lookup_token_total sm line col
    | hermes smh => rw [gLookup_hermes]; exact lookup_token_total smh.sm line col
    | index secs =>
      rw [gLookup_index]
      unfold indexAnswer
      rw [depth] at h
      cases Lookup.glb ((toSections secs).map (·.offset)) (line, col) with
      | none => exact ⟨_, rfl⟩
      | some i =>
        simp only
        cases hs : (toSections secs)[i]? with
        | none => exact ⟨_, rfl⟩
        | some s =>
          simp only
          unfold inSectionG
          cases hm : s.map with
          | none => exact ⟨_, rfl⟩
          | some d =>
            simp only
            have := depth_mem secs s (List.mem_of_getElem? hs) d hm
            exact ih d (by omega) _ _

/-! ### the leaves -/

/-- the `Token` that `lookup_token` returns belongs to the map that was asked -/
theorem lookup_token_sm (sm : SourceMap) (line col : Nat) (tok : Token)
    (h : SourceMap.lookup_token sm line col = .ok (some tok)) : tok.sm = sm := by
  unfold SourceMap.lookup_token at h
  simp only [tie_glb] at h
  cases hglb : Lookup.glb (sm.tokens.map fun t => (t.dst_line, t.dst_col)) (line, col) with
  | none => simp only [hglb, Option.bind_none, Except.ok.injEq, reduceCtorEq] at h
  | some j =>
    simp only [hglb, Option.bind_some] at h
    cases hj : sm.tokens[j]? with
    | none => simp only [hj, Option.map_none, Except.ok.injEq, reduceCtorEq] at h
    | some r =>
      simp only [hj, Option.map_some, Token.is_range, Token.get_dst_line, Token.get_dst_col] at h
      repeat' split at h
      all_goals first
        | (simp only [reduceCtorEq] at h; done)
        | (simp only [Except.ok.injEq, Option.some.injEq] at h; subst h; rfl)

/-- **the leaf.**  `SourceMap::lookup_token` read through `tokOrigin` is the model's `leafLookup` on the model map
of the leaf (tokens with `src_col` a `u32`) -/
theorem tie_leaf (srcs : SourceMap → List Bytes) (sm : SourceMap) (line col : Nat)
    (hsc : ∀ t ∈ sm.tokens, t.src_col < 4294967296) :
    (SourceMap.lookup_token sm line col).map (Option.map (tokOrigin srcs)) =
      Index.leafLookup (absLeaf srcs sm) (line, col) := by
  unfold Index.leafLookup
  have hm : (absLeaf srcs sm).tokens = sm.tokens.map toTok := rfl
  rw [hm, ← tie_lookup_token sm line col hsc]
  cases hl : SourceMap.lookup_token sm line col with
  | error e => rfl
  | ok r =>
    cases r with
    | none => rfl
    | some tok =>
      have := lookup_token_sm sm line col tok hl
      simp only [Except.map, Option.map_some, tokView, tokOrigin, this]

/-! ### the theorem -/

/-- **B. the closed lookup on the generated side is the model's `dmapLookup`.**  For every sources assignment
`srcs`, every closed map `g` whose tokens have `src_col` in the `u32` range, every `fuel` above the nesting depth
and every query: errors to the same errors (there are none, `gLookup_total`), `None` to `None`, a found `Token` to
the `Origin` the model reports for it - source and name strings resolved in the token's own leaf map, original line,
and the original column as `get_src_col` reports it.  No hypothesis on the order of sections or tokens. -/
theorem tie_gLookup (srcs : SourceMap → List Bytes) : ∀ (fuel : Nat) (g : GMap), u32ok g → depth g < fuel →
    ∀ line col, (gLookup fuel g line col).map (Option.map (tokOrigin srcs)) =
      Index.dmapLookup (absG srcs g) (line, col) := by
  intro fuel
  induction fuel with
  | zero => intro g _ h; omega
  | succ fuel ih =>
    intro g hu h line col
    cases g with
    | regular sm =>
      rw [gLookup_regular, absG, Index.dmapLookup]
      rw [u32ok] at hu
      exact tie_leaf srcs sm line col hu
    | hermes smh =>
      rw [gLookup_hermes, absG, Index.dmapLookup]
      rw [u32ok] at hu
      exact tie_leaf srcs smh.sm line col hu
    | index secs =>
      rw [gLookup_index, absG, IndexP.dmapLookup_index, offsets_abs, sections_abs]
      unfold indexAnswer
      rw [depth] at h
      rw [u32ok] at hu
      cases Lookup.glb ((toSections secs).map (·.offset)) (line, col) with
      | none => rfl
      | some i =>
        simp only [List.getElem?_map]
        cases hs : (toSections secs)[i]? with
        | none => rfl
        | some s =>
          simp only [Option.map_some]
          unfold inSectionG IndexP.inSection
          cases hm : s.map with
          | none => rfl
          | some d =>
            simp only [Option.map_some]
            have hd := depth_mem secs s (List.mem_of_getElem? hs) d hm
            have hud := u32ok_mem secs hu s (List.mem_of_getElem? hs) d hm
            exact ih d hud (by omega) _ _

/-- the same for the model's `indexLookup` (= `SourceMapIndex::lookup_token` at the top) -/
theorem tie_gLookup_index (srcs : SourceMap → List Bytes) (secs : GSecs) (hu : u32okSecs secs) (fuel : Nat)
    (hf : depthSecs secs + 1 < fuel) (line col : Nat) :
    (gLookup fuel (.index secs) line col).map (Option.map (tokOrigin srcs)) =
      Index.indexLookup (absSecs srcs secs) (line, col) := by
  have := tie_gLookup srcs fuel (.index secs) (by rw [u32ok]; exact hu) (by rw [depth]; exact hf) line col
  rw [absG] at this
  exact this

/-! ### the raw level: which token of which leaf

`Origin` shows the resolved strings only.  To state that the generated code and the model find the SAME TOKEN - its
index in its leaf map, its raw fields (source id, name id, …) and the reported column - the model's `dmapLookup` /
`lookupAt` are repeated here with the leaf answering `(leaf map, index, token, reported column)` instead of the
`Origin` computed from these (`rawLookup`, `rawAt`: the same text as `Index.dmapLookup`, `Index.lookupAt`, panic arms
included); `dmapLookup_eq_raw` shows `dmapLookup` is `rawLookup` followed by `originOf`. -/

/-- a hit of the lookup before it is turned into an `Origin`: leaf map, index, token, reported source column -/
abbrev RawHit := SMap × Nat × Tok × Nat

def hitOrigin (h : RawHit) : Origin := Index.originOf h.1 h.2.2.1 h.2.2.2

/-- `Index.leafLookup` without the final `originOf` -/
def rawLeaf (m : SMap) (q : Lookup.Pos) : Res (Option RawHit) :=
  match Lookup.lookup m.tokens q with
  | .error e => .error e
  | .ok none => .ok none
  | .ok (some r) => .ok (some (m, r))

mutual
/-- `Index.dmapLookup`, raw -/
def rawLookup : DMap → Lookup.Pos → Res (Option RawHit)
  | .regular m, q => rawLeaf m q
  | .hermes m, q => rawLeaf m q
  | .index _ secs, q =>
    match Lookup.glb (Index.offsets secs) q with
    | none => .ok none
    | some i => rawAt secs i q
/-- `Index.lookupAt`, raw -/
def rawAt : Secs → Nat → Lookup.Pos → Res (Option RawHit)
  | .nil, _, _ => .ok none
  | .unres _ _ _ _, 0, _ => .ok none
  | .unres _ _ _ rest, i + 1, q => rawAt rest i q
  | .cons ol oc _ d _, 0, q =>
    if q.1 < ol then .error .panic
    else if q.1 = ol then
      if q.2 < oc then .error .panic else rawLookup d (q.1 - ol, q.2 - oc)
    else rawLookup d (q.1 - ol, q.2)
  | .cons _ _ _ _ rest, i + 1, q => rawAt rest i q
end

theorem leafLookup_eq_raw (m : SMap) (q : Lookup.Pos) :
    Index.leafLookup m q = (rawLeaf m q).map (Option.map hitOrigin) := by
  unfold Index.leafLookup rawLeaf
  cases Lookup.lookup m.tokens q with
  | error e => rfl
  | ok r =>
    cases r with
    | none => rfl
    | some p => obtain ⟨i, t, c⟩ := p; rfl

mutual
/-- the model's lookup is the raw lookup followed by `originOf` (model only; every `DMap`) -/
theorem dmapLookup_eq_raw : (d : DMap) → ∀ q, Index.dmapLookup d q = (rawLookup d q).map (Option.map hitOrigin)
  | .regular m, q => by rw [Index.dmapLookup, rawLookup]; exact leafLookup_eq_raw m q
  | .hermes m, q => by rw [Index.dmapLookup, rawLookup]; exact leafLookup_eq_raw m q
  | .index _ secs, q => by
    rw [Index.dmapLookup, rawLookup]
    cases Lookup.glb (Index.offsets secs) q with
    | none => rfl
    | some i => exact lookupAt_eq_raw secs i q
theorem lookupAt_eq_raw : (secs : Secs) → ∀ i q,
    Index.lookupAt secs i q = (rawAt secs i q).map (Option.map hitOrigin)
  | .nil, _, _ => by rw [Index.lookupAt, rawAt]; rfl
  | .unres _ _ _ _, 0, _ => by rw [Index.lookupAt, rawAt]; rfl
  | .unres _ _ _ rest, i + 1, q => by rw [Index.lookupAt, rawAt]; exact lookupAt_eq_raw rest i q
  | .cons ol oc _ d _, 0, q => by
    rw [Index.lookupAt, rawAt]
    by_cases h1 : q.1 < ol
    · simp only [h1, ↓reduceIte]; rfl
    · simp only [h1, ↓reduceIte]
      by_cases h2 : q.1 = ol
      · simp only [h2, ↓reduceIte]
        by_cases h3 : q.2 < oc
        · simp only [h3, ↓reduceIte]; rfl
        · simp only [h3, ↓reduceIte]
          exact dmapLookup_eq_raw d _
      · simp only [h2, ↓reduceIte]
        exact dmapLookup_eq_raw d _
  | .cons _ _ _ _ rest, i + 1, q => by rw [Index.lookupAt, rawAt]; exact lookupAt_eq_raw rest i q
end

/-- one section, raw -/
def rawInSection (s : Lookup.Pos × Option DMap) (q : Lookup.Pos) : Res (Option RawHit) :=
  match s.2 with
  | none => .ok none
  | some d => rawLookup d (Index.Spec.subPos q s.1)

theorem rawAt_eq : (secs : Secs) → (i : Nat) → (q : Lookup.Pos) →
    (∀ s, (IndexP.sections secs)[i]? = some s → Lookup.posLe s.1 q = true) →
    rawAt secs i q = match (IndexP.sections secs)[i]? with
      | none => .ok none
      | some s => rawInSection s q
  | .nil, i, q, _ => by simp only [rawAt, IndexP.sections, List.getElem?_nil]
  | .unres _ _ _ _, 0, q, _ => by simp only [rawAt, IndexP.sections, List.getElem?_cons_zero, rawInSection]
  | .unres _ _ _ rest, i + 1, q, h => by
    rw [rawAt, rawAt_eq rest i q (fun s hs => h s (by simpa only [IndexP.sections, List.getElem?_cons_succ] using hs))]
    simp only [IndexP.sections, List.getElem?_cons_succ]
  | .cons ol oc _ d _, 0, q, h => by
    have hle := h ((ol, oc), some d) (by simp only [IndexP.sections, List.getElem?_cons_zero])
    rw [Lookup.posLe_iff] at hle
    simp only at hle
    rw [rawAt]
    simp only [IndexP.sections, List.getElem?_cons_zero, rawInSection, Index.Spec.subPos]
    have h1 : ¬ q.1 < ol := by omega
    by_cases h2 : q.1 = ol
    · have h3 : ¬ q.2 < oc := by omega
      simp only [h2, h3, ↓reduceIte, Nat.lt_irrefl]
    · simp only [h1, h2, ↓reduceIte]
  | .cons _ _ _ _ rest, i + 1, q, h => by
    rw [rawAt, rawAt_eq rest i q (fun s hs => h s (by simpa only [IndexP.sections, List.getElem?_cons_succ] using hs))]
    simp only [IndexP.sections, List.getElem?_cons_succ]

/-- the raw index lookup in terms of the chosen section (as `IndexP.dmapLookup_index`) -/
theorem rawLookup_index (f : Option Bytes) (secs : Secs) (q : Lookup.Pos) :
    rawLookup (.index f secs) q = match Lookup.glb (Index.offsets secs) q with
      | none => .ok none
      | some i => match (IndexP.sections secs)[i]? with
        | none => .ok none
        | some s => rawInSection s q := by
  rw [rawLookup]
  cases hg : Lookup.glb (Index.offsets secs) q with
  | none => rfl
  | some i =>
    simp only
    apply rawAt_eq
    intro s hs
    have := (IndexP.glb_le_any _ q i hg).2
    rw [IndexP.getD_offsets secs i s hs] at this
    exact this

/-- a `Token` as a raw hit: its leaf map (`sm` field) in the model, and `tokView` (Tie/Lookup.lean): index, raw
token field by field, reported source column -/
def tokHit (srcs : SourceMap → List Bytes) (tok : Token) : RawHit := (absLeaf srcs tok.sm, tokView tok)

theorem hitOrigin_tokHit (srcs : SourceMap → List Bytes) (tok : Token) :
    hitOrigin (tokHit srcs tok) = tokOrigin srcs tok := rfl

theorem tie_leaf_raw (srcs : SourceMap → List Bytes) (sm : SourceMap) (line col : Nat)
    (hsc : ∀ t ∈ sm.tokens, t.src_col < 4294967296) :
    (SourceMap.lookup_token sm line col).map (Option.map (tokHit srcs)) =
      rawLeaf (absLeaf srcs sm) (line, col) := by
  unfold rawLeaf
  have hm : (absLeaf srcs sm).tokens = sm.tokens.map toTok := rfl
  rw [hm, ← tie_lookup_token sm line col hsc]
  cases hl : SourceMap.lookup_token sm line col with
  | error e => rfl
  | ok r =>
    cases r with
    | none => rfl
    | some tok =>
      have := lookup_token_sm sm line col tok hl
      simp only [Except.map, Option.map_some, tokHit, this]

/-- **B, raw.**  The closed lookup on the generated side finds the same token of the same leaf as the model: same
failure, `None` in the same cases, and for a hit the same leaf map, the same index in it, the same raw token (all
seven fields) and the same reported source column. -/
theorem tie_gLookup_raw (srcs : SourceMap → List Bytes) : ∀ (fuel : Nat) (g : GMap), u32ok g → depth g < fuel →
    ∀ line col, (gLookup fuel g line col).map (Option.map (tokHit srcs)) =
      rawLookup (absG srcs g) (line, col) := by
  intro fuel
  induction fuel with
  | zero => intro g _ h; omega
  | succ fuel ih =>
    intro g hu h line col
    cases g with
    | regular sm =>
      rw [gLookup_regular, absG, rawLookup]
      rw [u32ok] at hu
      exact tie_leaf_raw srcs sm line col hu
    | hermes smh =>
      rw [gLookup_hermes, absG, rawLookup]
      rw [u32ok] at hu
      exact tie_leaf_raw srcs smh.sm line col hu
    | index secs =>
      rw [gLookup_index, absG, rawLookup_index, offsets_abs, sections_abs]
      unfold indexAnswer
      rw [depth] at h
      rw [u32ok] at hu
      cases Lookup.glb ((toSections secs).map (·.offset)) (line, col) with
      | none => rfl
      | some i =>
        simp only [List.getElem?_map]
        cases hs : (toSections secs)[i]? with
        | none => rfl
        | some s =>
          simp only [Option.map_some]
          unfold inSectionG rawInSection
          cases hm : s.map with
          | none => rfl
          | some d =>
            simp only [Option.map_some]
            have hd := depth_mem secs s (List.mem_of_getElem? hs) d hm
            have hud := u32ok_mem secs hu s (List.mem_of_getElem? hs) d hm
            exact ih d hud (by omega) _ _

/-! examples: an index with a nested index, an unresolved section and a Hermes map -/

/-- a leaf with a names table (token C has name 0) -/
def exLeafA : SourceMap := { (default : SmVerif.Gen.RsTypes.SourceMap) with tokens := [exTokA, exTokB, exTokC], names := [[110]] }
def exLeafB : SourceMap :=
  { (default : SmVerif.Gen.RsTypes.SourceMap) with
    tokens := [{ dst_line := 0, dst_col := 2, src_line := 0, src_col := 0, src_id := 1, name_id := 4294967295,
                 is_range := false },
               { dst_line := 1, dst_col := 1, src_line := 9, src_col := 9, src_id := 0, name_id := 4294967295,
                 is_range := false }], names := [] }
/-- sections: 0:0 a nested index (one section at 0:0 holding `exLeafA`), 4:0 unresolved, 5:3 a Hermes map over
`exLeafB` -/
def exG : GMap :=
  .index (.cons (0, 0) none (.index (.cons (0, 0) none (.regular exLeafA) .nil))
    (.unres (4, 0) (some [117])
      (.cons (5, 3) none (.hermes { sm := exLeafB, function_maps := [] }) .nil)))
/-- sources tables: `a`, `b` for `exLeafA`; `c`, `d` for every other map -/
def exSrcs (sm : SourceMap) : List Bytes := if sm = exLeafA then [[97], [98]] else [[99], [100]]

/-- the hypotheses of `tie_gLookup` on the concrete map -/
theorem exG_u32ok : u32ok exG := by
  simp only [exG, u32ok, u32okSecs, and_true]
  exact ⟨by decide, by decide⟩
theorem exG_depth : depth exG < 3 := by decide

-- 0:9 → nested index → `exLeafA` at 0:9: the range token B (generated 0:4, original 1:7), 5 columns further
example : (gLookup 3 exG 0 9).map (Option.map (tokOrigin exSrcs)) = .ok (some ⟨some [97], 1, 12, none⟩) := by
  rw [tie_gLookup exSrcs 3 exG exG_u32ok exG_depth]; rfl
-- 2:7 → `exLeafA` at 2:7: the range token C with a name, its column saturating
example : (gLookup 3 exG 2 7).map (Option.map (tokOrigin exSrcs)) =
    .ok (some ⟨some [97], 3, 4294967295, some [110]⟩) := by
  rw [tie_gLookup exSrcs 3 exG exG_u32ok exG_depth]; rfl
-- 4:2 lies in the unresolved section
example : (gLookup 3 exG 4 2).map (Option.map (tokOrigin exSrcs)) = .ok none := by
  rw [tie_gLookup exSrcs 3 exG exG_u32ok exG_depth]; rfl
-- 5:5 → the Hermes section (offset 5:3, first line: column 5 - 3) → `exLeafB` at 0:2, source 1 of ITS table
example : (gLookup 3 exG 5 5).map (Option.map (tokOrigin exSrcs)) = .ok (some ⟨some [100], 0, 0, none⟩) := by
  rw [tie_gLookup exSrcs 3 exG exG_u32ok exG_depth]; rfl
-- 5:2 is left of the column offset of 5:3: the previous (unresolved) section is chosen
example : (gLookup 3 exG 5 2).map (Option.map (tokOrigin exSrcs)) = .ok none := by
  rw [tie_gLookup exSrcs 3 exG exG_u32ok exG_depth]; rfl
-- 6:1 → the Hermes section, not its first line: the column stays
example : (gLookup 3 exG 6 1).map (Option.map (tokOrigin exSrcs)) = .ok (some ⟨some [99], 9, 9, none⟩) := by
  rw [tie_gLookup exSrcs 3 exG exG_u32ok exG_depth]; rfl
-- the raw level: the `Token` itself (index 1 of `exLeafA`, offset 5)
example : gLookup 3 exG 0 9 = .ok (some { raw := exTokB, sm := exLeafA, idx := 1, offset := 5 }) := by rfl
-- the same through the raw tie: leaf `exLeafA`, index 1, token B, reported column 12
example : (gLookup 3 exG 0 9).map (Option.map (tokHit exSrcs)) =
    .ok (some (absLeaf exSrcs exLeafA, 1, toTok exTokB, 12)) := by
  rw [tie_gLookup_raw exSrcs 3 exG exG_u32ok exG_depth]; rfl
-- too little fuel for the nested index
example : gLookup 2 exG 0 9 = .error .diverge := by rfl
example : gLookup 7 exG 0 9 = gLookup 3 exG 0 9 := gLookup_fuel exG 7 3 (by decide) (by decide) 0 9

/-! ## C. corollaries about the generated code (C08) -/

open Lookup in
/-- **C08 (1), one level: the offset subtraction never panics.**  Whatever the callee, the section list (any
order) and the query: if the callee does not panic, `SourceMapIndex::lookup_token` does not - the checked
`line - off_line` and `col - off_col` never underflow.  (Code-level counterpart of `C08.c08_lookup_no_underflow`.) -/
theorem gen_c08_no_underflow {DM : Type} [DecidableEq DM] (f : DM → Nat → Nat → Res (Option Token))
    (smi : SourceMapIndex DM) (line col : Nat) (hf : ∀ d l c, f d l c ≠ .error .panic) :
    SourceMapIndex.lookup_token f smi line col ≠ .error .panic := by
  intro h
  obtain ⟨s, _, d, _, _, he⟩ := index_lookup_token_error f smi line col .panic h
  exact hf d _ _ he

/-- the hypothesis on a concrete callee -/
example : ∀ d l c, echo d l c ≠ .error .panic := by intro d l c h; cases h
example : SourceMapIndex.lookup_token echo exDescending 4 1 ≠ .error .panic :=
  gen_c08_no_underflow echo exDescending 4 1 (by intro d l c h; cases h)

/-- the same for every error: a callee that always answers makes the index lookup always answer -/
theorem gen_c08_total_of_total {DM : Type} [DecidableEq DM] (f : DM → Nat → Nat → Res (Option Token))
    (smi : SourceMapIndex DM) (line col : Nat) (hf : ∀ d l c, ∃ r, f d l c = .ok r) :
    ∃ r, SourceMapIndex.lookup_token f smi line col = .ok r := by
  cases h : SourceMapIndex.lookup_token f smi line col with
  | ok r => exact ⟨r, rfl⟩
  | error e =>
    obtain ⟨s, _, d, _, _, he⟩ := index_lookup_token_error f smi line col e h
    obtain ⟨r, hr⟩ := hf d (relLine line s.offset) (relCol line col s.offset)
    rw [hr] at he; cases he

/-- **C08 (1), closed: a lookup through an index never fails** - no panic from the offset subtractions at any
nesting level, none from the leaves (`lookup_token_total`), for any arrangement of sections (unsorted, equal
offsets, unresolved, nested) and any token order inside.  (Counterpart of `C08.c08_safe_lookup`; the hypothesis
`leavesSortedSecs` of the model theorem is not needed.) -/
theorem gen_c08_lookup_total (g : GMap) (fuel : Nat) (hf : depth g < fuel) (line col : Nat) :
    ∃ r, gLookup fuel g line col = .ok r := gLookup_total fuel g hf line col

/-- **C08 (1), against the model's statement**: the closed index lookup is, level by level, "the section `glb`
chooses, asked at the relative position" (`C08.c08_lookup_no_underflow` transported along `tie_gLookup_index`) -/
theorem gen_c08_model_no_underflow (srcs : SourceMap → List Bytes) (secs : GSecs) (hu : u32okSecs secs) (fuel : Nat)
    (hf : depthSecs secs + 1 < fuel) (line col : Nat) :
    (gLookup fuel (.index secs) line col).map (Option.map (tokOrigin srcs)) =
      match Lookup.glb (Index.offsets (absSecs srcs secs)) (line, col) with
      | none => .ok none
      | some i => match (IndexP.sections (absSecs srcs secs))[i]? with
        | none => .ok none
        | some s => IndexP.inSection s (line, col) := by
  rw [tie_gLookup_index srcs secs hu fuel hf]
  exact C08.c08_lookup_no_underflow _ _

open Lookup in
/-- **C08 (2): the choice of the section.**  (a) for ANY section list: when no section's offset is at or before the
query, the answer is `None`; (b) with strictly increasing offsets (what `decode_index` establishes by sorting - for
distinct offsets): a section `s` whose offset is at or before the query and not before any other such offset - the
LAST section at or before the query - is the one that answers.  (`C08.c08_section_choice` for the generated
function; the order hypothesis is needed for (b): `exDescending` above.) -/
theorem gen_c08_section_choice {DM : Type} [DecidableEq DM] (f : DM → Nat → Nat → Res (Option Token))
    (smi : SourceMapIndex DM) (line col : Nat) :
    ((∀ s ∈ smi.sections, posLe s.offset (line, col) = false) →
      SourceMapIndex.lookup_token f smi line col = .ok none) ∧
    ((smi.sections.map (·.offset)).Pairwise (fun a b => posLt a b = true) →
      ∀ s ∈ smi.sections, posLe s.offset (line, col) = true →
        (∀ s' ∈ smi.sections, posLe s'.offset (line, col) = true → posLe s'.offset s.offset = true) →
        SourceMapIndex.lookup_token f smi line col = inSectionG f s line col) := by
  have hgetD : ∀ k (hk : k < smi.sections.length),
      (smi.sections.map (·.offset)).getD k (0, 0) = smi.sections[k].offset := by
    intro k hk
    simp only [List.getD_eq_getElem?_getD, List.getElem?_map, List.getElem?_eq_getElem hk, Option.map_some,
      Option.getD_some]
  constructor
  · intro hnone
    rcases index_lookup_token_cases f smi line col with ⟨_, h0⟩ | ⟨i, s, _, hs, hle, _⟩
    · exact h0
    · rw [hnone s (List.mem_of_getElem? hs)] at hle; cases hle
  · intro hinc s hs hle hmax
    have hsk := IndexP.sortedK_of_strict hinc
    obtain ⟨k, hk, hks⟩ := List.getElem_of_mem hs
    have hkl : k < (smi.sections.map (·.offset)).length := by rw [List.length_map]; exact hk
    rw [tie_index_lookup_token, indexAnswer]
    cases hg : glb (smi.sections.map (·.offset)) (line, col) with
    | none =>
      exfalso
      have := glb_none _ _ hsk hg k hkl
      rw [hgetD k hk, hks, hle] at this
      cases this
    | some i =>
      obtain ⟨hi, hile, himax, _⟩ := glb_some _ _ hsk i hg
      have hil : i < smi.sections.length := by rw [List.length_map] at hi; exact hi
      have h1 : posLe ((smi.sections.map (·.offset)).getD k (0, 0))
          ((smi.sections.map (·.offset)).getD i (0, 0)) = true :=
        himax k hkl (by rw [hgetD k hk, hks]; exact hle)
      have h2 : posLe ((smi.sections.map (·.offset)).getD i (0, 0))
          ((smi.sections.map (·.offset)).getD k (0, 0)) = true := by
        rw [hgetD k hk, hks, hgetD i hil]
        apply hmax _ (List.getElem_mem hil)
        rw [← hgetD i hil]; exact hile
      have hik : i = k := by
        rcases Nat.lt_trichotomy i k with h | h | h
        · exact (posLt_irrefl_le (IndexP.strict_getD hinc h hkl) h1).elim
        · exact h
        · exact (posLt_irrefl_le (IndexP.strict_getD hinc h hi) h2).elim
      subst hik
      simp only [List.getElem?_eq_getElem hk, hks]

/-- three sections in increasing order, the middle one (1:3) unresolved -/
def exSorted : SourceMapIndex Nat :=
  { sections := [{ offset := (0, 0), url := none, map := some 8 }, { offset := (1, 3), url := some [117], map := none },
                 { offset := (2, 0), url := none, map := some 7 }] }

/-- the hypotheses of `gen_c08_section_choice` (b) on a concrete index: query 2:4, the section at 2:0 -/
example : (exSorted.sections.map (·.offset)).Pairwise (fun a b => Lookup.posLt a b = true) := by decide
example : SourceMapIndex.lookup_token echo exSorted 2 4 = echo 7 0 4 :=
  (gen_c08_section_choice echo exSorted 2 4).2 (by decide)
    { offset := (2, 0), url := none, map := some 7 } (by decide) (by decide) (by decide)
-- (a): nothing at or before the query (an index whose first section starts at 1:3)
example : SourceMapIndex.lookup_token echo { sections := exSorted.sections.tail } 1 2 = .ok none :=
  (gen_c08_section_choice echo { sections := exSorted.sections.tail } 1 2).1 (by decide)

open Lookup in
/-- **C08 (3): an unresolved section answers `None`** - (a) whichever section `greatest_lower_bound` chooses (any
order); (b) with increasing offsets: when the last section at or before the query is unresolved.  The callee is
not called. -/
theorem gen_c08_unresolved_none {DM : Type} [DecidableEq DM] (f : DM → Nat → Nat → Res (Option Token))
    (smi : SourceMapIndex DM) (line col : Nat) :
    (∀ i s, glb (smi.sections.map (·.offset)) (line, col) = some i → smi.sections[i]? = some s → s.map = none →
      SourceMapIndex.lookup_token f smi line col = .ok none) ∧
    ((smi.sections.map (·.offset)).Pairwise (fun a b => posLt a b = true) →
      ∀ s ∈ smi.sections, posLe s.offset (line, col) = true →
        (∀ s' ∈ smi.sections, posLe s'.offset (line, col) = true → posLe s'.offset s.offset = true) →
        s.map = none → SourceMapIndex.lookup_token f smi line col = .ok none) := by
  constructor
  · intro i s hg hs hm
    rw [tie_index_lookup_token, indexAnswer]
    simp only [hg, hs, inSectionG, hm]
  · intro hinc s hs hle hmax hm
    rw [(gen_c08_section_choice f smi line col).2 hinc s hs hle hmax, inSectionG]
    simp only [hm]

-- 1:7: the last section at or before it is the unresolved one
example : SourceMapIndex.lookup_token echo exSorted 1 7 = .ok none :=
  (gen_c08_unresolved_none echo exSorted 1 7).2 (by decide)
    { offset := (1, 3), url := some [117], map := none } (by decide) (by decide) (by decide) rfl

/-- **C08 (2), closed**: at every level of a closed map with increasing offsets the last section at or before the
query answers, through the closed lookup with one unit of fuel less -/
theorem gen_c08_section_choice_closed (secs : GSecs) (fuel : Nat) (line col : Nat)
    (hinc : ((toSections secs).map (·.offset)).Pairwise (fun a b => Lookup.posLt a b = true))
    (s : SourceMapSection GMap) (hs : s ∈ toSections secs) (hle : Lookup.posLe s.offset (line, col) = true)
    (hmax : ∀ s' ∈ toSections secs, Lookup.posLe s'.offset (line, col) = true →
      Lookup.posLe s'.offset s.offset = true) :
    gLookup (fuel + 1) (.index secs) line col = inSectionG (gLookup fuel) s line col := by
  rw [gLookup_index_gen]
  exact (gen_c08_section_choice (gLookup fuel) { sections := toSections secs } line col).2 hinc s hs hle hmax

/-- **C08, agreement with the flattened map** (`C08.c08_agree` transported): for a closed index whose model image
is well-formed (`wfSecs`: strictly increasing offsets, all sections resolved, shifted tokens inside `u32` and before
the next section, leaves ordered), whenever the generated index lookup finds a token, the lookup in the (model's)
flattened map at the same position finds a token with the same `Origin`. -/
theorem gen_c08_agree (srcs : SourceMap → List Bytes) (file : Option Bytes) (secs : GSecs) (hu : u32okSecs secs)
    (fuel : Nat) (hf : depthSecs secs + 1 < fuel) (line col : Nat) (tok : Token)
    (hwf : Index.Spec.wfSecs (absSecs srcs secs) = true)
    (hsz : Index.Spec.tokCountSecs (absSecs srcs secs) < NONE)
    (h : gLookup fuel (.index secs) line col = .ok (some tok)) :
    ∃ m i t c, Index.flatten file (absSecs srcs secs) = .ok m ∧
      Lookup.lookup m.tokens (line, col) = .ok (some (i, t, c)) ∧ Index.originOf m t c = tokOrigin srcs tok := by
  have ht := tie_gLookup_index srcs secs hu fuel hf line col
  rw [h] at ht
  exact C08.c08_agree file _ _ _ hwf hsz ht.symm

/-- a well-formed closed index: `exLeafC` (tokens at 0:0 and 0:4) at 0:0, a Hermes map over `exLeafB` at 1:3 -/
def exLeafC : SourceMap := { (default : SmVerif.Gen.RsTypes.SourceMap) with tokens := [exTokA, exTokB], names := [] }
def exWf : GSecs :=
  .cons (0, 0) none (.regular exLeafC) (.cons (1, 3) none (.hermes { sm := exLeafB, function_maps := [] }) .nil)

/-- the hypotheses of `gen_c08_agree` on it -/
example : u32okSecs exWf := by
  simp only [exWf, u32ok, u32okSecs, and_true]
  exact ⟨by decide, by decide⟩
example : depthSecs exWf + 1 < 2 := by decide
example : Index.Spec.wfSecs (absSecs exSrcs exWf) = true := by decide
example : Index.Spec.tokCountSecs (absSecs exSrcs exWf) < NONE := by decide
example : gLookup 2 (.index exWf) 1 6 =
    .ok (some { raw := exLeafB.tokens[0], sm := exLeafB, idx := 0, offset := 0 }) := by rfl

/-! ### axioms -/

#print axioms tie_index_lookup_token
#print axioms glb_section_some
#print axioms index_lookup_token_cases
#print axioms index_lookup_token_error
#print axioms gen_c04_dispatch_regular
#print axioms gen_c04_dispatch_hermes
#print axioms gen_c04_dispatch_index
#print axioms gen_c14_dispatch_hermes
#print axioms gen_c14_dispatch_regular
#print axioms gen_c14_dispatch_index
#print axioms gen_c14_dispatch_no_name
#print axioms gen_c14_dispatch_no_view
#print axioms tie_get_original_function_name
#print axioms tie_get_original_function_name'
#print axioms get_original_function_name_total
#print axioms gen_c14_dispatch_hermes_model
#print axioms gen_c14_scope_offset
#print axioms gLookup_regular
#print axioms gLookup_hermes
#print axioms gLookup_index_gen
#print axioms gLookup_index
#print axioms gLookup_fuel_succ
#print axioms gLookup_fuel
#print axioms gLookup_total
#print axioms lookup_token_sm
#print axioms tie_leaf
#print axioms tie_gLookup
#print axioms tie_gLookup_index
#print axioms dmapLookup_eq_raw
#print axioms lookupAt_eq_raw
#print axioms rawLookup_index
#print axioms tie_leaf_raw
#print axioms tie_gLookup_raw
#print axioms gen_c08_no_underflow
#print axioms gen_c08_total_of_total
#print axioms gen_c08_lookup_total
#print axioms gen_c08_model_no_underflow
#print axioms gen_c08_section_choice
#print axioms gen_c08_unresolved_none
#print axioms gen_c08_section_choice_closed
#print axioms gen_c08_agree

end SmVerif.Tie.Index
