import SmVerif.Rs.Prelude
/-
General lemmas about the operations of `SmVerif/Rs/Prelude.lean` needed by the Builder tie unit:
`rsEntryOrInsert` (the mirror of `*map.entry(k).or_insert(v)` on an association list in insertion order).
Core Lean only; the names do not clash with the other `PreludeLemmas*.lean` (`rsResize` facts are in
PreludeLemmas4 / PreludeLemmas7; the builder unit needs none: the model's `resizeOpt` is `rsResize _ _ none` by `rfl`).
-/
namespace SmVerif.Rs
open SmVerif

/-! ### `rsEntryOrInsert` -/

/-- first value bound to `k` in an association list (what `HashMap::get` sees of the list) -/
def assocGet {κ ν} [DecidableEq κ] (k : κ) : List (κ × ν) → Option ν
  | [] => none
  | (k', v) :: rest => if k' = k then some v else assocGet k rest

theorem assocGet_eq_find {κ ν} [DecidableEq κ] (k : κ) :
    ∀ m : List (κ × ν), assocGet k m = (m.find? (fun p => decide (p.1 = k))).map (·.2)
  | [] => rfl
  | (k', v) :: rest => by
    by_cases h : k' = k
    · simp only [assocGet, h, ↓reduceIte, List.find?_cons, decide_true, Option.map_some]
    · simp only [assocGet, h, ↓reduceIte, List.find?_cons, decide_false, assocGet_eq_find k rest]

/-- `entry(k).or_insert(v)` on a key that is present: the bound value, the map unchanged -/
theorem rsEntryOrInsert_some {κ ν} [DecidableEq κ] (m : List (κ × ν)) (k : κ) (v x : ν)
    (h : assocGet k m = some x) : rsEntryOrInsert m k v = (x, m) := by
  rw [assocGet_eq_find] at h
  unfold rsEntryOrInsert
  cases hf : m.find? (fun p => decide (p.1 = k)) with
  | none => rw [hf] at h; simp only [Option.map_none, reduceCtorEq] at h
  | some p =>
    rw [hf] at h
    simp only [Option.map_some, Option.some.injEq] at h
    simp only [h]

/-- `entry(k).or_insert(v)` on an absent key: `v`, and the binding appended -/
theorem rsEntryOrInsert_none {κ ν} [DecidableEq κ] (m : List (κ × ν)) (k : κ) (v : ν)
    (h : assocGet k m = none) : rsEntryOrInsert m k v = (v, m ++ [(k, v)]) := by
  rw [assocGet_eq_find] at h
  unfold rsEntryOrInsert
  cases hf : m.find? (fun p => decide (p.1 = k)) with
  | none => rfl
  | some p => rw [hf] at h; simp only [Option.map_some, reduceCtorEq] at h

/-- the entry API never removes or changes a binding: what was bound stays bound to the same value -/
theorem rsEntryOrInsert_fst_of_some {κ ν} [DecidableEq κ] (m : List (κ × ν)) (k : κ) (v x : ν)
    (h : assocGet k m = some x) : (rsEntryOrInsert m k v).1 = x := by
  rw [rsEntryOrInsert_some m k v x h]

end SmVerif.Rs
