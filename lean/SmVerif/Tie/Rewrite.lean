import SmVerif.Tie.PreludeLemmas16
import SmVerif.Tie.Flatten
import SmVerif.Generated.RsRewrite
import SmVerif.Model.Builder
/-
Tie unit "Rewrite": one iteration of the token loop of `SourceMap::rewrite_with_mapping` (types.rs), as translated by
`tools/rs2lean` (`Generated/RsRewrite.lean`, `rewrite_token this builder token options`), does what one step of the
model's `SMap.rewriteLoop` (`Model/Builder.lean`) says - the loop the C09 theorems about `rewrite` are about.

The model writes the loop as one recursive function; `rewriteStep` is its body for one token (`rewriteLoop_cons`: the
loop is the iterated step, by `rfl`-like unfolding).  Outcomes are compared as one equation through `Except.map toBld`
(as in `Tie/Flatten.lean`):

    (rewrite_token this g tok opts).map toBld = rewriteStep (toSMap this) (toOpts opts) (toTok tok.raw) (toBld g)

Hypotheses: the token belongs to the map (`tok.sm = this`), has no range offset (both hold for `rsTokens this`),
`src_col` is a `u32`, and the SmallDoc hypothesis of `add_token` (sources: if the token has a source; names: if names
are kept and the token has one).

* `tie_rewrite_token`, `tie_rewrite_token_rel` : one step, both outcomes (the only error is the model's panic of
  `set_source_contents`, which the builder invariant excludes - not needed here);
* `rewriteG` : the loop over the translated body; `tie_rewrite_toks_along` (both outcomes, SmallDoc before each
  step), `tie_rewrite_tokens` (over `rsTokens this` ↔ `rewriteLoop m o m.tokens b`, from a successful model loop with a
  small FINAL state), `tie_rewrite_tokens_error`;
* `gen_c09_no_names` : with `with_names = false` the step interns no name (names table and name map untouched, the
  appended token has no name);
* `gen_c09_contents_only_if_asked` : with `with_source_contents = false` the builder's contents are untouched;
* `gen_c09_contents_first_time` : when the builder already has contents for the token's (new) source id, the step is
  just `add_token` - contents are copied the first time only, never overwritten.
-/
namespace SmVerif.Tie
open SmVerif SmVerif.Rs SmVerif.C13Spec
open SmVerif.Gen.RsBuilder (SourceMapBuilder)
open SmVerif.Gen.RsRewrite (RewriteOptions rewrite_token)

/-! ### the model's loop body -/

/-- the generated `RewriteOptions` as the model's `RewriteOpts`, field by field -/
def toOpts (o : RewriteOptions) : RewriteOpts :=
  { withNames := o.with_names, withContents := o.with_source_contents, stripPrefixes := o.strip_prefixes }

/-- the body of `SMap.rewriteLoop` for one token -/
def rewriteStep (m : SMap) (o : RewriteOpts) (t : Tok) (b : Bld) : Res Bld :=
  if (b.addToken m t o.withNames).2.src ≠ SmVerif.NONE ∧ o.withContents ∧
      !(b.addToken m t o.withNames).1.hasSourceContents (b.addToken m t o.withNames).2.src then
    (b.addToken m t o.withNames).1.setSourceContents (b.addToken m t o.withNames).2.src (m.getSourceContents t.src)
  else .ok (b.addToken m t o.withNames).1

/-- the model's loop is the iterated step -/
theorem rewriteLoop_cons (m : SMap) (o : RewriteOpts) (t : Tok) (ts : List Tok) (b : Bld) :
    m.rewriteLoop o (t :: ts) b =
      match rewriteStep m o t b with
      | .error e => .error e
      | .ok b1 => m.rewriteLoop o ts b1 := by
  unfold rewriteStep
  rw [SMap.rewriteLoop]
  dsimp only
  split
  · split <;> rename_i heq <;> simp only [heq]
  · rfl

theorem rewriteLoop_nil (m : SMap) (o : RewriteOpts) (b : Bld) : m.rewriteLoop o [] b = .ok b := by
  rw [SMap.rewriteLoop]

/-! ### one step -/

/-- **rewrite_token = one step of rewriteLoop**, as one equation on the outcomes. -/
theorem tie_rewrite_token (g : SourceMapBuilder) (this : Gen.RsTypes.SourceMap) (tok : Gen.RsTypes.Token)
    (opts : RewriteOptions) (hsm : tok.sm = this) (h0 : tok.offset = 0) (hsc : tok.raw.src_col < 4294967296)
    (hs : (toSMap this).tokSource (toTok tok.raw) ≠ none → g.sources.length < 4294967296)
    (hn : (if opts.with_names then (toSMap this).tokName (toTok tok.raw) else none) ≠ none →
      g.names.length < 4294967296) :
    (rewrite_token this g tok opts).map toBld =
      rewriteStep (toSMap this) (toOpts opts) (toTok tok.raw) (toBld g) := by
  subst hsm
  obtain ⟨raw, g1, e, ht, r⟩ := tie_add_token g (toBld g) (brel_toBld g) tok opts.with_names h0 hsc hs hn
  have hp : (toBld g).addToken (toSMap tok.sm) (toTok tok.raw) opts.with_names = (toBld g1, toTok raw) :=
    Prod.ext r.eq_toBld ht.symm
  have hsid : (toTok raw).src = raw.src_id := rfl
  have hN : SmVerif.NONE = 4294967295 := rfl
  have g5 : Gen.RsTypes.Token.get_src_id tok = .ok (toTok tok.raw).src := (tie_token_getters tok).2.2.2.2.1
  unfold rewrite_token rewriteStep
  simp only [e, toOpts, hp, hsid, hN, g5, tie_has_source_contents g1 (toBld g1) (brel_toBld g1),
    tie_sm_get_source_contents]
  by_cases hne : raw.src_id = 4294967295
  · have c1 : ¬ (raw.src_id ≠ 4294967295 ∧ opts.with_source_contents = true) := fun h => h.1 hne
    have c2 : ¬ (raw.src_id ≠ 4294967295 ∧ opts.with_source_contents = true ∧
        (!(toBld g1).hasSourceContents raw.src_id) = true) := fun h => h.1 hne
    simp only [if_neg c1, if_neg c2, L16.map_ok]
  · cases hwc : opts.with_source_contents
    · simp only [Bool.false_eq_true, false_and, and_false, ↓reduceIte, L16.map_ok]
    · cases hhas : (toBld g1).hasSourceContents raw.src_id
      · obtain ⟨hok, herr⟩ := tie_set_source_contents g1 (toBld g1) (brel_toBld g1) raw.src_id
          ((toSMap tok.sm).getSourceContents (toTok tok.raw).src)
        cases hset : (toBld g1).setSourceContents raw.src_id ((toSMap tok.sm).getSourceContents (toTok tok.raw).src) with
        | error e0 =>
          simp only [ne_eq, hne, not_false_eq_true, and_self, Bool.not_false, Bool.false_eq_true,
            ↓reduceIte, herr e0 hset, L16.map_error]
        | ok b2 =>
          obtain ⟨g2, e2, r2⟩ := hok b2 hset
          simp only [ne_eq, hne, not_false_eq_true, and_self, Bool.not_false, Bool.false_eq_true,
            ↓reduceIte, e2, L16.map_ok, r2.eq_toBld]
      · simp only [ne_eq, hne, not_false_eq_true, and_self, Bool.not_true, Bool.false_eq_true, and_false,
          ↓reduceIte, L16.map_ok]

/-- the same in the style of `Tie/Builder.lean` -/
theorem tie_rewrite_token_rel (g : SourceMapBuilder) (b : Bld) (h : BRel g b) (this : Gen.RsTypes.SourceMap)
    (tok : Gen.RsTypes.Token) (opts : RewriteOptions)
    (hsm : tok.sm = this) (h0 : tok.offset = 0) (hsc : tok.raw.src_col < 4294967296)
    (hs : (toSMap this).tokSource (toTok tok.raw) ≠ none → g.sources.length < 4294967296)
    (hn : (if opts.with_names then (toSMap this).tokName (toTok tok.raw) else none) ≠ none →
      g.names.length < 4294967296) :
    (∀ b', rewriteStep (toSMap this) (toOpts opts) (toTok tok.raw) b = .ok b' →
      ∃ g', rewrite_token this g tok opts = .ok g' ∧ BRel g' b') ∧
    (∀ e, rewriteStep (toSMap this) (toOpts opts) (toTok tok.raw) b = .error e →
      rewrite_token this g tok opts = .error e) := by
  obtain rfl : b = toBld g := h
  have key := tie_rewrite_token g this tok opts hsm h0 hsc hs hn
  constructor
  · intro b' hb'
    rw [hb'] at key
    obtain ⟨g', e, r⟩ := L16.ok_of_map_ok _ _ _ key
    exact ⟨g', e, r.symm⟩
  · intro e he
    rw [he] at key
    exact L16.error_of_map_error _ _ _ key

/-! ### the loop -/

/-- the loop `for token in self.tokens() { … }` of `rewrite_with_mapping` over the translated body -/
def rewriteG (this : Gen.RsTypes.SourceMap) (opts : RewriteOptions) :
    List Gen.RsTypes.Token → SourceMapBuilder → Res SourceMapBuilder
  | [], g => .ok g
  | t :: ts, g =>
    match rewrite_token this g t opts with
    | .error e => .error e
    | .ok g' => rewriteG this opts ts g'

theorem rewriteStep_mono (m : SMap) (o : RewriteOpts) (t : Tok) (b b' : Bld) (h : rewriteStep m o t b = .ok b') :
    b.sources.length ≤ b'.sources.length ∧ b.names.length ≤ b'.names.length := by
  obtain ⟨m1, m2⟩ := addWithId_mono b t.dl t.dc t.sl t.sc (m.tokSource t) t.src
    (if o.withNames then m.tokName t else none) t.rng
  have hadd : b.addWithId t.dl t.dc t.sl t.sc (m.tokSource t) t.src (if o.withNames then m.tokName t else none) t.rng =
      b.addToken m t o.withNames := rfl
  rw [hadd] at m1 m2
  unfold rewriteStep at h
  split at h
  · obtain ⟨k1, k2⟩ := setSourceContents_frame _ _ _ _ h
    rw [k1, k2]
    exact ⟨m1, m2⟩
  · simp only [Except.ok.injEq] at h
    subst h
    exact ⟨m1, m2⟩

theorem rewriteLoop_mono (m : SMap) (o : RewriteOpts) : ∀ (ts : List Tok) (b b' : Bld),
    m.rewriteLoop o ts b = .ok b' → b.sources.length ≤ b'.sources.length ∧ b.names.length ≤ b'.names.length
  | [], b, b', h => by
    rw [rewriteLoop_nil] at h
    simp only [Except.ok.injEq] at h
    subst h
    exact ⟨Nat.le_refl _, Nat.le_refl _⟩
  | t :: ts, b, b', h => by
    rw [rewriteLoop_cons] at h
    cases h1 : rewriteStep m o t b with
    | error e => rw [h1] at h; cases h
    | ok b1 =>
      rw [h1] at h
      obtain ⟨m1, m2⟩ := rewriteStep_mono m o t b b1 h1
      obtain ⟨n1, n2⟩ := rewriteLoop_mono m o ts b1 b' h
      exact ⟨Nat.le_trans m1 n1, Nat.le_trans m2 n2⟩

/-- the SmallDoc hypothesis along the model's loop -/
def RwSmallAlong (m : SMap) (o : RewriteOpts) : List Tok → Bld → Prop
  | [], _ => True
  | t :: ts, b => SmallB b ∧ ∀ b1, rewriteStep m o t b = .ok b1 → RwSmallAlong m o ts b1

theorem rwSmallAlong_of_final (m : SMap) (o : RewriteOpts) : ∀ (ts : List Tok) (b b' : Bld),
    m.rewriteLoop o ts b = .ok b' → SmallB b' → RwSmallAlong m o ts b
  | [], _, _, _, _ => trivial
  | t :: ts, b, b', h, hs => by
    obtain ⟨n1, n2⟩ := rewriteLoop_mono m o (t :: ts) b b' h
    rw [rewriteLoop_cons] at h
    refine ⟨⟨by have := hs.1; omega, by have := hs.2; omega⟩, fun b1 h1 => ?_⟩
    rw [h1] at h
    exact rwSmallAlong_of_final m o ts b1 b' h hs

/-- **the loop, both outcomes**, on any list of tokens of the map, with the SmallDoc hypothesis before each step -/
theorem tie_rewrite_toks_along (this : Gen.RsTypes.SourceMap) (opts : RewriteOptions) :
    ∀ (toks : List Gen.RsTypes.Token) (g : SourceMapBuilder),
    (∀ t ∈ toks, t.sm = this ∧ t.offset = 0 ∧ t.raw.src_col < 4294967296) →
    RwSmallAlong (toSMap this) (toOpts opts) (toks.map fun t => toTok t.raw) (toBld g) →
    (rewriteG this opts toks g).map toBld =
      (toSMap this).rewriteLoop (toOpts opts) (toks.map fun t => toTok t.raw) (toBld g)
  | [], g, _, _ => by
    rw [List.map_nil, rewriteLoop_nil]
    rfl
  | t :: toks, g, ht, hsm => by
    obtain ⟨h1, h2, h3⟩ := ht t List.mem_cons_self
    obtain ⟨hsb, hnext⟩ := hsm
    have hsg : SmallG g := (brel_toBld g).small.2 hsb
    have key := tie_rewrite_token g this t opts h1 h2 h3 (fun _ => hsg.1) (fun _ => hsg.2)
    rw [List.map_cons, rewriteLoop_cons]
    simp only [rewriteG]
    cases hm : rewriteStep (toSMap this) (toOpts opts) (toTok t.raw) (toBld g) with
    | error e =>
      rw [hm] at key
      rw [L16.error_of_map_error _ _ _ key]
      rfl
    | ok b1 =>
      rw [hm] at key
      obtain ⟨g1, e1, r1⟩ := L16.ok_of_map_ok _ _ _ key
      subst r1
      simp only [e1]
      exact tie_rewrite_toks_along this opts toks g1 (fun x hx => ht x (List.mem_cons_of_mem _ hx)) (hnext _ hm)

/-- **the token loop of `rewrite_with_mapping`**: if the model's `rewriteLoop m o m.tokens b` succeeds with a final
state of fewer than `2^32` sources and names, the generated body iterated over `self.tokens()` succeeds with a related
builder. -/
theorem tie_rewrite_tokens (g : SourceMapBuilder) (b : Bld) (h : BRel g b) (this : Gen.RsTypes.SourceMap)
    (opts : RewriteOptions) (hsc : ∀ t ∈ this.tokens, t.src_col < 4294967296) (b' : Bld)
    (hr : (toSMap this).rewriteLoop (toOpts opts) (toSMap this).tokens b = .ok b') (hs : SmallB b') :
    ∃ g', rewriteG this opts (Gen.RsTypes.rsTokens this) g = .ok g' ∧ BRel g' b' := by
  obtain rfl : b = toBld g := h
  obtain ⟨hspec, hmap⟩ := rsTokens_spec this
  rw [← hmap] at hr
  have key := tie_rewrite_toks_along this opts (Gen.RsTypes.rsTokens this) g
    (fun t ht => ⟨(hspec t ht).1, (hspec t ht).2.1, hsc _ (hspec t ht).2.2⟩)
    (rwSmallAlong_of_final _ _ _ _ b' hr hs)
  rw [hr] at key
  obtain ⟨g', e, r⟩ := L16.ok_of_map_ok _ _ _ key
  exact ⟨g', e, r.symm⟩

/-- the error outcome (only the model's panic of `set_source_contents`) -/
theorem tie_rewrite_tokens_error (g : SourceMapBuilder) (b : Bld) (h : BRel g b) (this : Gen.RsTypes.SourceMap)
    (opts : RewriteOptions) (hsc : ∀ t ∈ this.tokens, t.src_col < 4294967296)
    (hsm : RwSmallAlong (toSMap this) (toOpts opts) (toSMap this).tokens b) (e : Err)
    (hr : (toSMap this).rewriteLoop (toOpts opts) (toSMap this).tokens b = .error e) :
    rewriteG this opts (Gen.RsTypes.rsTokens this) g = .error e := by
  obtain rfl : b = toBld g := h
  obtain ⟨hspec, hmap⟩ := rsTokens_spec this
  rw [← hmap] at hr hsm
  have key := tie_rewrite_toks_along this opts (Gen.RsTypes.rsTokens this) g
    (fun t ht => ⟨(hspec t ht).1, (hspec t ht).2.1, hsc _ (hspec t ht).2.2⟩) hsm
  rw [hr] at key
  exact L16.error_of_map_error _ _ _ key

/-! ### C09 on the generated step -/

/-- model: without names the step leaves the names table and the name map alone -/
theorem rewriteStep_no_names (m : SMap) (o : RewriteOpts) (t : Tok) (b b' : Bld) (hw : o.withNames = false)
    (h : rewriteStep m o t b = .ok b') : b'.names = b.names ∧ b'.nameMap = b.nameMap := by
  have hadd : b.addToken m t o.withNames = b.addWithId t.dl t.dc t.sl t.sc (m.tokSource t) t.src none t.rng := by
    unfold Bld.addToken; rw [hw]; rfl
  have hf : (b.addToken m t o.withNames).1.names = b.names ∧ (b.addToken m t o.withNames).1.nameMap = b.nameMap := by
    rw [hadd, addWithId_eq]
    cases hsrc : m.tokSource t with
    | none => exact ⟨rfl, rfl⟩
    | some s =>
      obtain ⟨k1, k2, _⟩ := addSourceWithId_frame b s t.src
      exact ⟨k1, k2⟩
  unfold rewriteStep at h
  split at h
  · have hk : b'.names = (b.addToken m t o.withNames).1.names ∧ b'.nameMap = (b.addToken m t o.withNames).1.nameMap := by
      unfold Bld.setSourceContents at h
      split at h
      · simp only [reduceCtorEq] at h
      · split at h <;> dsimp only at h <;> split at h <;>
          first
            | (simp only [reduceCtorEq] at h; done)
            | (simp only [Except.ok.injEq] at h; subst h; exact ⟨rfl, rfl⟩)
    rw [hk.1, hk.2]; exact hf
  · simp only [Except.ok.injEq] at h
    subst h
    exact hf

/-- **with `with_names = false` no name is interned**: the generated step leaves `names` and `name_map` as they
were (and so every token it appends has `name_id = !0`: `gen_c09_no_names_token`) -/
theorem gen_c09_no_names (g : SourceMapBuilder) (this : Gen.RsTypes.SourceMap) (tok : Gen.RsTypes.Token)
    (opts : RewriteOptions) (hw : opts.with_names = false)
    (hsm : tok.sm = this) (h0 : tok.offset = 0) (hsc : tok.raw.src_col < 4294967296)
    (hs : (toSMap this).tokSource (toTok tok.raw) ≠ none → g.sources.length < 4294967296)
    (g' : SourceMapBuilder) (h : rewrite_token this g tok opts = .ok g') :
    g'.names = g.names ∧ g'.name_map = g.name_map := by
  have hn : (if opts.with_names then (toSMap this).tokName (toTok tok.raw) else none) ≠ none →
      g.names.length < 4294967296 := by
    rw [hw]; intro hc; exact absurd rfl hc
  have key := tie_rewrite_token g this tok opts hsm h0 hsc hs hn
  rw [h, L16.map_ok] at key
  exact rewriteStep_no_names (toSMap this) (toOpts opts) (toTok tok.raw) (toBld g) (toBld g') hw key.symm

/-- the token appended by `add_token` without names has no name -/
theorem gen_c09_no_names_token (g : SourceMapBuilder) (tok : Gen.RsTypes.Token)
    (raw : Gen.RsTypes.RawToken) (g' : SourceMapBuilder) (h : g.add_token tok false = .ok (raw, g')) :
    raw.name_id = 4294967295 := by
  obtain ⟨g1, g2, g3, g4, g5, _, g7, _, _, _⟩ := tie_token_getters tok
  unfold SourceMapBuilder.add_token at h
  simp only [Bool.false_eq_true, ↓reduceIte, g1, g2, g3, g4, g5, g7, tie_token_get_source] at h
  unfold SourceMapBuilder.add_with_id at h
  cases hsrc : (toSMap tok.sm).tokSource (toTok tok.raw) with
  | none =>
    rw [hsrc] at h
    simp only [Except.ok.injEq, Prod.mk.injEq] at h
    rw [← h.1]
  | some s =>
    rw [hsrc] at h
    dsimp only at h
    cases hadd : g.add_source_with_id s (toTok tok.raw).src with
    | error e0 => rw [hadd] at h; cases h
    | ok p =>
      rw [hadd] at h
      simp only [Except.ok.injEq, Prod.mk.injEq] at h
      rw [← h.1]

/-- model: `add_with_id` does not touch the contents -/
theorem addWithId_contents (b : Bld) (dl dc sl sc : Nat) (src : Option Bytes) (sid : Nat) (name : Option Bytes)
    (rng : Bool) : (b.addWithId dl dc sl sc src sid name rng).1.contents = b.contents := by
  have h1 : ∀ (s : Option Bytes), (srcStepW b sid s).1.contents = b.contents := by
    intro s
    cases s with
    | none => rfl
    | some s =>
      show (b.addSourceWithId s sid).1.contents = b.contents
      unfold Bld.addSourceWithId
      cases Bld.lookupKey s b.sourceMap with
      | none => rfl
      | some id => dsimp only; split <;> rfl
  have h2 : ∀ (bX : Bld) (n : Option Bytes), (C13.nameStep bX n).1.contents = bX.contents := by
    intro bX n
    cases n with
    | none => rfl
    | some n =>
      show (bX.addName n).1.contents = bX.contents
      unfold Bld.addName
      cases Bld.lookupKey n bX.nameMap with
      | none => rfl
      | some id => dsimp only; split <;> rfl
  rw [addWithId_eq]
  show (C13.nameStep (srcStepW b sid src).1 name).1.contents = b.contents
  rw [h2, h1]

/-- **contents are copied only when asked**: with `with_source_contents = false` the generated step leaves the
builder's `source_contents` as they were -/
theorem gen_c09_contents_only_if_asked (g : SourceMapBuilder) (this : Gen.RsTypes.SourceMap)
    (tok : Gen.RsTypes.Token) (opts : RewriteOptions) (hw : opts.with_source_contents = false)
    (hsm : tok.sm = this) (h0 : tok.offset = 0) (hsc : tok.raw.src_col < 4294967296)
    (hs : (toSMap this).tokSource (toTok tok.raw) ≠ none → g.sources.length < 4294967296)
    (hn : (if opts.with_names then (toSMap this).tokName (toTok tok.raw) else none) ≠ none →
      g.names.length < 4294967296)
    (g' : SourceMapBuilder) (h : rewrite_token this g tok opts = .ok g') :
    g'.source_contents = g.source_contents := by
  have key := tie_rewrite_token g this tok opts hsm h0 hsc hs hn
  rw [h, L16.map_ok] at key
  have hc : ¬ (((toBld g).addToken (toSMap this) (toTok tok.raw) (toOpts opts).withNames).2.src ≠ SmVerif.NONE ∧
      (toOpts opts).withContents = true ∧
      (!((toBld g).addToken (toSMap this) (toTok tok.raw) (toOpts opts).withNames).1.hasSourceContents
        ((toBld g).addToken (toSMap this) (toTok tok.raw) (toOpts opts).withNames).2.src) = true) := by
    intro hc
    have : opts.with_source_contents = true := hc.2.1
    rw [hw] at this
    cases this
  unfold rewriteStep at key
  rw [if_neg hc] at key
  simp only [Except.ok.injEq] at key
  show (toBld g').contents = (toBld g).contents
  rw [key]
  exact addWithId_contents _ _ _ _ _ _ _ _ _

/-- **contents are copied the first time only**: when, after `add_token`, the builder already has contents for the
token's new source id, the generated step is just `add_token` - nothing is overwritten (no hypothesis) -/
theorem gen_c09_contents_first_time (g : SourceMapBuilder) (this : Gen.RsTypes.SourceMap) (tok : Gen.RsTypes.Token)
    (opts : RewriteOptions) (raw : Gen.RsTypes.RawToken) (g1 : SourceMapBuilder)
    (he : g.add_token tok opts.with_names = .ok (raw, g1)) (hhas : g1.has_source_contents raw.src_id = .ok true) :
    rewrite_token this g tok opts = .ok g1 := by
  unfold rewrite_token
  simp only [he, hhas]
  split <;> rfl

/-! ### non-vacuity: concrete values -/

/-- a map: sources "a" (contents "x") and "b" (none), one name; source 0 used twice -/
def exRM : Gen.RsTypes.SourceMap :=
  { (default : SmVerif.Gen.RsTypes.SourceMap) with
    tokens := [⟨0, 1, 0, 0, 1, 0, false⟩, ⟨0, 9, 3, 0, 0, 4294967295, false⟩, ⟨2, 4, 5, 6, 0, 4294967295, true⟩,
      ⟨3, 0, 0, 0, 4294967295, 4294967295, false⟩],
    names := [[110]], sources := [[97], [98]], sources_content := [some [120]] }

def exOptsAll : RewriteOptions := { with_names := true, with_source_contents := true, strip_prefixes := [] }
def exOptsNone : RewriteOptions := { with_names := false, with_source_contents := false, strip_prefixes := [] }

/-- the generated loop on `exRM` with everything kept: source ids renumbered in order of use ("b" first), old ids
in `sources_mapping`, contents copied once -/
def exRG : SourceMapBuilder :=
  { (default : SourceMapBuilder) with
    name_map := [([110], 0)], names := [[110]],
    tokens := [⟨0, 1, 0, 0, 0, 0, false⟩, ⟨0, 9, 3, 0, 1, 4294967295, false⟩, ⟨2, 4, 5, 6, 1, 4294967295, true⟩,
      ⟨3, 0, 0, 0, 4294967295, 4294967295, false⟩],
    source_map := [([98], 0), ([97], 1)], sources := [[98], [97]], source_contents := [none, some [120]],
    sources_mapping := [1, 0] }

example : rewriteG exRM exOptsAll (Gen.RsTypes.rsTokens exRM) emptyG = .ok exRG := rfl
example : (toSMap exRM).rewriteLoop (toOpts exOptsAll) (toSMap exRM).tokens (Bld.new none) = .ok (toBld exRG) := rfl
example : (∀ t ∈ exRM.tokens, t.src_col < 4294967296) ∧ SmallB (toBld exRG) := ⟨by decide, by decide⟩
example : ∃ g', rewriteG exRM exOptsAll (Gen.RsTypes.rsTokens exRM) emptyG = .ok g' ∧ BRel g' (toBld exRG) :=
  tie_rewrite_tokens emptyG (Bld.new none) brel_emptyG exRM exOptsAll (by decide) (toBld exRG) rfl (by decide)
-- without names and contents: no name, no contents
example : ∃ g', rewriteG exRM exOptsNone (Gen.RsTypes.rsTokens exRM) emptyG = .ok g' ∧ g'.names = [] ∧
    g'.source_contents = [] ∧ g'.tokens.map (·.name_id) = [4294967295, 4294967295, 4294967295, 4294967295] :=
  ⟨_, rfl, rfl, rfl, rfl⟩

#print axioms rewriteLoop_cons
#print axioms tie_rewrite_token
#print axioms tie_rewrite_token_rel
#print axioms tie_rewrite_toks_along
#print axioms tie_rewrite_tokens
#print axioms tie_rewrite_tokens_error
#print axioms gen_c09_no_names
#print axioms gen_c09_no_names_token
#print axioms gen_c09_contents_only_if_asked
#print axioms gen_c09_contents_first_time

end SmVerif.Tie
