import SmVerif.Tie.PreludeLemmas16
import SmVerif.Tie.Builder2
import SmVerif.Generated.RsFlatten
import SmVerif.Model.Index
/-
Tie unit "Flatten": one iteration of the token loop of `SourceMapIndex::flatten` (types.rs), as translated by
`tools/rs2lean` (`Generated/RsFlatten.lean`, `flatten_token builder map token off_line off_col`), does what the model's
`Index.flattenTok` (`Model/Index.lean`) says - the function the C08 theorems about `flatten` are about.

Form of the statements: outcomes are compared as ONE equation through `Except.map toBld` (`toBld` is the conversion of
`Tie/Builder.lean`; `BRel g b` is `b = toBld g`):

    (flatten_token g map tok ol oc).map toBld = Index.flattenTok (toSMap map) ol oc (toTok tok.raw) (toBld g)

so the generated step succeeds exactly when the model's does, with related builders, and fails with the same error:
`.flatten` for the two checked additions (`dst_col + off_col` on line 0, `dst_line + off_line`), `.panic` only where
the model panics too (`set_source_contents`).  `tie_flatten_token_rel` is the same in the `BRel` style.

Hypotheses: the token belongs to the map (`tok.sm = map`) and has no range offset (`tok.offset = 0`) - both hold for
the tokens `rsTokens map` yields (`rsTokens_spec`) -, `src_col` is a `u32`, and the SmallDoc hypothesis of `add`
(fewer than `2^32` sources / names before the call, each needed only if the token has a source / a name).

* `tie_flatten_token`, `tie_flatten_token_rel` : one step;
* `flattenG` : the loop `for token in map.tokens() { … }` over the translated body (mirrors `Index.flattenToks`);
* `tie_flatten_toks_along` : the loop on any token list of the map, both outcomes, SmallDoc before each step
  (`FlatSmallAlong`); `tie_flatten_tokens` : over `rsTokens map` ↔ `flattenToks … (toSMap map).tokens`, from a
  successful model run whose FINAL state is small (the tables only grow: `flattenTok_mono`);
  `tie_flatten_tokens_error` : the error outcome;
* `gen_c08_flatten_col_only_first_line` : `off_col` is not even looked at for a token that is not on line 0;
  `gen_c08_flatten_line_overflow`, `gen_c08_flatten_col_overflow` : an addition that leaves `u32` is
  `Error::CannotFlatten`, for every builder state, never a wrapped position; `gen_c08_flatten_token_pos` : on success
  exactly one token was appended, at `(dst_line + off_line, dst_col [+ off_col on line 0])` as natural numbers.
-/
namespace SmVerif.Tie
open SmVerif SmVerif.Rs SmVerif.C13Spec
open SmVerif.Gen.RsBuilder (SourceMapBuilder)
open SmVerif.Gen.RsFlatten (flatten_token)

/-! ### one step -/

set_option hygiene false in
/-- the part of the proof of `tie_flatten_token` after the offset checks; the generated code has it twice (first
line / other lines).  Expects `DL`, `DC`, `g`, `m`, `tok`, `hs`, `hn` in the context. -/
local macro "flatten_tail" : tactic => `(tactic| (
  obtain ⟨raw, g1, e, ht, r⟩ := tie_add g (toBld g) (brel_toBld g) DL DC (toTok tok.raw).sl (toTok tok.raw).sc
    ((toSMap m).tokSource (toTok tok.raw)) ((toSMap m).tokName (toTok tok.raw)) (toTok tok.raw).rng hs hn
  have hp : (toBld g).add DL DC (toTok tok.raw).sl (toTok tok.raw).sc ((toSMap m).tokSource (toTok tok.raw))
      ((toSMap m).tokName (toTok tok.raw)) (toTok tok.raw).rng = (toBld g1, toTok raw) :=
    Prod.ext r.eq_toBld ht.symm
  have hsid : (toTok raw).src = raw.src_id := rfl
  have hig : (toSMap m).ignore = m.ignore_list := rfl
  have hadd : ∀ gX : SourceMapBuilder, ∃ g3, gX.add_to_ignore_list raw.src_id = .ok g3 ∧
      toBld g3 = (toBld gX).addToIgnoreList raw.src_id := fun gX =>
    let ⟨g3, e3, r3⟩ := tie_add_to_ignore_list gX (toBld gX) (brel_toBld gX) raw.src_id
    ⟨g3, e3, r3.eq_toBld.symm⟩
  simp only [e, hp, hsid, hig, tie_has_source_contents g1 (toBld g1) (brel_toBld g1), tie_sm_get_source_contents]
  obtain ⟨gi1, ei1, ri1⟩ := hadd g1
  cases hsrc : ((toSMap m).tokSource (toTok tok.raw)).isSome
  · cases hci : m.ignore_list.contains (toTok tok.raw).src <;>
      simp only [Bool.false_and, Bool.false_eq_true, ↓reduceIte, ei1, L16.map_ok, ri1]
  · cases hhas : (toBld g1).hasSourceContents raw.src_id
    · obtain ⟨hok, herr⟩ := tie_set_source_contents g1 (toBld g1) (brel_toBld g1) raw.src_id
        ((toSMap m).getSourceContents (toTok tok.raw).src)
      cases hset : (toBld g1).setSourceContents raw.src_id ((toSMap m).getSourceContents (toTok tok.raw).src) with
      | error e0 =>
        simp only [Bool.not_false, Bool.and_self, Bool.false_eq_true, ↓reduceIte, herr e0 hset, L16.map_error]
      | ok b2 =>
        obtain ⟨g2, e2, r2⟩ := hok b2 hset
        obtain rfl : b2 = toBld g2 := r2
        obtain ⟨gi2, ei2, ri2⟩ := hadd g2
        cases hci : m.ignore_list.contains (toTok tok.raw).src <;>
          simp only [Bool.not_false, Bool.and_self, Bool.false_eq_true, ↓reduceIte, e2, ei2, L16.map_ok, ri2]
    · cases hci : m.ignore_list.contains (toTok tok.raw).src <;>
        simp only [Bool.not_true, Bool.and_false, Bool.false_eq_true, ↓reduceIte, ei1, L16.map_ok, ri1]))

/-- **flatten_token = flattenTok**, as one equation on the outcomes.  For a token of the map without range offset
whose `src_col` is a `u32`, under the SmallDoc hypothesis of `add`: same success (related builders), same error
(`CannotFlatten` for the two checked offset additions; the panic of `set_source_contents` where the model has it). -/
theorem tie_flatten_token (g : SourceMapBuilder) (m : Gen.RsTypes.SourceMap) (tok : Gen.RsTypes.Token) (ol oc : Nat)
    (hsm : tok.sm = m) (h0 : tok.offset = 0) (hsc : tok.raw.src_col < 4294967296)
    (hs : (toSMap m).tokSource (toTok tok.raw) ≠ none → g.sources.length < 4294967296)
    (hn : (toSMap m).tokName (toTok tok.raw) ≠ none → g.names.length < 4294967296) :
    (flatten_token g m tok ol oc).map toBld = Index.flattenTok (toSMap m) ol oc (toTok tok.raw) (toBld g) := by
  obtain ⟨g1, g2, g3, g4, g5, _, g7, _, _, _⟩ := tie_token_getters tok
  have hsat : Lookup.satAdd (toTok tok.raw).sc tok.offset = (toTok tok.raw).sc := by
    rw [h0]; exact satAdd_zero _ hsc
  rw [hsat] at g4
  have hN : SmVerif.NONE = 4294967295 := rfl
  unfold flatten_token Index.flattenTok
  simp only [g1, g2, g3, g4, g5, g7, tie_token_get_source, tie_token_get_name, hsm, hN]
  by_cases hdl : (toTok tok.raw).dl = 0
  · by_cases hc : (toTok tok.raw).dc + oc ≤ 4294967295
    · by_cases hl : (toTok tok.raw).dl + ol ≤ 4294967295
      · have c1 : ¬ ((toTok tok.raw).dl = 0 ∧ (toTok tok.raw).dc + oc > 4294967295) := by omega
        have c2 : ¬ ((toTok tok.raw).dl + ol > 4294967295) := by omega
        simp only [if_neg c1, if_neg c2, if_pos hdl, if_pos hc, if_pos hl]
        generalize (toTok tok.raw).dl + ol = DL
        generalize (toTok tok.raw).dc + oc = DC
        flatten_tail
      · have c1 : ¬ ((toTok tok.raw).dl = 0 ∧ (toTok tok.raw).dc + oc > 4294967295) := by omega
        have c2 : (toTok tok.raw).dl + ol > 4294967295 := by omega
        simp only [if_neg c1, if_pos c2, if_pos hdl, if_pos hc, if_neg hl, L16.map_error]
    · have c1 : (toTok tok.raw).dl = 0 ∧ (toTok tok.raw).dc + oc > 4294967295 := ⟨hdl, by omega⟩
      simp only [if_pos c1, if_pos hdl, if_neg hc, L16.map_error]
  · have c1 : ¬ ((toTok tok.raw).dl = 0 ∧ (toTok tok.raw).dc + oc > 4294967295) := fun h => hdl h.1
    by_cases hl : (toTok tok.raw).dl + ol ≤ 4294967295
    · have c2 : ¬ ((toTok tok.raw).dl + ol > 4294967295) := by omega
      simp only [if_neg c1, if_neg c2, if_neg hdl, if_pos hl]
      generalize (toTok tok.raw).dl + ol = DL
      generalize (toTok tok.raw).dc = DC
      flatten_tail
    · have c2 : (toTok tok.raw).dl + ol > 4294967295 := by omega
      simp only [if_neg c1, if_pos c2, if_neg hdl, if_neg hl, L16.map_error]

/-- the same in the style of `Tie/Builder.lean`: from related states, where the model step succeeds so does the
generated one, with related states; where the model step fails, the generated one fails with the same error -/
theorem tie_flatten_token_rel (g : SourceMapBuilder) (b : Bld) (h : BRel g b) (m : Gen.RsTypes.SourceMap)
    (tok : Gen.RsTypes.Token) (ol oc : Nat)
    (hsm : tok.sm = m) (h0 : tok.offset = 0) (hsc : tok.raw.src_col < 4294967296)
    (hs : (toSMap m).tokSource (toTok tok.raw) ≠ none → g.sources.length < 4294967296)
    (hn : (toSMap m).tokName (toTok tok.raw) ≠ none → g.names.length < 4294967296) :
    (∀ b', Index.flattenTok (toSMap m) ol oc (toTok tok.raw) b = .ok b' →
      ∃ g', flatten_token g m tok ol oc = .ok g' ∧ BRel g' b') ∧
    (∀ e, Index.flattenTok (toSMap m) ol oc (toTok tok.raw) b = .error e → flatten_token g m tok ol oc = .error e) := by
  obtain rfl : b = toBld g := h
  have key := tie_flatten_token g m tok ol oc hsm h0 hsc hs hn
  constructor
  · intro b' hb'
    rw [hb'] at key
    obtain ⟨g', e, r⟩ := L16.ok_of_map_ok _ _ _ key
    exact ⟨g', e, r.symm⟩
  · intro e he
    rw [he] at key
    exact L16.error_of_map_error _ _ _ key

/-! ### the loop -/

/-- the loop `for token in map.tokens() { … }` of `flatten` over the translated body: the first error ends it
(`?`); mirrors `Index.flattenToks` -/
def flattenG (m : Gen.RsTypes.SourceMap) (ol oc : Nat) : List Gen.RsTypes.Token → SourceMapBuilder → Res SourceMapBuilder
  | [], g => .ok g
  | t :: ts, g =>
    match flatten_token g m t ol oc with
    | .error e => .error e
    | .ok g' => flattenG m ol oc ts g'

/-- what `rsTokens` yields: the raw tokens in order, each with the map it came from and no range offset -/
theorem rsTokens_spec (m : Gen.RsTypes.SourceMap) :
    (∀ t ∈ Gen.RsTypes.rsTokens m, t.sm = m ∧ t.offset = 0 ∧ t.raw ∈ m.tokens) ∧
    (Gen.RsTypes.rsTokens m).map (fun t => toTok t.raw) = (toSMap m).tokens := by
  have hraw : (Gen.RsTypes.rsTokens m).map (fun t => t.raw) = m.tokens := by
    unfold Gen.RsTypes.rsTokens
    rw [List.map_map]
    exact map_snd_rsEnumerate m.tokens
  constructor
  · intro t ht
    have hmem : t.raw ∈ m.tokens := by
      rw [← hraw]
      exact List.mem_map.2 ⟨t, ht, rfl⟩
    unfold Gen.RsTypes.rsTokens at ht
    obtain ⟨p, _, rfl⟩ := List.mem_map.1 ht
    exact ⟨rfl, rfl, hmem⟩
  · show _ = m.tokens.map toTok
    rw [← hraw, List.map_map]
    rfl

/-! #### the tables only grow along the model's loop -/

theorem flattenTok_mono (sm : SMap) (ol oc : Nat) (t : Tok) (b b' : Bld)
    (h : Index.flattenTok sm ol oc t b = .ok b') :
    b.sources.length ≤ b'.sources.length ∧ b.names.length ≤ b'.names.length := by
  unfold Index.flattenTok at h
  split at h
  · cases h
  · split at h
    · cases h
    · obtain ⟨m1, m2⟩ := addWithId_mono b (t.dl + ol) (if t.dl = 0 then t.dc + oc else t.dc) t.sl t.sc
        (sm.tokSource t) SmVerif.NONE (sm.tokName t) t.rng
      have hadd : b.addWithId (t.dl + ol) (if t.dl = 0 then t.dc + oc else t.dc) t.sl t.sc
          (sm.tokSource t) SmVerif.NONE (sm.tokName t) t.rng =
        b.add (t.dl + ol) (if t.dl = 0 then t.dc + oc else t.dc) t.sl t.sc (sm.tokSource t) (sm.tokName t) t.rng := rfl
      rw [hadd] at m1 m2
      dsimp only at h
      generalize b.add (t.dl + ol) (if t.dl = 0 then t.dc + oc else t.dc) t.sl t.sc (sm.tokSource t) (sm.tokName t)
        t.rng = p at h m1 m2
      obtain ⟨b1, raw⟩ := p
      dsimp only at h m1 m2
      have hign : ∀ bX : Bld, (if sm.ignore.contains t.src = true then bX.addToIgnoreList raw.src else bX).sources =
            bX.sources ∧
          (if sm.ignore.contains t.src = true then bX.addToIgnoreList raw.src else bX).names = bX.names := by
        intro bX; split <;> exact ⟨rfl, rfl⟩
      split at h
      · cases h
      · rename_i b2 heq
        simp only [Except.ok.injEq] at h
        subst h
        rw [(hign b2).1, (hign b2).2]
        split at heq
        · obtain ⟨k1, k2⟩ := setSourceContents_frame b1 b2 _ _ heq
          rw [k1, k2]
          exact ⟨m1, m2⟩
        · simp only [Except.ok.injEq] at heq
          subst heq
          exact ⟨m1, m2⟩

theorem flattenToks_mono (sm : SMap) (ol oc : Nat) : ∀ (ts : List Tok) (b b' : Bld),
    Index.flattenToks sm ol oc ts b = .ok b' →
    b.sources.length ≤ b'.sources.length ∧ b.names.length ≤ b'.names.length
  | [], b, b', h => by
    simp only [Index.flattenToks, Except.ok.injEq] at h
    subst h
    exact ⟨Nat.le_refl _, Nat.le_refl _⟩
  | t :: ts, b, b', h => by
    simp only [Index.flattenToks] at h
    cases h1 : Index.flattenTok sm ol oc t b with
    | error e => rw [h1] at h; cases h
    | ok b1 =>
      rw [h1] at h
      obtain ⟨m1, m2⟩ := flattenTok_mono sm ol oc t b b1 h1
      obtain ⟨n1, n2⟩ := flattenToks_mono sm ol oc ts b1 b' h
      exact ⟨Nat.le_trans m1 n1, Nat.le_trans m2 n2⟩

/-- the SmallDoc hypothesis along the model's loop: fewer than `2^32` sources and names before each step that is
reached -/
def FlatSmallAlong (sm : SMap) (ol oc : Nat) : List Tok → Bld → Prop
  | [], _ => True
  | t :: ts, b => SmallB b ∧ ∀ b1, Index.flattenTok sm ol oc t b = .ok b1 → FlatSmallAlong sm ol oc ts b1

/-- a small final state makes the whole loop small -/
theorem flatSmallAlong_of_final (sm : SMap) (ol oc : Nat) : ∀ (ts : List Tok) (b b' : Bld),
    Index.flattenToks sm ol oc ts b = .ok b' → SmallB b' → FlatSmallAlong sm ol oc ts b
  | [], _, _, _, _ => trivial
  | t :: ts, b, b', h, hs => by
    obtain ⟨n1, n2⟩ := flattenToks_mono sm ol oc (t :: ts) b b' h
    simp only [Index.flattenToks] at h
    refine ⟨⟨by have := hs.1; omega, by have := hs.2; omega⟩, fun b1 h1 => ?_⟩
    rw [h1] at h
    exact flatSmallAlong_of_final sm ol oc ts b1 b' h hs

/-- **the loop, both outcomes**, on any list of tokens of the map (no range offset, `src_col` a `u32`), with the
SmallDoc hypothesis before each step: the iterated generated body and the model's `flattenToks` have the same
outcome - the same error, or related final builders. -/
theorem tie_flatten_toks_along (m : Gen.RsTypes.SourceMap) (ol oc : Nat) :
    ∀ (toks : List Gen.RsTypes.Token) (g : SourceMapBuilder),
    (∀ t ∈ toks, t.sm = m ∧ t.offset = 0 ∧ t.raw.src_col < 4294967296) →
    FlatSmallAlong (toSMap m) ol oc (toks.map fun t => toTok t.raw) (toBld g) →
    (flattenG m ol oc toks g).map toBld =
      Index.flattenToks (toSMap m) ol oc (toks.map fun t => toTok t.raw) (toBld g)
  | [], g, _, _ => rfl
  | t :: toks, g, ht, hsm => by
    obtain ⟨h1, h2, h3⟩ := ht t List.mem_cons_self
    obtain ⟨hsb, hnext⟩ := hsm
    have hsg : SmallG g := (brel_toBld g).small.2 hsb
    have key := tie_flatten_token g m t ol oc h1 h2 h3 (fun _ => hsg.1) (fun _ => hsg.2)
    simp only [flattenG, List.map_cons, Index.flattenToks]
    cases hm : Index.flattenTok (toSMap m) ol oc (toTok t.raw) (toBld g) with
    | error e =>
      rw [hm] at key
      rw [L16.error_of_map_error _ _ _ key]
      rfl
    | ok b1 =>
      rw [hm] at key
      obtain ⟨g1, e1, r1⟩ := L16.ok_of_map_ok _ _ _ key
      subst r1
      simp only [e1]
      exact tie_flatten_toks_along m ol oc toks g1 (fun x hx => ht x (List.mem_cons_of_mem _ hx)) (hnext _ hm)

/-- **the token loop of `flatten` for one section**: if the model's loop over the tokens of the map succeeds with a
final state of fewer than `2^32` sources and names, the generated body iterated over `map.tokens()` succeeds with a
related builder. -/
theorem tie_flatten_tokens (g : SourceMapBuilder) (b : Bld) (h : BRel g b) (m : Gen.RsTypes.SourceMap) (ol oc : Nat)
    (hsc : ∀ t ∈ m.tokens, t.src_col < 4294967296) (b' : Bld)
    (hr : Index.flattenToks (toSMap m) ol oc (toSMap m).tokens b = .ok b') (hs : SmallB b') :
    ∃ g', flattenG m ol oc (Gen.RsTypes.rsTokens m) g = .ok g' ∧ BRel g' b' := by
  obtain rfl : b = toBld g := h
  obtain ⟨hspec, hmap⟩ := rsTokens_spec m
  rw [← hmap] at hr
  have key := tie_flatten_toks_along m ol oc (Gen.RsTypes.rsTokens m) g
    (fun t ht => ⟨(hspec t ht).1, (hspec t ht).2.1, hsc _ (hspec t ht).2.2⟩)
    (flatSmallAlong_of_final _ ol oc _ _ b' hr hs)
  rw [hr] at key
  obtain ⟨g', e, r⟩ := L16.ok_of_map_ok _ _ _ key
  exact ⟨g', e, r.symm⟩

/-- the error outcome of the section loop (`CannotFlatten`, or the model's panic): the SmallDoc hypothesis is about
the states before each step -/
theorem tie_flatten_tokens_error (g : SourceMapBuilder) (b : Bld) (h : BRel g b) (m : Gen.RsTypes.SourceMap)
    (ol oc : Nat) (hsc : ∀ t ∈ m.tokens, t.src_col < 4294967296)
    (hsm : FlatSmallAlong (toSMap m) ol oc (toSMap m).tokens b) (e : Err)
    (hr : Index.flattenToks (toSMap m) ol oc (toSMap m).tokens b = .error e) :
    flattenG m ol oc (Gen.RsTypes.rsTokens m) g = .error e := by
  obtain rfl : b = toBld g := h
  obtain ⟨hspec, hmap⟩ := rsTokens_spec m
  rw [← hmap] at hr hsm
  have key := tie_flatten_toks_along m ol oc (Gen.RsTypes.rsTokens m) g
    (fun t ht => ⟨(hspec t ht).1, (hspec t ht).2.1, hsc _ (hspec t ht).2.2⟩) hsm
  rw [hr] at key
  exact L16.error_of_map_error _ _ _ key

/-! ### C08 on the generated step: the offsets are checked, never wrapped; the column only on line 0 -/

/-- **`off_col` only matters on line 0**: for a token that is not on the first line of its section the generated
step does not depend on the column offset at all (in particular `dst_col + off_col` may overflow) -/
theorem gen_c08_flatten_col_only_first_line (g : SourceMapBuilder) (m : Gen.RsTypes.SourceMap)
    (tok : Gen.RsTypes.Token) (ol oc oc' : Nat) (hdl : tok.raw.dst_line ≠ 0) :
    flatten_token g m tok ol oc = flatten_token g m tok ol oc' := by
  have g1 : Gen.RsTypes.Token.get_dst_line tok = .ok tok.raw.dst_line := rfl
  unfold flatten_token
  simp only [g1, if_neg hdl]

/-- **the line offset is checked**: `dst_line + off_line` beyond `u32::MAX` is `Error::CannotFlatten` whatever the
builder holds - provided, on line 0, that the column addition (checked first) passed -/
theorem gen_c08_flatten_line_overflow (g : SourceMapBuilder) (m : Gen.RsTypes.SourceMap) (tok : Gen.RsTypes.Token)
    (ol oc : Nat) (h : tok.raw.dst_line + ol > 4294967295)
    (hc : tok.raw.dst_line = 0 → tok.raw.dst_col + oc ≤ 4294967295) :
    flatten_token g m tok ol oc = .error .flatten := by
  have g1 : Gen.RsTypes.Token.get_dst_line tok = .ok tok.raw.dst_line := rfl
  have g2 : Gen.RsTypes.Token.get_dst_col tok = .ok tok.raw.dst_col := rfl
  have hl : ¬ tok.raw.dst_line + ol ≤ 4294967295 := by omega
  unfold flatten_token
  by_cases hdl : tok.raw.dst_line = 0
  · simp only [g1, g2, if_pos hdl, if_pos (hc hdl), if_neg hl]
  · simp only [g1, g2, if_neg hdl, if_neg hl]

/-- **the column offset is checked** on line 0 -/
theorem gen_c08_flatten_col_overflow (g : SourceMapBuilder) (m : Gen.RsTypes.SourceMap) (tok : Gen.RsTypes.Token)
    (ol oc : Nat) (hdl : tok.raw.dst_line = 0) (h : tok.raw.dst_col + oc > 4294967295) :
    flatten_token g m tok ol oc = .error .flatten := by
  have g1 : Gen.RsTypes.Token.get_dst_line tok = .ok tok.raw.dst_line := rfl
  have g2 : Gen.RsTypes.Token.get_dst_col tok = .ok tok.raw.dst_col := rfl
  have hl : ¬ tok.raw.dst_col + oc ≤ 4294967295 := by omega
  unfold flatten_token
  simp only [g1, g2, if_pos hdl, if_neg hl]

theorem setSourceContents_tokens (b b' : Bld) (i : Nat) (v : Option Bytes) (h : b.setSourceContents i v = .ok b') :
    b'.tokens = b.tokens := by
  unfold Bld.setSourceContents at h
  split at h
  · simp only [reduceCtorEq] at h
  · split at h <;> dsimp only at h <;> split at h <;>
      first
        | (simp only [reduceCtorEq] at h; done)
        | (simp only [Except.ok.injEq] at h; subst h; rfl)

/-- `add` appends exactly the token it returns, with the coordinates it was given -/
theorem add_tokens (b : Bld) (dl dc sl sc : Nat) (src name : Option Bytes) (rng : Bool) :
    (b.add dl dc sl sc src name rng).1.tokens = b.tokens ++ [(b.add dl dc sl sc src name rng).2] ∧
    (b.add dl dc sl sc src name rng).2.dl = dl ∧ (b.add dl dc sl sc src name rng).2.dc = dc ∧
    (b.add dl dc sl sc src name rng).2.sl = sl ∧ (b.add dl dc sl sc src name rng).2.sc = sc ∧
    (b.add dl dc sl sc src name rng).2.rng = rng := by
  have hadd' : b.add dl dc sl sc src name rng = b.addWithId dl dc sl sc src SmVerif.NONE name rng := rfl
  have htk : ∀ (s : Option Bytes), (srcStepW b SmVerif.NONE s).1.tokens = b.tokens := by
    intro s
    cases s with
    | none => rfl
    | some s =>
      show (b.addSourceWithId s SmVerif.NONE).1.tokens = b.tokens
      unfold Bld.addSourceWithId
      cases Bld.lookupKey s b.sourceMap with
      | none => rfl
      | some id => dsimp only; split <;> rfl
  have htn : ∀ (bX : Bld) (n : Option Bytes), (C13.nameStep bX n).1.tokens = bX.tokens := by
    intro bX n
    cases n with
    | none => rfl
    | some n =>
      show (bX.addName n).1.tokens = bX.tokens
      unfold Bld.addName
      cases Bld.lookupKey n bX.nameMap with
      | none => rfl
      | some id => dsimp only; split <;> rfl
  rw [hadd', addWithId_eq]
  refine ⟨?_, rfl, rfl, rfl, rfl, rfl⟩
  show (C13.nameStep (srcStepW b SmVerif.NONE src).1 name).1.tokens ++ _ = b.tokens ++ _
  rw [htn, htk]

/-- the model's step appends exactly one token, at the shifted position -/
theorem flattenTok_tokens (sm : SMap) (ol oc : Nat) (t : Tok) (b b' : Bld)
    (h : Index.flattenTok sm ol oc t b = .ok b') :
    t.dl + ol ≤ 4294967295 ∧ (t.dl = 0 → t.dc + oc ≤ 4294967295) ∧
    ∃ t', b'.tokens = b.tokens ++ [t'] ∧ t'.dl = t.dl + ol ∧ t'.dc = (if t.dl = 0 then t.dc + oc else t.dc) ∧
      t'.sl = t.sl ∧ t'.sc = t.sc ∧ t'.rng = t.rng := by
  have hN : SmVerif.NONE = 4294967295 := rfl
  unfold Index.flattenTok at h
  rw [hN] at h
  split at h
  · cases h
  · rename_i c1
    split at h
    · cases h
    · rename_i c2
      refine ⟨by omega, fun hz => by omega, ?_⟩
      have hf := add_tokens b (t.dl + ol) (if t.dl = 0 then t.dc + oc else t.dc) t.sl t.sc (sm.tokSource t)
        (sm.tokName t) t.rng
      dsimp only at h
      generalize b.add (t.dl + ol) (if t.dl = 0 then t.dc + oc else t.dc) t.sl t.sc (sm.tokSource t) (sm.tokName t)
        t.rng = p at h hf
      obtain ⟨b1, raw⟩ := p
      dsimp only at h hf
      obtain ⟨f1, f2, f3, f4, f5, f6⟩ := hf
      have hign : ∀ (bX : Bld), (if sm.ignore.contains t.src = true then bX.addToIgnoreList raw.src else bX).tokens =
            bX.tokens := by
        intro bX; split <;> rfl
      split at h
      · cases h
      · rename_i b2 heq
        simp only [Except.ok.injEq] at h
        subst h
        refine ⟨raw, ?_, f2, f3, f4, f5, f6⟩
        rw [hign]
        split at heq
        · rw [setSourceContents_tokens b1 b2 _ _ heq, f1]
        · simp only [Except.ok.injEq] at heq
          subst heq
          exact f1

/-- a model token as a `RawToken` (inverse of `toTok`) -/
def ofTok (t : Tok) : Gen.RsTypes.RawToken :=
  { dst_line := t.dl, dst_col := t.dc, src_line := t.sl, src_col := t.sc, src_id := t.src, name_id := t.name,
    is_range := t.rng }

theorem toTok_ofTok (t : Tok) : toTok (ofTok t) = t := rfl

/-- **on success the position is the exact sum**: the generated step appended exactly one `RawToken`, whose
generated position is `(dst_line + off_line, dst_col + off_col)` on line 0 and `(dst_line + off_line, dst_col)`
elsewhere - as natural numbers, both inside `u32`: an offset is never wrapped. -/
theorem gen_c08_flatten_token_pos (g : SourceMapBuilder) (m : Gen.RsTypes.SourceMap) (tok : Gen.RsTypes.Token)
    (ol oc : Nat) (hsm : tok.sm = m) (h0 : tok.offset = 0) (hsc : tok.raw.src_col < 4294967296)
    (hs : (toSMap m).tokSource (toTok tok.raw) ≠ none → g.sources.length < 4294967296)
    (hn : (toSMap m).tokName (toTok tok.raw) ≠ none → g.names.length < 4294967296)
    (g' : SourceMapBuilder) (h : flatten_token g m tok ol oc = .ok g') :
    tok.raw.dst_line + ol ≤ 4294967295 ∧ (tok.raw.dst_line = 0 → tok.raw.dst_col + oc ≤ 4294967295) ∧
    ∃ raw, g'.tokens = g.tokens ++ [raw] ∧ raw.dst_line = tok.raw.dst_line + ol ∧
      raw.dst_col = (if tok.raw.dst_line = 0 then tok.raw.dst_col + oc else tok.raw.dst_col) ∧
      raw.src_line = tok.raw.src_line ∧ raw.src_col = tok.raw.src_col ∧ raw.is_range = tok.raw.is_range := by
  have key := tie_flatten_token g m tok ol oc hsm h0 hsc hs hn
  rw [h, L16.map_ok] at key
  obtain ⟨k1, k2, t', k3, k4, k5, k6, k7, k8⟩ := flattenTok_tokens _ ol oc _ _ _ key.symm
  refine ⟨k1, k2, ?_⟩
  have hk : (g'.tokens).map toTok = (g.tokens ++ [ofTok t']).map toTok := by
    show (toBld g').tokens = _
    rw [k3, List.map_append]
    rfl
  exact ⟨ofTok t', map_toTok_injective _ _ hk, k4, k5, k6, k7, k8⟩

/-! ### non-vacuity: concrete values -/

/-- a section map: two tokens on line 0 and one on line 2, sources "a" (with contents, ignored) and "b", a name -/
def exFM : Gen.RsTypes.SourceMap :=
  { (default : SmVerif.Gen.RsTypes.SourceMap) with
    tokens := [⟨0, 1, 0, 0, 0, 0, false⟩, ⟨0, 9, 3, 0, 1, 4294967295, false⟩, ⟨2, 4, 5, 6, 0, 4294967295, true⟩],
    names := [[110]], sources := [[97], [98]], sources_content := [some [120]], ignore_list := [0] }

/-- the generated loop on `exFM` with offset (10, 100), from the empty builder -/
def exFG : SourceMapBuilder :=
  { (default : SourceMapBuilder) with
    name_map := [([110], 0)], names := [[110]],
    tokens := [⟨10, 101, 0, 0, 0, 0, false⟩, ⟨10, 109, 3, 0, 1, 4294967295, false⟩, ⟨12, 4, 5, 6, 0, 4294967295, true⟩],
    source_map := [([97], 0), ([98], 1)], sources := [[97], [98]], source_contents := [some [120], none],
    sources_mapping := [4294967295, 4294967295], ignore_list := [0] }

example : flattenG exFM 10 100 (Gen.RsTypes.rsTokens exFM) emptyG = .ok exFG := rfl
example : Index.flattenToks (toSMap exFM) 10 100 (toSMap exFM).tokens (Bld.new none) = .ok (toBld exFG) := rfl
-- the hypotheses of `tie_flatten_tokens` / `tie_flatten_token`
example : (∀ t ∈ exFM.tokens, t.src_col < 4294967296) ∧ SmallB (toBld exFG) := ⟨by decide, by decide⟩
example : ∃ g', flattenG exFM 10 100 (Gen.RsTypes.rsTokens exFM) emptyG = .ok g' ∧ BRel g' (toBld exFG) :=
  tie_flatten_tokens emptyG (Bld.new none) brel_emptyG exFM 10 100 (by decide) (toBld exFG) rfl (by decide)
-- the two overflows, on both sides: the column on line 0 ...
example : flattenG exFM 10 4294967290 (Gen.RsTypes.rsTokens exFM) emptyG = .error .flatten ∧
    Index.flattenToks (toSMap exFM) 10 4294967290 (toSMap exFM).tokens (Bld.new none) = .error .flatten := ⟨rfl, rfl⟩
-- ... and the line (third token: 2 + 4294967294)
example : flattenG exFM 4294967294 0 (Gen.RsTypes.rsTokens exFM) emptyG = .error .flatten ∧
    Index.flattenToks (toSMap exFM) 4294967294 0 (toSMap exFM).tokens (Bld.new none) = .error .flatten := ⟨rfl, rfl⟩
-- a column offset that would overflow is harmless for a token that is not on line 0
example : ∃ g', flatten_token emptyG exFM ⟨⟨2, 4, 5, 6, 0, 4294967295, true⟩, exFM, 2, 0⟩ 1 4294967295 = .ok g' ∧
    g'.tokens = [⟨3, 4, 5, 6, 0, 4294967295, true⟩] := ⟨_, rfl, rfl⟩

#print axioms tie_flatten_token
#print axioms tie_flatten_token_rel
#print axioms rsTokens_spec
#print axioms flattenTok_mono
#print axioms tie_flatten_toks_along
#print axioms tie_flatten_tokens
#print axioms tie_flatten_tokens_error
#print axioms gen_c08_flatten_col_only_first_line
#print axioms gen_c08_flatten_line_overflow
#print axioms gen_c08_flatten_col_overflow
#print axioms gen_c08_flatten_token_pos

end SmVerif.Tie
