import SmVerif.Tie.PreludeLemmas15
import SmVerif.Generated.RsReader
import SmVerif.Model.Header
import SmVerif.Props.C12
import SmVerif.Tie.Header
/-
Tie unit "Reader": `StripHeaderReader` of decoder.rs as translated by `tools/rs2lean`
(`SmVerif/Generated/RsReader.lean`) computes what the hand-written model `SmVerif/Model/Header.lean` says.

The inner reader is the list of chunks its `read` calls still have to deliver (prelude `rsReaderRead`).  The model
describes one call under the assumption that the inner `read` hands over a whole chunk, i.e. every chunk fits the
caller's buffer, and its theorems (C12) assume non-empty chunks; both assumptions are hypotheses here
(`hfit`, `hne`).  `0 < buf.length` is not needed (it follows from `hfit` + `hne` whenever there is a chunk).

* `toHState`, `ofHState`             : the two state enums
* `tie_reader_is_junk_json`           : `is_junk_json b = .ok (Header.isJunk b)`
* `tie_loop2` / `tie_loop2_chunk`     : the per-byte `for` loop = `Header.scan` (through `scanToGen`)
* `tie_loop1`                         : the `loop` (fuel > number of chunks) = `Header.stripHeadRead`
* `tie_strip_head_read`               : `strip_head_read fuel self buf = genOfCall buf (Header.stripHeadRead …)`
* `tie_reader_read` (+ `_ok`, `_error`): the trait method `read` = `Header.read`
* `genConsume`, `tie_consume`, `tie_reader_output` : calling `read` until `Ok(0)` = `Header.consume` / `readerOutput`
* `gen_c12_chunking_irrelevant`, `gen_c12_no_false_eof`, `gen_c12_reader_eq_slice` : C12 about the generated code

No hypothesis on the bytes (`< 256`) is needed: bytes are only compared with literals and copied.
On an error the generated functions return only the error (the `&mut self` state is not observable through the
`Res`), so the model's `st`/`rest` fields are tied for `Ok` results only.
-/

namespace SmVerif.Tie
open SmVerif SmVerif.Rs
open SmVerif.Gen.RsReader (HeaderState StripHeaderReader)

/-! ### states and `is_junk_json` -/

/-- `enum HeaderState` as translated ↦ the model's `HState` -/
def toHState : Gen.RsReader.HeaderState → Header.HState
  | .Undecided => .undecided
  | .Junk => .junk
  | .AwaitingNewline => .awaitingNewline
  | .PastHeader => .pastHeader

/-- the inverse of `toHState` -/
def ofHState : Header.HState → Gen.RsReader.HeaderState
  | .undecided => .Undecided
  | .junk => .Junk
  | .awaitingNewline => .AwaitingNewline
  | .pastHeader => .PastHeader

@[simp] theorem ofHState_toHState (s : HeaderState) : ofHState (toHState s) = s := by cases s <;> rfl
@[simp] theorem toHState_ofHState (s : Header.HState) : toHState (ofHState s) = s := by cases s <;> rfl

theorem toHState_eq_pastHeader (s : HeaderState) : toHState s = .pastHeader ↔ s = .PastHeader := by
  cases s <;> simp [toHState]

theorem tie_reader_is_junk_json (b : Nat) : Gen.RsReader.is_junk_json b = .ok (Header.isJunk b) := by
  unfold Gen.RsReader.is_junk_json Header.isJunk Consts.junkBytes
  congr 1
  rw [Bool.eq_iff_iff]
  simp only [Bool.or_eq_true, decide_eq_true_eq, List.contains_eq_mem, List.mem_cons, List.not_mem_nil,
    or_false]
  omega

/-! ### the per-byte loop -/

/-- what the generated `for` loop yields for an outcome of the model's `scan` -/
def scanToGen (self : StripHeaderReader) (buf : List Nat) :
    Header.Scan → Res (Exit (Nat × StripHeaderReader × List Nat) (StripHeaderReader × List Nat))
  | .ret out st' => .ok (.ret (out.length, { self with header_state := ofHState st' }, out ++ buf.drop out.length))
  | .fail => .error .io
  | .next st' => .ok (.done ({ self with header_state := ofHState st' }, buf))

theorem tie_loop2 (c backing buf : List Nat) (hback : backing.take c.length = c) (hfit : c.length ≤ buf.length) :
    ∀ (l : List Nat) (off : Nat) (self : StripHeaderReader), c.drop off = l →
      StripHeaderReader.strip_head_read.loop2 c.length backing (enumFrom off l) self buf
        = scanToGen self buf (Header.scan c (toHState self.header_state) off l) := by
  intro l
  induction l with
  | nil =>
    intro off self _
    obtain ⟨r, hs⟩ := self
    simp only [enumFrom_nil, StripHeaderReader.strip_head_read.loop2, Header.scan, scanToGen, ofHState_toHState]
  | cons b rest ih =>
    intro off self hdrop
    obtain ⟨r, hs⟩ := self
    have hnext : c.drop (off + 1) = rest := Header.drop_succ_of_drop_cons hdrop
    have hoff : off < c.length := by
      have := congrArg List.length hdrop
      simp only [List.length_drop, List.length_cons] at this
      omega
    cases hs with
    | Undecided =>
      simp only [enumFrom_cons, StripHeaderReader.strip_head_read.loop2, tie_reader_is_junk_json, toHState,
        Header.scan]
      by_cases hj : Header.isJunk b = true
      · simp only [hj, ↓reduceIte]
        exact ih (off + 1) ⟨r, .Junk⟩ hnext
      · simp only [hj, Bool.false_eq_true, ↓reduceIte, rsSlice_of_take backing c 0 hback (Nat.zero_le _),
          List.drop_zero, rsCopyInto_front buf c c.length rfl hfit, scanToGen, ofHState]
    | Junk =>
      simp only [enumFrom_cons, StripHeaderReader.strip_head_read.loop2, toHState, Header.scan, Header.CR,
        Header.LF]
      by_cases h13 : b = 13
      · simp only [h13, ↓reduceIte]
        exact ih (off + 1) ⟨r, .AwaitingNewline⟩ hnext
      · by_cases h10 : b = 10
        · simp only [h10, ↓reduceIte, Nat.reduceEqDiff]
          exact ih (off + 1) ⟨r, .PastHeader⟩ hnext
        · simp only [h13, h10, ↓reduceIte]
          exact ih (off + 1) ⟨r, .Junk⟩ hnext
    | AwaitingNewline =>
      simp only [enumFrom_cons, StripHeaderReader.strip_head_read.loop2, toHState, Header.scan, Header.LF]
      by_cases h10 : b = 10
      · simp only [h10, ↓reduceIte]
        exact ih (off + 1) ⟨r, .PastHeader⟩ hnext
      · simp only [h10, ↓reduceIte, scanToGen]
    | PastHeader =>
      have hle : off ≤ c.length := Nat.le_of_lt hoff
      have hlen : (c.drop off).length = c.length - off := List.length_drop
      have hfit' : c.length - off ≤ buf.length := by omega
      simp only [enumFrom_cons, StripHeaderReader.strip_head_read.loop2, toHState, Header.scan, hle, ↓reduceIte,
        rsSlice_of_take backing c off hback hle, rsCopyInto_front buf (c.drop off) (c.length - off) hlen hfit',
        scanToGen, ofHState, hlen]

-- non-vacuity of `tie_loop2`'s hypotheses: chunk `]\n{` read into a 4-byte backing buffer, caller's buffer 3 bytes
example : ([93, 10, 123, 0] : List Nat).take [93, 10, 123].length = [93, 10, 123] := by decide
example : StripHeaderReader.strip_head_read.loop2 3 [93, 10, 123, 0] (enumFrom 0 [93, 10, 123]) ⟨[], .Junk⟩ [7, 7, 7]
    = .ok (.ret (1, ⟨[], .PastHeader⟩, [123, 7, 7])) := by rfl

/-- the statement in the form asked for: the chunk `c` was just read into `backing`, the loop starts at
offset 0 over `rsEnumerate c` -/
theorem tie_loop2_chunk (c backing buf : List Nat) (self : StripHeaderReader)
    (hback : backing.take c.length = c) (hfit : c.length ≤ buf.length) :
    StripHeaderReader.strip_head_read.loop2 c.length backing (rsEnumerate c) self buf
      = scanToGen self buf (Header.scan c (toHState self.header_state) 0 c) :=
  tie_loop2 c backing buf hback hfit c 0 self (List.drop_zero)

/-! ### one call of `strip_head_read` / `read` -/

/-- What a generated call returns for a model `CallRes`, given the caller's buffer `buf`: `Ok(n)` with the `n`
delivered bytes at the front of the buffer (the rest of the buffer untouched), the reader with the new state and
the remaining chunks; an error as it is (the Rust caller cannot observe the reader's state through the `Res`). -/
def genOfCall (buf : List Nat) (m : Header.CallRes) : Res (Nat × StripHeaderReader × List Nat) :=
  match m.out with
  | .ok out => .ok (out.length, ⟨m.rest, ofHState m.st⟩, out ++ buf.drop out.length)
  | .error e => .error e

/-- `genOfCall` lifted to the result type of the `loop` -/
def genOfCallLoop (buf : List Nat) (m : Header.CallRes) :
    Res (Exit (Nat × StripHeaderReader × List Nat) (StripHeaderReader × List Nat × List Nat)) :=
  match genOfCall buf m with
  | .ok t => .ok (.ret t)
  | .error e => .error e

theorem tie_loop1 (buf : List Nat) :
    ∀ (r : List (List Nat)) (fuel : Nat) (hs : HeaderState) (backing : List Nat),
      backing.length = buf.length → (∀ c ∈ r, c.length ≤ buf.length) → (∀ c ∈ r, c ≠ []) → r.length < fuel →
      StripHeaderReader.strip_head_read.loop1 fuel ⟨r, hs⟩ backing buf
        = genOfCallLoop buf (Header.stripHeadRead (toHState hs) r) := by
  intro r
  induction r with
  | nil =>
    intro fuel hs backing _ _ _ hfuel
    obtain ⟨f, rfl⟩ : ∃ f, fuel = f + 1 := ⟨fuel - 1, by simp only [List.length_nil] at hfuel; omega⟩
    simp only [StripHeaderReader.strip_head_read.loop1, rsReaderRead_nil, ↓reduceIte, Header.stripHeadRead,
      genOfCallLoop, genOfCall, List.length_nil, List.drop_zero, List.nil_append, ofHState_toHState]
  | cons c cs ih =>
    intro fuel hs backing hbl hfit hne hfuel
    obtain ⟨f, rfl⟩ : ∃ f, fuel = f + 1 := ⟨fuel - 1, by omega⟩
    have hc : c ≠ [] := hne c (List.mem_cons_self)
    have hcl : c.length ≠ 0 := fun h => hc (List.length_eq_zero_iff.mp h)
    have hcfit : c.length ≤ buf.length := hfit c (List.mem_cons_self)
    have hcfit' : c.length ≤ backing.length := by omega
    have hback : (c ++ backing.drop c.length).take c.length = c := List.take_left
    have hbl' : (c ++ backing.drop c.length).length = buf.length := by
      simp only [List.length_append, List.length_drop]; omega
    have hslice : rsSlice (c ++ backing.drop c.length) 0 c.length = .ok c := by
      have := rsSlice_of_take (c ++ backing.drop c.length) c 0 hback (Nat.zero_le _)
      simpa only [List.drop_zero] using this
    have hl2 := tie_loop2_chunk c (c ++ backing.drop c.length) buf ⟨cs, hs⟩ hback hcfit
    simp only [StripHeaderReader.strip_head_read.loop1, rsReaderRead_cons_fit c cs backing hc hcfit', hcl,
      ↓reduceIte, hslice, hl2, Header.stripHeadRead, hc]
    cases hscan : Header.scan c (toHState hs) 0 c with
    | ret out st' =>
      simp only [scanToGen, genOfCallLoop, genOfCall]
    | fail =>
      simp only [scanToGen, genOfCallLoop, genOfCall]
    | next st' =>
      simp only [scanToGen]
      have := ih f (ofHState st') (c ++ backing.drop c.length) hbl'
        (fun x hx => hfit x (List.mem_cons_of_mem _ hx)) (fun x hx => hne x (List.mem_cons_of_mem _ hx))
        (by simp only [List.length_cons] at hfuel; omega)
      rw [this, toHState_ofHState]

/-- **`strip_head_read` as translated = `Header.stripHeadRead`**: one call on a reader that still has the chunks
`self.r` to deliver (each non-empty and no longer than the caller's buffer), with `fuel` above the number of
chunks, returns what the model says: the delivered bytes at the front of `buf`, the new header state, the
remaining chunks; or the model's error.  No `0 < buf.length` is needed. -/
theorem tie_strip_head_read (fuel : Nat) (self : StripHeaderReader) (buf : List Nat)
    (hfit : ∀ c ∈ self.r, c.length ≤ buf.length) (hne : ∀ c ∈ self.r, c ≠ []) (hfuel : self.r.length < fuel) :
    StripHeaderReader.strip_head_read fuel self buf
      = genOfCall buf (Header.stripHeadRead (toHState self.header_state) self.r) := by
  obtain ⟨r, hs⟩ := self
  simp only [StripHeaderReader.strip_head_read,
    tie_loop1 buf r fuel hs (List.replicate buf.length 0) List.length_replicate hfit hne hfuel, genOfCallLoop]
  cases genOfCall buf (Header.stripHeadRead (toHState hs) r) <;> rfl

/-- **the trait method `read` as translated = `Header.read`** -/
theorem tie_reader_read (fuel : Nat) (self : StripHeaderReader) (buf : List Nat)
    (hfit : ∀ c ∈ self.r, c.length ≤ buf.length) (hne : ∀ c ∈ self.r, c ≠ []) (hfuel : self.r.length < fuel) :
    StripHeaderReader.read fuel self buf = genOfCall buf (Header.read (toHState self.header_state) self.r) := by
  by_cases hp : self.header_state = HeaderState.PastHeader
  · obtain ⟨r, hs⟩ := self
    simp only at hp
    subst hp
    cases r with
    | nil =>
      simp only [StripHeaderReader.read, ↓reduceIte, rsReaderRead_nil, Header.read, toHState, genOfCall,
        List.length_nil, List.drop_zero, List.nil_append, ofHState]
    | cons c cs =>
      have hc : c ≠ [] := hne c (List.mem_cons_self)
      have hcfit : c.length ≤ buf.length := hfit c (List.mem_cons_self)
      simp only [StripHeaderReader.read, ↓reduceIte, rsReaderRead_cons_fit c cs buf hc hcfit, Header.read,
        toHState, genOfCall, ofHState]
  · have hp' : toHState self.header_state ≠ .pastHeader := fun h => hp ((toHState_eq_pastHeader _).mp h)
    simp only [StripHeaderReader.read, hp, ↓reduceIte, Header.read, hp',
      tie_strip_head_read fuel self buf hfit hne hfuel]
    cases genOfCall buf (Header.stripHeadRead (toHState self.header_state) self.r) with
    | error e => rfl
    | ok t => rfl

/-! ### reading the result of a generated call back as a `CallRes` -/

theorem genOfCall_ok {buf : List Nat} {m : Header.CallRes} {n : Nat} {self' : StripHeaderReader} {buf' : List Nat}
    (h : genOfCall buf m = .ok (n, self', buf')) :
    m.out = .ok (buf'.take n) ∧ m.st = toHState self'.header_state ∧ m.rest = self'.r ∧
      buf'.drop n = buf.drop n := by
  unfold genOfCall at h
  cases hm : m.out with
  | error e => rw [hm] at h; cases h
  | ok out =>
    rw [hm] at h
    simp only [Except.ok.injEq, Prod.mk.injEq] at h
    obtain ⟨rfl, rfl, rfl⟩ := h
    simp only [List.take_left, toHState_ofHState, List.drop_left, and_self]

theorem genOfCall_error {buf : List Nat} {m : Header.CallRes} {e : Err} :
    genOfCall buf m = .error e ↔ m.out = .error e := by
  unfold genOfCall
  cases hm : m.out with
  | error e' => simp only [Except.error.injEq]
  | ok out => simp only [reduceCtorEq]

/-- `tie_reader_read`, read from the generated side: whenever the generated `read` returns `Ok(n)`, the model's
call delivers exactly the first `n` bytes of the returned buffer, ends in the returned state and leaves the
returned chunks; the buffer behind the delivered bytes is untouched. -/
theorem tie_reader_read_ok (fuel : Nat) (self : StripHeaderReader) (buf : List Nat)
    (hfit : ∀ c ∈ self.r, c.length ≤ buf.length) (hne : ∀ c ∈ self.r, c ≠ []) (hfuel : self.r.length < fuel)
    {n : Nat} {self' : StripHeaderReader} {buf' : List Nat}
    (h : StripHeaderReader.read fuel self buf = .ok (n, self', buf')) :
    (Header.read (toHState self.header_state) self.r).out = .ok (buf'.take n) ∧
    (Header.read (toHState self.header_state) self.r).st = toHState self'.header_state ∧
    (Header.read (toHState self.header_state) self.r).rest = self'.r ∧
    buf'.drop n = buf.drop n := by
  rw [tie_reader_read fuel self buf hfit hne hfuel] at h
  exact genOfCall_ok h

/-- … and the generated `read` fails exactly when the model's does, with the same error -/
theorem tie_reader_read_error (fuel : Nat) (self : StripHeaderReader) (buf : List Nat)
    (hfit : ∀ c ∈ self.r, c.length ≤ buf.length) (hne : ∀ c ∈ self.r, c ≠ []) (hfuel : self.r.length < fuel)
    (e : Err) :
    StripHeaderReader.read fuel self buf = .error e ↔
      (Header.read (toHState self.header_state) self.r).out = .error e := by
  rw [tie_reader_read fuel self buf hfit hne hfuel]
  exact genOfCall_error

-- non-vacuity: `)` + `]\n` + `{}` into a 16-byte buffer; 3 chunks, fuel 4
example : ∀ c ∈ (⟨[[41], [93, 10], [123, 125]], .Undecided⟩ : StripHeaderReader).r,
    c.length ≤ (List.replicate 16 7).length := by decide
example : ∀ c ∈ (⟨[[41], [93, 10], [123, 125]], .Undecided⟩ : StripHeaderReader).r, c ≠ [] := by decide
example : (⟨[[41], [93, 10], [123, 125]], .Undecided⟩ : StripHeaderReader).r.length < 4 := by decide
example : StripHeaderReader.read 4 ⟨[[41], [93, 10], [123, 125]], .Undecided⟩ (List.replicate 16 7)
    = .ok (2, ⟨[], .PastHeader⟩, [123, 125] ++ List.replicate 14 7) := by rfl
-- the fuel bound is sharp: three header-only chunks need four turns of the `loop` (the last one sees `Ok(0)`)
example : StripHeaderReader.read 3 ⟨[[41], [41], [41]], .Undecided⟩ [7, 7] = .error .diverge := by rfl
example : StripHeaderReader.read 4 ⟨[[41], [41], [41]], .Undecided⟩ [7, 7] = .ok (0, ⟨[], .Junk⟩, [7, 7]) := by rfl
-- without fuel the translated `loop` reports divergence
theorem strip_head_read_zero (self : StripHeaderReader) (buf : List Nat) :
    StripHeaderReader.strip_head_read 0 self buf = .error .diverge := rfl

/-! ### the caller: `read` until `Ok(0)` -/

/-- The caller of the generated reader (`BufReader` + `serde_json::from_reader`), mirroring `Header.consume`:
call `read` (with `rf` fuel for the inner `loop`) into the same buffer until `Ok(0)` or `Err`; the value is the
concatenation of the delivered pieces `buf[..n]`. -/
def genConsume (rf : Nat) : Nat → StripHeaderReader → List Nat → Res (List Nat)
  | 0, _, _ => .error .diverge
  | fuel + 1, self, buf =>
    match StripHeaderReader.read rf self buf with
    | .error e => .error e
    | .ok (n, self', buf') =>
      if n = 0 then .ok []
      else
        match genConsume rf fuel self' buf' with
        | .ok more => .ok (buf'.take n ++ more)
        | .error e => .error e

/-- the generated driver = the model's `consume`, for every number of calls allowed -/
theorem tie_consume (rf : Nat) :
    ∀ (fuel : Nat) (self : StripHeaderReader) (buf : List Nat),
      (∀ c ∈ self.r, c.length ≤ buf.length) → (∀ c ∈ self.r, c ≠ []) → self.r.length < rf →
      genConsume rf fuel self buf = Header.consume fuel (toHState self.header_state) self.r := by
  intro fuel
  induction fuel with
  | zero => intro self buf _ _ _; rfl
  | succ fuel ih =>
    intro self buf hfit hne hrf
    simp only [genConsume, tie_reader_read rf self buf hfit hne hrf, Header.consume]
    rcases Header.read_spec self.r (toHState self.header_state) hne with
      ⟨b, o, ho, _, hl, hmem, _⟩ | ⟨ho, _⟩ | ⟨ho, _, _⟩
    · have hbuf : buf.length ≤ ((b :: o) ++ buf.drop (b :: o).length).length := by
        simp only [List.length_append, List.length_drop]; omega
      have := ih ⟨(Header.read (toHState self.header_state) self.r).rest,
          ofHState (Header.read (toHState self.header_state) self.r).st⟩ ((b :: o) ++ buf.drop (b :: o).length)
        (fun c hc => Nat.le_trans (hfit c (hmem c hc)) hbuf) (fun c hc => hne c (hmem c hc))
        (by simp only; omega)
      simp only [toHState_ofHState] at this
      simp only [genOfCall, ho, List.length_cons, Nat.add_one_ne_zero, ↓reduceIte]
      simp only [List.length_cons] at this
      rw [this]
      cases Header.consume fuel (Header.read (toHState self.header_state) self.r).st
          (Header.read (toHState self.header_state) self.r).rest with
      | error e => rfl
      | ok more =>
        have ht : (b :: (o ++ buf.drop (o.length + 1))).take (o.length + 1) = b :: o := by
          rw [List.take_succ_cons, List.take_left]
        simp only [List.cons_append, ht]
    · simp only [genOfCall, ho]
    · simp only [genOfCall, ho, List.length_nil, ↓reduceIte]

/-- the byte stream the JSON parser is given when the generated reader wraps a reader delivering `chunks` and
the caller reads into `buf` -/
def genReaderOutput (chunks : List (List Nat)) (buf : List Nat) : Res (List Nat) :=
  genConsume (chunks.length + 1) (chunks.length + 1) ⟨chunks, .Undecided⟩ buf

/-- **iterating the generated `read` until it returns 0 yields `Header.readerOutput chunks`** -/
theorem tie_reader_output (chunks : List (List Nat)) (buf : List Nat)
    (hfit : ∀ c ∈ chunks, c.length ≤ buf.length) (hne : ∀ c ∈ chunks, c ≠ []) :
    genReaderOutput chunks buf = Header.readerOutput chunks :=
  tie_consume (chunks.length + 1) (chunks.length + 1) ⟨chunks, .Undecided⟩ buf hfit hne (Nat.lt_succ_self _)

example : genReaderOutput [[41, 93, 125, 39, 13], [10, 123], [125]] (List.replicate 8 0) = .ok [123, 125] := by rfl

/-! ### C12 about the generated reader -/

/-- `c12_chunking_irrelevant` for the code as translated -/
theorem gen_c12_chunking_irrelevant (chunks : List (List Nat)) (buf : List Nat)
    (hfit : ∀ c ∈ chunks, c.length ≤ buf.length) (hne : ∀ c ∈ chunks, c ≠ []) :
    genReaderOutput chunks buf = Header.Spec.runBytes .undecided chunks.flatten := by
  rw [tie_reader_output chunks buf hfit hne, C12.c12_chunking_irrelevant chunks hne]

/-- `c12_no_false_eof` for the code as translated: the generated `read` returns `Ok(0)` only when the inner reader
is exhausted and everything it delivered belonged to the header -/
theorem gen_c12_no_false_eof (fuel : Nat) (self : StripHeaderReader) (buf : List Nat)
    (hfit : ∀ c ∈ self.r, c.length ≤ buf.length) (hne : ∀ c ∈ self.r, c ≠ []) (hfuel : self.r.length < fuel)
    {self' : StripHeaderReader} {buf' : List Nat}
    (h : StripHeaderReader.read fuel self buf = .ok (0, self', buf')) :
    self'.r = [] ∧ Header.Spec.runBytes (toHState self.header_state) self.r.flatten = .ok [] := by
  obtain ⟨hout, _, hrest, _⟩ := tie_reader_read_ok fuel self buf hfit hne hfuel h
  rw [List.take_zero] at hout
  have := C12.c12_no_false_eof (toHState self.header_state) self.r hne hout
  rw [hrest] at this
  exact this

/-- `c12_reader_eq_slice` with generated code on both sides: the reader path as translated against
`strip_junk_header` as translated -/
theorem gen_c12_reader_eq_slice (chunks : List (List Nat)) (buf : List Nat)
    (hfit : ∀ c ∈ chunks, c.length ≤ buf.length) (hne : ∀ c ∈ chunks, c ≠ []) :
    C12.AgreeWs (genReaderOutput chunks buf) (Gen.RsDecoder.strip_junk_header chunks.flatten) := by
  rw [tie_reader_output chunks buf hfit hne, tie_strip_junk_header]
  exact C12.c12_reader_eq_slice chunks hne

end SmVerif.Tie
