import SmVerif.Rs.Prelude
/-
General lemmas about the operations of `SmVerif/Rs/Prelude.lean` needed by the Header / Small tie units
(`rsIndex`, `rsSlice`, `enumFrom`/`rsEnumerate`).  Kept apart from `PreludeLemmas.lean` (written by
another unit) so that the two merge without conflict; names are prefixed by the operation.
-/
namespace SmVerif.Rs
open SmVerif

/-! ### `rsIndex` -/

theorem rsIndex_of_lt {α} (xs : List α) (i : Nat) (h : i < xs.length) : rsIndex xs i = .ok xs[i] := by
  simp only [rsIndex, List.getElem?_eq_getElem h]

theorem rsIndex_of_ge {α} (xs : List α) (i : Nat) (h : xs.length ≤ i) : rsIndex xs i = .error .panic := by
  simp only [rsIndex, List.getElem?_eq_none h]

@[simp] theorem rsIndex_nil {α} (i : Nat) : rsIndex ([] : List α) i = .error .panic := by
  simp only [rsIndex, List.getElem?_nil]

@[simp] theorem rsIndex_cons_zero {α} (x : α) (xs : List α) : rsIndex (x :: xs) 0 = .ok x := by
  simp only [rsIndex, List.getElem?_cons_zero]

@[simp] theorem rsIndex_cons_succ {α} (x : α) (xs : List α) (i : Nat) :
    rsIndex (x :: xs) (i + 1) = rsIndex xs i := by
  simp only [rsIndex, List.getElem?_cons_succ]

/-- indexing never yields anything but a value or a panic -/
theorem rsIndex_ok_iff {α} (xs : List α) (i : Nat) (v : α) : rsIndex xs i = .ok v ↔ xs[i]? = some v := by
  unfold rsIndex
  cases h : xs[i]? with
  | none => simp
  | some w => simp

/-! ### `rsSlice` -/

theorem rsSlice_of_le {α} (xs : List α) (a b : Nat) (hab : a ≤ b) (hb : b ≤ xs.length) :
    rsSlice xs a b = .ok ((xs.drop a).take (b - a)) := by
  simp only [rsSlice, hab, hb, and_self, ↓reduceIte]

theorem rsSlice_panics {α} (xs : List α) (a b : Nat) (h : ¬ (a ≤ b ∧ b ≤ xs.length)) :
    rsSlice xs a b = .error .panic := by
  simp only [rsSlice, h, ↓reduceIte]

/-- `&xs[i..]` written as `&xs[i..xs.len()]` -/
theorem rsSlice_to_end {α} (xs : List α) (i : Nat) (h : i ≤ xs.length) :
    rsSlice xs i xs.length = .ok (xs.drop i) := by
  rw [rsSlice_of_le xs i xs.length h (Nat.le_refl _)]
  congr 1
  apply List.take_of_length_le
  simp only [List.length_drop, Nat.le_refl]

/-- `&xs[xs.len()..xs.len()]` -/
theorem rsSlice_len_len {α} (xs : List α) : rsSlice xs xs.length xs.length = .ok (xs.drop xs.length) :=
  rsSlice_to_end xs xs.length (Nat.le_refl _)

/-- `&xs[0..xs.len()]` -/
theorem rsSlice_full {α} (xs : List α) : rsSlice xs 0 xs.length = .ok xs := by
  rw [rsSlice_to_end xs 0 (Nat.zero_le _), List.drop_zero]

/-! ### `enumFrom` / `rsEnumerate` -/

@[simp] theorem enumFrom_nil {α} (n : Nat) : enumFrom n ([] : List α) = [] := rfl

@[simp] theorem enumFrom_cons {α} (n : Nat) (x : α) (xs : List α) :
    enumFrom n (x :: xs) = (n, x) :: enumFrom (n + 1) xs := rfl

theorem rsEnumerate_eq {α} (xs : List α) : rsEnumerate xs = enumFrom 0 xs := rfl

@[simp] theorem enumFrom_length {α} (n : Nat) (xs : List α) : (enumFrom n xs).length = xs.length := by
  induction xs generalizing n with
  | nil => rfl
  | cons x xs ih => simp only [enumFrom_cons, List.length_cons, ih]

theorem enumFrom_map_snd {α} (n : Nat) (xs : List α) : (enumFrom n xs).map (·.2) = xs := by
  induction xs generalizing n with
  | nil => rfl
  | cons x xs ih => simp only [enumFrom_cons, List.map_cons, ih]

theorem enumFrom_getElem? {α} (n : Nat) (xs : List α) (i : Nat) :
    (enumFrom n xs)[i]? = (xs[i]?).map (fun x => (n + i, x)) := by
  induction xs generalizing n i with
  | nil => simp only [enumFrom_nil, List.getElem?_nil, Option.map_none]
  | cons x xs ih =>
    cases i with
    | zero => simp only [enumFrom_cons, List.getElem?_cons_zero, Option.map_some, Nat.add_zero]
    | succ i =>
      simp only [enumFrom_cons, List.getElem?_cons_succ, ih]
      congr 1; funext x; congr 1; omega

theorem enumFrom_append {α} (n : Nat) (xs ys : List α) :
    enumFrom n (xs ++ ys) = enumFrom n xs ++ enumFrom (n + xs.length) ys := by
  induction xs generalizing n with
  | nil => simp only [List.nil_append, enumFrom_nil, List.length_nil, Nat.add_zero]
  | cons x xs ih =>
    simp only [List.cons_append, enumFrom_cons, ih, List.length_cons]
    congr 3; omega

/-- the enumeration of a suffix of `xs` is a suffix of the enumeration of `xs` -/
theorem enumFrom_drop {α} (n : Nat) (xs : List α) (k : Nat) :
    (enumFrom n xs).drop k = enumFrom (n + k) (xs.drop k) := by
  induction xs generalizing n k with
  | nil => simp only [enumFrom_nil, List.drop_nil]
  | cons x xs ih =>
    cases k with
    | zero => simp only [List.drop_zero, Nat.add_zero]
    | succ k =>
      simp only [enumFrom_cons, List.drop_succ_cons, ih]
      congr 1; omega

end SmVerif.Rs
