import SmVerif.Rs.Prelude
/-
General lemmas about the operations of `SmVerif/Rs/Prelude.lean` needed by the tie units Builder2 / Flatten / Rewrite:

* `rsMapM` with a function that never fails is `List.map` (`rsMapM_ok`);
* `rsSortByKeyP` - the stable insertion sort (left fold, each element after its equals) that stands for Rust's
  `sort_by_key` / `sort_unstable_by_key` on a `(u32, u32)` key - IS core's `List.mergeSort` with the order
  `a ≤ b := ¬ key b < key a` (`rsSortByKeyP_eq_mergeSort`), on every list: both are stable sorts.  The proof goes
  through the right-fold insertion sort (`insB`: each element before its equals), which `List.mergeSort_cons` shows
  `mergeSort` to be, and the commutation of the two insertions;
* `enumFrom` / `rsEnumerate` facts (`map_snd_enumFrom`);
* in a valid UTF-8 string the position after an ASCII byte is a character boundary, `&s[n..]` there does not panic
  (`rsUtf8Valid_cont`, `rsIsCharBoundary_after_ascii`, `rsStrSlice_after_ascii`).

Core Lean only; names do not clash with the other `PreludeLemmas*.lean`.
-/
namespace SmVerif.Rs
open SmVerif

/-! ### `rsMapM` -/

theorem rsMapM_ok {α β : Type} (f : α → Res β) (g : α → β) (h : ∀ x, f x = .ok (g x)) :
    ∀ l : List α, rsMapM f l = .ok (l.map g)
  | [] => rfl
  | x :: xs => by simp only [rsMapM, h x, rsMapM_ok f g h xs, List.map_cons]

/-- the same when `f` is only known to succeed on the elements of the list -/
theorem rsMapM_ok_mem {α β : Type} (f : α → Res β) (g : α → β) :
    ∀ l : List α, (∀ x ∈ l, f x = .ok (g x)) → rsMapM f l = .ok (l.map g)
  | [], _ => rfl
  | x :: xs, h => by
    have hx := h x List.mem_cons_self
    have hxs := rsMapM_ok_mem f g xs (fun y hy => h y (List.mem_cons_of_mem _ hy))
    simp only [rsMapM, hx, hxs, List.map_cons]

/-! ### `enumFrom` -/

theorem map_snd_enumFrom {α} : ∀ (n : Nat) (l : List α), (enumFrom n l).map (·.2) = l
  | _, [] => rfl
  | n, x :: xs => by simp only [enumFrom, List.map_cons, map_snd_enumFrom (n + 1) xs]

theorem map_snd_rsEnumerate {α} (l : List α) : (rsEnumerate l).map (·.2) = l := map_snd_enumFrom 0 l

/-! ### `rsSortByKeyP` is `List.mergeSort` -/

/-- the order of the `(u32, u32)` keys: `a ≤ b` as "not `b < a`" -/
def leByKeyP {α} (key : α → Nat × Nat) (a b : α) : Bool := !ltPair (key b) (key a)

theorem leByKeyP_trans {α} (key : α → Nat × Nat) (a b c : α) (h1 : leByKeyP key a b = true)
    (h2 : leByKeyP key b c = true) : leByKeyP key a c = true := by
  unfold leByKeyP ltPair at *
  simp only [Bool.not_eq_true', decide_eq_false_iff_not] at *
  omega

theorem leByKeyP_total {α} (key : α → Nat × Nat) (a b : α) : (leByKeyP key a b || leByKeyP key b a) = true := by
  unfold leByKeyP ltPair
  simp only [Bool.or_eq_true, Bool.not_eq_true', decide_eq_false_iff_not]
  omega

/-- not `x < y` is `y ≤ x` -/
theorem ltPair_false_iff {α} (key : α → Nat × Nat) (x y : α) :
    ltPair (key x) (key y) = false ↔ leByKeyP key y x = true := by
  unfold leByKeyP
  simp only [Bool.not_eq_true']

theorem ltPair_true_iff {α} (key : α → Nat × Nat) (x y : α) :
    ltPair (key x) (key y) = true ↔ leByKeyP key y x = false := by
  unfold leByKeyP
  simp only [Bool.not_eq_false']

/-- `rsInsertByKeyP` in terms of `ltPair` -/
theorem rsInsertByKeyP_cons {α} (key : α → Nat × Nat) (x y : α) (ys : List α) :
    rsInsertByKeyP key x (y :: ys) =
      if ltPair (key x) (key y) = true then x :: y :: ys else y :: rsInsertByKeyP key x ys := rfl

/-- insertion before the first element that is not smaller (the step of the right-fold insertion sort) -/
def insB {α} (key : α → Nat × Nat) (a : α) : List α → List α
  | [] => [a]
  | y :: ys => if leByKeyP key a y = true then a :: y :: ys else y :: insB key a ys

/-- the two insertions commute, on every list -/
theorem insA_insB_comm {α} (key : α → Nat × Nat) (x a : α) :
    ∀ s : List α, rsInsertByKeyP key x (insB key a s) = insB key a (rsInsertByKeyP key x s)
  | [] => by
    have ht := leByKeyP_total key a x
    by_cases h : ltPair (key x) (key a) = true
    · have h' := (ltPair_true_iff key x a).1 h
      simp only [insB, rsInsertByKeyP_cons, h, ↓reduceIte, rsInsertByKeyP, h', Bool.false_eq_true]
    · have h0 : ltPair (key x) (key a) = false := by simpa using h
      have h' := (ltPair_false_iff key x a).1 h0
      simp only [insB, rsInsertByKeyP_cons, h0, Bool.false_eq_true, ↓reduceIte, rsInsertByKeyP, h']
  | y :: ys => by
    by_cases h1 : leByKeyP key a y = true
    · by_cases h2 : ltPair (key x) (key y) = true
      · -- a ≤ y, x < y
        by_cases h3 : ltPair (key x) (key a) = true
        · have h3' := (ltPair_true_iff key x a).1 h3
          simp only [insB, h1, ↓reduceIte, rsInsertByKeyP_cons, h2, h3, h3', Bool.false_eq_true]
        · have h30 : ltPair (key x) (key a) = false := by simpa using h3
          have h3' := (ltPair_false_iff key x a).1 h30
          simp only [insB, h1, ↓reduceIte, rsInsertByKeyP_cons, h2, h30, h3', Bool.false_eq_true]
      · -- a ≤ y ≤ x
        have h20 : ltPair (key x) (key y) = false := by simpa using h2
        have h2' := (ltPair_false_iff key x y).1 h20
        have h3' : leByKeyP key a x = true := leByKeyP_trans key a y x h1 h2'
        have h30 : ltPair (key x) (key a) = false := (ltPair_false_iff key x a).2 h3'
        simp only [insB, h1, ↓reduceIte, rsInsertByKeyP_cons, h20, h30, Bool.false_eq_true]
    · have h10 : leByKeyP key a y = false := by simpa using h1
      by_cases h2 : ltPair (key x) (key y) = true
      · -- x < y < a
        have h2' := (ltPair_true_iff key x y).1 h2
        have h3 : leByKeyP key a x = false := by
          cases h : leByKeyP key a x with
          | false => rfl
          | true =>
            have hxy : leByKeyP key x y = true := by
              have := leByKeyP_total key x y
              simp only [h2', Bool.or_false] at this
              exact this
            have := leByKeyP_trans key a x y h hxy
            rw [h10] at this
            cases this
        simp only [insB, h10, Bool.false_eq_true, ↓reduceIte, rsInsertByKeyP_cons, h2, h3]
      · have h20 : ltPair (key x) (key y) = false := by simpa using h2
        simp only [insB, h10, Bool.false_eq_true, ↓reduceIte, rsInsertByKeyP_cons, h20,
          insA_insB_comm key x a ys]

theorem foldl_insA_insB {α} (key : α → Nat × Nat) (a : α) :
    ∀ (l acc : List α), l.foldl (fun acc x => rsInsertByKeyP key x acc) (insB key a acc) =
      insB key a (l.foldl (fun acc x => rsInsertByKeyP key x acc) acc)
  | [], _ => rfl
  | x :: l, acc => by
    simp only [List.foldl_cons, insA_insB_comm key x a acc, foldl_insA_insB key a l]

/-- the left-fold insertion sort (each element after its equals) is the right-fold one (each element before its
equals) -/
theorem rsSortByKeyP_eq_foldr {α} (key : α → Nat × Nat) :
    ∀ l : List α, rsSortByKeyP key l = l.foldr (insB key) []
  | [] => rfl
  | a :: l => by
    have ih := rsSortByKeyP_eq_foldr key l
    unfold rsSortByKeyP at ih ⊢
    have h1 : rsInsertByKeyP key a [] = insB key a [] := rfl
    simp only [List.foldl_cons, List.foldr_cons, h1, foldl_insA_insB key a l [], ih]

/-- inserting into `l₁ ++ l₂` where `l₁` is strictly below `a` and `l₂` is not -/
theorem insB_append {α} (key : α → Nat × Nat) (a : α) :
    ∀ (l₁ l₂ : List α), (∀ b ∈ l₁, leByKeyP key a b = false) → (∀ b ∈ l₂, leByKeyP key a b = true) →
      insB key a (l₁ ++ l₂) = l₁ ++ a :: l₂
  | [], [], _, _ => rfl
  | [], y :: ys, _, h2 => by
    have hy := h2 y List.mem_cons_self
    simp only [List.nil_append, insB, hy, ↓reduceIte]
  | y :: ys, l₂, h1, h2 => by
    have hy := h1 y List.mem_cons_self
    have ih := insB_append key a ys l₂ (fun b hb => h1 b (List.mem_cons_of_mem _ hb)) h2
    simp only [List.cons_append, insB, hy, Bool.false_eq_true, ↓reduceIte, ih]

/-- `mergeSort` is the right-fold insertion sort -/
theorem mergeSort_eq_foldr {α} (key : α → Nat × Nat) :
    ∀ l : List α, l.mergeSort (leByKeyP key) = l.foldr (insB key) []
  | [] => by simp only [List.mergeSort_nil, List.foldr_nil]
  | a :: l => by
    obtain ⟨l₁, l₂, h1, h2, h3⟩ := List.mergeSort_cons (leByKeyP_trans key) (leByKeyP_total key) a l
    have hs := List.pairwise_mergeSort (leByKeyP_trans key) (leByKeyP_total key) (a :: l)
    rw [h1] at hs
    have hs2 := (List.pairwise_append.1 hs).2.1
    have hl2 : ∀ b ∈ l₂, leByKeyP key a b = true := (List.pairwise_cons.1 hs2).1
    have hl1 : ∀ b ∈ l₁, leByKeyP key a b = false := by
      intro b hb
      have := h3 b hb
      simpa using this
    rw [h1, List.foldr_cons, ← mergeSort_eq_foldr key l, h2, insB_append key a l₁ l₂ hl1 hl2]

/-- **`rsSortByKeyP` is `mergeSort`** with the order "not `key b < key a`": the prelude's stable insertion sort and
core's stable merge sort give the same list on every input (elements with equal keys keep their order in both). -/
theorem rsSortByKeyP_eq_mergeSort {α} (key : α → Nat × Nat) (l : List α) :
    rsSortByKeyP key l = l.mergeSort (leByKeyP key) := by
  rw [rsSortByKeyP_eq_foldr, mergeSort_eq_foldr]

example : rsSortByKeyP (fun p : Nat × Nat × Nat => (p.1, p.2.1)) [(1, 0, 7), (0, 5, 1), (1, 0, 3), (0, 5, 0)] =
    [(0, 5, 1), (0, 5, 0), (1, 0, 7), (1, 0, 3)] := by decide
example : [(1, 0, 7), (0, 5, 1), (1, 0, 3), (0, 5, 0)].mergeSort (leByKeyP fun p : Nat × Nat × Nat => (p.1, p.2.1)) =
    [(0, 5, 1), (0, 5, 0), (1, 0, 7), (1, 0, 3)] := by
  rw [← rsSortByKeyP_eq_mergeSort]; decide

/-! ### UTF-8: the position after an ASCII byte of a `str` is a character boundary -/

/-- in a valid UTF-8 string the first byte is not a continuation byte, and every continuation byte follows a
non-ASCII byte -/
theorem rsUtf8Valid_cont (s : List Nat) (h : rsUtf8Valid s = true) :
    (∀ b, s[0]? = some b → 128 ≤ b → b < 192 → False) ∧
    (∀ i b, s[i + 1]? = some b → 128 ≤ b → b < 192 → ∃ a, s[i]? = some a ∧ 128 ≤ a) := by
  fun_induction rsUtf8Valid s
  case case1 =>
    refine ⟨fun b hb => ?_, fun i b hb => ?_⟩
    · simp only [List.getElem?_nil, reduceCtorEq] at hb
    · simp only [List.getElem?_nil, reduceCtorEq] at hb
  case case2 a r ha ih =>
    obtain ⟨ih1, ih2⟩ := ih h
    refine ⟨fun b hb h1 h2 => ?_, fun i b hb h1 h2 => ?_⟩
    · simp only [List.getElem?_cons_zero, Option.some.injEq] at hb
      omega
    · match i with
      | 0 =>
        simp only [Nat.zero_add, List.getElem?_cons_succ] at hb
        exact (ih1 b hb h1 h2).elim
      | k + 1 =>
        simp only [List.getElem?_cons_succ] at hb ⊢
        exact ih2 k b hb h1 h2
  case case3 a ha b r hr ih =>
    simp only [Bool.and_eq_true, decide_eq_true_eq] at h
    obtain ⟨ih1, ih2⟩ := ih h.2
    refine ⟨fun x hx h1 h2 => ?_, fun i x hx h1 h2 => ?_⟩
    · simp only [List.getElem?_cons_zero, Option.some.injEq] at hx
      omega
    · match i with
      | 0 => exact ⟨a, by simp only [List.getElem?_cons_zero], by omega⟩
      | 1 => exact ⟨b, by simp only [List.getElem?_cons_succ, List.getElem?_cons_zero], by omega⟩
      | k + 2 =>
        simp only [List.getElem?_cons_succ] at hx ⊢
        exact ih2 k x hx h1 h2
  case case4 a ha b h2 c r hr ih =>
    simp only [Bool.and_eq_true, decide_eq_true_eq] at h
    obtain ⟨⟨hb, hc⟩, hrest⟩ := h
    obtain ⟨ih1, ih2⟩ := ih hrest
    have hb' : 128 ≤ b := by
      split at hb
      · simp only [Bool.and_eq_true, decide_eq_true_eq] at hb; omega
      · split at hb <;> simp only [Bool.and_eq_true, decide_eq_true_eq] at hb <;> omega
    refine ⟨fun x hx h1 h2 => ?_, fun i x hx h1 h2 => ?_⟩
    · simp only [List.getElem?_cons_zero, Option.some.injEq] at hx
      omega
    · match i with
      | 0 => exact ⟨a, by simp only [List.getElem?_cons_zero], by omega⟩
      | 1 => exact ⟨b, by simp only [List.getElem?_cons_succ, List.getElem?_cons_zero], hb'⟩
      | 2 => exact ⟨c, by simp only [List.getElem?_cons_succ, List.getElem?_cons_zero], by omega⟩
      | k + 3 =>
        simp only [List.getElem?_cons_succ] at hx ⊢
        exact ih2 k x hx h1 h2
  case case5 a ha b h2 c h3 d r hr ih =>
    simp only [Bool.and_eq_true, decide_eq_true_eq] at h
    obtain ⟨⟨⟨hb, hc⟩, hd⟩, hrest⟩ := h
    obtain ⟨ih1, ih2⟩ := ih hrest
    have hb' : 128 ≤ b := by
      split at hb
      · simp only [Bool.and_eq_true, decide_eq_true_eq] at hb; omega
      · split at hb <;> simp only [Bool.and_eq_true, decide_eq_true_eq] at hb <;> omega
    refine ⟨fun x hx h1 h2 => ?_, fun i x hx h1 h2 => ?_⟩
    · simp only [List.getElem?_cons_zero, Option.some.injEq] at hx
      omega
    · match i with
      | 0 => exact ⟨a, by simp only [List.getElem?_cons_zero], by omega⟩
      | 1 => exact ⟨b, by simp only [List.getElem?_cons_succ, List.getElem?_cons_zero], hb'⟩
      | 2 => exact ⟨c, by simp only [List.getElem?_cons_succ, List.getElem?_cons_zero], by omega⟩
      | 3 => exact ⟨d, by simp only [List.getElem?_cons_succ, List.getElem?_cons_zero], by omega⟩
      | k + 4 =>
        simp only [List.getElem?_cons_succ] at hx ⊢
        exact ih2 k x hx h1 h2
  all_goals exact absurd h (by simp)

/-- **the position after an ASCII byte of a valid UTF-8 string is a character boundary** (so `&s[n..]` does not
panic there) -/
theorem rsIsCharBoundary_after_ascii (X : List Nat) (a : Nat) (Y : List Nat)
    (hv : rsUtf8Valid (X ++ a :: Y) = true) (ha : a < 128) :
    rsIsCharBoundary (X ++ a :: Y) (X.length + 1) = true := by
  unfold rsIsCharBoundary
  cases Y with
  | nil => simp only [List.length_append, List.length_cons, List.length_nil, Nat.zero_add, beq_self_eq_true,
      Bool.or_true, Bool.true_or]
  | cons y Y =>
    have hy : (X ++ a :: y :: Y)[X.length + 1]? = some y := by
      rw [List.getElem?_append_right (by omega)]
      simp only [Nat.add_sub_cancel_left, List.getElem?_cons_succ, List.getElem?_cons_zero]
    have hx : (X ++ a :: y :: Y)[X.length]? = some a := by
      rw [List.getElem?_append_right (by omega)]
      simp only [Nat.sub_self, List.getElem?_cons_zero]
    rw [hy]
    simp only [Bool.or_eq_true, decide_eq_true_eq]
    by_cases h1 : y < 128
    · exact Or.inr (Or.inl h1)
    · by_cases h2 : 192 ≤ y
      · exact Or.inr (Or.inr h2)
      · obtain ⟨a', ha', hge⟩ := (rsUtf8Valid_cont _ hv).2 X.length y hy (by omega) (by omega)
        rw [hx] at ha'
        simp only [Option.some.injEq] at ha'
        omega

/-- `&s[n..]` right after an ASCII byte of a valid string: no panic, the rest of the string -/
theorem rsStrSlice_after_ascii (X : List Nat) (a : Nat) (Y : List Nat)
    (hv : rsUtf8Valid (X ++ a :: Y) = true) (ha : a < 128) :
    rsStrSlice (X ++ a :: Y) (X.length + 1) (X ++ a :: Y).length = .ok Y := by
  have hb := rsIsCharBoundary_after_ascii X a Y hv ha
  have he : rsIsCharBoundary (X ++ a :: Y) (X ++ a :: Y).length = true := by
    unfold rsIsCharBoundary
    simp only [beq_self_eq_true, Bool.or_true, Bool.true_or]
  have hl : (X ++ a :: Y).length = X.length + 1 + Y.length := by
    simp only [List.length_append, List.length_cons]; omega
  unfold rsStrSlice rsStrGet
  rw [if_pos ⟨by omega, Nat.le_refl _, hb, he⟩]
  have hd : (X ++ a :: Y).drop (X.length + 1) = Y := by
    have : X ++ a :: Y = (X ++ [a]) ++ Y := by simp only [List.append_assoc, List.singleton_append]
    rw [this]
    exact List.drop_left' (by simp only [List.length_append, List.length_cons, List.length_nil])
  rw [hd, hl]
  simp only [Nat.add_sub_cancel_left, List.take_length]

example : rsUtf8Valid [97, 47, 195, 169] = true ∧ rsStrSlice [97, 47, 195, 169] 2 4 = .ok [195, 169] := ⟨by decide, rfl⟩
-- without validity the slice after an ASCII byte can panic (a stray continuation byte)
example : rsUtf8Valid [97, 47, 169] = false ∧ rsStrSlice [97, 47, 169] 2 3 = .error .panic := ⟨by decide, rfl⟩

#print axioms rsIsCharBoundary_after_ascii
#print axioms rsStrSlice_after_ascii
#print axioms rsMapM_ok
#print axioms rsSortByKeyP_eq_mergeSort

end SmVerif.Rs
