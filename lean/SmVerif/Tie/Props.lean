import SmVerif.Tie.Vlq
import SmVerif.Tie.Decode
import SmVerif.Tie.Lookup
import SmVerif.Tie.Hermes
import SmVerif.Props.C11
import SmVerif.Props.C06
import SmVerif.Props.C05
import SmVerif.Props.C04
import SmVerif.Props.C14
/-
Property theorems composed with tie theorems: the properties C11, C02/C06/C05 (token loop), C04/C07 (lookup)
and C14 (scope of a token) stated directly about the generated code (`SmVerif/Generated/Rs*.lean`, the Rust
source of today as translated by `tools/rs2lean`), for all inputs the Rust types allow.

Every proof is "rewrite with the tie theorem, apply the property theorem"; no new reasoning about the code.
The header side (C12) and the paths side (C19) are in `Tie/Props2.lean` / at the end of `Tie/Paths.lean`
(`Tie/PreludeLemmas.lean` and `Tie/PreludeLemmas2.lean` cannot be imported together).
-/
namespace SmVerif.Tie.Props
open SmVerif SmVerif.Rs

/-! ### generic: what `Except.map` reflects -/

theorem map_eq_error' {α β} (f : α → β) (r : Res α) (e : Err) (h : r.map f = .error e) : r = .error e := by
  cases r with
  | error e' => simp only [Except.map, Except.error.injEq] at h; rw [h]
  | ok a => cases h

theorem map_eq_ok' {α β} (f : α → β) (r : Res α) (b : β) (h : r.map f = .ok b) : ∃ a, r = .ok a ∧ f a = b := by
  cases r with
  | error e' => cases h
  | ok a => simp only [Except.map, Except.ok.injEq] at h; exact ⟨a, rfl, h⟩

theorem safe_of_map_safe {α β} (f : α → β) (r : Res α) (h : Res.safe (r.map f)) : Res.safe r := by
  rw [C05.c05_safe_iff] at h ⊢
  refine ⟨?_, ?_⟩
  · intro hr; rw [hr] at h; exact h.1 rfl
  · intro hr; rw [hr] at h; exact h.2 rfl

/-! ### C11: VLQ -/

section C11
open SmVerif.Vlq

theorem two_pow_62 : (2 : Int) ^ 62 = 4611686018427387904 := by decide

/-- the bytes the model encoder emits are ASCII (so they are bytes, the hypothesis of the parser tie) -/
theorem segBytes_lt (xs : List Int) : ∀ c ∈ (segDigits xs).map b64Char, c < 256 := by
  intro c hc
  rw [List.mem_map] at hc
  obtain ⟨d, hd, rfl⟩ := hc
  have := Tie.Vlq.b64Char_lt d (segDigits_lt xs d hd)
  omega

/-- a string over the alphabet consists of bytes -/
theorem toDigits_bytes : ∀ (s ds : List Nat), toDigits s = some ds → ∀ c ∈ s, c < 256 := by
  intro s
  induction s with
  | nil => intro _ _ c hc; cases hc
  | cons b bs ih =>
    intro ds h c hc
    simp only [toDigits] at h
    cases hb : b64Rev b with
    | none => simp [hb] at h
    | some d =>
      simp only [hb] at h
      cases hbs : toDigits bs with
      | none => simp [hbs] at h
      | some ds' =>
        rcases List.mem_cons.mp hc with rfl | hc'
        · by_cases h256 : c < 256
          · exact h256
          · rw [b64Rev_big c (by omega)] at hb; cases hb
        · exact ih ds' hbs c hc'

/-- **C11 round trip, generated encoder and generated parser.**  Every non-empty list of integers of magnitude
below 2^62: `generate_vlq_segment` returns a string (with any fuel ≥ 14 per value) and `parse_vlq_segment` reads
exactly the list back from it. -/
theorem gen_c11_roundtrip (xs : List Int) (hne : xs ≠ [])
    (hb : ∀ x ∈ xs, -2 ^ 62 < x ∧ x < 2 ^ 62) (fuel : Nat) (hf : 14 ≤ fuel) :
    ∃ s, Gen.RsVlq.generate_vlq_segment fuel xs = .ok s ∧ Gen.RsVlq.parse_vlq_segment s = .ok xs := by
  have hb' : ∀ x ∈ xs, -4611686018427387904 < x ∧ x < 4611686018427387904 := by
    intro x hx
    have := hb x hx
    rw [two_pow_62] at this
    exact this
  have hr : ∀ x ∈ xs, -9223372036854775808 ≤ x ∧ x ≤ 9223372036854775807 := by
    intro x hx
    have := hb' x hx
    omega
  refine ⟨(segDigits xs).map b64Char, ?_, ?_⟩
  · rw [Tie.Vlq.tie_generate_vlq_segment xs hr fuel hf, encodeSeg_ok xs hb']
  · rw [Tie.Vlq.tie_parse_vlq_segment _ (segBytes_lt xs)]
    have h := C11.c11_roundtrip xs hne hb'
    unfold C11.roundtrip at h
    rw [encodeSeg_ok xs hb'] at h
    exact h

example : ∃ s, Gen.RsVlq.generate_vlq_segment 14 [0, 1, -1, 4611686018427387903, -4611686018427387903] = .ok s ∧
    Gen.RsVlq.parse_vlq_segment s = .ok [0, 1, -1, 4611686018427387903, -4611686018427387903] :=
  gen_c11_roundtrip _ (by simp) (by intro x hx; rw [two_pow_62]; simp at hx; omega) 14 (by omega)

/-- **the same for every difference of two `u32` values** (all the map encoder emits) -/
theorem gen_c11_u32_diffs (a b : Nat) (ha : a < 2 ^ 32) (hb : b < 2 ^ 32) (fuel : Nat) (hf : 14 ≤ fuel) :
    ∃ s, Gen.RsVlq.generate_vlq_segment fuel [(a : Int) - (b : Int)] = .ok s ∧
      Gen.RsVlq.parse_vlq_segment s = .ok [(a : Int) - (b : Int)] := by
  apply gen_c11_roundtrip _ (by simp) _ fuel hf
  intro x hx
  simp only [List.mem_singleton] at hx
  subst hx
  rw [two_pow_62]
  have h32 : 2 ^ 32 = 4294967296 := rfl
  omega

/-- … and through `encode_vlq_diff` of encoder.rs, which is how the encoder calls it -/
theorem gen_c11_encode_vlq_diff (a b : Nat) (ha : a < 2 ^ 32) (hb : b < 2 ^ 32) (fuel : Nat) (hf : 14 ≤ fuel) :
    ∃ s, Gen.RsEncoder.encode_vlq_diff fuel [] a b = .ok s ∧
      Gen.RsVlq.parse_vlq_segment s = .ok [(a : Int) - (b : Int)] := by
  obtain ⟨s, h1, h2⟩ := gen_c11_u32_diffs a b ha hb fuel hf
  have h32 : 2 ^ 32 = 4294967296 := rfl
  have hr : ∀ x ∈ [(a : Int) - (b : Int)], -9223372036854775808 ≤ x ∧ x ≤ 9223372036854775807 := by
    intro x hx
    simp only [List.mem_singleton] at hx
    subst hx
    omega
  rw [Tie.Vlq.tie_generate_vlq_segment _ hr fuel hf] at h1
  refine ⟨s, ?_, h2⟩
  rw [Tie.Vlq.tie_encode_vlq_diff [] a b ha hb fuel hf]
  simp only [encodeSeg] at h1
  cases he : encodeVlq ((a : Int) - (b : Int)) with
  | error e => rw [he] at h1; cases h1
  | ok t =>
    rw [he] at h1
    simp only [Except.ok.injEq, List.append_nil] at h1
    subst h1
    rfl

example : (0 : Nat) < 2 ^ 32 ∧ (4294967295 : Nat) < 2 ^ 32 := by decide

/-- **the generated parser agrees with the independent reading of the standard** on every string over the
base64 alphabet, provided every value of at most 13 digits fits in 63 bits -/
theorem gen_c11_agrees_standard (s ds : List Nat) (halpha : toDigits s = some ds)
    (hfit : ∀ g ∈ (splitGroups ds []).1, g.length ≤ 13 → groupValue g < 9223372036854775808) :
    Gen.RsVlq.parse_vlq_segment s = specVlq ds := by
  rw [Tie.Vlq.tie_parse_vlq_segment s (toDigits_bytes s ds halpha)]
  exact C11.c11_agrees_standard s ds halpha hfit

example : toDigits [65, 65, 103, 66, 67] = some [0, 0, 32, 1, 2] := by decide +kernel

/-- an error for empty input -/
theorem gen_c11_err_empty : Gen.RsVlq.parse_vlq_segment [] = .error .novalues := by
  rw [Tie.Vlq.tie_parse_vlq_segment [] (by intro c hc; cases hc)]
  exact C11.c11_err_empty

/-- an error whenever the last digit of the string carries the continuation bit -/
theorem gen_c11_err_unterminated (s ds : List Nat) (halpha : toDigits s = some ds) (hne : ds ≠ [])
    (hlast : ds.getLast hne / 32 ≠ 0) : ∃ e, Gen.RsVlq.parse_vlq_segment s = .error e := by
  rw [Tie.Vlq.tie_parse_vlq_segment s (toDigits_bytes s ds halpha)]
  exact C11.c11_err_unterminated s ds halpha hne hlast

/-- an error as soon as a single value runs past 13 digits -/
theorem gen_c11_err_too_long (s pre run rest : List Nat) (d : Nat)
    (halpha : toDigits s = some (pre ++ run ++ d :: rest))
    (hpre : ∀ h : pre ≠ [], pre.getLast h / 32 = 0)
    (hrun : ∀ c ∈ run, c / 32 ≠ 0) (hlen : 13 ≤ run.length) :
    ∃ e, Gen.RsVlq.parse_vlq_segment s = .error e := by
  rw [Tie.Vlq.tie_parse_vlq_segment s (toDigits_bytes s _ halpha)]
  exact C11.c11_err_too_long s pre run rest d halpha hpre hrun hlen

-- "Cg": the last digit (32) carries the continuation bit
example : ∃ e, Gen.RsVlq.parse_vlq_segment [67, 103] = .error e :=
  gen_c11_err_unterminated [67, 103] [2, 32] (by decide +kernel) (by simp) (by decide)

end C11

/-! ### C02 / C06 / C05: the token loop of `decode_regular` -/

section Decode
open SmVerif.Vlq SmVerif.Mappings SmVerif.V3

/-- **C02 (token loop), generated decoder.**  Documents below 4 GiB (the four size hypotheses of the tie
theorem; bytes are bytes): whenever the independent reading of the wire format yields tokens and every
`rangeMappings` piece of a non-empty line decodes, `decode_regular_tokens` returns exactly those tokens, in
document order. -/
theorem gen_c02_decode_eq_spec (m rmi : List Nat) (names sources : List Unit) (ts : List Tok)
    (hbytes : ∀ c ∈ m, c < 256) (hmlen : m.length < 4294967296) (hrlen : rmi.length < 4294967296)
    (hsrcs : sources.length < 4294967296) (hnames : names.length < 4294967296)
    (hr : C06.rmiOk m rmi) (h : specDecode m rmi sources.length names.length = .toks ts) :
    (Gen.RsDecodeTokens.decode_regular_tokens names sources rmi m).map (·.map Decode.toTok) = .ok ts := by
  rw [Decode.tie_decode_regular_tokens_4GiB m rmi names sources hbytes hmlen hrlen hsrcs hnames]
  exact C06.c02_decode_eq_spec m rmi sources.length names.length ts hr h

/-- **C06, generated decoder.**  Whenever the independent reading finds a fault, `decode_regular_tokens`
returns an error. -/
theorem gen_c06_fault_rejected (m rmi : List Nat) (names sources : List Unit)
    (hbytes : ∀ c ∈ m, c < 256) (hmlen : m.length < 4294967296) (hrlen : rmi.length < 4294967296)
    (hsrcs : sources.length < 4294967296) (hnames : names.length < 4294967296)
    (h : specDecode m rmi sources.length names.length = .fault) :
    ∃ e, Gen.RsDecodeTokens.decode_regular_tokens names sources rmi m = .error e := by
  obtain ⟨e, he⟩ := C06.c06_fault_rejected m rmi sources.length names.length h
  rw [← Decode.tie_decode_regular_tokens_4GiB m rmi names sources hbytes hmlen hrlen hsrcs hnames] at he
  exact ⟨e, map_eq_error' _ _ _ he⟩

/-- **C06, generated decoder: no decoded token has a dangling source or name index.** -/
theorem gen_c06_ok_resolves (m rmi : List Nat) (names sources : List Unit)
    (hbytes : ∀ c ∈ m, c < 256) (hmlen : m.length < 4294967296) (hrlen : rmi.length < 4294967296)
    (hsrcs : sources.length < 4294967296) (hnames : names.length < 4294967296)
    (toks : List Gen.RsTypes.RawToken)
    (h : Gen.RsDecodeTokens.decode_regular_tokens names sources rmi m = .ok toks) :
    ∀ t ∈ toks, (t.src_id = NONE ∨ t.src_id < sources.length) ∧ (t.name_id = NONE ∨ t.name_id < names.length) := by
  have ht := Decode.tie_decode_regular_tokens_4GiB m rmi names sources hbytes hmlen hrlen hsrcs hnames
  rw [h] at ht
  intro t htm
  exact C06.c06_ok_resolves m rmi sources.length names.length (toks.map Decode.toTok) ht.symm (Decode.toTok t)
    (List.mem_map_of_mem htm)

/-- **C05, generated decoder: on documents below 4 GiB the token loop neither panics nor hangs.** -/
theorem gen_c05_decode_safe (m rmi : List Nat) (names sources : List Unit)
    (hbytes : ∀ c ∈ m, c < 256) (hmlen : m.length < 4294967296) (hrlen : rmi.length < 4294967296)
    (hsrcs : sources.length < 4294967296) (hnames : names.length < 4294967296) :
    (Gen.RsDecodeTokens.decode_regular_tokens names sources rmi m).safe := by
  apply safe_of_map_safe (·.map Decode.toTok)
  rw [Decode.tie_decode_regular_tokens_4GiB m rmi names sources hbytes hmlen hrlen hsrcs hnames]
  exact C05.c05_decode_safe m rmi sources.length names.length

/-- the same spelled out -/
theorem gen_c05_decode_no_crash (m rmi : List Nat) (names sources : List Unit)
    (hbytes : ∀ c ∈ m, c < 256) (hmlen : m.length < 4294967296) (hrlen : rmi.length < 4294967296)
    (hsrcs : sources.length < 4294967296) (hnames : names.length < 4294967296) :
    Gen.RsDecodeTokens.decode_regular_tokens names sources rmi m ≠ .error .panic ∧
    Gen.RsDecodeTokens.decode_regular_tokens names sources rmi m ≠ .error .diverge :=
  (C05.c05_safe_iff _).mp (gen_c05_decode_safe m rmi names sources hbytes hmlen hrlen hsrcs hnames)

-- `AAAA,CAAC;;AACAA` with `rangeMappings` `C;;B`, one source, one name
example : (∀ c ∈ [65,65,65,65,44,67,65,65,67,59,59,65,65,67,65,65], c < 256) ∧
    ([65,65,65,65,44,67,65,65,67,59,59,65,65,67,65,65] : List Nat).length < 4294967296 ∧
    ([67,59,59,66] : List Nat).length < 4294967296 ∧ [()].length < 4294967296 := by decide
example : (Gen.RsDecodeTokens.decode_regular_tokens [()] [()] [67,59,59,66]
      [65,65,65,65,44,67,65,65,67,59,59,65,65,67,65,65]).map (·.map Decode.toTok) = .ok [
    { dl := 0, dc := 0, sl := 0, sc := 0, src := 0, name := NONE, rng := false },
    { dl := 0, dc := 1, sl := 0, sc := 1, src := 0, name := NONE, rng := true },
    { dl := 2, dc := 0, sl := 1, sc := 1, src := 0, name := 0, rng := true }] := by
  refine gen_c02_decode_eq_spec _ _ _ _ _ (by decide) (by decide) (by decide) (by decide) (by decide) ?_ (by rfl)
  intro l ln h hne
  have e1 : splitOn SEMI [65,65,65,65,44,67,65,65,67,59,59,65,65,67,65,65] =
    [[65,65,65,65,44,67,65,65,67], [], [65,65,67,65,65]] := by rfl
  have e2 : splitOn SEMI [67,59,59,66] = [[67], [], [66]] := by rfl
  rw [e1] at h
  rw [e2]
  match l with
  | 0 => rfl
  | 1 => simp at h; exact absurd h hne
  | 2 => rfl
  | n + 3 => simp at h
-- `AAAA,CA`: a segment of two fields
example : ∃ e, Gen.RsDecodeTokens.decode_regular_tokens [] [()] [] [65,65,65,65,44,67,65] = .error e :=
  gen_c06_fault_rejected _ _ _ _ (by decide) (by decide) (by decide) (by decide) (by decide) (by rfl)

end Decode

/-! ### C04 / C07: `lookup_token` -/

section Lookup
open SmVerif.Lookup
open Gen.RsTypes

/-- the position key of `lookup_token` -/
abbrev rawPos (t : RawToken) : Pos := (t.dst_line, t.dst_col)

/-- what a successful `lookup_token` means in the model -/
theorem lookup_of_gen (sm : SourceMap) (line col : Nat) (hsc : ∀ t ∈ sm.tokens, t.src_col < 4294967296)
    (tok : Token) (hl : SourceMap.lookup_token sm line col = .ok (some tok)) :
    lookup (sm.tokens.map toTok) (line, col)
      = .ok (some (tok.idx, toTok tok.raw, satAdd tok.raw.src_col tok.offset)) := by
  rw [← tie_lookup_token sm line col hsc, hl]
  rfl

/-- … and that the returned `Token` holds the raw token at its index -/
theorem raw_of_gen (sm : SourceMap) (line col : Nat) (hsc : ∀ t ∈ sm.tokens, t.src_col < 4294967296)
    (tok : Token) (hl : SourceMap.lookup_token sm line col = .ok (some tok)) :
    sm.tokens[tok.idx]? = some tok.raw := by
  obtain ⟨tok', h1, _, _, h4, _⟩ :=
    tie_lookup_token_some sm line col hsc _ _ _ (lookup_of_gen sm line col hsc tok hl)
  rw [hl] at h1
  simp only [Except.ok.injEq, Option.some.injEq] at h1
  subst h1
  exact h4

/-- **C04: nothing is returned exactly when no token starts at or before the query.** -/
theorem gen_c04_lookup_none_iff (sm : SourceMap) (line col : Nat)
    (hsc : ∀ t ∈ sm.tokens, t.src_col < 4294967296) (h : C04.Sorted (sm.tokens.map toTok)) :
    SourceMap.lookup_token sm line col = .ok none ↔ ∀ t ∈ sm.tokens, posLe (rawPos t) (line, col) = false := by
  rw [tie_lookup_token_none sm line col hsc, C04.c04_lookup_none_iff _ _ h]
  constructor
  · intro hh t ht; exact hh (toTok t) (List.mem_map_of_mem ht)
  · intro hh t ht
    rw [List.mem_map] at ht
    obtain ⟨r, hr, rfl⟩ := ht
    exact hh r hr

/-- **C04: the returned token is the `idx`-th token, lies at or before the query, and no token at or before
the query lies after it.** -/
theorem gen_c04_lookup_greatest (sm : SourceMap) (line col : Nat)
    (hsc : ∀ t ∈ sm.tokens, t.src_col < 4294967296) (h : C04.Sorted (sm.tokens.map toTok))
    (tok : Token) (hl : SourceMap.lookup_token sm line col = .ok (some tok)) :
    sm.tokens[tok.idx]? = some tok.raw ∧ posLe (rawPos tok.raw) (line, col) = true ∧
      ∀ u ∈ sm.tokens, posLe (rawPos u) (line, col) = true → posLe (rawPos u) (rawPos tok.raw) = true := by
  obtain ⟨_, h2, h3⟩ := C04.c04_lookup_greatest _ _ _ _ _ h (lookup_of_gen sm line col hsc tok hl)
  exact ⟨raw_of_gen sm line col hsc tok hl, h2, fun u hu hle => h3 (toTok u) (List.mem_map_of_mem hu) hle⟩

/-- **C04: when the query is exactly a token's position, the first token at that position is returned.** -/
theorem gen_c04_lookup_exact_first (sm : SourceMap) (line col : Nat)
    (hsc : ∀ t ∈ sm.tokens, t.src_col < 4294967296) (h : C04.Sorted (sm.tokens.map toTok))
    (tok : Token) (hl : SourceMap.lookup_token sm line col = .ok (some tok))
    (hq : rawPos tok.raw = (line, col)) :
    ∀ j, j < tok.idx → ∀ u, sm.tokens[j]? = some u → rawPos u ≠ (line, col) := by
  intro j hj u hu
  refine C04.c04_lookup_exact_first _ _ _ _ _ h (lookup_of_gen sm line col hsc tok hl) hq j hj (toTok u) ?_
  rw [List.getElem?_map, hu]
  rfl

/-- **C07: on the token's own line a range token reports its original column advanced by the distance from its
generated column (saturating).** -/
theorem gen_c07_lookup_same_line (sm : SourceMap) (line col : Nat)
    (hsc : ∀ t ∈ sm.tokens, t.src_col < 4294967296) (h : C04.Sorted (sm.tokens.map toTok))
    (tok : Token) (hl : SourceMap.lookup_token sm line col = .ok (some tok))
    (hr : tok.raw.is_range = true) (hline : tok.raw.dst_line = line) :
    tok.raw.dst_col ≤ col ∧
      Token.get_src_col tok = .ok (satAdd tok.raw.src_col (col - tok.raw.dst_col)) := by
  obtain ⟨h1, h2⟩ :=
    C04.c07_lookup_same_line _ _ _ _ _ h (lookup_of_gen sm line col hsc tok hl) hr hline
  refine ⟨h1, ?_⟩
  rw [tokView_src_col tok]
  exact congrArg Except.ok h2

/-- **C07: a non-range token, or a token reached from a later line, reports its own original column.** -/
theorem gen_c07_lookup_other (sm : SourceMap) (line col : Nat)
    (hsc : ∀ t ∈ sm.tokens, t.src_col < 4294967296)
    (tok : Token) (hl : SourceMap.lookup_token sm line col = .ok (some tok))
    (hr : tok.raw.is_range = false ∨ tok.raw.dst_line ≠ line) :
    Token.get_src_col tok = .ok tok.raw.src_col := by
  have h2 := C04.c07_lookup_other _ _ _ _ _ (lookup_of_gen sm line col hsc tok hl) hr
  rw [tokView_src_col tok]
  exact congrArg Except.ok h2

-- the example map of Tie/Lookup.lean meets the hypotheses
example : (∀ t ∈ exampleMap.tokens, t.src_col < 4294967296) ∧ C04.Sorted (exampleMap.tokens.map toTok) := by
  refine ⟨by decide, ?_⟩
  simp [C04.Sorted, exampleMap, exTokA, exTokB, exTokC, toTok, posLe, Tok.pos]

end Lookup

/-! ### C14: `get_scope_for_token` -/

section Hermes
open SmVerif.Hermes SmVerif.Lookup
open Gen.RsHermes Gen.RsTypes

/-- **C14: scope = last entry at or before the position.**  For a token whose source has a function map with
offsets in non-decreasing order, on a source line below `u32::MAX`: the generated `get_scope_for_token` returns
the name the last offset with `(line, column) ≤ (src_line + 1, reported src_col)` points to. -/
theorem gen_c14_scope (h : SourceMapHermes) (tok : Token) (fm : HermesFunctionMap)
    (hfm : h.function_maps[tok.raw.src_id]? = some (some fm))
    (hs : Metro.Sorted (toFMap fm).entries) (hl : tok.raw.src_line < NONE) :
    SourceMapHermes.get_scope_for_token h tok =
      .ok (Metro.scope (toFMap fm) tok.raw.src_line (satAdd tok.raw.src_col tok.offset)) := by
  rw [tie_get_scope_for_token]
  congr 1
  apply C14.c14_scope _ _ _ _ (toFMap fm) _ hs hl
  rw [List.getElem?_map, hfm]
  rfl

/-- **C14: when nothing is returned** - (1) the source index lies beyond the table; (2) the source has no
function map; (3) every offset lies after the position (no order assumption); (4) the token has no source. -/
theorem gen_c14_none_cases (h : SourceMapHermes) (tok : Token) :
    (h.function_maps[tok.raw.src_id]? = none → SourceMapHermes.get_scope_for_token h tok = .ok none) ∧
    (h.function_maps[tok.raw.src_id]? = some none → SourceMapHermes.get_scope_for_token h tok = .ok none) ∧
    (∀ fm, h.function_maps[tok.raw.src_id]? = some (some fm) →
      (∀ o ∈ fm.mappings,
        posLt (tok.raw.src_line + 1, satAdd tok.raw.src_col tok.offset) (o.line, o.column) = true) →
      SourceMapHermes.get_scope_for_token h tok = .ok none) ∧
    (h.function_maps.length ≤ NONE → tok.raw.src_id = NONE →
      SourceMapHermes.get_scope_for_token h tok = .ok none) := by
  obtain ⟨c1, c2, c3, c4, _⟩ := C14.c14_none_cases (h.function_maps.map (Option.map toFMap)) tok.raw.src_id
    tok.raw.src_line (satAdd tok.raw.src_col tok.offset)
  rw [tie_get_scope_for_token]
  refine ⟨?_, ?_, ?_, ?_⟩
  · intro hn
    rw [c1 (by rw [List.getElem?_map, hn]; rfl)]
  · intro hn
    rw [c2 (by rw [List.getElem?_map, hn]; rfl)]
  · intro fm hfm hall
    rw [c3 (toFMap fm) (by rw [List.getElem?_map, hfm]; rfl) ?_]
    intro e he
    simp only [toFMap, List.mem_map] at he
    obtain ⟨o, ho, rfl⟩ := he
    exact hall o ho
  · intro hlen hsrc
    rw [hsrc, c4 (by rw [List.length_map]; exact hlen)]

-- the example table of Tie/Hermes.lean meets the hypotheses of `gen_c14_scope`
example : exHermes.function_maps[(exTok 0 0 12 0).raw.src_id]? = some (some exFMap) ∧
    Metro.Sorted (toFMap exFMap).entries ∧ (exTok 0 0 12 0).raw.src_line < NONE := by
  refine ⟨rfl, ?_, by decide⟩
  simp [Metro.Sorted, toFMap, exFMap, toEntry, posLe, Entry.pos]

end Hermes

/-! ### axioms -/
#print axioms gen_c11_roundtrip
#print axioms gen_c11_u32_diffs
#print axioms gen_c11_encode_vlq_diff
#print axioms gen_c11_agrees_standard
#print axioms gen_c11_err_empty
#print axioms gen_c11_err_unterminated
#print axioms gen_c11_err_too_long
#print axioms gen_c02_decode_eq_spec
#print axioms gen_c06_fault_rejected
#print axioms gen_c06_ok_resolves
#print axioms gen_c05_decode_safe
#print axioms gen_c05_decode_no_crash
#print axioms gen_c04_lookup_none_iff
#print axioms gen_c04_lookup_greatest
#print axioms gen_c04_lookup_exact_first
#print axioms gen_c07_lookup_same_line
#print axioms gen_c07_lookup_other
#print axioms gen_c14_scope
#print axioms gen_c14_none_cases

end SmVerif.Tie.Props
