import SmVerif.Tie.PreludeLemmas17
import SmVerif.Tie.Builder
import SmVerif.Tie.Prefix
/-
Tie unit "Builder2": the methods of `SourceMapBuilder` (builder.rs) and `SourceMap` (types.rs) that the extended
translator added to `Generated/RsBuilder.lean` / `Generated/RsTypes.lean`, against the model
(`Model/SourceMap.lean`, `Model/Builder.lean`).  Continues `Tie/Builder.lean` (relation `BRel g b` := `b = toBld g`).

* `toSMap` : the generated `SourceMap` as a model `SMap`, all nine fields (tokens through `toTok`, the opaque debug
  id through `dbgEnc`); `toSMap_injective`.
* `SourceMap` methods (no hypothesis): `tie_sm_get_file`, `tie_sm_get_source`, `tie_sm_get_source_contents`,
  `tie_sm_get_name`, `tie_sm_add_to_ignore_list`, `tie_sm_set_debug_id`, `tie_sm_set_source_root`
  (`rsMapM` over `prefix_source` never fails), `tie_sm_new` (the generated `rsSortByKeyP` - stable insertion sort -
  gives the same list as the model's `Lookup.sortToks` - core `mergeSort` - on EVERY input: `sort_toTok`).
* `Token` methods: `tie_token_get_source`, `tie_token_get_name` (↔ `SMap.tokSource`, `SMap.tokName` on
  `toSMap tok.sm`).
* builder: `tie_add_token_gen` (every token: `add_with_id` with the column `get_src_col` reports, i.e.
  `satAdd src_col offset`), `tie_add_token` (↔ `Bld.addToken`, for a token without range offset whose `src_col` is a
  `u32` - the model's `addToken` takes the raw column: "for iterated tokens"), `tie_strip_prefixes`
  (↔ `Bld.stripPrefixes`, for sources that are valid UTF-8, the `String` invariant: `&source[prefix.len()..]` is a
  `str` slice; `strip_prefixes_needs_utf8` shows the generated code panics on a byte string that is not UTF-8 where
  the byte-level model does not), `tie_into_sourcemap` (↔ `Bld.intoSourcemap`, no hypothesis).
-/
namespace SmVerif.Tie
open SmVerif SmVerif.Rs SmVerif.C13Spec
open SmVerif.Gen.RsBuilder (SourceMapBuilder)

/-! ### the generated `SourceMap` as a model `SMap` -/

/-- all nine fields one by one (tokens through `toTok`, the debug id through `dbgEnc`) -/
def toSMap (m : Gen.RsTypes.SourceMap) : SMap :=
  { file := m.file, tokens := m.tokens.map toTok, names := m.names, root := m.source_root, sources := m.sources,
    prefixed := m.sources_prefixed, contents := m.sources_content, ignore := m.ignore_list,
    debugId := m.debug_id.map dbgEnc }

theorem toSMap_injective (m m' : Gen.RsTypes.SourceMap) (h : toSMap m = toSMap m') : m = m' := by
  cases m; cases m'
  simp only [toSMap, SMap.mk.injEq] at h
  obtain ⟨h1, h2, h3, h4, h5, h6, h7, h8, h9⟩ := h
  have ht := map_toTok_injective _ _ h2
  have hd := map_dbgEnc_injective _ _ h9
  subst h1 ht h3 h4 h5 h6 h7 h8 hd
  rfl

/-! ### `SourceMap` methods -/

/-- **SourceMap::get_file** -/
theorem tie_sm_get_file (m : Gen.RsTypes.SourceMap) : m.get_file = .ok (toSMap m).file := rfl

/-- **SourceMap::get_source** (reads the prefixed sources when there are any) -/
theorem tie_sm_get_source (m : Gen.RsTypes.SourceMap) (i : Nat) : m.get_source i = .ok ((toSMap m).getSource i) := by
  unfold Gen.RsTypes.SourceMap.get_source SMap.getSource toSMap
  dsimp only
  cases (m.sources_prefixed.getD m.sources)[i]? <;> rfl

/-- **SourceMap::get_source_contents** -/
theorem tie_sm_get_source_contents (m : Gen.RsTypes.SourceMap) (i : Nat) :
    m.get_source_contents i = .ok ((toSMap m).getSourceContents i) := rfl

/-- **SourceMap::get_name** -/
theorem tie_sm_get_name (m : Gen.RsTypes.SourceMap) (i : Nat) : m.get_name i = .ok ((toSMap m).getName i) := by
  unfold Gen.RsTypes.SourceMap.get_name SMap.getName toSMap
  dsimp only
  cases m.names[i]? <;> rfl

/-- **SourceMap::add_to_ignore_list** (no hypothesis: `rsSetInsert` is `insertSorted` on every list) -/
theorem tie_sm_add_to_ignore_list (m : Gen.RsTypes.SourceMap) (i : Nat) :
    ∃ m', m.add_to_ignore_list i = .ok m' ∧ toSMap m' = (toSMap m).addToIgnoreList i := by
  refine ⟨_, rfl, ?_⟩
  simp only [toSMap, SMap.addToIgnoreList, rsSetInsert_eq_insertSorted]

/-- **SourceMap::set_debug_id** -/
theorem tie_sm_set_debug_id (m : Gen.RsTypes.SourceMap) (d : Option Nat) :
    ∃ m', m.set_debug_id d = .ok m' ∧ toSMap m' = (toSMap m).setDebugId (d.map dbgEnc) :=
  ⟨_, rfl, rfl⟩

/-- **SourceMap::set_source_root**: never fails (`prefix_source` does not), the prefixed sources are recomputed as
in the model (dropped for no root or an empty one) -/
theorem tie_sm_set_source_root (m : Gen.RsTypes.SourceMap) (v : Option (List Nat)) :
    ∃ m', m.set_source_root v = .ok m' ∧ toSMap m' = (toSMap m).setSourceRoot v := by
  unfold Gen.RsTypes.SourceMap.set_source_root SMap.setSourceRoot
  cases v with
  | none => exact ⟨_, rfl, rfl⟩
  | some r =>
    by_cases hr : r.isEmpty = true
    · simp only [Option.filter_some, hr, Bool.not_true, Bool.false_eq_true, ↓reduceIte]
      exact ⟨_, rfl, rfl⟩
    · have hr' : r.isEmpty = false := by simpa using hr
      have hm : ∀ f : List Nat → Res (List Nat), (∀ x, f x = .ok (SMap.prefixSource r x)) →
          rsMapM f m.sources = .ok (m.sources.map (SMap.prefixSource r)) :=
        fun f hf => rsMapM_ok f _ hf m.sources
      simp only [Option.filter_some, hr', Bool.not_false, ↓reduceIte, Bool.false_eq_true]
      rw [hm]
      · exact ⟨_, rfl, rfl⟩
      · intro x
        simp only [Prefix.tie_prefix_source_types]

/-! #### `SourceMap::new`: the two sorts -/

/-- the order of the generated sort key `(dst_line, dst_col)` is the model's `posLe` on the converted tokens -/
theorem leByKeyP_toTok (a b : Gen.RsTypes.RawToken) :
    leByKeyP (fun t : Gen.RsTypes.RawToken => (t.dst_line, t.dst_col)) a b =
      Lookup.posLe (Lookup.Tok.pos (toTok a)) (Lookup.Tok.pos (toTok b)) := by
  unfold leByKeyP ltPair Lookup.posLe Lookup.Tok.pos toTok
  rw [Bool.eq_iff_iff]
  simp only [Bool.not_eq_true', decide_eq_false_iff_not, Bool.or_eq_true, Bool.and_eq_true, decide_eq_true_eq]
  omega

/-- **the sort of `SourceMap::new`**: `rsSortByKeyP` (the prelude's stable insertion sort, standing for
`sort_unstable_by_key`) on the generated tokens is the model's `sortToks` (core `mergeSort`, stable) on the converted
tokens - for every list, whatever the keys: equal keys keep their order in both. -/
theorem sort_toTok (ts : List Gen.RsTypes.RawToken) :
    (rsSortByKeyP (fun t : Gen.RsTypes.RawToken => (t.dst_line, t.dst_col)) ts).map toTok =
      Lookup.sortToks (ts.map toTok) := by
  rw [rsSortByKeyP_eq_mergeSort]
  unfold Lookup.sortToks
  exact List.map_mergeSort (fun a _ b _ => leByKeyP_toTok a b)

/-- **SourceMap::new**, no hypothesis -/
theorem tie_sm_new (file : Option (List Nat)) (tokens : List Gen.RsTypes.RawToken) (names sources : List (List Nat))
    (contents : Option (List (Option (List Nat)))) :
    ∃ m, Gen.RsTypes.SourceMap.new file tokens names sources contents = .ok m ∧
      toSMap m = SMap.new file (tokens.map toTok) names sources contents := by
  refine ⟨_, rfl, ?_⟩
  simp only [toSMap, SMap.new, sort_toTok, List.map_id', Option.map_none]

/-! ### `Token::get_source`, `Token::get_name` -/

/-- **Token::get_source** -/
theorem tie_token_get_source (tok : Gen.RsTypes.Token) :
    tok.get_source = .ok ((toSMap tok.sm).tokSource (toTok tok.raw)) := by
  unfold Gen.RsTypes.Token.get_source SMap.tokSource
  have hN : SmVerif.NONE = 4294967295 := rfl
  have hs : (toTok tok.raw).src = tok.raw.src_id := rfl
  rw [hs, hN]
  by_cases h : tok.raw.src_id = 4294967295
  · simp only [h, ↓reduceIte]
  · simp only [h, ↓reduceIte, tie_sm_get_source]

/-- **Token::get_name** -/
theorem tie_token_get_name (tok : Gen.RsTypes.Token) :
    tok.get_name = .ok ((toSMap tok.sm).tokName (toTok tok.raw)) := by
  unfold Gen.RsTypes.Token.get_name SMap.tokName
  have hN : SmVerif.NONE = 4294967295 := rfl
  have hs : (toTok tok.raw).name = tok.raw.name_id := rfl
  rw [hs, hN]
  by_cases h : tok.raw.name_id = 4294967295
  · simp only [h, ↓reduceIte]
  · simp only [h, ↓reduceIte, tie_sm_get_name]

/-! ### `add_token` -/

/-- **add_token**, every token: it is `add_with_id` on what the getters report - the source column is
`get_src_col` = `src_col.saturating_add(offset)` -, the source and name strings read from the token's map, the old
source id passed along, the name only when asked.  Size hypotheses as for `add_with_id`. -/
theorem tie_add_token_gen (g : SourceMapBuilder) (b : Bld) (h : BRel g b) (tok : Gen.RsTypes.Token) (wn : Bool)
    (hs : (toSMap tok.sm).tokSource (toTok tok.raw) ≠ none → g.sources.length < 4294967296)
    (hn : (if wn then (toSMap tok.sm).tokName (toTok tok.raw) else none) ≠ none → g.names.length < 4294967296) :
    ∃ raw g', g.add_token tok wn = .ok (raw, g') ∧
      toTok raw = (b.addWithId (toTok tok.raw).dl (toTok tok.raw).dc (toTok tok.raw).sl
        (Lookup.satAdd (toTok tok.raw).sc tok.offset) ((toSMap tok.sm).tokSource (toTok tok.raw)) (toTok tok.raw).src
        (if wn then (toSMap tok.sm).tokName (toTok tok.raw) else none) (toTok tok.raw).rng).2 ∧
      BRel g' (b.addWithId (toTok tok.raw).dl (toTok tok.raw).dc (toTok tok.raw).sl
        (Lookup.satAdd (toTok tok.raw).sc tok.offset) ((toSMap tok.sm).tokSource (toTok tok.raw)) (toTok tok.raw).src
        (if wn then (toSMap tok.sm).tokName (toTok tok.raw) else none) (toTok tok.raw).rng).1 := by
  obtain ⟨g1, g2, g3, g4, g5, _, g7, _, _, _⟩ := tie_token_getters tok
  obtain ⟨raw, g', e, ht, r⟩ := tie_add_with_id g b h (toTok tok.raw).dl (toTok tok.raw).dc (toTok tok.raw).sl
    (Lookup.satAdd (toTok tok.raw).sc tok.offset) ((toSMap tok.sm).tokSource (toTok tok.raw)) (toTok tok.raw).src
    (if wn then (toSMap tok.sm).tokName (toTok tok.raw) else none) (toTok tok.raw).rng hs hn
  refine ⟨raw, g', ?_, ht, r⟩
  unfold SourceMapBuilder.add_token
  cases wn with
  | false =>
    simp only [Bool.false_eq_true, ↓reduceIte, g1, g2, g3, g4, g5, g7, tie_token_get_source] at e ⊢
    simp only [e]
  | true =>
    simp only [↓reduceIte, g1, g2, g3, g4, g5, g7, tie_token_get_source, tie_token_get_name] at e ⊢
    simp only [e]

/-- **add_token** against the model's `Bld.addToken`, for the tokens the model function is about: no range offset
(`tok.offset = 0`, the tokens `SourceMap::tokens()` yields) and `src_col` a `u32`. -/
theorem tie_add_token (g : SourceMapBuilder) (b : Bld) (h : BRel g b) (tok : Gen.RsTypes.Token) (wn : Bool)
    (h0 : tok.offset = 0) (hsc : tok.raw.src_col < 4294967296)
    (hs : (toSMap tok.sm).tokSource (toTok tok.raw) ≠ none → g.sources.length < 4294967296)
    (hn : (if wn then (toSMap tok.sm).tokName (toTok tok.raw) else none) ≠ none → g.names.length < 4294967296) :
    ∃ raw g', g.add_token tok wn = .ok (raw, g') ∧
      toTok raw = (b.addToken (toSMap tok.sm) (toTok tok.raw) wn).2 ∧
      BRel g' (b.addToken (toSMap tok.sm) (toTok tok.raw) wn).1 := by
  obtain ⟨raw, g', e, ht, r⟩ := tie_add_token_gen g b h tok wn hs hn
  have hsat : Lookup.satAdd (toTok tok.raw).sc tok.offset = (toTok tok.raw).sc := by
    rw [h0]; exact satAdd_zero _ hsc
  rw [hsat] at ht r
  exact ⟨raw, g', e, ht, r⟩

/-- **the offset hypothesis is needed**: for a token with a range offset (as `lookup_token` returns them) the
generated `add_token` records the shifted column, the model's `addToken` the raw one -/
theorem add_token_offset :
    let sm : Gen.RsTypes.SourceMap := { (default : Gen.RsTypes.SourceMap) with tokens := [⟨0, 0, 0, 5, 4294967295, 4294967295, true⟩] }
    let tok : Gen.RsTypes.Token := { raw := ⟨0, 0, 0, 5, 4294967295, 4294967295, true⟩, sm := sm, idx := 0, offset := 3 }
    (∃ g', emptyG.add_token tok false = .ok (⟨0, 0, 0, 8, 4294967295, 4294967295, true⟩, g')) ∧
    ((Bld.new none).addToken (toSMap sm) (toTok tok.raw) false).2.sc = 5 :=
  ⟨⟨_, rfl⟩, rfl⟩

/-! ### `strip_prefixes` -/

theorem isSuffixOf_slash (p : List Nat) : List.isSuffixOf [47] p = true ↔ p.getLast? = some 47 := by
  rw [List.isSuffixOf_iff_suffix, List.getLast?_eq_some_iff]
  constructor
  · rintro ⟨t, ht⟩; exact ⟨t, ht.symm⟩
  · rintro ⟨t, ht⟩; exact ⟨t, ht.symm⟩

theorem isPrefixOf_split17 {p l : List Nat} (h : p.isPrefixOf l = true) : l = p ++ l.drop p.length := by
  obtain ⟨t, ht⟩ := List.isPrefixOf_iff_prefix.1 h
  subst ht
  simp only [List.drop_left]

/-- cutting a matched prefix that ends in `/` off a valid UTF-8 string: the `str` slice does not panic -/
theorem slice_after_slash_prefix (q s : List Nat) (hv : rsUtf8Valid s = true)
    (hp : (q ++ [47]).isPrefixOf s = true) :
    rsStrSlice s (q ++ [47]).length s.length = .ok (s.drop (q ++ [47]).length) := by
  have hsplit := isPrefixOf_split17 hp
  generalize s.drop (q ++ [47]).length = Y at hsplit
  subst hsplit
  have hv' : rsUtf8Valid (q ++ 47 :: Y) = true := by
    simpa only [List.append_assoc, List.singleton_append] using hv
  have := rsStrSlice_after_ascii q 47 Y hv' (by decide)
  have e1 : q ++ [47] ++ Y = q ++ 47 :: Y := by simp only [List.append_assoc, List.singleton_append]
  have e2 : (q ++ [47]).length = q.length + 1 := by simp only [List.length_append, List.length_cons, List.length_nil]
  rw [e1, e2, this]

/-- the inner loop of `strip_prefixes` (over the prefixes, for one source) is the model's `stripOne` -/
theorem tie_strip_loop2 (s : List Nat) (hv : rsUtf8Valid s = true) :
    ∀ prefixes : List (List Nat), SourceMapBuilder.strip_prefixes.loop2 prefixes s = .ok (Bld.stripOne prefixes s)
  | [] => rfl
  | p :: ps => by
    have ih := tie_strip_loop2 s hv ps
    unfold SourceMapBuilder.strip_prefixes.loop2 Bld.stripOne
    by_cases hsl : p.getLast? = some 47
    · -- the prefix ends in `/` already
      have hsuf : List.isSuffixOf [47] p = true := (isSuffixOf_slash p).2 hsl
      obtain ⟨q, hq⟩ := List.getLast?_eq_some_iff.1 hsl
      simp only [hsuf, Bool.not_true, Bool.false_eq_true, ↓reduceIte, hsl]
      by_cases hp : p.isPrefixOf s = true
      · have hsl' := slice_after_slash_prefix q s hv (by rw [← hq]; exact hp)
        rw [← hq] at hsl'
        simp only [hp, ↓reduceIte, hsl']
      · simp only [hp, Bool.false_eq_true, ↓reduceIte, ih]
    · have hsuf : List.isSuffixOf [47] p = false := by
        cases hc : List.isSuffixOf [47] p with
        | false => rfl
        | true => exact absurd ((isSuffixOf_slash p).1 hc) hsl
      simp only [hsuf, Bool.not_false, ↓reduceIte, Nat.reduceLT, hsl]
      by_cases hp : (p ++ [47]).isPrefixOf s = true
      · have hsl' := slice_after_slash_prefix p s hv hp
        simp only [hp, ↓reduceIte, hsl']
      · simp only [hp, Bool.false_eq_true, ↓reduceIte, ih]

/-- the outer loop (over the sources) -/
theorem tie_strip_loop1 (prefixes : List (List Nat)) :
    ∀ (srcs : List (List Nat)) (out : List (List Nat)), (∀ s ∈ srcs, rsUtf8Valid s = true) →
      SourceMapBuilder.strip_prefixes.loop1 prefixes srcs out = .ok (out ++ srcs.map (Bld.stripOne prefixes))
  | [], out, _ => by simp only [SourceMapBuilder.strip_prefixes.loop1, List.map_nil, List.append_nil]
  | s :: srcs, out, hv => by
    have h1 := tie_strip_loop2 s (hv s List.mem_cons_self) prefixes
    have ih := tie_strip_loop1 prefixes srcs (out ++ [Bld.stripOne prefixes s])
      (fun x hx => hv x (List.mem_cons_of_mem _ hx))
    simp only [SourceMapBuilder.strip_prefixes.loop1, h1, ih, List.map_cons, List.append_assoc, List.singleton_append]

/-- **strip_prefixes**, for sources that are valid UTF-8 (the invariant of the Rust type `String`): the generated
method does not panic and does what `Bld.stripPrefixes` says.  Nothing is asked of the prefixes. -/
theorem tie_strip_prefixes (g : SourceMapBuilder) (b : Bld) (h : BRel g b) (prefixes : List (List Nat))
    (hv : ∀ s ∈ g.sources, rsUtf8Valid s = true) :
    ∃ g', g.strip_prefixes prefixes = .ok g' ∧ BRel g' (b.stripPrefixes prefixes) := by
  obtain rfl : b = toBld g := h
  unfold SourceMapBuilder.strip_prefixes
  simp only [tie_strip_loop1 prefixes g.sources [] hv, List.nil_append]
  exact ⟨_, rfl, rfl⟩

/-- **the UTF-8 hypothesis is needed** (it is part of the Rust type): on a source that is not UTF-8 - a stray
continuation byte after the `/` - the `str` slice of the generated code panics, the byte-level model drops the
prefix -/
theorem strip_prefixes_needs_utf8 :
    ({ emptyG with sources := [[97, 47, 169]] } : SourceMapBuilder).strip_prefixes [[97]] = .error .panic ∧
    ((toBld { emptyG with sources := [[97, 47, 169]] }).stripPrefixes [[97]]).sources = [[169]] ∧
    rsUtf8Valid [97, 47, 169] = false :=
  ⟨rfl, rfl, by decide⟩

/-! ### `into_sourcemap` -/

/-- the loop over the builder's ignore list -/
theorem tie_into_loop1 : ∀ (l : List Nat) (m : Gen.RsTypes.SourceMap),
    ∃ m', SourceMapBuilder.into_sourcemap.loop1 l m = .ok m' ∧
      toSMap m' = l.foldl (fun m i => m.addToIgnoreList i) (toSMap m)
  | [], m => ⟨m, rfl, rfl⟩
  | i :: l, m => by
    obtain ⟨m1, e1, r1⟩ := tie_sm_add_to_ignore_list m i
    obtain ⟨m2, e2, r2⟩ := tie_into_loop1 l m1
    refine ⟨m2, ?_, ?_⟩
    · simp only [SourceMapBuilder.into_sourcemap.loop1, e1, e2]
    · rw [r2, r1, List.foldl_cons]

/-- **into_sourcemap**, no hypothesis: the generated method never fails and the map it returns is, field by field
(`toSMap`), the model's `Bld.intoSourcemap` of the related state - tokens sorted (same order among equal positions),
contents `None` when empty, root set and sources prefixed, debug id copied, ignore list inserted one by one. -/
theorem tie_into_sourcemap (g : SourceMapBuilder) (b : Bld) (h : BRel g b) :
    ∃ m, g.into_sourcemap = .ok m ∧ toSMap m = b.intoSourcemap := by
  obtain rfl : b = toBld g := h
  obtain ⟨m1, e1, r1⟩ := tie_sm_new g.file g.tokens g.names g.sources
    (if ¬(g.source_contents = []) then some g.source_contents else none)
  obtain ⟨m2, e2, r2⟩ := tie_sm_set_source_root m1 g.source_root
  obtain ⟨m3, e3, r3⟩ := tie_sm_set_debug_id m2 g.debug_id
  obtain ⟨m4, e4, r4⟩ := tie_into_loop1 g.ignore_list m3
  refine ⟨m4, ?_, ?_⟩
  · unfold SourceMapBuilder.into_sourcemap
    simp only [e1, e2, e3, e4]
  · have hc : (if ¬(g.source_contents = []) then some g.source_contents else none) =
        (if g.source_contents.isEmpty = true then none else some g.source_contents) := by
      cases g.source_contents <;> rfl
    rw [r4, r3, r2, r1, hc]
    rfl

/-- the finished map of a generated run: `into_sourcemap` of the generated final state is the model's
`intoSourcemap` of the model's final state (closing the gap the C13 corollaries of `Tie/Builder.lean` left: they speak
of `(toBld g).intoSourcemap`) -/
theorem tie_run_into_sourcemap (ops : List BldOp) (g : SourceMapBuilder) (outs : List BOut)
    (h : runG emptyG ops = .ok (g, outs)) (hs : SmallG g) :
    ∃ b m, (Bld.new none).run (ops.map BldOp.toBOp) = .ok (b, outs) ∧ g.into_sourcemap = .ok m ∧
      toSMap m = b.intoSourcemap := by
  obtain ⟨m, e, r⟩ := tie_into_sourcemap g (toBld g) (brel_toBld g)
  exact ⟨toBld g, m, runG_model ops g outs h hs, e, r⟩

/-! ### non-vacuity: concrete values -/

/-- a map with a root (so prefixed sources), contents, two tokens at the same position (the sort must keep their
order), an ignore list and a debug id -/
def exSM : Gen.RsTypes.SourceMap :=
  { (default : SmVerif.Gen.RsTypes.SourceMap) with
    file := some [102], tokens := [⟨0, 0, 0, 1, 0, 0, false⟩, ⟨0, 0, 0, 2, 1, 4294967295, false⟩, ⟨1, 4, 2, 2, 4294967295, 4294967295, true⟩],
    names := [[110]], source_root := some [114], sources := [[97], [47, 98]],
    sources_prefixed := some [[114, 47, 97], [47, 98]], sources_content := [some [120]], ignore_list := [1],
    debug_id := some 2 }

def exTok0 : Gen.RsTypes.Token := { raw := ⟨0, 0, 0, 1, 0, 0, false⟩, sm := exSM, idx := 0, offset := 0 }
def exTok1 : Gen.RsTypes.Token := { raw := ⟨0, 0, 0, 2, 1, 4294967295, false⟩, sm := exSM, idx := 1, offset := 0 }

example : exTok0.get_source = .ok (some [114, 47, 97]) ∧ (toSMap exSM).tokSource (toTok exTok0.raw) = some [114, 47, 97] :=
  ⟨rfl, rfl⟩
example : exTok0.get_name = .ok (some [110]) ∧ exTok1.get_name = .ok none ∧
    (toSMap exSM).tokName (toTok exTok1.raw) = none := ⟨rfl, rfl, rfl⟩
example : exSM.get_source_contents 0 = .ok (some [120]) ∧ exSM.get_source_contents 1 = .ok none := ⟨rfl, rfl⟩
-- `set_source_root`: a new root re-prefixes the relative source, an empty one drops the prefixed list
example : ∃ m', exSM.set_source_root (some [115, 47]) = .ok m' ∧ m'.sources_prefixed = some [[115, 47, 97], [47, 98]] :=
  ⟨_, rfl, rfl⟩
example : ∃ m', exSM.set_source_root (some []) = .ok m' ∧ m'.sources_prefixed = none ∧
    ((toSMap exSM).setSourceRoot (some [])).prefixed = none := ⟨_, rfl, rfl, rfl⟩
-- `new`: unsorted tokens with two equal positions - both sorts keep 7 before 3 and 1 before 0
example : ∃ m, Gen.RsTypes.SourceMap.new none
      [⟨1, 0, 0, 7, 0, 0, false⟩, ⟨0, 5, 0, 1, 0, 0, false⟩, ⟨1, 0, 0, 3, 0, 0, false⟩, ⟨0, 5, 0, 0, 0, 0, false⟩] [] [] none = .ok m ∧
    m.tokens = [⟨0, 5, 0, 1, 0, 0, false⟩, ⟨0, 5, 0, 0, 0, 0, false⟩, ⟨1, 0, 0, 7, 0, 0, false⟩, ⟨1, 0, 0, 3, 0, 0, false⟩] :=
  ⟨_, rfl, by decide⟩
example : Lookup.sortToks
      [⟨1, 0, 0, 7, 0, 0, false⟩, ⟨0, 5, 0, 1, 0, 0, false⟩, ⟨1, 0, 0, 3, 0, 0, false⟩, ⟨0, 5, 0, 0, 0, 0, false⟩] =
    [⟨0, 5, 0, 1, 0, 0, false⟩, ⟨0, 5, 0, 0, 0, 0, false⟩, ⟨1, 0, 0, 7, 0, 0, false⟩, ⟨1, 0, 0, 3, 0, 0, false⟩] := by
  have := sort_toTok
    [⟨1, 0, 0, 7, 0, 0, false⟩, ⟨0, 5, 0, 1, 0, 0, false⟩, ⟨1, 0, 0, 3, 0, 0, false⟩, ⟨0, 5, 0, 0, 0, 0, false⟩]
  simp only [List.map_cons, List.map_nil, toTok] at this
  rw [← this]
  decide
-- the hypotheses of `tie_add_token` at `exTok0` on the builder `exG` of `Tie/Builder.lean`
example : exTok0.offset = 0 ∧ exTok0.raw.src_col < 4294967296 ∧
    ((toSMap exTok0.sm).tokSource (toTok exTok0.raw) ≠ none → exG.sources.length < 4294967296) ∧
    ((if true then (toSMap exTok0.sm).tokName (toTok exTok0.raw) else none) ≠ none → exG.names.length < 4294967296) :=
  ⟨rfl, by decide, fun _ => by decide, fun _ => by decide⟩
example : ∃ raw g', exG.add_token exTok0 true = .ok (raw, g') ∧ raw = ⟨0, 0, 0, 1, 3, 0, false⟩ ∧
    g'.sources = exG.sources ++ [[114, 47, 97]] ∧ g'.sources_mapping = exG.sources_mapping ++ [0] :=
  ⟨_, _, rfl, rfl, rfl, rfl⟩
example : ((toBld exG).addToken (toSMap exSM) (toTok exTok0.raw) true).2 = toTok ⟨0, 0, 0, 1, 3, 0, false⟩ := rfl
-- `strip_prefixes` on valid UTF-8 sources ("a/é", "b"), prefixes "a" (slash appended) and "b/"
example : ∀ s ∈ ({ emptyG with sources := [[97, 47, 195, 169], [98]] } : SourceMapBuilder).sources,
    rsUtf8Valid s = true := by decide
example : ∃ g', ({ emptyG with sources := [[97, 47, 195, 169], [98]] } : SourceMapBuilder).strip_prefixes [[97], [98, 47]] =
    .ok g' ∧ g'.sources = [[195, 169], [98]] := ⟨_, rfl, rfl⟩
-- `into_sourcemap` of the state `exG2` of `Tie/Builder.lean` (file, root "r/", ignore list, debug id)
example : ∃ m, exG2.into_sourcemap = .ok m ∧ m.sources_prefixed = some [[114, 47, 97], [114, 47, 98]] ∧
    m.ignore_list = [0, 1] ∧ m.debug_id = some 2 ∧ m.file = some [102] ∧ m.source_root = some [114, 47] :=
  ⟨_, rfl, rfl, rfl, rfl, rfl, rfl⟩
example : (toBld exG2).intoSourcemap.prefixed = some [[114, 47, 97], [114, 47, 98]] ∧
    (toBld exG2).intoSourcemap.debugId = some [100, 100] := ⟨rfl, rfl⟩

#print axioms toSMap_injective
#print axioms tie_sm_get_file
#print axioms tie_sm_get_source
#print axioms tie_sm_get_source_contents
#print axioms tie_sm_get_name
#print axioms tie_sm_add_to_ignore_list
#print axioms tie_sm_set_debug_id
#print axioms tie_sm_set_source_root
#print axioms sort_toTok
#print axioms tie_sm_new
#print axioms tie_token_get_source
#print axioms tie_token_get_name
#print axioms tie_add_token_gen
#print axioms tie_add_token
#print axioms add_token_offset
#print axioms tie_strip_loop2
#print axioms tie_strip_prefixes
#print axioms strip_prefixes_needs_utf8
#print axioms tie_into_sourcemap
#print axioms tie_run_into_sourcemap

end SmVerif.Tie
