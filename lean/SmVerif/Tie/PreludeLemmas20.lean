import SmVerif.Rs.Prelude
import SmVerif.Tie.PreludeLemmas14
/-
General lemmas about the string mirrors of the prelude used by the tie unit "RevIter"
(`RevTokenIter::next`, sourceview.rs): where the character boundaries of an encoded text `enc cs` are
(`rsIsCharBoundary`), and what `s.get(..n)` / `s.get(n..)` (`rsStrGet`) give on it, one character at a time.
(Builds on `Tie/PreludeLemmas14.lean`: the encoder `enc` and `rsChars_enc`.)
-/
namespace SmVerif.Rs
open SmVerif

/-! ### character boundaries of an encoded text -/

/-- boundaries after a prefix: position `|X| + i` (`i > 0`) of `X ++ Y` is a boundary iff `i` is one of `Y` -/
theorem rsIsCharBoundary_append_pos (X Y : List Nat) (i : Nat) (hi : 0 < i) :
    rsIsCharBoundary (X ++ Y) (X.length + i) = rsIsCharBoundary Y i := by
  unfold rsIsCharBoundary
  have h0 : (X.length + i == 0) = false := by simp only [beq_eq_false_iff_ne, ne_eq]; omega
  have h0' : (i == 0) = false := by simp only [beq_eq_false_iff_ne, ne_eq]; omega
  have h1 : (X.length + i == (X ++ Y).length) = (i == Y.length) := by
    rw [List.length_append, Bool.eq_iff_iff]
    simp only [beq_iff_eq]
    omega
  have h2 : (X ++ Y)[X.length + i]? = Y[i]? := by
    rw [List.getElem?_append_right (by omega)]
    congr 1; omega
  rw [h0, h0', h1, h2]

/-- strictly inside the bytes of a character there is no boundary -/
theorem rsIsCharBoundary_encChar_inside (c : Char) (rest : List Nat) (n : Nat) (h0 : 0 < n)
    (h1 : n < rsLenUtf8 c.toNat) : rsIsCharBoundary (encChar c ++ rest) n = false := by
  obtain ⟨lead, conts, he, _, _, hc⟩ := encChar_shape c
  have hl : (encChar c).length = rsLenUtf8 c.toNat := encChar_length c
  rw [he, List.length_cons] at hl
  unfold rsIsCharBoundary
  have a0 : (n == 0) = false := by simp only [beq_eq_false_iff_ne, ne_eq]; omega
  have a1 : (n == (encChar c ++ rest).length) = false := by
    rw [List.length_append, he, List.length_cons]
    simp only [beq_eq_false_iff_ne, ne_eq]; omega
  obtain ⟨m, rfl⟩ : ∃ m, n = m + 1 := ⟨n - 1, by omega⟩
  have hn : m < conts.length := by omega
  have a2 : (encChar c ++ rest)[m + 1]? = some conts[m] := by
    rw [he, List.cons_append, List.getElem?_cons_succ, List.getElem?_append_left hn,
      List.getElem?_eq_getElem hn]
  have hb := hc conts[m] (List.getElem_mem hn)
  rw [a0, a1, a2]
  simp only [Bool.false_or, Bool.or_eq_false_iff, decide_eq_false_iff_not]
  omega

/-- at or after the end of the first character: a boundary of `enc (c :: cs)` iff a boundary of `enc cs` -/
theorem rsIsCharBoundary_enc_cons_ge (c : Char) (cs : List Char) (n : Nat) (h : rsLenUtf8 c.toNat ≤ n) :
    rsIsCharBoundary (enc (c :: cs)) n = rsIsCharBoundary (enc cs) (n - rsLenUtf8 c.toNat) := by
  have hl : (encChar c).length = rsLenUtf8 c.toNat := encChar_length c
  rw [enc_cons]
  by_cases he : n = rsLenUtf8 c.toNat
  · have h1 := rsIsCharBoundary_enc (encChar c) cs
    rw [hl] at h1
    rw [he, h1, Nat.sub_self, rsIsCharBoundary_zero]
  · have h1 := rsIsCharBoundary_append_pos (encChar c) (enc cs) (n - rsLenUtf8 c.toNat) (by omega)
    rw [hl, Nat.add_sub_cancel' h] at h1
    exact h1

theorem rsIsCharBoundary_enc_cons_lt (c : Char) (cs : List Char) (n : Nat) (h0 : 0 < n)
    (h1 : n < rsLenUtf8 c.toNat) : rsIsCharBoundary (enc (c :: cs)) n = false := by
  rw [enc_cons]; exact rsIsCharBoundary_encChar_inside c (enc cs) n h0 h1

/-! ### `s.get(..n)` and `s.get(n..)` -/

/-- `s.get(..n)` -/
theorem rsStrGet_zero (s : List Nat) (n : Nat) :
    rsStrGet s 0 n = if rsIsCharBoundary s n = true then some (s.take n) else none := by
  rw [rsStrGet_eq]
  simp only [Nat.zero_le, rsIsCharBoundary_zero, true_and, List.drop_zero, Nat.sub_zero]

/-- `s.get(n..)` (written `s.get(n..s.len())`) -/
theorem rsStrGet_to_end (s : List Nat) (n : Nat) :
    rsStrGet s n s.length = if rsIsCharBoundary s n = true then some (s.drop n) else none := by
  rw [rsStrGet_eq]
  by_cases hb : rsIsCharBoundary s n = true
  · have hn : n ≤ s.length := by
      rcases Nat.lt_or_ge s.length n with h | h
      · rw [rsIsCharBoundary_gt s n h] at hb; exact absurd hb (by decide)
      · exact h
    rw [if_pos ⟨hn, hb, rsIsCharBoundary_length s⟩, if_pos hb]
    congr 1
    apply List.take_of_length_le
    rw [List.length_drop]; omega
  · rw [if_neg (fun h => hb h.2.1), if_neg hb]

theorem rsStrGet_zero_zero (s : List Nat) : rsStrGet s 0 0 = some [] := by
  rw [rsStrGet_zero, rsIsCharBoundary_zero]; rfl

/-- `s.get(..n)` inside the first character: `None` -/
theorem rsStrGet_zero_enc_cons_lt (c : Char) (cs : List Char) (n : Nat) (h0 : 0 < n)
    (h1 : n < rsLenUtf8 c.toNat) : rsStrGet (enc (c :: cs)) 0 n = none := by
  rw [rsStrGet_zero, rsIsCharBoundary_enc_cons_lt c cs n h0 h1]; rfl

/-- `s.get(..n)` past the first character: the first character, then `get(..n - len)` of the rest -/
theorem rsStrGet_zero_enc_cons_ge (c : Char) (cs : List Char) (n : Nat) (h : rsLenUtf8 c.toNat ≤ n) :
    rsStrGet (enc (c :: cs)) 0 n = (rsStrGet (enc cs) 0 (n - rsLenUtf8 c.toNat)).map (encChar c ++ ·) := by
  have hl : (encChar c).length = rsLenUtf8 c.toNat := encChar_length c
  rw [rsStrGet_zero, rsStrGet_zero, rsIsCharBoundary_enc_cons_ge c cs n h]
  by_cases hb : rsIsCharBoundary (enc cs) (n - rsLenUtf8 c.toNat) = true
  · rw [if_pos hb, if_pos hb, Option.map_some, enc_cons, List.take_append, hl,
      List.take_of_length_le (by omega)]
  · rw [if_neg hb, if_neg hb]; rfl

/-- `s.get(n..)` inside the first character: `None` -/
theorem rsStrGet_to_end_enc_cons_lt (c : Char) (cs : List Char) (n : Nat) (h0 : 0 < n)
    (h1 : n < rsLenUtf8 c.toNat) : rsStrGet (enc (c :: cs)) n (enc (c :: cs)).length = none := by
  rw [rsStrGet_to_end, rsIsCharBoundary_enc_cons_lt c cs n h0 h1]; rfl

/-- `s.get(n..)` past the first character: `get(n - len..)` of the rest -/
theorem rsStrGet_to_end_enc_cons_ge (c : Char) (cs : List Char) (n : Nat) (h : rsLenUtf8 c.toNat ≤ n) :
    rsStrGet (enc (c :: cs)) n (enc (c :: cs)).length =
      rsStrGet (enc cs) (n - rsLenUtf8 c.toNat) (enc cs).length := by
  have hl : (encChar c).length = rsLenUtf8 c.toNat := encChar_length c
  rw [rsStrGet_to_end, rsStrGet_to_end, rsIsCharBoundary_enc_cons_ge c cs n h]
  by_cases hb : rsIsCharBoundary (enc cs) (n - rsLenUtf8 c.toNat) = true
  · rw [if_pos hb, if_pos hb, enc_cons, List.drop_append, hl, List.drop_of_length_le (by omega),
      List.nil_append]
  · rw [if_neg hb, if_neg hb]

theorem rsStrGet_to_end_zero (s : List Nat) : rsStrGet s 0 s.length = some s := by
  rw [rsStrGet_to_end, rsIsCharBoundary_zero]; rfl

/-- `len_utf16 ≤ len_utf8`, summed over an encoded text: its UTF-16 length is at most its byte length -/
theorem rsSumLen16_le_enc_length (cs : List Char) : rsSumLen16 (cs.map Char.toNat) ≤ (enc cs).length := by
  rw [enc_length]; exact rsSumLen16_le_rsSumLen8 _

end SmVerif.Rs
