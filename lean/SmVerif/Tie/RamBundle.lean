import SmVerif.Tie.PreludeLemmas9
import SmVerif.Generated.RsRamBundle
import SmVerif.Model.RamBundle
import SmVerif.Props.C20
/-
Tie unit "RamBundle": the indexed RAM bundle reader of ram_bundle.rs as translated by `tools/rs2lean`
(`Gen.RsRamBundle`: `IndexedRamBundle.parse`, `.module_count_fn`, `.startup_code`, `.get_module`,
`is_ram_bundle_slice`) computes what the hand-written model `SmVerif/Model/RamBundle.lean` says, so the C20
property theorems hold for the code as translated.

* `tie_ram_magic`            : the translated constant is the extracted constant;
* `tie_le32`, `tie_pread_u32s`, `tie_pread_u32s_two/three`, `tie_pread_bytes`
                             : the prelude's scroll mirrors are the model's `le32` / `slice` (no hypothesis);
* `tie_ram_parse`            : `parse` = model `parse` through `toBundle`, for all byte lists; the bytes being
                               `< 256` is what makes the `usize` guards of `12 + module_count * 8` dead;
* `parse_ok_bounds`          : what `parse` returns has `u32` fields and the offset `12 + 8 * count`;
* `tie_ram_module_count`, `tie_ram_startup_code` : no hypothesis;
* `tie_ram_get_module`       : `get_module` = model `getModule` with the id attached, for a bundle with
                               `u32` count and offset at most `12 + 8 * 2^32` over bytes;
* `tie_is_ram_bundle_slice`  : `.ok (isRamBundle bytes)`, no hypothesis needed;
* `gen_c20_…`                : the C20 property theorems restated about the generated functions.
-/
namespace SmVerif.Tie
open SmVerif SmVerif.Rs SmVerif.Ram
open SmVerif.Gen.RsRamBundle (IndexedRamBundle RamBundleModule RamBundleHeader ModuleEntry)

/-! ### 1. the constant and the scroll reads -/

/-- the constant the translator read from ram_bundle.rs is the constant the extractor read -/
theorem tie_ram_magic : Gen.RsRamBundle.RAM_BUNDLE_MAGIC = Consts.ramMagic := rfl

/-- **`u32` read.**  The model's `le32` is the prelude's little-endian value of the four bytes at `off`, when
they are there.  No hypothesis on the bytes: neither side reduces mod 256. -/
theorem tie_le32 (bs : List Nat) (off : Nat) :
    Ram.le32 bs off = if off + 4 ≤ bs.length then some (rsLe ((bs.drop off).take 4)) else none := by
  unfold Ram.le32
  by_cases h : off + 4 ≤ bs.length
  · rw [if_pos h, if_pos h, rsLe_take4_drop bs off h]
  · rw [if_neg h, if_neg h]

theorem le32_of_fits (bs : List Nat) (off : Nat) (h : off + 4 ≤ bs.length) :
    Ram.le32 bs off = some (rsLe ((bs.drop off).take 4)) := by
  rw [tie_le32, if_pos h]

/-- a `u32` read from bytes is below 2^32 -/
theorem le32_lt (bs : List Nat) (hb : ∀ b ∈ bs, b < 256) (off v : Nat) (h : Ram.le32 bs off = some v) :
    v < 4294967296 := by
  rw [tie_le32] at h
  split at h
  · cases h; exact rsLe_u32_lt bs hb off
  · cases h

/-- **packed struct of `n ≥ 1` `u32` fields**: the read succeeds exactly when every field's `le32` does, with
those values (`n = 0` is excluded: scroll refuses `off = len` there while no `le32` is asked) -/
theorem tie_pread_u32s (bs : List Nat) (off n : Nat) (hn : 0 < n) (l : List Nat) :
    rsPreadU32s bs off n = .ok l ↔ l.length = n ∧ ∀ i, i < n → l[i]? = Ram.le32 bs (off + 4 * i) := by
  rw [rsPreadU32s_of_pos bs off n hn]
  by_cases h : off + 4 * n ≤ bs.length
  · rw [if_pos h, Except.ok.injEq]
    constructor
    · intro hl
      subst hl
      refine ⟨by simp, ?_⟩
      intro i hi
      rw [le32_of_fits bs _ (by omega)]
      simp [hi]
    · rintro ⟨hlen, hall⟩
      apply List.ext_getElem?
      intro i
      by_cases hi : i < n
      · rw [hall i hi, le32_of_fits bs _ (by omega)]
        simp [hi]
      · rw [List.getElem?_eq_none (by simp; omega), List.getElem?_eq_none (by omega)]
  · rw [if_neg h]
    constructor
    · intro hc; cases hc
    · rintro ⟨hlen, hall⟩
      exfalso
      have h1 := hall (n - 1) (by omega)
      rw [List.getElem?_eq_getElem (by omega)] at h1
      have := le32_some_le h1.symm
      omega

/-- … and its only refusal is `Error::Scroll`, exactly when some field's `le32` fails -/
theorem tie_pread_u32s_error (bs : List Nat) (off n : Nat) (hn : 0 < n) (e : Err) :
    rsPreadU32s bs off n = .error e ↔ e = .scroll ∧ ∃ i, i < n ∧ Ram.le32 bs (off + 4 * i) = none := by
  rw [rsPreadU32s_of_pos bs off n hn]
  by_cases h : off + 4 * n ≤ bs.length
  · rw [if_pos h]
    constructor
    · intro hc; cases hc
    · rintro ⟨_, i, hi, hnone⟩
      rw [le32_of_fits bs _ (by omega)] at hnone
      cases hnone
  · rw [if_neg h]
    constructor
    · intro hc
      cases hc
      exact ⟨rfl, n - 1, by omega, le32_none_of_lt (by omega)⟩
    · rintro ⟨he, _⟩; rw [he]

/-- the table entry read of `get_module` -/
theorem tie_pread_u32s_two (bs : List Nat) (off : Nat) :
    rsPreadU32s bs off 2 =
      match Ram.le32 bs off, Ram.le32 bs (off + 4) with
      | some a, some b => .ok [a, b]
      | _, _ => .error .scroll := by
  rw [rsPreadU32s_two]
  by_cases h : off + 8 ≤ bs.length
  · rw [if_pos h, le32_of_fits bs off (by omega), le32_of_fits bs (off + 4) (by omega)]
  · rw [if_neg h, le32_none_of_lt (bs := bs) (off := off + 4) (by omega)]
    split
    · rename_i heq; cases heq
    · rfl

/-- the header read of `parse` and `is_ram_bundle_slice` -/
theorem tie_pread_u32s_three (bs : List Nat) (off : Nat) :
    rsPreadU32s bs off 3 =
      match Ram.le32 bs off, Ram.le32 bs (off + 4), Ram.le32 bs (off + 8) with
      | some a, some b, some c => .ok [a, b, c]
      | _, _, _ => .error .scroll := by
  rw [rsPreadU32s_three]
  by_cases h : off + 12 ≤ bs.length
  · rw [if_pos h, le32_of_fits bs off (by omega), le32_of_fits bs (off + 4) (by omega),
      le32_of_fits bs (off + 8) (by omega)]
  · rw [if_neg h, le32_none_of_lt (bs := bs) (off := off + 8) (by omega)]
    split
    · rename_i heq; cases heq
    · rfl

/-- **byte window read.**  `rsPreadBytes` is the model's `slice`, with both refusals (`off ≥ len` also for
`size = 0`, and a window that does not fit) as `Error::Scroll`.  No hypothesis. -/
theorem tie_pread_bytes (bs : List Nat) (off size : Nat) :
    rsPreadBytes bs off size =
      match Ram.slice bs off size with
      | some s => .ok s
      | none => .error .scroll := by
  unfold rsPreadBytes Ram.slice
  by_cases h1 : off ≥ bs.length
  · rw [if_pos h1, if_neg (fun hc => by omega)]
  · rw [if_neg h1]
    by_cases h2 : size > bs.length - off
    · rw [if_pos h2, if_neg (fun hc => by omega)]
    · rw [if_neg h2, if_pos ⟨by omega, by omega⟩]

-- the corner cases of scroll's bounds rules, on both sides
example : rsPreadBytes [1, 2, 3] 3 0 = .error .scroll ∧ Ram.slice [1, 2, 3] 3 0 = none := ⟨rfl, rfl⟩
example : rsPreadBytes [1, 2, 3] 2 0 = .ok [] ∧ Ram.slice [1, 2, 3] 2 0 = some [] := ⟨rfl, rfl⟩
example : rsPreadBytes [1, 2, 3] 1 3 = .error .scroll ∧ Ram.slice [1, 2, 3] 1 3 = none := ⟨rfl, rfl⟩
example : rsPreadU32s [1, 2, 3, 4] 0 1 = .ok [67305985] ∧ Ram.le32 [1, 2, 3, 4] 0 = some 67305985 := ⟨rfl, rfl⟩
-- neither side reduces a non-byte mod 256
example : rsPreadU32s [256, 0, 0, 0] 0 1 = .ok [256] ∧ Ram.le32 [256, 0, 0, 0] 0 = some 256 := ⟨rfl, rfl⟩

/-! ### 2. `parse` -/

/-- the generated `IndexedRamBundle` as the model's `Bundle` (field by field) -/
def toBundle (b : IndexedRamBundle) : Ram.Bundle :=
  { bytes := b.bytes, count := b.module_count, startupSize := b.startup_code_size,
    startupOff := b.startup_code_offset }

/-- the generated `parse`, with the header fields named and the dead `usize` guards still in place -/
theorem gen_parse_eq (bs : List Nat) :
    IndexedRamBundle.parse bs =
      match Ram.le32 bs 0, Ram.le32 bs 4, Ram.le32 bs 8 with
      | some magic, some count, some ssize =>
        if magic = Consts.ramMagic then
          if count * 8 ≤ 18446744073709551615 then
            if 12 + count * 8 ≤ 18446744073709551615 then
              .ok { bytes := bs, module_count := count, startup_code_size := ssize,
                    startup_code_offset := 12 + count * 8 }
            else .error .panic
          else .error .panic
        else .error .rammagic
      | _, _, _ => .error .scroll := by
  unfold IndexedRamBundle.parse
  rw [tie_pread_u32s_three]
  simp only [Nat.zero_add]
  cases h0 : Ram.le32 bs 0 with
  | none => rfl
  | some magic =>
    cases h4 : Ram.le32 bs 4 with
    | none => rfl
    | some count =>
      cases h8 : Ram.le32 bs 8 with
      | none => rfl
      | some ssize =>
        simp only [Except.map, RamBundleHeader.is_valid_magic, List.getD_cons_zero, List.getD_cons_succ,
          decide_eq_true_eq]
        rfl

/-- **`IndexedRamBundle::parse` as translated is the model's `parse`**, for every byte list.  The bytes being
bytes makes `module_count` a `u32`, so `module_count * 8` and `12 + module_count * 8` are far below 2^64: the
two overflow guards of the translation never fire. -/
theorem tie_ram_parse (bytes : List Nat) (hb : ∀ b ∈ bytes, b < 256) :
    (IndexedRamBundle.parse bytes).map toBundle = Ram.parse bytes := by
  rw [gen_parse_eq]
  unfold Ram.parse
  cases h0 : Ram.le32 bytes 0 with
  | none => rfl
  | some magic =>
    cases h4 : Ram.le32 bytes 4 with
    | none => rfl
    | some count =>
      cases h8 : Ram.le32 bytes 8 with
      | none => rfl
      | some ssize =>
        have hc := le32_lt bytes hb 4 count h4
        by_cases hm : magic = Consts.ramMagic
        · simp only [if_pos hm, if_neg (not_not_intro hm), ne_eq]
          rw [if_pos (by omega), if_pos (by omega)]
          rfl
        · simp only [if_neg hm, if_pos hm, ne_eq]
          rfl

/-- what the generated `parse` returns: the buffer, `u32` header fields, and the offset behind the table -/
theorem parse_ok_bounds (bytes : List Nat) (hb : ∀ b ∈ bytes, b < 256) (b : IndexedRamBundle)
    (h : IndexedRamBundle.parse bytes = .ok b) :
    b.bytes = bytes ∧ b.module_count < 4294967296 ∧ b.startup_code_size < 4294967296 ∧
      b.startup_code_offset = 12 + b.module_count * 8 := by
  rw [gen_parse_eq] at h
  cases h0 : Ram.le32 bytes 0 with
  | none => rw [h0] at h; cases h
  | some magic =>
    cases h4 : Ram.le32 bytes 4 with
    | none => rw [h0, h4] at h; cases h
    | some count =>
      cases h8 : Ram.le32 bytes 8 with
      | none => rw [h0, h4, h8] at h; cases h
      | some ssize =>
        have hc := le32_lt bytes hb 4 count h4
        have hs := le32_lt bytes hb 8 ssize h8
        rw [h0, h4, h8] at h
        simp only at h
        by_cases hm : magic = Consts.ramMagic
        · rw [if_pos hm, if_pos (by omega), if_pos (by omega)] at h
          cases h
          exact ⟨rfl, hc, hs, rfl⟩
        · rw [if_neg hm] at h; cases h

/-- `parse` never panics on bytes -/
theorem gen_parse_ok_iff (bytes : List Nat) (hb : ∀ b ∈ bytes, b < 256) (b : IndexedRamBundle) :
    IndexedRamBundle.parse bytes = .ok b → Ram.parse bytes = .ok (toBundle b) := by
  intro h
  rw [← tie_ram_parse bytes hb, h]
  rfl

/-- conversely a model result comes from a generated result -/
theorem gen_parse_of_model (bytes : List Nat) (hb : ∀ b ∈ bytes, b < 256) (m : Ram.Bundle)
    (h : Ram.parse bytes = .ok m) : ∃ b, IndexedRamBundle.parse bytes = .ok b ∧ toBundle b = m := by
  rw [← tie_ram_parse bytes hb] at h
  cases hp : IndexedRamBundle.parse bytes with
  | error e => rw [hp] at h; cases h
  | ok b => rw [hp] at h; cases h; exact ⟨b, rfl, rfl⟩

theorem gen_parse_error (bytes : List Nat) (hb : ∀ b ∈ bytes, b < 256) (e : Err) :
    IndexedRamBundle.parse bytes = .error e ↔ Ram.parse bytes = .error e := by
  rw [← tie_ram_parse bytes hb]
  cases hp : IndexedRamBundle.parse bytes with
  | error e' => simp [Except.map]
  | ok b => simp [Except.map]

-- hypothesis of `tie_ram_parse`: a complete header with count 2^32-1 (the largest `u32`), all bytes < 256 ...
example : ∀ b ∈ [229, 209, 11, 251, 255, 255, 255, 255, 3, 0, 0, 0], b < 256 := by decide
-- ... on which the offset is 12 + 8 * (2^32-1), below 2^64 by a wide margin, on both sides
example : IndexedRamBundle.parse [229, 209, 11, 251, 255, 255, 255, 255, 3, 0, 0, 0]
    = .ok { bytes := [229, 209, 11, 251, 255, 255, 255, 255, 3, 0, 0, 0], module_count := 4294967295,
            startup_code_size := 3, startup_code_offset := 34359738372 } := by
  simp [gen_parse_eq, Ram.le32, Consts.ramMagic]
example : (Ram.parse [229, 209, 11, 251, 255, 255, 255, 255, 3, 0, 0, 0]).map (·.startupOff)
    = .ok 34359738372 := by
  simp [Ram.parse, Ram.le32, Consts.ramMagic, Except.map, Ram.HEADER, Ram.ENTRY]

/-- the hypothesis on the bytes is needed: with a "byte" of 2^61 in the count field the `usize` product
overflows in the translation (a panic) while the model, unbounded, answers.  Not reachable from Rust (`u8`). -/
example : IndexedRamBundle.parse [229, 209, 11, 251, 2305843009213693952, 0, 0, 0, 0, 0, 0, 0] = .error .panic ∧
    (Ram.parse [229, 209, 11, 251, 2305843009213693952, 0, 0, 0, 0, 0, 0, 0]).map (·.count)
      = .ok 2305843009213693952 := by
  constructor
  · simp [gen_parse_eq, Ram.le32, Consts.ramMagic]
  · simp [Ram.parse, Ram.le32, Consts.ramMagic, Except.map]

/-! ### 3. the accessors -/

/-- **`module_count`** -/
theorem tie_ram_module_count (b : IndexedRamBundle) :
    IndexedRamBundle.module_count_fn b = .ok (toBundle b).count := rfl

/-- **`startup_code` as translated is the model's `startupCode`**, for every bundle value (no bound needed:
the offset is used as it is, never added to) -/
theorem tie_ram_startup_code (b : IndexedRamBundle) :
    IndexedRamBundle.startup_code b = Ram.startupCode (toBundle b) := by
  unfold IndexedRamBundle.startup_code Ram.startupCode
  rw [tie_pread_bytes]
  simp only [toBundle]
  cases Ram.slice b.bytes b.startup_code_offset b.startup_code_size <;> rfl

/-- the model's `getModule` on a converted bundle, in the generated field names -/
theorem getModule_toBundle (b : IndexedRamBundle) (id : Nat) :
    Ram.getModule (toBundle b) id =
      if id ≥ b.module_count then .error .ramindex
      else
        match Ram.le32 b.bytes (12 + id * 8), Ram.le32 b.bytes (12 + id * 8 + 4) with
        | some off, some len =>
          if off = 0 ∧ len = 0 then .ok none
          else if len = 0 then .error .ramentry
          else match Ram.slice b.bytes (b.startup_code_offset + off) (len - 1) with
            | some d => .ok (some d)
            | none => .error .scroll
        | _, _ => .error .scroll := rfl

/-- the model's answer with the id attached, as the generated `RamBundleModule` -/
def withId (id : Nat) (r : Res (Option (List Nat))) : Res (Option RamBundleModule) :=
  r.map (Option.map fun d => { id := id, data := d })

/-- **`get_module` as translated is the model's `getModule`**, the module carrying the id that was asked for.
For a bundle over bytes whose count is a `u32` and whose startup offset is at most `12 + 8 * 2^32` (what
`parse` produces, `parse_ok_bounds`): then `12 + id * 8` and `startup_code_offset + offset` are below 2^64
and `length - 1` is only computed for `length ≥ 1`, so none of the four guards of the translation fires. -/
theorem tie_ram_get_module (b : IndexedRamBundle) (id : Nat)
    (hb : ∀ x ∈ b.bytes, x < 256) (hc : b.module_count < 4294967296)
    (ho : b.startup_code_offset ≤ 12 + 8 * 4294967296) :
    IndexedRamBundle.get_module b id = withId id (Ram.getModule (toBundle b) id) := by
  rw [getModule_toBundle]
  unfold IndexedRamBundle.get_module withId
  by_cases hid : id ≥ b.module_count
  · rw [if_pos hid, if_pos hid]; rfl
  · rw [if_neg hid, if_neg hid]
    simp only
    rw [if_pos (by omega), if_pos (by omega), tie_pread_u32s_two]
    cases h1 : Ram.le32 b.bytes (12 + id * 8) with
    | none => rfl
    | some off =>
      cases h2 : Ram.le32 b.bytes (12 + id * 8 + 4) with
      | none => rfl
      | some len =>
        have hoff := le32_lt b.bytes hb _ off h1
        simp only [Except.map, ModuleEntry.is_empty, List.getD_cons_zero, List.getD_cons_succ,
          Bool.and_eq_true, decide_eq_true_eq]
        by_cases hz : off = 0 ∧ len = 0
        · rw [if_pos hz, if_pos hz]; rfl
        · rw [if_neg hz, if_neg hz, if_pos (by omega)]
          by_cases hl : len = 0
          · rw [if_pos hl, if_pos hl]
          · rw [if_neg hl, if_neg hl, if_pos (by omega), tie_pread_bytes]
            cases Ram.slice b.bytes (b.startup_code_offset + off) (len - 1) <;> rfl

/-- the module's `data` is the model's answer … -/
theorem tie_ram_get_module_data (b : IndexedRamBundle) (id : Nat)
    (hb : ∀ x ∈ b.bytes, x < 256) (hc : b.module_count < 4294967296)
    (ho : b.startup_code_offset ≤ 12 + 8 * 4294967296) :
    (IndexedRamBundle.get_module b id).map (Option.map (·.data)) = Ram.getModule (toBundle b) id := by
  rw [tie_ram_get_module b id hb hc ho]
  unfold withId
  cases Ram.getModule (toBundle b) id with
  | error e => rfl
  | ok o => cases o <;> rfl

/-- … and its `id` is the id that was asked for -/
theorem tie_ram_get_module_id (b : IndexedRamBundle) (id : Nat)
    (hb : ∀ x ∈ b.bytes, x < 256) (hc : b.module_count < 4294967296)
    (ho : b.startup_code_offset ≤ 12 + 8 * 4294967296) (m : RamBundleModule)
    (h : IndexedRamBundle.get_module b id = .ok (some m)) : m.id = id := by
  rw [tie_ram_get_module b id hb hc ho] at h
  unfold withId at h
  cases hg : Ram.getModule (toBundle b) id with
  | error e => rw [hg] at h; cases h
  | ok o =>
    rw [hg] at h
    cases o with
    | none => cases h
    | some d => cases h; rfl

/-- `get_module` of a bundle that the generated `parse` returned -/
theorem tie_ram_get_module_parsed (bytes : List Nat) (hb : ∀ x ∈ bytes, x < 256) (b : IndexedRamBundle)
    (h : IndexedRamBundle.parse bytes = .ok b) (id : Nat) :
    IndexedRamBundle.get_module b id = withId id (Ram.getModule (toBundle b) id) := by
  obtain ⟨h1, h2, _, h4⟩ := parse_ok_bounds bytes hb b h
  exact tie_ram_get_module b id (by rw [h1]; exact hb) h2 (by omega)

theorem withId_ok_some (id : Nat) (r : Res (Option (List Nat))) (m : RamBundleModule) :
    withId id r = .ok (some m) ↔ m.id = id ∧ r = .ok (some m.data) := by
  unfold withId
  cases r with
  | error e => simp [Except.map]
  | ok o =>
    cases o with
    | none => simp [Except.map]
    | some d =>
      simp only [Except.map, Option.map_some, Except.ok.injEq, Option.some.injEq]
      constructor
      · intro h; subst h; exact ⟨rfl, rfl⟩
      · rintro ⟨h1, h2⟩; cases m; simp_all

theorem withId_error (id : Nat) (r : Res (Option (List Nat))) (e : Err) :
    withId id r = .error e ↔ r = .error e := by
  unfold withId
  cases r with
  | error e' => simp [Except.map]
  | ok o => simp [Except.map]

-- hypotheses of `tie_ram_get_module`: `C20.exShuffled` as parsed (count 4, offset 44); module 2 has length 1
-- (only its NUL: a zero-size read at a valid offset), module 3 holds ff 00
def exBundle : IndexedRamBundle :=
  { bytes := C20.exShuffled, module_count := 4, startup_code_size := 3, startup_code_offset := 44 }
example : (∀ x ∈ exBundle.bytes, x < 256) ∧ exBundle.module_count < 4294967296 ∧
    exBundle.startup_code_offset ≤ 12 + 8 * 4294967296 := by decide
example : IndexedRamBundle.get_module exBundle 2 = .ok (some { id := 2, data := [] }) := rfl
example : IndexedRamBundle.get_module exBundle 3 = .ok (some { id := 3, data := [255, 0] }) := rfl
example : IndexedRamBundle.get_module exBundle 1 = .ok none := rfl
example : IndexedRamBundle.get_module exBundle 4 = .error .ramindex := rfl
example : IndexedRamBundle.startup_code exBundle = .ok [97, 98, 99] := rfl

-- corner: a module of length 1 whose offset is exactly the end of the buffer: scroll refuses `off = len` even
-- for a zero-size read, in the translation as in the model
def exEnd : IndexedRamBundle :=
  { bytes := [229, 209, 11, 251, 1, 0, 0, 0, 0, 0, 0, 0, 0, 0, 0, 0, 1, 0, 0, 0],
    module_count := 1, startup_code_size := 0, startup_code_offset := 20 }
example : IndexedRamBundle.get_module exEnd 0 = .error .scroll ∧
    Ram.getModule (toBundle exEnd) 0 = .error .scroll := ⟨rfl, rfl⟩
-- … and the startup code of size 0 at the end of the buffer likewise
example : IndexedRamBundle.startup_code exEnd = .error .scroll ∧
    Ram.startupCode (toBundle exEnd) = .error .scroll := ⟨rfl, rfl⟩
-- corner: offset ≠ 0 with length 0 is the malformed entry
example : IndexedRamBundle.get_module { exEnd with bytes := exEnd.bytes.set 12 5 |>.set 16 0 } 0
    = .error .ramentry := rfl

-- corner: the largest `u32` count and the last id of its table: the entry offset 12 + 8 * (2^32-2) is far past
-- the 12-byte buffer (a scroll refusal on both sides, no overflow anywhere near 2^64)
def exBig : IndexedRamBundle :=
  { bytes := [229, 209, 11, 251, 255, 255, 255, 255, 3, 0, 0, 0], module_count := 4294967295,
    startup_code_size := 3, startup_code_offset := 34359738372 }
example : (∀ x ∈ exBig.bytes, x < 256) ∧ exBig.module_count < 4294967296 ∧
    exBig.startup_code_offset ≤ 12 + 8 * 4294967296 := by decide
example : IndexedRamBundle.get_module exBig 4294967294 = .error .scroll ∧
    Ram.getModule (toBundle exBig) 4294967294 = .error .scroll ∧
    IndexedRamBundle.get_module exBig 4294967295 = .error .ramindex := by
  refine ⟨?_, ?_, ?_⟩
  · simp [IndexedRamBundle.get_module, exBig, rsPreadU32s, Except.map]
  · simp [getModule_toBundle, exBig, Ram.le32]
  · simp [IndexedRamBundle.get_module, exBig]

/-! ### 4. `is_ram_bundle_slice` -/

/-- **`is_ram_bundle_slice` as translated is the model's `isRamBundle`**: it never fails (`.ok()` turns the
scroll refusal of a short buffer into `false`).  For every list - the header fields are only compared, no
arithmetic, so not even the byte range is needed. -/
theorem tie_is_ram_bundle_slice_any (bytes : List Nat) :
    Gen.RsRamBundle.is_ram_bundle_slice bytes = .ok (Ram.isRamBundle bytes) := by
  unfold Gen.RsRamBundle.is_ram_bundle_slice Ram.isRamBundle
  rw [tie_pread_u32s_three]
  simp only [Nat.zero_add]
  cases h0 : Ram.le32 bytes 0 with
  | none => rfl
  | some magic =>
    cases h4 : Ram.le32 bytes 4 with
    | none => rfl
    | some count =>
      cases h8 : Ram.le32 bytes 8 with
      | none => rfl
      | some ssize =>
        simp only [Except.map, rsOk, RamBundleHeader.is_valid_magic, List.getD_cons_zero]
        refine congrArg Except.ok ?_
        rw [Bool.eq_iff_iff, decide_eq_true_eq, beq_iff_eq, tie_ram_magic]

/-- the statement with the byte hypothesis of the brief (not used) -/
theorem tie_is_ram_bundle_slice (bytes : List Nat) (_hb : ∀ b ∈ bytes, b < 256) :
    Gen.RsRamBundle.is_ram_bundle_slice bytes = .ok (Ram.isRamBundle bytes) :=
  tie_is_ram_bundle_slice_any bytes

example : Gen.RsRamBundle.is_ram_bundle_slice [229, 209, 11, 251, 0, 0, 0, 0, 0, 0, 0] = .ok false := by
  rw [tie_is_ram_bundle_slice_any]; rfl
example : Gen.RsRamBundle.is_ram_bundle_slice [229, 209, 11, 251, 0, 0, 0, 0, 0, 0, 0, 0] = .ok true := by
  rw [tie_is_ram_bundle_slice_any]; rfl
example : Gen.RsRamBundle.is_ram_bundle_slice [] = .ok false := by
  rw [tie_is_ram_bundle_slice_any]; rfl

/-! ### 5. the C20 property theorems, about the generated code -/

theorem refuses_map {α β : Type} (f : α → β) (r : Res α) : C20.Refuses (r.map f) ↔ C20.Refuses r := by
  cases r with
  | error e =>
    constructor
    · intro h e' he'; cases he'; exact h e rfl
    · intro h e' he'; cases he'; exact h e rfl
  | ok v =>
    constructor
    · intro _ e' he'; cases he'
    · intro _ e' he'; cases he'

/-- `c20_recognise` for the code as translated: the call succeeds, and answers `true` exactly when a complete
12-byte header with the magic number leads -/
theorem gen_c20_recognise (bs : List Nat) :
    ∃ r, Gen.RsRamBundle.is_ram_bundle_slice bs = .ok r ∧
      (r = true ↔ 12 ≤ bs.length ∧ Ram.le32 bs 0 = some Gen.RsRamBundle.RAM_BUNDLE_MAGIC) :=
  ⟨_, tie_is_ram_bundle_slice_any bs, C20.c20_recognise bs⟩

/-- the same with the header read spelled through the prelude's scroll mirror -/
theorem gen_c20_recognise_pread (bs : List Nat) :
    Gen.RsRamBundle.is_ram_bundle_slice bs = .ok true ↔
      12 ≤ bs.length ∧ rsPreadU32s bs 0 1 = .ok [Gen.RsRamBundle.RAM_BUNDLE_MAGIC] := by
  rw [tie_is_ram_bundle_slice_any]
  simp only [Except.ok.injEq, C20.c20_recognise, tie_ram_magic]
  rw [tie_pread_u32s bs 0 1 (by omega)]
  constructor
  · rintro ⟨hl, h0⟩
    refine ⟨hl, rfl, ?_⟩
    intro i hi
    have hi0 : i = 0 := by omega
    subst hi0
    rw [h0]; rfl
  · rintro ⟨hl, _, h⟩
    exact ⟨hl, (h 0 (by omega)).symm⟩

/-- `c20_parse_iff` for the code as translated: parsing succeeds exactly on the recognised byte strings -/
theorem gen_c20_parse_iff (bs : List Nat) (hb : ∀ b ∈ bs, b < 256) :
    (∃ b, IndexedRamBundle.parse bs = .ok b) ↔ Gen.RsRamBundle.is_ram_bundle_slice bs = .ok true := by
  rw [tie_is_ram_bundle_slice_any, Except.ok.injEq, ← C20.c20_parse_iff]
  constructor
  · rintro ⟨b, h⟩; exact ⟨_, gen_parse_ok_iff bs hb b h⟩
  · rintro ⟨m, h⟩
    obtain ⟨b, h1, _⟩ := gen_parse_of_model bs hb m h
    exact ⟨b, h1⟩

/-- `c20_parse_refused` for the code as translated: everything else is refused, a short buffer by scroll, a
wrong magic as such -/
theorem gen_c20_parse_refused (bs : List Nat) (hb : ∀ b ∈ bs, b < 256)
    (h : Gen.RsRamBundle.is_ram_bundle_slice bs = .ok false) :
    IndexedRamBundle.parse bs = .error (if bs.length < 12 then .scroll else .rammagic) := by
  rw [tie_is_ram_bundle_slice_any, Except.ok.injEq] at h
  rw [gen_parse_error bs hb]
  exact C20.c20_parse_refused bs h

/-- `c20_total` for the code as translated: parsing a byte string and every later access return a value or
one of the reader's four refusals - never a panic (none of the overflow guards the translator put around the
`usize` arithmetic can fire) -/
theorem gen_c20_total (bs : List Nat) (hb : ∀ b ∈ bs, b < 256) :
    C20.Refuses (IndexedRamBundle.parse bs) ∧
    ∀ b, IndexedRamBundle.parse bs = .ok b →
      C20.Refuses (IndexedRamBundle.startup_code b) ∧ (∀ id, C20.Refuses (IndexedRamBundle.get_module b id)) ∧
      ∃ n, IndexedRamBundle.module_count_fn b = .ok n := by
  obtain ⟨hp, hacc⟩ := C20.c20_total bs
  constructor
  · rw [← tie_ram_parse bs hb, refuses_map] at hp; exact hp
  · intro b h
    obtain ⟨hs, hg, _⟩ := hacc (toBundle b) (gen_parse_ok_iff bs hb b h)
    refine ⟨by rw [tie_ram_startup_code]; exact hs, ?_, ⟨_, rfl⟩⟩
    intro id
    rw [tie_ram_get_module_parsed bs hb b h id]
    exact (refuses_map _ _).mpr (hg id)

/-- `c20_in_bounds` for the code as translated: the bundle carries the buffer unchanged, and whatever
`startup_code` or `get_module` hand out - any bytes, any count, any id - is a window of the buffer; the
module carries the id that was asked for -/
theorem gen_c20_in_bounds (bs : List Nat) (hb : ∀ b ∈ bs, b < 256) (b : IndexedRamBundle)
    (h : IndexedRamBundle.parse bs = .ok b) :
    b.bytes = bs ∧
    (∀ s, IndexedRamBundle.startup_code b = .ok s → C20.IsWindow bs s) ∧
    (∀ id m, IndexedRamBundle.get_module b id = .ok (some m) → m.id = id ∧ C20.IsWindow bs m.data) := by
  obtain ⟨h1, h2, h3, _⟩ := C20.c20_in_bounds bs (toBundle b) (gen_parse_ok_iff bs hb b h)
  refine ⟨h1, ?_, ?_⟩
  · intro s hs; rw [tie_ram_startup_code] at hs; exact h2 s hs
  · intro id m hm
    rw [tie_ram_get_module_parsed bs hb b h id, withId_ok_some] at hm
    exact ⟨hm.1, h3 id m.data hm.2⟩

/-- `c20_parse_layout` for the code as translated: parsing a well-formed image (any physical layout, over
bytes) reports the module count and the startup code that were written -/
theorem gen_c20_parse_layout {img startup : List Nat} {slots : List (Option (List Nat))}
    (hb : ∀ x ∈ img, x < 256) (h : C20.Layout img startup slots) (hne : startup ≠ []) :
    ∃ b, IndexedRamBundle.parse img = .ok b ∧ IndexedRamBundle.module_count_fn b = .ok slots.length ∧
      IndexedRamBundle.startup_code b = .ok startup := by
  obtain ⟨m, hm, hc, hs⟩ := C20.c20_parse_layout h hne
  obtain ⟨b, hp, rfl⟩ := gen_parse_of_model img hb m hm
  exact ⟨b, hp, by rw [tie_ram_module_count, hc], by rw [tie_ram_startup_code, hs]⟩

/-- `c20_get_module_layout` for the code as translated: each present module's bytes without its trailing
NUL and with its id, nothing for an empty slot -/
theorem gen_c20_get_module_layout {img startup : List Nat} {slots : List (Option (List Nat))}
    (hb : ∀ x ∈ img, x < 256) (h : C20.Layout img startup slots) {b : IndexedRamBundle}
    (hp : IndexedRamBundle.parse img = .ok b) (id : Nat) (hid : id < slots.length) :
    IndexedRamBundle.get_module b id = .ok (slots[id].map fun d => { id := id, data := d }) := by
  rw [tie_ram_get_module_parsed img hb b hp id,
    C20.c20_get_module_layout h (gen_parse_ok_iff img hb b hp) id hid]
  rfl

/-- `c20_past_table_layout` for the code as translated -/
theorem gen_c20_past_table_layout {img startup : List Nat} {slots : List (Option (List Nat))}
    (hb : ∀ x ∈ img, x < 256) (h : C20.Layout img startup slots) {b : IndexedRamBundle}
    (hp : IndexedRamBundle.parse img = .ok b) (id : Nat) (hid : slots.length ≤ id) :
    IndexedRamBundle.get_module b id = .error .ramindex := by
  rw [tie_ram_get_module_parsed img hb b hp id,
    C20.c20_past_table_layout h (gen_parse_ok_iff img hb b hp) id hid]
  rfl

/-- the byte hypotheses of the writer statements: startup code and modules are bytes -/
def BytesIn (startup : List Nat) (slots : List (Option (List Nat))) : Prop :=
  (∀ x ∈ startup, x < 256) ∧ (∀ d, some d ∈ slots → ∀ x ∈ d, x < 256)

/-- `c20_parse_serialize` for the code as translated: the generated `parse` accepts what the model's writer
wrote and reports the module count and the startup code that were written -/
theorem gen_c20_parse_serialize (startup : List Nat) (slots : List (Option (List Nat)))
    (hne : startup ≠ []) (hf : C20.FieldsFit startup slots) (hbytes : BytesIn startup slots) :
    ∃ b, IndexedRamBundle.parse (Ram.serialize startup slots) = .ok b ∧
      IndexedRamBundle.module_count_fn b = .ok slots.length ∧
      IndexedRamBundle.startup_code b = .ok startup :=
  gen_c20_parse_layout (C20.serialize_bytes startup slots hbytes.1 hbytes.2)
    (C20.c20_serialize_layout startup slots hf) hne

/-- `c20_get_module` for the code as translated -/
theorem gen_c20_get_module (startup : List Nat) (slots : List (Option (List Nat)))
    (hf : C20.FieldsFit startup slots) (hbytes : BytesIn startup slots) (b : IndexedRamBundle)
    (hp : IndexedRamBundle.parse (Ram.serialize startup slots) = .ok b) (id : Nat) (hid : id < slots.length) :
    IndexedRamBundle.get_module b id = .ok (slots[id].map fun d => { id := id, data := d }) :=
  gen_c20_get_module_layout (C20.serialize_bytes startup slots hbytes.1 hbytes.2)
    (C20.c20_serialize_layout startup slots hf) hp id hid

/-- `c20_past_table` for the code as translated -/
theorem gen_c20_past_table (startup : List Nat) (slots : List (Option (List Nat)))
    (hf : C20.FieldsFit startup slots) (hbytes : BytesIn startup slots) (b : IndexedRamBundle)
    (hp : IndexedRamBundle.parse (Ram.serialize startup slots) = .ok b) (id : Nat) (hid : slots.length ≤ id) :
    IndexedRamBundle.get_module b id = .error .ramindex :=
  gen_c20_past_table_layout (C20.serialize_bytes startup slots hbytes.1 hbytes.2)
    (C20.c20_serialize_layout startup slots hf) hp id hid

-- non-vacuity: the example bundle of C20 (startup "abc", slots ["x", empty, "", ff 00]) meets the hypotheses …
theorem exBytesIn : BytesIn [97, 98, 99] C20.exSlots := by
  refine ⟨by decide, ?_⟩
  intro d hd
  simp only [C20.exSlots, List.mem_cons, List.not_mem_nil, or_false, Option.some.injEq, reduceCtorEq,
    false_or] at hd
  rcases hd with rfl | rfl | rfl <;> decide

-- … and the generated reader, on the model writer's image, answers every access as written
example : ∃ b, IndexedRamBundle.parse (Ram.serialize [97, 98, 99] C20.exSlots) = .ok b ∧
    IndexedRamBundle.module_count_fn b = .ok 4 ∧ IndexedRamBundle.startup_code b = .ok [97, 98, 99] ∧
    IndexedRamBundle.get_module b 0 = .ok (some { id := 0, data := [120] }) ∧
    IndexedRamBundle.get_module b 1 = .ok none ∧
    IndexedRamBundle.get_module b 2 = .ok (some { id := 2, data := [] }) ∧
    IndexedRamBundle.get_module b 3 = .ok (some { id := 3, data := [255, 0] }) ∧
    IndexedRamBundle.get_module b 4 = .error .ramindex := by
  obtain ⟨b, hp, hc, hs⟩ := gen_c20_parse_serialize [97, 98, 99] C20.exSlots (by decide) C20.exFits exBytesIn
  exact ⟨b, hp, hc, hs,
    gen_c20_get_module _ _ C20.exFits exBytesIn b hp 0 (by decide),
    gen_c20_get_module _ _ C20.exFits exBytesIn b hp 1 (by decide),
    gen_c20_get_module _ _ C20.exFits exBytesIn b hp 2 (by decide),
    gen_c20_get_module _ _ C20.exFits exBytesIn b hp 3 (by decide),
    gen_c20_past_table _ _ C20.exFits exBytesIn b hp 4 (by decide)⟩

-- the shuffled image with gaps (`C20.exShuffled`, not a `serialize` image) through the layout corollaries
example : ∀ x ∈ C20.exShuffled, x < 256 := by decide
example : ∃ b, IndexedRamBundle.parse C20.exShuffled = .ok b ∧
    IndexedRamBundle.startup_code b = .ok [97, 98, 99] ∧
    IndexedRamBundle.get_module b 3 = .ok (some { id := 3, data := [255, 0] }) := by
  obtain ⟨b, hp, _, hs⟩ := gen_c20_parse_layout (by decide) C20.exLayout (by decide)
  exact ⟨b, hp, hs, gen_c20_get_module_layout (by decide) C20.exLayout hp 3 (by decide)⟩

end SmVerif.Tie

open SmVerif.Tie in
#print axioms tie_ram_magic
open SmVerif.Tie in
#print axioms tie_le32
open SmVerif.Tie in
#print axioms tie_pread_u32s
open SmVerif.Tie in
#print axioms tie_pread_u32s_error
open SmVerif.Tie in
#print axioms tie_pread_u32s_two
open SmVerif.Tie in
#print axioms tie_pread_u32s_three
open SmVerif.Tie in
#print axioms tie_pread_bytes
open SmVerif.Tie in
#print axioms tie_ram_parse
open SmVerif.Tie in
#print axioms parse_ok_bounds
open SmVerif.Tie in
#print axioms tie_ram_module_count
open SmVerif.Tie in
#print axioms tie_ram_startup_code
open SmVerif.Tie in
#print axioms tie_ram_get_module
open SmVerif.Tie in
#print axioms tie_ram_get_module_data
open SmVerif.Tie in
#print axioms tie_ram_get_module_id
open SmVerif.Tie in
#print axioms tie_ram_get_module_parsed
open SmVerif.Tie in
#print axioms tie_is_ram_bundle_slice_any
open SmVerif.Tie in
#print axioms tie_is_ram_bundle_slice
open SmVerif.Tie in
#print axioms gen_c20_recognise
open SmVerif.Tie in
#print axioms gen_c20_recognise_pread
open SmVerif.Tie in
#print axioms gen_c20_parse_iff
open SmVerif.Tie in
#print axioms gen_c20_parse_refused
open SmVerif.Tie in
#print axioms gen_c20_total
open SmVerif.Tie in
#print axioms gen_c20_in_bounds
open SmVerif.Tie in
#print axioms gen_c20_parse_layout
open SmVerif.Tie in
#print axioms gen_c20_get_module_layout
open SmVerif.Tie in
#print axioms gen_c20_past_table_layout
open SmVerif.Tie in
#print axioms gen_c20_parse_serialize
open SmVerif.Tie in
#print axioms gen_c20_get_module
open SmVerif.Tie in
#print axioms gen_c20_past_table
