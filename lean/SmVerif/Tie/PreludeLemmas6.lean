import SmVerif.Tie.PreludeLemmas3
/-
General lemmas about the prelude's mirror of std's `partition_point` (`Rs.ppLoop`, `Rs.rsPartitionPoint`):
one-step unfolding, the window invariant, fuel, the commutation with `List.map`, and the correspondence with
`bsLoop` (`partition_point(pred)` is `binary_search_by(|x| if pred(x) {Less} else {Greater})`).
-/
namespace SmVerif.Rs
open SmVerif

/-! ### `ppLoop` -/

/-- one step of the loop, with the new `base` named -/
theorem ppLoop_succ {α} (pred : α → Bool) (xs : List α) (fuel size base : Nat) :
    ppLoop pred xs (fuel + 1) size base =
      if size ≤ 1 then base
      else ppLoop pred xs fuel (size - size / 2)
        (match xs[base + size / 2]? with
          | some x => if pred x then base + size / 2 else base
          | none => base) := rfl

theorem ppLoop_zero {α} (pred : α → Bool) (xs : List α) (size base : Nat) :
    ppLoop pred xs 0 size base = base := rfl

/-- the probe moves `base` to itself or to `mid` -/
theorem ppLoop_step_cases {α} (pred : α → Bool) (xs : List α) (base mid : Nat) :
    (match xs[mid]? with
      | some x => if pred x then mid else base
      | none => base) = base ∨
    (match xs[mid]? with
      | some x => if pred x then mid else base
      | none => base) = mid := by
  cases xs[mid]? with
  | none => exact Or.inl rfl
  | some x =>
    cases h : pred x with
    | true => right; simp only [h, ↓reduceIte]
    | false => left; simp only [h, Bool.false_eq_true, ↓reduceIte]

/-- the loop stays inside the window `[base, base + size)` it was given, whatever the fuel -/
theorem ppLoop_bounds {α} (pred : α → Bool) (xs : List α) :
    ∀ fuel size base, 1 ≤ size →
      base ≤ ppLoop pred xs fuel size base ∧ ppLoop pred xs fuel size base < base + size := by
  intro fuel
  induction fuel with
  | zero => intro size base h; simp only [ppLoop_zero]; omega
  | succ fuel ih =>
    intro size base h
    rw [ppLoop_succ]
    by_cases hs : size ≤ 1
    · simp only [hs, ↓reduceIte]; omega
    · simp only [hs, ↓reduceIte]
      have hd : size / 2 < size := Nat.div_lt_self (by omega) (by omega)
      have hd1 : 1 ≤ size / 2 := by omega
      rcases ppLoop_step_cases pred xs base (base + size / 2) with h' | h'
      · rw [h']
        have := ih (size - size / 2) base (by omega)
        omega
      · rw [h']
        have := ih (size - size / 2) (base + size / 2) (by omega)
        omega

/-- the loop only looks at the keys: `pred ∘ f` on `xs` is `pred` on `xs.map f` -/
theorem ppLoop_map {α β} (f : α → β) (pred : β → Bool) (xs : List α) :
    ∀ fuel size base,
      ppLoop (fun x => pred (f x)) xs fuel size base = ppLoop pred (xs.map f) fuel size base := by
  intro fuel
  induction fuel with
  | zero => intro size base; rfl
  | succ fuel ih =>
    intro size base
    rw [ppLoop_succ, ppLoop_succ]
    by_cases hs : size ≤ 1
    · simp only [hs, ↓reduceIte]
    · simp only [hs, ↓reduceIte, List.getElem?_map]
      rw [ih]
      cases xs[base + size / 2]? with
      | none => rfl
      | some x => rfl

/-- `partition_point(|x| !(key < x))` runs the loop of `binary_search_by` with `key`: the probe is `Greater`
exactly when the predicate fails -/
theorem ppLoop_not_lt_eq_bsLoop {κ} (lt : κ → κ → Bool) (keys : List κ) (key : κ) :
    ∀ fuel size base,
      ppLoop (fun k => !lt key k) keys fuel size base = bsLoop lt keys key fuel size base := by
  intro fuel
  induction fuel with
  | zero => intro size base; rfl
  | succ fuel ih =>
    intro size base
    rw [ppLoop_succ, bsLoop_succ]
    by_cases hs : size ≤ 1
    · simp only [hs, ↓reduceIte]
    · simp only [hs, ↓reduceIte]
      rw [ih]
      cases keys[base + size / 2]? with
      | none => rfl
      | some k =>
        cases h : lt key k with
        | true => simp only [h, Bool.not_true, Bool.false_eq_true, ↓reduceIte]
        | false => simp only [h, Bool.not_false, ↓reduceIte, Bool.false_eq_true]

/-- `fuel = size` is enough (the window at least halves): more fuel does not change the result -/
theorem ppLoop_fuel {α} (pred : α → Bool) (xs : List α) :
    ∀ fuel1 fuel2 size base, size ≤ fuel1 → size ≤ fuel2 →
      ppLoop pred xs fuel1 size base = ppLoop pred xs fuel2 size base := by
  intro fuel1
  induction fuel1 with
  | zero =>
    intro fuel2 size base h1 _
    have : size = 0 := by omega
    subst this
    cases fuel2 with
    | zero => rfl
    | succ f => rw [ppLoop_succ]; simp only [Nat.zero_le, ↓reduceIte, ppLoop_zero]
  | succ fuel1 ih =>
    intro fuel2 size base h1 h2
    cases fuel2 with
    | zero =>
      have : size = 0 := by omega
      subst this
      rw [ppLoop_succ]; simp only [Nat.zero_le, ↓reduceIte, ppLoop_zero]
    | succ fuel2 =>
      rw [ppLoop_succ, ppLoop_succ]
      by_cases hs : size ≤ 1
      · simp only [hs, ↓reduceIte]
      · simp only [hs, ↓reduceIte]
        have hd1 : 1 ≤ size / 2 := by omega
        exact ih fuel2 _ _ (by omega) (by omega)

/-! ### `rsPartitionPoint` -/

/-- on a non-empty slice the final probe is inside the slice -/
theorem rsPartitionPoint_of_ne {α} (pred : α → Bool) (xs : List α) (h : xs.length ≠ 0) :
    ∃ hb : ppLoop pred xs xs.length xs.length 0 < xs.length,
      rsPartitionPoint pred xs =
        if pred (xs[ppLoop pred xs xs.length xs.length 0]'hb) then ppLoop pred xs xs.length xs.length 0 + 1
        else ppLoop pred xs xs.length xs.length 0 := by
  have hb : ppLoop pred xs xs.length xs.length 0 < xs.length := by
    have := (ppLoop_bounds pred xs xs.length xs.length 0 (by omega)).2
    omega
  refine ⟨hb, ?_⟩
  unfold rsPartitionPoint
  simp only [h, ↓reduceIte, List.getElem?_eq_getElem hb]

theorem rsPartitionPoint_nil {α} (pred : α → Bool) : rsPartitionPoint pred [] = 0 := rfl

/-- `partition_point` returns an index between `0` and `len` -/
theorem rsPartitionPoint_le {α} (pred : α → Bool) (xs : List α) : rsPartitionPoint pred xs ≤ xs.length := by
  by_cases h : xs.length = 0
  · unfold rsPartitionPoint
    simp only [h, ↓reduceIte, Nat.le_refl]
  · obtain ⟨hb, he⟩ := rsPartitionPoint_of_ne pred xs h
    rw [he]
    split <;> omega

/-- `partition_point` only looks at the keys -/
theorem rsPartitionPoint_map {α β} (f : α → β) (pred : β → Bool) (xs : List α) :
    rsPartitionPoint (fun x => pred (f x)) xs = rsPartitionPoint pred (xs.map f) := by
  unfold rsPartitionPoint
  simp only [List.length_map, ppLoop_map, List.getElem?_map]
  by_cases h : xs.length = 0
  · simp only [h, ↓reduceIte]
  · simp only [h, ↓reduceIte]
    cases xs[ppLoop pred (xs.map f) xs.length xs.length 0]? with
    | none => rfl
    | some x => rfl

/-- `partition_point(|x| !(key < x))` through the loop of `binary_search_by` -/
theorem rsPartitionPoint_not_lt {κ} (lt : κ → κ → Bool) (keys : List κ) (key : κ) :
    rsPartitionPoint (fun k => !lt key k) keys =
      if keys.length = 0 then 0
      else match keys[bsLoop lt keys key keys.length keys.length 0]? with
        | some k => if !lt key k then bsLoop lt keys key keys.length keys.length 0 + 1
                    else bsLoop lt keys key keys.length keys.length 0
        | none => bsLoop lt keys key keys.length keys.length 0 := by
  unfold rsPartitionPoint
  simp only [ppLoop_not_lt_eq_bsLoop]
  rfl

example : rsPartitionPoint (fun k => !ltPair (1, 7) k) [(0, 0), (0, 5), (2, 1)] = 2 := rfl
example : rsPartitionPoint (fun k => !ltPair (0, 5) k) [(0, 0), (0, 5), (0, 5), (2, 1)] = 3 := rfl
example : rsPartitionPoint (fun k => !ltPair (0, 0) k) [(1, 0), (1, 5)] = 0 := rfl

#print axioms ppLoop_bounds
#print axioms ppLoop_map
#print axioms ppLoop_not_lt_eq_bsLoop
#print axioms ppLoop_fuel
#print axioms rsPartitionPoint_le
#print axioms rsPartitionPoint_map
#print axioms rsPartitionPoint_not_lt

end SmVerif.Rs
