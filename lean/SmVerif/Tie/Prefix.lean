import SmVerif.Generated.RsPrefix
import SmVerif.Generated.RsSourceMap
import SmVerif.Model.SourceMap
/-
Tie: `SourceMap::prefix_source` (types.rs) as generated = the model's `SMap.prefixSource`
(what `c02_source_root_join`, `c13_read_rule`, `c13_no_double_prefix` are about).
-/
namespace SmVerif.Tie.Prefix
open SmVerif SmVerif.Rs

/-- `s.strip_suffix('/').unwrap_or(s)` drops exactly one trailing `/` -/
theorem stripSuffix_slash (s : List Nat) :
    (rsStripSuffix [47] s).getD s = (if s.getLast? = some 47 then s.dropLast else s) := by
  unfold rsStripSuffix
  rcases List.eq_nil_or_concat s with rfl | ⟨l, a, rfl⟩
  · simp
  · by_cases h : a = 47
    · subst h; simp
    · simp [h]

/-- the literals of `prefix_source` are the regenerated `Consts.absPrefixes` -/
theorem abs_literals : Consts.absPrefixes = [[47], [104, 116, 116, 112, 58], [104, 116, 116, 112, 115, 58]] := by rfl

theorem tie_prefix_source (root source : List Nat) :
    Gen.RsPrefix.SourceMap.prefix_source root source = .ok (SMap.prefixSource root source) := by
  unfold Gen.RsPrefix.SourceMap.prefix_source SMap.prefixSource
  simp only [stripSuffix_slash, abs_literals, SMap.isPrefixOf, List.any_cons, List.any_nil, Bool.or_false, Bool.or_assoc]
  by_cases h : (!source.isEmpty && (List.isPrefixOf [47] source || (List.isPrefixOf [104, 116, 116, 112, 58] source || List.isPrefixOf [104, 116, 116, 112, 115, 58] source))) = true
  · simp [h]
  · simp [h]

/-- the same function as it appears in unit RsTypes (where `set_source_root`, `into_sourcemap`, `flatten`, `rewrite`
call it): same proof, on the other generated constant -/
theorem tie_prefix_source_types (root source : List Nat) :
    Gen.RsTypes.SourceMap.prefix_source root source = .ok (SMap.prefixSource root source) := by
  unfold Gen.RsTypes.SourceMap.prefix_source SMap.prefixSource
  simp only [stripSuffix_slash, abs_literals, SMap.isPrefixOf, List.any_cons, List.any_nil, Bool.or_false, Bool.or_assoc]
  by_cases h : (!source.isEmpty && (List.isPrefixOf [47] source || (List.isPrefixOf [104, 116, 116, 112, 58] source || List.isPrefixOf [104, 116, 116, 112, 115, 58] source))) = true
  · simp [h]
  · simp [h]

/-- the two generated copies of `prefix_source` (units RsPrefix and RsTypes) are the same function -/
theorem prefix_source_units_agree (root source : List Nat) :
    Gen.RsTypes.SourceMap.prefix_source root source = Gen.RsPrefix.SourceMap.prefix_source root source := by
  rw [tie_prefix_source_types, tie_prefix_source]

/-- it never fails -/
theorem prefix_source_total (root source : List Nat) : ∃ r, Gen.RsPrefix.SourceMap.prefix_source root source = .ok r :=
  ⟨_, tie_prefix_source root source⟩

example : Gen.RsPrefix.SourceMap.prefix_source [97, 47] [98] = .ok [97, 47, 98] := by rw [tie_prefix_source]; rfl
example : Gen.RsPrefix.SourceMap.prefix_source [97] [47, 98] = .ok [47, 98] := by rw [tie_prefix_source]; rfl

example : Gen.RsTypes.SourceMap.prefix_source [97, 47] [98] = .ok [97, 47, 98] := by rw [tie_prefix_source_types]; rfl
example : Gen.RsTypes.SourceMap.prefix_source [97] [104, 116, 116, 112, 58, 98] = .ok [104, 116, 116, 112, 58, 98] := by
  rw [tie_prefix_source_types]; rfl

end SmVerif.Tie.Prefix
#print axioms SmVerif.Tie.Prefix.tie_prefix_source
#print axioms SmVerif.Tie.Prefix.tie_prefix_source_types
#print axioms SmVerif.Tie.Prefix.prefix_source_units_agree
