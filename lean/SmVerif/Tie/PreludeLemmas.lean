import SmVerif.Rs.Prelude
/-
General lemmas about the vocabulary of the generated code (`SmVerif/Rs/Prelude.lean`), shared by the
tie proofs of all units (`SmVerif/Tie/*.lean`).  Core Lean only.
-/
namespace SmVerif.Rs
open SmVerif

/-! ### `wrapS`, `toU`, `ofU` -/

theorem wrapS_64 (x : Int) : wrapS 64 x = wrap64 x := by
  unfold wrapS wrap64
  rfl

theorem wrapS_32 (x : Int) : wrapS 32 x = (x + 2147483648) % 4294967296 - 2147483648 := by
  unfold wrapS
  rfl

/-- a value already in the `i64` range is not changed by truncation -/
theorem wrapS_64_id {x : Int} (h1 : -9223372036854775808 ≤ x) (h2 : x ≤ 9223372036854775807) :
    wrapS 64 x = x := by
  rw [wrapS_64]; unfold wrap64; omega

theorem wrap64_range (x : Int) : -9223372036854775808 ≤ wrap64 x ∧ wrap64 x ≤ 9223372036854775807 := by
  unfold wrap64; omega

theorem toU_of_nonneg (bits : Nat) (x : Int) (h0 : 0 ≤ x) (h1 : x < 2 ^ bits) : toU bits x = x.toNat := by
  unfold toU
  rw [Int.emod_eq_of_lt h0 h1]

theorem toU_64_of_nonneg {x : Int} (h0 : 0 ≤ x) (h1 : x ≤ 9223372036854775807) : toU 64 x = x.toNat :=
  toU_of_nonneg 64 x h0 (by have : (2 : Int) ^ 64 = 18446744073709551616 := rfl; omega)

/-! ### bit operations -/

theorem toU_lt (bits : Nat) (x : Int) : toU bits x < 2 ^ bits := by
  unfold toU
  have hP : (0 : Int) < 2 ^ bits := Int.pow_pos (by omega)
  have h1 := Int.emod_lt_of_pos x hP
  have h0 := Int.emod_nonneg x (Int.ne_of_gt hP)
  have : ((2 ^ bits : Nat) : Int) = (2 : Int) ^ bits := by simp
  omega

theorem toU_cast (bits : Nat) (x : Int) : ((toU bits x : Nat) : Int) = x % 2 ^ bits := by
  unfold toU
  have hP : (0 : Int) < 2 ^ bits := Int.pow_pos (by omega)
  have h0 := Int.emod_nonneg x (Int.ne_of_gt hP)
  omega

theorem toU_natCast (bits : Nat) (n : Nat) : toU bits (n : Int) = n % 2 ^ bits := by
  unfold toU
  have : ((n : Int) % 2 ^ bits) = ((n % 2 ^ bits : Nat) : Int) := by simp
  rw [this, Int.toNat_natCast]

theorem ofU_small (bits : Nat) (n : Nat) (h : n < 2 ^ (bits - 1)) : ofU bits n = (n : Int) := by
  unfold ofU
  have hle : 2 ^ (bits - 1) ≤ 2 ^ bits := Nat.pow_le_pow_right (by omega) (by omega)
  have hm : n % 2 ^ bits = n := Nat.mod_eq_of_lt (by omega)
  simp only [hm, h, ↓reduceIte]

theorem toU_mod_two_pow (bits k : Nat) (hk : k ≤ bits) (x : Int) :
    ((toU bits x % 2 ^ k : Nat) : Int) = x % 2 ^ k := by
  rw [Int.natCast_emod, toU_cast]
  have : ((2 ^ k : Nat) : Int) = (2 : Int) ^ k := by simp
  rw [this]
  refine Int.emod_emod_of_dvd x ⟨2 ^ (bits - k), ?_⟩
  rw [← Int.pow_add]; congr 1; omega

/-- `x & (2^k - 1)` on a signed type is `x mod 2^k` (Euclidean), for every `x`. -/
theorem andS_mask (bits k : Nat) (hk : k < bits) (x : Int) :
    andS bits x (2 ^ k - 1) = x % 2 ^ k := by
  unfold andS
  have hP := Nat.pow_pos (n := k) (show 0 < 2 by omega)
  have hlt : 2 ^ k < 2 ^ bits := Nat.pow_lt_pow_right (by omega) hk
  have hm : toU bits ((2 : Int) ^ k - 1) = 2 ^ k - 1 := by
    have : ((2 : Int) ^ k - 1) = ((2 ^ k - 1 : Nat) : Int) := by
      have : ((2 ^ k : Nat) : Int) = (2 : Int) ^ k := by simp
      omega
    rw [this, toU_natCast, Nat.mod_eq_of_lt (by omega)]
  rw [hm, Nat.and_two_pow_sub_one_eq_mod]
  have hle : 2 ^ k ≤ 2 ^ (bits - 1) := Nat.pow_le_pow_right (by omega) (by omega)
  rw [ofU_small _ _ (Nat.lt_of_lt_of_le (Nat.mod_lt _ hP) hle)]
  exact toU_mod_two_pow bits k (by omega) x

theorem andS64_31 (x : Int) : andS 64 x 31 = x % 32 := andS_mask 64 5 (by omega) x
theorem andS64_1 (x : Int) : andS 64 x 1 = x % 2 := andS_mask 64 1 (by omega) x

/-- `x | 2^k` on a signed type adds the bit when `0 ≤ x < 2^k`. -/
theorem orS_bit (bits k : Nat) (hk : k + 1 < bits) (x : Int) (h0 : 0 ≤ x) (h1 : x < 2 ^ k) :
    orS bits x (2 ^ k) = x + 2 ^ k := by
  unfold orS
  have hP := Nat.pow_pos (n := k) (show 0 < 2 by omega)
  have hlt : 2 ^ k < 2 ^ bits := Nat.pow_lt_pow_right (by omega) (by omega)
  have hc : ((2 ^ k : Nat) : Int) = (2 : Int) ^ k := by simp
  obtain ⟨n, rfl⟩ := Int.eq_ofNat_of_zero_le h0
  have hn : n < 2 ^ k := by omega
  have h2 : toU bits ((2 : Int) ^ k) = 2 ^ k := by
    rw [← hc, toU_natCast, Nat.mod_eq_of_lt hlt]
  rw [toU_natCast, Nat.mod_eq_of_lt (by omega), h2, Nat.or_comm]
  have := Nat.two_pow_add_eq_or_of_lt hn 1
  rw [Nat.mul_one] at this
  rw [← this]
  have hs : 2 ^ k + n < 2 ^ (bits - 1) := by
    have : 2 ^ (k + 1) ≤ 2 ^ (bits - 1) := Nat.pow_le_pow_right (by omega) (by omega)
    rw [Nat.pow_succ] at this
    omega
  rw [ofU_small _ _ hs]
  omega

theorem orS64_32 (x : Int) (h0 : 0 ≤ x) (h1 : x < 32) : orS 64 x 32 = x + 32 :=
  orS_bit 64 5 (by omega) x h0 h1

/-! ### indexing, slices, enumerate -/

theorem rsIndex_of_lt {α} (xs : List α) (i : Nat) (h : i < xs.length) : rsIndex xs i = .ok xs[i] := by
  unfold rsIndex
  rw [List.getElem?_eq_getElem h]

theorem rsIndex_getD {α} (xs : List α) (i : Nat) (d : α) (h : i < xs.length) :
    rsIndex xs i = .ok (xs.getD i d) := by
  rw [rsIndex_of_lt xs i h]
  simp [List.getD, List.getElem?_eq_getElem h]

theorem rsIndex_of_ge {α} (xs : List α) (i : Nat) (h : xs.length ≤ i) : rsIndex xs i = .error .panic := by
  unfold rsIndex
  rw [List.getElem?_eq_none_iff.mpr h]

theorem rsIndex_getElem? {α} (xs : List α) (i : Nat) (v : α) (h : xs[i]? = some v) : rsIndex xs i = .ok v := by
  unfold rsIndex
  rw [h]

theorem rsSlice_ok {α} (xs : List α) (a b : Nat) (h1 : a ≤ b) (h2 : b ≤ xs.length) :
    rsSlice xs a b = .ok ((xs.drop a).take (b - a)) := by
  unfold rsSlice
  simp only [h1, h2, and_self, ↓reduceIte]

theorem rsSlice_panic {α} (xs : List α) (a b : Nat) (h : ¬ (a ≤ b ∧ b ≤ xs.length)) :
    rsSlice xs a b = .error .panic := by
  unfold rsSlice
  simp only [h, ↓reduceIte]

theorem enumFrom_length {α} (xs : List α) : ∀ n, (enumFrom n xs).length = xs.length := by
  induction xs with
  | nil => intro n; rfl
  | cons x xs ih => intro n; simp only [enumFrom, List.length_cons, ih]

theorem enumFrom_map_snd {α} (xs : List α) : ∀ n, (enumFrom n xs).map Prod.snd = xs := by
  induction xs with
  | nil => intro n; rfl
  | cons x xs ih => intro n; simp only [enumFrom, List.map_cons, ih]

theorem enumFrom_getElem? {α} (xs : List α) : ∀ n i, (enumFrom n xs)[i]? = xs[i]?.map (fun x => (n + i, x)) := by
  induction xs with
  | nil => intro n i; rfl
  | cons x xs ih =>
    intro n i
    cases i with
    | zero => simp [enumFrom]
    | succ i =>
      simp only [enumFrom, List.getElem?_cons_succ, ih]
      have : n + 1 + i = n + (i + 1) := by omega
      rw [this]

theorem rsEnumerate_length {α} (xs : List α) : (rsEnumerate xs).length = xs.length := enumFrom_length xs 0

theorem rsEnumerate_map_snd {α} (xs : List α) : (rsEnumerate xs).map Prod.snd = xs := enumFrom_map_snd xs 0

theorem rsRange_length (a b : Nat) : (rsRange a b).length = b - a := by
  simp [rsRange]

/-! ### `Except.map` on the two outcomes (used to state "model result with `out` prepended") -/

theorem map_ok {ε α β} (f : α → β) (a : α) : (Except.ok a : Except ε α).map f = .ok (f a) := rfl
theorem map_error {ε α β} (f : α → β) (e : ε) : (Except.error e : Except ε α).map f = .error e := rfl

example : andS 64 (-3) 31 = 29 := by rw [andS64_31]; rfl
example : orS 64 5 32 = 37 := orS64_32 5 (by omega) (by omega)
example : rsIndex [10, 20, 30] 1 = .ok 20 := rsIndex_of_lt _ _ (by decide)

end SmVerif.Rs
