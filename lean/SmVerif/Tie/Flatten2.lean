import SmVerif.Tie.Flatten
import SmVerif.Props.C08
/-
Tie unit "Flatten2": the WHOLE of `SourceMapIndex::flatten` (types.rs) for an index whose sections are all plain
(non-nested, resolved) maps, against the model's `Index.flatten` (`Model/Index.lean`) - closing the gap between the
per-token / per-section ties of `Tie/Flatten.lean` and the function the C08 theorems (`Props/C08.lean`) are about.

* `genSecs`, `genFlatten` : the section loop glue of `SourceMapIndex::flatten`, written by hand; each step is a
  generated function (`SourceMapBuilder::new`, `flatten_token` - iterated by `flattenG` of `Tie/Flatten.lean` over
  `rsTokens map` = `map.tokens()` -, `into_sourcemap`);
* `toSecs` : the model's section list, `.cons ol oc none (.regular (toSMap m))` for every section;
* `SecsSmallAlong` : the hypotheses of `Tie/Flatten.lean`, section by section along the model's loop (the `src_col`s of
  the section are `u32`s, `FlatSmallAlong` for its tokens from the state the loop reached);
  `secsSmallAlong_of_final` (a successful model run with a small final state), `secsSmallAlong_of_count` (fewer than
  `2^32 - 1` tokens in total - the standing hypothesis of C08 - is enough);
* `tie_gen_secs`, `tie_gen_flatten_eq` : ONE equation on the outcomes (`Except.map toBld` / `Except.map toSMap`): same
  success, same error; `tie_gen_flatten`, `tie_gen_flatten_error`, `tie_gen_flatten_whole` : the two outcomes apart;
* `gen_c08_whole_*` : the C08 theorems about `flatten`, on the map the generated functions return.
-/
namespace SmVerif.Tie
open SmVerif SmVerif.Rs
open SmVerif.Gen.RsBuilder (SourceMapBuilder)
open SmVerif.Gen.RsFlatten (flatten_token)
open SmVerif.Index.Spec (flattenSpec tokCountSecs tokCount flattenableSecs flattenable wfSecs firstCont anyIgn
  dedupFirst specSecs)

/-- a section of an index whose embedded map is a plain `SourceMap`: `(off_line, off_col, map)` -/
abbrev GSec := Nat × Nat × Gen.RsTypes.SourceMap

/-! ### the glue -/

/-- the section loop glue of SourceMapIndex::flatten, written by hand; each step is a generated function:
`for section in self.sections() { let (off_line, off_col) = section.get_offset(); let map = …;
for token in map.tokens() { flatten_token-body } }` - `flattenG` (`Tie/Flatten.lean`) iterates the generated
`flatten_token` over `rsTokens map`; the first error ends everything (`?`) -/
def genSecs : List GSec → SourceMapBuilder → Res SourceMapBuilder
  | [], g => .ok g
  | s :: rest, g =>
    match flattenG s.2.2 s.1 s.2.1 (Gen.RsTypes.rsTokens s.2.2) g with
    | .error e => .error e
    | .ok g' => genSecs rest g'

/-- the section loop glue of SourceMapIndex::flatten, written by hand; each step is a generated function:
`let mut builder = SourceMapBuilder::new(self.get_file());` … the section loop (`genSecs`) …
`Ok(builder.into_sourcemap())` -/
def genFlatten (file : Option (List Nat)) (secs : List GSec) : Res Gen.RsTypes.SourceMap :=
  match SourceMapBuilder.new file with
  | .error e => .error e
  | .ok g =>
    match genSecs secs g with
    | .error e => .error e
    | .ok g' => g'.into_sourcemap

/-- the model's section list: every section resolved, a plain map, no url -/
def toSecs : List GSec → Secs
  | [] => .nil
  | s :: rest => .cons s.1 s.2.1 none (.regular (toSMap s.2.2)) (toSecs rest)

theorem genSecs_cons (ol oc : Nat) (m : Gen.RsTypes.SourceMap) (rest : List GSec) (g : SourceMapBuilder) :
    genSecs ((ol, oc, m) :: rest) g =
      match flattenG m ol oc (Gen.RsTypes.rsTokens m) g with
      | .error e => .error e
      | .ok g' => genSecs rest g' := rfl

theorem flattenSecs_toSecs_cons (ol oc : Nat) (m : Gen.RsTypes.SourceMap) (rest : List GSec) (b : Bld) :
    Index.flattenSecs (toSecs ((ol, oc, m) :: rest)) b =
      match Index.flattenToks (toSMap m) ol oc (toSMap m).tokens b with
      | .error e => .error e
      | .ok b' => Index.flattenSecs (toSecs rest) b' := by
  show Index.flattenSecs (.cons ol oc none (.regular (toSMap m)) (toSecs rest)) b = _
  rw [Index.flattenSecs, Index.sectionMap]
  rfl

theorem tokCountSecs_toSecs_cons (ol oc : Nat) (m : Gen.RsTypes.SourceMap) (rest : List GSec) :
    tokCountSecs (toSecs ((ol, oc, m) :: rest)) = (toSMap m).tokens.length + tokCountSecs (toSecs rest) := by
  show tokCountSecs (.cons ol oc none (.regular (toSMap m)) (toSecs rest)) = _
  rw [tokCountSecs, tokCount]

/-- the total number of tokens, the quantity the standing size hypothesis of C08 is about -/
theorem tokCountSecs_toSecs : ∀ secs : List GSec,
    tokCountSecs (toSecs secs) = (secs.map fun s => s.2.2.tokens.length).sum
  | [] => by rw [toSecs, tokCountSecs]; rfl
  | s :: rest => by
    rw [toSecs, tokCountSecs, tokCount, tokCountSecs_toSecs rest, List.map_cons, List.sum_cons]
    show (s.2.2.tokens.map toTok).length + _ = _
    rw [List.length_map]

/-! ### the hypotheses, along the loop -/

/-- the hypotheses `Tie/Flatten.lean` needs, section by section along the model's loop: the `src_col`s of the section
are `u32`s, the SmallDoc hypothesis holds before each token step of the section (`FlatSmallAlong`), and the same again
for the rest from the state the section leaves (nothing is asked after a section that fails) -/
def SecsSmallAlong : List GSec → Bld → Prop
  | [], _ => True
  | s :: rest, b =>
    (∀ t ∈ s.2.2.tokens, t.src_col < 4294967296) ∧
    FlatSmallAlong (toSMap s.2.2) s.1 s.2.1 (toSMap s.2.2).tokens b ∧
    ∀ b1, Index.flattenToks (toSMap s.2.2) s.1 s.2.1 (toSMap s.2.2).tokens b = .ok b1 → SecsSmallAlong rest b1

/-- every `src_col` of every section is a `u32` (an invariant of the Rust type) -/
def SrcColsU32 (secs : List GSec) : Prop := ∀ s ∈ secs, ∀ t ∈ s.2.2.tokens, t.src_col < 4294967296

theorem secsSmallAlong_cons (ol oc : Nat) (m : Gen.RsTypes.SourceMap) (rest : List GSec) (b : Bld) :
    SecsSmallAlong ((ol, oc, m) :: rest) b ↔
      ((∀ t ∈ m.tokens, t.src_col < 4294967296) ∧ FlatSmallAlong (toSMap m) ol oc (toSMap m).tokens b ∧
        ∀ b1, Index.flattenToks (toSMap m) ol oc (toSMap m).tokens b = .ok b1 → SecsSmallAlong rest b1) := Iff.rfl

instance (secs : List GSec) : Decidable (SrcColsU32 secs) := by unfold SrcColsU32; infer_instance

theorem flattenSecs_toSecs_mono : ∀ (secs : List GSec) (b b' : Bld),
    Index.flattenSecs (toSecs secs) b = .ok b' →
    b.sources.length ≤ b'.sources.length ∧ b.names.length ≤ b'.names.length
  | [], b, b', h => by
    rw [toSecs, Index.flattenSecs] at h
    simp only [Except.ok.injEq] at h
    subst h
    exact ⟨Nat.le_refl _, Nat.le_refl _⟩
  | (ol, oc, m) :: rest, b, b', h => by
    rw [flattenSecs_toSecs_cons] at h
    cases h1 : Index.flattenToks (toSMap m) ol oc (toSMap m).tokens b with
    | error e => rw [h1] at h; cases h
    | ok b1 =>
      rw [h1] at h
      obtain ⟨m1, m2⟩ := flattenToks_mono _ ol oc _ b b1 h1
      obtain ⟨n1, n2⟩ := flattenSecs_toSecs_mono rest b1 b' h
      exact ⟨Nat.le_trans m1 n1, Nat.le_trans m2 n2⟩

/-- a successful model run with a small final state makes the whole loop small (the tables only grow) -/
theorem secsSmallAlong_of_final : ∀ (secs : List GSec) (b b' : Bld), SrcColsU32 secs →
    Index.flattenSecs (toSecs secs) b = .ok b' → SmallB b' → SecsSmallAlong secs b
  | [], _, _, _, _, _ => trivial
  | (ol, oc, m) :: rest, b, b', hsc, h, hs => by
    rw [flattenSecs_toSecs_cons] at h
    cases h1 : Index.flattenToks (toSMap m) ol oc (toSMap m).tokens b with
    | error e => rw [h1] at h; cases h
    | ok b1 =>
      rw [h1] at h
      obtain ⟨n1, n2⟩ := flattenSecs_toSecs_mono rest b1 b' h
      have hs1 : SmallB b1 := ⟨by have := hs.1; omega, by have := hs.2; omega⟩
      refine (secsSmallAlong_cons ol oc m rest b).2
        ⟨hsc (ol, oc, m) List.mem_cons_self, flatSmallAlong_of_final _ ol oc _ b b1 h1 hs1, fun b1' h1' => ?_⟩
      have hb : b1' = b1 := by
        rw [h1] at h1'
        simp only [Except.ok.injEq] at h1'
        exact h1'.symm
      subst hb
      exact secsSmallAlong_of_final rest b1' b' (fun s hs' => hsc s (List.mem_cons_of_mem _ hs')) h hs

/-- a builder that has consumed the resolved tokens `xs` (the invariant of the C08 proofs) has at most `xs.length`
sources and names: below the token bound of C08 every step of a token loop is small -/
theorem flatSmallAlong_of_inv (sm : SMap) (ol oc : Nat) : ∀ (ts : List Tok) (b : Bld) (xs : List Index.Spec.XTok),
    IndexP.Inv b xs → xs.length + ts.length ≤ SmVerif.NONE → FlatSmallAlong sm ol oc ts b
  | [], _, _, _, _ => trivial
  | t :: ts, b, xs, hinv, hsz => by
    have hN : SmVerif.NONE = 4294967295 := rfl
    simp only [List.length_cons] at hsz
    have h1 := hinv.slen
    have h2 := hinv.nlen
    refine ⟨⟨by omega, by omega⟩, fun b1 hb1 => ?_⟩
    rw [IndexP.flattenTok_eq] at hb1
    by_cases hfit : Index.Spec.fitsShift ol oc (Index.Spec.xOfTok sm t).v = true
    · rw [if_pos hfit] at hb1
      obtain ⟨b1', hs1, hi1, _, _⟩ := IndexP.inv_step hinv (Index.Spec.shiftX ol oc (Index.Spec.xOfTok sm t)) (by omega)
      rw [hs1] at hb1
      simp only [Except.ok.injEq] at hb1
      subst hb1
      have hlen : (xs ++ [Index.Spec.shiftX ol oc (Index.Spec.xOfTok sm t)]).length = xs.length + 1 := by
        simp only [List.length_append, List.length_cons, List.length_nil]
      exact flatSmallAlong_of_inv sm ol oc ts b1' _ hi1 (by rw [hlen]; omega)
    · rw [if_neg hfit] at hb1
      cases hb1

theorem secsSmallAlong_of_inv : ∀ (secs : List GSec) (b : Bld) (xs : List Index.Spec.XTok), SrcColsU32 secs →
    IndexP.Inv b xs → xs.length + tokCountSecs (toSecs secs) ≤ SmVerif.NONE → SecsSmallAlong secs b
  | [], _, _, _, _, _ => trivial
  | (ol, oc, m) :: rest, b, xs, hsc, hinv, hsz => by
    rw [tokCountSecs_toSecs_cons] at hsz
    refine (secsSmallAlong_cons ol oc m rest b).2
      ⟨hsc (ol, oc, m) List.mem_cons_self, flatSmallAlong_of_inv _ ol oc _ b xs hinv (by omega), fun b1 hb1' => ?_⟩
    obtain ⟨hok, herr⟩ := IndexP.flattenToks_inv (toSMap m) ol oc (toSMap m).tokens b xs hinv (by omega)
    cases hfit : IndexP.allFit (toSMap m) ol oc (toSMap m).tokens with
    | false => rw [herr hfit] at hb1'; cases hb1'
    | true =>
      obtain ⟨b', hb', hinv', _, _⟩ := hok hfit
      rw [hb'] at hb1'
      simp only [Except.ok.injEq] at hb1'
      subst hb1'
      refine secsSmallAlong_of_inv rest b' _ (fun s hs' => hsc s (List.mem_cons_of_mem _ hs')) hinv' ?_
      simp only [List.length_append, IndexP.shifted, List.length_map]
      omega

/-- **the standing hypothesis of C08 is enough**: with `u32` source columns and fewer than `2^32 - 1` tokens in total,
the size hypotheses of `Tie/Flatten.lean` hold at every step of every section (a builder never has more sources or
names than tokens) -/
theorem secsSmallAlong_of_count (file : Option (List Nat)) (secs : List GSec) (hsc : SrcColsU32 secs)
    (hsz : tokCountSecs (toSecs secs) < SmVerif.NONE) : SecsSmallAlong secs (Bld.new file) :=
  secsSmallAlong_of_inv secs (Bld.new file) [] hsc (IndexP.inv_new file)
    (by simp only [List.length_nil, Nat.zero_add]; omega)

/-! ### the section loop and the whole function -/

/-- one section, as one equation (both outcomes of `tie_flatten_tokens` / `tie_flatten_tokens_error`) -/
theorem tie_flatten_tokens_eq (g : SourceMapBuilder) (m : Gen.RsTypes.SourceMap) (ol oc : Nat)
    (hsc : ∀ t ∈ m.tokens, t.src_col < 4294967296)
    (hsm : FlatSmallAlong (toSMap m) ol oc (toSMap m).tokens (toBld g)) :
    (flattenG m ol oc (Gen.RsTypes.rsTokens m) g).map toBld =
      Index.flattenToks (toSMap m) ol oc (toSMap m).tokens (toBld g) := by
  cases hr : Index.flattenToks (toSMap m) ol oc (toSMap m).tokens (toBld g) with
  | error e =>
    rw [tie_flatten_tokens_error g (toBld g) (brel_toBld g) m ol oc hsc hsm e hr]
    rfl
  | ok b' =>
    obtain ⟨hspec, hmap⟩ := rsTokens_spec m
    rw [← hmap] at hr hsm
    have key := tie_flatten_toks_along m ol oc (Gen.RsTypes.rsTokens m) g
      (fun t ht => ⟨(hspec t ht).1, (hspec t ht).2.1, hsc _ (hspec t ht).2.2⟩) hsm
    rw [hr] at key
    exact key

/-- **the section loop, both outcomes**: the generated token step iterated over the tokens of every section and the
model's `flattenSecs` have the same outcome - the same error (`CannotFlatten`; a panic only where the model has one),
or related final builders -/
theorem tie_gen_secs : ∀ (secs : List GSec) (g : SourceMapBuilder), SecsSmallAlong secs (toBld g) →
    (genSecs secs g).map toBld = Index.flattenSecs (toSecs secs) (toBld g)
  | [], g, _ => by rw [toSecs, Index.flattenSecs]; rfl
  | (ol, oc, m) :: rest, g, h => by
    obtain ⟨hsc, hsm, hnext⟩ := (secsSmallAlong_cons ol oc m rest _).1 h
    have key := tie_flatten_tokens_eq g m ol oc hsc hsm
    rw [genSecs_cons, flattenSecs_toSecs_cons]
    cases hm : Index.flattenToks (toSMap m) ol oc (toSMap m).tokens (toBld g) with
    | error e =>
      rw [hm] at key
      rw [L16.error_of_map_error _ _ _ key]
      rfl
    | ok b1 =>
      rw [hm] at key
      obtain ⟨g1, e1, r1⟩ := L16.ok_of_map_ok _ _ _ key
      subst r1
      rw [e1]
      exact tie_gen_secs rest g1 (hnext _ hm)

/-- **genFlatten = flatten**, as one equation on the outcomes: the hand-written glue over the generated functions and
the model's `Index.flatten` on the converted sections succeed together, with the same map (`toSMap`), and fail
together, with the same error -/
theorem tie_gen_flatten_eq (file : Option (List Nat)) (secs : List GSec)
    (hsm : SecsSmallAlong secs (Bld.new file)) :
    (genFlatten file secs).map toSMap = Index.flatten file (toSecs secs) := by
  obtain ⟨g0, e0, r0⟩ := tie_new file
  have hb : Bld.new file = toBld g0 := r0
  rw [hb] at hsm
  have key := tie_gen_secs secs g0 hsm
  unfold genFlatten Index.flatten
  rw [Index.sectionMap, hb, ← key]
  simp only [e0]
  cases hg : genSecs secs g0 with
  | error e => rfl
  | ok g1 =>
    obtain ⟨m, em, rm⟩ := tie_into_sourcemap g1 (toBld g1) (brel_toBld g1)
    simp only [em, L16.map_ok, rm]

/-- what the generated run returns is what the model returns -/
theorem gen_flatten_model (file : Option (List Nat)) (secs : List GSec) (hsm : SecsSmallAlong secs (Bld.new file))
    (m' : Gen.RsTypes.SourceMap) (hg : genFlatten file secs = .ok m') :
    Index.flatten file (toSecs secs) = .ok (toSMap m') := by
  rw [← tie_gen_flatten_eq file secs hsm, hg]
  rfl

/-- **the whole of `flatten`, success**: where the model's flatten succeeds, the generated functions glued by
`genFlatten` succeed, and the map they return is the model's map -/
theorem tie_gen_flatten (file : Option (List Nat)) (secs : List GSec) (hsm : SecsSmallAlong secs (Bld.new file))
    (hok : ∃ sm, Index.flatten file (toSecs secs) = .ok sm) :
    ∃ m' sm', genFlatten file secs = .ok m' ∧ Index.flatten file (toSecs secs) = .ok sm' ∧ toSMap m' = sm' := by
  obtain ⟨sm, hm⟩ := hok
  have key := tie_gen_flatten_eq file secs hsm
  rw [hm] at key
  obtain ⟨m', e, r⟩ := L16.ok_of_map_ok _ _ _ key
  exact ⟨m', sm, e, hm, r⟩

/-- **the whole of `flatten`, error**: where the model's flatten fails, `genFlatten` fails with the same error -/
theorem tie_gen_flatten_error (file : Option (List Nat)) (secs : List GSec)
    (hsm : SecsSmallAlong secs (Bld.new file)) (e : Err) (hm : Index.flatten file (toSecs secs) = .error e) :
    genFlatten file secs = .error e := by
  have key := tie_gen_flatten_eq file secs hsm
  rw [hm] at key
  exact L16.error_of_map_error _ _ _ key

/-- **the whole of `flatten` under the hypotheses of C08 alone** (`u32` source columns, fewer than `2^32 - 1` tokens):
when no offset addition leaves `u32` the generated run succeeds with the model's map; otherwise it is
`Error::CannotFlatten` - the generated functions never panic -/
theorem tie_gen_flatten_whole (file : Option (List Nat)) (secs : List GSec) (hsc : SrcColsU32 secs)
    (hsz : tokCountSecs (toSecs secs) < SmVerif.NONE) :
    (flattenableSecs (toSecs secs) = true →
      ∃ m' sm', genFlatten file secs = .ok m' ∧ Index.flatten file (toSecs secs) = .ok sm' ∧ toSMap m' = sm') ∧
    (flattenableSecs (toSecs secs) = false → genFlatten file secs = .error .flatten) := by
  have hsm := secsSmallAlong_of_count file secs hsc hsz
  obtain ⟨h1, h2⟩ := C08.c08_flatten_ok_iff file (toSecs secs) hsz
  exact ⟨fun hf => tie_gen_flatten file secs hsm (h1 hf), fun hf => tie_gen_flatten_error file secs hsm _ (h2 hf)⟩

/-! ### C08 on the map the generated functions return -/

/-- **`c08_flatten_tokens`**: the tokens of the generated result (source and name as strings, range flag, original
position) are exactly the sections' tokens shifted by their offsets, ordered by generated position (ties in flatten
order) -/
theorem gen_c08_whole_tokens (file : Option (List Nat)) (secs : List GSec) (hsm : SecsSmallAlong secs (Bld.new file))
    (hsz : tokCountSecs (toSecs secs) < SmVerif.NONE) (m' : Gen.RsTypes.SourceMap)
    (hg : genFlatten file secs = .ok m') :
    (toSMap m').tokens.map (C08.view (toSMap m')) = C08.sortByPos ((flattenSpec (toSecs secs)).map (·.v)) :=
  C08.c08_flatten_tokens file (toSecs secs) (toSMap m') hsz (gen_flatten_model file secs hsm m' hg)

/-- **`c08_flatten_tokens_wf`**: for well-formed sections (increasing offsets, each section before the next) the
result is the plain concatenation of the shifted sections -/
theorem gen_c08_whole_tokens_wf (file : Option (List Nat)) (secs : List GSec)
    (hsm : SecsSmallAlong secs (Bld.new file)) (hwf : wfSecs (toSecs secs) = true)
    (hsz : tokCountSecs (toSecs secs) < SmVerif.NONE) (m' : Gen.RsTypes.SourceMap)
    (hg : genFlatten file secs = .ok m') :
    (toSMap m').tokens.map (C08.view (toSMap m')) = (flattenSpec (toSecs secs)).map (·.v) :=
  C08.c08_flatten_tokens_wf file (toSecs secs) (toSMap m') hwf hsz (gen_flatten_model file secs hsm m' hg)

/-- **`c08_flatten_contents`**: the contents of a source of the generated result are the first contents present
among the tokens (in flatten order) that name it -/
theorem gen_c08_whole_contents (file : Option (List Nat)) (secs : List GSec)
    (hsm : SecsSmallAlong secs (Bld.new file)) (hsz : tokCountSecs (toSecs secs) < SmVerif.NONE)
    (m' : Gen.RsTypes.SourceMap) (hg : genFlatten file secs = .ok m') (i : Nat) (s : Bytes)
    (hs : (toSMap m').getSource i = some s) :
    (toSMap m').getSourceContents i = firstCont (flattenSpec (toSecs secs)) (some s) :=
  C08.c08_flatten_contents file (toSecs secs) (toSMap m') hsz (gen_flatten_model file secs hsm m' hg) i s hs

/-- **`c08_flatten_ignore`**: a source of the generated result is on its ignore list exactly when some token naming
it had an ignored source in its section -/
theorem gen_c08_whole_ignore (file : Option (List Nat)) (secs : List GSec)
    (hsm : SecsSmallAlong secs (Bld.new file)) (hsz : tokCountSecs (toSecs secs) < SmVerif.NONE)
    (m' : Gen.RsTypes.SourceMap) (hg : genFlatten file secs = .ok m') (i : Nat) (s : Bytes)
    (hs : (toSMap m').getSource i = some s) :
    i ∈ m'.ignore_list ↔ anyIgn (flattenSpec (toSecs secs)) (some s) = true :=
  C08.c08_flatten_ignore file (toSecs secs) (toSMap m') hsz (gen_flatten_model file secs hsm m' hg) i s hs

/-- **`c08_flatten_sources`**: sources and names of the generated result are the strings the tokens mention, each
once, in order of first appearance; there is no source root -/
theorem gen_c08_whole_sources (file : Option (List Nat)) (secs : List GSec)
    (hsm : SecsSmallAlong secs (Bld.new file)) (hsz : tokCountSecs (toSecs secs) < SmVerif.NONE)
    (m' : Gen.RsTypes.SourceMap) (hg : genFlatten file secs = .ok m') :
    m'.sources = dedupFirst ((flattenSpec (toSecs secs)).filterMap (·.v.src)) [] ∧
    m'.names = dedupFirst ((flattenSpec (toSecs secs)).filterMap (·.v.name)) [] ∧ m'.source_root = none :=
  C08.c08_flatten_sources file (toSecs secs) (toSMap m') hsz (gen_flatten_model file secs hsm m' hg)

/-- the model's flatten keeps the file name of the index (not among the C08 theorems; same proof as
`C08.flatten_inv`) -/
theorem flatten_file (f : Option Bytes) (secs : Secs) (m : SMap) (hsz : tokCountSecs secs < SmVerif.NONE)
    (h : Index.flatten f secs = .ok m) : m.file = f := by
  obtain ⟨hok, herr⟩ := IndexP.flattenSecs_spec secs (Bld.new f) [] (IndexP.inv_new f)
    (by simp only [List.length_nil, Nat.zero_add]; exact hsz)
  unfold Index.flatten at h
  rw [Index.sectionMap] at h
  cases hfl : flattenableSecs secs with
  | true =>
    obtain ⟨b', hb', _, hfile, hroot⟩ := hok hfl
    rw [hb'] at h
    simp only [Except.ok.injEq] at h
    subst h
    obtain ⟨_, _, _, _, _, hf, _⟩ := IndexP.into_fields b' (by rw [hroot]; rfl)
    rw [hf, hfile]
    rfl
  | false =>
    rw [herr hfl] at h
    cases h

/-- **the file is kept**: the generated result carries the file name the index had -/
theorem gen_c08_whole_file (file : Option (List Nat)) (secs : List GSec)
    (hsm : SecsSmallAlong secs (Bld.new file)) (hsz : tokCountSecs (toSecs secs) < SmVerif.NONE)
    (m' : Gen.RsTypes.SourceMap) (hg : genFlatten file secs = .ok m') : m'.file = file :=
  flatten_file file (toSecs secs) (toSMap m') hsz (gen_flatten_model file secs hsm m' hg)

/-- **`c08_flatten_ok_iff` / `c08_safe_flatten`**: the generated run succeeds exactly when no offset addition leaves
`u32`; otherwise it is `Error::CannotFlatten` - never a panic -/
theorem gen_c08_whole_ok_iff (file : Option (List Nat)) (secs : List GSec) (hsm : SecsSmallAlong secs (Bld.new file))
    (hsz : tokCountSecs (toSecs secs) < SmVerif.NONE) :
    (flattenableSecs (toSecs secs) = true → ∃ m', genFlatten file secs = .ok m') ∧
    (flattenableSecs (toSecs secs) = false → genFlatten file secs = .error .flatten) := by
  obtain ⟨h1, h2⟩ := C08.c08_flatten_ok_iff file (toSecs secs) hsz
  refine ⟨fun hf => ?_, fun hf => tie_gen_flatten_error file secs hsm _ (h2 hf)⟩
  obtain ⟨m', _, e, _, _⟩ := tie_gen_flatten file secs hsm (h1 hf)
  exact ⟨m', e⟩

theorem gen_c08_whole_safe (file : Option (List Nat)) (secs : List GSec) (hsm : SecsSmallAlong secs (Bld.new file))
    (hsz : tokCountSecs (toSecs secs) < SmVerif.NONE) :
    (∃ m', genFlatten file secs = .ok m') ∨ genFlatten file secs = .error .flatten := by
  obtain ⟨h1, h2⟩ := gen_c08_whole_ok_iff file secs hsm hsz
  cases hf : flattenableSecs (toSecs secs) with
  | true => exact Or.inl (h1 hf)
  | false => exact Or.inr (h2 hf)

/-- **`c08_agree`**: for well-formed sections, whenever the index lookup (model) finds a token, the lookup on the map
the generated functions return finds a token with the same source, original line, original column and name -/
theorem gen_c08_whole_agree (file : Option (List Nat)) (secs : List GSec) (hsm : SecsSmallAlong secs (Bld.new file))
    (q : Lookup.Pos) (o : Origin) (hwf : wfSecs (toSecs secs) = true) (hsz : tokCountSecs (toSecs secs) < SmVerif.NONE)
    (h : Index.indexLookup (toSecs secs) q = .ok (some o)) :
    ∃ m' i t c, genFlatten file secs = .ok m' ∧ Lookup.lookup (toSMap m').tokens q = .ok (some (i, t, c)) ∧
      Index.originOf (toSMap m') t c = o := by
  obtain ⟨m, i, t, c, hm, hl, ho⟩ := C08.c08_agree file (toSecs secs) q o hwf hsz h
  obtain ⟨m', sm', e, hm', r⟩ := tie_gen_flatten file secs hsm ⟨m, hm⟩
  rw [hm] at hm'
  simp only [Except.ok.injEq] at hm'
  subst hm'
  subst r
  exact ⟨m', i, t, c, e, hl, ho⟩

/-! ### non-vacuity: a concrete index with two sections -/

/-- a second section map: source "b" again (interned with the first section's), a new source "c" with contents -/
def exFM2 : Gen.RsTypes.SourceMap :=
  { (default : SmVerif.Gen.RsTypes.SourceMap) with
    tokens := [⟨0, 2, 7, 1, 0, 4294967295, false⟩, ⟨1, 0, 8, 2, 1, 0, false⟩],
    names := [[109]], sources := [[98], [99]], sources_content := [none, some [121]], ignore_list := [1] }

/-- `exFM` (of `Tie/Flatten.lean`: three tokens, sources "a" and "b") at (10, 100), `exFM2` at (20, 5) -/
def exSecsG : List GSec := [(10, 100, exFM), (20, 5, exFM2)]

/-- what `genFlatten` returns on it -/
def exFlat : Gen.RsTypes.SourceMap :=
  { (default : SmVerif.Gen.RsTypes.SourceMap) with
    file := some [102],
    tokens := [⟨10, 101, 0, 0, 0, 0, false⟩, ⟨10, 109, 3, 0, 1, 4294967295, false⟩, ⟨12, 4, 5, 6, 0, 4294967295, true⟩,
      ⟨20, 7, 7, 1, 1, 4294967295, false⟩, ⟨21, 0, 8, 2, 2, 1, false⟩],
    names := [[110], [109]], sources := [[97], [98], [99]], sources_content := [some [120], none, some [121]],
    ignore_list := [0, 2] }

-- both sides, evaluated
example : genFlatten (some [102]) exSecsG = .ok exFlat := rfl
-- the hypotheses of `tie_gen_flatten` and of the `gen_c08_whole_*`: decidable ones first ...
example : SrcColsU32 exSecsG ∧ tokCountSecs (toSecs exSecsG) < SmVerif.NONE ∧ wfSecs (toSecs exSecsG) = true ∧
    flattenableSecs (toSecs exSecsG) = true := ⟨by decide, by decide, by decide, by decide⟩
-- ... `SecsSmallAlong`, from the evaluated model run with a small final state, or from the token count
example : ∃ b', Index.flattenSecs (toSecs exSecsG) (Bld.new (some [102])) = .ok b' ∧ SmallB b' ∧
    SecsSmallAlong exSecsG (Bld.new (some [102])) :=
  ⟨_, rfl, by decide, secsSmallAlong_of_final exSecsG _ _ (by decide) rfl (by decide)⟩
example : SecsSmallAlong exSecsG (Bld.new (some [102])) :=
  secsSmallAlong_of_count _ exSecsG (by decide) (by decide)
-- the theorems applied (the model's `intoSourcemap` sorts by `mergeSort`, which `rfl` does not unfold: the model side
-- is obtained through the tie)
example : Index.flatten (some [102]) (toSecs exSecsG) = .ok (toSMap exFlat) :=
  gen_flatten_model _ exSecsG (secsSmallAlong_of_count _ exSecsG (by decide) (by decide)) exFlat rfl
example : ∃ m' sm', genFlatten (some [102]) exSecsG = .ok m' ∧
    Index.flatten (some [102]) (toSecs exSecsG) = .ok sm' ∧ toSMap m' = sm' :=
  (tie_gen_flatten_whole _ exSecsG (by decide) (by decide)).1 (by decide)
-- an offset that overflows (third token of the first section: line 2 + 4294967294): the same error on both sides
example : genFlatten none [(4294967294, 0, exFM), (20, 5, exFM2)] = .error .flatten ∧
    Index.flatten none (toSecs [(4294967294, 0, exFM), (20, 5, exFM2)]) = .error .flatten := ⟨rfl, rfl⟩

#print axioms tie_gen_secs
#print axioms tie_gen_flatten_eq
#print axioms gen_flatten_model
#print axioms tie_gen_flatten
#print axioms tie_gen_flatten_error
#print axioms secsSmallAlong_of_final
#print axioms secsSmallAlong_of_count
#print axioms tie_gen_flatten_whole
#print axioms gen_c08_whole_tokens
#print axioms gen_c08_whole_tokens_wf
#print axioms gen_c08_whole_contents
#print axioms gen_c08_whole_ignore
#print axioms gen_c08_whole_sources
#print axioms gen_c08_whole_file
#print axioms gen_c08_whole_ok_iff
#print axioms gen_c08_whole_safe
#print axioms gen_c08_whole_agree

end SmVerif.Tie
