import SmVerif.Rs.Prelude
/-
General lemmas about the prelude's mirrors of `scroll::Pread` (`rsLe`, `rsPreadU32s`, `rsPreadBytes`) and of
`Result::ok()` (`rsOk`).  Model-free: the bridges to `Ram.le32` / `Ram.slice` are in `SmVerif/Tie/RamBundle.lean`.
-/
namespace SmVerif.Rs
open SmVerif

/-! ### `rsLe` -/

theorem rsLe_nil : rsLe [] = 0 := rfl

theorem rsLe_cons (b : Nat) (bs : List Nat) : rsLe (b :: bs) = b + 256 * rsLe bs := rfl

/-- a little-endian value of `n` bytes is below `256^n` -/
theorem rsLe_lt (l : List Nat) (h : ∀ b ∈ l, b < 256) : rsLe l < 256 ^ l.length := by
  induction l with
  | nil => simp [rsLe]
  | cons b r ih =>
    have hb : b < 256 := h b (by simp)
    have hr := ih (fun x hx => h x (List.mem_cons_of_mem _ hx))
    simp only [rsLe, List.length_cons, Nat.pow_succ]
    generalize 256 ^ r.length = P at hr ⊢
    omega

theorem getD_lt_of_forall (bs : List Nat) (h : ∀ b ∈ bs, b < 256) (i : Nat) : bs.getD i 0 < 256 := by
  rw [List.getD_eq_getElem?_getD]
  cases hi : bs[i]? with
  | none => simp
  | some v => simp only [Option.getD_some]; exact h v (List.mem_of_getElem? hi)

/-- the four bytes that a `u32` read at `off` looks at -/
theorem take4_drop (bs : List Nat) (off : Nat) (h : off + 4 ≤ bs.length) :
    (bs.drop off).take 4 = [bs.getD off 0, bs.getD (off + 1) 0, bs.getD (off + 2) 0, bs.getD (off + 3) 0] := by
  have hl : 4 ≤ (bs.drop off).length := by rw [List.length_drop]; omega
  have e : ∀ k, bs.getD (off + k) 0 = (bs.drop off).getD k 0 := by
    intro k; simp only [List.getD_eq_getElem?_getD, List.getElem?_drop]
  have e0 := e 0
  rw [Nat.add_zero] at e0
  rw [e0, e 1, e 2, e 3]
  generalize bs.drop off = l at hl
  match l, hl with
  | a :: b :: c :: d :: r, _ => simp
  | [], h | [_], h | [_, _], h | [_, _, _], h => simp at h

/-- the value of a little-endian `u32` read, byte by byte -/
theorem rsLe_take4_drop (bs : List Nat) (off : Nat) (h : off + 4 ≤ bs.length) :
    rsLe ((bs.drop off).take 4)
      = bs.getD off 0 + 256 * bs.getD (off + 1) 0 + 65536 * bs.getD (off + 2) 0 + 16777216 * bs.getD (off + 3) 0 := by
  rw [take4_drop bs off h]
  simp only [rsLe]
  omega

/-- a `u32` read of bytes is a `u32` (also when the window is cut short by the end of the buffer) -/
theorem rsLe_u32_lt (bs : List Nat) (hb : ∀ b ∈ bs, b < 256) (off : Nat) :
    rsLe ((bs.drop off).take 4) < 4294967296 := by
  have hm : ∀ b ∈ (bs.drop off).take 4, b < 256 :=
    fun b h => hb b (List.mem_of_mem_drop (List.mem_of_mem_take h))
  have h1 := rsLe_lt _ hm
  have h2 : ((bs.drop off).take 4).length ≤ 4 := by rw [List.length_take]; omega
  have h3 : 256 ^ ((bs.drop off).take 4).length ≤ 256 ^ 4 := Nat.pow_le_pow_right (by omega) h2
  have h4 : (256 : Nat) ^ 4 = 4294967296 := by decide
  omega

/-! ### `rsPreadU32s` -/

/-- for at least one field the `BadOffset` test is implied by the `TooBig` test -/
theorem rsPreadU32s_of_pos (bs : List Nat) (off n : Nat) (hn : 0 < n) :
    rsPreadU32s bs off n =
      if off + 4 * n ≤ bs.length then
        .ok ((List.range n).map fun i => rsLe ((bs.drop (off + 4 * i)).take 4))
      else .error .scroll := by
  unfold rsPreadU32s
  by_cases h : off + 4 * n ≤ bs.length
  · rw [if_pos ⟨by omega, h⟩, if_pos h]
  · rw [if_neg (fun hc => h hc.2), if_neg h]

theorem rsPreadU32s_two (bs : List Nat) (off : Nat) :
    rsPreadU32s bs off 2 =
      if off + 8 ≤ bs.length then
        .ok [rsLe ((bs.drop off).take 4), rsLe ((bs.drop (off + 4)).take 4)]
      else .error .scroll := by
  rw [rsPreadU32s_of_pos bs off 2 (by omega)]
  rfl

theorem rsPreadU32s_three (bs : List Nat) (off : Nat) :
    rsPreadU32s bs off 3 =
      if off + 12 ≤ bs.length then
        .ok [rsLe ((bs.drop off).take 4), rsLe ((bs.drop (off + 4)).take 4), rsLe ((bs.drop (off + 8)).take 4)]
      else .error .scroll := by
  rw [rsPreadU32s_of_pos bs off 3 (by omega)]
  rfl

/-- the only refusal of the read is `Error::Scroll` -/
theorem rsPreadU32s_error (bs : List Nat) (off n : Nat) (e : Err) (h : rsPreadU32s bs off n = .error e) :
    e = .scroll := by
  unfold rsPreadU32s at h
  split at h
  · cases h
  · cases h; rfl

/-! ### `rsPreadBytes` -/

theorem rsPreadBytes_ok (bs : List Nat) (off len : Nat) (h1 : off < bs.length) (h2 : off + len ≤ bs.length) :
    rsPreadBytes bs off len = .ok ((bs.drop off).take len) := by
  unfold rsPreadBytes; rw [if_pos ⟨h1, h2⟩]

/-- `off = bytes.len()` is refused even for `len = 0` -/
theorem rsPreadBytes_bad_offset (bs : List Nat) (off len : Nat) (h : bs.length ≤ off) :
    rsPreadBytes bs off len = .error .scroll := by
  unfold rsPreadBytes; rw [if_neg (fun hc => by omega)]

theorem rsPreadBytes_too_big (bs : List Nat) (off len : Nat) (h : bs.length < off + len) :
    rsPreadBytes bs off len = .error .scroll := by
  unfold rsPreadBytes; rw [if_neg (fun hc => by omega)]

theorem rsPreadBytes_error (bs : List Nat) (off len : Nat) (e : Err) (h : rsPreadBytes bs off len = .error e) :
    e = .scroll := by
  unfold rsPreadBytes at h
  split at h
  · cases h
  · cases h; rfl

/-- what the read hands out is a window of the buffer -/
theorem rsPreadBytes_ok_inv (bs : List Nat) (off len : Nat) (s : List Nat) (h : rsPreadBytes bs off len = .ok s) :
    off < bs.length ∧ off + len ≤ bs.length ∧ s = (bs.drop off).take len := by
  unfold rsPreadBytes at h
  split at h
  · rename_i hc; cases h; exact ⟨hc.1, hc.2, rfl⟩
  · cases h

/-! ### `rsOk` -/

theorem rsOk_ok {α} (v : α) : rsOk (.ok v : Res α) = .ok (some v) := rfl
theorem rsOk_scroll {α} : rsOk (.error .scroll : Res α) = .ok none := rfl

end SmVerif.Rs
