import SmVerif.Tie.PreludeLemmas6
import SmVerif.Tie.Lookup
import SmVerif.Generated.RsHermes
import SmVerif.Model.Hermes
/-
Tie unit "Hermes": `SourceMapHermes::get_scope_for_token` (hermes.rs) as translated by `tools/rs2lean` computes
what the hand-written model `SmVerif/Model/Hermes.lean` (`scopeAt`, `scopeTok`) says.

* `tie_partition_point`       : the prelude's mirror of std's `partition_point`, with the closure
                                `|o| (o.line, o.column) <= key` of `get_scope_for_token`, is the model's
                                `partitionPoint` - for every list (sorted or not);
* `tie_partition_point_map`   : the same on a list of offsets, through the key `(line, column)`;
* `tie_get_scope_for_token`   : the translated function returns `.ok` of the model's `scopeAt` at the token's
                                source id, source line and *reported* source column (`get_src_col`:
                                `src_col.saturating_add(offset)`) - for every function-map table, every token; no
                                hypothesis at all is needed (not even the `u32` ranges);
* `get_scope_for_token_total` : in particular it never fails;
* `tie_get_scope_for_token_iter` : for a token of the token iterator (offset 0, `src_col` a `u32`) the result is
                                `scopeTok` of the converted raw token.

`rsPartitionPoint` / `partitionPoint` carry their own fuel (the length of the slice), the same on both sides, so
there is no fuel parameter in the statements; `Rs.ppLoop_fuel` (PreludeLemmas6) shows that this fuel is enough.
-/
namespace SmVerif.Tie
open SmVerif SmVerif.Rs

/-! ### `partition_point` -/

/-- the closure of `partition_point`: `k <= q` of `(u32, u32)` is "not `q < k`" -/
theorem posLe_eq_not_ltPair (k q : Nat × Nat) : Lookup.posLe k q = !ltPair q k := by
  rw [Bool.eq_iff_iff]
  simp only [ltPair, Lookup.posLe, decide_eq_true_eq, Bool.or_eq_true, Bool.and_eq_true, Bool.not_eq_true',
    decide_eq_false_iff_not]
  omega

/-- Inside the slice the prelude's `partition_point` loop and the model's bisection do the same thing (the
window invariant `base + size ≤ len` as in `bsLoop_eq_bsearchLoop`). -/
theorem ppLoop_eq_bsearchLoop (keys : List (Nat × Nat)) (q : Nat × Nat) :
    ∀ fuel size base, base + size ≤ keys.length →
      ppLoop (fun o => !ltPair q o) keys fuel size base = Lookup.bsearchLoop keys q fuel size base := by
  intro fuel size base h
  rw [ppLoop_not_lt_eq_bsLoop ltPair keys q]
  exact bsLoop_eq_bsearchLoop keys q fuel size base h

/-- **partition point.**  The prelude's literal mirror of std's `partition_point`, with the predicate
`|o| o <= q` on `(u32, u32)`, is the model's `partitionPoint`.  For every list, sorted or not. -/
theorem tie_partition_point (entries : List (Nat × Nat)) (q : Nat × Nat) :
    Rs.rsPartitionPoint (fun o => !Rs.ltPair q o) entries = Hermes.partitionPoint entries q := by
  unfold Hermes.partitionPoint
  by_cases h0 : entries.length = 0
  · unfold rsPartitionPoint
    simp only [h0, ↓reduceIte]
  · obtain ⟨hb, he⟩ := rsPartitionPoint_of_ne (fun o => !ltPair q o) entries h0
    rw [he]
    simp only [h0, ↓reduceIte]
    have hl := ppLoop_eq_bsearchLoop entries q entries.length entries.length 0 (by omega)
    generalize ppLoop (fun o => !ltPair q o) entries entries.length entries.length 0 = b at hb hl ⊢
    rw [← hl]
    have h2 : entries.getD b (0, 0) = entries[b] := by
      simp only [List.getD_eq_getElem?_getD, List.getElem?_eq_getElem hb, Option.getD_some]
    rw [h2, posLe_eq_not_ltPair]
    generalize entries[b] = k
    cases ltPair q k with
    | true => simp only [Bool.not_true, Bool.false_eq_true, ↓reduceIte, Nat.add_zero]
    | false => simp only [Bool.not_false, ↓reduceIte]

/-- the same through a key function: `slice.partition_point(|o| key(o) <= q)` -/
theorem tie_partition_point_key {T : Type} (xs : List T) (key : T → Nat × Nat) (q : Nat × Nat) :
    Rs.rsPartitionPoint (fun o => !Rs.ltPair q (key o)) xs = Hermes.partitionPoint (xs.map key) q := by
  rw [rsPartitionPoint_map key (fun k => !ltPair q k) xs]
  exact tie_partition_point (xs.map key) q

/-- **partition point on a list of offsets**, as `get_scope_for_token` calls it -/
theorem tie_partition_point_map (xs : List Gen.RsHermes.HermesScopeOffset) (q : Nat × Nat) :
    Rs.rsPartitionPoint (fun o => !Rs.ltPair q (o.line, o.column)) xs =
      Hermes.partitionPoint (xs.map (fun o => (o.line, o.column))) q :=
  tie_partition_point_key xs (fun o => (o.line, o.column)) q

/-- the model's `partitionPoint` is an index between `0` and `len` (any list) -/
theorem partitionPoint_le (keys : List (Nat × Nat)) (q : Nat × Nat) :
    Hermes.partitionPoint keys q ≤ keys.length := by
  rw [← tie_partition_point]
  exact rsPartitionPoint_le _ _

example : Rs.rsPartitionPoint (fun o => !Rs.ltPair (0, 5) o) [(0, 0), (0, 5), (0, 5), (2, 1)] = 3 := by
  rw [tie_partition_point]; rfl
-- unsorted input: both sides still agree
example : Rs.rsPartitionPoint (fun o => !Rs.ltPair (1, 0) o) [(3, 0), (0, 5), (1, 5), (0, 1)] = 2 := by
  rw [tie_partition_point]; rfl

/-! ### conversions -/

/-- `HermesScopeOffset` field by field -/
def toEntry (o : Gen.RsHermes.HermesScopeOffset) : Hermes.Entry :=
  { line := o.line, column := o.column, name := o.name_index }

/-- `HermesFunctionMap` field by field (`names` are byte lists on both sides) -/
def toFMap (f : Gen.RsHermes.HermesFunctionMap) : Hermes.FMap :=
  { names := f.names, entries := f.mappings.map toEntry }

/-- the key closure of `get_scope_for_token` is the model's `Entry.pos` after the conversion -/
theorem map_pos_toEntry (xs : List Gen.RsHermes.HermesScopeOffset) :
    (xs.map toEntry).map Hermes.Entry.pos = xs.map (fun o => (o.line, o.column)) := by
  rw [List.map_map]
  rfl

/-! ### `get_scope_for_token` -/

/-- **get_scope_for_token.**  For every `SourceMapHermes` (any function maps, offsets in any order, any values)
and every token: the translated function returns `.ok` of the model's `scopeAt` on the converted function maps,
at the token's source id, source line and reported source column (`get_src_col` =
`src_col.saturating_add(offset)`).  No hypothesis is needed: the only arithmetic is `checked_add(1)`,
`saturating_add` and `checked_sub(1)`, which the model mirrors for every natural number.  In particular the
generated function never fails. -/
theorem tie_get_scope_for_token (h : Gen.RsHermes.SourceMapHermes) (tok : Gen.RsTypes.Token) :
    Gen.RsHermes.SourceMapHermes.get_scope_for_token h tok =
      .ok (Hermes.scopeAt (h.function_maps.map (Option.map toFMap)) tok.raw.src_id tok.raw.src_line
        (Lookup.satAdd tok.raw.src_col tok.offset)) := by
  unfold Gen.RsHermes.SourceMapHermes.get_scope_for_token Hermes.scopeAt
  simp only [Gen.RsTypes.Token.get_src_id, Gen.RsTypes.Token.get_src_line, Gen.RsTypes.Token.get_src_col,
    ← satAdd_eq_min, List.getElem?_map]
  cases h.function_maps[tok.raw.src_id]? with
  | none => rfl
  | some ofm =>
    cases ofm with
    | none => rfl
    | some fm =>
      simp only [Option.map_some]
      have hN : NONE = 4294967295 := rfl
      by_cases hl : tok.raw.src_line + 1 ≤ 4294967295
      · have hl' : ¬ (tok.raw.src_line + 1 > NONE) := by omega
        simp only [hl, hl', ↓reduceIte, tie_partition_point_map, toFMap, map_pos_toEntry]
        generalize Hermes.partitionPoint (fm.mappings.map fun o => (o.line, o.column))
          (tok.raw.src_line + 1, Lookup.satAdd tok.raw.src_col tok.offset) = idx
        by_cases h0 : idx = 0
        · subst h0
          have : ¬ (1 ≤ 0) := by omega
          simp only [this, ↓reduceIte]
        · have : 1 ≤ idx := by omega
          simp only [h0, this, ↓reduceIte, List.getElem?_map]
          cases fm.mappings[idx - 1]? with
          | none => rfl
          | some o =>
            simp only [Option.map_some, toEntry, Option.map_id']
      · have hl' : tok.raw.src_line + 1 > NONE := by omega
        simp only [hl, hl', ↓reduceIte]

/-- **`get_scope_for_token` never fails** (no index out of bounds, no overflow), on any input -/
theorem get_scope_for_token_total (h : Gen.RsHermes.SourceMapHermes) (tok : Gen.RsTypes.Token) :
    ∃ r, Gen.RsHermes.SourceMapHermes.get_scope_for_token h tok = .ok r :=
  ⟨_, tie_get_scope_for_token h tok⟩

/-- **iterator tokens.**  A token obtained from the token iterator has offset 0; with `src_col` in the `u32`
range (the Rust type) the reported source column is `src_col`, and the result is the model's `scopeTok` on the
converted raw token.  (The range hypothesis is used: outside the `u32` range `get_src_col` clamps to `u32::MAX`
and `scopeTok` does not - `src_col = 2^32 + 5` against one offset at `1:2^32` gives `none` / `some name`.) -/
theorem tie_get_scope_for_token_iter (h : Gen.RsHermes.SourceMapHermes) (tok : Gen.RsTypes.Token)
    (h0 : tok.offset = 0) (hsc : tok.raw.src_col < 2 ^ 32) :
    Gen.RsHermes.SourceMapHermes.get_scope_for_token h tok =
      .ok (Hermes.scopeTok (h.function_maps.map (Option.map toFMap)) (toTok tok.raw)) := by
  rw [tie_get_scope_for_token, h0, satAdd_zero _ (by omega)]
  rfl

/-! examples: one source with a function map (offsets at 1:0 → `a`, 1:10 → `b`, 3:2 → `a`), one without -/
def exFMap : Gen.RsHermes.HermesFunctionMap :=
  { names := [[97], [98]],
    mappings := [{ line := 1, column := 0, name_index := 0 }, { line := 1, column := 10, name_index := 1 },
      { line := 3, column := 2, name_index := 0 }] }
def exHermes : Gen.RsHermes.SourceMapHermes := { sm := { (default : SmVerif.Gen.RsTypes.SourceMap) with tokens := [], names := [] }, function_maps := [some exFMap, none] }
def exTok (src line col off : Nat) : Gen.RsTypes.Token :=
  { raw := { dst_line := 0, dst_col := 0, src_line := line, src_col := col, src_id := src,
             name_id := 4294967295, is_range := off ≠ 0 },
    sm := { (default : SmVerif.Gen.RsTypes.SourceMap) with tokens := [], names := [] }, idx := 0, offset := off }

/-- the hypotheses of `tie_get_scope_for_token_iter` on a concrete token -/
example : (exTok 0 0 12 0).offset = 0 ∧ (exTok 0 0 12 0).raw.src_col < 2 ^ 32 := by decide
-- source line 0 is line 1 of the function map; column 12 is after the second offset
example : Gen.RsHermes.SourceMapHermes.get_scope_for_token exHermes (exTok 0 0 12 0) = .ok (some [98]) := by
  rw [tie_get_scope_for_token_iter _ _ rfl (by decide)]; rfl
-- a range token: the offset is added (7 + 5 = 12), saturating
example : Gen.RsHermes.SourceMapHermes.get_scope_for_token exHermes (exTok 0 0 7 5) = .ok (some [98]) := by
  rw [tie_get_scope_for_token]; rfl
example : Gen.RsHermes.SourceMapHermes.get_scope_for_token exHermes (exTok 0 0 7 4294967295) =
    .ok (some [98]) := by
  rw [tie_get_scope_for_token]; rfl
-- a source without function map, a source id outside the table, `checked_add(1)` overflowing
example : Gen.RsHermes.SourceMapHermes.get_scope_for_token exHermes (exTok 1 0 12 0) = .ok none := by
  rw [tie_get_scope_for_token]; rfl
example : Gen.RsHermes.SourceMapHermes.get_scope_for_token exHermes (exTok 4294967295 0 12 0) = .ok none := by
  rw [tie_get_scope_for_token]; rfl
example : Gen.RsHermes.SourceMapHermes.get_scope_for_token exHermes (exTok 0 4294967295 12 0) = .ok none := by
  rw [tie_get_scope_for_token]; rfl

/-! ### axioms -/

#print axioms posLe_eq_not_ltPair
#print axioms ppLoop_eq_bsearchLoop
#print axioms tie_partition_point
#print axioms tie_partition_point_key
#print axioms tie_partition_point_map
#print axioms partitionPoint_le
#print axioms tie_get_scope_for_token
#print axioms get_scope_for_token_total
#print axioms tie_get_scope_for_token_iter

end SmVerif.Tie
