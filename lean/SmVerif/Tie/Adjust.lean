import SmVerif.Tie.PreludeLemmas12
import SmVerif.Tie.Lookup
import SmVerif.Generated.RsAdjust
import SmVerif.Props.C10
/-
Tie unit "Adjust": `SourceMap::adjust_mappings` and `create_ranges` (types.rs) as translated by `tools/rs2lean`
(`SmVerif/Generated/RsAdjust.lean`) compute what the hand-written model `SmVerif/Model/Adjust.lean` says.

* `tie_sort_by_key_pair` (`_dst`, `_src`, `tie_sort_toks`): the prelude's mirror of `sort_unstable_by_key` with a
  `(u32, u32)` key (a stable insertion sort - the trusted-base reading) is the model's `sortByKey` / `sortToks`
  (core's stable merge sort), on every list.  Through `Rs.rsSortByKeyP_eq_mergeSort` (PreludeLemmas12): two lists
  sorted by the key in which the elements of each key come in the same order are equal.
* `tie_create_ranges`: `create_ranges fuel ts key`, for `ts.length < fuel`, returns ranges that are, field by field
  (`toRange`), the model's `createRanges`; `tie_create_ranges_diverge`: `.error .diverge` for `fuel ≤ ts.length`
  (the bound is sharp; the Rust loop itself always terminates).
* `tie_adjust_mappings_full` / `tie_adjust_mappings` / `tie_adjust_mappings_names` / `_ok` / `_error` / `_diverge`:
  for maps with `u32` coordinates and `fuel` above the number of tokens of either map, the translated
  `adjust_mappings` returns the model's `adjustToks` as tokens and the `names` of `self`; the `i32` overflow panics
  of the displacement arithmetic are on both sides, on the same inputs (no hypothesis excludes them).
* `gen_c10_untouched`, `gen_c10_sorted`, `gen_c10_safe`, `gen_c10_sound`, `gen_c10_eq_spec`, `gen_c10_panic_witness`:
  the property theorems of `SmVerif/Props/C10.lean` restated about the generated function.

Structure of the proof of the sweep: for each of the three loop functions of the generated code, one lemma per path
through one iteration (`loop2_stop/_brk/_next`, `loop3_stop/_line_err/_col_err/_done/_brk/_next`,
`loop1_nil/_line_err/_col_err/_brk2/_err3/_brk3/_next`; these are the only lemmas that unfold generated code), the
same for the model (`inner_*`, `sweep_*`), and an induction relating the two (`loop2_spec`, `loop3_spec`,
`loop1_spec`) through the relations `Loop2Rel`, `Loop3Rel`, `Loop1Rel`.
-/
namespace SmVerif.Tie
open SmVerif SmVerif.Rs SmVerif.Lookup
open SmVerif.Gen.RsTypes (RawToken SourceMap)

/-! ### the orders -/

/-- the model's `≤` on positions is the negation of the prelude's `<` the other way round -/
theorem posLe_eq_not_ltPair (a b : Nat × Nat) : posLe a b = !ltPair b a := by
  rw [Bool.eq_iff_iff]
  simp only [posLe_iff, Bool.not_eq_true', ltPair_eq_false_iff]
  omega

/-! ### A. the sort -/

/-- **sort.**  The prelude's mirror of `sort_unstable_by_key` with a `(u32, u32)` key (a stable insertion sort:
the trusted-base reading) is the model's `sortByKey` (core's stable merge sort), on every list, for every key
closure `key` that reads off the raw token what `key'` reads off the model token. -/
theorem tie_sort_by_key_pair (key : RawToken → Nat × Nat) (key' : Tok → Pos)
    (hk : ∀ t, key t = key' (toTok t)) (ts : List RawToken) :
    (rsSortByKeyP key ts).map toTok = Adjust.sortByKey key' (ts.map toTok) := by
  rw [rsSortByKeyP_eq_mergeSort]
  unfold Adjust.sortByKey
  apply List.map_mergeSort
  intro a _ b _
  rw [← hk a, ← hk b, posLe_eq_not_ltPair]
  rfl

/-- the closure of `adjust_mappings` for the original tokens -/
theorem tie_sort_by_key_dst (ts : List RawToken) :
    (rsSortByKeyP (fun t => (t.dst_line, t.dst_col)) ts).map toTok = Adjust.sortByKey Adjust.dstKey (ts.map toTok) :=
  tie_sort_by_key_pair (fun t => (t.dst_line, t.dst_col)) Adjust.dstKey (fun _ => rfl) ts

/-- the closure of `adjust_mappings` for the adjustment tokens -/
theorem tie_sort_by_key_src (ts : List RawToken) :
    (rsSortByKeyP (fun t => (t.src_line, t.src_col)) ts).map toTok = Adjust.sortByKey Adjust.srcKey (ts.map toTok) :=
  tie_sort_by_key_pair (fun t => (t.src_line, t.src_col)) Adjust.srcKey (fun _ => rfl) ts

/-- the final sort of `adjust_mappings` (and the sort of `SourceMap::new`) is the model's `sortToks` -/
theorem tie_sort_toks (ts : List RawToken) :
    (rsSortByKeyP (fun t => (t.dst_line, t.dst_col)) ts).map toTok = sortToks (ts.map toTok) :=
  tie_sort_by_key_dst ts

/-! ### B. `create_ranges` -/

abbrev GRange := Gen.RsAdjust.Range

/-- `Range` field by field -/
def toRange (r : GRange) : Adjust.Range := { start := r.start, stop := r.end_, value := toTok r.value }

/-- the range the loop of `create_ranges` pushes for the token `t` followed by `rest` -/
def mkRange (key : RawToken → Nat × Nat) (t : RawToken) (rest : List RawToken) : GRange :=
  { start := key t,
    end_ := (if ltPair ((key t).1, 4294967295)
                (match rest.head? with | some v_ => key v_ | none => (4294967295, 4294967295)) then
              ((key t).1, 4294967295)
            else (match rest.head? with | some v_ => key v_ | none => (4294967295, 4294967295))),
    value := t }

theorem create_ranges_loop1_cons (key : RawToken → Nat × Nat) (fuel : Nat) (t : RawToken) (rest : List RawToken)
    (ranges : List GRange) :
    Gen.RsAdjust.create_ranges.loop1 key (fuel + 1) (t :: rest) ranges =
      Gen.RsAdjust.create_ranges.loop1 key fuel rest (ranges ++ [mkRange key t rest]) := rfl

theorem create_ranges_loop1_nil (key : RawToken → Nat × Nat) (fuel : Nat) (ranges : List GRange) :
    Gen.RsAdjust.create_ranges.loop1 key (fuel + 1) [] ranges = .ok ([], ranges) := rfl

theorem create_ranges_loop1_zero (key : RawToken → Nat × Nat) (iter : List RawToken) (ranges : List GRange) :
    Gen.RsAdjust.create_ranges.loop1 key 0 iter ranges = .error .diverge := rfl

theorem toRange_mkRange (key : RawToken → Nat × Nat) (key' : Tok → Pos) (hk : ∀ t, key t = key' (toTok t))
    (t : RawToken) (rest : List RawToken) :
    toRange (mkRange key t rest) :: Adjust.rangesOfSorted key' (rest.map toTok) =
      Adjust.rangesOfSorted key' ((t :: rest).map toTok) := by
  have hN : NONE = 4294967295 := rfl
  cases rest with
  | nil =>
    simp only [List.map_cons, List.map_nil, Adjust.rangesOfSorted, toRange, mkRange, List.head?_nil,
      Adjust.posMin, posLe_eq_not_ltPair, hk, hN]
    cases ltPair ((key' (toTok t)).1, 4294967295) (4294967295, 4294967295) <;> rfl
  | cons n rest =>
    simp only [List.map_cons, Adjust.rangesOfSorted, toRange, mkRange, List.head?_cons,
      Adjust.posMin, posLe_eq_not_ltPair, hk, hN]
    cases ltPair ((key' (toTok t)).1, 4294967295) (key' (toTok n)) <;> rfl

/-- the `while let Some(t) = token_iter.next()` loop: with more fuel than tokens it consumes the iterator and pushes
the model's ranges -/
theorem create_ranges_loop1_spec (key : RawToken → Nat × Nat) (key' : Tok → Pos) (hk : ∀ t, key t = key' (toTok t)) :
    ∀ (iter : List RawToken) (fuel : Nat) (ranges : List GRange), iter.length < fuel →
      ∃ rs, Gen.RsAdjust.create_ranges.loop1 key fuel iter ranges = .ok ([], ranges ++ rs) ∧
        rs.map toRange = Adjust.rangesOfSorted key' (iter.map toTok) ∧
        rs.length = iter.length ∧ ∀ r ∈ rs, r.value ∈ iter ∧ r.start = key r.value := by
  intro iter
  induction iter with
  | nil =>
    intro fuel ranges hf
    cases fuel with
    | zero => exact absurd hf (Nat.lt_irrefl 0)
    | succ f =>
      refine ⟨[], ?_, rfl, rfl, ?_⟩
      · rw [create_ranges_loop1_nil, List.append_nil]
      · intro r hr; cases hr
  | cons t rest ih =>
    intro fuel ranges hf
    cases fuel with
    | zero => exact absurd hf (Nat.not_lt_zero _)
    | succ f =>
      obtain ⟨rs, h1, h2, h3, h4⟩ := ih f (ranges ++ [mkRange key t rest])
        (by simp only [List.length_cons] at hf; omega)
      refine ⟨mkRange key t rest :: rs, ?_, ?_, ?_, ?_⟩
      · rw [create_ranges_loop1_cons, h1, List.append_assoc]
        rfl
      · rw [List.map_cons, h2]
        exact toRange_mkRange key key' hk t rest
      · simp only [List.length_cons, h3]
      · intro r hr
        rcases List.mem_cons.mp hr with rfl | hr
        · exact ⟨List.mem_cons_self, rfl⟩
        · exact ⟨List.mem_cons_of_mem _ (h4 r hr).1, (h4 r hr).2⟩

/-- the loop runs out of fuel when there are at least as many tokens as fuel -/
theorem create_ranges_loop1_diverge (key : RawToken → Nat × Nat) :
    ∀ (iter : List RawToken) (fuel : Nat) (ranges : List GRange), fuel ≤ iter.length →
      Gen.RsAdjust.create_ranges.loop1 key fuel iter ranges = .error .diverge := by
  intro iter
  induction iter with
  | nil =>
    intro fuel ranges hf
    have : fuel = 0 := by simpa using hf
    subst this
    rfl
  | cons t rest ih =>
    intro fuel ranges hf
    cases fuel with
    | zero => rfl
    | succ f =>
      rw [create_ranges_loop1_cons]
      exact ih f _ (by simp only [List.length_cons] at hf; omega)

/-- `create_ranges`, with the facts about the ranges that the sweep needs -/
theorem create_ranges_spec (ts : List RawToken) (key : RawToken → Nat × Nat) (key' : Tok → Pos)
    (hk : ∀ t, key t = key' (toTok t)) (fuel : Nat) (hf : ts.length < fuel) :
    ∃ rs, Gen.RsAdjust.create_ranges fuel ts key = .ok rs ∧
      rs.map toRange = Adjust.createRanges key' (ts.map toTok) ∧
      rs.length = ts.length ∧ ∀ r ∈ rs, r.value ∈ ts ∧ r.start = key r.value := by
  obtain ⟨rs, h1, h2, h3, h4⟩ := create_ranges_loop1_spec key key' hk (rsSortByKeyP key ts) fuel []
    (by rw [rsSortByKeyP_length]; exact hf)
  refine ⟨rs, ?_, ?_, ?_, ?_⟩
  · unfold Gen.RsAdjust.create_ranges
    simp only [h1, List.nil_append]
  · rw [h2, tie_sort_by_key_pair key key' hk]
    rfl
  · rw [h3, rsSortByKeyP_length]
  · intro r hr
    exact ⟨(rsSortByKeyP_perm key ts).mem_iff.mp (h4 r hr).1, (h4 r hr).2⟩

/-- **create_ranges.**  For every token list, every key closure (`key` on raw tokens reading what `key'` reads on
model tokens) and every fuel above the number of tokens: `create_ranges` returns ranges which, converted field by
field, are the model's `createRanges`. -/
theorem tie_create_ranges (ts : List RawToken) (key : RawToken → Nat × Nat) (key' : Tok → Pos)
    (hk : ∀ t, key t = key' (toTok t)) (fuel : Nat) (hf : ts.length < fuel) :
    (Gen.RsAdjust.create_ranges fuel ts key).map (List.map toRange) =
      .ok (Adjust.createRanges key' (ts.map toTok)) := by
  obtain ⟨rs, h1, h2, _⟩ := create_ranges_spec ts key key' hk fuel hf
  rw [h1, ← h2]
  rfl

/-- with too little fuel the translated loop reports divergence (the Rust loop itself always terminates: the bound
`ts.length < fuel` of `tie_create_ranges` is sharp) -/
theorem tie_create_ranges_diverge (ts : List RawToken) (key : RawToken → Nat × Nat) (fuel : Nat)
    (hf : fuel ≤ ts.length) : Gen.RsAdjust.create_ranges fuel ts key = .error .diverge := by
  unfold Gen.RsAdjust.create_ranges
  simp only [create_ranges_loop1_diverge key (rsSortByKeyP key ts) fuel [] (by rw [rsSortByKeyP_length]; exact hf)]

example : (Gen.RsAdjust.create_ranges 3 [exTokB, exTokA] (fun t => (t.dst_line, t.dst_col))).map (List.map toRange) =
    .ok [⟨(0, 0), (0, 4), toTok exTokA⟩, ⟨(0, 4), (0, 4294967295), toTok exTokB⟩] := by
  rw [tie_create_ranges _ (fun t => (t.dst_line, t.dst_col)) Adjust.dstKey (fun _ => rfl) 3 (by decide)]
  -- `List.mergeSort` does not reduce in the kernel; the insertion sort does
  unfold Adjust.createRanges
  rw [← tie_sort_by_key_dst]
  rfl

/-! ### C. `adjust_mappings` -/

open SmVerif.Gen.RsAdjust (SourceMap.adjust_mappings.loop1 SourceMap.adjust_mappings.loop2
  SourceMap.adjust_mappings.loop3 SourceMap.adjust_mappings)

theorem toRange_start (r : GRange) : (toRange r).start = r.start := rfl
theorem toRange_stop (r : GRange) : (toRange r).stop = r.end_ := rfl
theorem toRange_value (r : GRange) : (toRange r).value = toTok r.value := rfl

/-- in the `i32` range -/
def InI32 (x : Int) : Prop := -2147483648 ≤ x ∧ x ≤ 2147483647

theorem inI32_iff (x : Int) : Adjust.inI32 x = true ↔ InI32 x := by
  simp only [Adjust.inI32, InI32, Bool.and_eq_true, decide_eq_true_eq]

theorem i32Add_of_in {x y : Int} (h : InI32 (x + y)) : Adjust.i32Add x y = .ok (x + y) := by
  unfold Adjust.i32Add
  rw [if_pos ((inI32_iff _).mpr h)]

theorem i32Add_of_not_in {x y : Int} (h : ¬ InI32 (x + y)) : Adjust.i32Add x y = .error .panic := by
  unfold Adjust.i32Add
  rw [if_neg (fun h' => h ((inI32_iff _).mp h'))]

theorem i32Sub_of_in {x y : Int} (h : InI32 (x - y)) : Adjust.i32Sub x y = .ok (x - y) := by
  unfold Adjust.i32Sub
  rw [if_pos ((inI32_iff _).mpr h)]

theorem i32Sub_of_not_in {x y : Int} (h : ¬ InI32 (x - y)) : Adjust.i32Sub x y = .error .panic := by
  unfold Adjust.i32Sub
  rw [if_neg (fun h' => h ((inI32_iff _).mp h'))]

/-- `x as i32` of the model is the prelude's `wrapS 32`, on `u32` values -/
theorem asI32_eq_wrapS (n : Nat) (h : n < 4294967296) : Adjust.asI32 n = wrapS 32 (n : Int) := by
  rw [wrapS32_natCast n h]
  rfl

/-- the start of a range is a pair of `u32` -/
def RangeU32 (r : GRange) : Prop := r.start.1 < 4294967296 ∧ r.start.2 < 4294967296

/-- all four coordinates of a token are `u32` -/
def TokU32 (t : RawToken) : Prop :=
  t.dst_line < 4294967296 ∧ t.dst_col < 4294967296 ∧ t.src_line < 4294967296 ∧ t.src_col < 4294967296

/-- where the overlap of `o` and `a` starts: `max(o.start, a.start)` as the code computes it -/
def ovStart (a o : GRange) : Nat × Nat := if ltPair a.start o.start = true then o.start else a.start

theorem posMax_tie (a o : GRange) : Adjust.posMax (toRange o).start (toRange a).start = ovStart a o := by
  unfold Adjust.posMax ovStart
  rw [toRange_start, toRange_start, posLe_eq_not_ltPair]
  cases ltPair a.start o.start <;> rfl

theorem ovStart_lt (a o : GRange) (ha : RangeU32 a) (ho : RangeU32 o) :
    (ovStart a o).1 < 4294967296 ∧ (ovStart a o).2 < 4294967296 := by
  unfold ovStart
  split
  · exact ho
  · exact ha

/-- the token the overlap loop pushes -/
def emitTok (a o : GRange) (ld cd : Int) : RawToken :=
  { o.value with dst_line := toU 32 (wrapS 32 (((ovStart a o).1 : Nat) : Int) + ld),
                 dst_col := toU 32 (wrapS 32 (((ovStart a o).2 : Nat) : Int) + cd) }

/-! #### the model's `emit` and `diffs` in the vocabulary of the code -/

theorem emit_line_err (a o : GRange) (ld cd : Int) (ha : RangeU32 a) (ho : RangeU32 o)
    (hl : ¬ InI32 (wrapS 32 (((ovStart a o).1 : Nat) : Int) + ld)) :
    Adjust.emit (toRange a) (toRange o) ld cd = .error .panic := by
  unfold Adjust.emit
  simp only [posMax_tie, asI32_eq_wrapS _ (ovStart_lt a o ha ho).1, i32Add_of_not_in hl]

theorem emit_col_err (a o : GRange) (ld cd : Int) (ha : RangeU32 a) (ho : RangeU32 o)
    (hl : InI32 (wrapS 32 (((ovStart a o).1 : Nat) : Int) + ld))
    (hc : ¬ InI32 (wrapS 32 (((ovStart a o).2 : Nat) : Int) + cd)) :
    Adjust.emit (toRange a) (toRange o) ld cd = .error .panic := by
  unfold Adjust.emit
  simp only [posMax_tie, asI32_eq_wrapS _ (ovStart_lt a o ha ho).1, asI32_eq_wrapS _ (ovStart_lt a o ha ho).2,
    i32Add_of_in hl, i32Add_of_not_in hc]

theorem toTok_emitTok (a o : GRange) (ld cd : Int) :
    toTok (emitTok a o ld cd) =
      { toTok o.value with dl := wrapU32 (wrapS 32 (((ovStart a o).1 : Nat) : Int) + ld),
                           dc := wrapU32 (wrapS 32 (((ovStart a o).2 : Nat) : Int) + cd) } := by
  unfold emitTok
  rw [toU32_wrapU32, toU32_wrapU32]
  generalize wrapU32 (wrapS 32 (((ovStart a o).1 : Nat) : Int) + ld) = x
  generalize wrapU32 (wrapS 32 (((ovStart a o).2 : Nat) : Int) + cd) = y
  rfl

theorem emit_ok (a o : GRange) (ld cd : Int) (ha : RangeU32 a) (ho : RangeU32 o)
    (hl : InI32 (wrapS 32 (((ovStart a o).1 : Nat) : Int) + ld))
    (hc : InI32 (wrapS 32 (((ovStart a o).2 : Nat) : Int) + cd)) :
    Adjust.emit (toRange a) (toRange o) ld cd = .ok (toTok (emitTok a o ld cd)) := by
  unfold Adjust.emit
  simp only [posMax_tie, asI32_eq_wrapS _ (ovStart_lt a o ha ho).1, asI32_eq_wrapS _ (ovStart_lt a o ha ho).2,
    i32Add_of_in hl, i32Add_of_in hc, toTok_emitTok, toRange_value]

/-- `line_diff` and `col_diff` as the code computes them -/
def lineDiff (a : GRange) : Int :=
  wrapS 32 ((a.value.dst_line : Nat) : Int) - wrapS 32 ((a.value.src_line : Nat) : Int)
def colDiff (a : GRange) : Int :=
  wrapS 32 ((a.value.dst_col : Nat) : Int) - wrapS 32 ((a.value.src_col : Nat) : Int)

theorem diffs_line_err (a : GRange) (hv : TokU32 a.value) (hl : ¬ InI32 (lineDiff a)) :
    Adjust.diffs (toRange a) = .error .panic := by
  unfold Adjust.diffs
  have e1 : (toRange a).value.dl = a.value.dst_line := rfl
  have e2 : (toRange a).value.sl = a.value.src_line := rfl
  simp only [e1, e2, asI32_eq_wrapS _ hv.1, asI32_eq_wrapS _ hv.2.2.1, i32Sub_of_not_in hl]

theorem diffs_col_err (a : GRange) (hv : TokU32 a.value) (hl : InI32 (lineDiff a)) (hc : ¬ InI32 (colDiff a)) :
    Adjust.diffs (toRange a) = .error .panic := by
  unfold Adjust.diffs
  have e1 : (toRange a).value.dl = a.value.dst_line := rfl
  have e2 : (toRange a).value.sl = a.value.src_line := rfl
  have e3 : (toRange a).value.dc = a.value.dst_col := rfl
  have e4 : (toRange a).value.sc = a.value.src_col := rfl
  simp only [e1, e2, e3, e4, asI32_eq_wrapS _ hv.1, asI32_eq_wrapS _ hv.2.1, asI32_eq_wrapS _ hv.2.2.1,
    asI32_eq_wrapS _ hv.2.2.2, i32Sub_of_in hl, i32Sub_of_not_in hc]

theorem diffs_ok (a : GRange) (hv : TokU32 a.value) (hl : InI32 (lineDiff a)) (hc : InI32 (colDiff a)) :
    Adjust.diffs (toRange a) = .ok (lineDiff a, colDiff a) := by
  unfold Adjust.diffs
  have e1 : (toRange a).value.dl = a.value.dst_line := rfl
  have e2 : (toRange a).value.sl = a.value.src_line := rfl
  have e3 : (toRange a).value.dc = a.value.dst_col := rfl
  have e4 : (toRange a).value.sc = a.value.src_col := rfl
  simp only [e1, e2, e3, e4, asI32_eq_wrapS _ hv.1, asI32_eq_wrapS _ hv.2.1, asI32_eq_wrapS _ hv.2.2.1,
    asI32_eq_wrapS _ hv.2.2.2, i32Sub_of_in hl, i32Sub_of_in hc]
  rfl

/-! #### the skip loop (`loop2`) -/

theorem loop2_stop (a : GRange) (fuel : Nat) (os : List GRange) (o : GRange) (self : SourceMap)
    (h : ltPair a.start o.end_ = true) :
    SourceMap.adjust_mappings.loop2 a (fuel + 1) os o self = .ok (.done (os, o, self)) := by
  rw [SourceMap.adjust_mappings.loop2]
  simp only [h, Bool.not_true, Bool.false_eq_true, ↓reduceIte]

theorem loop2_brk (a : GRange) (fuel : Nat) (o : GRange) (self : SourceMap)
    (h : ltPair a.start o.end_ = false) :
    SourceMap.adjust_mappings.loop2 a (fuel + 1) [] o self = .ok (.brk ([], o, self)) := by
  rw [SourceMap.adjust_mappings.loop2]
  simp only [h, Bool.not_false, ↓reduceIte, List.head?_nil, List.tail_nil]

theorem loop2_next (a : GRange) (fuel : Nat) (o' : GRange) (rest : List GRange) (o : GRange) (self : SourceMap)
    (h : ltPair a.start o.end_ = false) :
    SourceMap.adjust_mappings.loop2 a (fuel + 1) (o' :: rest) o self =
      SourceMap.adjust_mappings.loop2 a fuel rest o' self := by
  rw [SourceMap.adjust_mappings.loop2]
  simp only [h, Bool.not_false, ↓reduceIte, List.head?_cons, List.tail_cons]

/-- what the skip loop returns, against the model's `skip` -/
def Loop2Rel (self : SourceMap) (o : GRange) (os : List GRange) :
    Option (Adjust.Range × List Adjust.Range) →
    Res (ExitB SourceMap (List GRange × GRange × SourceMap)) → Prop
  | none, g => ∃ os' o', g = .ok (.brk (os', o', self))
  | some (mo, mos), g => ∃ o1 os1, g = .ok (.done (os1, o1, self)) ∧ toRange o1 = mo ∧ os1.map toRange = mos ∧
      os1.length ≤ os.length ∧ ∀ r ∈ o1 :: os1, r ∈ o :: os

theorem skip_cond (a o : GRange) : posLe (toRange o).stop (toRange a).start = !ltPair a.start o.end_ := by
  rw [toRange_stop, toRange_start, posLe_eq_not_ltPair]

theorem loop2_spec (a : GRange) (self : SourceMap) :
    ∀ (os : List GRange) (fuel : Nat) (o : GRange), os.length < fuel →
      Loop2Rel self o os (Adjust.skip (toRange a) (toRange o) (os.map toRange))
        (SourceMap.adjust_mappings.loop2 a fuel os o self) := by
  intro os
  induction os with
  | nil =>
    intro fuel o hf
    cases fuel with
    | zero => exact absurd hf (Nat.lt_irrefl 0)
    | succ f =>
      simp only [List.map_nil, Adjust.skip, skip_cond]
      cases h : ltPair a.start o.end_ with
      | true =>
        rw [loop2_stop a f [] o self h]
        simp only [Bool.not_true, Bool.false_eq_true, ↓reduceIte, Loop2Rel]
        exact ⟨o, [], rfl, rfl, rfl, Nat.le_refl _, fun r hr => hr⟩
      | false =>
        rw [loop2_brk a f o self h]
        simp only [Bool.not_false, ↓reduceIte, Loop2Rel]
        exact ⟨_, _, rfl⟩
  | cons o' rest ih =>
    intro fuel o hf
    cases fuel with
    | zero => exact absurd hf (Nat.not_lt_zero _)
    | succ f =>
      simp only [List.map_cons, Adjust.skip, skip_cond]
      cases h : ltPair a.start o.end_ with
      | true =>
        rw [loop2_stop a f (o' :: rest) o self h]
        simp only [Bool.not_true, Bool.false_eq_true, ↓reduceIte, Loop2Rel]
        exact ⟨o, o' :: rest, rfl, rfl, rfl, Nat.le_refl _, fun r hr => hr⟩
      | false =>
        rw [loop2_next a f o' rest o self h]
        simp only [Bool.not_false, ↓reduceIte]
        have hrec := ih f o' (by simp only [List.length_cons] at hf; omega)
        generalize Adjust.skip (toRange a) (toRange o') (rest.map toRange) = R at hrec ⊢
        generalize SourceMap.adjust_mappings.loop2 a f rest o' self = G at hrec ⊢
        match R, hrec with
        | none, hrec => exact hrec
        | some (mo, mos), hrec =>
          simp only [Loop2Rel] at hrec ⊢
          obtain ⟨o1, os1, h1, h2, h3, h4, h5⟩ := hrec
          refine ⟨o1, os1, h1, h2, h3, ?_, ?_⟩
          · simp only [List.length_cons]; omega
          · intro r hr; exact List.mem_cons_of_mem _ (h5 r hr)

/-! #### the overlap loop (`loop3`), one iteration, case by case -/

theorem loop3_stop (a : GRange) (ld cd : Int) (fuel : Nat) (self : SourceMap) (os : List GRange) (o : GRange)
    (h1 : ltPair o.start a.end_ = false) :
    SourceMap.adjust_mappings.loop3 a ld cd (fuel + 1) self os o = .ok (.done (self, os, o)) := by
  rw [SourceMap.adjust_mappings.loop3]
  simp only [h1, Bool.false_eq_true, ↓reduceIte]

theorem loop3_line_err (a : GRange) (ld cd : Int) (fuel : Nat) (self : SourceMap) (os : List GRange) (o : GRange)
    (h1 : ltPair o.start a.end_ = true)
    (hl : ¬ InI32 (wrapS 32 (((ovStart a o).1 : Nat) : Int) + ld)) :
    SourceMap.adjust_mappings.loop3 a ld cd (fuel + 1) self os o = .error .panic := by
  rw [SourceMap.adjust_mappings.loop3]
  unfold InI32 ovStart at hl
  simp only [h1, hl, ↓reduceIte]

theorem loop3_col_err (a : GRange) (ld cd : Int) (fuel : Nat) (self : SourceMap) (os : List GRange) (o : GRange)
    (h1 : ltPair o.start a.end_ = true)
    (hl : InI32 (wrapS 32 (((ovStart a o).1 : Nat) : Int) + ld))
    (hc : ¬ InI32 (wrapS 32 (((ovStart a o).2 : Nat) : Int) + cd)) :
    SourceMap.adjust_mappings.loop3 a ld cd (fuel + 1) self os o = .error .panic := by
  rw [SourceMap.adjust_mappings.loop3]
  unfold InI32 ovStart at hl hc
  simp only [h1, hl, hc, and_self, ↓reduceIte]

theorem loop3_done (a : GRange) (ld cd : Int) (fuel : Nat) (self : SourceMap) (os : List GRange) (o : GRange)
    (h1 : ltPair o.start a.end_ = true)
    (hl : InI32 (wrapS 32 (((ovStart a o).1 : Nat) : Int) + ld))
    (hc : InI32 (wrapS 32 (((ovStart a o).2 : Nat) : Int) + cd))
    (he : ltPair o.end_ a.end_ = false) :
    SourceMap.adjust_mappings.loop3 a ld cd (fuel + 1) self os o =
      .ok (.done ({ self with tokens := self.tokens ++ [emitTok a o ld cd] }, os, o)) := by
  rw [SourceMap.adjust_mappings.loop3]
  unfold InI32 ovStart at hl hc
  simp only [h1, hl, hc, he, and_self, ↓reduceIte, Bool.not_false]
  rfl

theorem loop3_brk (a : GRange) (ld cd : Int) (fuel : Nat) (self : SourceMap) (o : GRange)
    (h1 : ltPair o.start a.end_ = true)
    (hl : InI32 (wrapS 32 (((ovStart a o).1 : Nat) : Int) + ld))
    (hc : InI32 (wrapS 32 (((ovStart a o).2 : Nat) : Int) + cd))
    (he : ltPair o.end_ a.end_ = true) :
    SourceMap.adjust_mappings.loop3 a ld cd (fuel + 1) self [] o =
      .ok (.brk ({ self with tokens := self.tokens ++ [emitTok a o ld cd] }, [], o)) := by
  rw [SourceMap.adjust_mappings.loop3]
  unfold InI32 ovStart at hl hc
  simp only [h1, hl, hc, he, and_self, ↓reduceIte, Bool.not_true, Bool.false_eq_true, List.head?_nil, List.tail_nil]
  rfl

theorem loop3_next (a : GRange) (ld cd : Int) (fuel : Nat) (self : SourceMap) (o' : GRange) (rest : List GRange)
    (o : GRange) (h1 : ltPair o.start a.end_ = true)
    (hl : InI32 (wrapS 32 (((ovStart a o).1 : Nat) : Int) + ld))
    (hc : InI32 (wrapS 32 (((ovStart a o).2 : Nat) : Int) + cd))
    (he : ltPair o.end_ a.end_ = true) :
    SourceMap.adjust_mappings.loop3 a ld cd (fuel + 1) self (o' :: rest) o =
      SourceMap.adjust_mappings.loop3 a ld cd fuel { self with tokens := self.tokens ++ [emitTok a o ld cd] }
        rest o' := by
  rw [SourceMap.adjust_mappings.loop3]
  unfold InI32 ovStart at hl hc
  simp only [h1, hl, hc, he, and_self, ↓reduceIte, Bool.not_true, Bool.false_eq_true, List.head?_cons,
    List.tail_cons]
  rfl

/-! #### the model's `inner`, one iteration, case by case -/

theorem inner_stop (a : Adjust.Range) (ld cd : Int) (o : Adjust.Range) (os : List Adjust.Range)
    (h1 : posLt o.start a.stop = false) : Adjust.inner a ld cd o os = .ok ([], some (o, os)) := by
  cases os <;> simp only [Adjust.inner, h1, Bool.false_eq_true, ↓reduceIte]

theorem inner_err (a : Adjust.Range) (ld cd : Int) (o : Adjust.Range) (os : List Adjust.Range) (e : Err)
    (h1 : posLt o.start a.stop = true) (h2 : Adjust.emit a o ld cd = .error e) :
    Adjust.inner a ld cd o os = .error e := by
  cases os <;> simp only [Adjust.inner, h1, h2, ↓reduceIte]

theorem inner_done (a : Adjust.Range) (ld cd : Int) (o : Adjust.Range) (os : List Adjust.Range) (t : Tok)
    (h1 : posLt o.start a.stop = true) (h2 : Adjust.emit a o ld cd = .ok t) (h3 : posLe a.stop o.stop = true) :
    Adjust.inner a ld cd o os = .ok ([t], some (o, os)) := by
  cases os <;> simp only [Adjust.inner, h1, h2, h3, ↓reduceIte]

theorem inner_brk (a : Adjust.Range) (ld cd : Int) (o : Adjust.Range) (t : Tok)
    (h1 : posLt o.start a.stop = true) (h2 : Adjust.emit a o ld cd = .ok t) (h3 : posLe a.stop o.stop = false) :
    Adjust.inner a ld cd o [] = .ok ([t], none) := by
  simp only [Adjust.inner, h1, h2, h3, Bool.false_eq_true, ↓reduceIte]

theorem inner_next (a : Adjust.Range) (ld cd : Int) (o o' : Adjust.Range) (os : List Adjust.Range) (t : Tok)
    (h1 : posLt o.start a.stop = true) (h2 : Adjust.emit a o ld cd = .ok t) (h3 : posLe a.stop o.stop = false) :
    Adjust.inner a ld cd o (o' :: os) =
      (match Adjust.inner a ld cd o' os with
        | .error e => .error e
        | .ok (ts, st) => .ok (t :: ts, st)) := by
  simp only [Adjust.inner, h1, h2, h3, Bool.false_eq_true, ↓reduceIte]
  cases Adjust.inner a ld cd o' os with
  | error e => rfl
  | ok p => cases p; rfl

/-- what the overlap loop returns, against the model's `inner` -/
def Loop3Rel (self : SourceMap) (o : GRange) (os : List GRange) :
    Res (List Tok × Option (Adjust.Range × List Adjust.Range)) →
    Res (ExitB SourceMap (SourceMap × List GRange × GRange)) → Prop
  | .error e, g => g = .error e
  | .ok (ts, none), g =>
    ∃ ts' os' o', g = .ok (.brk ({ self with tokens := self.tokens ++ ts' }, os', o')) ∧ ts'.map toTok = ts
  | .ok (ts, some (mo, mos)), g =>
    ∃ ts' o1 os1, g = .ok (.done ({ self with tokens := self.tokens ++ ts' }, os1, o1)) ∧ ts'.map toTok = ts ∧
      toRange o1 = mo ∧ os1.map toRange = mos ∧ os1.length ≤ os.length ∧ ∀ r ∈ o1 :: os1, r ∈ o :: os

theorem self_append_nil (self : SourceMap) : { self with tokens := self.tokens ++ [] } = self := by
  cases self
  simp only [List.append_nil]

theorem self_append_cons (self : SourceMap) (t : RawToken) (ts : List RawToken) :
    { ({ self with tokens := self.tokens ++ [t] } : SourceMap) with
        tokens := ({ self with tokens := self.tokens ++ [t] } : SourceMap).tokens ++ ts } =
      { self with tokens := self.tokens ++ (t :: ts) } := by
  cases self
  simp only [List.append_assoc, List.singleton_append]

theorem loop3_spec (a : GRange) (ld cd : Int) (ha : RangeU32 a) :
    ∀ (os : List GRange) (fuel : Nat) (o : GRange) (self : SourceMap), os.length < fuel →
      (∀ r ∈ o :: os, RangeU32 r) →
      Loop3Rel self o os (Adjust.inner (toRange a) ld cd (toRange o) (os.map toRange))
        (SourceMap.adjust_mappings.loop3 a ld cd fuel self os o) := by
  intro os
  induction os with
  | nil =>
    intro fuel o self hf hu
    have ho : RangeU32 o := hu o List.mem_cons_self
    cases fuel with
    | zero => exact absurd hf (Nat.lt_irrefl 0)
    | succ f =>
      have hc1 : posLt (toRange o).start (toRange a).stop = ltPair o.start a.end_ := by
        rw [toRange_start, toRange_stop, ltPair_eq_posLt]
      have hc3 : posLe (toRange a).stop (toRange o).stop = !ltPair o.end_ a.end_ := by
        rw [toRange_stop, toRange_stop, posLe_eq_not_ltPair]
      rw [List.map_nil]
      cases h1 : ltPair o.start a.end_ with
      | false =>
        rw [inner_stop _ _ _ _ _ (hc1.trans h1), loop3_stop a ld cd f self [] o h1]
        simp only [Loop3Rel]
        exact ⟨[], o, [], by rw [self_append_nil], rfl, rfl, rfl, Nat.le_refl _, fun r hr => hr⟩
      | true =>
        by_cases hl : InI32 (wrapS 32 (((ovStart a o).1 : Nat) : Int) + ld)
        · by_cases hc : InI32 (wrapS 32 (((ovStart a o).2 : Nat) : Int) + cd)
          · cases he : ltPair o.end_ a.end_ with
            | false =>
              rw [inner_done _ _ _ _ _ _ (hc1.trans h1) (emit_ok a o ld cd ha ho hl hc)
                (by rw [hc3, he]; rfl), loop3_done a ld cd f self [] o h1 hl hc he]
              simp only [Loop3Rel]
              exact ⟨[emitTok a o ld cd], o, [], rfl, rfl, rfl, rfl, Nat.le_refl _, fun r hr => hr⟩
            | true =>
              rw [inner_brk _ _ _ _ _ (hc1.trans h1) (emit_ok a o ld cd ha ho hl hc)
                (by rw [hc3, he]; rfl), loop3_brk a ld cd f self o h1 hl hc he]
              simp only [Loop3Rel]
              exact ⟨[emitTok a o ld cd], [], o, rfl, rfl⟩
          · rw [inner_err _ _ _ _ _ _ (hc1.trans h1) (emit_col_err a o ld cd ha ho hl hc),
              loop3_col_err a ld cd f self [] o h1 hl hc]
            simp only [Loop3Rel]
        · rw [inner_err _ _ _ _ _ _ (hc1.trans h1) (emit_line_err a o ld cd ha ho hl),
            loop3_line_err a ld cd f self [] o h1 hl]
          simp only [Loop3Rel]
  | cons o' rest ih =>
    intro fuel o self hf hu
    have ho : RangeU32 o := hu o List.mem_cons_self
    cases fuel with
    | zero => exact absurd hf (Nat.not_lt_zero _)
    | succ f =>
      have hc1 : posLt (toRange o).start (toRange a).stop = ltPair o.start a.end_ := by
        rw [toRange_start, toRange_stop, ltPair_eq_posLt]
      have hc3 : posLe (toRange a).stop (toRange o).stop = !ltPair o.end_ a.end_ := by
        rw [toRange_stop, toRange_stop, posLe_eq_not_ltPair]
      rw [List.map_cons]
      cases h1 : ltPair o.start a.end_ with
      | false =>
        rw [inner_stop _ _ _ _ _ (hc1.trans h1), loop3_stop a ld cd f self (o' :: rest) o h1]
        simp only [Loop3Rel]
        exact ⟨[], o, o' :: rest, by rw [self_append_nil], rfl, rfl, rfl, Nat.le_refl _, fun r hr => hr⟩
      | true =>
        by_cases hl : InI32 (wrapS 32 (((ovStart a o).1 : Nat) : Int) + ld)
        · by_cases hc : InI32 (wrapS 32 (((ovStart a o).2 : Nat) : Int) + cd)
          · cases he : ltPair o.end_ a.end_ with
            | false =>
              rw [inner_done _ _ _ _ _ _ (hc1.trans h1) (emit_ok a o ld cd ha ho hl hc)
                (by rw [hc3, he]; rfl), loop3_done a ld cd f self (o' :: rest) o h1 hl hc he]
              simp only [Loop3Rel]
              exact ⟨[emitTok a o ld cd], o, o' :: rest, rfl, rfl, rfl, rfl, Nat.le_refl _, fun r hr => hr⟩
            | true =>
              rw [inner_next _ _ _ _ _ _ _ (hc1.trans h1) (emit_ok a o ld cd ha ho hl hc)
                (by rw [hc3, he]; rfl), loop3_next a ld cd f self o' rest o h1 hl hc he]
              have hrec := ih f o' { self with tokens := self.tokens ++ [emitTok a o ld cd] }
                (by simp only [List.length_cons] at hf; omega)
                (fun r hr => hu r (List.mem_cons_of_mem _ hr))
              generalize Adjust.inner (toRange a) ld cd (toRange o') (rest.map toRange) = R at hrec ⊢
              generalize SourceMap.adjust_mappings.loop3 a ld cd f
                { self with tokens := self.tokens ++ [emitTok a o ld cd] } rest o' = G at hrec ⊢
              match R, hrec with
              | .error e, hrec => exact hrec
              | .ok (ts, none), hrec =>
                simp only [Loop3Rel] at hrec ⊢
                obtain ⟨ts', os', o'', h2, h3⟩ := hrec
                refine ⟨emitTok a o ld cd :: ts', os', o'', ?_, ?_⟩
                · rw [h2, self_append_cons]
                · rw [List.map_cons, h3]
              | .ok (ts, some (mo, mos)), hrec =>
                simp only [Loop3Rel] at hrec ⊢
                obtain ⟨ts', o1, os1, h2, h3, h4, h5, h6, h7⟩ := hrec
                refine ⟨emitTok a o ld cd :: ts', o1, os1, ?_, ?_, h4, h5, ?_, ?_⟩
                · rw [h2, self_append_cons]
                · rw [List.map_cons, h3]
                · simp only [List.length_cons]; omega
                · intro r hr; exact List.mem_cons_of_mem _ (h7 r hr)
          · rw [inner_err _ _ _ _ _ _ (hc1.trans h1) (emit_col_err a o ld cd ha ho hl hc),
              loop3_col_err a ld cd f self (o' :: rest) o h1 hl hc]
            simp only [Loop3Rel]
        · rw [inner_err _ _ _ _ _ _ (hc1.trans h1) (emit_line_err a o ld cd ha ho hl),
            loop3_line_err a ld cd f self (o' :: rest) o h1 hl]
          simp only [Loop3Rel]

/-! #### the outer loop (`loop1`), one iteration, case by case -/

theorem loop1_nil (fuel : Nat) (os : List GRange) (o : GRange) (self : SourceMap) :
    SourceMap.adjust_mappings.loop1 fuel [] os o self = .ok (os, o, self) := by
  rw [SourceMap.adjust_mappings.loop1]

theorem loop1_line_err (fuel : Nat) (a : GRange) (as os : List GRange) (o : GRange) (self : SourceMap)
    (hl : ¬ InI32 (lineDiff a)) :
    SourceMap.adjust_mappings.loop1 fuel (a :: as) os o self = .error .panic := by
  rw [SourceMap.adjust_mappings.loop1]
  unfold InI32 lineDiff at hl
  simp only [hl, ↓reduceIte]

theorem loop1_col_err (fuel : Nat) (a : GRange) (as os : List GRange) (o : GRange) (self : SourceMap)
    (hl : InI32 (lineDiff a)) (hc : ¬ InI32 (colDiff a)) :
    SourceMap.adjust_mappings.loop1 fuel (a :: as) os o self = .error .panic := by
  rw [SourceMap.adjust_mappings.loop1]
  unfold InI32 lineDiff at hl
  unfold InI32 colDiff at hc
  simp only [hl, hc, and_self, ↓reduceIte]

theorem loop1_brk2 (fuel : Nat) (a : GRange) (as os : List GRange) (o : GRange) (self : SourceMap)
    (hl : InI32 (lineDiff a)) (hc : InI32 (colDiff a)) (os' : List GRange) (o' : GRange) (s' : SourceMap)
    (h2 : SourceMap.adjust_mappings.loop2 a fuel os o self = .ok (.brk (os', o', s'))) :
    SourceMap.adjust_mappings.loop1 fuel (a :: as) os o self = .ok (os', o', s') := by
  rw [SourceMap.adjust_mappings.loop1]
  unfold InI32 lineDiff at hl
  unfold InI32 colDiff at hc
  simp only [hl, hc, and_self, ↓reduceIte, h2]

theorem loop1_err3 (fuel : Nat) (a : GRange) (as os : List GRange) (o : GRange) (self : SourceMap)
    (hl : InI32 (lineDiff a)) (hc : InI32 (colDiff a)) (os1 : List GRange) (o1 : GRange) (s1 : SourceMap)
    (h2 : SourceMap.adjust_mappings.loop2 a fuel os o self = .ok (.done (os1, o1, s1))) (e : Err)
    (h3 : SourceMap.adjust_mappings.loop3 a (lineDiff a) (colDiff a) fuel s1 os1 o1 = .error e) :
    SourceMap.adjust_mappings.loop1 fuel (a :: as) os o self = .error e := by
  rw [SourceMap.adjust_mappings.loop1]
  unfold InI32 lineDiff at hl
  unfold InI32 colDiff at hc
  unfold lineDiff colDiff at h3
  simp only [hl, hc, and_self, ↓reduceIte, h2, h3]

theorem loop1_brk3 (fuel : Nat) (a : GRange) (as os : List GRange) (o : GRange) (self : SourceMap)
    (hl : InI32 (lineDiff a)) (hc : InI32 (colDiff a)) (os1 : List GRange) (o1 : GRange) (s1 : SourceMap)
    (h2 : SourceMap.adjust_mappings.loop2 a fuel os o self = .ok (.done (os1, o1, s1)))
    (os' : List GRange) (o' : GRange) (s' : SourceMap)
    (h3 : SourceMap.adjust_mappings.loop3 a (lineDiff a) (colDiff a) fuel s1 os1 o1 = .ok (.brk (s', os', o'))) :
    SourceMap.adjust_mappings.loop1 fuel (a :: as) os o self = .ok (os', o', s') := by
  rw [SourceMap.adjust_mappings.loop1]
  unfold InI32 lineDiff at hl
  unfold InI32 colDiff at hc
  unfold lineDiff colDiff at h3
  simp only [hl, hc, and_self, ↓reduceIte, h2, h3]

theorem loop1_next (fuel : Nat) (a : GRange) (as os : List GRange) (o : GRange) (self : SourceMap)
    (hl : InI32 (lineDiff a)) (hc : InI32 (colDiff a)) (os1 : List GRange) (o1 : GRange) (s1 : SourceMap)
    (h2 : SourceMap.adjust_mappings.loop2 a fuel os o self = .ok (.done (os1, o1, s1)))
    (os2 : List GRange) (o2 : GRange) (s2 : SourceMap)
    (h3 : SourceMap.adjust_mappings.loop3 a (lineDiff a) (colDiff a) fuel s1 os1 o1 = .ok (.done (s2, os2, o2))) :
    SourceMap.adjust_mappings.loop1 fuel (a :: as) os o self =
      SourceMap.adjust_mappings.loop1 fuel as os2 o2 s2 := by
  rw [SourceMap.adjust_mappings.loop1]
  unfold InI32 lineDiff at hl
  unfold InI32 colDiff at hc
  unfold lineDiff colDiff at h3
  simp only [hl, hc, and_self, ↓reduceIte, h2, h3]

/-! #### the model's `sweep`, one iteration, case by case -/

theorem sweep_diffs_err (o : Adjust.Range) (os : List Adjust.Range) (a : Adjust.Range) (as : List Adjust.Range)
    (e : Err) (hd : Adjust.diffs a = .error e) : Adjust.sweep o os (a :: as) = .error e := by
  simp only [Adjust.sweep, hd]

theorem sweep_skip_none (o : Adjust.Range) (os : List Adjust.Range) (a : Adjust.Range) (as : List Adjust.Range)
    (ld cd : Int) (hd : Adjust.diffs a = .ok (ld, cd)) (hs : Adjust.skip a o os = none) :
    Adjust.sweep o os (a :: as) = .ok [] := by
  simp only [Adjust.sweep, hd, hs]

theorem sweep_inner_err (o : Adjust.Range) (os : List Adjust.Range) (a : Adjust.Range) (as : List Adjust.Range)
    (ld cd : Int) (hd : Adjust.diffs a = .ok (ld, cd)) (o1 : Adjust.Range) (os1 : List Adjust.Range)
    (hs : Adjust.skip a o os = some (o1, os1)) (e : Err) (hi : Adjust.inner a ld cd o1 os1 = .error e) :
    Adjust.sweep o os (a :: as) = .error e := by
  simp only [Adjust.sweep, hd, hs, hi]

theorem sweep_inner_brk (o : Adjust.Range) (os : List Adjust.Range) (a : Adjust.Range) (as : List Adjust.Range)
    (ld cd : Int) (hd : Adjust.diffs a = .ok (ld, cd)) (o1 : Adjust.Range) (os1 : List Adjust.Range)
    (hs : Adjust.skip a o os = some (o1, os1)) (ts : List Tok) (hi : Adjust.inner a ld cd o1 os1 = .ok (ts, none)) :
    Adjust.sweep o os (a :: as) = .ok ts := by
  simp only [Adjust.sweep, hd, hs, hi]

theorem sweep_next (o : Adjust.Range) (os : List Adjust.Range) (a : Adjust.Range) (as : List Adjust.Range)
    (ld cd : Int) (hd : Adjust.diffs a = .ok (ld, cd)) (o1 : Adjust.Range) (os1 : List Adjust.Range)
    (hs : Adjust.skip a o os = some (o1, os1)) (ts : List Tok) (o2 : Adjust.Range) (os2 : List Adjust.Range)
    (hi : Adjust.inner a ld cd o1 os1 = .ok (ts, some (o2, os2))) :
    Adjust.sweep o os (a :: as) =
      (match Adjust.sweep o2 os2 as with
        | .error e => .error e
        | .ok rest => .ok (ts ++ rest)) := by
  simp only [Adjust.sweep, hd, hs, hi]
  cases Adjust.sweep o2 os2 as with
  | error e => rfl
  | ok p => rfl

/-- what the outer loop returns (its third component, the map), against the model's `sweep` -/
def Loop1Rel (self : SourceMap) : Res (List Tok) → Res (List GRange × GRange × SourceMap) → Prop
  | .error e, g => g = .error e
  | .ok ts, g => ∃ ts' os' o', g = .ok (os', o', { self with tokens := self.tokens ++ ts' }) ∧ ts'.map toTok = ts

theorem self_append_append (self : SourceMap) (ts us : List RawToken) :
    { ({ self with tokens := self.tokens ++ ts } : SourceMap) with
        tokens := ({ self with tokens := self.tokens ++ ts } : SourceMap).tokens ++ us } =
      { self with tokens := self.tokens ++ (ts ++ us) } := by
  cases self
  simp only [List.append_assoc]

theorem loop1_spec : ∀ (as : List GRange) (fuel : Nat) (os : List GRange) (o : GRange) (self : SourceMap),
    os.length < fuel → (∀ a ∈ as, RangeU32 a ∧ TokU32 a.value) → (∀ r ∈ o :: os, RangeU32 r) →
    Loop1Rel self (Adjust.sweep (toRange o) (os.map toRange) (as.map toRange))
      (SourceMap.adjust_mappings.loop1 fuel as os o self) := by
  intro as
  induction as with
  | nil =>
    intro fuel os o self _ _ _
    rw [loop1_nil, List.map_nil, Adjust.sweep]
    simp only [Loop1Rel]
    exact ⟨[], os, o, by rw [self_append_nil], rfl⟩
  | cons a as ih =>
    intro fuel os o self hf hA hu
    have haU := hA a List.mem_cons_self
    rw [List.map_cons]
    by_cases hl : InI32 (lineDiff a)
    · by_cases hc : InI32 (colDiff a)
      · have hd := diffs_ok a haU.2 hl hc
        have h2 := loop2_spec a self os fuel o hf
        rcases hR2 : Adjust.skip (toRange a) (toRange o) (os.map toRange) with _ | ⟨mo, mos⟩
        · rw [hR2] at h2
          simp only [Loop2Rel] at h2
          obtain ⟨os', o', hG2⟩ := h2
          rw [sweep_skip_none _ _ _ _ _ _ hd hR2, loop1_brk2 fuel a as os o self hl hc os' o' self hG2]
          simp only [Loop1Rel]
          exact ⟨[], os', o', by rw [self_append_nil], rfl⟩
        · rw [hR2] at h2
          simp only [Loop2Rel] at h2
          obtain ⟨o1, os1, hG2, hmo, hmos, hlen, hsub⟩ := h2
          subst hmo hmos
          have h3 := loop3_spec a (lineDiff a) (colDiff a) haU.1 os1 fuel o1 self (by omega)
            (fun r hr => hu r (hsub r hr))
          rcases hR3 : Adjust.inner (toRange a) (lineDiff a) (colDiff a) (toRange o1) (os1.map toRange)
            with e | ⟨ts, _ | ⟨mo2, mos2⟩⟩
          · rw [hR3] at h3
            simp only [Loop3Rel] at h3
            rw [sweep_inner_err _ _ _ _ _ _ hd _ _ hR2 e hR3,
              loop1_err3 fuel a as os o self hl hc os1 o1 self hG2 e h3]
            simp only [Loop1Rel]
          · rw [hR3] at h3
            simp only [Loop3Rel] at h3
            obtain ⟨ts', os', o', hG3, hts⟩ := h3
            rw [sweep_inner_brk _ _ _ _ _ _ hd _ _ hR2 ts hR3,
              loop1_brk3 fuel a as os o self hl hc os1 o1 self hG2 os' o' _ hG3]
            simp only [Loop1Rel]
            exact ⟨ts', os', o', rfl, hts⟩
          · rw [hR3] at h3
            simp only [Loop3Rel] at h3
            obtain ⟨ts', o2, os2, hG3, hts, hmo2, hmos2, hlen2, hsub2⟩ := h3
            subst hmo2 hmos2
            rw [sweep_next _ _ _ _ _ _ hd _ _ hR2 ts _ _ hR3,
              loop1_next fuel a as os o self hl hc os1 o1 self hG2 os2 o2 _ hG3]
            have hrec := ih fuel os2 o2 { self with tokens := self.tokens ++ ts' } (by omega)
              (fun b hb => hA b (List.mem_cons_of_mem _ hb))
              (fun r hr => hu r (hsub r (hsub2 r hr)))
            rcases hR1 : Adjust.sweep (toRange o2) (os2.map toRange) (as.map toRange) with e | rest
            · rw [hR1] at hrec
              simp only [Loop1Rel] at hrec ⊢
              exact hrec
            · rw [hR1] at hrec
              simp only [Loop1Rel] at hrec ⊢
              obtain ⟨ts'', os', o', hG1, hts''⟩ := hrec
              refine ⟨ts' ++ ts'', os', o', ?_, ?_⟩
              · rw [hG1, self_append_append]
              · rw [List.map_append, hts, hts'']
      · rw [sweep_diffs_err _ _ _ _ _ (diffs_col_err a haU.2 hl hc), loop1_col_err fuel a as os o self hl hc]
        simp only [Loop1Rel]
    · rw [sweep_diffs_err _ _ _ _ _ (diffs_line_err a haU.2 hl), loop1_line_err fuel a as os o self hl]
      simp only [Loop1Rel]

/-! #### the function -/

/-- **adjust_mappings**, tokens and names together.  For source maps whose coordinates are `u32` (the Rust types;
needed of the generated positions of `sm` and of all four coordinates of `adj`), with more fuel than either map has
tokens: the translated `adjust_mappings` returns a map whose tokens, converted field by field, are the model's
`adjustToks`, and whose `names` are those of `sm`; it fails (`.error .panic`: overflow of the `i32` displacement
arithmetic) exactly when the model does.  No hypothesis on order, duplicates or the size of the coordinates. -/
theorem tie_adjust_mappings_full (sm adj : SourceMap)
    (hsm : ∀ t ∈ sm.tokens, t.dst_line < 4294967296 ∧ t.dst_col < 4294967296)
    (hadj : ∀ t ∈ adj.tokens, TokU32 t)
    (fuel : Nat) (hf1 : sm.tokens.length < fuel) (hf2 : adj.tokens.length < fuel) :
    (SourceMap.adjust_mappings fuel sm adj).map (fun m => (m.tokens.map toTok, m.names)) =
      (Adjust.adjustToks (sm.tokens.map toTok) (adj.tokens.map toTok)).map (fun ts => (ts, sm.names)) := by
  obtain ⟨ors, hO1, hO2, hO3, hO4⟩ := create_ranges_spec sm.tokens (fun t => (t.dst_line, t.dst_col))
    Adjust.dstKey (fun _ => rfl) fuel hf1
  obtain ⟨ars, hA1, hA2, _, hA4⟩ := create_ranges_spec adj.tokens (fun t => (t.src_line, t.src_col))
    Adjust.srcKey (fun _ => rfl) fuel hf2
  unfold SourceMap.adjust_mappings Adjust.adjustToks
  simp only [hO1, hA1]
  rw [← hO2, ← hA2]
  cases ors with
  | nil => rfl
  | cons o os =>
    simp only [List.head?_cons, List.tail_cons, List.map_cons]
    have hlen : os.length < fuel := by
      simp only [List.length_cons] at hO3
      omega
    have hA : ∀ a ∈ ars, RangeU32 a ∧ TokU32 a.value := by
      intro a ha
      have hv := hadj a.value (hA4 a ha).1
      refine ⟨?_, hv⟩
      unfold RangeU32
      rw [(hA4 a ha).2]
      exact ⟨hv.2.2.1, hv.2.2.2⟩
    have hu : ∀ r ∈ o :: os, RangeU32 r := by
      intro r hr
      unfold RangeU32
      rw [(hO4 r hr).2]
      exact hsm r.value (hO4 r hr).1
    have h1 := loop1_spec ars fuel os o { sm with tokens := [] } hlen hA hu
    rcases hR : Adjust.sweep (toRange o) (os.map toRange) (ars.map toRange) with e | ts
    · rw [hR] at h1
      simp only [Loop1Rel] at h1
      simp only [h1]
      rfl
    · rw [hR] at h1
      simp only [Loop1Rel] at h1
      obtain ⟨ts', os', o', hG, hts⟩ := h1
      simp only [hG, Except.map, List.nil_append, tie_sort_toks, hts]

/-- **adjust_mappings**: the tokens of the result are the model's `adjustToks` (with the same panics) -/
theorem tie_adjust_mappings (sm adj : SourceMap)
    (hsm : ∀ t ∈ sm.tokens, t.dst_line < 4294967296 ∧ t.dst_col < 4294967296)
    (hadj : ∀ t ∈ adj.tokens, TokU32 t)
    (fuel : Nat) (hf1 : sm.tokens.length < fuel) (hf2 : adj.tokens.length < fuel) :
    (SourceMap.adjust_mappings fuel sm adj).map (fun m => m.tokens.map toTok) =
      Adjust.adjustToks (sm.tokens.map toTok) (adj.tokens.map toTok) := by
  have h := tie_adjust_mappings_full sm adj hsm hadj fuel hf1 hf2
  cases hG : SourceMap.adjust_mappings fuel sm adj with
  | error e =>
    rw [hG] at h
    cases hM : Adjust.adjustToks (sm.tokens.map toTok) (adj.tokens.map toTok) with
    | error e' =>
      rw [hM] at h
      simp only [Except.map, Except.error.injEq] at h ⊢
      exact h
    | ok ts => rw [hM] at h; simp only [Except.map, reduceCtorEq] at h
  | ok m =>
    rw [hG] at h
    cases hM : Adjust.adjustToks (sm.tokens.map toTok) (adj.tokens.map toTok) with
    | error e' => rw [hM] at h; simp only [Except.map, reduceCtorEq] at h
    | ok ts =>
      rw [hM] at h
      simp only [Except.map, Except.ok.injEq, Prod.mk.injEq] at h ⊢
      exact h.1

/-- **adjust_mappings** leaves `names` alone -/
theorem tie_adjust_mappings_names (sm adj : SourceMap)
    (hsm : ∀ t ∈ sm.tokens, t.dst_line < 4294967296 ∧ t.dst_col < 4294967296)
    (hadj : ∀ t ∈ adj.tokens, TokU32 t)
    (fuel : Nat) (hf1 : sm.tokens.length < fuel) (hf2 : adj.tokens.length < fuel) (m : SourceMap)
    (hG : SourceMap.adjust_mappings fuel sm adj = .ok m) : m.names = sm.names := by
  have h := tie_adjust_mappings_full sm adj hsm hadj fuel hf1 hf2
  rw [hG] at h
  cases hM : Adjust.adjustToks (sm.tokens.map toTok) (adj.tokens.map toTok) with
  | error e' => rw [hM] at h; simp only [Except.map, reduceCtorEq] at h
  | ok ts =>
    rw [hM] at h
    simp only [Except.map, Except.ok.injEq, Prod.mk.injEq] at h
    exact h.2

/-- with too little fuel for the tokens of `sm` the translated function reports divergence -/
theorem tie_adjust_mappings_diverge (sm adj : SourceMap) (fuel : Nat) (hf : fuel ≤ sm.tokens.length) :
    SourceMap.adjust_mappings fuel sm adj = .error .diverge := by
  unfold SourceMap.adjust_mappings
  simp only [tie_create_ranges_diverge sm.tokens _ fuel hf]

/-- the model's outcomes read back on the code: success -/
theorem tie_adjust_mappings_ok (sm adj : SourceMap)
    (hsm : ∀ t ∈ sm.tokens, t.dst_line < 4294967296 ∧ t.dst_col < 4294967296)
    (hadj : ∀ t ∈ adj.tokens, TokU32 t)
    (fuel : Nat) (hf1 : sm.tokens.length < fuel) (hf2 : adj.tokens.length < fuel) (ts : List Tok)
    (hM : Adjust.adjustToks (sm.tokens.map toTok) (adj.tokens.map toTok) = .ok ts) :
    ∃ m, SourceMap.adjust_mappings fuel sm adj = .ok m ∧ m.tokens.map toTok = ts ∧ m.names = sm.names := by
  have h := tie_adjust_mappings_full sm adj hsm hadj fuel hf1 hf2
  rw [hM] at h
  cases hG : SourceMap.adjust_mappings fuel sm adj with
  | error e => rw [hG] at h; simp only [Except.map, reduceCtorEq] at h
  | ok m =>
    rw [hG] at h
    simp only [Except.map, Except.ok.injEq, Prod.mk.injEq] at h
    exact ⟨m, rfl, h.1, h.2⟩

/-- the model's outcomes read back on the code: failure (the `i32` overflow panic) -/
theorem tie_adjust_mappings_error (sm adj : SourceMap)
    (hsm : ∀ t ∈ sm.tokens, t.dst_line < 4294967296 ∧ t.dst_col < 4294967296)
    (hadj : ∀ t ∈ adj.tokens, TokU32 t)
    (fuel : Nat) (hf1 : sm.tokens.length < fuel) (hf2 : adj.tokens.length < fuel) (e : Err) :
    SourceMap.adjust_mappings fuel sm adj = .error e ↔
      Adjust.adjustToks (sm.tokens.map toTok) (adj.tokens.map toTok) = .error e := by
  rw [← tie_adjust_mappings sm adj hsm hadj fuel hf1 hf2]
  cases SourceMap.adjust_mappings fuel sm adj with
  | error e' =>
    simp only [Except.map, Except.error.injEq]
  | ok m => simp only [Except.map, reduceCtorEq]

/-! examples -/

def exAdjO : SourceMap :=
  { (default : SmVerif.Gen.RsTypes.SourceMap) with
    tokens := [⟨9, 10, 103, 12, 1, 4294967295, true⟩, ⟨8, 40, 102, 50, 0, 1, false⟩, ⟨8, 28, 102, 35, 0, 4294967295, false⟩],
    names := [[97], [98]] }
def exAdjA : SourceMap :=
  { (default : SmVerif.Gen.RsTypes.SourceMap) with
    tokens := [⟨17, 23, 8, 30, 0, 4294967295, false⟩, ⟨20, 0, 8, 45, 0, 4294967295, false⟩, ⟨3, 3, 9, 0, 0, 4294967295, false⟩],
    names := [] }

/-- the hypotheses of `tie_adjust_mappings` on concrete (unsorted) maps -/
example : (∀ t ∈ exAdjO.tokens, t.dst_line < 4294967296 ∧ t.dst_col < 4294967296) ∧
    (∀ t ∈ exAdjA.tokens, TokU32 t) ∧ exAdjO.tokens.length < 4 ∧ exAdjA.tokens.length < 4 := by
  unfold TokU32
  decide

/-- the two maps above through the theorem: the code computes the model's value (here stated with the model's
function; `C10`'s examples evaluate it on the sorted variant of these maps) -/
example : (SourceMap.adjust_mappings 4 exAdjO exAdjA).map (fun m => m.tokens.map toTok) =
    Adjust.adjustToks (exAdjO.tokens.map toTok) (exAdjA.tokens.map toTok) :=
  tie_adjust_mappings exAdjO exAdjA (by decide) (by unfold TokU32; decide) 4 (by decide) (by decide)

/-! ### D. the property theorems of C10 on the generated function -/

/-- small coordinates (the hypothesis of the C10 theorems) are `u32` coordinates -/
theorem tokU32_of_coordsSmall (ts : List RawToken) (h : Adjust.coordsSmall (ts.map toTok) = true) :
    ∀ t ∈ ts, TokU32 t := by
  intro t ht
  have := (Adjust.coordsSmall_iff _).mp h (toTok t) (List.mem_map_of_mem ht)
  unfold Adjust.smallTok at this
  have e1 : (toTok t).dl = t.dst_line := rfl
  have e2 : (toTok t).dc = t.dst_col := rfl
  have e3 : (toTok t).sl = t.src_line := rfl
  have e4 : (toTok t).sc = t.src_col := rfl
  rw [e1, e2, e3, e4] at this
  unfold TokU32
  omega

/-- `c10_untouched` on the code: of the fields the translation keeps, only `tokens` changes -/
theorem gen_c10_untouched (sm adj : SourceMap)
    (hsm : ∀ t ∈ sm.tokens, t.dst_line < 4294967296 ∧ t.dst_col < 4294967296)
    (hadj : ∀ t ∈ adj.tokens, TokU32 t)
    (fuel : Nat) (hf1 : sm.tokens.length < fuel) (hf2 : adj.tokens.length < fuel) (m : SourceMap)
    (h : SourceMap.adjust_mappings fuel sm adj = .ok m) : m.names = sm.names :=
  tie_adjust_mappings_names sm adj hsm hadj fuel hf1 hf2 m h

/-- a successful run of the code is a successful run of the model -/
theorem adjustToks_of_gen_ok (sm adj : SourceMap)
    (hsm : ∀ t ∈ sm.tokens, t.dst_line < 4294967296 ∧ t.dst_col < 4294967296)
    (hadj : ∀ t ∈ adj.tokens, TokU32 t)
    (fuel : Nat) (hf1 : sm.tokens.length < fuel) (hf2 : adj.tokens.length < fuel) (m : SourceMap)
    (h : SourceMap.adjust_mappings fuel sm adj = .ok m) :
    Adjust.adjustToks (sm.tokens.map toTok) (adj.tokens.map toTok) = .ok (m.tokens.map toTok) := by
  rw [← tie_adjust_mappings sm adj hsm hadj fuel hf1 hf2, h]
  rfl

/-- `c10_sorted` on the code: the result is ordered by generated position (all `u32` inputs) -/
theorem gen_c10_sorted (sm adj : SourceMap)
    (hsm : ∀ t ∈ sm.tokens, t.dst_line < 4294967296 ∧ t.dst_col < 4294967296)
    (hadj : ∀ t ∈ adj.tokens, TokU32 t)
    (fuel : Nat) (hf1 : sm.tokens.length < fuel) (hf2 : adj.tokens.length < fuel) (m : SourceMap)
    (h : SourceMap.adjust_mappings fuel sm adj = .ok m) : SortedByPos (m.tokens.map toTok) := by
  have hM := adjustToks_of_gen_ok sm adj hsm hadj fuel hf1 hf2 m h
  have : Adjust.adjust { tokens := sm.tokens.map toTok } { tokens := adj.tokens.map toTok } =
      .ok { tokens := m.tokens.map toTok } := by
    unfold Adjust.adjust
    simp only [hM]
  exact C10.c10_sorted _ _ _ this

/-- `c10_safe` on the code: no panic when all coordinates are below `2^30` -/
theorem gen_c10_safe (sm adj : SourceMap)
    (ho : Adjust.coordsSmall (sm.tokens.map toTok) = true) (ha : Adjust.coordsSmall (adj.tokens.map toTok) = true)
    (fuel : Nat) (hf1 : sm.tokens.length < fuel) (hf2 : adj.tokens.length < fuel) :
    ∃ m, SourceMap.adjust_mappings fuel sm adj = .ok m := by
  have hsm : ∀ t ∈ sm.tokens, t.dst_line < 4294967296 ∧ t.dst_col < 4294967296 :=
    fun t ht => ⟨(tokU32_of_coordsSmall _ ho t ht).1, (tokU32_of_coordsSmall _ ho t ht).2.1⟩
  obtain ⟨m, hm, _⟩ := tie_adjust_mappings_ok sm adj hsm (tokU32_of_coordsSmall _ ha) fuel hf1 hf2 _
    (C10.c10_exact _ _ ho ha)
  exact ⟨m, hm⟩

/-- `c10_sound` on the code -/
theorem gen_c10_sound (sm adj : SourceMap)
    (ho : Adjust.coordsSmall (sm.tokens.map toTok) = true) (ha : Adjust.coordsSmall (adj.tokens.map toTok) = true)
    (fuel : Nat) (hf1 : sm.tokens.length < fuel) (hf2 : adj.tokens.length < fuel) (m : SourceMap)
    (h : SourceMap.adjust_mappings fuel sm adj = .ok m) :
    ∀ t ∈ m.tokens.map toTok, ∃ ro ∈ Adjust.createRanges Adjust.dstKey (sm.tokens.map toTok),
      ∃ ra ∈ Adjust.createRanges Adjust.srcKey (adj.tokens.map toTok),
      ro.value ∈ sm.tokens.map toTok ∧ ra.value ∈ adj.tokens.map toTok ∧
      ro.start = Adjust.dstKey ro.value ∧ ra.start = Adjust.srcKey ra.value ∧
      posLt ro.start ra.stop = true ∧ posLt ra.start ro.stop = true ∧
      t.dl = (Adjust.posMax ro.start ra.start).1 + ra.value.dl - ra.value.sl ∧
      t.dc = (Adjust.posMax ro.start ra.start).2 + ra.value.dc - ra.value.sc ∧
      ra.value.sl ≤ (Adjust.posMax ro.start ra.start).1 ∧ ra.value.sc ≤ (Adjust.posMax ro.start ra.start).2 ∧
      t.sl = ro.value.sl ∧ t.sc = ro.value.sc ∧ t.src = ro.value.src ∧ t.name = ro.value.name ∧
      t.rng = ro.value.rng := by
  have hsm : ∀ t ∈ sm.tokens, t.dst_line < 4294967296 ∧ t.dst_col < 4294967296 :=
    fun t ht => ⟨(tokU32_of_coordsSmall _ ho t ht).1, (tokU32_of_coordsSmall _ ho t ht).2.1⟩
  exact C10.c10_sound _ _ _ ho ha
    (adjustToks_of_gen_ok sm adj hsm (tokU32_of_coordsSmall _ ha) fuel hf1 hf2 m h)

/-- `c10_eq_spec` on the code: with distinct keys on each side and small coordinates the code succeeds, its tokens
are a permutation of the specification's (both ordered by generated position), and `names` is unchanged -/
theorem gen_c10_eq_spec (sm adj : SourceMap)
    (hdo : Adjust.distinctKeys Adjust.dstKey (sm.tokens.map toTok) = true)
    (hda : Adjust.distinctKeys Adjust.srcKey (adj.tokens.map toTok) = true)
    (ho : Adjust.coordsSmall (sm.tokens.map toTok) = true) (ha : Adjust.coordsSmall (adj.tokens.map toTok) = true)
    (fuel : Nat) (hf1 : sm.tokens.length < fuel) (hf2 : adj.tokens.length < fuel) :
    ∃ m, SourceMap.adjust_mappings fuel sm adj = .ok m ∧
      (m.tokens.map toTok).Perm (Adjust.composeSpec (sm.tokens.map toTok) (adj.tokens.map toTok)) ∧
      SortedByPos (m.tokens.map toTok) ∧
      SortedByPos (Adjust.composeSpec (sm.tokens.map toTok) (adj.tokens.map toTok)) ∧
      m.names = sm.names := by
  have hsm : ∀ t ∈ sm.tokens, t.dst_line < 4294967296 ∧ t.dst_col < 4294967296 :=
    fun t ht => ⟨(tokU32_of_coordsSmall _ ho t ht).1, (tokU32_of_coordsSmall _ ho t ht).2.1⟩
  obtain ⟨ts, hM, hp, hs1, hs2⟩ := C10.c10_eq_spec _ _ hdo hda ho ha
  obtain ⟨m, hm, hts, hn⟩ := tie_adjust_mappings_ok sm adj hsm (tokU32_of_coordsSmall _ ha) fuel hf1 hf2 ts hM
  subst hts
  exact ⟨m, hm, hp, hs1, hs2, hn⟩

/-- `c10_panic_witness` on the code: the `i32` overflow panic is reached by the translated function -/
theorem gen_c10_panic_witness :
    SourceMap.adjust_mappings 2 { (default : SmVerif.Gen.RsTypes.SourceMap) with tokens := [⟨0, 2147483653, 1, 2, 0, 0, false⟩], names := [] }
      { (default : SmVerif.Gen.RsTypes.SourceMap) with tokens := [⟨0, 0, 0, 2147483648, 0, 4294967295, false⟩], names := [] } = .error .panic := by
  rw [tie_adjust_mappings_error _ _ (by decide) (by unfold TokU32; decide) 2 (by decide) (by decide)]
  exact C10.c10_panic_witness.1

/-- the hypotheses of `gen_c10_eq_spec` on the worked example of C10 -/
example : Adjust.distinctKeys Adjust.dstKey (exAdjO.tokens.map toTok) = true ∧
    Adjust.distinctKeys Adjust.srcKey (exAdjA.tokens.map toTok) = true ∧
    Adjust.coordsSmall (exAdjO.tokens.map toTok) = true ∧ Adjust.coordsSmall (exAdjA.tokens.map toTok) = true := by
  decide

/-! ### axioms -/

#print axioms tie_sort_by_key_pair
#print axioms tie_sort_by_key_dst
#print axioms tie_sort_by_key_src
#print axioms tie_create_ranges
#print axioms tie_create_ranges_diverge
#print axioms tie_adjust_mappings_full
#print axioms tie_adjust_mappings
#print axioms tie_adjust_mappings_names
#print axioms tie_adjust_mappings_ok
#print axioms tie_adjust_mappings_error
#print axioms tie_adjust_mappings_diverge
#print axioms gen_c10_untouched
#print axioms gen_c10_sorted
#print axioms gen_c10_safe
#print axioms gen_c10_sound
#print axioms gen_c10_eq_spec
#print axioms gen_c10_panic_witness

end SmVerif.Tie
