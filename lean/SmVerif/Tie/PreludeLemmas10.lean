import SmVerif.Rs.Prelude
/-
General lemmas about the string mirrors of the prelude used by the tie unit "SourceView"
(sourceview.rs): `rsChars`, `rsLenUtf8`, `rsLenUtf16`, `rsIsCharBoundary`, `rsStrGet`.
Self-contained (imports neither PreludeLemmas.lean nor PreludeLemmas2.lean); names are specific to
these operations, so they do not clash with the other PreludeLemmas*.lean.
-/
namespace SmVerif.Rs
open SmVerif

/-! ### `rsLenUtf8`, `rsLenUtf16` -/

theorem rsLenUtf8_pos (c : Nat) : 1 ≤ rsLenUtf8 c := by
  unfold rsLenUtf8; split <;> (try split) <;> (try split) <;> omega

theorem rsLenUtf8_le_four (c : Nat) : rsLenUtf8 c ≤ 4 := by
  unfold rsLenUtf8; split <;> (try split) <;> (try split) <;> omega

theorem rsLenUtf8_lt_2048 (c : Nat) (h : c < 2048) : rsLenUtf8 c ≤ 2 := by
  unfold rsLenUtf8; split <;> (try split) <;> (try split) <;> omega

theorem rsLenUtf8_lt_65536 (c : Nat) (h : c < 65536) : rsLenUtf8 c ≤ 3 := by
  unfold rsLenUtf8; split <;> (try split) <;> (try split) <;> omega

theorem rsLenUtf16_pos (c : Nat) : 1 ≤ rsLenUtf16 c := by
  unfold rsLenUtf16; split <;> omega

theorem rsLenUtf16_le_two (c : Nat) : rsLenUtf16 c ≤ 2 := by
  unfold rsLenUtf16; split <;> omega

/-- a character never has more UTF-16 code units than UTF-8 bytes -/
theorem rsLenUtf16_le_rsLenUtf8 (c : Nat) : rsLenUtf16 c ≤ rsLenUtf8 c := by
  unfold rsLenUtf16 rsLenUtf8
  by_cases h1 : c < 128
  · have h2 : c < 65536 := by omega
    simp only [h1, h2, ↓reduceIte]; omega
  · by_cases h2 : c < 2048
    · have h3 : c < 65536 := by omega
      simp only [h1, h2, h3, ↓reduceIte]; omega
    · by_cases h3 : c < 65536
      · simp only [h1, h2, h3, ↓reduceIte]; omega
      · simp only [h1, h2, h3, ↓reduceIte]; omega

/-- total `len_utf8` of a list of characters (the final value of `off` when all are skipped) -/
def rsSumLen8 : List Nat → Nat
  | [] => 0
  | c :: cs => rsLenUtf8 c + rsSumLen8 cs

/-- total `len_utf16` of a list of characters -/
def rsSumLen16 : List Nat → Nat
  | [] => 0
  | c :: cs => rsLenUtf16 c + rsSumLen16 cs

@[simp] theorem rsSumLen8_nil : rsSumLen8 [] = 0 := rfl
@[simp] theorem rsSumLen8_cons (c : Nat) (cs : List Nat) : rsSumLen8 (c :: cs) = rsLenUtf8 c + rsSumLen8 cs := rfl
@[simp] theorem rsSumLen16_nil : rsSumLen16 [] = 0 := rfl
@[simp] theorem rsSumLen16_cons (c : Nat) (cs : List Nat) :
    rsSumLen16 (c :: cs) = rsLenUtf16 c + rsSumLen16 cs := rfl

theorem rsSumLen16_le_rsSumLen8 (cs : List Nat) : rsSumLen16 cs ≤ rsSumLen8 cs := by
  induction cs with
  | nil => exact Nat.le_refl _
  | cons c cs ih =>
    have := rsLenUtf16_le_rsLenUtf8 c
    simp only [rsSumLen8_cons, rsSumLen16_cons]; omega

theorem rsSumLen8_le (cs : List Nat) : rsSumLen8 cs ≤ 4 * cs.length := by
  induction cs with
  | nil => exact Nat.le_refl _
  | cons c cs ih =>
    have := rsLenUtf8_le_four c
    simp only [rsSumLen8_cons, List.length_cons]; omega

theorem rsSumLen16_le (cs : List Nat) : rsSumLen16 cs ≤ 2 * cs.length := by
  induction cs with
  | nil => exact Nat.le_refl _
  | cons c cs ih =>
    have := rsLenUtf16_le_two c
    simp only [rsSumLen16_cons, List.length_cons]; omega

/-! ### `rsChars` -/

@[simp] theorem rsChars_nil : rsChars [] = [] := by rw [rsChars]

theorem rsChars_cons (b : Nat) (bs : List Nat) :
    rsChars (b :: bs) =
      if b < 128 then b :: rsChars bs
      else if b < 224 then ((b % 32) * 64 + (bs.headD 0) % 64) :: rsChars (bs.drop 1)
      else if b < 240 then
        ((b % 16) * 4096 + ((bs.headD 0) % 64) * 64 + (bs.getD 1 0) % 64) :: rsChars (bs.drop 2)
      else ((b % 8) * 262144 + ((bs.headD 0) % 64) * 4096 + ((bs.getD 1 0) % 64) * 64 + (bs.getD 2 0) % 64)
            :: rsChars (bs.drop 3) := by
  rw [rsChars]

/-- every character consumes at least one byte -/
theorem rsChars_length_le : ∀ (n : Nat) (s : List Nat), s.length ≤ n → (rsChars s).length ≤ s.length := by
  intro n
  induction n with
  | zero =>
    intro s hs
    have : s = [] := List.eq_nil_of_length_eq_zero (by omega)
    subst this; simp
  | succ n ih =>
    intro s hs
    cases s with
    | nil => simp
    | cons b bs =>
      simp only [List.length_cons] at hs
      rw [rsChars_cons]
      have h0 := ih bs (by omega)
      have h1 := ih (bs.drop 1) (by simp only [List.length_drop]; omega)
      have h2 := ih (bs.drop 2) (by simp only [List.length_drop]; omega)
      have h3 := ih (bs.drop 3) (by simp only [List.length_drop]; omega)
      simp only [List.length_drop] at h1 h2 h3
      split
      · simp only [List.length_cons]; omega
      · split
        · simp only [List.length_cons]; omega
        · split
          · simp only [List.length_cons]; omega
          · simp only [List.length_cons]; omega

theorem rsChars_length (s : List Nat) : (rsChars s).length ≤ s.length :=
  rsChars_length_le s.length s (Nat.le_refl _)

/-- The `len_utf8` of a decoded character is at most the width announced by its lead byte, and only the
last character of a malformed text can be shorter than announced: the byte offsets computed from
`chars()` stay within `len + 3` on EVERY byte list (within `len` on a `str`). -/
theorem rsSumLen8_rsChars_le : ∀ (n : Nat) (s : List Nat), s.length ≤ n →
    rsSumLen8 (rsChars s) ≤ (if s = [] then 0 else s.length + 3) := by
  intro n
  induction n with
  | zero =>
    intro s hs
    have : s = [] := List.eq_nil_of_length_eq_zero (by omega)
    subst this; simp
  | succ n ih =>
    intro s hs
    cases s with
    | nil => simp
    | cons b bs =>
      simp only [List.length_cons] at hs
      rw [rsChars_cons]
      simp only [reduceCtorEq, ↓reduceIte, List.length_cons]
      have hy : bs.headD 0 % 64 < 64 := Nat.mod_lt _ (by omega)
      have hz : bs.getD 1 0 % 64 < 64 := Nat.mod_lt _ (by omega)
      have hw : bs.getD 2 0 % 64 < 64 := Nat.mod_lt _ (by omega)
      by_cases h1 : b < 128
      · simp only [h1, ↓reduceIte, rsSumLen8_cons]
        have := ih bs (by omega)
        have h8 : rsLenUtf8 b = 1 := by unfold rsLenUtf8; simp only [h1, ↓reduceIte]
        split at this <;> omega
      · by_cases h2 : b < 224
        · simp only [h1, h2, ↓reduceIte, rsSumLen8_cons]
          have := ih (bs.drop 1) (by simp only [List.length_drop]; omega)
          have h8 := rsLenUtf8_lt_2048 (b % 32 * 64 + bs.headD 0 % 64) (by omega)
          simp only [List.length_drop] at this
          split at this
          · omega
          · rename_i hne
            have : 1 < bs.length := by
              rcases Nat.lt_or_ge 1 bs.length with h | h
              · exact h
              · exact absurd (List.drop_eq_nil_of_le h) hne
            omega
        · by_cases h3 : b < 240
          · simp only [h1, h2, h3, ↓reduceIte, rsSumLen8_cons]
            have := ih (bs.drop 2) (by simp only [List.length_drop]; omega)
            have h8 := rsLenUtf8_lt_65536 (b % 16 * 4096 + bs.headD 0 % 64 * 64 + bs.getD 1 0 % 64) (by omega)
            simp only [List.length_drop] at this
            split at this
            · omega
            · rename_i hne
              have : 2 < bs.length := by
                rcases Nat.lt_or_ge 2 bs.length with h | h
                · exact h
                · exact absurd (List.drop_eq_nil_of_le h) hne
              omega
          · simp only [h1, h2, h3, ↓reduceIte, rsSumLen8_cons]
            have := ih (bs.drop 3) (by simp only [List.length_drop]; omega)
            have h8 := rsLenUtf8_le_four
              (b % 8 * 262144 + bs.headD 0 % 64 * 4096 + bs.getD 1 0 % 64 * 64 + bs.getD 2 0 % 64)
            simp only [List.length_drop] at this
            split at this
            · omega
            · rename_i hne
              have : 3 < bs.length := by
                rcases Nat.lt_or_ge 3 bs.length with h | h
                · exact h
                · exact absurd (List.drop_eq_nil_of_le h) hne
              omega

theorem rsSumLen8_rsChars (s : List Nat) : rsSumLen8 (rsChars s) ≤ s.length + 3 := by
  have := rsSumLen8_rsChars_le s.length s (Nat.le_refl _)
  split at this <;> omega

/-! ### `rsIsCharBoundary`, `rsStrGet` -/

theorem rsIsCharBoundary_zero (s : List Nat) : rsIsCharBoundary s 0 = true := by
  simp [rsIsCharBoundary]

theorem rsIsCharBoundary_length (s : List Nat) : rsIsCharBoundary s s.length = true := by
  simp [rsIsCharBoundary]

/-- past the end there is no boundary -/
theorem rsIsCharBoundary_gt (s : List Nat) (i : Nat) (h : s.length < i) : rsIsCharBoundary s i = false := by
  have h0 : (i == 0) = false := by simp; omega
  have h1 : (i == s.length) = false := by simp; omega
  have h2 : s[i]? = none := List.getElem?_eq_none (by omega)
  simp only [rsIsCharBoundary, h0, h1, h2, Bool.or_self]

/-- the explicit `b ≤ len` of `rsStrGet` is implied by `is_char_boundary(b)` -/
theorem rsStrGet_eq (s : List Nat) (a b : Nat) :
    rsStrGet s a b =
      if a ≤ b ∧ rsIsCharBoundary s a = true ∧ rsIsCharBoundary s b = true
      then some ((s.drop a).take (b - a)) else none := by
  unfold rsStrGet
  by_cases hb : b ≤ s.length
  · by_cases hc : a ≤ b ∧ rsIsCharBoundary s a = true ∧ rsIsCharBoundary s b = true
    · rw [if_pos ⟨hc.1, hb, hc.2.1, hc.2.2⟩, if_pos hc]
    · rw [if_neg (fun h => hc ⟨h.1, h.2.2.1, h.2.2.2⟩), if_neg hc]
  · have hf := rsIsCharBoundary_gt s b (by omega)
    rw [if_neg (fun h => hb h.2.1), if_neg (fun h => by rw [hf] at h; exact Bool.noConfusion h.2.2)]

end SmVerif.Rs
