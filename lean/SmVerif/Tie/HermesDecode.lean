import SmVerif.Generated.RsHermesDecode
import SmVerif.Model.Hermes
import SmVerif.Tie.Decode
import SmVerif.Tie.Hermes
import SmVerif.Tie.PreludeLemmas18
import SmVerif.Props.C14
/-
Tie unit "HermesDecode": the closure body of `decode_hermes` (hermes.rs) that decodes ONE element of
`x_facebook_sources` into an optional `HermesFunctionMap`, as translated by `tools/rs2lean`
(`SmVerif/Generated/RsHermesDecode.lean`: `decode_function_map`, `.loop1`, `.loop2`), computes what the hand-written
model `SmVerif/Model/Hermes.lean` says (`decodeSegs`, `decodeLines`, `decodeMeta`, `decodeSrc`, `decodeSources`).

* `loop2_nil` / `loop2_cons_empty` / `loop2_cons_err` / `loop2_cons_ok` : the body of the segment loop case by
  case (the only lemmas that look inside the generated body); likewise `loop1_nil` / `loop1_cons_empty` / `loop1_cons`;
* `tie_loop2`, `tie_loop1`     : the loops against `decodeSegs` / `decodeLines` (accumulator: the model's `acc` is
                                 the reversed image of `mappings`; early `return None` ↔ `.ok none`; panic ↔ panic);
                                 `loop2_error_panic`, `loop1_error_panic`: no other failure; `loop2_total`,
                                 `loop1_total`: none at all from `u32` running values;
* `tie_decode_function_map`    : `(decode_function_map v nums).map (Option.map toFMap) = decodeSrc (toRaw v)` for every
                                 `v` and every scratch vector `nums`; `decode_function_map_nums_irrel`;
* `tie_decode_sources`         : the closure mapped over the array (`decodeAll`, by hand) is `decodeSources`;
* `gen_c14_decode_*`           : C14 on the generated closure (Metro's reading, locality of an unreadable text,
                                 safety: the exact panic condition and why it is never met).

The only hypothesis anywhere is the Rust type of the text: bytes `< 256` (`bytesOk`; needed, see `bytes_needed`).
No fuel: both loops are structural recursions over the list of pieces.
-/

namespace SmVerif.Tie.HermesDecode
open SmVerif SmVerif.Rs SmVerif.Vlq SmVerif.Hermes
open SmVerif.Gen.RsHermesDecode SmVerif.Gen.RsHermes SmVerif.Gen.RsJsonTypes

/-! ### conversions -/

/-- `FacebookScopeMapping` field by field (byte strings are `List Nat` on both sides) -/
def toMeta (m : FacebookScopeMapping) : Hermes.Meta := { names := m.names, mappings := m.mappings }

/-- the `i64` range test of the overflow-checked additions, as the generated code writes it -/
abbrev I64 (x : Int) : Prop := (-9223372036854775808) ≤ x ∧ x ≤ 9223372036854775807

theorem inI64_eq (x : Int) : inI64 x = decide (I64 x) := by
  unfold inI64
  rw [Bool.decide_and]

/-- the model's `addCast` in the shape of the generated code -/
theorem addCast_eq (cur : Nat) (d : Int) :
    addCast cur d = if I64 ((cur : Int) + d) then .ok (toU 32 ((cur : Int) + d)) else .error .panic := by
  unfold addCast
  simp only [inI64_eq]
  by_cases h : I64 ((cur : Int) + d)
  · rw [if_pos h, decide_eq_true h]; rfl
  · rw [if_neg h, decide_eq_false h]; rfl

/-- the model's `stepSeg` on a non-empty value list, in the shape of the generated code -/
theorem stepSeg_cons (c n l : Nat) (n0 : Int) (rest : List Int) :
    stepSeg c n l (n0 :: rest) =
      if I64 ((c : Int) + n0) then
        if I64 ((n : Int) + rest.getD 0 0) then
          if I64 ((l : Int) + rest.getD 1 0) then
            .ok (some { line := toU 32 ((l : Int) + rest.getD 1 0), column := toU 32 ((c : Int) + n0),
                        name := toU 32 ((n : Int) + rest.getD 0 0) })
          else .error .panic
        else .error .panic
      else .error .panic := by
  simp only [stepSeg, addCast_eq]
  by_cases h1 : I64 ((c : Int) + n0)
  · rw [if_pos h1, if_pos h1]
    by_cases h2 : I64 ((n : Int) + rest.getD 0 0)
    · rw [if_pos h2, if_pos h2]
      by_cases h3 : I64 ((l : Int) + rest.getD 1 0)
      · rw [if_pos h3, if_pos h3]
      · rw [if_neg h3, if_neg h3]
    · rw [if_neg h2, if_neg h2]
  · rw [if_neg h1, if_neg h1]

/-! ### model lemmas: the only error of the model decoder is the panic of an addition -/

theorem stepSeg_error_panic (c n l : Nat) (vs : List Int) (e : Err) (h : stepSeg c n l vs = .error e) :
    e = .panic := by
  cases vs with
  | nil => cases h
  | cons n0 rest =>
    rw [stepSeg_cons] at h
    by_cases h1 : I64 ((c : Int) + n0)
    · rw [if_pos h1] at h
      by_cases h2 : I64 ((n : Int) + rest.getD 0 0)
      · rw [if_pos h2] at h
        by_cases h3 : I64 ((l : Int) + rest.getD 1 0)
        · rw [if_pos h3] at h; cases h
        · rw [if_neg h3] at h; cases h; rfl
      · rw [if_neg h2] at h; cases h; rfl
    · rw [if_neg h1] at h; cases h; rfl

theorem decodeSegs_error_panic : ∀ (segs : List (List Nat)) (c n l : Nat) (acc : List Entry) (e : Err),
    decodeSegs segs c n l acc = .error e → e = .panic := by
  intro segs
  induction segs with
  | nil => intro c n l acc e h; rw [decodeSegs] at h; cases h
  | cons seg segs ih =>
    intro c n l acc e h
    by_cases hne : seg = []
    · subst hne
      rw [decodeSegs_skip] at h
      exact ih c n l acc e h
    · cases hp : parseVlq seg with
      | error e' => rw [decodeSegs_err segs c n l acc hne hp] at h; cases h
      | ok vs =>
        rw [decodeSegs] at h
        simp only [if_neg hne, hp] at h
        cases hst : stepSeg c n l vs with
        | error e' =>
          rw [hst] at h
          cases h
          exact stepSeg_error_panic c n l vs e hst
        | ok o =>
          rw [hst] at h
          cases o with
          | none => cases h
          | some en => exact ih _ _ _ _ e h

theorem decodeLines_error_panic : ∀ (lns : List (List Nat)) (n l : Nat) (acc : List Entry) (e : Err),
    decodeLines lns n l acc = .error e → e = .panic := by
  intro lns
  induction lns with
  | nil => intro n l acc e h; rw [decodeLines] at h; cases h
  | cons ln lns ih =>
    intro n l acc e h
    by_cases hne : ln = []
    · subst hne
      rw [decodeLines_skip] at h
      exact ih n l acc e h
    · rw [decodeLines] at h
      simp only [if_neg hne] at h
      cases hs : decodeSegs (Mappings.splitOn Mappings.COMMA ln) 0 n l acc with
      | error e' =>
        rw [hs] at h
        cases h
        exact decodeSegs_error_panic _ _ _ _ _ e hs
      | ok o =>
        rw [hs] at h
        cases o with
        | none => cases h
        | some st =>
          obtain ⟨n', l', acc'⟩ := st
          exact ih n' l' acc' e h

/-! ### model lemmas: one piece the parser rejects and the whole text is unreadable -/

theorem decodeSegs_bad : ∀ (segs : List (List Nat)) (c n l : Nat) (acc : List Entry),
    c < U32 → n < U32 → l < U32 →
    (∃ seg ∈ segs, seg ≠ [] ∧ ∃ e, parseVlq seg = .error e) →
    decodeSegs segs c n l acc = .ok none := by
  intro segs
  induction segs with
  | nil => intro c n l acc _ _ _ h; obtain ⟨seg, hs, _⟩ := h; cases hs
  | cons seg segs ih =>
    intro c n l acc hc hn hl hbad
    obtain ⟨bad, hmem, hbne, e, hbe⟩ := hbad
    by_cases hne : seg = []
    · subst hne
      rw [decodeSegs_skip]
      rcases List.mem_cons.mp hmem with h | h
      · exact absurd h hbne
      · exact ih c n l acc hc hn hl ⟨bad, h, hbne, e, hbe⟩
    · cases hp : parseVlq seg with
      | error e' => exact decodeSegs_err segs c n l acc hne hp
      | ok vs =>
        rw [decodeSegs_step segs acc hc hn hl hne hp]
        rcases List.mem_cons.mp hmem with h | h
        · subst h; rw [hp] at hbe; cases hbe
        · exact ih _ _ _ _ (wrapU32_lt _) (wrapU32_lt _) (wrapU32_lt _) ⟨bad, h, hbne, e, hbe⟩

theorem decodeLines_bad : ∀ (lns : List (List Nat)) (n l : Nat) (acc : List Entry),
    n < U32 → l < U32 →
    (∃ ln ∈ lns, ∃ seg ∈ Mappings.splitOn Mappings.COMMA ln, seg ≠ [] ∧ ∃ e, parseVlq seg = .error e) →
    decodeLines lns n l acc = .ok none := by
  intro lns
  induction lns with
  | nil => intro n l acc _ _ h; obtain ⟨ln, hs, _⟩ := h; cases hs
  | cons ln lns ih =>
    intro n l acc hn hl hbad
    obtain ⟨bl, hmem, seg, hseg, hsne, e, he⟩ := hbad
    by_cases hne : ln = []
    · subst hne
      rw [decodeLines_skip]
      rcases List.mem_cons.mp hmem with h | h
      · subst h
        simp only [Mappings.splitOn, List.mem_singleton] at hseg
        exact absurd hseg hsne
      · exact ih n l acc hn hl ⟨bl, h, seg, hseg, hsne, e, he⟩
    · rw [decodeLines]
      simp only [if_neg hne]
      rcases List.mem_cons.mp hmem with h | h
      · subst h
        rw [decodeSegs_bad _ 0 n l acc (by simp [U32]) hn hl ⟨seg, hseg, hsne, e, he⟩]
      · rcases decodeSegs_total (Mappings.splitOn Mappings.COMMA ln) 0 n l acc (by simp [U32]) hn hl with
          ⟨n', l', acc', h', hn', hl'⟩ | h'
        · rw [h']
          exact ih n' l' acc' hn' hl' ⟨bl, h, seg, hseg, hsne, e, he⟩
        · rw [h']

/-! ### the segment loop -/

/-- the generated parser call of the loop body: scratch vector cleared, `Err` turned into `None` -/
theorem rsOk_parse (seg : List Nat) (hs : ∀ b ∈ seg, b < 256) :
    rsOk (Gen.RsVlq.parse_vlq_segment_into seg []) =
      match parseVlq seg with
      | .ok nums => .ok (some nums)
      | .error _ => .ok none := by
  rw [Vlq.tie_parse_vlq_segment_into seg hs []]
  simp only [List.reverse_nil]
  have hp := parseVlq_ne_panic seg
  have hd := parseVlq_ne_diverge seg
  unfold parseVlq at hp hd ⊢
  cases h : parseLoop seg 0 0 [] with
  | ok nums => rfl
  | error e =>
    rw [h] at hp hd
    exact rsOk_of_err (fun he => hp (by rw [he])) (fun he => hd (by rw [he]))

/-- the offset pushed for a segment: running values after the three additions -/
def pushed (c n l : Nat) (n0 : Int) (rest : List Int) : HermesScopeOffset :=
  { line := toU 32 ((l : Int) + rest.getD 1 0), column := toU 32 ((c : Int) + n0),
    name_index := toU 32 ((n : Int) + rest.getD 0 0) }

/-- the loop body, case 0: no segment left -/
theorem loop2_nil (nums : List Int) (c n l : Nat) (ms : List HermesScopeOffset) :
    decode_function_map.loop2 [] nums c n l ms = .ok (.done (nums, c, n, l, ms)) := by
  rw [decode_function_map.loop2]

/-- the loop body, case 1: an empty piece (`,,`) is skipped -/
theorem loop2_cons_empty (segs : List (List Nat)) (nums : List Int) (c n l : Nat) (ms : List HermesScopeOffset) :
    decode_function_map.loop2 ([] :: segs) nums c n l ms = decode_function_map.loop2 segs nums c n l ms := by
  rw [decode_function_map.loop2]
  rw [if_pos rfl]

/-- the loop body, case 2: the parser's own `Err` (invalid base64, leftover, overflow) leaves the closure with
`None` - it is not an error of the generated function -/
theorem loop2_cons_err {seg : List Nat} (segs : List (List Nat)) (nums : List Int) (c n l : Nat)
    (ms : List HermesScopeOffset) (hne : seg ≠ []) (hseg : ∀ b ∈ seg, b < 256) {e : Err}
    (hp : parseVlq seg = .error e) :
    decode_function_map.loop2 (seg :: segs) nums c n l ms = .ok (.ret none) := by
  rw [decode_function_map.loop2]
  rw [if_neg hne]
  simp only [rsOk_parse seg hseg, hp]

/-- the loop body, case 3: a parsed segment.  The three overflow-checked `i64` additions, in the order column,
name index, line; the offset is pushed, the running values are the cast ones, the scratch vector keeps the
parsed values. -/
theorem loop2_cons_ok {seg : List Nat} (segs : List (List Nat)) (nums : List Int) (c n l : Nat)
    (ms : List HermesScopeOffset) (hne : seg ≠ []) (hseg : ∀ b ∈ seg, b < 256) {n0 : Int} {rest : List Int}
    (hp : parseVlq seg = .ok (n0 :: rest)) :
    decode_function_map.loop2 (seg :: segs) nums c n l ms =
      if I64 ((c : Int) + n0) then
        if I64 ((n : Int) + rest.getD 0 0) then
          if I64 ((l : Int) + rest.getD 1 0) then
            decode_function_map.loop2 segs (n0 :: rest) (pushed c n l n0 rest).column
              (pushed c n l n0 rest).name_index (pushed c n l n0 rest).line (ms ++ [pushed c n l n0 rest])
          else .error .panic
        else .error .panic
      else .error .panic := by
  rw [decode_function_map.loop2]
  rw [if_neg hne]
  simp only [rsOk_parse seg hseg, hp, List.head?_cons, List.tail_cons, head?_getD_eq_getD, tail_getD_eq_getD_succ,
    Nat.zero_add, pushed]

/-- what the segment loop hands on to the line loop: the running name index and line and the offsets pushed so
far (the model keeps them reversed); `.ret _` is the closure's early exit -/
def abs2 : Exit (Option HermesFunctionMap) (List Int × Nat × Nat × Nat × List HermesScopeOffset) →
    Option (Nat × Nat × List Entry)
  | .done (_, _, n, l, ms) => some (n, l, (ms.map toEntry).reverse)
  | .ret _ => none

theorem map_toEntry_push (ms : List HermesScopeOffset) (o : HermesScopeOffset) :
    ((ms ++ [o]).map toEntry).reverse = toEntry o :: (ms.map toEntry).reverse := by
  simp only [List.map_append, List.reverse_append, List.map_cons, List.map_nil, List.reverse_cons,
    List.reverse_nil, List.nil_append, List.cons_append]

/-- **the segment loop** (`for mapping in line_mapping.split(',')`).  For every list of pieces (bytes), every
scratch vector, all running values and offsets pushed so far: the generated loop and the model's `decodeSegs`
have the same outcome - loop finished with the same name index, line and offsets (the model's accumulator is the
reversed image of `mappings`) / early exit with `None` / panic - and an early exit never carries a function map.
The scratch vector `nums` does not occur on the right: it is irrelevant. -/
theorem tie_loop2 : ∀ (segs : List (List Nat)), (∀ seg ∈ segs, ∀ b ∈ seg, b < 256) →
    ∀ (nums : List Int) (c n l : Nat) (ms : List HermesScopeOffset),
      (decode_function_map.loop2 segs nums c n l ms).map abs2
          = decodeSegs segs c n l (ms.map toEntry).reverse ∧
      ∀ r, decode_function_map.loop2 segs nums c n l ms = .ok (.ret r) → r = none := by
  intro segs
  induction segs with
  | nil =>
    intro _ nums c n l ms
    rw [loop2_nil, decodeSegs]
    exact ⟨rfl, fun r h => by cases h⟩
  | cons seg segs ih =>
    intro hs nums c n l ms
    have hseg : ∀ b ∈ seg, b < 256 := hs seg List.mem_cons_self
    have ih' := ih (fun s h => hs s (List.mem_cons_of_mem _ h))
    by_cases hne : seg = []
    · subst hne
      rw [loop2_cons_empty, decodeSegs_skip]
      exact ih' nums c n l ms
    · cases hp : parseVlq seg with
      | error e =>
        rw [loop2_cons_err segs nums c n l ms hne hseg hp, decodeSegs_err segs c n l _ hne hp]
        exact ⟨rfl, fun r h => by cases h; rfl⟩
      | ok vs =>
        cases vs with
        | nil => exact absurd rfl (parseVlq_ok_bnd hp).1
        | cons n0 rest =>
          rw [loop2_cons_ok segs nums c n l ms hne hseg hp, decodeSegs]
          simp only [if_neg hne, hp, stepSeg_cons]
          by_cases h1 : I64 ((c : Int) + n0)
          · simp only [if_pos h1]
            by_cases h2 : I64 ((n : Int) + rest.getD 0 0)
            · simp only [if_pos h2]
              by_cases h3 : I64 ((l : Int) + rest.getD 1 0)
              · simp only [if_pos h3]
                have := ih' (n0 :: rest) (pushed c n l n0 rest).column (pushed c n l n0 rest).name_index
                  (pushed c n l n0 rest).line (ms ++ [pushed c n l n0 rest])
                rw [map_toEntry_push] at this
                exact this
              · simp only [if_neg h3]
                exact ⟨rfl, fun r h => by cases h⟩
            · simp only [if_neg h2]
              exact ⟨rfl, fun r h => by cases h⟩
          · simp only [if_neg h1]
            exact ⟨rfl, fun r h => by cases h⟩

-- pieces "ECC", "", "GCAA" after one offset, scratch vector [9]: two offsets pushed, name index 2, line 2
example : ∀ seg ∈ [[69,67,67],[],[71,67,65,65]], ∀ b ∈ seg, b < 256 := by decide
example : (decode_function_map.loop2 [[69,67,67],[],[71,67,65,65]] [9] 0 0 1 [⟨1, 0, 0⟩]).map abs2 =
    .ok (some (2, 2, [⟨2, 5, 2⟩, ⟨2, 2, 1⟩, ⟨1, 0, 0⟩])) := by rfl
example : decodeSegs [[69,67,67],[],[71,67,65,65]] 0 0 1 [⟨1, 0, 0⟩] =
    .ok (some (2, 2, [⟨2, 5, 2⟩, ⟨2, 2, 1⟩, ⟨1, 0, 0⟩])) := by rfl
-- a rejected piece ("!"): early exit
example : decode_function_map.loop2 [[69,67,67],[33]] [9] 0 0 1 [] = .ok (.ret none) := by rfl

/-- the loop can only fail with a panic (any running values, `u32` or not) -/
theorem loop2_error_panic : ∀ (segs : List (List Nat)), (∀ seg ∈ segs, ∀ b ∈ seg, b < 256) →
    ∀ (nums : List Int) (c n l : Nat) (ms : List HermesScopeOffset) (e : Err),
      decode_function_map.loop2 segs nums c n l ms = .error e → e = .panic := by
  intro segs hs nums c n l ms e h
  have h1 := (tie_loop2 segs hs nums c n l ms).1
  rw [h, res_map_error] at h1
  exact decodeSegs_error_panic _ _ _ _ _ _ h1.symm

/-- from `u32` running values the loop does not fail at all -/
theorem loop2_total (segs : List (List Nat)) (hs : ∀ seg ∈ segs, ∀ b ∈ seg, b < 256)
    (nums : List Int) (c n l : Nat) (ms : List HermesScopeOffset)
    (hc : c < 4294967296) (hn : n < 4294967296) (hl : l < 4294967296) :
    ∃ x, decode_function_map.loop2 segs nums c n l ms = .ok x := by
  have t := (tie_loop2 segs hs nums c n l ms).1
  rcases decodeSegs_total segs c n l (ms.map toEntry).reverse hc hn hl with ⟨n', l', acc', h, _, _⟩ | h
  · rw [h] at t
    obtain ⟨x, hx, _⟩ := res_map_eq_ok t
    exact ⟨x, hx⟩
  · rw [h] at t
    obtain ⟨x, hx, _⟩ := res_map_eq_ok t
    exact ⟨x, hx⟩

/-! ### the line loop -/

/-- what the line loop hands on: the offsets pushed; `.ret _` is the closure's early exit -/
def abs1 : Exit (Option HermesFunctionMap) (List Int × Nat × Nat × List HermesScopeOffset) → Option (List Entry)
  | .done (_, _, _, ms) => some (ms.map toEntry)
  | .ret _ => none

theorem loop1_nil (nums : List Int) (n l : Nat) (ms : List HermesScopeOffset) :
    decode_function_map.loop1 [] nums n l ms = .ok (.done (nums, n, l, ms)) := by
  rw [decode_function_map.loop1]

/-- an empty piece (`;;`) is skipped -/
theorem loop1_cons_empty (lns : List (List Nat)) (nums : List Int) (n l : Nat) (ms : List HermesScopeOffset) :
    decode_function_map.loop1 ([] :: lns) nums n l ms = decode_function_map.loop1 lns nums n l ms := by
  rw [decode_function_map.loop1]
  rw [if_pos rfl]

/-- a non-empty piece: the segment loop with the column restarted at 0, then the next piece with the name index,
line and offsets it hands on -/
theorem loop1_cons {ln : List Nat} (lns : List (List Nat)) (nums : List Int) (n l : Nat)
    (ms : List HermesScopeOffset) (hne : ln ≠ []) :
    decode_function_map.loop1 (ln :: lns) nums n l ms =
      match decode_function_map.loop2 (rsSplitOn 44 ln) nums 0 n l ms with
      | .error e => .error e
      | .ok (.ret r) => .ok (.ret r)
      | .ok (.done (nums', _, n', l', ms')) => decode_function_map.loop1 lns nums' n' l' ms' := by
  rw [decode_function_map.loop1]
  rw [if_neg hne]
  simp only []
  cases decode_function_map.loop2 (rsSplitOn 44 ln) nums 0 n l ms with
  | error e => rfl
  | ok x =>
    cases x with
    | ret r => rfl
    | done st => rfl

theorem bytes_split {sep : Nat} {s : List Nat} (hs : ∀ b ∈ s, b < 256) :
    ∀ p ∈ rsSplitOn sep s, ∀ b ∈ p, b < 256 :=
  fun p hp b hb => hs b (mem_of_mem_rsSplitOn sep s p hp b hb)

/-- **the line loop** (`for line_mapping in raw_mappings.split(';')`).  Same outcome as the model's `decodeLines`:
finished with the same offsets / early exit with `None` / panic; an early exit never carries a function map; the
scratch vector is irrelevant. -/
theorem tie_loop1 : ∀ (lns : List (List Nat)), (∀ ln ∈ lns, ∀ b ∈ ln, b < 256) →
    ∀ (nums : List Int) (n l : Nat) (ms : List HermesScopeOffset),
      (decode_function_map.loop1 lns nums n l ms).map abs1
          = decodeLines lns n l (ms.map toEntry).reverse ∧
      ∀ r, decode_function_map.loop1 lns nums n l ms = .ok (.ret r) → r = none := by
  intro lns
  induction lns with
  | nil =>
    intro _ nums n l ms
    rw [loop1_nil, decodeLines, List.reverse_reverse]
    exact ⟨rfl, fun r h => by cases h⟩
  | cons ln lns ih =>
    intro hs nums n l ms
    have hln : ∀ b ∈ ln, b < 256 := hs ln List.mem_cons_self
    have ih' := ih (fun s h => hs s (List.mem_cons_of_mem _ h))
    by_cases hne : ln = []
    · subst hne
      rw [loop1_cons_empty, decodeLines_skip]
      exact ih' nums n l ms
    · rw [loop1_cons lns nums n l ms hne, decodeLines]
      simp only [if_neg hne]
      have hc : Mappings.splitOn Mappings.COMMA ln = rsSplitOn 44 ln := (Decode.tie_splitOn 44 ln).symm
      obtain ⟨h2, h2r⟩ := tie_loop2 (rsSplitOn 44 ln) (bytes_split hln) nums 0 n l ms
      rw [hc, ← h2]
      cases h : decode_function_map.loop2 (rsSplitOn 44 ln) nums 0 n l ms with
      | error e => exact ⟨rfl, fun r h => by cases h⟩
      | ok x =>
        cases x with
        | ret r =>
          refine ⟨rfl, fun r' h' => ?_⟩
          cases h'
          exact h2r r h
        | done st =>
          obtain ⟨nums', c', n', l', ms'⟩ := st
          exact ih' nums' n' l' ms'

theorem loop1_error_panic (lns : List (List Nat)) (hs : ∀ ln ∈ lns, ∀ b ∈ ln, b < 256)
    (nums : List Int) (n l : Nat) (ms : List HermesScopeOffset) (e : Err)
    (h : decode_function_map.loop1 lns nums n l ms = .error e) : e = .panic := by
  have h1 := (tie_loop1 lns hs nums n l ms).1
  rw [h, res_map_error] at h1
  exact decodeLines_error_panic _ _ _ _ _ h1.symm

/-- from `u32` running values the loop does not fail at all -/
theorem loop1_total (lns : List (List Nat)) (hs : ∀ ln ∈ lns, ∀ b ∈ ln, b < 256)
    (nums : List Int) (n l : Nat) (ms : List HermesScopeOffset) (hn : n < 4294967296) (hl : l < 4294967296) :
    ∃ x, decode_function_map.loop1 lns nums n l ms = .ok x := by
  have t := (tie_loop1 lns hs nums n l ms).1
  obtain ⟨r, h⟩ := decodeLines_total lns n l (ms.map toEntry).reverse hn hl
  rw [h] at t
  obtain ⟨x, hx, _⟩ := res_map_eq_ok t
  exact ⟨x, hx⟩

-- pieces "AAA", "", "ECC,GCAA"
example : ∀ ln ∈ [[65,65,65],[],[69,67,67,44,71,67,65,65]], ∀ b ∈ ln, b < 256 := by decide
example : (decode_function_map.loop1 [[65,65,65],[],[69,67,67,44,71,67,65,65]] [9] 0 1 []).map abs1 =
    .ok (some [⟨1, 0, 0⟩, ⟨2, 2, 1⟩, ⟨2, 5, 2⟩]) := by rfl
example : decodeLines [[65,65,65],[],[69,67,67,44,71,67,65,65]] 0 1 [] =
    .ok (some [⟨1, 0, 0⟩, ⟨2, 2, 1⟩, ⟨2, 5, 2⟩]) := by rfl

/-! ### the closure body -/

/-- the Rust type of the input: the text of the first metadata entry (the only one read) is a byte string -/
def bytesOk : Option (List FacebookScopeMapping) → Prop
  | some (m :: _) => ∀ b ∈ m.mappings, b < 256
  | _ => True

/-- every text of every metadata entry is a byte string: implies `bytesOk` -/
theorem bytesOk_of_all (v : Option (List FacebookScopeMapping))
    (h : ∀ ms, v = some ms → ∀ m ∈ ms, ∀ b ∈ m.mappings, b < 256) : bytesOk v := by
  match v with
  | none => trivial
  | some [] => trivial
  | some (m :: rest) => exact h (m :: rest) rfl m List.mem_cons_self

/-- the model input of a generated input -/
def toRaw (v : Option (List FacebookScopeMapping)) : RawSrc := v.map (List.map toMeta)

theorem toEntry_inj (a b : HermesScopeOffset) (h : toEntry a = toEntry b) : a = b := by
  cases a; cases b
  simp only [toEntry, Entry.mk.injEq] at h
  obtain ⟨h1, h2, h3⟩ := h
  subst h1 h2 h3
  rfl

theorem map_toEntry_inj : ∀ (a b : List HermesScopeOffset), a.map toEntry = b.map toEntry → a = b := by
  intro a
  induction a with
  | nil => intro b h; cases b with
    | nil => rfl
    | cons y ys => cases h
  | cons x xs ih => intro b h; cases b with
    | nil => cases h
    | cons y ys =>
      simp only [List.map_cons, List.cons.injEq] at h
      rw [toEntry_inj x y h.1, ih ys h.2]

theorem toFMap_inj (a b : HermesFunctionMap) (h : toFMap a = toFMap b) : a = b := by
  cases a; cases b
  simp only [toFMap, FMap.mk.injEq] at h
  obtain ⟨h1, h2⟩ := h
  subst h1
  rw [map_toEntry_inj _ _ h2]

theorem optMap_toFMap_inj (a b : Option HermesFunctionMap) (h : a.map toFMap = b.map toFMap) : a = b := by
  cases a with
  | none => cases b with
    | none => rfl
    | some y => cases h
  | some x => cases b with
    | none => cases h
    | some y =>
      simp only [Option.map_some, Option.some.injEq] at h
      rw [toFMap_inj x y h]

/-- **`decode_hermes`, the closure for one element of `x_facebook_sources`.**  For every input (`null`, `[]`,
any number of metadata entries; any byte string as the text of the first one: invalid base64, over-long VLQ
values, empty pieces, any number of fields per segment) and every content of the scratch vector: the generated
function and the model's `decodeSrc` have the same outcome, function map by function map.

Hypothesis `bytesOk`: the text is a byte string (`< 256`).  It is the Rust type (`&str` bytes), not an extra
assumption, but it is really needed for the Lean statement: on a "byte" `≥ 256` the generated table lookup
`B64[c]` panics (index out of bounds) whereas the model's `b64Rev` answers "not a digit" (`bytes_needed` below). -/
theorem tie_decode_function_map (v : Option (List FacebookScopeMapping)) (hb : bytesOk v) (nums : List Int) :
    (decode_function_map v nums).map (Option.map toFMap) = decodeSrc (toRaw v) := by
  match v, hb with
  | none, _ => rfl
  | some [], _ => rfl
  | some (m :: rest), hb =>
    have hb' : ∀ b ∈ m.mappings, b < 256 := hb
    unfold decode_function_map toRaw
    simp only [List.head?_cons, Option.map_some, List.map_cons, decodeSrc, decodeMeta]
    have hc : Mappings.splitOn Mappings.SEMI (toMeta m).mappings = rsSplitOn 59 m.mappings :=
      (Decode.tie_splitOn 59 m.mappings).symm
    obtain ⟨h1, h1r⟩ := tie_loop1 (rsSplitOn 59 m.mappings) (bytes_split hb') nums 0 1 []
    rw [List.map_nil, List.reverse_nil] at h1
    rw [hc, ← h1]
    cases h : decode_function_map.loop1 (rsSplitOn 59 m.mappings) nums 0 1 [] with
    | error e => rfl
    | ok x =>
      cases x with
      | ret r =>
        rw [h1r r h]
        rfl
      | done st =>
        obtain ⟨nums', n', l', ms'⟩ := st
        rfl

/-- the scratch vector is irrelevant: any two contents give the same outcome -/
theorem decode_function_map_nums_irrel (v : Option (List FacebookScopeMapping)) (hb : bytesOk v)
    (nums nums' : List Int) : decode_function_map v nums = decode_function_map v nums' := by
  apply res_map_inj optMap_toFMap_inj
  rw [tie_decode_function_map v hb nums, tie_decode_function_map v hb nums']

/-- in the form "there is a result, and it is the model's" -/
theorem decode_function_map_eq (v : Option (List FacebookScopeMapping)) (hb : bytesOk v) (nums : List Int) :
    ∃ f, decode_function_map v nums = .ok f ∧ f.map toFMap = fmModel (toRaw v) := by
  have h := tie_decode_function_map v hb nums
  rw [decodeSrc_eq] at h
  exact res_map_eq_ok h

-- "AAA;;ECC,GCAA,,D;AADAA": empty `;` and `,` pieces, omitted fields, a negative delta, five fields
def exText : List Nat := [65,65,65,59,59,69,67,67,44,71,67,65,65,44,44,68,59,65,65,68,65,65]
-- "AAA;AA!": invalid base64 in the second group
def exBad : List Nat := [65,65,65,59,65,65,33]

example : bytesOk (some [{ names := [[102], [103]], mappings := exText }, { names := [], mappings := [999] }]) := by
  show ∀ b ∈ exText, b < 256
  decide
example : decode_function_map (some [{ names := [[102], [103]], mappings := exText }]) [7, -7] =
    .ok (some { names := [[102], [103]],
                mappings := [⟨1, 0, 0⟩, ⟨2, 2, 1⟩, ⟨2, 5, 2⟩, ⟨2, 4, 2⟩, ⟨1, 0, 2⟩] }) := by rfl
example : decodeSrc (toRaw (some [{ names := [[102], [103]], mappings := exText }])) =
    .ok (some { names := [[102], [103]],
                entries := [⟨1, 0, 0⟩, ⟨2, 2, 1⟩, ⟨2, 5, 2⟩, ⟨2, 4, 2⟩, ⟨1, 0, 2⟩] }) := by rfl
example : decode_function_map (some [{ names := [[102]], mappings := exBad }]) [] = .ok none := by rfl

/-- the hypothesis `bytesOk` is needed for the Lean statement: on the non-byte 300 the generated table lookup
panics (index out of bounds), the model treats it as invalid base64 (not an input the Rust type allows) -/
theorem bytes_needed :
    decode_function_map (some [{ names := [], mappings := [65, 300] }]) [] = .error .panic ∧
    decodeSrc (toRaw (some [{ names := [], mappings := [65, 300] }])) = .ok none := by
  constructor <;> rfl

/-! ### all sources -/

/-- `x_facebook_sources.iter().map(|v| …).collect()` by hand (the iterator chain itself is not translated): the
closure on every element in turn; a panic of the closure is a panic of the whole.  The scratch vector is
shared by the calls in the Rust code; since its content is irrelevant (`decode_function_map_nums_irrel`) the
same `nums` is passed to every call here. -/
def decodeAll : List (Option (List FacebookScopeMapping)) → List Int → Res (List (Option HermesFunctionMap))
  | [], _ => .ok []
  | v :: vs, nums =>
    match decode_function_map v nums with
    | .error e => .error e
    | .ok f =>
      match decodeAll vs nums with
      | .error e => .error e
      | .ok fs => .ok (f :: fs)

/-- **all of `x_facebook_sources`**: the closure mapped over the array is the model's `decodeSources` -/
theorem tie_decode_sources : ∀ (vs : List (Option (List FacebookScopeMapping))), (∀ v ∈ vs, bytesOk v) →
    ∀ (nums : List Int),
      (decodeAll vs nums).map (List.map (Option.map toFMap)) = decodeSources (vs.map toRaw) := by
  intro vs
  induction vs with
  | nil => intro _ _; rfl
  | cons v vs ih =>
    intro hb nums
    have ih' := ih (fun w hw => hb w (List.mem_cons_of_mem _ hw)) nums
    rw [decodeAll, List.map_cons, decodeSources, ← tie_decode_function_map v (hb v List.mem_cons_self) nums, ← ih']
    cases decode_function_map v nums with
    | error e => rfl
    | ok f =>
      cases decodeAll vs nums with
      | error e => rfl
      | ok fs => rfl

/-- the function map the generated closure computes for one element -/
def genFm (v : Option (List FacebookScopeMapping)) : Option HermesFunctionMap :=
  match decode_function_map v [] with
  | .ok f => f
  | .error _ => none

theorem decode_function_map_genFm (v : Option (List FacebookScopeMapping)) (hb : bytesOk v) (nums : List Int) :
    decode_function_map v nums = .ok (genFm v) := by
  rw [decode_function_map_nums_irrel v hb nums []]
  obtain ⟨f, hf, _⟩ := decode_function_map_eq v hb []
  unfold genFm
  rw [hf]

theorem genFm_model (v : Option (List FacebookScopeMapping)) (hb : bytesOk v) :
    (genFm v).map toFMap = fmModel (toRaw v) := by
  obtain ⟨f, hf, hm⟩ := decode_function_map_eq v hb []
  rw [decode_function_map_genFm v hb []] at hf
  cases hf
  exact hm

/-- every source is decoded on its own: the result is the pointwise image of the array; never an error -/
theorem decodeAll_eq : ∀ (vs : List (Option (List FacebookScopeMapping))), (∀ v ∈ vs, bytesOk v) →
    ∀ (nums : List Int), decodeAll vs nums = .ok (vs.map genFm) := by
  intro vs
  induction vs with
  | nil => intro _ _; rfl
  | cons v vs ih =>
    intro hb nums
    rw [decodeAll, decode_function_map_genFm v (hb v List.mem_cons_self) nums,
      ih (fun w hw => hb w (List.mem_cons_of_mem _ hw)) nums]
    rfl

example : decodeAll [some [{ names := [[102], [103]], mappings := exText }], none, some [],
      some [{ names := [[104]], mappings := exBad }]] [1, 2, 3] =
    .ok [some { names := [[102], [103]],
                mappings := [⟨1, 0, 0⟩, ⟨2, 2, 1⟩, ⟨2, 5, 2⟩, ⟨2, 4, 2⟩, ⟨1, 0, 2⟩] }, none, none, none] := by rfl

/-! ### C14 on the generated code -/

/-- **C14 (decoder = Metro's reading) on the generated closure.**  For every element of `x_facebook_sources`
whose first metadata text is a byte string and well-formed in Metro's sense (`Metro.wfSrc`, decidable), and
every content of the scratch vector: the generated closure returns, without error, exactly the function map the
format description gives (none for `null`, `[]` and an unreadable text). -/
theorem gen_c14_decode_eq_metro (v : Option (List FacebookScopeMapping)) (hb : bytesOk v)
    (hwf : Metro.wfSrc (toRaw v) = true) (nums : List Int) :
    ∃ f, decode_function_map v nums = .ok f ∧ f.map toFMap = Metro.fmOf (toRaw v) := by
  have h := tie_decode_function_map v hb nums
  rw [C14.c14_decode_eq_metro (toRaw v) hwf] at h
  exact res_map_eq_ok h

/-- the same for the whole array -/
theorem gen_c14_decode_all_eq_metro (vs : List (Option (List FacebookScopeMapping)))
    (hb : ∀ v ∈ vs, bytesOk v) (hwf : ∀ v ∈ vs, Metro.wfSrc (toRaw v) = true) (nums : List Int) :
    ∃ fs, decodeAll vs nums = .ok fs ∧
      fs.map (Option.map toFMap) = vs.map (fun v => Metro.fmOf (toRaw v)) := by
  have h := tie_decode_sources vs hb nums
  rw [C14.c14_decode_all_eq_metro (vs.map toRaw)
    (by intro r hr; obtain ⟨v, hv, rfl⟩ := List.mem_map.mp hr; exact hwf v hv), List.map_map] at h
  exact res_map_eq_ok h

example : bytesOk (some [{ names := [[102], [103]], mappings := exText }]) ∧
    Metro.wfSrc (toRaw (some [{ names := [[102], [103]], mappings := exText }])) = true ∧
    Metro.fmOf (toRaw (some [{ names := [[102], [103]], mappings := exText }])) =
      some { names := [[102], [103]], entries := [⟨1, 0, 0⟩, ⟨2, 2, 1⟩, ⟨2, 5, 2⟩, ⟨2, 4, 2⟩, ⟨1, 0, 2⟩] } := by
  refine ⟨?_, ?_, ?_⟩
  · show ∀ b ∈ exText, b < 256
    decide
  · decide +kernel
  · decide +kernel

/-- **an unreadable text is a local matter (one source).**  If the first metadata text of an element is
unreadable by the standard (`Metro.read = none`: foreign byte, cut-off value, over-long value; values within 63
bits) the generated closure answers `None` for this source - not an error. -/
theorem gen_c14_decode_unreadable (m : FacebookScopeMapping) (rest : List FacebookScopeMapping)
    (hb : ∀ b ∈ m.mappings, b < 256) (hfit : Metro.fits (toMeta m) = true)
    (hbad : Metro.read (toMeta m) = none) (nums : List Int) :
    decode_function_map (some (m :: rest)) nums = .ok none := by
  have hwf : Metro.wfSrc (toRaw (some (m :: rest))) = true := by
    show Metro.wfMeta (toMeta m) = true
    unfold Metro.wfMeta Metro.inRange Metro.read at *
    cases hr : Metro.readGroups (toMeta m).mappings with
    | none => simp [hfit]
    | some gs => simp [hr] at hbad
  obtain ⟨f, hf, hm⟩ := gen_c14_decode_eq_metro (some (m :: rest)) hb hwf nums
  have : Metro.fmOf (toRaw (some (m :: rest))) = none := by
    show (Metro.read (toMeta m)).map _ = none
    rw [hbad]; rfl
  rw [this] at hm
  cases f with
  | none => exact hf
  | some x => cases hm

/-- the same without any reference to Metro's reading: one non-empty `,` piece of one `;` piece on which the
*generated* VLQ parser returns an `Err` (whatever it is, wherever the piece stands) and the closure answers
`None` for this source - the parser's `Err` never becomes an error of the closure -/
theorem gen_c14_decode_unparsable (m : FacebookScopeMapping) (rest : List FacebookScopeMapping)
    (hb : ∀ b ∈ m.mappings, b < 256) (ln seg : List Nat) (hln : ln ∈ rsSplitOn 59 m.mappings)
    (hseg : seg ∈ rsSplitOn 44 ln) (hne : seg ≠ []) (e : Err)
    (hp : Gen.RsVlq.parse_vlq_segment seg = .error e) (nums : List Int) :
    decode_function_map (some (m :: rest)) nums = .ok none := by
  have hsb : ∀ b ∈ seg, b < 256 := bytes_split (bytes_split hb ln hln) seg hseg
  rw [Vlq.tie_parse_vlq_segment seg hsb] at hp
  have h := tie_decode_function_map (some (m :: rest)) hb nums
  have hm : decodeSrc (toRaw (some (m :: rest))) = .ok none := by
    show decodeMeta (toMeta m) = .ok none
    unfold decodeMeta
    rw [decodeLines_bad _ 0 1 [] (by simp [U32]) (by simp [U32])
      ⟨ln, by rw [← Decode.tie_splitOn]; exact hln, seg, by rw [← Decode.tie_splitOn]; exact hseg, hne, e, hp⟩]
  rw [hm] at h
  obtain ⟨f, hf, hfm⟩ := res_map_eq_ok h
  cases f with
  | none => exact hf
  | some x => cases hfm

-- "AAA;AA!": the piece "AA!" of the second group is rejected (invalid base64)
example : exBad.all (· < 256) = true ∧ [65, 65, 33] ∈ rsSplitOn 59 exBad ∧ [65, 65, 33] ∈ rsSplitOn 44 [65, 65, 33] ∧
    Gen.RsVlq.parse_vlq_segment [65, 65, 33] = .error .b64 := by
  refine ⟨by decide, by decide, by decide, by rfl⟩
example : Metro.fits (toMeta { names := [[104]], mappings := exBad }) = true ∧
    Metro.read (toMeta { names := [[104]], mappings := exBad }) = none := by decide +kernel

/-- **a function map that does not parse disables scope lookup for its source only** (`c14_bad_map_local` on the
generated closure).  Let element `i` of the array start with a metadata entry whose text is unreadable.  Then
the array decodes (no error for the document), element `i` gets `None`, and every other element gets exactly
the function map it gets in any other array that differs only in element `i`. -/
theorem gen_c14_decode_bad_map_local (vs : List (Option (List FacebookScopeMapping)))
    (hb : ∀ v ∈ vs, bytesOk v) (i : Nat) (m : FacebookScopeMapping) (rest : List FacebookScopeMapping)
    (hi : vs[i]? = some (some (m :: rest))) (hfit : Metro.fits (toMeta m) = true)
    (hbad : Metro.read (toMeta m) = none) (nums : List Int) :
    ∃ fs, decodeAll vs nums = .ok fs ∧ fs.length = vs.length ∧ fs[i]? = some none ∧
      ∀ (vs' : List (Option (List FacebookScopeMapping))) (nums' : List Int) (fs' : List (Option HermesFunctionMap)),
        (∀ v ∈ vs', bytesOk v) → (∀ j, j ≠ i → vs'[j]? = vs[j]?) → decodeAll vs' nums' = .ok fs' →
        ∀ j, j ≠ i → fs'[j]? = fs[j]? := by
  refine ⟨vs.map genFm, decodeAll_eq vs hb nums, List.length_map _, ?_, ?_⟩
  · have hmb : bytesOk (some (m :: rest)) := hb _ (List.mem_of_getElem? hi)
    have h1 := gen_c14_decode_unreadable m rest hmb hfit hbad []
    rw [decode_function_map_genFm _ hmb []] at h1
    rw [List.getElem?_map, hi, Option.map_some]
    exact congrArg some (Except.ok.inj h1)
  · intro vs' nums' fs' hb' hsame hd j hj
    rw [decodeAll_eq vs' hb' nums'] at hd
    cases hd
    rw [List.getElem?_map, List.getElem?_map, hsame j hj]

example : ([some [{ names := [[102], [103]], mappings := exText }], none,
      some [{ names := [[104]], mappings := exBad }]] : List (Option (List FacebookScopeMapping)))[2]? =
    some (some ({ names := [[104]], mappings := exBad } :: [])) := rfl

/-! ### safety -/

/-- **where a panic can come from: the exact condition.**  At a non-empty piece `seg` (bytes) the generated
segment loop fails iff the failure is a panic and the *generated* parser accepted the piece (values
`n0 :: rest`) and one of the three overflow-checked additions `column + n0`, `name_index + rest[0]` (or `+ 0`),
`line + rest[1]` (or `+ 0`) leaves the `i64` range - or all three are in range and a later piece fails.  A piece
the parser rejects (`Err`: invalid base64, leftover, overflow, no values) never makes the loop fail
(`loop2_cons_err`: it leaves the closure with `None`); an empty piece is skipped (`loop2_cons_empty`). -/
theorem gen_c14_decode_panic_iff {seg : List Nat} (segs : List (List Nat)) (nums : List Int) (c n l : Nat)
    (ms : List HermesScopeOffset) (hne : seg ≠ []) (hseg : ∀ b ∈ seg, b < 256)
    (hsegs : ∀ s ∈ segs, ∀ b ∈ s, b < 256) (e : Err) :
    decode_function_map.loop2 (seg :: segs) nums c n l ms = .error e ↔
      e = .panic ∧ ∃ n0 rest, Gen.RsVlq.parse_vlq_segment seg = .ok (n0 :: rest) ∧
        (¬ I64 ((c : Int) + n0) ∨ ¬ I64 ((n : Int) + rest.getD 0 0) ∨ ¬ I64 ((l : Int) + rest.getD 1 0) ∨
          decode_function_map.loop2 segs (n0 :: rest) (toU 32 ((c : Int) + n0)) (toU 32 ((n : Int) + rest.getD 0 0))
            (toU 32 ((l : Int) + rest.getD 1 0)) (ms ++ [pushed c n l n0 rest]) = .error .panic) := by
  rw [Vlq.tie_parse_vlq_segment seg hseg]
  cases hp : parseVlq seg with
  | error e' =>
    rw [loop2_cons_err segs nums c n l ms hne hseg hp]
    constructor
    · intro h; cases h
    · intro ⟨_, n0, rest, h, _⟩; cases h
  | ok vs =>
    cases vs with
    | nil => exact absurd rfl (parseVlq_ok_bnd hp).1
    | cons n0 rest =>
      rw [loop2_cons_ok segs nums c n l ms hne hseg hp]
      by_cases h1 : I64 ((c : Int) + n0)
      · rw [if_pos h1]
        by_cases h2 : I64 ((n : Int) + rest.getD 0 0)
        · rw [if_pos h2]
          by_cases h3 : I64 ((l : Int) + rest.getD 1 0)
          · rw [if_pos h3]
            constructor
            · intro h
              have hep := loop2_error_panic segs hsegs _ _ _ _ _ e h
              subst hep
              exact ⟨rfl, n0, rest, rfl, Or.inr (Or.inr (Or.inr h))⟩
            · intro ⟨hep, a, b, hab, hor⟩
              cases hab
              subst hep
              rcases hor with h | h | h | h
              · exact absurd h1 h
              · exact absurd h2 h
              · exact absurd h3 h
              · exact h
          · rw [if_neg h3]
            constructor
            · intro h; cases h; exact ⟨rfl, n0, rest, rfl, Or.inr (Or.inr (Or.inl h3))⟩
            · intro ⟨hep, _⟩; rw [hep]
        · rw [if_neg h2]
          constructor
          · intro h; cases h; exact ⟨rfl, n0, rest, rfl, Or.inr (Or.inl h2)⟩
          · intro ⟨hep, _⟩; rw [hep]
      · rw [if_neg h1]
        constructor
        · intro h; cases h; exact ⟨rfl, n0, rest, rfl, Or.inl h1⟩
        · intro ⟨hep, _⟩; rw [hep]

-- the condition can be met from a running value that is not a `u32` (never reached from the closure's start):
-- piece "C" (= +1) at column 2^63 - 1
example : decode_function_map.loop2 [[67]] [] 9223372036854775807 0 1 [] = .error .panic := by rfl
example : Gen.RsVlq.parse_vlq_segment [67] = .ok [1] ∧ ¬ I64 ((9223372036854775807 : Nat) + (1 : Int)) := by
  refine ⟨by rfl, by decide⟩

/-- **why the panic branches are dead.**  From `u32` running values (the start values 0, 1, 0 and every value
after an `as u32` cast) and any piece the parser accepts, all three additions stay in the `i64` range: the parser
only returns values of magnitude at most 2^62 (13 digits of 5 bits at most, sign bit off). -/
theorem gen_c14_decode_no_overflow {seg : List Nat} (hseg : ∀ b ∈ seg, b < 256) {c n l : Nat}
    (hc : c < 4294967296) (hn : n < 4294967296) (hl : l < 4294967296) {n0 : Int} {rest : List Int}
    (hp : Gen.RsVlq.parse_vlq_segment seg = .ok (n0 :: rest)) :
    I64 ((c : Int) + n0) ∧ I64 ((n : Int) + rest.getD 0 0) ∧ I64 ((l : Int) + rest.getD 1 0) := by
  rw [Vlq.tie_parse_vlq_segment seg hseg] at hp
  have hb := (parseVlq_ok_bnd hp).2
  have h0 : Bnd n0 := hb n0 List.mem_cons_self
  have hr : ∀ v ∈ rest, Bnd v := fun v hv => hb v (List.mem_cons_of_mem _ hv)
  have h1 := getD_bnd hr 0
  have h2 := getD_bnd hr 1
  unfold Bnd at h0 h1 h2
  refine ⟨⟨?_, ?_⟩, ⟨?_, ?_⟩, ⟨?_, ?_⟩⟩ <;> omega

-- "ggggggggggggI": 13 digits, the largest magnitude the parser returns (2^62, through the wrapping shift)
example : Gen.RsVlq.parse_vlq_segment [103,103,103,103,103,103,103,103,103,103,103,103,73] =
    .ok [-4611686018427387904] := by rfl

/-- **safety of the generated closure.**  For every input (text of the first metadata entry a byte string) and
every scratch vector the closure returns a value: it never fails - no panic (the only failures the loops can
produce at all are panics, `loop2_error_panic` / `loop1_error_panic`, and only at the three additions,
`gen_c14_decode_panic_iff`, which stay in range, `gen_c14_decode_no_overflow`), no hang, and none of the `Err`
values of the VLQ parser (they become `None`, `gen_c14_decode_unparsable`). -/
theorem gen_c14_decode_safe (v : Option (List FacebookScopeMapping)) (hb : bytesOk v) (nums : List Int) :
    (∃ f, decode_function_map v nums = .ok f) ∧
    (∀ e, decode_function_map v nums = .error e → e = .panic) := by
  obtain ⟨f, hf, _⟩ := decode_function_map_eq v hb nums
  refine ⟨⟨f, hf⟩, ?_⟩
  intro e he
  rw [hf] at he
  cases he

/-- the whole array: always decoded, one result per element -/
theorem gen_c14_decode_all_safe (vs : List (Option (List FacebookScopeMapping))) (hb : ∀ v ∈ vs, bytesOk v)
    (nums : List Int) : ∃ fs, decodeAll vs nums = .ok fs ∧ fs.length = vs.length :=
  ⟨_, decodeAll_eq vs hb nums, List.length_map _⟩

end SmVerif.Tie.HermesDecode

#print axioms SmVerif.Tie.HermesDecode.loop2_cons_err
#print axioms SmVerif.Tie.HermesDecode.loop2_cons_ok
#print axioms SmVerif.Tie.HermesDecode.tie_loop2
#print axioms SmVerif.Tie.HermesDecode.loop2_error_panic
#print axioms SmVerif.Tie.HermesDecode.loop2_total
#print axioms SmVerif.Tie.HermesDecode.tie_loop1
#print axioms SmVerif.Tie.HermesDecode.loop1_error_panic
#print axioms SmVerif.Tie.HermesDecode.loop1_total
#print axioms SmVerif.Tie.HermesDecode.tie_decode_function_map
#print axioms SmVerif.Tie.HermesDecode.decode_function_map_nums_irrel
#print axioms SmVerif.Tie.HermesDecode.decode_function_map_eq
#print axioms SmVerif.Tie.HermesDecode.bytes_needed
#print axioms SmVerif.Tie.HermesDecode.tie_decode_sources
#print axioms SmVerif.Tie.HermesDecode.decodeAll_eq
#print axioms SmVerif.Tie.HermesDecode.gen_c14_decode_eq_metro
#print axioms SmVerif.Tie.HermesDecode.gen_c14_decode_all_eq_metro
#print axioms SmVerif.Tie.HermesDecode.gen_c14_decode_unreadable
#print axioms SmVerif.Tie.HermesDecode.gen_c14_decode_unparsable
#print axioms SmVerif.Tie.HermesDecode.gen_c14_decode_bad_map_local
#print axioms SmVerif.Tie.HermesDecode.gen_c14_decode_panic_iff
#print axioms SmVerif.Tie.HermesDecode.gen_c14_decode_no_overflow
#print axioms SmVerif.Tie.HermesDecode.gen_c14_decode_safe
#print axioms SmVerif.Tie.HermesDecode.gen_c14_decode_all_safe
