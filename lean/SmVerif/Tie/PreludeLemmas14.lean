import SmVerif.Rs.Prelude
import SmVerif.Tie.PreludeLemmas10
/-
General lemmas about the string mirrors of the prelude used by the tie unit "JsIdent"
(js_identifiers.rs): the UTF-8 encoder `enc : List Char → List Nat` (standard formula, proved equal to
core's `String.utf8EncodeChar`), and what `rsChars`, `rsCharIndices`, `rsIsCharBoundary`,
`rsStrSlice`, `rsWsLen`, `rsSplitWsFuel` do on encoded text.
-/
namespace SmVerif.Rs
open SmVerif

/-! ### the encoder -/

/-- UTF-8 encoding of a code point (RFC 3629) -/
def utf8EncNat (n : Nat) : List Nat :=
  if n < 128 then [n]
  else if n < 2048 then [192 + n / 64, 128 + n % 64]
  else if n < 65536 then [224 + n / 4096, 128 + n / 64 % 64, 128 + n % 64]
  else [240 + n / 262144, 128 + n / 4096 % 64, 128 + n / 64 % 64, 128 + n % 64]

/-- the UTF-8 bytes of a character -/
def encChar (c : Char) : List Nat := utf8EncNat c.toNat

/-- the UTF-8 bytes of a text: what a Rust `&str` with these characters holds -/
def enc : List Char → List Nat
  | [] => []
  | c :: cs => encChar c ++ enc cs

@[simp] theorem enc_nil : enc [] = [] := rfl
@[simp] theorem enc_cons (c : Char) (cs : List Char) : enc (c :: cs) = encChar c ++ enc cs := rfl

theorem enc_append (a b : List Char) : enc (a ++ b) = enc a ++ enc b := by
  induction a with
  | nil => rfl
  | cons c a ih => simp only [List.cons_append, enc_cons, ih, List.append_assoc]

/-- a `char` is a Unicode scalar value -/
theorem char_toNat_valid (c : Char) : c.toNat < 0xd800 ∨ (0xdfff < c.toNat ∧ c.toNat < 0x110000) := c.valid

theorem char_toNat_lt (c : Char) : c.toNat < 0x110000 := by
  have := char_toNat_valid c; omega

/-- the encoder is core Lean's (`String.utf8EncodeChar`, the one behind `String.toUTF8`) -/
theorem encChar_eq_core (c : Char) : encChar c = (String.utf8EncodeChar c).map (·.toNat) := by
  have hlt := char_toNat_lt c
  unfold encChar utf8EncNat String.utf8EncodeChar
  have e : c.val.toNat = c.toNat := rfl
  simp only [e]
  generalize c.toNat = n at hlt
  by_cases h1 : n < 128
  · have h1' : n ≤ 127 := by omega
    simp only [h1, h1', ↓reduceIte, List.map_cons, List.map_nil, UInt8.toNat_ofNat']
    congr 1; omega
  · by_cases h2 : n < 2048
    · have h1' : ¬ n ≤ 127 := by omega
      have h2' : n ≤ 2047 := by omega
      simp only [h1, h2, h1', h2', ↓reduceIte, List.map_cons, List.map_nil, UInt8.toNat_ofNat']
      congr 1
      · omega
      · congr 1; omega
    · by_cases h3 : n < 65536
      · have h1' : ¬ n ≤ 127 := by omega
        have h2' : ¬ n ≤ 2047 := by omega
        have h3' : n ≤ 65535 := by omega
        simp only [h1, h2, h3, h1', h2', h3', ↓reduceIte, List.map_cons, List.map_nil, UInt8.toNat_ofNat']
        congr 1
        · omega
        · congr 1
          · omega
          · congr 1; omega
      · have h1' : ¬ n ≤ 127 := by omega
        have h2' : ¬ n ≤ 2047 := by omega
        have h3' : ¬ n ≤ 65535 := by omega
        simp only [h1, h2, h3, h1', h2', h3', ↓reduceIte, List.map_cons, List.map_nil, UInt8.toNat_ofNat']
        congr 1
        · omega
        · congr 1
          · omega
          · congr 1
            · omega
            · congr 1; omega

theorem utf8EncNat_length (n : Nat) : (utf8EncNat n).length = rsLenUtf8 n := by
  unfold utf8EncNat rsLenUtf8
  split
  · rfl
  · split
    · rfl
    · split <;> rfl

theorem encChar_length (c : Char) : (encChar c).length = rsLenUtf8 c.toNat := utf8EncNat_length _

/-- byte length of an encoded text: the sum of the `len_utf8` of its characters -/
theorem enc_length (cs : List Char) : (enc cs).length = rsSumLen8 (cs.map Char.toNat) := by
  induction cs with
  | nil => rfl
  | cons c cs ih => simp only [enc_cons, List.length_append, encChar_length, ih, List.map_cons, rsSumLen8_cons]

/-- shape of an encoded character: a lead byte that is not a continuation byte, followed by
`len_utf8 - 1` continuation bytes -/
theorem utf8EncNat_shape (n : Nat) (h : n < 0x110000) :
    ∃ lead conts, utf8EncNat n = lead :: conts ∧ (lead < 128 ∨ 192 ≤ lead) ∧ lead < 256 ∧
      (∀ b ∈ conts, 128 ≤ b ∧ b < 192) := by
  unfold utf8EncNat
  by_cases h1 : n < 128
  · exact ⟨n, [], by simp only [h1, ↓reduceIte], Or.inl h1, by omega, by simp⟩
  · by_cases h2 : n < 2048
    · refine ⟨192 + n / 64, [128 + n % 64], by simp only [h1, h2, ↓reduceIte], Or.inr (by omega), by omega, ?_⟩
      intro b hb; simp only [List.mem_cons, List.not_mem_nil, or_false] at hb; omega
    · by_cases h3 : n < 65536
      · refine ⟨224 + n / 4096, [128 + n / 64 % 64, 128 + n % 64], by simp only [h1, h2, h3, ↓reduceIte],
          Or.inr (by omega), by omega, ?_⟩
        intro b hb; simp only [List.mem_cons, List.not_mem_nil, or_false] at hb; omega
      · refine ⟨240 + n / 262144, [128 + n / 4096 % 64, 128 + n / 64 % 64, 128 + n % 64],
          by simp only [h1, h2, h3, ↓reduceIte], Or.inr (by omega), by omega, ?_⟩
        intro b hb; simp only [List.mem_cons, List.not_mem_nil, or_false] at hb; omega

theorem encChar_shape (c : Char) :
    ∃ lead conts, encChar c = lead :: conts ∧ (lead < 128 ∨ 192 ≤ lead) ∧ lead < 256 ∧
      (∀ b ∈ conts, 128 ≤ b ∧ b < 192) :=
  utf8EncNat_shape _ (char_toNat_lt c)

/-- encoded text consists of bytes -/
theorem enc_bytes (cs : List Char) : ∀ b ∈ enc cs, b < 256 := by
  induction cs with
  | nil => intro b hb; simp at hb
  | cons c cs ih =>
    intro b hb
    obtain ⟨lead, conts, he, _, hl, hc⟩ := encChar_shape c
    simp only [enc_cons, he, List.cons_append, List.mem_cons, List.mem_append] at hb
    rcases hb with rfl | hb | hb
    · exact hl
    · have := hc b hb; omega
    · exact ih b hb

/-! ### `rsChars` decodes what `enc` encodes -/

theorem rsChars_utf8EncNat_append (n : Nat) (h : n < 0x110000) (rest : List Nat) :
    rsChars (utf8EncNat n ++ rest) = n :: rsChars rest := by
  unfold utf8EncNat
  by_cases h1 : n < 128
  · simp only [h1, ↓reduceIte, List.cons_append, List.nil_append]
    rw [rsChars_cons]; simp only [h1, ↓reduceIte]
  · by_cases h2 : n < 2048
    · simp only [h1, h2, ↓reduceIte, List.cons_append, List.nil_append]
      rw [rsChars_cons]
      have a1 : ¬ 192 + n / 64 < 128 := by omega
      have a2 : 192 + n / 64 < 224 := by omega
      simp only [a1, a2, ↓reduceIte, List.headD_cons, List.drop_succ_cons, List.drop_zero]
      congr 1; omega
    · by_cases h3 : n < 65536
      · simp only [h1, h2, h3, ↓reduceIte, List.cons_append, List.nil_append]
        rw [rsChars_cons]
        have a1 : ¬ 224 + n / 4096 < 128 := by omega
        have a2 : ¬ 224 + n / 4096 < 224 := by omega
        have a3 : 224 + n / 4096 < 240 := by omega
        simp only [a1, a2, a3, ↓reduceIte, List.headD_cons, List.drop_succ_cons, List.drop_zero,
          List.getD_cons_succ, List.getD_cons_zero]
        congr 1; omega
      · simp only [h1, h2, h3, ↓reduceIte, List.cons_append, List.nil_append]
        rw [rsChars_cons]
        have a1 : ¬ 240 + n / 262144 < 128 := by omega
        have a2 : ¬ 240 + n / 262144 < 224 := by omega
        have a3 : ¬ 240 + n / 262144 < 240 := by omega
        simp only [a1, a2, a3, ↓reduceIte, List.headD_cons, List.drop_succ_cons, List.drop_zero,
          List.getD_cons_succ, List.getD_cons_zero]
        congr 1; omega

theorem rsChars_encChar_append (c : Char) (rest : List Nat) :
    rsChars (encChar c ++ rest) = c.toNat :: rsChars rest :=
  rsChars_utf8EncNat_append _ (char_toNat_lt c) rest

/-- **`str::chars` on encoded text**: the code points of the characters -/
theorem rsChars_enc (cs : List Char) : rsChars (enc cs) = cs.map Char.toNat := by
  induction cs with
  | nil => simp
  | cons c cs ih => rw [enc_cons, rsChars_encChar_append, ih]; rfl

/-! ### `rsCharIndices` -/

theorem rsCharIndicesFrom_nil (off : Nat) : rsCharIndicesFrom off [] = [] := rfl

theorem rsCharIndicesFrom_cons (off c : Nat) (cs : List Nat) :
    rsCharIndicesFrom off (c :: cs) = (off, c) :: rsCharIndicesFrom (off + rsLenUtf8 c) cs := rfl

theorem rsCharIndicesFrom_length (cs : List Nat) : ∀ off, (rsCharIndicesFrom off cs).length = cs.length := by
  induction cs with
  | nil => intro off; rfl
  | cons c cs ih => intro off; simp only [rsCharIndicesFrom_cons, List.length_cons, ih]

/-- the `k`-th item of `char_indices`: the `k`-th character with the total `len_utf8` of the `k` characters before it -/
theorem rsCharIndicesFrom_getElem? (cs : List Nat) : ∀ (off k : Nat),
    (rsCharIndicesFrom off cs)[k]? = cs[k]?.map fun c => (off + rsSumLen8 (cs.take k), c) := by
  induction cs with
  | nil => intro off k; simp [rsCharIndicesFrom_nil]
  | cons c cs ih =>
    intro off k
    cases k with
    | zero => simp [rsCharIndicesFrom_cons]
    | succ k =>
      simp only [rsCharIndicesFrom_cons, List.getElem?_cons_succ, ih, List.take_succ_cons, rsSumLen8_cons,
        Nat.add_assoc]

/-- **`str::char_indices` on encoded text**: the `k`-th item is the `k`-th character with the byte length of
the encoded prefix of `k` characters -/
theorem rsCharIndices_enc_getElem? (cs : List Char) (k : Nat) :
    (rsCharIndices (enc cs))[k]? = cs[k]?.map fun c => ((enc (cs.take k)).length, c.toNat) := by
  unfold rsCharIndices
  rw [rsChars_enc, rsCharIndicesFrom_getElem?, enc_length, List.getElem?_map, List.map_take]
  cases cs[k]? <;> simp

theorem rsCharIndices_enc_length (cs : List Char) : (rsCharIndices (enc cs)).length = cs.length := by
  unfold rsCharIndices
  rw [rsChars_enc, rsCharIndicesFrom_length, List.length_map]

/-! ### character boundaries and `&s[a..b]` -/

/-- the end of an encoded prefix is a character boundary of the encoded text -/
theorem rsIsCharBoundary_enc (X : List Nat) (b : List Char) : rsIsCharBoundary (X ++ enc b) X.length = true := by
  unfold rsIsCharBoundary
  cases b with
  | nil => simp
  | cons c b =>
    obtain ⟨lead, conts, he, hl, _, _⟩ := encChar_shape c
    have : (X ++ enc (c :: b))[X.length]? = some lead := by simp [he]
    rw [this]
    simp only [Bool.or_eq_true, beq_iff_eq, decide_eq_true_eq]
    right; exact hl

/-- **`s.get(a..b)` between two prefixes of an encoded text** gives the encoded middle part -/
theorem rsStrGet_enc (a m b : List Char) :
    rsStrGet (enc (a ++ m ++ b)) (enc a).length ((enc a).length + (enc m).length) = some (enc m) := by
  rw [rsStrGet_eq]
  have b1 : rsIsCharBoundary (enc (a ++ m ++ b)) (enc a).length = true := by
    have := rsIsCharBoundary_enc (enc a) (m ++ b)
    rwa [← enc_append, ← List.append_assoc] at this
  have b2 : rsIsCharBoundary (enc (a ++ m ++ b)) ((enc a).length + (enc m).length) = true := by
    have := rsIsCharBoundary_enc (enc (a ++ m)) b
    rwa [← enc_append, enc_append a m, List.length_append] at this
  rw [if_pos ⟨by omega, b1, b2⟩]
  simp [enc_append, List.append_assoc]

/-- **`&s[..n]` at the end of an encoded prefix** does not panic and gives the encoded prefix -/
theorem rsStrSlice_enc_prefix (a b : List Char) : rsStrSlice (enc (a ++ b)) 0 (enc a).length = .ok (enc a) := by
  have := rsStrGet_enc [] a b
  simp only [enc_nil, List.length_nil, Nat.zero_add, List.nil_append] at this
  unfold rsStrSlice
  rw [this]

theorem rsStrSlice_enc_take (cs : List Char) (k : Nat) :
    rsStrSlice (enc cs) 0 (enc (cs.take k)).length = .ok (enc (cs.take k)) := by
  have := rsStrSlice_enc_prefix (cs.take k) (cs.drop k)
  rwa [List.take_append_drop] at this

/-! ### `char::is_whitespace` -/

/-- `char::is_whitespace`: the code points with the Unicode property White_Space -/
def rsIsWhitespaceCp (n : Nat) : Bool :=
  (9 ≤ n && n ≤ 13) || n = 32 || n = 0x85 || n = 0xA0 || n = 0x1680 || (0x2000 ≤ n && n ≤ 0x200A) ||
    n = 0x2028 || n = 0x2029 || n = 0x202F || n = 0x205F || n = 0x3000

theorem rsWsLen_cont (a : Nat) (r : List Nat) (h1 : 128 ≤ a) (h2 : a < 192) : rsWsLen (a :: r) = 0 := by
  have c1 : ((9 ≤ a && a ≤ 13) || a = 32) = false := by
    simp only [Bool.or_eq_false_iff, Bool.and_eq_false_iff, decide_eq_false_iff_not]; omega
  have c2 : decide (a = 194) = false := by simp only [decide_eq_false_iff_not]; omega
  have c3 : decide (a = 225) = false := by simp only [decide_eq_false_iff_not]; omega
  have c4 : decide (a = 226) = false := by simp only [decide_eq_false_iff_not]; omega
  have c5 : decide (a = 227) = false := by simp only [decide_eq_false_iff_not]; omega
  rcases r with _ | ⟨x, _ | ⟨y, r⟩⟩ <;>
    simp only [rsWsLen, c1, c2, c3, c4, c5, Bool.false_and, Bool.or_false, Bool.false_eq_true, ↓reduceIte]

theorem rsWsLen_ascii (a : Nat) (r : List Nat) (h : a < 128) :
    rsWsLen (a :: r) = if (9 ≤ a ∧ a ≤ 13) ∨ a = 32 then 1 else 0 := by
  have c2 : decide (a = 194) = false := by simp only [decide_eq_false_iff_not]; omega
  have c3 : decide (a = 225) = false := by simp only [decide_eq_false_iff_not]; omega
  have c4 : decide (a = 226) = false := by simp only [decide_eq_false_iff_not]; omega
  have c5 : decide (a = 227) = false := by simp only [decide_eq_false_iff_not]; omega
  rcases r with _ | ⟨x, _ | ⟨y, r⟩⟩ <;>
    simp only [rsWsLen, c2, c3, c4, c5, Bool.false_and, Bool.or_false, Bool.false_eq_true, ↓reduceIte,
      Bool.or_eq_true, Bool.and_eq_true, decide_eq_true_eq]

theorem rsWsLen_two (a b : Nat) (r : List Nat) (h1 : 194 ≤ a) (h2 : a < 224) :
    rsWsLen (a :: b :: r) = if a = 194 ∧ (b = 133 ∨ b = 160) then 2 else 0 := by
  have c1 : ((9 ≤ a && a ≤ 13) || a = 32) = false := by
    simp only [Bool.or_eq_false_iff, Bool.and_eq_false_iff, decide_eq_false_iff_not]; omega
  have c3 : decide (a = 225) = false := by simp only [decide_eq_false_iff_not]; omega
  have c4 : decide (a = 226) = false := by simp only [decide_eq_false_iff_not]; omega
  have c5 : decide (a = 227) = false := by simp only [decide_eq_false_iff_not]; omega
  rcases r with _ | ⟨y, r⟩ <;>
    simp only [rsWsLen, c1, c3, c4, c5, Bool.false_and, Bool.or_false, Bool.false_eq_true, ↓reduceIte,
      Bool.or_eq_true, Bool.and_eq_true, decide_eq_true_eq]

theorem rsWsLen_three (a b c : Nat) (r : List Nat) (h1 : 224 ≤ a) (h2 : a < 240) :
    rsWsLen (a :: b :: c :: r) =
      if (a = 225 ∧ b = 154 ∧ c = 128) ∨ (a = 226 ∧ b = 128 ∧ ((128 ≤ c ∧ c ≤ 138) ∨ c = 168 ∨ c = 169 ∨ c = 175))
        ∨ (a = 226 ∧ b = 129 ∧ c = 159) ∨ (a = 227 ∧ b = 128 ∧ c = 128) then 3 else 0 := by
  have c1 : ((9 ≤ a && a ≤ 13) || a = 32) = false := by
    simp only [Bool.or_eq_false_iff, Bool.and_eq_false_iff, decide_eq_false_iff_not]; omega
  have c2 : decide (a = 194) = false := by simp only [decide_eq_false_iff_not]; omega
  simp only [rsWsLen, c1, c2, Bool.false_and, Bool.false_eq_true, ↓reduceIte,
      Bool.or_eq_true, Bool.and_eq_true, decide_eq_true_eq, and_assoc, or_assoc]

theorem rsWsLen_four (a : Nat) (r : List Nat) (h1 : 240 ≤ a) : rsWsLen (a :: r) = 0 := by
  have c1 : ((9 ≤ a && a ≤ 13) || a = 32) = false := by
    simp only [Bool.or_eq_false_iff, Bool.and_eq_false_iff, decide_eq_false_iff_not]; omega
  have c2 : decide (a = 194) = false := by simp only [decide_eq_false_iff_not]; omega
  have c3 : decide (a = 225) = false := by simp only [decide_eq_false_iff_not]; omega
  have c4 : decide (a = 226) = false := by simp only [decide_eq_false_iff_not]; omega
  have c5 : decide (a = 227) = false := by simp only [decide_eq_false_iff_not]; omega
  rcases r with _ | ⟨x, _ | ⟨y, r⟩⟩ <;>
    simp only [rsWsLen, c1, c2, c3, c4, c5, Bool.false_and, Bool.or_false, Bool.false_eq_true, ↓reduceIte]

theorem rsIsWhitespaceCp_iff (n : Nat) : rsIsWhitespaceCp n = true ↔
    ((9 ≤ n ∧ n ≤ 13) ∨ n = 32 ∨ n = 0x85 ∨ n = 0xA0 ∨ n = 0x1680 ∨ (0x2000 ≤ n ∧ n ≤ 0x200A) ∨
    n = 0x2028 ∨ n = 0x2029 ∨ n = 0x202F ∨ n = 0x205F ∨ n = 0x3000) := by
  simp only [rsIsWhitespaceCp, Bool.or_eq_true, Bool.and_eq_true, decide_eq_true_eq, or_assoc]

theorem rsWsLen_utf8EncNat (n : Nat) (h : n < 0x110000) (rest : List Nat) :
    rsWsLen (utf8EncNat n ++ rest) = if rsIsWhitespaceCp n then rsLenUtf8 n else 0 := by
  have hw := rsIsWhitespaceCp_iff n
  unfold utf8EncNat rsLenUtf8
  by_cases h1 : n < 128
  · simp only [h1, ↓reduceIte, List.cons_append, List.nil_append]
    rw [rsWsLen_ascii n rest h1]
    by_cases hc : rsIsWhitespaceCp n = true
    · rw [if_pos hc, if_pos (by rw [hw] at hc; omega)]
    · rw [if_neg hc, if_neg (by rw [hw] at hc; omega)]
  · by_cases h2 : n < 2048
    · simp only [h1, h2, ↓reduceIte, List.cons_append, List.nil_append]
      rw [rsWsLen_two _ _ _ (by omega) (by omega)]
      by_cases hc : rsIsWhitespaceCp n = true
      · rw [if_pos hc, if_pos (by rw [hw] at hc; omega)]
      · rw [if_neg hc, if_neg (by rw [hw] at hc; omega)]
    · by_cases h3 : n < 65536
      · simp only [h1, h2, h3, ↓reduceIte, List.cons_append, List.nil_append]
        rw [rsWsLen_three _ _ _ _ (by omega) (by omega)]
        by_cases hc : rsIsWhitespaceCp n = true
        · rw [if_pos hc, if_pos]
          rw [hw] at hc
          rcases hc with hc | hc | hc | hc | hc | hc | hc | hc | hc | hc | hc
          · omega
          · omega
          · omega
          · omega
          · subst hc; decide
          · exact Or.inr (Or.inl ⟨by omega, by omega, Or.inl (by omega)⟩)
          · subst hc; decide
          · subst hc; decide
          · subst hc; decide
          · subst hc; decide
          · subst hc; decide
        · rw [if_neg hc, if_neg]
          intro hg
          apply hc
          rw [hw]
          rcases hg with ⟨e1, e2, e3⟩ | ⟨e1, e2, e3⟩ | ⟨e1, e2, e3⟩ | ⟨e1, e2, e3⟩
          · have : n = 0x1680 := by omega
            omega
          · have : 0x2000 ≤ n ∧ n ≤ 0x200a ∨ n = 0x2028 ∨ n = 0x2029 ∨ n = 0x202f := by omega
            omega
          · have : n = 0x205f := by omega
            omega
          · have : n = 0x3000 := by omega
            omega
      · simp only [h1, h2, h3, ↓reduceIte, List.cons_append, List.nil_append]
        rw [rsWsLen_four _ _ (by omega)]
        by_cases hc : rsIsWhitespaceCp n = true
        · rw [hw] at hc; omega
        · rw [if_neg hc]

theorem rsWsLen_encChar (c : Char) (rest : List Nat) :
    rsWsLen (encChar c ++ rest) = if rsIsWhitespaceCp c.toNat then (encChar c).length else 0 := by
  rw [encChar_length]; exact rsWsLen_utf8EncNat _ (char_toNat_lt c) rest

/-! ### `split_whitespace` on encoded text -/

theorem rsSplitWsFuel_nil (n : Nat) (cur : List Nat) :
    rsSplitWsFuel n cur [] = if cur.isEmpty then [] else [cur.reverse] := by
  cases n <;> rfl

theorem rsSplitWsFuel_succ_cons (n : Nat) (cur : List Nat) (b : Nat) (r : List Nat) :
    rsSplitWsFuel (n + 1) cur (b :: r) =
      if rsWsLen (b :: r) = 0 then rsSplitWsFuel n (b :: cur) r
      else (if cur.isEmpty then [] else [cur.reverse]) ++ rsSplitWsFuel n [] ((b :: r).drop (rsWsLen (b :: r))) := rfl

/-- continuation bytes are pushed onto the current word one by one -/
theorem rsSplitWsFuel_conts (conts : List Nat) (hc : ∀ b ∈ conts, 128 ≤ b ∧ b < 192) :
    ∀ (fuel : Nat) (cur rest : List Nat), conts.length ≤ fuel →
      rsSplitWsFuel fuel cur (conts ++ rest) = rsSplitWsFuel (fuel - conts.length) (conts.reverse ++ cur) rest := by
  induction conts with
  | nil => intro fuel cur rest _; simp
  | cons b conts ih =>
    intro fuel cur rest hf
    cases fuel with
    | zero => simp at hf
    | succ f =>
      have hb := hc b (List.mem_cons_self ..)
      simp only [List.length_cons, Nat.add_le_add_iff_right] at hf
      rw [List.cons_append, rsSplitWsFuel_succ_cons, if_pos (rsWsLen_cont b _ hb.1 hb.2),
        ih (fun x hx => hc x (List.mem_cons_of_mem _ hx)) f (b :: cur) rest hf]
      simp only [List.length_cons, Nat.add_sub_add_right, List.reverse_cons, List.append_assoc, List.singleton_append]

/-- a character that is not white space joins the current word with all its bytes -/
theorem rsSplitWsFuel_encChar_nonws (c : Char) (hw : rsIsWhitespaceCp c.toNat = false) (fuel : Nat)
    (cur rest : List Nat) (hf : (encChar c).length ≤ fuel) :
    rsSplitWsFuel fuel cur (encChar c ++ rest) =
      rsSplitWsFuel (fuel - (encChar c).length) ((encChar c).reverse ++ cur) rest := by
  have h0 := rsWsLen_encChar c rest
  rw [hw] at h0
  simp only [Bool.false_eq_true, ↓reduceIte] at h0
  obtain ⟨lead, conts, he, _, _, hconts⟩ := encChar_shape c
  rw [he] at h0 hf ⊢
  cases fuel with
  | zero => simp at hf
  | succ f =>
    simp only [List.length_cons, Nat.add_le_add_iff_right] at hf
    rw [List.cons_append] at h0
    rw [List.cons_append, rsSplitWsFuel_succ_cons, if_pos h0, rsSplitWsFuel_conts conts hconts f _ rest hf]
    simp only [List.length_cons, Nat.add_sub_add_right, List.reverse_cons, List.append_assoc, List.singleton_append]

/-- a white-space character ends the current word and is dropped whole -/
theorem rsSplitWsFuel_encChar_ws (c : Char) (hw : rsIsWhitespaceCp c.toNat = true) (fuel : Nat)
    (cur rest : List Nat) :
    rsSplitWsFuel (fuel + 1) cur (encChar c ++ rest) =
      (if cur.isEmpty then [] else [cur.reverse]) ++ rsSplitWsFuel fuel [] rest := by
  have h0 := rsWsLen_encChar c rest
  rw [hw] at h0
  simp only [↓reduceIte] at h0
  obtain ⟨lead, conts, he, _, _, _⟩ := encChar_shape c
  have hd : (encChar c ++ rest).drop (encChar c).length = rest := List.drop_left
  rw [he] at h0 hd ⊢
  rw [List.cons_append] at h0 hd ⊢
  rw [rsSplitWsFuel_succ_cons, if_neg (by rw [h0]; simp), h0, hd]

/-- inside a word: the first piece is the current word extended up to the next white space -/
theorem rsSplitWsFuel_word_head (cs : List Char) : ∀ (fuel : Nat) (cur : List Nat), cur ≠ [] →
    (enc cs).length ≤ fuel →
    (rsSplitWsFuel fuel cur (enc cs)).head? =
      some (cur.reverse ++ enc (cs.takeWhile fun c => !rsIsWhitespaceCp c.toNat)) := by
  induction cs with
  | nil =>
    intro fuel cur hcur _
    rw [enc_nil, rsSplitWsFuel_nil]
    cases cur with
    | nil => exact absurd rfl hcur
    | cons x cur => simp
  | cons c cs ih =>
    intro fuel cur hcur hf
    rw [enc_cons, List.length_append] at hf
    by_cases hw : rsIsWhitespaceCp c.toNat = true
    · have hpos : 1 ≤ (encChar c).length := by rw [encChar_length]; exact rsLenUtf8_pos _
      obtain ⟨f, rfl⟩ : ∃ f, fuel = f + 1 := ⟨fuel - 1, by omega⟩
      rw [enc_cons, rsSplitWsFuel_encChar_ws c hw]
      cases cur with
      | nil => exact absurd rfl hcur
      | cons x cur => simp [List.takeWhile, hw]
    · have hw' : rsIsWhitespaceCp c.toNat = false := by simpa using hw
      rw [enc_cons, rsSplitWsFuel_encChar_nonws c hw' fuel cur _ (by omega),
        ih _ _ (by simp [hcur]) (by omega)]
      simp [List.takeWhile, hw']

/-- **`s.split_whitespace().next()` on encoded text**: skip the leading white space, take up to the next -/
theorem rsSplitWsFuel_head (cs : List Char) : ∀ (fuel : Nat), (enc cs).length ≤ fuel →
    (rsSplitWsFuel fuel [] (enc cs)).head? =
      match cs.dropWhile (fun c => rsIsWhitespaceCp c.toNat) with
      | [] => none
      | w => some (enc (w.takeWhile fun c => !rsIsWhitespaceCp c.toNat)) := by
  induction cs with
  | nil => intro fuel _; rw [enc_nil, rsSplitWsFuel_nil]; rfl
  | cons c cs ih =>
    intro fuel hf
    rw [enc_cons, List.length_append] at hf
    have hpos : 1 ≤ (encChar c).length := by rw [encChar_length]; exact rsLenUtf8_pos _
    by_cases hw : rsIsWhitespaceCp c.toNat = true
    · obtain ⟨f, rfl⟩ : ∃ f, fuel = f + 1 := ⟨fuel - 1, by omega⟩
      rw [enc_cons, rsSplitWsFuel_encChar_ws c hw]
      simp only [List.isEmpty_nil, ↓reduceIte, List.nil_append, List.dropWhile_cons, hw]
      exact ih f (by omega)
    · have hw' : rsIsWhitespaceCp c.toNat = false := by simpa using hw
      rw [enc_cons, rsSplitWsFuel_encChar_nonws c hw' fuel [] _ (by omega),
        rsSplitWsFuel_word_head cs _ _ (by obtain ⟨l, t, he, _⟩ := encChar_shape c; rw [he]; simp) (by omega)]
      simp [List.dropWhile, List.takeWhile, hw']

theorem rsSplitWhitespace_enc_head (cs : List Char) :
    (rsSplitWhitespace (enc cs)).head? =
      match cs.dropWhile (fun c => rsIsWhitespaceCp c.toNat) with
      | [] => none
      | w => some (enc (w.takeWhile fun c => !rsIsWhitespaceCp c.toNat)) :=
  rsSplitWsFuel_head cs _ (Nat.le_succ _)

/-! ### `&str` = encoded text -/

theorem char_ofNat_toNat (n : Nat) (h : n.isValidChar) : (Char.ofNat n).toNat = n := by
  simp [Char.ofNat, h, Char.ofNatAux, Char.toNat]

theorem enc_ofNat_cons (n : Nat) (hv : n < 0xd800 ∨ (0xdfff < n ∧ n < 0x110000)) (bytes : List Nat)
    (he : utf8EncNat n = bytes) (cs : List Char) (rest : List Nat) (ih : enc cs = rest) :
    enc (Char.ofNat n :: cs) = bytes ++ rest := by
  rw [enc_cons, ih, encChar, char_ofNat_toNat n hv, he]

/-- **every `&str` is an `enc cs`**: a byte string that `str::from_utf8` accepts is the encoding of a list of
characters (so quantifying over `cs : List Char` covers all values of type `&str`) -/
theorem exists_enc_of_rsUtf8Valid (s : List Nat) (h : rsUtf8Valid s = true) : ∃ cs, enc cs = s := by
  fun_induction rsUtf8Valid s
  case case1 => exact ⟨[], rfl⟩
  case case2 a r ha ih =>
    obtain ⟨cs, hcs⟩ := ih h
    exact ⟨Char.ofNat a :: cs, enc_ofNat_cons a (by omega) [a] (by simp [utf8EncNat, ha]) cs r hcs⟩
  case case3 a ha b r hr ih =>
    simp only [Bool.and_eq_true, decide_eq_true_eq] at h
    obtain ⟨cs, hcs⟩ := ih h.2
    obtain ⟨n, hn⟩ : ∃ n, n = (a - 192) * 64 + (b - 128) := ⟨_, rfl⟩
    suffices he : utf8EncNat n = [a, b] from ⟨_, enc_ofNat_cons n (by omega) [a, b] he cs r hcs⟩
    unfold utf8EncNat
    rw [if_neg (by omega), if_pos (by omega)]
    congr 1
    · omega
    · congr 1; omega
  case case4 a ha b h2 c r hr ih =>
    simp only [Bool.and_eq_true, decide_eq_true_eq] at h
    obtain ⟨⟨hb, hc⟩, hrest⟩ := h
    obtain ⟨cs, hcs⟩ := ih hrest
    have hb' : 128 ≤ b ∧ b ≤ 191 ∧ (a = 224 → 160 ≤ b) ∧ (a = 237 → b ≤ 159) := by
      split at hb
      · simp only [Bool.and_eq_true, decide_eq_true_eq] at hb; omega
      · split at hb <;> simp only [Bool.and_eq_true, decide_eq_true_eq] at hb <;> omega
    obtain ⟨n, hn⟩ : ∃ n, n = (a - 224) * 4096 + (b - 128) * 64 + (c - 128) := ⟨_, rfl⟩
    suffices he : utf8EncNat n = [a, b, c] from ⟨_, enc_ofNat_cons n (by omega) [a, b, c] he cs r hcs⟩
    unfold utf8EncNat
    rw [if_neg (by omega), if_neg (by omega), if_pos (by omega)]
    congr 1
    · omega
    · congr 1
      · omega
      · congr 1; omega
  case case5 a ha b h2 c h3 d r hr ih =>
    simp only [Bool.and_eq_true, decide_eq_true_eq] at h
    obtain ⟨⟨⟨hb, hc⟩, hd⟩, hrest⟩ := h
    obtain ⟨cs, hcs⟩ := ih hrest
    have hb' : 128 ≤ b ∧ b ≤ 191 ∧ (a = 240 → 144 ≤ b) ∧ (a = 244 → b ≤ 143) := by
      split at hb
      · simp only [Bool.and_eq_true, decide_eq_true_eq] at hb; omega
      · split at hb <;> simp only [Bool.and_eq_true, decide_eq_true_eq] at hb <;> omega
    obtain ⟨n, hn⟩ : ∃ n, n = (a - 240) * 262144 + (b - 128) * 4096 + (c - 128) * 64 + (d - 128) := ⟨_, rfl⟩
    suffices he : utf8EncNat n = [a, b, c, d] from ⟨_, enc_ofNat_cons n (by omega) [a, b, c, d] he cs r hcs⟩
    unfold utf8EncNat
    rw [if_neg (by omega), if_neg (by omega), if_neg (by omega)]
    congr 1
    · omega
    · congr 1
      · omega
      · congr 1
        · omega
        · congr 1; omega
  all_goals exact absurd h (by simp)

/-- conversely, encoded text is accepted by `str::from_utf8` -/
theorem rsUtf8Valid_enc (cs : List Char) : rsUtf8Valid (enc cs) = true := by
  induction cs with
  | nil => rfl
  | cons c cs ih =>
    have hv := char_toNat_valid c
    rw [enc_cons, encChar]
    generalize c.toNat = n at hv
    unfold utf8EncNat
    by_cases h1 : n < 128
    · simp only [h1, ↓reduceIte, List.cons_append, List.nil_append]
      rw [rsUtf8Valid.eq_def]
      simp only [h1, ↓reduceIte, ih]
    · by_cases h2 : n < 2048
      · have a1 : ¬ 192 + n / 64 < 128 := by omega
        have a2 : 194 ≤ 192 + n / 64 ∧ 192 + n / 64 ≤ 223 := by omega
        have a3 : 128 ≤ 128 + n % 64 := by omega
        have a4 : 128 + n % 64 ≤ 191 := by omega
        simp only [h1, h2, ↓reduceIte, List.cons_append, List.nil_append]
        rw [rsUtf8Valid.eq_def]
        simp only [a1, a2, a3, a4, ↓reduceIte, ih, and_self, decide_true, Bool.and_self]
      · by_cases h3 : n < 65536
        · simp only [h1, h2, h3, ↓reduceIte, List.cons_append, List.nil_append]
          rw [rsUtf8Valid.eq_def]
          have a1 : ¬ 224 + n / 4096 < 128 := by omega
          have a2 : ¬ (194 ≤ 224 + n / 4096 ∧ 224 + n / 4096 ≤ 223) := by omega
          have a3 : 224 ≤ 224 + n / 4096 ∧ 224 + n / 4096 ≤ 239 := by omega
          have a4 : 128 ≤ 128 + n % 64 := by omega
          have a5 : 128 + n % 64 ≤ 191 := by omega
          simp only [a1, a2, a3, a4, a5, ↓reduceIte, ih, and_self, decide_true, Bool.and_true]
          split
          · simp only [Bool.and_eq_true, decide_eq_true_eq]; omega
          · split <;> (simp only [Bool.and_eq_true, decide_eq_true_eq]; omega)
        · simp only [h1, h2, h3, ↓reduceIte, List.cons_append, List.nil_append]
          rw [rsUtf8Valid.eq_def]
          have a1 : ¬ 240 + n / 262144 < 128 := by omega
          have a2 : ¬ (194 ≤ 240 + n / 262144 ∧ 240 + n / 262144 ≤ 223) := by omega
          have a3 : ¬ (224 ≤ 240 + n / 262144 ∧ 240 + n / 262144 ≤ 239) := by omega
          have a3' : 240 ≤ 240 + n / 262144 ∧ 240 + n / 262144 ≤ 244 := by omega
          have a4 : 128 ≤ 128 + n % 64 := by omega
          have a5 : 128 + n % 64 ≤ 191 := by omega
          have a6 : 128 ≤ 128 + n / 64 % 64 := by omega
          have a7 : 128 + n / 64 % 64 ≤ 191 := by omega
          simp only [a1, a2, a3, a3', a4, a5, a6, a7, ↓reduceIte, ih, and_self, decide_true, Bool.and_true]
          split
          · simp only [Bool.and_eq_true, decide_eq_true_eq]; omega
          · split <;> (simp only [Bool.and_eq_true, decide_eq_true_eq]; omega)
/-- the characters of an encoded text are determined by its bytes -/
theorem enc_injective {a b : List Char} (h : enc a = enc b) : a = b := by
  have hm : a.map Char.toNat = b.map Char.toNat := by rw [← rsChars_enc, ← rsChars_enc, h]
  exact (List.map_inj_right fun x y e => Char.ext (UInt32.toNat_inj.1 e)).1 hm

end SmVerif.Rs
