import SmVerif.Generated.RsVlq
import SmVerif.Generated.RsEncoder
import SmVerif.Proofs.Vlq
import SmVerif.Tie.PreludeLemmas
/-
Tie proofs for src/vlq.rs (`SmVerif/Generated/RsVlq.lean`) and `encode_vlq_diff` of src/encoder.rs
(`SmVerif/Generated/RsEncoder.lean`): the generated functions compute the same as the hand-written
model `SmVerif/Model/Vlq.lean`, for all inputs that the Rust types allow.
-/
namespace SmVerif.Tie.Vlq
open SmVerif SmVerif.Rs SmVerif.Vlq

/-! ### the tables -/

theorem tie_b64_table : Gen.RsVlq.B64 = Consts.b64Table := by decide +kernel

theorem tie_b64_chars : Gen.RsVlq.B64_CHARS = Consts.b64Chars := by decide +kernel

/-- every byte has an entry in the reverse table -/
theorem b64Table_length : Consts.b64Table.length = 256 := by decide +kernel

/-- entries of the reverse table are below 64 -/
theorem b64Table_lt : ∀ c, c < 256 → Consts.b64Table.getD c 0 < 64 := by decide +kernel

theorem b64Chars_length : Consts.b64Chars.length = 64 := by decide +kernel

/-- the alphabet is ASCII (the `out.push(B64_CHARS[digit] as char)` cast is below 128) -/
theorem b64Char_lt : ∀ d, d < 64 → b64Char d < 128 := by decide +kernel

/-- the table lookup of the generated code, for a byte -/
theorem rsIndex_b64 (c : Nat) (hc : c < 256) :
    rsIndex Gen.RsVlq.B64 c = .ok (Consts.b64Table.getD c 0) := by
  rw [tie_b64_table]
  exact rsIndex_getD _ _ _ (by rw [b64Table_length]; exact hc)

theorem b64Rev_eq (c : Nat) (hc : c < 256) :
    b64Rev c = (if Consts.b64Table.getD c 0 < 0 then none else some (Consts.b64Table.getD c 0).toNat) := by
  unfold b64Rev
  have h : c < Consts.b64Table.length := by rw [b64Table_length]; exact hc
  simp only [List.getD, List.getElem?_eq_getElem h, Option.getD_some]

theorem rsIndex_b64Chars (d : Nat) (hd : d < 64) :
    rsIndex Gen.RsVlq.B64_CHARS d = .ok (b64Char d) := by
  rw [tie_b64_chars]
  exact rsIndex_getD _ _ _ (by rw [b64Chars_length]; exact hd)

/-! ### `parse_vlq_segment_into` -/

/-- what `parse_vlq_segment_into` does with the final loop state -/
def parseFin : Int × Nat × List Int → Res (List Int)
  | (cur, shift, rv) =>
    if cur ≠ 0 ∨ shift ≠ 0 then .error .leftover
    else if rv = [] then .error .novalues
    else .ok rv

theorem parse_into_eq (s : List Nat) (rv : List Int) :
    Gen.RsVlq.parse_vlq_segment_into s rv
      = (Gen.RsVlq.parse_vlq_segment_into.loop1 s 0 0 rv).bind parseFin := by
  simp only [Gen.RsVlq.parse_vlq_segment_into]
  generalize Gen.RsVlq.parse_vlq_segment_into.loop1 s 0 0 rv = r
  cases r with
  | error e => rfl
  | ok st => obtain ⟨a, b, c⟩ := st; rfl

/-- The generalised loop lemma: generated state `(cur, shift, rv)` against the model's
`(cur, k, acc)` with `shift = 5 * k` and `rv = acc.reverse`. -/
theorem loop1_eq_parseLoop : ∀ (s : List Nat), (∀ c ∈ s, c < 256) → ∀ (cur : Int) (k : Nat) (acc : List Int),
    (Gen.RsVlq.parse_vlq_segment_into.loop1 s cur (5 * k) acc.reverse).bind parseFin
      = parseLoop s cur k acc := by
  intro s
  induction s with
  | nil =>
    intro _ cur k acc
    simp only [Gen.RsVlq.parse_vlq_segment_into.loop1, parseLoop, decLoop, Except.bind, parseFin]
    have h1 : (5 * k ≠ 0) = (k ≠ 0) := by apply propext; omega
    simp only [h1, List.reverse_eq_nil_iff]
  | cons c cs ih =>
    intro hs cur k acc
    have hc : c < 256 := hs c (by simp)
    have ih' := ih (fun x hx => hs x (by simp [hx]))
    simp only [Gen.RsVlq.parse_vlq_segment_into.loop1, parseLoop]
    rw [rsIndex_b64 c hc, b64Rev_eq c hc]
    have hlt := b64Table_lt c hc
    generalize Consts.b64Table.getD c 0 = enc at hlt
    simp only
    by_cases hneg : enc < 0
    · simp only [hneg, ↓reduceIte]; rfl
    · simp only [hneg, ↓reduceIte]
      by_cases hk : 13 ≤ k
      · have hsh : ¬ 5 * k < 64 := by omega
        simp only [hsh, hk, ↓reduceIte]; rfl
      · have hsh : 5 * k < 64 := by omega
        have hsh' : 5 * k + 5 ≤ 4294967295 := by omega
        have hval : ((enc.toNat % 32 : Nat) : Int) = enc % 32 := by omega
        have hcont : (enc / 2 ^ 5 = 0) = (enc.toNat / 32 = 0) := by
          apply propext
          have : (2 : Int) ^ 5 = 32 := rfl
          rw [this]; omega
        simp only [hsh, hk, hsh', ↓reduceIte, andS64_31, andS64_1, wrapS_64, hval, hcont]
        generalize cur + wrap64 (enc % 32 * 2 ^ (5 * k)) = cur'
        by_cases hr : -9223372036854775808 ≤ cur' ∧ cur' ≤ 9223372036854775807
        · have hin : inI64 cur' = true := by unfold inI64; simp only [Bool.and_eq_true, decide_eq_true_eq]; exact hr
          simp only [hr, hin, and_self, ↓reduceIte, Bool.not_true, Bool.false_eq_true]
          have h21 : (2 : Int) ^ 1 = 2 := rfl
          by_cases hz : enc.toNat / 32 = 0
          · simp only [hz, ↓reduceIte, h21]
            have hmin : cur' / 2 ≠ -9223372036854775808 := by omega
            unfold finish
            by_cases hsg : cur' % 2 ≠ 0
            · simp only [hsg, hmin, ne_eq, not_false_eq_true, ↓reduceIte]
              rw [← ih' 0 0 (-(cur' / 2) :: acc), List.reverse_cons]
            · simp only [hsg, ↓reduceIte]
              rw [← ih' 0 0 ((cur' / 2) :: acc), List.reverse_cons]
          · simp only [hz, ↓reduceIte]
            rw [← ih' cur' (k + 1) acc, Nat.mul_add]
        · have hin : inI64 cur' = false := by
            unfold inI64
            rw [Bool.eq_false_iff]
            simp only [ne_eq, Bool.and_eq_true, decide_eq_true_eq]; exact hr
          simp only [hr, hin, ↓reduceIte, Bool.not_false]; rfl

/-- `parse_vlq_segment_into(segment, &mut rv)` with an arbitrary initial `rv`: the model loop started
with the (reversed) accumulator `rv`. -/
theorem tie_parse_vlq_segment_into (s : List Nat) (hs : ∀ c ∈ s, c < 256) (rv : List Int) :
    Gen.RsVlq.parse_vlq_segment_into s rv = Vlq.parseLoop s 0 0 rv.reverse := by
  rw [parse_into_eq]
  have := loop1_eq_parseLoop s hs 0 0 rv.reverse
  rw [List.reverse_reverse] at this
  exact this

theorem tie_parse_vlq_segment (s : List Nat) (hs : ∀ c ∈ s, c < 256) :
    Gen.RsVlq.parse_vlq_segment s = Vlq.parseVlq s := by
  unfold Gen.RsVlq.parse_vlq_segment Vlq.parseVlq
  simp only
  rw [tie_parse_vlq_segment_into s hs []]
  simp only [List.reverse_nil]
  cases parseLoop s 0 0 [] <;> rfl

-- "AAgBC" with a pending `rv`
example : ∀ c ∈ [65, 65, 103, 66, 67], c < 256 := by decide
example : Gen.RsVlq.parse_vlq_segment_into [65, 65, 103, 66, 67] [7, -3] = .ok [7, -3, 0, 0, 16, 1] := by
  rw [tie_parse_vlq_segment_into _ (by decide)]; rfl

/-! ### `encode_vlq` -/

theorem pow2_5 : (2 : Int) ^ 5 = 32 := rfl

theorem toU64_small (x : Int) (d : Nat) (hx : x = (d : Int)) (hd : d < 64) : toU 64 x = d := by
  subst hx
  rw [toU_natCast]
  exact Nat.mod_eq_of_lt (by have : 2 ^ 64 = 18446744073709551616 := rfl; omega)

/-- pushing the digit `d`: the lookup `B64_CHARS[digit as usize]` succeeds -/
theorem push_digit (x : Int) (d : Nat) (hx : x = (d : Int)) (hd : d < 64) :
    rsIndex Gen.RsVlq.B64_CHARS (toU 64 x) = .ok (b64Char d) := by
  rw [toU64_small x d hx hd, rsIndex_b64Chars d hd]

/-- one iteration of the generated `loop` on a non-negative value, in the shape of `encDigits` -/
theorem enc_loop1_step (fuel n : Nat) (out : List Nat) :
    Gen.RsVlq.encode_vlq.loop1 (fuel + 1) (n : Int) out =
      if n < 32 then .ok (0, out ++ [b64Char n])
      else Gen.RsVlq.encode_vlq.loop1 fuel ((n / 32 : Nat) : Int) (out ++ [b64Char (n % 32 + 32)]) := by
  simp only [Gen.RsVlq.encode_vlq.loop1, andS64_31, pow2_5]
  have h32 : wrapS 64 (1 * 32) = 32 := rfl
  by_cases h : n < 32
  · have h1 : ¬ ((n : Int) / 32 > 0) := by omega
    have h2 : (n : Int) / 32 = 0 := by omega
    simp only [h1, h, ↓reduceIte]
    rw [push_digit ((n : Int) % 32) n (by omega) (by omega)]
    simp only [h2, b64Char_lt n (by omega), ↓reduceIte]
  · have h1 : (n : Int) / 32 > 0 := by omega
    have h2 : ¬ (n : Int) / 32 = 0 := by omega
    simp only [h1, h, ↓reduceIte, h32]
    rw [orS64_32 _ (by omega) (by omega)]
    rw [push_digit ((n : Int) % 32 + 32) (n % 32 + 32) (by omega) (by omega)]
    simp only [h2, b64Char_lt (n % 32 + 32) (by omega), ↓reduceIte]
    rfl

/-- the generated `loop` on a non-negative value emits `encDigits`; `fuel + 1` iterations are enough
for values below `32 ^ (fuel + 1)` -/
theorem enc_loop1_nat : ∀ (fuel n : Nat) (out : List Nat), n < 32 ^ (fuel + 1) →
    Gen.RsVlq.encode_vlq.loop1 (fuel + 1) (n : Int) out = .ok (0, out ++ (encDigits n).map b64Char) := by
  intro fuel
  induction fuel with
  | zero =>
    intro n out h
    simp only [Nat.zero_add, Nat.pow_one] at h
    rw [enc_loop1_step, encDigits]
    simp only [h, ↓reduceIte, ↓reduceDIte, List.map_cons, List.map_nil]
  | succ fuel ih =>
    intro n out h
    rw [enc_loop1_step, encDigits]
    by_cases h32 : n < 32
    · simp only [h32, ↓reduceIte, ↓reduceDIte, List.map_cons, List.map_nil]
    · simp only [h32, ↓reduceIte, ↓reduceDIte, List.map_cons]
      rw [ih (n / 32) _ (by rw [Nat.pow_succ] at h; omega)]
      simp only [List.append_assoc, List.cons_append, List.nil_append]

/-- on a negative value the generated `loop` never reaches `num == 0`: out of fuel for every fuel -/
theorem enc_loop1_neg : ∀ (fuel : Nat) (z : Int) (out : List Nat), z < 0 →
    Gen.RsVlq.encode_vlq.loop1 fuel z out = .error .diverge := by
  intro fuel
  induction fuel with
  | zero => intro z out _; rfl
  | succ fuel ih =>
    intro z out hz
    simp only [Gen.RsVlq.encode_vlq.loop1, andS64_31, pow2_5]
    have h1 : ¬ (z / 32 > 0) := by omega
    have h2 : ¬ z / 32 = 0 := by omega
    simp only [h1, ↓reduceIte]
    rw [push_digit (z % 32) (z % 32).toNat (by omega) (by omega)]
    simp only [h2, b64Char_lt (z % 32).toNat (by omega), ↓reduceIte]
    exact ih (z / 32) _ (by omega)

/-- with any fuel the generated `loop` either runs out of fuel or returns what it returns with enough -/
theorem enc_loop1_any : ∀ (fuel n : Nat) (out : List Nat),
    Gen.RsVlq.encode_vlq.loop1 fuel (n : Int) out = .error .diverge ∨
    Gen.RsVlq.encode_vlq.loop1 fuel (n : Int) out = .ok (0, out ++ (encDigits n).map b64Char) := by
  intro fuel
  induction fuel with
  | zero => intro n out; exact .inl rfl
  | succ fuel ih =>
    intro n out
    rw [enc_loop1_step, encDigits]
    by_cases h32 : n < 32
    · simp only [h32, ↓reduceIte, ↓reduceDIte, List.map_cons, List.map_nil, or_true]
    · simp only [h32, ↓reduceIte, ↓reduceDIte, List.map_cons]
      cases ih (n / 32) (out ++ [b64Char (n % 32 + 32)]) with
      | inl h => exact .inl h
      | inr h =>
        right; rw [h]
        simp only [List.append_assoc, List.cons_append, List.nil_append]

/-- the zig-zag value that `encode_vlq` computes before its loop, as the model writes it -/
def zigWrap (n : Int) : Int := if n < 0 then wrap64 (2 * (-n)) + 1 else wrap64 (2 * n)

theorem encodeVlq_eq (n : Int) :
    Vlq.encodeVlq n =
      if n = -9223372036854775808 then .error .panic
      else if zigWrap n < 0 then .error .diverge
      else .ok ((encDigits (zigWrap n).toNat).map b64Char) := rfl

/-- `encode_vlq` is its prologue followed by the loop on `zigWrap n`.  (No range hypothesis is needed:
the checked `+ 1` after the wrapping `<< 1` can never overflow, the shifted value being even.) -/
theorem encode_vlq_eq (fuel : Nat) (out : List Nat) (n : Int) :
    Gen.RsVlq.encode_vlq fuel out n =
      if n = -9223372036854775808 then .error .panic
      else (Gen.RsVlq.encode_vlq.loop1 fuel (zigWrap n) out).map (·.2) := by
  have h21 : (2 : Int) ^ 1 = 2 := rfl
  simp only [Gen.RsVlq.encode_vlq, wrapS_64, h21, zigWrap]
  by_cases hmin : n = -9223372036854775808
  · subst hmin; rfl
  · by_cases hneg : n < 0
    · have e : -n * 2 = 2 * -n := by omega
      have hr := wrap64_range (2 * -n)
      have hr' : wrap64 (2 * -n) + 1 ≤ 9223372036854775807 := by unfold wrap64; omega
      have hr'' : -9223372036854775808 ≤ wrap64 (2 * -n) + 1 := by omega
      simp only [hmin, hneg, ne_eq, not_false_eq_true, ↓reduceIte, e, hr', hr'', and_self]
      generalize Gen.RsVlq.encode_vlq.loop1 fuel (wrap64 (2 * -n) + 1) out = r
      cases r with
      | error e => rfl
      | ok st => rfl
    · have e : n * 2 = 2 * n := by omega
      simp only [hmin, hneg, ↓reduceIte, e]
      generalize Gen.RsVlq.encode_vlq.loop1 fuel (wrap64 (2 * n)) out = r
      cases r with
      | error e => rfl
      | ok st => rfl

theorem zigWrap_le (n : Int) : zigWrap n ≤ 9223372036854775807 := by
  unfold zigWrap wrap64; split <;> omega

/-- `encode_vlq(out, num)`: all three outcomes of the model (value, `panic` for `i64::MIN`, `diverge`
when the zig-zag form wraps to a negative number).  The range hypothesis `hn` is the Rust type; the
proof does not use it. -/
theorem tie_encode_vlq (out : List Nat) (n : Int)
    (hn : -9223372036854775808 ≤ n ∧ n ≤ 9223372036854775807) (fuel : Nat) (hf : 14 ≤ fuel) :
    Gen.RsVlq.encode_vlq fuel out n = (Vlq.encodeVlq n).map (out ++ ·) := by
  have _ := hn
  rw [encode_vlq_eq fuel out n, encodeVlq_eq]
  by_cases hmin : n = -9223372036854775808
  · simp only [hmin, ↓reduceIte]; rfl
  · simp only [hmin, ↓reduceIte]
    by_cases hz : zigWrap n < 0
    · simp only [hz, ↓reduceIte]
      rw [enc_loop1_neg fuel _ out hz]; rfl
    · simp only [hz, ↓reduceIte]
      have hle := zigWrap_le n
      obtain ⟨f, rfl⟩ : ∃ f, fuel = f + 1 := ⟨fuel - 1, by omega⟩
      have hcast : zigWrap n = ((zigWrap n).toNat : Int) := by omega
      have hb : (zigWrap n).toNat < 32 ^ (f + 1) := by
        have h1 : 32 ^ 13 ≤ 32 ^ (f + 1) := Nat.pow_le_pow_right (by omega) (by omega)
        have h2 : (32 : Nat) ^ 13 = 36893488147419103232 := rfl
        omega
      rw [hcast, enc_loop1_nat f _ out hb, ← hcast]
      rfl

/-- the two outcomes of the model that are not values hold for EVERY fuel -/
theorem tie_encode_vlq_diverge (out : List Nat) (n : Int)
    (hn : -9223372036854775808 ≤ n ∧ n ≤ 9223372036854775807)
    (hd : Vlq.encodeVlq n = .error .diverge) (fuel : Nat) :
    Gen.RsVlq.encode_vlq fuel out n = .error .diverge := by
  have _ := hn
  rw [encode_vlq_eq fuel out n]
  rw [encodeVlq_eq] at hd
  by_cases hmin : n = -9223372036854775808
  · simp [hmin] at hd
  · simp only [hmin, ↓reduceIte] at hd ⊢
    by_cases hz : zigWrap n < 0
    · rw [enc_loop1_neg fuel _ out hz]; rfl
    · simp [hz] at hd

theorem tie_encode_vlq_panic (out : List Nat) (n : Int)
    (hn : -9223372036854775808 ≤ n ∧ n ≤ 9223372036854775807)
    (hd : Vlq.encodeVlq n = .error .panic) (fuel : Nat) :
    Gen.RsVlq.encode_vlq fuel out n = .error .panic := by
  have _ := hn
  rw [encode_vlq_eq fuel out n]
  rw [encodeVlq_eq] at hd
  by_cases hmin : n = -9223372036854775808
  · simp only [hmin, ↓reduceIte]
  · simp only [hmin, ↓reduceIte] at hd
    by_cases hz : zigWrap n < 0
    · simp [hz] at hd
    · simp [hz] at hd

/-- with ANY fuel, `encode_vlq` either reports `diverge` or agrees with the model -/
theorem tie_encode_vlq_any (out : List Nat) (n : Int)
    (hn : -9223372036854775808 ≤ n ∧ n ≤ 9223372036854775807) (fuel : Nat) :
    Gen.RsVlq.encode_vlq fuel out n = .error .diverge ∨
    Gen.RsVlq.encode_vlq fuel out n = (Vlq.encodeVlq n).map (out ++ ·) := by
  have _ := hn
  rw [encode_vlq_eq fuel out n, encodeVlq_eq]
  by_cases hmin : n = -9223372036854775808
  · simp only [hmin, ↓reduceIte]; exact .inr rfl
  · simp only [hmin, ↓reduceIte]
    by_cases hz : zigWrap n < 0
    · rw [enc_loop1_neg fuel _ out hz]; exact .inl rfl
    · simp only [hz, ↓reduceIte]
      have hcast : zigWrap n = ((zigWrap n).toNat : Int) := by omega
      rw [hcast]
      cases enc_loop1_any fuel (zigWrap n).toNat out with
      | inl h => rw [h]; exact .inl rfl
      | inr h => rw [h, ← hcast]; exact .inr rfl

-- a value, the divergent value `2^62` (its zig-zag form wraps to `i64::MIN`), and `i64::MIN`
example : Gen.RsVlq.encode_vlq 14 [59] (-1000) = .ok [59, 120, 43, 66] := by
  rw [tie_encode_vlq _ _ (by omega) _ (by omega), encodeVlq_of_zig _ (by omega) (by omega)]
  simp [zig, encDigits, b64Char, Consts.b64Chars, Except.map]
example : Vlq.encodeVlq 4611686018427387904 = .error .diverge := rfl
example : Gen.RsVlq.encode_vlq 1000000 [] 4611686018427387904 = .error .diverge :=
  tie_encode_vlq_diverge _ _ (by omega) rfl _
example : Gen.RsVlq.encode_vlq 14 [] (-9223372036854775808) = .error .panic :=
  tie_encode_vlq_panic _ _ (by omega) rfl _

/-! ### `generate_vlq_segment` -/

theorem gen_loop1_eq (fuel : Nat) (hf : 14 ≤ fuel) : ∀ (nums : List Int),
    (∀ x ∈ nums, -9223372036854775808 ≤ x ∧ x ≤ 9223372036854775807) → ∀ (rv : List Nat),
    Gen.RsVlq.generate_vlq_segment.loop1 fuel nums rv = (Vlq.encodeSeg nums).map (rv ++ ·) := by
  intro nums
  induction nums with
  | nil => intro _ rv; simp only [Gen.RsVlq.generate_vlq_segment.loop1, encodeSeg, map_ok, List.append_nil]
  | cons x xs ih =>
    intro h rv
    have hx := h x (by simp)
    have ih' := ih (fun y hy => h y (by simp [hy]))
    simp only [Gen.RsVlq.generate_vlq_segment.loop1, encodeSeg]
    rw [tie_encode_vlq rv x hx fuel hf]
    cases encodeVlq x with
    | error e => rfl
    | ok a =>
      simp only [map_ok]
      rw [ih' (rv ++ a)]
      cases encodeSeg xs with
      | error e => rfl
      | ok b => simp only [map_ok, List.append_assoc]

theorem tie_generate_vlq_segment (nums : List Int)
    (hn : ∀ x ∈ nums, -9223372036854775808 ≤ x ∧ x ≤ 9223372036854775807) (fuel : Nat) (hf : 14 ≤ fuel) :
    Gen.RsVlq.generate_vlq_segment fuel nums = Vlq.encodeSeg nums := by
  simp only [Gen.RsVlq.generate_vlq_segment]
  rw [gen_loop1_eq fuel hf nums hn []]
  cases encodeSeg nums with
  | error e => rfl
  | ok b => simp only [map_ok, List.nil_append]

example : ∀ x ∈ [0, -1, 16, 4611686018427387903], -9223372036854775808 ≤ x ∧ x ≤ 9223372036854775807 := by
  decide
-- one value whose zig-zag form wraps makes the whole segment diverge, in the code as in the model
example : Gen.RsVlq.generate_vlq_segment 14 [0, 9223372036854775807] = .error .diverge := by
  rw [tie_generate_vlq_segment _ (by decide) _ (by omega)]; rfl

theorem gen_loop1_diverge : ∀ (nums : List Int),
    (∀ x ∈ nums, -9223372036854775808 ≤ x ∧ x ≤ 9223372036854775807) →
    Vlq.encodeSeg nums = .error .diverge → ∀ (fuel : Nat) (rv : List Nat),
    Gen.RsVlq.generate_vlq_segment.loop1 fuel nums rv = .error .diverge := by
  intro nums
  induction nums with
  | nil => intro _ hd; simp [encodeSeg] at hd
  | cons x xs ih =>
    intro h hd fuel rv
    have hx := h x (by simp)
    have ih' := ih (fun y hy => h y (by simp [hy]))
    simp only [Gen.RsVlq.generate_vlq_segment.loop1]
    simp only [encodeSeg] at hd
    cases tie_encode_vlq_any rv x hx fuel with
    | inl hdv => rw [hdv]
    | inr heq =>
      rw [heq]
      cases hex : encodeVlq x with
      | error e =>
        rw [hex] at hd
        simp only [Except.error.injEq] at hd
        subst hd; rfl
      | ok a =>
        rw [hex] at hd
        simp only [map_ok]
        cases hes : encodeSeg xs with
        | error e =>
          rw [hes] at hd
          simp only [Except.error.injEq] at hd
          subst hd
          exact ih' hes fuel _
        | ok b => rw [hes] at hd; simp at hd

/-- when the model says `generate_vlq_segment` hangs, the generated code runs out of EVERY fuel -/
theorem tie_generate_vlq_segment_diverge (nums : List Int)
    (hn : ∀ x ∈ nums, -9223372036854775808 ≤ x ∧ x ≤ 9223372036854775807)
    (hd : Vlq.encodeSeg nums = .error .diverge) (fuel : Nat) :
    Gen.RsVlq.generate_vlq_segment fuel nums = .error .diverge := by
  simp only [Gen.RsVlq.generate_vlq_segment]
  rw [gen_loop1_diverge nums hn hd fuel []]

example : Gen.RsVlq.generate_vlq_segment 3 [0, 9223372036854775807] = .error .diverge :=
  tie_generate_vlq_segment_diverge _ (by decide) rfl _

/-! ### `encode_vlq_diff` (encoder.rs) -/

theorem tie_encode_vlq_diff (out : List Nat) (a b : Nat) (ha : a < 2 ^ 32) (hb : b < 2 ^ 32)
    (fuel : Nat) (hf : 14 ≤ fuel) :
    Gen.RsEncoder.encode_vlq_diff fuel out a b = (Vlq.encodeVlq ((a : Int) - b)).map (out ++ ·) := by
  have h32 : 2 ^ 32 = 4294967296 := rfl
  have hr : -9223372036854775808 ≤ (a : Int) - b ∧ (a : Int) - b ≤ 9223372036854775807 := by omega
  simp only [Gen.RsEncoder.encode_vlq_diff, hr, and_self, ↓reduceIte]
  rw [tie_encode_vlq out _ hr fuel hf]
  cases encodeVlq ((a : Int) - b) <;> rfl

/-- for `u32` arguments `encode_vlq_diff` appends the digits of the zig-zag form of `a - b` … -/
theorem tie_encode_vlq_diff_ok (out : List Nat) (a b : Nat) (ha : a < 2 ^ 32) (hb : b < 2 ^ 32)
    (fuel : Nat) (hf : 14 ≤ fuel) :
    Gen.RsEncoder.encode_vlq_diff fuel out a b
      = .ok (out ++ (encDigits (zig ((a : Int) - b))).map b64Char) := by
  have h32 : 2 ^ 32 = 4294967296 := rfl
  rw [tie_encode_vlq_diff out a b ha hb fuel hf, encodeVlq_of_zig _ (by omega) (by omega)]
  rfl

/-- … so it neither panics nor diverges -/
theorem tie_encode_vlq_diff_safe (out : List Nat) (a b : Nat) (ha : a < 2 ^ 32) (hb : b < 2 ^ 32)
    (fuel : Nat) (hf : 14 ≤ fuel) :
    (Gen.RsEncoder.encode_vlq_diff fuel out a b).safe := by
  rw [tie_encode_vlq_diff_ok out a b ha hb fuel hf]
  trivial

example : Gen.RsEncoder.encode_vlq_diff 14 [44] 0 4294967295 = .ok [44, 47, 47, 47, 47, 47, 47, 72] := by
  rw [tie_encode_vlq_diff_ok _ _ _ (by decide) (by decide) _ (by omega)]
  simp [zig, encDigits, b64Char, Consts.b64Chars]

/-! ### axioms -/
#print axioms tie_b64_table
#print axioms tie_b64_chars
#print axioms tie_parse_vlq_segment_into
#print axioms tie_parse_vlq_segment
#print axioms tie_encode_vlq
#print axioms tie_encode_vlq_diverge
#print axioms tie_encode_vlq_panic
#print axioms tie_encode_vlq_any
#print axioms tie_generate_vlq_segment
#print axioms tie_generate_vlq_segment_diverge
#print axioms tie_encode_vlq_diff
#print axioms tie_encode_vlq_diff_ok
#print axioms tie_encode_vlq_diff_safe

end SmVerif.Tie.Vlq
