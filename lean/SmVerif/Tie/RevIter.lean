import SmVerif.Generated.RsRevIter
import SmVerif.Model.NameRes
import SmVerif.Proofs.NameResIter
import SmVerif.Props.C17
import SmVerif.Tie.JsIdent
import SmVerif.Tie.Lookup
import SmVerif.Tie.PreludeLemmas20
/-
Tie proofs for `RevTokenIter::next` (sourceview.rs, `SmVerif/Generated/RsRevIter.lean`): the generated
`rev_token_iter_next` (with its scans `.loop1` … `.loop4`) computes what the hand-written model
`SmVerif/Model/NameRes.lean` says (`fwd`, `bwd`, `selectLine`, `findOffset`, `emit`, `revNext`, `revCollect` - the
functions the C17 theorems about the walk are about).

The generated code works on UTF-8 bytes (`List Nat`), the model on `List Char`; the bridge is `Rs.enc` of
`Tie/PreludeLemmas14.lean`, as in `Tie/JsIdent.lean`: a `&str` is exactly an `enc cs` (`JsIdent.str_is_enc`), so
the theorems quantify over all `cs : List Char` / line tables `lines : List (List Char)`, i.e. over all `&str`
(`lines_are_enc`, `tie_rev_token_iter_next_str` put it in terms of byte strings).

* A. `tie_loop1` / `tie_loop2` (general loop states: `loop1_eq` … `loop4_eq`): the forward scan = `fwd`, the
  backward scan = `bwd` (checked subtraction included); the `usize` additions cannot overflow as long as
  `off + len ≤ usize::MAX` (forward) / `idx + utf16 length ≤ usize::MAX` (backward).
* B. `tie_rev_token_iter_next`: one equation `generated = (revNext …).map (outOf tok)`; read off case by case in
  `tie_rev_token_iter_next_ok` / `_error`; `tie_rev_token_iter_next_none` for an exhausted iterator.
* C. `genCollect` (the generated step iterated as `take(n)` does) and `tie_rev_collect`: it is `revCollect`;
  `gen_c17_rev_no_panic`, `gen_c17_rev_cache_correct`: the C17 statements about the walk, on the generated code.

Hypotheses (all within the Rust types, except the one marked):
* `hS`, `hC`, `hW`: as in `Tie/JsIdent.lean` (the predicates as the generated code takes them vs. the model's `Preds`;
  the model's `isWs` is `char::is_whitespace`);
* `hgl`: `sv.get_line(i)` is the `i`-th entry of the line table; `hlines`: every line is shorter than `2^63` bytes
  (`len ≤ isize::MAX` for every `&str`);
* the cache: the model writes the two `!0` sentinels as `none`, the generated code tests
  `last_byte_offset == !0`.  So a model cache `some c` corresponds to the Rust tuple only if
  `c.off ≠ usize::MAX` (hypothesis `hcm`: `c.off < 2^64 - 1`, and the cached line is shorter than `2^63`).
  This is an invariant, not a restriction of the inputs: `next` only ever stores an offset smaller than the
  length of the line (`revNext_cache_inv`), and the iterator starts with `None`.  Outside the invariant the two
  sides differ - see `sentinel_discrepancy` at the end.
No hypothesis on `dst_line`, `dst_col`, `idx`, `offset`, on the order of the tokens, or on the token being one of
the map's.
-/
namespace SmVerif.Tie.RevIter
open SmVerif SmVerif.Rs SmVerif.NameRes SmVerif.Gen.RsRevIter SmVerif.Gen.RsTypes SmVerif.Tie.JsIdent

/-! ### `s.get(..n)` / `s.get(n..)` on a `&str` are the model's `takeBytes` / `dropBytes` -/

theorem tie_len16 (c : Char) : len16 c = rsLenUtf16 c.toNat := rfl

theorem u16len_le_u8len (cs : Str) : u16len cs ≤ u8len cs := by
  induction cs with
  | nil => exact Nat.le_refl _
  | cons c cs ih =>
    have := rsLenUtf16_le_rsLenUtf8 c.toNat
    simp only [u16len, u8len, tie_len8, tie_len16]
    omega

/-- `line.get(..n)`: `None` off a character boundary or past the end, otherwise the encoded prefix -/
theorem tie_take_bytes (cs : Str) : ∀ n, rsStrGet (enc cs) 0 n = (takeBytes cs n).map enc := by
  induction cs with
  | nil =>
    intro n
    rw [rsStrGet_zero]
    by_cases h : n = 0
    · subst h; rfl
    · have : rsIsCharBoundary (enc []) n = false := rsIsCharBoundary_gt _ _ (by simp only [enc_nil, List.length_nil]; omega)
      simp only [this, takeBytes, h, ↓reduceIte, Option.map_none, Bool.false_eq_true]
  | cons c cs ih =>
    intro n
    by_cases h0 : n = 0
    · subst h0
      rw [rsStrGet_zero_zero]
      simp only [takeBytes, ↓reduceIte, Option.map_some, enc_nil]
    · by_cases h1 : n < len8 c
      · rw [rsStrGet_zero_enc_cons_lt c cs n (by omega) (by rw [← tie_len8]; exact h1)]
        simp only [takeBytes, h0, h1, ↓reduceIte, Option.map_none]
      · rw [rsStrGet_zero_enc_cons_ge c cs n (by rw [← tie_len8]; omega), ← tie_len8, ih]
        simp only [takeBytes, h0, h1, ↓reduceIte]
        cases takeBytes cs (n - len8 c) <;> rfl

/-- `line.get(n..)` -/
theorem tie_drop_bytes (cs : Str) : ∀ n, rsStrGet (enc cs) n (enc cs).length = (dropBytes cs n).map enc := by
  induction cs with
  | nil =>
    intro n
    rw [rsStrGet_to_end]
    by_cases h : n = 0
    · subst h; rfl
    · have : rsIsCharBoundary (enc []) n = false := rsIsCharBoundary_gt _ _ (by simp only [enc_nil, List.length_nil]; omega)
      simp only [this, dropBytes, h, ↓reduceIte, Option.map_none, Bool.false_eq_true]
  | cons c cs ih =>
    intro n
    by_cases h0 : n = 0
    · subst h0
      rw [rsStrGet_to_end_zero]
      simp only [dropBytes, ↓reduceIte, Option.map_some]
    · by_cases h1 : n < len8 c
      · rw [rsStrGet_to_end_enc_cons_lt c cs n (by omega) (by rw [← tie_len8]; exact h1)]
        simp only [dropBytes, h0, h1, ↓reduceIte, Option.map_none]
      · rw [rsStrGet_to_end_enc_cons_ge c cs n (by rw [← tie_len8]; omega), ← tie_len8, ih]
        simp only [dropBytes, h0, h1, ↓reduceIte]

/-! ### A. the two scans -/

/-- the second loop variable (`idx`, the UTF-16 column reached), which the model does not keep: both scans
advance it by `len_utf16` until it reaches the limit -/
def scanIdx (lim : Nat) : Str → Nat → Nat
  | [], idx => idx
  | c :: cs, idx => if idx ≥ lim then idx else scanIdx lim cs (idx + len16 c)

section
variable {SV : Type} [DecidableEq SV]

/-- the forward scan, from any loop state: generated = model as long as the byte offset stays a `usize`
(`off + len ≤ usize::MAX`; `idx ≤ off` then keeps the column a `usize` too, as `len_utf16 ≤ len_utf8`) -/
theorem loop1_eq (idS idC : Nat → Bool) (gl : SV → Nat → Option (List Nat)) (tok : Token) :
    ∀ (cs : Str) (off idx : Nat), off + (enc cs).length ≤ 18446744073709551615 → idx ≤ off →
      rev_token_iter_next.loop1 idS idC gl tok (cs.map Char.toNat) off idx =
        .ok (fwd (toTok tok.raw).dc cs off idx, scanIdx (toTok tok.raw).dc cs idx) := by
  intro cs
  induction cs with
  | nil => intro off idx _ _; rfl
  | cons c cs ih =>
    intro off idx hb hi
    rw [enc_cons, List.length_append, encChar_length] at hb
    have h16 := rsLenUtf16_le_rsLenUtf8 c.toNat
    rw [List.map_cons]
    unfold rev_token_iter_next.loop1
    simp only [(tie_token_getters tok).2.1, fwd, scanIdx, tie_len8, tie_len16]
    by_cases hc : idx ≥ (toTok tok.raw).dc
    · simp only [hc, ↓reduceIte]
    · simp only [hc, ↓reduceIte]
      rw [if_pos (by omega), if_pos (by omega)]
      exact ih _ _ (by omega) (by omega)

/-- the same loop, as translated a second time (the `idx = 0` copy of the body) -/
theorem loop3_eq (idS idC : Nat → Bool) (gl : SV → Nat → Option (List Nat)) (tok : Token) :
    ∀ (cs : Str) (off idx : Nat), off + (enc cs).length ≤ 18446744073709551615 → idx ≤ off →
      rev_token_iter_next.loop3 idS idC gl tok (cs.map Char.toNat) off idx =
        .ok (fwd (toTok tok.raw).dc cs off idx, scanIdx (toTok tok.raw).dc cs idx) := by
  intro cs
  induction cs with
  | nil => intro off idx _ _; rfl
  | cons c cs ih =>
    intro off idx hb hi
    rw [enc_cons, List.length_append, encChar_length] at hb
    have h16 := rsLenUtf16_le_rsLenUtf8 c.toNat
    rw [List.map_cons]
    unfold rev_token_iter_next.loop3
    simp only [(tie_token_getters tok).2.1, fwd, scanIdx, tie_len8, tie_len16]
    by_cases hc : idx ≥ (toTok tok.raw).dc
    · simp only [hc, ↓reduceIte]
    · simp only [hc, ↓reduceIte]
      rw [if_pos (by omega), if_pos (by omega)]
      exact ih _ _ (by omega) (by omega)

/-- the backward scan, from any loop state: generated = model, the `.error .panic` of the checked
`new_offset -= c.len_utf8()` included; `idx + (UTF-16 length) ≤ usize::MAX` keeps `idx += c.len_utf16()` a `usize` -/
theorem loop2_eq (idS idC : Nat → Bool) (gl : SV → Nat → Option (List Nat)) (move : Nat) :
    ∀ (cs : Str) (off idx : Nat), idx + u16len cs ≤ 18446744073709551615 →
      rev_token_iter_next.loop2 idS idC gl move (cs.map Char.toNat) off idx =
        (bwd move cs off idx).map fun o => (o, scanIdx move cs idx) := by
  intro cs
  induction cs with
  | nil => intro off idx _; rfl
  | cons c cs ih =>
    intro off idx hb
    simp only [u16len, tie_len16] at hb
    rw [List.map_cons]
    unfold rev_token_iter_next.loop2
    simp only [bwd, scanIdx, tie_len8, tie_len16]
    by_cases hc : idx ≥ move
    · simp only [hc, ↓reduceIte]; rfl
    · simp only [hc, ↓reduceIte]
      by_cases ho : off < rsLenUtf8 c.toNat
      · have ho' : ¬ rsLenUtf8 c.toNat ≤ off := by omega
        simp only [ho, ho', ↓reduceIte]; rfl
      · have ho' : rsLenUtf8 c.toNat ≤ off := by omega
        have hi' : idx + rsLenUtf16 c.toNat ≤ 18446744073709551615 := by omega
        simp only [ho, ho', hi', ↓reduceIte]
        exact ih _ _ (by omega)

theorem loop4_eq (idS idC : Nat → Bool) (gl : SV → Nat → Option (List Nat)) (move : Nat) :
    ∀ (cs : Str) (off idx : Nat), idx + u16len cs ≤ 18446744073709551615 →
      rev_token_iter_next.loop4 idS idC gl move (cs.map Char.toNat) off idx =
        (bwd move cs off idx).map fun o => (o, scanIdx move cs idx) := by
  intro cs
  induction cs with
  | nil => intro off idx _; rfl
  | cons c cs ih =>
    intro off idx hb
    simp only [u16len, tie_len16] at hb
    rw [List.map_cons]
    unfold rev_token_iter_next.loop4
    simp only [bwd, scanIdx, tie_len8, tie_len16]
    by_cases hc : idx ≥ move
    · simp only [hc, ↓reduceIte]; rfl
    · simp only [hc, ↓reduceIte]
      by_cases ho : off < rsLenUtf8 c.toNat
      · have ho' : ¬ rsLenUtf8 c.toNat ≤ off := by omega
        simp only [ho, ho', ↓reduceIte]; rfl
      · have ho' : rsLenUtf8 c.toNat ≤ off := by omega
        have hi' : idx + rsLenUtf16 c.toNat ≤ 18446744073709551615 := by omega
        simp only [ho, ho', hi', ↓reduceIte]
        exact ih _ _ (by omega)

/-- **A, forward scan.**  `for c in line.chars() { if idx >= dst_col {break}; off += c.len_utf8(); idx += c.len_utf16() }`
from `(0, 0)` over a `&str` `enc cs` of at most `usize::MAX` bytes (every `&str` has fewer than `2^63`): no overflow,
and the offset found is the model's `fwd`. -/
theorem tie_loop1 (idS idC : Nat → Bool) (gl : SV → Nat → Option (List Nat)) (tok : Token) (cs : Str)
    (hlen : (enc cs).length ≤ 18446744073709551615) :
    rev_token_iter_next.loop1 idS idC gl tok (rsChars (enc cs)) 0 0 =
      .ok (fwd tok.raw.dst_col cs 0 0, scanIdx tok.raw.dst_col cs 0) := by
  rw [rsChars_enc]
  exact loop1_eq idS idC gl tok cs 0 0 (by omega) (Nat.le_refl 0)

/-- … for every value of type `&str` -/
theorem tie_loop1_str (idS idC : Nat → Bool) (gl : SV → Nat → Option (List Nat)) (tok : Token) (line : List Nat)
    (hv : rsUtf8Valid line = true) (hlen : line.length < 2 ^ 63) :
    ∃ cs, line = enc cs ∧ rev_token_iter_next.loop1 idS idC gl tok (rsChars line) 0 0 =
      .ok (fwd tok.raw.dst_col cs 0 0, scanIdx tok.raw.dst_col cs 0) := by
  obtain ⟨cs, rfl, _⟩ := str_is_enc line hv
  exact ⟨cs, rfl, tie_loop1 idS idC gl tok cs (by omega)⟩

/-- **A, backward scan.**  `for c in line.get(..n).unwrap_or("").chars().rev() { if idx >= move {break};
new_offset -= c.len_utf8(); idx += c.len_utf16() }` from `(off, 0)` over a prefix `enc p` of at most `usize::MAX`
bytes: the model's `bwd` on the reversed characters - `.error .panic` of the checked subtraction included. -/
theorem tie_loop2 (idS idC : Nat → Bool) (gl : SV → Nat → Option (List Nat)) (move off : Nat) (p : Str)
    (hlen : (enc p).length ≤ 18446744073709551615) :
    rev_token_iter_next.loop2 idS idC gl move (rsChars (enc p)).reverse off 0 =
      (bwd move p.reverse off 0).map fun o => (o, scanIdx move p.reverse 0) := by
  rw [rsChars_enc, ← List.map_reverse]
  apply loop2_eq
  have := u16len_le_u8len p
  rw [u16len_reverse, Nat.zero_add]
  rw [tie_u8len] at this
  omega

end

-- witnesses for A: an astral character before the column, a two-byte and an astral letter in the identifier
def exLine : Str := "/*😀*/function é𝒳(){a}".toList
def exRaw (dl dc name : Nat) : RawToken :=
  { dst_line := dl, dst_col := dc, src_line := 0, src_col := 0, src_id := 0, name_id := name, is_range := false }

example : (enc exLine).length ≤ 18446744073709551615 := by decide
-- column 21 (`a`) is byte 26: `😀` and `𝒳` count 2 columns / 4 bytes, `é` 1 column / 2 bytes
example : rev_token_iter_next.loop1 (SourceView := Unit) (fun _ => false) (fun _ => false) (fun _ _ => none)
    { raw := exRaw 0 21 0, sm := default, idx := 0, offset := 0 } (rsChars (enc exLine)) 0 0 = .ok (26, 21) := by
  rw [tie_loop1 _ _ _ _ exLine (by decide)]; rfl
-- a column inside the surrogate pair of `😀` (3): the scan stops after the pair
example : rev_token_iter_next.loop1 (SourceView := Unit) (fun _ => false) (fun _ => false) (fun _ _ => none)
    { raw := exRaw 0 3 0, sm := default, idx := 0, offset := 0 } (rsChars (enc exLine)) 0 0 = .ok (6, 4) := by
  rw [tie_loop1 _ _ _ _ exLine (by decide)]; rfl
-- back from byte 26 / column 21 by 6 columns: byte 17 (`é`)
example : rev_token_iter_next.loop2 (SourceView := Unit) (fun _ => false) (fun _ => false) (fun _ _ => none)
    6 (rsChars (enc (exLine.take 19))).reverse 26 0 = .ok (17, 6) := by
  rw [tie_loop2 _ _ _ _ _ (exLine.take 19) (by decide)]; rfl
-- the checked subtraction: a byte offset smaller than what is walked back over panics, on both sides
example : rev_token_iter_next.loop2 (SourceView := Unit) (fun _ => false) (fun _ => false) (fun _ _ => none)
    6 (rsChars (enc (exLine.take 19))).reverse 3 0 = .error .panic := by
  rw [tie_loop2 _ _ _ _ _ (exLine.take 19) (by decide)]; rfl

/-! ### B. one step of the iterator -/

/-- the Rust cache tuple `(line, dst_line, last_char_offset, last_byte_offset)` of a model `Cache` -/
def encCache (c : Cache) : List Nat × Nat × Nat × Nat := (enc c.text, c.line, c.col, c.off)

/-- what the model keeps of a `Token`: its index and its raw token -/
def tokKey (tok : Token) : Nat × Tok := (tok.idx, toTok tok.raw)

/-- the token the iterator will yield after `tok`: `self.sv.sm.get_token(idx - 1)` if `idx > 0`, else `None` -/
def nextTok (tok : Token) : Option Token :=
  if tok.idx > 0 then
    (tok.sm.tokens[tok.idx - 1]?).map fun raw => { raw := raw, sm := tok.sm, idx := tok.idx - 1, offset := 0 }
  else none

theorem nextTok_eq_get_token (tok : Token) (h : tok.idx > 0) :
    SourceMap.get_token tok.sm (tok.idx - 1) = .ok (nextTok tok) := by
  simp only [SourceMap.get_token, nextTok, h, ↓reduceIte]

/-- in the model's vocabulary `nextTok` is the `tok'` of `revNext` -/
theorem nextTok_key (tok : Token) :
    (nextTok tok).map tokKey =
      if tok.idx > 0 then ((tok.sm.tokens.map toTok)[tok.idx - 1]?).map fun u => (tok.idx - 1, u) else none := by
  unfold nextTok
  by_cases h : tok.idx > 0
  · simp only [h, ↓reduceIte, List.getElem?_map, Option.map_map]
    rfl
  · simp only [h, ↓reduceIte, Option.map_none]

/-- the result of the generated `next` for a yielded token `tok`, from the model's: the item is `tok` itself with
the identifier text encoded, the next token is `nextTok tok`, the cache is the model's, encoded -/
def outOf (tok : Token) (r : Option Item × RevIter) :
    Option (Token × Option (List Nat)) × Option Token × Option (List Nat × Nat × Nat × Nat) :=
  (r.1.map fun it => (tok, it.2.map enc), nextTok tok, r.2.cache.map encCache)

/-- how the generated code holds what `selectLine` returns: the line as bytes, `!0` for the absent offsets -/
def selOut (s : Str × Option (Nat × Nat)) : List Nat × Nat × Nat :=
  (enc s.1, (s.2.getD (18446744073709551615, 18446744073709551615)).1,
    (s.2.getD (18446744073709551615, 18446744073709551615)).2)

theorem dropBytes_length_le : ∀ (cs : Str) (n : Nat) (r : Str), dropBytes cs n = some r →
    (enc r).length ≤ (enc cs).length := by
  intro cs
  induction cs with
  | nil =>
    intro n r h
    simp only [dropBytes] at h
    split at h
    · simp only [Option.some.injEq] at h; subst h; exact Nat.le_refl _
    · exact absurd h (by simp)
  | cons c cs ih =>
    intro n r h
    simp only [dropBytes] at h
    split at h
    · simp only [Option.some.injEq] at h; subst h; exact Nat.le_refl _
    · split at h
      · exact absurd h (by simp)
      · have := ih _ _ h
        rw [enc_cons, List.length_append]; omega

/-- the line `selectLine` picks is shorter than `2^63`, a cached byte offset it passes on is not the sentinel -/
theorem selectLine_props (lines : List Str) (hlines : ∀ l ∈ lines, (enc l).length < 2 ^ 63) (cm : Option Cache)
    (hcm : ∀ c, cm = some c → c.off < 18446744073709551615 ∧ (enc c.text).length < 2 ^ 63) (t : Tok) :
    (enc (selectLine lines cm t).1).length < 2 ^ 63 ∧
      ∀ lc lo, (selectLine lines cm t).2 = some (lc, lo) → lo < 18446744073709551615 := by
  have hfresh : ∀ (r : Str × Option (Nat × Nat)),
      r = (match lines[t.dl]? with | some l => (l, none) | none => ([], none)) →
      (enc r.1).length < 2 ^ 63 ∧ ∀ lc lo, r.2 = some (lc, lo) → lo < 18446744073709551615 := by
    intro r hr
    cases hl : lines[t.dl]? with
    | none =>
      rw [hl] at hr; subst hr
      exact ⟨Nat.pow_pos (by omega), fun _ _ h => by simp at h⟩
    | some l =>
      rw [hl] at hr; subst hr
      exact ⟨hlines l (List.mem_of_getElem? hl), fun _ _ h => by simp at h⟩
  cases cm with
  | none => exact hfresh _ rfl
  | some c =>
    simp only [selectLine]
    by_cases h : c.line = t.dl
    · simp only [h, ↓reduceIte]
      refine ⟨(hcm c rfl).2, fun lc lo hh => ?_⟩
      simp only [Option.some.injEq, Prod.mk.injEq] at hh
      rw [← hh.2]; exact (hcm c rfl).1
    · simp only [h, ↓reduceIte]
      exact hfresh _ rfl

/-- `line.get(..n).unwrap_or("").chars().rev()` -/
theorem rsChars_take_getD (text : Str) (n : Nat) :
    (rsChars ((rsStrGet (enc text) 0 n).getD [])).reverse =
      ((takeBytes text n).getD []).reverse.map Char.toNat := by
  rw [tie_take_bytes]
  cases takeBytes text n with
  | none => simp only [Option.map_none, Option.getD_none, rsChars_nil, List.reverse_nil, List.map_nil]
  | some p => simp only [Option.map_some, Option.getD_some, rsChars_enc, List.map_reverse]

theorem takeBytes_getD_u16 (text : Str) (n : Nat) : u16len ((takeBytes text n).getD []).reverse ≤ n := by
  rw [u16len_reverse]
  cases h : takeBytes text n with
  | none => exact Nat.zero_le _
  | some p =>
    have := takeBytes_u8len text n p h
    have := u16len_le_u8len p
    simp only [Option.getD_some]; omega

set_option hygiene false in
/-- closes `⟨generated "remember where we were" + result⟩ = (emit P text (tokKey tok) tok' off).map (outOf tok)` with
`text`, `off`, `hlen : (enc text).length < 2^63`, `hidx : tok.idx > 0` (or its negation) in scope -/
local macro "emit_tail" : tactic => `(tactic| (
  simp only [emit, tie_u8len, tie_drop_bytes]
  by_cases hoff : off ≥ (enc text).length
  · simp only [hoff, ↓reduceIte, Except.map, outOf, nextTok, hidx, Option.map_some, Option.map_none]
  · simp only [hoff, ↓reduceIte]
    cases hd : dropBytes text off with
    | none => simp only [Option.map_none, Except.map, outOf, nextTok, hidx, ↓reduceIte, Option.map_some, encCache]
    | some rest =>
      have hrest : (enc rest).length < 2 ^ 63 := by
        have := dropBytes_length_le text off rest hd; omega
      simp only [Option.map_some, tie_get_javascript_token P idS idC hS hC hW rest hrest]
      cases getJavascriptToken P rest with
      | error e => simp only [Except.map]
      | ok r => simp only [Except.map, outOf, nextTok, hidx, ↓reduceIte, Option.map_some, encCache]))

set_option hygiene false in
/-- one `idx` branch of `next` (the body is translated twice: under `if idx > 0` with loops 1/2, else with loops 3/4),
after the `if` has been decided: the `if_chain!` is `selectLine`, then the forward or the backward scan, then `emit` -/
local macro "rev_branch" : tactic => `(tactic| (
  split
  · -- the selection of the line cannot fail
    rename_i x e heq
    exfalso
    rcases hl : lines[(toTok tok.raw).dl]? with _ | text <;> rcases cm with _ | c <;>
      simp only [Option.map_none, Option.map_some, encCache, hl, reduceCtorEq] at heq <;>
      split at heq <;> simp only [reduceCtorEq] at heq
  · rename_i x t7 heq
    have ht7 : t7 = selOut (selectLine lines cm (toTok tok.raw)) := by
      rcases hl : lines[(toTok tok.raw).dl]? with _ | text <;> rcases cm with _ | c
      · simp only [Option.map_none, hl, Except.ok.injEq] at heq
        subst heq
        simp only [selOut, selectLine, hl, Option.getD_none, enc_nil]
      · simp only [Option.map_none, Option.map_some, encCache, hl] at heq
        split at heq <;> rename_i hc <;> simp only [Except.ok.injEq] at heq <;> subst heq <;>
          simp only [selOut, selectLine, hl, hc, ↓reduceIte, Option.getD_none, Option.getD_some, enc_nil]
      · simp only [Option.map_none, Option.map_some, hl, Except.ok.injEq] at heq
        subst heq
        simp only [selOut, selectLine, hl, Option.getD_none]
      · simp only [Option.map_some, encCache, hl] at heq
        split at heq <;> rename_i hc <;> simp only [Except.ok.injEq] at heq <;> subst heq <;>
          simp only [selOut, selectLine, hl, hc, ↓reduceIte, Option.getD_none, Option.getD_some]
    subst ht7
    clear heq
    simp only [revNext, tokKey]
    generalize selectLine lines cm (toTok tok.raw) = sel at hlen hlo
    obtain ⟨text, last⟩ := sel
    simp only at hlen hlo
    simp only [selOut]
    rcases last with _ | ⟨lc, lo⟩
    · -- no cached offset: the forward scan
      simp only [Option.getD_none, ↓reduceIte, rsChars_enc, findOffset]
      first
        | rw [loop1_eq idS idC gl tok text 0 0 (by omega) (Nat.le_refl 0)]
        | rw [loop3_eq idS idC gl tok text 0 0 (by omega) (Nat.le_refl 0)]
      simp only []
      generalize fwd (toTok tok.raw).dc text 0 0 = off
      emit_tail
    · -- a cached offset (not the `!0` sentinel): the backward scan
      have hlo' := hlo lc lo rfl
      have hne : ¬ lo = 18446744073709551615 := by omega
      simp only [Option.getD_some, hne, ↓reduceIte, findOffset, rsChars_take_getD]
      by_cases hcol : (toTok tok.raw).dc ≤ lc
      · have hcol' : ¬ lc < (toTok tok.raw).dc := by omega
        simp only [hcol, hcol', ↓reduceIte]
        first
          | rw [loop2_eq idS idC gl _ _ lo 0 (by have := takeBytes_getD_u16 text lo; omega)]
          | rw [loop4_eq idS idC gl _ _ lo 0 (by have := takeBytes_getD_u16 text lo; omega)]
        cases bwd (lc - (toTok tok.raw).dc) ((takeBytes text lo).getD []).reverse lo 0 with
        | error e => simp only [Except.map]
        | ok off =>
          simp only [Except.map]
          emit_tail
      · -- `last_char_offset - dst_col` underflows: panic on both sides
        have hcol' : lc < (toTok tok.raw).dc := by omega
        simp only [hcol, hcol', ↓reduceIte, Except.map]))

section
variable {SV : Type} [DecidableEq SV]

/-- **B. `RevTokenIter::next`.**  Generated = model, as one equation: for every line table, every token `tok`
(any index, any offset, one of its map's tokens or not), every cache that is not a sentinel in disguise (`hcm`),
the generated `next` returns what the model's `revNext` returns on
`(tok.idx, toTok tok.raw)` / `tok.sm.tokens` - read through `outOf tok`: the yielded item is `tok` with the
model's identifier text encoded, the next token is `get_token(idx - 1)` (`nextTok`), the new cache is the model's,
encoded; and the same error (`.panic` of `last_char_offset - dst_col` or of `new_offset -= len_utf8`) when the
model fails. -/
theorem tie_rev_token_iter_next (P : Preds) (idS idC : Nat → Bool) (hS : ∀ c : Char, idS c.toNat = P.idStart c)
    (hC : ∀ c : Char, idC c.toNat = P.idContinue c) (hW : ∀ c : Char, P.isWs c = rsIsWhitespaceCp c.toNat)
    (gl : SV → Nat → Option (List Nat)) (sv : SV) (lines : List Str)
    (hgl : ∀ i, gl sv i = (lines[i]?).map enc) (hlines : ∀ l ∈ lines, (enc l).length < 2 ^ 63)
    (tok : Token) (cm : Option Cache)
    (hcm : ∀ c, cm = some c → c.off < 18446744073709551615 ∧ (enc c.text).length < 2 ^ 63) :
    rev_token_iter_next idS idC gl sv (some tok) (cm.map encCache) =
      (revNext P lines (tok.sm.tokens.map toTok) ⟨some (tokKey tok), cm⟩).map (outOf tok) := by
  have hdl := (tie_token_getters tok).1
  have hdc := (tie_token_getters tok).2.1
  obtain ⟨hlen, hlo⟩ := selectLine_props lines hlines cm hcm (toTok tok.raw)
  unfold rev_token_iter_next
  simp only [hdl, hdc, SourceMap.get_token, hgl]
  by_cases hidx : tok.idx > 0
  · have h1 : 1 ≤ tok.idx := hidx
    simp only [hidx, h1, ↓reduceIte]
    rev_branch
  · simp only [hidx, ↓reduceIte]
    rev_branch

/-- **B, exhausted iterator** (`self.token.take()?`): nothing is yielded, nothing changes - on both sides -/
theorem tie_rev_token_iter_next_none (P : Preds) (idS idC : Nat → Bool) (gl : SV → Nat → Option (List Nat)) (sv : SV)
    (lines : List Str) (ts : List Tok) (cm : Option Cache) (cache : Option (List Nat × Nat × Nat × Nat)) :
    rev_token_iter_next idS idC gl sv none cache = .ok (none, none, cache) ∧
    revNext P lines ts ⟨none, cm⟩ = .ok (none, ⟨none, cm⟩) := ⟨rfl, rfl⟩

end

/-! #### what the model's step returns: the token it was given, and the previous token -/

theorem emit_shape (P : Preds) (text : Str) (tk : Nat × Tok) (tok' : Option (Nat × Tok)) (off : Nat)
    (r : Option Item × RevIter) (h : emit P text tk tok' off = .ok r) :
    (∃ id, r.1 = some (tk, id)) ∧ r.2.tok = tok' ∧
      ∀ c, r.2.cache = some c → c.text = text ∧ c.off < (enc text).length := by
  simp only [emit] at h
  by_cases hoff : off ≥ u8len text
  · rw [if_pos hoff] at h
    simp only [Except.ok.injEq] at h
    subst h
    exact ⟨⟨none, rfl⟩, rfl, fun c hc => by simp at hc⟩
  · rw [if_neg hoff] at h
    rw [tie_u8len] at hoff
    have hlt : off < (enc text).length := Nat.lt_of_not_ge hoff
    cases hd : dropBytes text off with
    | none =>
      simp only [hd, Except.ok.injEq] at h
      subst h
      refine ⟨⟨none, rfl⟩, rfl, fun c hc => ?_⟩
      simp only [Option.some.injEq] at hc
      subst hc
      exact ⟨rfl, hlt⟩
    | some rest =>
      simp only [hd] at h
      cases hj : getJavascriptToken P rest with
      | error e => simp only [hj, reduceCtorEq] at h
      | ok q =>
        simp only [hj, Except.ok.injEq] at h
        subst h
        refine ⟨⟨q, rfl⟩, rfl, fun c hc => ?_⟩
        simp only [Option.some.injEq] at hc
        subst hc
        exact ⟨rfl, hlt⟩

/-- a successful step of the model yields the token it was given, moves to the previous token, and a cache it
leaves holds the selected line with a byte offset inside it -/
theorem revNext_shape (P : Preds) (lines : List Str) (ts : List Tok) (idx : Nat) (t : Tok) (cm : Option Cache)
    (r : Option Item × RevIter) (h : revNext P lines ts ⟨some (idx, t), cm⟩ = .ok r) :
    (∃ id, r.1 = some ((idx, t), id)) ∧
      r.2.tok = (if idx > 0 then (ts[idx - 1]?).map fun u => (idx - 1, u) else none) ∧
      ∀ c, r.2.cache = some c → c.text = (selectLine lines cm t).1 ∧ c.off < (enc c.text).length := by
  simp only [revNext] at h
  cases hf : findOffset (selectLine lines cm t).1 (selectLine lines cm t).2 t.dc with
  | error e => rw [hf] at h; simp only [reduceCtorEq] at h
  | ok off =>
    rw [hf] at h
    obtain ⟨h1, h2, h3⟩ := emit_shape P _ _ _ _ r h
    refine ⟨h1, h2, fun c hc => ?_⟩
    obtain ⟨h4, h5⟩ := h3 c hc
    exact ⟨h4, by rw [h4]; exact h5⟩

/-- the cache invariant of the iterator: a cached byte offset lies inside the cached line, which is shorter than `2^63`
bytes; in particular it is never the `!0` sentinel (`CacheInv.hcm`) -/
def CacheInv (cm : Option Cache) : Prop :=
  ∀ c, cm = some c → c.off < (enc c.text).length ∧ (enc c.text).length < 2 ^ 63

theorem CacheInv.none : CacheInv none := fun _ h => by simp at h

theorem CacheInv.hcm {cm : Option Cache} (h : CacheInv cm) :
    ∀ c, cm = some c → c.off < 18446744073709551615 ∧ (enc c.text).length < 2 ^ 63 := by
  intro c hc
  obtain ⟨h1, h2⟩ := h c hc
  exact ⟨by omega, h2⟩

/-- `next` maintains the invariant (this is why `hcm` of `tie_rev_token_iter_next` is no restriction) -/
theorem revNext_cache_inv (P : Preds) (lines : List Str) (hlines : ∀ l ∈ lines, (enc l).length < 2 ^ 63)
    (ts : List Tok) (idx : Nat) (t : Tok) (cm : Option Cache) (hcm : CacheInv cm)
    (r : Option Item × RevIter) (h : revNext P lines ts ⟨some (idx, t), cm⟩ = .ok r) : CacheInv r.2.cache := by
  intro c hc
  obtain ⟨h1, h2⟩ := (revNext_shape P lines ts idx t cm r h).2.2 c hc
  refine ⟨h2, ?_⟩
  rw [h1]
  exact (selectLine_props lines hlines cm hcm.hcm t).1

section
variable {SV : Type} [DecidableEq SV]

/-- **B, read off: a successful step.**  When the model yields `((i, t), ident)` and moves to state `st'`, the
generated `next` yields `tok` itself (`i = tok.idx`, `t = toTok tok.raw`) with `ident` encoded, its `cur` becomes
`get_token(idx - 1)` - the model's `st'.tok` - and its cache the model's, encoded; the new cache satisfies the
invariant again. -/
theorem tie_rev_token_iter_next_ok (P : Preds) (idS idC : Nat → Bool) (hS : ∀ c : Char, idS c.toNat = P.idStart c)
    (hC : ∀ c : Char, idC c.toNat = P.idContinue c) (hW : ∀ c : Char, P.isWs c = rsIsWhitespaceCp c.toNat)
    (gl : SV → Nat → Option (List Nat)) (sv : SV) (lines : List Str)
    (hgl : ∀ i, gl sv i = (lines[i]?).map enc) (hlines : ∀ l ∈ lines, (enc l).length < 2 ^ 63)
    (tok : Token) (cm : Option Cache) (hcm : CacheInv cm) (item : Option Item) (st' : RevIter)
    (h : revNext P lines (tok.sm.tokens.map toTok) ⟨some (tokKey tok), cm⟩ = .ok (item, st')) :
    ∃ ident, item = some (tokKey tok, ident) ∧ st'.tok = (nextTok tok).map tokKey ∧ CacheInv st'.cache ∧
      rev_token_iter_next idS idC gl sv (some tok) (cm.map encCache) =
        .ok (some (tok, ident.map enc), nextTok tok, st'.cache.map encCache) := by
  obtain ⟨⟨ident, h1⟩, h2, _⟩ := revNext_shape P lines _ _ _ cm _ h
  simp only at h1 h2
  refine ⟨ident, h1, by rw [nextTok_key]; exact h2,
    revNext_cache_inv P lines hlines _ _ _ cm hcm _ h, ?_⟩
  rw [tie_rev_token_iter_next P idS idC hS hC hW gl sv lines hgl hlines tok cm hcm.hcm, h]
  simp only [Except.map, outOf, h1, Option.map_some]

/-- **B, read off: errors to errors** (both directions) -/
theorem tie_rev_token_iter_next_error (P : Preds) (idS idC : Nat → Bool) (hS : ∀ c : Char, idS c.toNat = P.idStart c)
    (hC : ∀ c : Char, idC c.toNat = P.idContinue c) (hW : ∀ c : Char, P.isWs c = rsIsWhitespaceCp c.toNat)
    (gl : SV → Nat → Option (List Nat)) (sv : SV) (lines : List Str)
    (hgl : ∀ i, gl sv i = (lines[i]?).map enc) (hlines : ∀ l ∈ lines, (enc l).length < 2 ^ 63)
    (tok : Token) (cm : Option Cache)
    (hcm : ∀ c, cm = some c → c.off < 18446744073709551615 ∧ (enc c.text).length < 2 ^ 63) (e : Err) :
    rev_token_iter_next idS idC gl sv (some tok) (cm.map encCache) = .error e ↔
      revNext P lines (tok.sm.tokens.map toTok) ⟨some (tokKey tok), cm⟩ = .error e := by
  rw [tie_rev_token_iter_next P idS idC hS hC hW gl sv lines hgl hlines tok cm hcm]
  cases revNext P lines (tok.sm.tokens.map toTok) ⟨some (tokKey tok), cm⟩ with
  | error e' => simp only [Except.map, Except.error.injEq]
  | ok r => simp only [Except.map, reduceCtorEq]

/-- every table of `&str` lines is the encoding of a table of character lists -/
theorem lines_are_enc (blines : List (List Nat)) (hv : ∀ b ∈ blines, rsUtf8Valid b = true) :
    ∃ lines : List Str, blines = lines.map enc := by
  induction blines with
  | nil => exact ⟨[], rfl⟩
  | cons b bs ih =>
    obtain ⟨ls, hls⟩ := ih (fun x hx => hv x (List.mem_cons_of_mem _ hx))
    obtain ⟨cs, hcs, _⟩ := str_is_enc b (hv b (List.mem_cons_self ..))
    exact ⟨cs :: ls, by rw [List.map_cons, ← hcs, ← hls]⟩

/-- **B, quantified over byte strings**: for every table of valid UTF-8 lines shorter than `2^63` bytes served by
`get_line`, and the iterator's initial cache `None`, the first `next` is the model's `revNext` on the decoded lines -/
theorem tie_rev_token_iter_next_str (P : Preds) (idS idC : Nat → Bool) (hS : ∀ c : Char, idS c.toNat = P.idStart c)
    (hC : ∀ c : Char, idC c.toNat = P.idContinue c) (hW : ∀ c : Char, P.isWs c = rsIsWhitespaceCp c.toNat)
    (gl : SV → Nat → Option (List Nat)) (sv : SV) (blines : List (List Nat))
    (hgl : ∀ i, gl sv i = blines[i]?) (hv : ∀ b ∈ blines, rsUtf8Valid b = true)
    (hlen : ∀ b ∈ blines, b.length < 2 ^ 63) (tok : Token) :
    ∃ lines : List Str, blines = lines.map enc ∧
      rev_token_iter_next idS idC gl sv (some tok) none =
        (revNext P lines (tok.sm.tokens.map toTok) ⟨some (tokKey tok), none⟩).map (outOf tok) := by
  obtain ⟨lines, rfl⟩ := lines_are_enc blines hv
  refine ⟨lines, rfl, ?_⟩
  exact tie_rev_token_iter_next P idS idC hS hC hW gl sv lines
    (fun i => by rw [hgl, List.getElem?_map])
    (fun l hl => hlen _ (List.mem_map_of_mem hl)) tok none (fun _ h => by simp at h)

end

/-! #### witnesses for B: the hypotheses are met by non-trivial values -/

/-- two lines: an astral character before and inside the identifier `é𝒳` (one two-byte, one four-byte letter);
`a‍$` with a zero-width joiner -/
def exLines : List Str := [exLine, "function a‍$(){}".toList]
/-- three tokens on line 0 (so the second and third `next` take the backward path with a cache), three on line 1,
the last of them (column 40) past the end of its line -/
def exMap : SourceMap :=
  { (default : SourceMap) with
    tokens := [exRaw 0 6 4294967295, exRaw 0 15 0, exRaw 0 21 2, exRaw 1 0 4294967295, exRaw 1 9 1, exRaw 1 40 2] }
/-- `SourceView::get_line` of the examples -/
def exGl : Unit → Nat → Option (List Nat) := fun _ i => (exLines[i]?).map enc
def exTok (i : Nat) (raw : RawToken) : Token := { raw := raw, sm := exMap, idx := i, offset := 0 }

example : ∀ i, exGl () i = (exLines[i]?).map enc := fun _ => rfl
theorem exLines_short : ∀ l ∈ exLines, (enc l).length < 2 ^ 63 := by decide
-- a cache as `next` leaves it: token (0, 21) is at byte 26 of line 0
example : ∀ c, some (⟨exLine, 0, 21, 26⟩ : Cache) = some c →
    c.off < 18446744073709551615 ∧ (enc c.text).length < 2 ^ 63 := by
  intro c h; cases h; decide
example : CacheInv (some ⟨exLine, 0, 21, 26⟩) := by
  intro c h; cases h; decide

-- first call, no cache: forward scan to column 21 = byte 26, the identifier `a`; the cache is filled
example : rev_token_iter_next exId exId exGl () (some (exTok 2 (exRaw 0 21 2))) none =
    .ok (some (exTok 2 (exRaw 0 21 2), some (enc ['a'])), some (exTok 1 (exRaw 0 15 0)),
      some (enc exLine, 0, 21, 26)) :=
  (tie_rev_token_iter_next exP exId exId (fun _ => rfl) (fun _ => rfl) (fun _ => rfl) exGl () exLines
    (fun _ => rfl) exLines_short (exTok 2 (exRaw 0 21 2)) none (fun _ h => by simp at h)).trans rfl
-- second call, with the cache: backward scan over `(){` and the astral `𝒳` to column 15 = byte 17; the non-ASCII
-- identifier `é𝒳` comes back as its 6 bytes
example : rev_token_iter_next exId exId exGl () (some (exTok 1 (exRaw 0 15 0))) (some (enc exLine, 0, 21, 26)) =
    .ok (some (exTok 1 (exRaw 0 15 0), some [195, 169, 240, 157, 146, 179]), some (exTok 0 (exRaw 0 6 4294967295)),
      some (enc exLine, 0, 15, 17)) :=
  (tie_rev_token_iter_next exP exId exId (fun _ => rfl) (fun _ => rfl) (fun _ => rfl) exGl () exLines
    (fun _ => rfl) exLines_short (exTok 1 (exRaw 0 15 0)) (some ⟨exLine, 0, 21, 26⟩)
    (by intro c h; cases h; decide)).trans rfl
-- a token past the end of its line: nothing to read, and the cache is dropped
example : rev_token_iter_next exId exId exGl () (some (exTok 5 (exRaw 1 40 2))) (some (enc exLine, 0, 21, 26)) =
    .ok (some (exTok 5 (exRaw 1 40 2), none), some (exTok 4 (exRaw 1 9 1)), none) :=
  (tie_rev_token_iter_next exP exId exId (fun _ => rfl) (fun _ => rfl) (fun _ => rfl) exGl () exLines
    (fun _ => rfl) exLines_short (exTok 5 (exRaw 1 40 2)) (some ⟨exLine, 0, 21, 26⟩)
    (by intro c h; cases h; decide)).trans rfl
-- a cached column smaller than the token's (`last_char_offset - dst_col` underflows): panic, on both sides
example : rev_token_iter_next exId exId exGl () (some (exTok 2 (exRaw 0 21 2))) (some (enc exLine, 0, 15, 17)) =
    .error .panic :=
  (tie_rev_token_iter_next exP exId exId (fun _ => rfl) (fun _ => rfl) (fun _ => rfl) exGl () exLines
    (fun _ => rfl) exLines_short (exTok 2 (exRaw 0 21 2)) (some ⟨exLine, 0, 15, 17⟩)
    (by intro c h; cases h; decide)).trans rfl
example : rsUtf8Valid (enc exLine) = true ∧ (enc exLine).length = 28 := ⟨rsUtf8Valid_enc exLine, by decide⟩

/-- **Outside the invariant the two sides differ** (why `hcm` is there): a model cache whose byte offset is
`usize::MAX` reads, on the Rust side, as the tuple with the `!0` sentinel, i.e. as "no offset known".  The model
walks back from offset `2^64 - 1` (nothing to walk over: `get(..2^64-1)` is `None`), finds the offset past the end of
`ab` and yields no text; the generated code scans forward and would yield `ab` (`#eval` of
`rev_token_iter_next … (some tok) (some (enc "ab", 0, 5, 18446744073709551615))` gives
`ok (some (tok, some [97, 98]), none, some ([97, 98], 0, 0, 0))`).  No run of the iterator gets there: `next` only
stores offsets smaller than the line length (`revNext_cache_inv`). -/
theorem sentinel_discrepancy :
    revNext exP ["ab".toList] [] ⟨some (0, toTok (exRaw 0 0 0)), some ⟨"ab".toList, 0, 5, 18446744073709551615⟩⟩ =
      .ok (some ((0, toTok (exRaw 0 0 0)), none), ⟨none, none⟩) ∧
    revNext exP ["ab".toList] [] ⟨some (0, toTok (exRaw 0 0 0)), none⟩ =
      .ok (some ((0, toTok (exRaw 0 0 0)), some ['a', 'b']), ⟨none, some ⟨"ab".toList, 0, 0, 0⟩⟩) ∧
    (rev_token_iter_next exId exId (fun (_ : Unit) i => (["ab".toList][i]?).map enc) ()
        (some { raw := exRaw 0 0 0, sm := default, idx := 0, offset := 0 })
        (some (enc "ab".toList, 0, 5, 18446744073709551615)) =
      .ok (some ({ raw := exRaw 0 0 0, sm := default, idx := 0, offset := 0 }, some [97, 98]), none,
        some ([97, 98], 0, 0, 0))) := by
  refine ⟨rfl, rfl, ?_⟩
  -- the generated code on `(line, 0, 5, !0)` is the generated code on no cache at all …
  have h : rev_token_iter_next exId exId (fun (_ : Unit) i => (["ab".toList][i]?).map enc) ()
      (some { raw := exRaw 0 0 0, sm := default, idx := 0, offset := 0 })
      (some (enc "ab".toList, 0, 5, 18446744073709551615)) =
    rev_token_iter_next exId exId (fun (_ : Unit) i => (["ab".toList][i]?).map enc) ()
      (some { raw := exRaw 0 0 0, sm := default, idx := 0, offset := 0 }) none := by
    unfold rev_token_iter_next
    simp only [(tie_token_getters _).1, (tie_token_getters _).2.1]
    rfl
  rw [h]
  exact (tie_rev_token_iter_next exP exId exId (fun _ => rfl) (fun _ => rfl) (fun _ => rfl) _ () ["ab".toList]
    (fun _ => rfl) (by decide) _ none (fun _ h => by simp at h)).trans rfl

/-! ### C. the walk: `next` iterated as `take(n)` does -/

section
variable {SV : Type} [DecidableEq SV]

/-- the generated step iterated at most `n` times, threading the two `&mut` fields `cur` / `cache` and stopping at
the first `None` - what `RevTokenIter { .. }.take(n)` yields, collected -/
def genCollect (idS idC : Nat → Bool) (gl : SV → Nat → Option (List Nat)) (sv : SV) :
    Nat → Option Token → Option (List Nat × Nat × Nat × Nat) → Res (List (Token × Option (List Nat)))
  | 0, _, _ => .ok []
  | n + 1, cur, cache =>
    match rev_token_iter_next idS idC gl sv cur cache with
    | .error e => .error e
    | .ok (none, _, _) => .ok []
    | .ok (some x, cur', cache') =>
      match genCollect idS idC gl sv n cur' cache' with
      | .error e => .error e
      | .ok l => .ok (x :: l)

/-- a generated item in the common vocabulary: index and raw token of the `Token`, the text as bytes -/
def viewItem (x : Token × Option (List Nat)) : (Nat × Tok) × Option (List Nat) := (tokKey x.1, x.2)
/-- a model item in the common vocabulary: the text encoded -/
def encItem (x : Item) : (Nat × Tok) × Option (List Nat) := (x.1, x.2.map enc)

theorem nextTok_sm (tok t : Token) (h : nextTok tok = some t) : t.sm = tok.sm := by
  unfold nextTok at h
  split at h
  · cases hr : tok.sm.tokens[tok.idx - 1]? with
    | none => rw [hr] at h; simp at h
    | some raw =>
      rw [hr] at h
      simp only [Option.map_some, Option.some.injEq] at h
      rw [← h]
  · simp at h

/-- **C. the fold.**  From any iterator state (current token of the map `sm` or exhausted; cache satisfying the
invariant - `None` at the start), the first `n` items of the generated iterator are the model's `revCollect`:
same length, item by item the same token index and raw token and the same identifier text (encoded); the same error
if the model fails.  (`enc` and `toTok` are injective, so the equation determines the generated list up to the
`sm` / `offset` fields of the tokens, which `tie_rev_token_iter_next_ok` gives.) -/
theorem tie_rev_collect (P : Preds) (idS idC : Nat → Bool) (hS : ∀ c : Char, idS c.toNat = P.idStart c)
    (hC : ∀ c : Char, idC c.toNat = P.idContinue c) (hW : ∀ c : Char, P.isWs c = rsIsWhitespaceCp c.toNat)
    (gl : SV → Nat → Option (List Nat)) (sv : SV) (lines : List Str)
    (hgl : ∀ i, gl sv i = (lines[i]?).map enc) (hlines : ∀ l ∈ lines, (enc l).length < 2 ^ 63)
    (sm : SourceMap) : ∀ (n : Nat) (cur : Option Token) (cm : Option Cache),
      (∀ t, cur = some t → t.sm = sm) → CacheInv cm →
      (genCollect idS idC gl sv n cur (cm.map encCache)).map (List.map viewItem) =
        (revCollect P lines (sm.tokens.map toTok) n ⟨cur.map tokKey, cm⟩).map (List.map encItem) := by
  intro n
  induction n with
  | zero => intro cur cm _ _; rfl
  | succ n ih =>
    intro cur cm hsm hcm
    cases cur with
    | none =>
      have h1 : rev_token_iter_next idS idC gl sv none (cm.map encCache) = .ok (none, none, cm.map encCache) := rfl
      simp only [genCollect, h1, revCollect, revNext, Option.map_none, Except.map, List.map_nil]
    | some tok =>
      have hs := hsm tok rfl
      subst hs
      simp only [genCollect, revCollect, Option.map_some]
      rw [tie_rev_token_iter_next P idS idC hS hC hW gl sv lines hgl hlines tok cm hcm.hcm]
      cases h : revNext P lines (tok.sm.tokens.map toTok) ⟨some (tokKey tok), cm⟩ with
      | error e => simp only [Except.map]
      | ok r =>
        obtain ⟨item, st'⟩ := r
        obtain ⟨ident, h1, h2, h3, _⟩ :=
          tie_rev_token_iter_next_ok P idS idC hS hC hW gl sv lines hgl hlines tok cm hcm item st' h
        subst h1
        have ih' := ih (nextTok tok) st'.cache (fun t ht => nextTok_sm tok t ht) h3
        have hst : st' = ⟨(nextTok tok).map tokKey, st'.cache⟩ := by
          cases st' with
          | mk a b => simp only at h2; rw [h2]
        rw [← hst] at ih'
        simp only [Except.map, outOf, Option.map_some]
        cases hg : genCollect idS idC gl sv n (nextTok tok) (st'.cache.map encCache) with
        | error e =>
          rw [hg] at ih'
          cases hm : revCollect P lines (tok.sm.tokens.map toTok) n st' with
          | error e' =>
            rw [hm] at ih'
            simp only [Except.map, Except.error.injEq] at ih' ⊢
            exact ih'
          | ok l' => rw [hm] at ih'; simp only [Except.map, reduceCtorEq] at ih'
        | ok l =>
          rw [hg] at ih'
          cases hm : revCollect P lines (tok.sm.tokens.map toTok) n st' with
          | error e' => rw [hm] at ih'; simp only [Except.map, reduceCtorEq] at ih'
          | ok l' =>
            rw [hm] at ih'
            simp only [Except.map, Except.ok.injEq] at ih' ⊢
            simp only [List.map_cons, ih', viewItem, encItem]

theorem map_eq_ok {α β} (f : α → β) (r : Res α) (b : β) (h : r.map f = .ok b) : ∃ a, r = .ok a ∧ f a = b := by
  cases r with
  | error e => simp only [Except.map, reduceCtorEq] at h
  | ok a => exact ⟨a, rfl, by simpa only [Except.map, Except.ok.injEq] using h⟩

theorem enc_eq_nil {cs : Str} (h : enc cs = []) : cs = [] := enc_injective (b := []) h

/-- `c17_cache_correct` **on the generated iteration**: on an ordered map, walking back from a token of the map
whose window lies on positions of the text, the first `n` items of the generated iterator (started with
`source_line: None`) are the tokens `i, i-1, …`, each with the text the specification `textAt` reads at its
position - whichever of the two generated scans produced the byte offset, BMP and astral characters alike. -/
theorem gen_c17_rev_cache_correct (P : Preds) (idS idC : Nat → Bool) (hS : ∀ c : Char, idS c.toNat = P.idStart c)
    (hC : ∀ c : Char, idC c.toNat = P.idContinue c) (hW : ∀ c : Char, P.isWs c = rsIsWhitespaceCp c.toNat)
    (gl : SV → Nat → Option (List Nat)) (sv : SV) (lines : List Str)
    (hgl : ∀ i, gl sv i = (lines[i]?).map enc) (hlines : ∀ l ∈ lines, (enc l).length < 2 ^ 63)
    (tok : Token) (hs : C04.Sorted (tok.sm.tokens.map toTok)) (ht : tok.sm.tokens[tok.idx]? = some tok.raw)
    (n : Nat)
    (hb : ∀ j ∈ windowIdx tok.idx n, ∀ u, (tok.sm.tokens.map toTok)[j]? = some u → onBoundary lines u = true) :
    (genCollect idS idC gl sv n (some tok) none).map (List.map viewItem) =
      .ok ((itemsBack P lines (tok.sm.tokens.map toTok) tok.idx n).map encItem) := by
  have h := tie_rev_collect P idS idC hS hC hW gl sv lines hgl hlines tok.sm n (some tok) none
    (fun t ht => by simp only [Option.some.injEq] at ht; rw [ht]) CacheInv.none
  have ht' : (tok.sm.tokens.map toTok)[tok.idx]? = some (toTok tok.raw) := by
    rw [List.getElem?_map, ht]; rfl
  have hc := C17.c17_cache_correct P lines (tok.sm.tokens.map toTok) hs tok.idx n (toTok tok.raw) ht' hb
  simp only [Option.map_none, Option.map_some, tokKey] at h
  rw [h, hc]
  rfl

/-- the walk part of `c17_safe` **on the generated iteration**: on an ordered map, from any token of the map, no
text makes the generated iterator panic within any number of steps - `last_char_offset - dst_col` and
`new_offset -= c.len_utf8()` do not underflow, `off += …` / `idx += …` do not overflow, `strip_identifier` slices
on a character boundary; it yields at most `n` items and never an empty identifier. -/
theorem gen_c17_rev_no_panic (P : Preds) (idS idC : Nat → Bool) (hS : ∀ c : Char, idS c.toNat = P.idStart c)
    (hC : ∀ c : Char, idC c.toNat = P.idContinue c) (hW : ∀ c : Char, P.isWs c = rsIsWhitespaceCp c.toNat)
    (gl : SV → Nat → Option (List Nat)) (sv : SV) (lines : List Str)
    (hgl : ∀ i, gl sv i = (lines[i]?).map enc) (hlines : ∀ l ∈ lines, (enc l).length < 2 ^ 63)
    (tok : Token) (hs : C04.Sorted (tok.sm.tokens.map toTok)) (ht : tok.sm.tokens[tok.idx]? = some tok.raw)
    (n : Nat) :
    ∃ L, genCollect idS idC gl sv n (some tok) none = .ok L ∧ L.length ≤ n ∧ ∀ x ∈ L, x.2 ≠ some [] := by
  have h := tie_rev_collect P idS idC hS hC hW gl sv lines hgl hlines tok.sm n (some tok) none
    (fun t ht => by simp only [Option.some.injEq] at ht; rw [ht]) CacheInv.none
  have ht' : (tok.sm.tokens.map toTok)[tok.idx]? = some (toTok tok.raw) := by
    rw [List.getElem?_map, ht]; rfl
  obtain ⟨Lm, hLm, hlen, hne⟩ := revCollect_ok P lines (tok.sm.tokens.map toTok) hs n tok.idx
    ⟨some (tok.idx, toTok tok.raw), none⟩ (toTok tok.raw) ht' rfl (fun c hc => by simp at hc)
  simp only [Option.map_none, Option.map_some, tokKey] at h
  rw [hLm] at h
  obtain ⟨L, hL, hmap⟩ := map_eq_ok _ _ _ h
  refine ⟨L, hL, ?_, ?_⟩
  · have := congrArg List.length hmap
    simp only [List.length_map] at this
    omega
  · intro x hx hx2
    have hmem : viewItem x ∈ Lm.map encItem := by rw [← hmap]; exact List.mem_map_of_mem hx
    obtain ⟨y, hy, hxy⟩ := List.mem_map.mp hmem
    have h2 : y.2.map enc = x.2 := congrArg Prod.snd hxy
    rw [hx2] at h2
    cases hy2 : y.2 with
    | none => rw [hy2] at h2; simp at h2
    | some s =>
      rw [hy2] at h2
      simp only [Option.map_some, Option.some.injEq] at h2
      exact hne y hy (by rw [hy2, enc_eq_nil h2])

end

/-! #### witnesses for C -/

example : C04.Sorted (exMap.tokens.map toTok) := by unfold C04.Sorted; decide
example : ∀ u ∈ exMap.tokens.map toTok, onBoundary exLines u = true := by decide
-- all six tokens walking back from the last: past the end of the line (no text), `a‍$` (joiner inside), `function`,
-- then line 0 through the cache: `a`, `é𝒳` (6 bytes), `function`
example : (genCollect exId exId exGl () 128 (some (exTok 5 (exRaw 1 40 2))) none).map (List.map viewItem) =
    .ok [((5, toTok (exRaw 1 40 2)), none), ((4, toTok (exRaw 1 9 1)), some (enc ['a', ZWJ, '$'])),
      ((3, toTok (exRaw 1 0 4294967295)), some (enc FUNCTION)), ((2, toTok (exRaw 0 21 2)), some [97]),
      ((1, toTok (exRaw 0 15 0)), some [195, 169, 240, 157, 146, 179]),
      ((0, toTok (exRaw 0 6 4294967295)), some (enc FUNCTION))] :=
  (tie_rev_collect exP exId exId (fun _ => rfl) (fun _ => rfl) (fun _ => rfl) exGl () exLines (fun _ => rfl)
    exLines_short exMap 128 (some (exTok 5 (exRaw 1 40 2))) none
    (fun t ht => by simp only [Option.some.injEq] at ht; rw [← ht]; rfl) CacheInv.none).trans rfl

-- the token is one of its map's (`ht`), e.g. as `lookup_token` returns it (`tie_lookup_token_some`)
example : (exTok 5 (exRaw 1 40 2)).sm.tokens[(exTok 5 (exRaw 1 40 2)).idx]? = some (exTok 5 (exRaw 1 40 2)).raw := rfl
-- so the window of 128 steps from it cannot panic
example : ∃ L, genCollect exId exId exGl () 128 (some (exTok 5 (exRaw 1 40 2))) none = .ok L ∧ L.length ≤ 128 ∧
    ∀ x ∈ L, x.2 ≠ some [] :=
  gen_c17_rev_no_panic exP exId exId (fun _ => rfl) (fun _ => rfl) (fun _ => rfl) exGl () exLines (fun _ => rfl)
    exLines_short (exTok 5 (exRaw 1 40 2)) (by unfold C04.Sorted; decide) rfl 128
-- the hypotheses of the byte-level form `tie_rev_token_iter_next_str`
example : (∀ b ∈ exLines.map enc, rsUtf8Valid b = true) ∧ (∀ b ∈ exLines.map enc, b.length < 2 ^ 63) :=
  ⟨fun b hb => by obtain ⟨l, _, rfl⟩ := List.mem_map.mp hb; exact rsUtf8Valid_enc l,
   fun b hb => by obtain ⟨l, hl, rfl⟩ := List.mem_map.mp hb; exact exLines_short l hl⟩

/-- `c17_underflow_unsorted` **on the generated iteration**: sortedness is needed for `gen_c17_rev_no_panic` - walking
from a token to an earlier-indexed token that lies *later* on the same line, the generated iterator takes the
underflowing `last_char_offset - dst_col` and panics. -/
theorem gen_c17_rev_underflow_unsorted :
    genCollect exId exId exGl () 2
      (some { raw := exRaw 0 6 1, sm := { (default : SourceMap) with tokens := [exRaw 0 15 0, exRaw 0 6 1] },
              idx := 1, offset := 0 }) none = .error .panic := by
  have h := tie_rev_collect exP exId exId (fun _ => rfl) (fun _ => rfl) (fun _ => rfl) exGl () exLines
    (fun _ => rfl) exLines_short { (default : SourceMap) with tokens := [exRaw 0 15 0, exRaw 0 6 1] } 2
    (some { raw := exRaw 0 6 1, sm := { (default : SourceMap) with tokens := [exRaw 0 15 0, exRaw 0 6 1] },
            idx := 1, offset := 0 }) none
    (fun t ht => by simp only [Option.some.injEq] at ht; rw [← ht]) CacheInv.none
  have hm : revCollect exP exLines
      (({ (default : SourceMap) with tokens := [exRaw 0 15 0, exRaw 0 6 1] } : SourceMap).tokens.map toTok) 2
      ⟨some (1, toTok (exRaw 0 6 1)), none⟩ = .error .panic := rfl
  simp only [Option.map_none, Option.map_some, tokKey] at h
  rw [hm] at h
  cases hg : genCollect exId exId exGl () 2
      (some { raw := exRaw 0 6 1, sm := { (default : SourceMap) with tokens := [exRaw 0 15 0, exRaw 0 6 1] },
              idx := 1, offset := 0 }) none with
  | error e => rw [hg] at h; simpa only [Except.map, Except.error.injEq] using h
  | ok l => rw [hg] at h; simp only [Except.map, reduceCtorEq] at h


end SmVerif.Tie.RevIter
#print axioms SmVerif.Tie.RevIter.tie_take_bytes
#print axioms SmVerif.Tie.RevIter.tie_drop_bytes
#print axioms SmVerif.Tie.RevIter.loop1_eq
#print axioms SmVerif.Tie.RevIter.loop2_eq
#print axioms SmVerif.Tie.RevIter.loop3_eq
#print axioms SmVerif.Tie.RevIter.loop4_eq
#print axioms SmVerif.Tie.RevIter.tie_loop1
#print axioms SmVerif.Tie.RevIter.tie_loop1_str
#print axioms SmVerif.Tie.RevIter.tie_loop2
#print axioms SmVerif.Tie.RevIter.tie_rev_token_iter_next
#print axioms SmVerif.Tie.RevIter.tie_rev_token_iter_next_none
#print axioms SmVerif.Tie.RevIter.tie_rev_token_iter_next_ok
#print axioms SmVerif.Tie.RevIter.tie_rev_token_iter_next_error
#print axioms SmVerif.Tie.RevIter.tie_rev_token_iter_next_str
#print axioms SmVerif.Tie.RevIter.nextTok_eq_get_token
#print axioms SmVerif.Tie.RevIter.revNext_shape
#print axioms SmVerif.Tie.RevIter.revNext_cache_inv
#print axioms SmVerif.Tie.RevIter.lines_are_enc
#print axioms SmVerif.Tie.RevIter.sentinel_discrepancy
#print axioms SmVerif.Tie.RevIter.tie_rev_collect
#print axioms SmVerif.Tie.RevIter.gen_c17_rev_cache_correct
#print axioms SmVerif.Tie.RevIter.gen_c17_rev_no_panic
#print axioms SmVerif.Tie.RevIter.gen_c17_rev_underflow_unsorted
