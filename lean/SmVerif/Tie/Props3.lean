import SmVerif.Tie.Props
import SmVerif.Tie.Serialize
import SmVerif.Tie.Decode
import SmVerif.Props.C01
import SmVerif.Props.C03
/-
Property theorems composed with tie theorems, END TO END: the GENERATED serialisers (`serialize_mappings`,
`serialize_range_mappings`, `Generated/RsSerialize.lean`) feeding the GENERATED token loop of `decode_regular`
(`decode_regular_tokens`, `Generated/RsDecodeTokens.lean`), i.e. C01 / C07 (round trip) and C03 (the independent
reader reads the encoder) stated about the code as translated, for all maps the Rust types allow.

Composition:  `Tie/Serialize.lean` (generated serialisers = `Mappings.serializeMappings` / `serializeRangeMappings`)
            + `Tie/Decode.lean`    (generated token loop = `Mappings.decodeMappings`)
            + `Props/C01.lean`, `Props/C03.lean` (the model theorems).

The decode tie has size hypotheses on the text it is given (bytes are bytes; at most `2^32` lines; `6 * len` of every
`;`-piece of `rangeMappings` fits a `usize`).  Here the text is the serialisers' output, and all three FOLLOW from the
hypotheses of the serialiser ties (`u32` lines, at most `isize::MAX` tokens) - section "size of the written text":
* `emit_bytes`      : the written `mappings` consists of bytes;
* `emit_lines`      : it has at most (last line + 1) `;`-pieces;
* `rmiTail_pieces`  : every `;`-piece `p` of the written `rangeMappings` has `6 * len p ≤ (number of tokens) + 6`.
So no hypothesis on the produced text is left; what remains beyond the serialiser side is the decoder's view of the two
tables: fewer than `2^32` sources, at most `2^32` names (`hsrcs`, `hnn`: "the document is below 4 GiB").

`names sources : List Unit` are the decoder's arguments (only the lengths of the two tables matter to the token
loop); `units` turns the map's own tables into them (`…_self` variants).
-/
namespace SmVerif.Tie.Props
open SmVerif SmVerif.Rs

/-! ### size of the written text (facts about the model serialisers) -/

section Size
open SmVerif.Vlq SmVerif.Mappings SmVerif.V3 SmVerif.RoundTrip SmVerif.Lookup

/-- the text of one token consists of bytes -/
theorem tokText_lt (nn : Nat) (t : Tok) (st : EState) : ∀ c ∈ tokText nn t st, c < 256 :=
  segBytes_lt _

/-- **the written `mappings` consists of bytes** -/
theorem emit_bytes (nn : Nat) : ∀ (ts : List Tok) (prev : Option Tok) (st : EState),
    ∀ c ∈ emit nn ts prev st, c < 256 := by
  intro ts
  induction ts with
  | nil => intro prev st c hc; rw [emit] at hc; cases hc
  | cons t ts ih =>
    intro prev st c hc
    by_cases hl : t.dl ≠ st.line
    · rw [emit_newline nn t ts prev st hl] at hc
      rcases List.mem_append.mp hc with h | h
      · rw [List.mem_replicate] at h
        rw [h.2]; decide
      · rcases List.mem_append.mp h with h | h
        · exact tokText_lt _ _ _ c h
        · exact ih _ _ c h
    · have hl' : t.dl = st.line := by omega
      cases prev with
      | none =>
        rw [emit_first nn t ts st hl'] at hc
        rcases List.mem_append.mp hc with h | h
        · exact tokText_lt _ _ _ c h
        · exact ih _ _ c h
      | some p =>
        by_cases hp : p = t
        · subst hp
          rw [emit_dup nn p ts st hl'] at hc
          exact ih _ _ c hc
        · rw [emit_next nn t p ts st hl' hp] at hc
          rcases List.mem_cons.mp hc with h | h
          · rw [h]; decide
          · rcases List.mem_append.mp h with h | h
            · exact tokText_lt _ _ _ c h
            · exact ih _ _ c h

/-- text without `;` in front does not change the number of lines -/
theorem lines_append_nosemi (a b : List Nat) (h : SEMI ∉ a) :
    (splitOn SEMI (a ++ b)).length = (splitOn SEMI b).length := by
  rw [splitOn_append _ _ _ h]
  cases hb : splitOn SEMI b with
  | nil => exact absurd hb (splitOn_ne_nil _ _)
  | cons x xs => rfl

/-- **the written `mappings` has at most (last line + 1) lines**: with every token on a line below `B`, the text
still to be written has at most `B - (current line)` `;`-pieces -/
theorem emit_lines (nn B : Nat) : ∀ (ts : List Tok) (prev : Option Tok) (st : EState),
    Mono st.line ts → (∀ t ∈ ts, t.dl < B) → st.line < B →
    (splitOn SEMI (emit nn ts prev st)).length + st.line ≤ B := by
  intro ts
  induction ts with
  | nil =>
    intro prev st _ _ hB
    rw [emit]
    simp only [splitOn, List.length_cons, List.length_nil]
    omega
  | cons t ts ih =>
    intro prev st hm hts hB
    obtain ⟨hle, hm'⟩ := hm
    have htB : t.dl < B := hts t List.mem_cons_self
    have hts' : ∀ u ∈ ts, u.dl < B := fun u hu => hts u (List.mem_cons_of_mem _ hu)
    by_cases hl : t.dl ≠ st.line
    · rw [emit_newline nn t ts prev st hl, splitOn_replicate, List.length_append, List.length_replicate,
        lines_append_nosemi _ _ (tokText_nosemi _ _ _)]
      have := ih (some t) (tokState nn t { st with line := t.dl, col := 0 })
        (by rw [tokState_line]; exact hm') hts' (by rw [tokState_line]; exact htB)
      rw [tokState_line] at this
      simp only at this
      omega
    · have hl' : t.dl = st.line := by omega
      cases prev with
      | none =>
        rw [emit_first nn t ts st hl', lines_append_nosemi _ _ (tokText_nosemi _ _ _)]
        have := ih (some t) (tokState nn t st) (by rw [tokState_line, ← hl']; exact hm') hts'
          (by rw [tokState_line]; exact hB)
        rw [tokState_line] at this
        exact this
      | some p =>
        by_cases hp : p = t
        · subst hp
          rw [emit_dup nn p ts st hl']
          exact ih (some p) st (by rw [← hl']; exact hm') hts' hB
        · rw [emit_next nn t p ts st hl' hp]
          have hc : SEMI ∉ [COMMA] := by decide
          have e : COMMA :: (tokText nn t st ++ emit nn ts (some t) (tokState nn t st)) =
              [COMMA] ++ (tokText nn t st ++ emit nn ts (some t) (tokState nn t st)) := rfl
          rw [e, lines_append_nosemi _ _ hc, lines_append_nosemi _ _ (tokText_nosemi _ _ _)]
          have := ih (some t) (tokState nn t st) (by rw [tokState_line, ← hl']; exact hm') hts'
            (by rw [tokState_line]; exact hB)
          rw [tokState_line] at this
          exact this

/-- six bits per character -/
theorem chunks6_length : ∀ (n : Nat) (l : List Bool), l.length ≤ n → (chunks6 l).length * 6 ≤ l.length + 5 := by
  intro n
  induction n with
  | zero =>
    intro l hl
    have : l = [] := List.eq_nil_of_length_eq_zero (by omega)
    subst this
    rw [chunks6]; simp
  | succ n ih =>
    intro l hl
    cases l with
    | nil => rw [chunks6]; simp
    | cons b bs =>
      rw [chunks6_cons, List.length_cons]
      have := ih ((b :: bs).drop 6) (by simp only [List.length_drop, List.length_cons] at hl ⊢; omega)
      simp only [List.length_drop, List.length_cons] at this ⊢
      omega

theorem trimFalse_length (bs : List Bool) : (trimFalse bs).length ≤ bs.length := by
  obtain ⟨k, hk⟩ := trimFalse_split bs
  have := congrArg List.length hk
  rw [List.length_append] at this
  omega

/-- the text of one line of `rangeMappings`: six bits per character, at least one character -/
theorem encodeRmi_length (bs : List Bool) : (encodeRmi bs).length * 6 ≤ bs.length + 6 := by
  unfold encodeRmi
  simp only [List.length_map]
  have ht := trimFalse_length bs
  split
  · have := chunks6_length 1 [false] (by simp)
    simp only [List.length_cons, List.length_nil] at this
    omega
  · have := chunks6_length _ (trimFalse bs) (Nat.le_refl _)
    omega

theorem lineBits_length (bits : List Bool) (had : Bool) : (lineBits bits had).length * 6 ≤ bits.length + 6 := by
  unfold lineBits
  split
  · exact encodeRmi_length bits
  · simp

theorem setBit_length (bits : List Bool) (i : Nat) (h : bits.length ≤ i) : (setBit bits i).length ≤ i + 1 := by
  unfold setBit
  simp only [List.length_set, List.length_append, List.length_replicate]
  omega

/-- **every `;`-piece of the written `rangeMappings` is short**: `6 * len ≤ (number of tokens) + 6`.  (`seg`, the
index of the next segment on the line, bounds the length of the bit vector and is itself bounded by the number of
tokens already seen.) -/
theorem rmiTail_pieces (N : Nat) : ∀ (ts : List Tok) (prev : Option Tok) (line : Nat) (bits : List Bool)
    (had : Bool) (seg : Nat), Mono line ts → bits.length ≤ seg → seg + ts.length ≤ N →
    ∀ p ∈ splitOn SEMI (rmiTail ts prev line bits had seg), p.length * 6 ≤ N + 6 := by
  intro ts
  induction ts with
  | nil =>
    intro prev line bits had seg _ hb hN p hp
    rw [rmiTail, splitOn_nosep _ _ (lineBits_nosemi bits had), List.mem_singleton] at hp
    subst hp
    have := lineBits_length bits had
    simp only [List.length_nil] at hN
    omega
  | cons t ts ih =>
    intro prev line bits had seg hm hb hN p hp
    obtain ⟨hle, hm'⟩ := hm
    simp only [List.length_cons] at hN
    by_cases hl : t.dl ≠ line
    · obtain ⟨k, hk⟩ : ∃ k, t.dl - line = k + 1 := ⟨t.dl - line - 1, by omega⟩
      rw [rmiTail_newline _ _ _ _ _ _ _ hl, hk, List.replicate_succ, List.cons_append,
        splitOn_append _ _ _ (lineBits_nosemi bits had), splitOn_sep_cons, splitOn_replicate] at hp
      simp only [List.headD_cons, List.append_nil, List.tail_cons, List.mem_cons, List.mem_append,
        List.mem_replicate] at hp
      rcases hp with rfl | ⟨_, rfl⟩ | hp
      · have := lineBits_length bits had
        omega
      · simp
      · unfold rmiAfterFirst at hp
        split at hp
        · exact ih _ _ _ _ _ hm' (setBit_length [] 0 (by simp)) (by omega) p hp
        · exact ih _ _ _ _ _ hm' (by simp) (by omega) p hp
    · have hl' : line = t.dl := by omega
      subst hl'
      by_cases hpv : prev = some t
      · subst hpv
        rw [rmiTail_dup] at hp
        exact ih _ _ _ _ _ hm' hb (by omega) p hp
      · rw [rmiTail_next _ _ _ _ _ _ hpv] at hp
        split at hp
        · exact ih _ _ _ _ _ hm' (setBit_length bits seg hb) (by omega) p hp
        · exact ih _ _ _ _ _ hm' (by omega) (by omega) p hp

end Size

/-! ### the generated serialisers: what they return, and how big it is -/

section EndToEnd
open SmVerif.Vlq SmVerif.Mappings SmVerif.V3 SmVerif.Lookup
open Gen.RsTypes

/-- `Tie/Decode.lean` and `Tie/Lookup.lean` each define the field-by-field reading of a `RawToken`; it is the same -/
theorem decode_toTok_eq : Decode.toTok = toTok := rfl

/-- the length-only view of a table that the token loop of `decode_regular` is given -/
def units {α : Type} (l : List α) : List Unit := l.map fun _ => ()

theorem units_length {α : Type} (l : List α) : (units l).length = l.length := by
  unfold units; rw [List.length_map]

/-- well-formed tokens are `u32`-valued (`RawU32`, the hypothesis of the serialiser tie) -/
theorem rawU32_of_wf (nsrc : Nat) (sm : SourceMap) (hwf : wfToks nsrc (sm.tokens.map toTok) = true) :
    ∀ r ∈ sm.tokens, RawU32 r := by
  intro r hr
  have h : wfTok nsrc (toTok r) = true := by
    unfold wfToks at hwf
    rw [List.all_eq_true] at hwf
    exact hwf (toTok r) (List.mem_map_of_mem hr)
  rw [RoundTrip.wfTok_iff] at h
  obtain ⟨h1, h2, h3, h4, h5, h6, _⟩ := h
  exact ⟨h1, h2, h3, h4, h5, h6⟩

/-- tokens sorted by position have non-decreasing lines (the hypothesis of the range-mappings tie) -/
theorem lines_of_sortedByPos (sm : SourceMap) (hs : SortedByPos (sm.tokens.map toTok)) :
    (sm.tokens.map (·.dst_line)).Pairwise (· ≤ ·) := by
  rw [← lines_toTok, List.pairwise_map]
  refine List.Pairwise.imp ?_ hs
  intro a b h
  simp only [Lookup.posLe, Lookup.Tok.pos, Bool.or_eq_true, Bool.and_eq_true] at h
  rcases h with h | ⟨h, _⟩
  · exact Nat.le_of_lt (of_decide_eq_true h)
  · exact Nat.le_of_eq (of_decide_eq_true h)

/-- **Both generated serialisers succeed on a well-formed sorted map, return what the model serialisers return, and
the text they return meets the three size hypotheses of the decode tie** (bytes; at most `2^32` lines; `6 * len` of
every `;`-piece of `rangeMappings` fits a `usize`). -/
theorem gen_serialisers (sm : SourceMap) (nsrc : Nat)
    (hwf : wfToks nsrc (sm.tokens.map toTok) = true) (hs : SortedByPos (sm.tokens.map toTok))
    (hsize : sm.tokens.length ≤ 9223372036854775807)
    (fuel : Nat) (hf : 14 ≤ fuel) (hfl : ∀ r ∈ sm.tokens, r.dst_line < fuel) :
    ∃ m r, Gen.RsSerialize.serialize_mappings fuel sm = .ok m ∧
      Gen.RsSerialize.serialize_range_mappings fuel sm = .ok r ∧
      serializeMappings (sm.tokens.map toTok) sm.names.length = .ok m ∧
      serializeRangeMappings (sm.tokens.map toTok) = .ok r ∧
      (∀ c ∈ m, c < 256) ∧ (splitOn 59 m).length ≤ 4294967296 ∧
      (∀ p ∈ splitOn 59 (r.getD []), p.length * 6 ≤ 18446744073709551615) := by
  have hu32 := rawU32_of_wf nsrc sm hwf
  have hm : RoundTrip.Mono 0 (sm.tokens.map toTok) :=
    RoundTrip.mono_of_sorted _ 0 (fun _ _ => Nat.zero_le _) hs
  have hb0 : RoundTrip.EBound {} := ⟨by simp [U32], by simp [U32], by simp [U32], by simp [U32], by simp [U32]⟩
  have h1 : serializeMappings (sm.tokens.map toTok) sm.names.length =
      .ok (RoundTrip.emit sm.names.length (sm.tokens.map toTok) none {}) := by
    unfold serializeMappings
    rw [RoundTrip.serializeLoop_eq nsrc sm.names.length _ none {} [] hwf hb0 hm, List.nil_append]
  have h2 : serializeRangeMappings (sm.tokens.map toTok) = _ :=
    RoundTrip.serializeRmiLoop_eq (sm.tokens.map toTok) none 0 [] false 0 true [] hm
  have g1 := tie_serialize_mappings_sortedByPos sm hu32 hs fuel hf hfl
  have g2 := tie_serialize_range_mappings sm (fun r hr => (hu32 r hr).1) hsize (lines_of_sortedByPos sm hs) fuel hfl
  refine ⟨_, _, g1.trans h1, g2.trans h2, h1, h2, emit_bytes _ _ _ _, ?_, ?_⟩
  · have := emit_lines sm.names.length 4294967296 (sm.tokens.map toTok) none {} hm
      (by
        intro t ht
        rw [List.mem_map] at ht
        obtain ⟨r, hr, rfl⟩ := ht
        exact (hu32 r hr).1) (by decide)
    exact this
  · intro p hp
    by_cases he : RoundTrip.rmiEmpty (sm.tokens.map toTok) none 0 true = true
    · simp only [he, ↓reduceIte, Option.getD_none] at hp
      have : p = [] := by simpa [splitOn] using hp
      subst this
      simp
    · simp only [he, Bool.false_eq_true, ↓reduceIte, Option.getD_some, List.nil_append] at hp
      have := rmiTail_pieces (sm.tokens.map toTok).length (sm.tokens.map toTok) none 0 [] false 0 hm
        (by simp) (by omega) p hp
      rw [List.length_map] at this
      omega


/-! ### example maps -/

/-- to evaluate the generated functions in examples: `r = .ok a` is decidable (`Except` has no `DecidableEq`);
`serialize_range_mappings` goes through the well-founded `rsChunks`, so `rfl` does not evaluate it, the kernel does -/
local instance decEqOk {α : Type} [DecidableEq α] (r : Res α) (a : α) : Decidable (r = .ok a) :=
  match r with
  | .ok x => if h : x = a then isTrue (by rw [h]) else isFalse (by intro e; cases e; exact h rfl)
  | .error _ => isFalse (by intro e; cases e)

def e3A : RawToken :=
  { dst_line := 0, dst_col := 0, src_line := 0, src_col := 0, src_id := 0, name_id := 4294967295, is_range := false }
/-- a range token with a name -/
def e3B : RawToken :=
  { dst_line := 0, dst_col := 4, src_line := 1, src_col := 7, src_id := 1, name_id := 0, is_range := true }
/-- a range token whose name does not resolve -/
def e3C : RawToken :=
  { dst_line := 2, dst_col := 1, src_line := 3, src_col := 9, src_id := 0, name_id := 5, is_range := true }
/-- a token without source that still carries an original position and a name -/
def e3D : RawToken :=
  { dst_line := 2, dst_col := 6, src_line := 8, src_col := 8, src_id := 4294967295, name_id := 0, is_range := false }
/-- what `e3C`, `e3D` look like after a trip through the wire format -/
def e3C' : RawToken := { e3C with name_id := 4294967295 }
def e3D' : RawToken := { e3D with src_line := 0, src_col := 0, name_id := 4294967295 }

/-- five tokens on lines 0 and 2, an exact duplicate, two range tokens, a source-less token, an unresolvable name;
one name, two sources -/
def exMap3 : SourceMap :=
  { (default : SourceMap) with tokens := [e3A, e3A, e3B, e3C, e3D], names := [[102]], sources := [[97], [98]] }
/-- the same in wire normal form, without the duplicate -/
def exMap3n : SourceMap :=
  { (default : SourceMap) with tokens := [e3A, e3B, e3C', e3D'], names := [[102]], sources := [[97], [98]] }

-- the hypotheses of the theorems below on `exMap3` (fuel 14)
example : wfToks (units exMap3.sources).length (exMap3.tokens.map toTok) = true := by decide
example : SortedByPos (exMap3.tokens.map toTok) := by unfold SortedByPos; decide
example : exMap3.tokens.length ≤ 9223372036854775807 ∧ (∀ r ∈ exMap3.tokens, r.dst_line < 14) ∧
    (units exMap3.sources).length < 4294967296 ∧ exMap3.names.length ≤ 4294967296 := by decide
-- the generated functions evaluated on it: `AAAA,ICCOA;;CDEE,K` and `C;;B`
example : Gen.RsSerialize.serialize_mappings 14 exMap3 =
    .ok [65, 65, 65, 65, 44, 73, 67, 67, 79, 65, 59, 59, 67, 68, 69, 69, 44, 75] := by rfl
example : Gen.RsSerialize.serialize_range_mappings 14 exMap3 = .ok (some [67, 59, 59, 66]) := by decide +kernel
example : Gen.RsDecodeTokens.decode_regular_tokens (units exMap3.names) (units exMap3.sources) [67, 59, 59, 66]
    [65, 65, 65, 65, 44, 73, 67, 67, 79, 65, 59, 59, 67, 68, 69, 69, 44, 75] = .ok [e3A, e3B, e3C', e3D'] := by
  decide +kernel
example : (dedup (exMap3.tokens.map toTok)).map (normTok exMap3.names.length) = [e3A, e3B, e3C', e3D'].map toTok := by
  decide

/-! ### C01 / C07: generated serialisers, then generated decoder -/

/-- **C01, round trip of the token sequence, generated code on both sides.**  For every `SourceMap` whose tokens are
well-formed for the decoder's source table (`wfToks`: `u32` fields - this is `RawU32` - and a source index that is
absent or resolves) and sorted by position, holding at most `isize::MAX` tokens, with fuel `≥ 14` (a VLQ value)
and `>` every line number (the `;` loops), fewer than `2^32` sources and at most `2^32` names:
the generated `serialize_mappings` and `serialize_range_mappings` succeed, and the generated
`decode_regular_tokens` run on their output returns the tokens of the map up to removal of exact consecutive
duplicates, each in wire normal form.  No hypothesis on the size of the written text is needed (`gen_serialisers`). -/
theorem gen_c01_mappings_roundtrip (sm : SourceMap) (names sources : List Unit)
    (hnl : names.length = sm.names.length)
    (hwf : wfToks sources.length (sm.tokens.map toTok) = true) (hs : SortedByPos (sm.tokens.map toTok))
    (hsize : sm.tokens.length ≤ 9223372036854775807)
    (fuel : Nat) (hf : 14 ≤ fuel) (hfl : ∀ r ∈ sm.tokens, r.dst_line < fuel)
    (hsrcs : sources.length < 4294967296) (hnn : sm.names.length ≤ 4294967296) :
    ∃ m r, Gen.RsSerialize.serialize_mappings fuel sm = .ok m ∧
      Gen.RsSerialize.serialize_range_mappings fuel sm = .ok r ∧
      (Gen.RsDecodeTokens.decode_regular_tokens names sources (r.getD []) m).map (·.map toTok)
        = .ok ((dedup (sm.tokens.map toTok)).map (normTok sm.names.length)) := by
  obtain ⟨m, r, g1, g2, m1, m2, hb, hl, hp⟩ := gen_serialisers sm sources.length hwf hs hsize fuel hf hfl
  refine ⟨m, r, g1, g2, ?_⟩
  have hd := Decode.tie_decode_regular_tokens m (r.getD []) names sources hb hl hsrcs (by omega) hp
  rw [decode_toTok_eq] at hd
  rw [hd, hnl]
  have h := C01.c01_mappings_roundtrip sources.length sm.names.length (sm.tokens.map toTok) hwf hs
  unfold encDec at h
  rw [m2, m1] at h
  exact h

/-- the same with the map's own tables handed to the decoder -/
theorem gen_c01_mappings_roundtrip_self (sm : SourceMap)
    (hwf : wfToks sm.sources.length (sm.tokens.map toTok) = true) (hs : SortedByPos (sm.tokens.map toTok))
    (hsize : sm.tokens.length ≤ 9223372036854775807)
    (fuel : Nat) (hf : 14 ≤ fuel) (hfl : ∀ r ∈ sm.tokens, r.dst_line < fuel)
    (hsrcs : sm.sources.length < 4294967296) (hnn : sm.names.length ≤ 4294967296) :
    ∃ m r, Gen.RsSerialize.serialize_mappings fuel sm = .ok m ∧
      Gen.RsSerialize.serialize_range_mappings fuel sm = .ok r ∧
      (Gen.RsDecodeTokens.decode_regular_tokens (units sm.names) (units sm.sources) (r.getD []) m).map
        (·.map toTok) = .ok ((dedup (sm.tokens.map toTok)).map (normTok sm.names.length)) :=
  gen_c01_mappings_roundtrip sm (units sm.names) (units sm.sources) (units_length _)
    (by rw [units_length]; exact hwf) hs hsize fuel hf hfl (by rw [units_length]; exact hsrcs) hnn

example : ∃ m r, Gen.RsSerialize.serialize_mappings 14 exMap3 = .ok m ∧
    Gen.RsSerialize.serialize_range_mappings 14 exMap3 = .ok r ∧
    (Gen.RsDecodeTokens.decode_regular_tokens (units exMap3.names) (units exMap3.sources) (r.getD []) m).map
      (·.map toTok) = .ok ([e3A, e3B, e3C', e3D'].map toTok) :=
  gen_c01_mappings_roundtrip_self exMap3 (by decide) (by unfold SortedByPos; decide) (by decide) 14 (by omega)
    (by decide) (by decide) (by decide)

/-- … as a statement about raw tokens: the decoder returns the normalised, de-duplicated tokens themselves -/
theorem gen_c01_mappings_roundtrip_raw (sm : SourceMap) (names sources : List Unit)
    (hnl : names.length = sm.names.length)
    (hwf : wfToks sources.length (sm.tokens.map toTok) = true) (hs : SortedByPos (sm.tokens.map toTok))
    (hsize : sm.tokens.length ≤ 9223372036854775807)
    (fuel : Nat) (hf : 14 ≤ fuel) (hfl : ∀ r ∈ sm.tokens, r.dst_line < fuel)
    (hsrcs : sources.length < 4294967296) (hnn : sm.names.length ≤ 4294967296) :
    ∃ m r, Gen.RsSerialize.serialize_mappings fuel sm = .ok m ∧
      Gen.RsSerialize.serialize_range_mappings fuel sm = .ok r ∧
      Gen.RsDecodeTokens.decode_regular_tokens names sources (r.getD []) m
        = .ok (((dedup (sm.tokens.map toTok)).map (normTok sm.names.length)).map Decode.ofTok) := by
  obtain ⟨m, r, g1, g2, h⟩ := gen_c01_mappings_roundtrip sm names sources hnl hwf hs hsize fuel hf hfl hsrcs hnn
  refine ⟨m, r, g1, g2, ?_⟩
  obtain ⟨back, hback, hmap⟩ := map_eq_ok' _ _ _ h
  rw [hback, ← hmap, List.map_map]
  have hid : Decode.ofTok ∘ toTok = id := funext fun t => rfl
  rw [hid, List.map_id]

/-- **C07, range flags survive, generated code on both sides.**  Exactly the same tokens are ranges after the
generated round trip: the `is_range` flags of the decoded tokens are those of the map's tokens without exact
consecutive duplicates. -/
theorem gen_c07_flags_roundtrip (sm : SourceMap) (names sources : List Unit)
    (hnl : names.length = sm.names.length)
    (hwf : wfToks sources.length (sm.tokens.map toTok) = true) (hs : SortedByPos (sm.tokens.map toTok))
    (hsize : sm.tokens.length ≤ 9223372036854775807)
    (fuel : Nat) (hf : 14 ≤ fuel) (hfl : ∀ r ∈ sm.tokens, r.dst_line < fuel)
    (hsrcs : sources.length < 4294967296) (hnn : sm.names.length ≤ 4294967296) :
    ∃ m r back, Gen.RsSerialize.serialize_mappings fuel sm = .ok m ∧
      Gen.RsSerialize.serialize_range_mappings fuel sm = .ok r ∧
      Gen.RsDecodeTokens.decode_regular_tokens names sources (r.getD []) m = .ok back ∧
      back.map (·.is_range) = (dedup (sm.tokens.map toTok)).map (·.rng) := by
  obtain ⟨m, r, g1, g2, m1, m2, hb, hl, hp⟩ := gen_serialisers sm sources.length hwf hs hsize fuel hf hfl
  have hd := Decode.tie_decode_regular_tokens m (r.getD []) names sources hb hl hsrcs (by omega) hp
  rw [decode_toTok_eq, hnl] at hd
  obtain ⟨back', h1, h2⟩ := C01.c07_flags_roundtrip sources.length sm.names.length (sm.tokens.map toTok) hwf hs
  unfold encDec at h1
  rw [m2, m1] at h1
  have h1' : decodeMappings m (r.getD []) sources.length sm.names.length = .ok back' := h1
  rw [h1'] at hd
  obtain ⟨back, hback, hmap⟩ := map_eq_ok' _ _ _ hd
  refine ⟨m, r, back, g1, g2, hback, ?_⟩
  rw [← h2, ← hmap, List.map_map]
  rfl

example : ∃ m r back, Gen.RsSerialize.serialize_mappings 14 exMap3 = .ok m ∧
    Gen.RsSerialize.serialize_range_mappings 14 exMap3 = .ok r ∧
    Gen.RsDecodeTokens.decode_regular_tokens (units exMap3.names) (units exMap3.sources) (r.getD []) m = .ok back ∧
    back.map (·.is_range) = [false, true, true, false] :=
  gen_c07_flags_roundtrip exMap3 (units exMap3.names) (units exMap3.sources) (by decide) (by decide)
    (by unfold SortedByPos; decide) (by decide) 14 (by omega) (by decide) (by decide) (by decide)

/-- **C01, second sentence, generated code on both sides.**  A map whose tokens are in wire normal form and have no
exact consecutive duplicates (what decoding produces) comes back from the generated round trip exactly: the decoder
returns `sm.tokens`. -/
theorem gen_c01_idempotent (sm : SourceMap) (names sources : List Unit)
    (hnl : names.length = sm.names.length)
    (hwf : wfToks sources.length (sm.tokens.map toTok) = true) (hs : SortedByPos (sm.tokens.map toTok))
    (hn : ∀ r ∈ sm.tokens, normTok sm.names.length (toTok r) = toTok r)
    (hd : dedup (sm.tokens.map toTok) = sm.tokens.map toTok)
    (hsize : sm.tokens.length ≤ 9223372036854775807)
    (fuel : Nat) (hf : 14 ≤ fuel) (hfl : ∀ r ∈ sm.tokens, r.dst_line < fuel)
    (hsrcs : sources.length < 4294967296) (hnn : sm.names.length ≤ 4294967296) :
    ∃ m r, Gen.RsSerialize.serialize_mappings fuel sm = .ok m ∧
      Gen.RsSerialize.serialize_range_mappings fuel sm = .ok r ∧
      Gen.RsDecodeTokens.decode_regular_tokens names sources (r.getD []) m = .ok sm.tokens := by
  obtain ⟨m, r, g1, g2, m1, m2, hb, hl, hp⟩ := gen_serialisers sm sources.length hwf hs hsize fuel hf hfl
  have hdec := Decode.tie_decode_regular_tokens m (r.getD []) names sources hb hl hsrcs (by omega) hp
  rw [decode_toTok_eq, hnl] at hdec
  have h := C01.c01_idempotent sources.length sm.names.length (sm.tokens.map toTok) hwf hs
    (by
      intro t ht
      rw [List.mem_map] at ht
      obtain ⟨r, hr, rfl⟩ := ht
      exact hn r hr) hd
  unfold encDec at h
  rw [m2, m1] at h
  have h' : decodeMappings m (r.getD []) sources.length sm.names.length = .ok (sm.tokens.map toTok) := h
  rw [h'] at hdec
  obtain ⟨back, hback, hmap⟩ := map_eq_ok' _ _ _ hdec
  refine ⟨m, r, g1, g2, ?_⟩
  rw [hback]
  have := congrArg (List.map Decode.ofTok) hmap
  rw [List.map_map, List.map_map] at this
  have hid : Decode.ofTok ∘ toTok = id := funext fun t => rfl
  rw [hid, List.map_id, List.map_id] at this
  rw [this]

-- `exMap3n` meets the two extra hypotheses (and the others), and comes back as it is
example : (∀ r ∈ exMap3n.tokens, normTok exMap3n.names.length (toTok r) = toTok r) ∧
    dedup (exMap3n.tokens.map toTok) = exMap3n.tokens.map toTok := by decide
example : ∃ m r, Gen.RsSerialize.serialize_mappings 14 exMap3n = .ok m ∧
    Gen.RsSerialize.serialize_range_mappings 14 exMap3n = .ok r ∧
    Gen.RsDecodeTokens.decode_regular_tokens (units exMap3n.names) (units exMap3n.sources) (r.getD []) m
      = .ok exMap3n.tokens :=
  gen_c01_idempotent exMap3n (units exMap3n.names) (units exMap3n.sources) (by decide) (by decide)
    (by unfold SortedByPos; decide) (by decide) (by decide) (by decide) 14 (by omega) (by decide) (by decide)
    (by decide)
-- the map with the duplicate does not meet `hd`, and indeed does not come back as it is (one token fewer)
example : dedup (exMap3.tokens.map toTok) ≠ exMap3.tokens.map toTok := by decide

/-! ### C03: the independent reader on the output of the generated serialisers -/

/-- **C03, the independent reader reads the generated encoder.**  For every well-formed sorted map (any number of
sources `nsrc` for which the tokens are well-formed) the two generated serialisers succeed and `specDecode`, the
independent reading of the v3 wire format, reads their output as the map's tokens - up to removal of exact
consecutive duplicates, each in wire normal form.  Only the serialiser ties are involved: no size hypothesis
beyond theirs. -/
theorem gen_c03_spec_reads_encoder (sm : SourceMap) (nsrc : Nat)
    (hwf : wfToks nsrc (sm.tokens.map toTok) = true) (hs : SortedByPos (sm.tokens.map toTok))
    (hsize : sm.tokens.length ≤ 9223372036854775807)
    (fuel : Nat) (hf : 14 ≤ fuel) (hfl : ∀ r ∈ sm.tokens, r.dst_line < fuel) :
    ∃ m r, Gen.RsSerialize.serialize_mappings fuel sm = .ok m ∧
      Gen.RsSerialize.serialize_range_mappings fuel sm = .ok r ∧
      specDecode m (r.getD []) nsrc sm.names.length
        = .toks ((dedup (sm.tokens.map toTok)).map (normTok sm.names.length)) := by
  obtain ⟨m, r, g1, g2, m1, m2, _⟩ := gen_serialisers sm nsrc hwf hs hsize fuel hf hfl
  obtain ⟨m', r', h1, h2, h3⟩ := C03.c03_spec_reads_encoder nsrc sm.names.length (sm.tokens.map toTok) hwf hs
  rw [m1] at h1
  rw [m2] at h2
  cases h1
  cases h2
  exact ⟨m, r, g1, g2, h3⟩

example : ∃ m r, Gen.RsSerialize.serialize_mappings 14 exMap3 = .ok m ∧
    Gen.RsSerialize.serialize_range_mappings 14 exMap3 = .ok r ∧
    specDecode m (r.getD []) 2 1 = .toks ([e3A, e3B, e3C', e3D'].map toTok) :=
  gen_c03_spec_reads_encoder exMap3 2 (by decide) (by unfold SortedByPos; decide) (by decide) 14 (by omega)
    (by decide)
-- the reader evaluated on the text the generated serialisers return for `exMap3`
example : specDecode [65, 65, 65, 65, 44, 73, 67, 67, 79, 65, 59, 59, 67, 68, 69, 69, 44, 75] [67, 59, 59, 66] 2 1
    = .toks ([e3A, e3B, e3C', e3D'].map toTok) := by rfl

end EndToEnd

/-! ### axioms -/
#print axioms emit_bytes
#print axioms emit_lines
#print axioms rmiTail_pieces
#print axioms gen_serialisers
#print axioms gen_c01_mappings_roundtrip
#print axioms gen_c01_mappings_roundtrip_self
#print axioms gen_c01_mappings_roundtrip_raw
#print axioms gen_c07_flags_roundtrip
#print axioms gen_c01_idempotent
#print axioms gen_c03_spec_reads_encoder

end SmVerif.Tie.Props
