import SmVerif.Tie.PreludeLemmas2
import SmVerif.Generated.RsEncoder
import SmVerif.Generated.RsUtils
import SmVerif.Model.Mappings
/-
Tie unit "Small": small leaf functions translated by `tools/rs2lean`.

* `tie_encode_byte`, `tie_encode_byte_panics` : `encode_byte` of `encode_rmi` (encoder.rs) = `Mappings.rmiChar`
  on its domain `b < 64`, and a panic on every other byte.
* `tie_is_abs_path` : `is_abs_path` (utils.rs) = the declarative `isAbsPathSpec`, for every byte list; in
  particular it never panics (`b[0]`, `b[1]`, `b[2]` are guarded by `s.len() > 3`).
-/
namespace SmVerif.Tie
open SmVerif SmVerif.Rs

/-! ### `encode_byte` -/

/-- On sextets the translated `encode_byte` is the model's `rmiChar`; none of the `u8` additions overflows
and none of the subtractions underflows. -/
theorem tie_encode_byte (b : Nat) (hb : b < 64) : Gen.RsEncoder.encode_byte b = .ok (Mappings.rmiChar b) := by
  unfold Gen.RsEncoder.encode_byte Mappings.rmiChar
  simp only []
  repeat' split
  all_goals first
    | rfl
    | (exfalso; omega)
    | (simp only [Except.ok.injEq]; omega)

example : (37 : Nat) < 64 := by decide
example : Gen.RsEncoder.encode_byte 37 = .ok 108 := tie_encode_byte 37 (by decide)

/-- Outside `0..=63` the `_ => panic!("invalid byte")` arm is taken - for every natural number, so also for
every `u8`. -/
theorem encode_byte_panics_of_ge (b : Nat) (hb : 64 ≤ b) : Gen.RsEncoder.encode_byte b = .error .panic := by
  unfold Gen.RsEncoder.encode_byte
  simp only []
  repeat' split
  all_goals first
    | rfl
    | (exfalso; omega)

theorem tie_encode_byte_panics (b : Nat) (hb : 64 ≤ b) (_hb' : b < 256) :
    Gen.RsEncoder.encode_byte b = .error .panic :=
  encode_byte_panics_of_ge b hb

example : (64 : Nat) ≤ 200 ∧ (200 : Nat) < 256 := by decide
example : Gen.RsEncoder.encode_byte 200 = .error .panic := tie_encode_byte_panics 200 (by decide) (by decide)

/-- `encode_byte` succeeds exactly on sextets -/
theorem encode_byte_ok_iff (b : Nat) : (∃ v, Gen.RsEncoder.encode_byte b = .ok v) ↔ b < 64 := by
  constructor
  · intro ⟨v, hv⟩
    by_cases h : b < 64
    · exact h
    · rw [encode_byte_panics_of_ge b (by omega)] at hv
      exact absurd hv (by simp only [reduceCtorEq, not_false_eq_true])
  · intro h
    exact ⟨_, tie_encode_byte b h⟩

/-! ### `is_abs_path` -/

/-- `(b >= b'a' && b <= b'z') || (b >= b'A' && b <= b'Z')` -/
def isAsciiLetter (c : Nat) : Bool := (97 ≤ c && c ≤ 122) || (65 ≤ c && c ≤ 90)

/-- What `is_abs_path` is meant to decide, on the bytes of the string: it starts with `/`, or it is longer
than three bytes and starts with a drive letter, `:` and `/` or `\`. -/
def isAbsPathSpec (s : List Nat) : Bool :=
  s.head? == some 47 ||
    (decide (s.length > 3) && s[1]? == some 58 && (s[2]? == some 47 || s[2]? == some 92)
      && s[0]?.any isAsciiLetter)

/-- the same by shape -/
theorem isAbsPathSpec_cons4 (a b c d : Nat) (t : List Nat) :
    isAbsPathSpec (a :: b :: c :: d :: t) =
      (a == 47 || (b == 58 && (c == 47 || c == 92) && isAsciiLetter a)) := by
  simp [isAbsPathSpec]

theorem isAbsPathSpec_short (s : List Nat) (h : s.length ≤ 3) : isAbsPathSpec s = (s.head? == some 47) := by
  have : ¬ (s.length > 3) := by omega
  simp [isAbsPathSpec, this]

theorem isPrefixOf_singleton (c : Nat) (s : List Nat) : List.isPrefixOf [c] s = (s.head? == some c) := by
  cases s with
  | nil => rfl
  | cons x xs =>
    simp only [List.isPrefixOf, List.head?_cons, Bool.and_true]
    rw [Bool.eq_iff_iff]
    simp only [beq_iff_eq, Option.some.injEq]
    exact ⟨Eq.symm, Eq.symm⟩

/-- the specification on four or more bytes as one decidable proposition over the first three -/
theorem isAbsPathSpec_cons4_decide (a b c d : Nat) (t : List Nat) :
    isAbsPathSpec (a :: b :: c :: d :: t) =
      decide (a = 47 ∨ (b = 58 ∧ (c = 47 ∨ c = 92) ∧ ((97 ≤ a ∧ a ≤ 122) ∨ (65 ≤ a ∧ a ≤ 90)))) := by
  rw [isAbsPathSpec_cons4, Bool.eq_iff_iff]
  simp only [isAsciiLetter, Bool.or_eq_true, Bool.and_eq_true, beq_iff_eq, decide_eq_true_eq]
  omega

theorem tie_is_abs_path (s : List Nat) : Gen.RsUtils.is_abs_path s = .ok (isAbsPathSpec s) := by
  unfold Gen.RsUtils.is_abs_path
  rw [isPrefixOf_singleton]
  by_cases hl : s.length > 3
  · match s, hl with
    | a :: b :: c :: d :: t, _ =>
      -- the indexing is inside the slice: every `rsIndex` becomes a value
      simp only [isAbsPathSpec_cons4_decide, List.head?_cons, rsIndex_cons_zero, rsIndex_cons_succ,
        List.length_cons, beq_iff_eq, Option.some.injEq]
      -- the tests of the source in their order: `/` first, then `:`, then the separator; what is left
      -- is the small cascade of comparisons of `b[0]`, where every leaf is `.ok true` or `.ok false`
      -- and the tests on the path decide the specification
      have leafT : ∀ (P : Prop) [Decidable P], P → (Except.ok true : Res Bool) = .ok (decide P) := by
        intro P _ h; rw [decide_eq_true h]
      have leafF : ∀ (P : Prop) [Decidable P], ¬ P → (Except.ok false : Res Bool) = .ok (decide P) := by
        intro P _ h; rw [decide_eq_false h]
      by_cases h0 : a = 47
      · simp only [h0, ↓reduceIte]
        first | rfl | (apply leafT; omega)
      · simp only [h0, ↓reduceIte, gt_iff_lt, Nat.lt_add_left_iff_pos, Nat.zero_lt_succ, false_or]
        by_cases h1 : b = 58
        · simp only [h1, ↓reduceIte, true_and]
          by_cases h2 : c = 47
          · simp only [h2, ↓reduceIte, true_or, true_and]
            repeat' split
            all_goals first
              | (exfalso; omega)
              | (apply leafT; omega)
              | (apply leafF; omega)
          · by_cases h3 : c = 92
            · simp only [h3, ↓reduceIte, or_true, true_and]
              repeat' split
              all_goals first
                | (exfalso; omega)
                | (apply leafT; omega)
                | (apply leafF; omega)
            · simp only [h2, h3, ↓reduceIte, or_self, false_and]
              first | rfl | (apply leafF; omega)
        · simp only [h1, ↓reduceIte, false_and]
          first | rfl | (apply leafF; omega)
  · rw [isAbsPathSpec_short s (by omega)]
    simp only [hl, ↓reduceIte]
    split <;> simp_all

/-- `is_abs_path` never panics and never fails: the three index operations are inside the slice -/
theorem is_abs_path_total (s : List Nat) : ∃ v, Gen.RsUtils.is_abs_path s = .ok v :=
  ⟨_, tie_is_abs_path s⟩

-- "C:\x" and "/a" are absolute, "C:x\" and "1:/x" are not
example : Gen.RsUtils.is_abs_path [67, 58, 92, 120] = .ok true := by rw [tie_is_abs_path]; rfl
example : Gen.RsUtils.is_abs_path [47, 97] = .ok true := by rw [tie_is_abs_path]; rfl
example : Gen.RsUtils.is_abs_path [67, 58, 120, 92] = .ok false := by rw [tie_is_abs_path]; rfl
example : Gen.RsUtils.is_abs_path [49, 58, 47, 120] = .ok false := by rw [tie_is_abs_path]; rfl
-- three bytes are not enough ("C:/")
example : Gen.RsUtils.is_abs_path [67, 58, 47] = .ok false := by rw [tie_is_abs_path]; rfl

end SmVerif.Tie
