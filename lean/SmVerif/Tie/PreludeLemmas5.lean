import SmVerif.Tie.PreludeLemmas2
/-
General lemmas about the operations of `SmVerif/Rs/Prelude.lean` needed by the Paths tie unit
(`rsSplitAny`, `rsJoin`, `rsInsertByKey`/`rsSortByKey`, `rsOptLt`, `rsSlice` from 0, `enumFrom`).
Built on `PreludeLemmas2.lean` (import only ONE of `PreludeLemmas.lean` / `PreludeLemmas2.lean`:
they define lemmas of the same name).
-/
namespace SmVerif.Rs
open SmVerif

/-! ### `rsSplitAny` -/

@[simp] theorem rsSplitAny_nil (cs : List Nat) : rsSplitAny cs [] = [[]] := rfl

/-- a split always has at least one piece -/
theorem rsSplitAny_ne_nil (cs : List Nat) (s : List Nat) : rsSplitAny cs s ≠ [] := by
  cases s with
  | nil => simp only [rsSplitAny, ne_eq, List.cons_ne_self, not_false_eq_true]
  | cons x xs =>
    simp only [rsSplitAny]
    split
    · simp only [ne_eq, reduceCtorEq, not_false_eq_true]
    · split <;> simp only [ne_eq, reduceCtorEq, not_false_eq_true]

theorem rsSplitAny_cons_sep (cs : List Nat) (x : Nat) (xs : List Nat) (h : cs.contains x = true) :
    rsSplitAny cs (x :: xs) = [] :: rsSplitAny cs xs := by
  simp only [rsSplitAny, h, ↓reduceIte]

theorem rsSplitAny_cons_other (cs : List Nat) (x : Nat) (xs : List Nat) (h : cs.contains x = false)
    (p : List Nat) (ps : List (List Nat)) (hp : rsSplitAny cs xs = p :: ps) :
    rsSplitAny cs (x :: xs) = (x :: p) :: ps := by
  simp only [rsSplitAny, h, hp, Bool.false_eq_true, ↓reduceIte]

/-- splitting on a single byte is `rsSplitOn` -/
theorem rsSplitAny_singleton (c : Nat) (s : List Nat) : rsSplitAny [c] s = rsSplitOn c s := by
  induction s with
  | nil => rfl
  | cons x xs ih =>
    simp only [rsSplitAny, rsSplitOn, ih, List.contains_eq_mem, List.mem_cons, List.not_mem_nil, or_false,
      decide_eq_true_eq]

/-! ### `rsJoin` -/

@[simp] theorem rsJoin_nil (sep : List Nat) : rsJoin sep [] = [] := rfl
@[simp] theorem rsJoin_singleton (sep p : List Nat) : rsJoin sep [p] = p := rfl
@[simp] theorem rsJoin_cons_cons (sep p q : List Nat) (rest : List (List Nat)) :
    rsJoin sep (p :: q :: rest) = p ++ sep ++ rsJoin sep (q :: rest) := rfl

/-- joining a non-empty tail: one equation for `p :: ps` when `ps ≠ []` -/
theorem rsJoin_cons_of_ne_nil (sep p : List Nat) (ps : List (List Nat)) (h : ps ≠ []) :
    rsJoin sep (p :: ps) = p ++ sep ++ rsJoin sep ps := by
  cases ps with
  | nil => exact absurd rfl h
  | cons q rest => rfl

/-! ### `rsInsertByKey` / `rsSortByKey` -/

@[simp] theorem rsInsertByKey_nil {α} (key : α → Nat) (x : α) : rsInsertByKey key x [] = [x] := rfl

theorem rsInsertByKey_cons {α} (key : α → Nat) (x y : α) (ys : List α) :
    rsInsertByKey key x (y :: ys) = if key x < key y then x :: y :: ys else y :: rsInsertByKey key x ys := rfl

@[simp] theorem rsInsertByKey_length {α} (key : α → Nat) (x : α) (ys : List α) :
    (rsInsertByKey key x ys).length = ys.length + 1 := by
  induction ys with
  | nil => rfl
  | cons y ys ih =>
    simp only [rsInsertByKey_cons]
    split
    · simp only [List.length_cons]
    · simp only [List.length_cons, ih]

@[simp] theorem rsSortByKey_nil {α} (key : α → Nat) : rsSortByKey key ([] : List α) = [] := rfl

@[simp] theorem rsSortByKey_singleton {α} (key : α → Nat) (a : α) : rsSortByKey key [a] = [a] := rfl

/-- a stable sort of two elements: swapped only when the second key is strictly smaller -/
theorem rsSortByKey_pair {α} (key : α → Nat) (a b : α) :
    rsSortByKey key [a, b] = if key a ≤ key b then [a, b] else [b, a] := by
  simp only [rsSortByKey, List.foldl_cons, List.foldl_nil, rsInsertByKey_nil, rsInsertByKey_cons]
  by_cases h : key a ≤ key b
  · have h' : ¬ key b < key a := by omega
    simp only [h, h', ↓reduceIte]
  · have h' : key b < key a := by omega
    simp only [h, h', ↓reduceIte]

/-- the sort of a two-element list is never empty and its head is the element of smaller key
(the first one on a tie) -/
theorem rsSortByKey_pair_ne_nil {α} (key : α → Nat) (a b : α) : rsSortByKey key [a, b] ≠ [] := by
  rw [rsSortByKey_pair]; split <;> simp only [ne_eq, reduceCtorEq, not_false_eq_true]

theorem rsSortByKey_length {α} (key : α → Nat) (xs : List α) : (rsSortByKey key xs).length = xs.length := by
  have aux : ∀ (ys acc : List α),
      (ys.foldl (fun acc x => rsInsertByKey key x acc) acc).length = acc.length + ys.length := by
    intro ys
    induction ys with
    | nil => intro acc; rfl
    | cons y ys ih =>
      intro acc
      simp only [List.foldl_cons, ih, rsInsertByKey_length, List.length_cons]
      omega
  simp only [rsSortByKey, aux, List.length_nil, Nat.zero_add]

/-! ### `rsOptLt` (strict): `Option<usize>` comparison with `None` lowest -/

@[simp] theorem rsOptLt_strict_none_none : rsOptLt true none none = false := rfl
@[simp] theorem rsOptLt_strict_none_some (b : Nat) : rsOptLt true none (some b) = true := rfl
@[simp] theorem rsOptLt_strict_some_none (a : Nat) : rsOptLt true (some a) none = false := rfl
@[simp] theorem rsOptLt_strict_some_some (a b : Nat) : rsOptLt true (some a) (some b) = decide (a < b) := rfl

/-- nothing is strictly below `None` -/
theorem rsOptLt_strict_none_right (a : Option Nat) : rsOptLt true a none = false := by
  cases a <;> rfl

/-! ### `rsSlice` from the start -/

/-- `&xs[0..k]` -/
theorem rsSlice_zero {α} (xs : List α) (k : Nat) (h : k ≤ xs.length) : rsSlice xs 0 k = .ok (xs.take k) := by
  rw [rsSlice_of_le xs 0 k (Nat.zero_le _) h, List.drop_zero, Nat.sub_zero]

end SmVerif.Rs
