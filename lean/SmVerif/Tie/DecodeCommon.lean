import SmVerif.Generated.RsDecodeCommon
/-
Tie unit "DecodeCommon": `decode_common` (decoder.rs) as translated by `tools/rs2lean` - the dispatch on the kind of
document.  The three decoders it hands the record to are parameters (`decode_index`, `decode_hermes`, `decode_regular`:
any functions), the record is the two fields the dispatch looks at.  C02: "a document with `sections` is an index map,
otherwise one with `x_facebook_sources` is a Hermes map, otherwise a regular map" - on the code as translated, for every
record and whatever the three decoders do.  (The model-level statements are `C02.c02_kind_index` / `_hermes` / `_regular`.)
-/
namespace SmVerif.Tie.DecodeCommon
open SmVerif SmVerif.Rs SmVerif.Gen.RsDecodeCommon

variable {RS SM SMI SMH : Type} [DecidableEq RS] [DecidableEq SM] [DecidableEq SMI] [DecidableEq SMH]

/-- what the dispatch computes, in one line -/
def dispatch (di : RawSourceMap RS SM SMI SMH → Res SMI) (dh : RawSourceMap RS SM SMI SMH → Res SMH)
    (dr : RawSourceMap RS SM SMI SMH → Res SM) (rsm : RawSourceMap RS SM SMI SMH) : Res (DecodedMap RS SM SMI SMH) :=
  if rsm.sections.isSome then (di rsm).map DecodedMap.Index
  else if rsm.x_facebook_sources.isSome then (dh rsm).map DecodedMap.Hermes
  else (dr rsm).map DecodedMap.Regular

theorem tie_decode_common (di : RawSourceMap RS SM SMI SMH → Res SMI) (dh : RawSourceMap RS SM SMI SMH → Res SMH)
    (dr : RawSourceMap RS SM SMI SMH → Res SM) (rsm : RawSourceMap RS SM SMI SMH) :
    decode_common di dh dr rsm = dispatch di dh dr rsm := by
  unfold decode_common dispatch
  by_cases h1 : rsm.sections.isSome = true
  · simp only [h1, if_true]
    cases di rsm <;> rfl
  · by_cases h2 : rsm.x_facebook_sources.isSome = true
    · simp only [h1, h2, if_true, if_false, Bool.false_eq_true]
      cases dh rsm <;> rfl
    · simp only [h1, h2, if_false, Bool.false_eq_true]
      cases dr rsm <;> rfl

/-- a record with `sections` is decoded as an index map - also when it carries `x_facebook_sources` as well -/
theorem gen_c02_kind_index (di : RawSourceMap RS SM SMI SMH → Res SMI) (dh : RawSourceMap RS SM SMI SMH → Res SMH)
    (dr : RawSourceMap RS SM SMI SMH → Res SM) (rsm : RawSourceMap RS SM SMI SMH) (h : rsm.sections.isSome = true) :
    decode_common di dh dr rsm = (di rsm).map DecodedMap.Index := by
  rw [tie_decode_common]; unfold dispatch; simp only [h, if_true]

/-- without `sections`, a record with `x_facebook_sources` is decoded as a Hermes map -/
theorem gen_c02_kind_hermes (di : RawSourceMap RS SM SMI SMH → Res SMI) (dh : RawSourceMap RS SM SMI SMH → Res SMH)
    (dr : RawSourceMap RS SM SMI SMH → Res SM) (rsm : RawSourceMap RS SM SMI SMH)
    (h1 : rsm.sections = none) (h2 : rsm.x_facebook_sources.isSome = true) :
    decode_common di dh dr rsm = (dh rsm).map DecodedMap.Hermes := by
  rw [tie_decode_common]; unfold dispatch; simp [h1, h2]

/-- with neither, it is a regular map -/
theorem gen_c02_kind_regular (di : RawSourceMap RS SM SMI SMH → Res SMI) (dh : RawSourceMap RS SM SMI SMH → Res SMH)
    (dr : RawSourceMap RS SM SMI SMH → Res SM) (rsm : RawSourceMap RS SM SMI SMH)
    (h1 : rsm.sections = none) (h2 : rsm.x_facebook_sources = none) :
    decode_common di dh dr rsm = (dr rsm).map DecodedMap.Regular := by
  rw [tie_decode_common]; unfold dispatch; simp [h1, h2]

/-- an error of the chosen decoder is the error of `decode_common`; the other two decoders are not consulted -/
theorem gen_c02_kind_error (di : RawSourceMap RS SM SMI SMH → Res SMI) (dh dh' : RawSourceMap RS SM SMI SMH → Res SMH)
    (dr dr' : RawSourceMap RS SM SMI SMH → Res SM) (rsm : RawSourceMap RS SM SMI SMH) (h : rsm.sections.isSome = true) :
    decode_common di dh dr rsm = decode_common di dh' dr' rsm := by
  rw [gen_c02_kind_index _ _ _ _ h, gen_c02_kind_index _ _ _ _ h]

-- non-vacuity: a record with both keys goes to the index decoder
example : decode_common (RawSection := Nat) (SourceMap := Nat) (SourceMapIndex := Nat) (SourceMapHermes := Nat) (fun _ => .ok 1) (fun _ => .ok 2) (fun _ => .ok 3)
    { sections := some [7], x_facebook_sources := some [] } = .ok (DecodedMap.Index 1) := by rfl
example : decode_common (RawSection := Nat) (SourceMap := Nat) (SourceMapIndex := Nat) (SourceMapHermes := Nat) (fun _ => .ok 1) (fun _ => .error .json) (fun _ => .ok 3)
    { sections := none, x_facebook_sources := some [none] } = .error .json := by rfl
example : decode_common (RawSection := Nat) (SourceMap := Nat) (SourceMapIndex := Nat) (SourceMapHermes := Nat) (fun _ => .ok 1) (fun _ => .ok 2) (fun _ => .ok 3)
    { sections := none, x_facebook_sources := none } = .ok (DecodedMap.Regular 3) := by rfl

end SmVerif.Tie.DecodeCommon

#print axioms SmVerif.Tie.DecodeCommon.tie_decode_common
#print axioms SmVerif.Tie.DecodeCommon.gen_c02_kind_index
#print axioms SmVerif.Tie.DecodeCommon.gen_c02_kind_hermes
#print axioms SmVerif.Tie.DecodeCommon.gen_c02_kind_regular
#print axioms SmVerif.Tie.DecodeCommon.gen_c02_kind_error
