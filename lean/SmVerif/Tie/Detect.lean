import SmVerif.Tie.PreludeLemmas11
import SmVerif.Generated.RsDetector
import SmVerif.Generated.RsDetectCommon
import SmVerif.Model.Detect
import SmVerif.Props.C18
/-
Tie unit "Detect": `locate_sourcemap_reference` and `is_sourcemap_common` (detector.rs), as translated by
`tools/rs2lean`, against the model `SmVerif/Model/Detect.lean` that the C18 theorems are about.

* bridges between the prelude's mirrors of std and the model's: `tie_lines_aux`, `tie_lines`, `tie_trim`;
* `locate_total` : for EVERY text (valid UTF-8 or not) the generated function is `locateLoopIo` over the
  model's lines - the model's loop with `Lines::next`'s UTF-8 check in front of each line.  In particular the
  `str::from_utf8(&line.as_bytes()[21..])?` of the code can never fail: the line was checked by `lines()`
  and the 21 bytes cut off are ASCII (`from_utf8_never_fails`);
* `tie_locate_sourcemap_reference` : on texts whose lines are valid UTF-8 (the model's documented domain)
  the generated function is the model's `locateReference`;
* `locate_invalid_utf8` : what the model does not represent - an invalid line before (or at) the first
  reference line gives `.error .io`;
* `tie_is_sourcemap_common`;
* `gen_c18_…` : the C18 property theorems restated about the generated functions.
-/
namespace SmVerif.Tie.Detect
open SmVerif SmVerif.Rs SmVerif.Detect SmVerif.Tie

/-! ### `BufRead::lines` -/

theorem tie_lines_aux (cur text : List Nat) : Rs.rsLinesAux cur text = Detect.linesAux cur text := by
  induction text generalizing cur with
  | nil => rfl
  | cons b r ih =>
    simp only [rsLinesAux, linesAux, stripCr]
    rw [ih [], ih (b :: cur)]

/-- for every text: the lines of the prelude are the model's lines, each behind `Lines::next`'s UTF-8 check -/
theorem tie_lines_total (text : List Nat) : Rs.rsLines text = (Detect.lines text).map lineRes := by
  rw [rsLines_eq_map, tie_lines_aux]; rfl

theorem tie_lines (text : List Nat) (hv : ∀ l ∈ Detect.lines text, Rs.rsUtf8Valid l = true) :
    Rs.rsLines text = (Detect.lines text).map .ok := by
  rw [tie_lines_total, map_lineRes_of_valid _ hv]

-- "é\r\nx" : two valid lines
example : ∀ l ∈ Detect.lines [195, 169, 13, 10, 120], Rs.rsUtf8Valid l = true := by decide
example : Rs.rsLines [195, 169, 13, 10, 120] = [.ok [195, 169], .ok [120]] :=
  tie_lines _ (by decide)

/-! ### `str::trim` -/

theorem tie_wsLen (s : List Nat) : Rs.rsWsLen s = Detect.wsLen s := by
  unfold rsWsLen wsLen isAsciiWs isWs2 isWs3
  split <;> rfl

theorem tie_wsLenRev (s : List Nat) : Rs.rsWsLenRev s = Detect.wsLenRev s := by
  unfold rsWsLenRev wsLenRev isAsciiWs isWs2 isWs3
  split <;> rfl

theorem tie_trimStartFuel (n : Nat) (s : List Nat) : Rs.rsTrimStartFuel n s = Detect.trimStartFuel n s := by
  induction n generalizing s with
  | zero => rfl
  | succ n ih => simp only [rsTrimStartFuel, trimStartFuel, tie_wsLen, ih]

theorem tie_trimEndFuel (n : Nat) (s : List Nat) : Rs.rsTrimEndFuel n s = Detect.trimEndFuel n s := by
  induction n generalizing s with
  | zero => rfl
  | succ n ih => simp only [rsTrimEndFuel, trimEndFuel, tie_wsLenRev, ih]

theorem tie_trim (s : List Nat) : Rs.rsTrim s = Detect.trim s := by
  simp only [rsTrim, trim, trimEnd, trimStart, tie_trimStartFuel, tie_trimEndFuel]


-- " \t x\u{3000}" -> "x"
example : Rs.rsTrim [32, 9, 32, 120, 0xE3, 0x80, 0x80] = [120] := by rw [tie_trim]; decide

/-! ### the regenerated constants against the literals of the generated code -/

theorem refSkip_lit : Consts.refSkip = 21 := rfl
theorem refLegacyMarker_lit : Consts.refLegacyMarker = [47, 47, 64] := rfl
theorem refPrefixes_lit : Consts.refPrefixes =
    [[47, 47, 35, 32, 115, 111, 117, 114, 99, 101, 77, 97, 112, 112, 105, 110, 103, 85, 82, 76, 61],
     [47, 47, 64, 32, 115, 111, 117, 114, 99, 101, 77, 97, 112, 112, 105, 110, 103, 85, 82, 76, 61]] := rfl

/-- the `if` of the loop body, as the generated code writes it -/
abbrev GenCond (l : List Nat) : Prop :=
  (List.isPrefixOf [47, 47, 35, 32, 115, 111, 117, 114, 99, 101, 77, 97, 112, 112, 105, 110, 103, 85, 82, 76, 61] l = true)
  ∨ (List.isPrefixOf [47, 47, 64, 32, 115, 111, 117, 114, 99, 101, 77, 97, 112, 112, 105, 110, 103, 85, 82, 76, 61] l = true)

theorem isRefLine_lit (l : List Nat) : isRefLine l = true ↔ GenCond l := by
  simp only [isRefLine, refPrefixes_lit, List.any_cons, List.any_nil, startsWith, Bool.or_false,
    Bool.or_eq_true]

theorem prefixes_ascii : ∀ p ∈ Consts.refPrefixes, ∀ c ∈ p, c < 128 := by decide
theorem prefixes_len : ∀ p ∈ Consts.refPrefixes, p.length = 21 := by decide

/-- a reference line is at least 21 bytes long (so `[21..]` cannot panic) and what follows the 21 bytes is
valid UTF-8 when the line is (so `from_utf8` cannot fail) -/
theorem refLine_facts (l : List Nat) (hb : isRefLine l = true) :
    21 ≤ l.length ∧ (rsUtf8Valid l = true → rsUtf8Valid (l.drop 21) = true) := by
  simp only [isRefLine, List.any_eq_true, startsWith] at hb
  obtain ⟨p, hp, hpl⟩ := hb
  have hlen := prefixes_len p hp
  constructor
  · have := isPrefixOf_length_le11 hpl
    omega
  · intro hv
    have := rsUtf8Valid_drop_of_prefix p l (prefixes_ascii p hp) hpl hv
    rw [hlen] at this
    exact this

/-! ### `locate_sourcemap_reference` -/

/-- `SourceMapRef` of the generated code to the model's `Ref` -/
def toRef : Gen.RsDetector.SourceMapRef → Detect.Ref
  | .Ref u => .ref u
  | .LegacyRef u => .legacy u

theorem toRef_injective (a b : Gen.RsDetector.SourceMapRef) (h : toRef a = toRef b) : a = b := by
  cases a <;> cases b <;> simp only [toRef, Ref.ref.injEq, Ref.legacy.injEq, reduceCtorEq] at h <;> rw [h]

/-- how `locate_sourcemap_reference` reads the outcome of its loop -/
def finish : Res (Exit (Option Gen.RsDetector.SourceMapRef) Unit) → Res (Option Gen.RsDetector.SourceMapRef)
  | .error e => .error e
  | .ok (.ret t) => .ok t
  | .ok (.done ()) => .ok none

theorem locate_eq_finish (text : List Nat) :
    Gen.RsDetector.locate_sourcemap_reference text
      = finish (Gen.RsDetector.locate_sourcemap_reference.loop1 (rsLines text)) := by
  unfold Gen.RsDetector.locate_sourcemap_reference
  split <;> simp only [finish, *]

/-- **the model's loop with `Lines::next`'s UTF-8 check in front of every line** (what the generated
code computes on arbitrary bytes; `locateLoop` where every line is valid) -/
def locateLoopIo : List Bytes → Res (Option Ref)
  | [] => .ok none
  | l :: ls =>
    if rsUtf8Valid l then
      if isRefLine l then
        match refOfLine l with
        | .ok r => .ok (some r)
        | .error e => .error e
      else locateLoopIo ls
    else .error .io

theorem locateLoopIo_invalid (l : Bytes) (ls : List Bytes) (hv : rsUtf8Valid l = false) :
    locateLoopIo (l :: ls) = .error .io := by
  simp only [locateLoopIo, hv, Bool.false_eq_true, ↓reduceIte]

theorem locateLoopIo_ref (l : Bytes) (ls : List Bytes) (hv : rsUtf8Valid l = true) (hb : isRefLine l = true) :
    locateLoopIo (l :: ls) = (refOfLine l).map some := by
  simp only [locateLoopIo, hv, hb, ↓reduceIte]
  cases refOfLine l <;> rfl

theorem locateLoopIo_other (l : Bytes) (ls : List Bytes) (hv : rsUtf8Valid l = true) (hb : isRefLine l = false) :
    locateLoopIo (l :: ls) = locateLoopIo ls := by
  simp only [locateLoopIo, hv, hb, Bool.false_eq_true, ↓reduceIte]

/-- the body of the `if` on a valid reference line: neither the slice nor `from_utf8` fails, and the result
is the model's `refOfLine` -/
theorem loop1_ref_line (l : List Nat) (rest : List (Res (List Nat)))
    (hb : isRefLine l = true) (hv : rsUtf8Valid l = true) :
    ∃ g, Gen.RsDetector.locate_sourcemap_reference.loop1 (.ok l :: rest) = .ok (.ret (some g))
      ∧ refOfLine l = .ok (toRef g) := by
  obtain ⟨hlen, hdrop⟩ := refLine_facts l hb
  have hc : GenCond l := (isRefLine_lit l).mp hb
  have hslice := rsSlice_to_end11 l 21 hlen
  have hutf := rsFromUtf8_of_valid _ (hdrop hv)
  have hnl : ¬ l.length < 21 := by omega
  cases hm : List.isPrefixOf [47, 47, 64] l with
  | true =>
    refine ⟨.LegacyRef (rsTrim (l.drop 21)), ?_, ?_⟩
    · simp only [Gen.RsDetector.locate_sourcemap_reference.loop1, hc, ↓reduceIte, hslice, hutf, hm]
    · simp only [refOfLine, refSkip_lit, hnl, ↓reduceIte, startsWith, refLegacyMarker_lit, hm, toRef, tie_trim]
  | false =>
    refine ⟨.Ref (rsTrim (l.drop 21)), ?_, ?_⟩
    · simp only [Gen.RsDetector.locate_sourcemap_reference.loop1, hc, ↓reduceIte, hslice, hutf, hm,
        Bool.false_eq_true]
    · simp only [refOfLine, refSkip_lit, hnl, ↓reduceIte, startsWith, refLegacyMarker_lit, hm, toRef, tie_trim,
        Bool.false_eq_true]

/-- a valid line that is no reference line is passed over -/
theorem loop1_other_line (l : List Nat) (rest : List (Res (List Nat))) (hb : ¬ isRefLine l = true) :
    Gen.RsDetector.locate_sourcemap_reference.loop1 (.ok l :: rest)
      = Gen.RsDetector.locate_sourcemap_reference.loop1 rest := by
  have hc : ¬ GenCond l := fun h => hb ((isRefLine_lit l).mpr h)
  simp only [Gen.RsDetector.locate_sourcemap_reference.loop1, hc, ↓reduceIte]

/-- an io error of `lines()` is propagated by the `line?` -/
theorem loop1_error_line (e : Err) (rest : List (Res (List Nat))) :
    Gen.RsDetector.locate_sourcemap_reference.loop1 (.error e :: rest) = .error e := by
  simp only [Gen.RsDetector.locate_sourcemap_reference.loop1]

theorem loop1_total (ls : List (List Nat)) :
    (finish (Gen.RsDetector.locate_sourcemap_reference.loop1 (ls.map lineRes))).map (Option.map toRef)
      = locateLoopIo ls := by
  induction ls with
  | nil => rfl
  | cons l ls ih =>
    rw [List.map_cons]
    cases hv : rsUtf8Valid l with
    | true =>
      rw [lineRes_of_valid l hv]
      cases hb : isRefLine l with
      | true =>
        obtain ⟨g, hg, hr⟩ := loop1_ref_line l (ls.map lineRes) hb hv
        rw [hg, locateLoopIo_ref l ls hv hb, hr]
        rfl
      | false =>
        rw [loop1_other_line l _ (by rw [hb]; exact Bool.noConfusion), ih, locateLoopIo_other l ls hv hb]
    | false =>
      rw [lineRes_of_invalid l hv, loop1_error_line, locateLoopIo_invalid l ls hv]
      rfl

/-- **`locate_sourcemap_reference` on every byte string** (valid UTF-8 or not): the model's loop over the
model's lines, with the UTF-8 check of `Lines::next` in front of every line that is reached. -/
theorem locate_total (text : List Nat) :
    (Gen.RsDetector.locate_sourcemap_reference text).map (Option.map toRef)
      = locateLoopIo (Detect.lines text) := by
  rw [locate_eq_finish, tie_lines_total, loop1_total]

theorem locateLoopIo_of_valid (ls : List Bytes) (hv : ∀ l ∈ ls, rsUtf8Valid l = true) :
    locateLoopIo ls = locateLoop ls := by
  induction ls with
  | nil => rfl
  | cons l ls ih =>
    have h1 := hv l List.mem_cons_self
    have ih' := ih (fun x hx => hv x (List.mem_cons_of_mem l hx))
    cases hb : isRefLine l with
    | true =>
      rw [locateLoopIo_ref l ls h1 hb]
      simp only [locateLoop, hb, ↓reduceIte]
      cases refOfLine l <;> rfl
    | false =>
      rw [locateLoopIo_other l ls h1 hb, ih']
      simp only [locateLoop, hb, Bool.false_eq_true, ↓reduceIte]

/-- **Tie.**  On a text whose lines are valid UTF-8 - the domain the model documents - the generated
`locate_sourcemap_reference` is the model's `locateReference`. -/
theorem tie_locate_sourcemap_reference (text : List Nat)
    (hv : ∀ l ∈ Detect.lines text, Rs.rsUtf8Valid l = true) :
    (Gen.RsDetector.locate_sourcemap_reference text).map (Option.map toRef) = Detect.locateReference text := by
  rw [locate_total, locateLoopIo_of_valid _ hv]; rfl

-- "é\n//@ sourceMappingURL= a.map \r\nx"
example : ∀ l ∈ Detect.lines ([195, 169, 10] ++ Spec.pAt ++ [32, 97, 46, 109, 97, 112, 32, 13, 10, 120]),
    Rs.rsUtf8Valid l = true := by decide
example : (Gen.RsDetector.locate_sourcemap_reference
    ([195, 169, 10] ++ Spec.pAt ++ [32, 97, 46, 109, 97, 112, 32, 13, 10, 120])).map (Option.map toRef)
      = .ok (some (.legacy [97, 46, 109, 97, 112])) := by
  rw [tie_locate_sourcemap_reference _ (by decide)]; rfl

/-- every `ok` result of `refOfLine`/the loop aside: the loop's errors are io errors only -/
theorem locateLoopIo_error_is_io (ls : List Bytes) (e : Err) (h : locateLoopIo ls = .error e) : e = .io := by
  induction ls with
  | nil => simp only [locateLoopIo, reduceCtorEq] at h
  | cons l ls ih =>
    cases hv : rsUtf8Valid l with
    | false =>
      rw [locateLoopIo_invalid l ls hv] at h
      exact (Except.error.inj h).symm
    | true =>
      cases hb : isRefLine l with
      | true =>
        obtain ⟨g, _, hr⟩ := loop1_ref_line l [] hb hv
        rw [locateLoopIo_ref l ls hv hb, hr] at h
        simp only [Except.map, reduceCtorEq] at h
      | false =>
        rw [locateLoopIo_other l ls hv hb] at h
        exact ih h

/-- **The `?` on `str::from_utf8(&line.as_bytes()[21..])` is dead code, and the slice never panics**: the only
errors `locate_sourcemap_reference` returns are the io errors of `lines()`. -/
theorem locate_error_is_io (text : List Nat) (e : Err)
    (h : Gen.RsDetector.locate_sourcemap_reference text = .error e) : e = .io := by
  have ht := locate_total text
  rw [h] at ht
  exact locateLoopIo_error_is_io _ e ht.symm

/-- **Invalid UTF-8** (the part the model does not represent).  If the lines of the text are
`pre ++ l :: post` with every line of `pre` valid UTF-8 and not a reference line, and `l` not valid UTF-8
(whether or not it begins like a reference line), the result is the io error of `lines()`. -/
theorem locate_invalid_utf8 (text : List Nat) (pre : List Bytes) (l : Bytes) (post : List Bytes)
    (hs : Detect.lines text = pre ++ l :: post)
    (hpre : ∀ x ∈ pre, Rs.rsUtf8Valid x = true ∧ isRefLine x = false)
    (hl : Rs.rsUtf8Valid l = false) :
    Gen.RsDetector.locate_sourcemap_reference text = .error .io := by
  have ht := locate_total text
  rw [hs] at ht
  have hio : locateLoopIo (pre ++ l :: post) = .error .io := by
    clear ht hs
    induction pre with
    | nil => exact locateLoopIo_invalid l post hl
    | cons x pre ih =>
      obtain ⟨hx1, hx2⟩ := hpre x List.mem_cons_self
      rw [List.cons_append, locateLoopIo_other x _ hx1 hx2]
      exact ih (fun y hy => hpre y (List.mem_cons_of_mem x hy))
  rw [hio] at ht
  cases hg : Gen.RsDetector.locate_sourcemap_reference text with
  | error e =>
    rw [locate_error_is_io text e hg]
  | ok v =>
    rw [hg] at ht
    simp only [Except.map, reduceCtorEq] at ht

-- "a\n\xff\n//# sourceMappingURL=x": the invalid line comes first; the model (which assumes valid UTF-8)
-- finds the reference
example : Detect.lines ([97, 10, 255, 10] ++ Spec.pHash ++ [120]) = [97] :: [255] :: [Spec.pHash ++ [120]] := by
  decide
example : Gen.RsDetector.locate_sourcemap_reference ([97, 10, 255, 10] ++ Spec.pHash ++ [120]) = .error .io :=
  locate_invalid_utf8 _ [[97]] [255] [Spec.pHash ++ [120]] (by decide) (by decide) (by decide)
example : Detect.locateReference ([97, 10, 255, 10] ++ Spec.pHash ++ [120]) = .ok (some (.ref [120])) := by
  rw [C18.c18_locate]; exact congrArg Except.ok (by decide)

/-- **Witness for the UTF-8 hypothesis of `tie_locate_sourcemap_reference`** (the model's documented domain):
on `a\n\xff\n//# sourceMappingURL=x` the generated code reports the io error of `lines()`, the model - which
does not represent it - finds the reference on the third line. -/
theorem valid_hypothesis_needed :
    Gen.RsDetector.locate_sourcemap_reference ([97, 10, 255, 10] ++ Spec.pHash ++ [120]) = .error .io ∧
    Detect.locateReference ([97, 10, 255, 10] ++ Spec.pHash ++ [120]) = .ok (some (.ref [120])) := by
  constructor
  · exact locate_invalid_utf8 _ [[97]] [255] [Spec.pHash ++ [120]] (by decide) (by decide) (by decide)
  · rw [C18.c18_locate]; exact congrArg Except.ok (by decide)

/-- conversely, a reference line that comes before every invalid line is found: invalid UTF-8 after the
reference is never looked at -/
theorem locate_before_invalid (text : List Nat) (pre : List Bytes) (l : Bytes) (post : List Bytes)
    (hs : Detect.lines text = pre ++ l :: post)
    (hpre : ∀ x ∈ pre, Rs.rsUtf8Valid x = true ∧ isRefLine x = false)
    (hl : Rs.rsUtf8Valid l = true) (hb : isRefLine l = true) :
    (Gen.RsDetector.locate_sourcemap_reference text).map (Option.map toRef)
      = (refOfLine l).map some := by
  rw [locate_total, hs]
  clear hs
  induction pre with
  | nil => exact locateLoopIo_ref l post hl hb
  | cons x pre ih =>
    obtain ⟨hx1, hx2⟩ := hpre x List.mem_cons_self
    rw [List.cons_append, locateLoopIo_other x _ hx1 hx2]
    exact ih (fun y hy => hpre y (List.mem_cons_of_mem x hy))

-- "//# sourceMappingURL=x\n\xff"
example : (Gen.RsDetector.locate_sourcemap_reference (Spec.pHash ++ [120, 10, 255])).map (Option.map toRef)
    = .ok (some (.ref [120])) := by
  rw [locate_before_invalid _ [] (Spec.pHash ++ [120]) [[255]] (by decide) (by decide) (by decide) (by decide)]
  rfl

/-! ### `is_sourcemap_common` -/

open Gen.RsJsonTypes in
/-- the rust fields of a `MinimalRawSourceMap` that are `Some`, in declaration order -/
def toPresent (rsm : MinimalRawSourceMap) : Detect.Present :=
  optField rsm.version.isSome fVersion ++ optField rsm.file.isSome fFile ++ optField rsm.sources.isSome fSources
    ++ optField rsm.source_root.isSome fSourceRoot ++ optField rsm.sources_content.isSome fSourcesContent
    ++ optField rsm.sections.isSome fSections ++ optField rsm.names.isSome fNames
    ++ optField rsm.mappings.isSome fMappings

/-- `toPresent` over the eight flags -/
def presentOf (v f s r c x n m : Bool) : Detect.Present :=
  optField v fVersion ++ optField f fFile ++ optField s fSources ++ optField r fSourceRoot
    ++ optField c fSourcesContent ++ optField x fSections ++ optField n fNames ++ optField m fMappings

theorem isSourcemapCommon_presentOf (v f s r c x n m : Bool) :
    isSourcemapCommon (presentOf v f s r c x n m) = (((v || f) && ((((s || r) || c) || n) && m)) || x) := by
  cases v <;> cases f <;> cases s <;> cases r <;> cases c <;> cases x <;> cases n <;> cases m <;> decide

/-- **Tie.**  `is_sourcemap_common` is the model's `isSourcemapCommon` of the fields that are `Some`; it
never fails. -/
theorem tie_is_sourcemap_common (rsm : Gen.RsJsonTypes.MinimalRawSourceMap) :
    Gen.RsDetectCommon.is_sourcemap_common rsm = .ok (Detect.isSourcemapCommon (toPresent rsm)) := by
  have h := isSourcemapCommon_presentOf rsm.version.isSome rsm.file.isSome rsm.sources.isSome
    rsm.source_root.isSome rsm.sources_content.isSome rsm.sections.isSome rsm.names.isSome rsm.mappings.isSome
  unfold Gen.RsDetectCommon.is_sourcemap_common
  rw [← h]
  rfl

-- {"version":3,"sources":[…],"mappings":"…"} is a source map; without "mappings" it is not
example : Gen.RsDetectCommon.is_sourcemap_common
    { version := some 3, file := none, sources := some (), source_root := none, sources_content := none,
      sections := none, names := none, mappings := some () } = .ok true := by
  rw [tie_is_sourcemap_common]; exact congrArg Except.ok (by decide)
example : Gen.RsDetectCommon.is_sourcemap_common
    { version := some 3, file := none, sources := some (), source_root := none, sources_content := none,
      sections := none, names := none, mappings := none } = .ok false := by
  rw [tie_is_sourcemap_common]; exact congrArg Except.ok (by decide)

/-! ### C18 about the generated code -/

/-- the model's `Ref` as the generated code's `SourceMapRef` (inverse of `toRef`) -/
def ofRef : Detect.Ref → Gen.RsDetector.SourceMapRef
  | .ref u => .Ref u
  | .legacy u => .LegacyRef u

theorem toRef_ofRef (r : Detect.Ref) : toRef (ofRef r) = r := by cases r <;> rfl
theorem ofRef_toRef (g : Gen.RsDetector.SourceMapRef) : ofRef (toRef g) = g := by cases g <;> rfl

/-- a statement about the converted result is a statement about the result -/
theorem map_toRef_eq_iff (x : Res (Option Gen.RsDetector.SourceMapRef)) (y : Res (Option Detect.Ref)) :
    x.map (Option.map toRef) = y ↔ x = y.map (Option.map ofRef) := by
  constructor
  · intro h
    subst h
    cases x with
    | error e => rfl
    | ok v =>
      cases v with
      | none => rfl
      | some g => simp only [Except.map, Option.map, ofRef_toRef]
  · intro h
    subst h
    cases y with
    | error e => rfl
    | ok v =>
      cases v with
      | none => rfl
      | some r => simp only [Except.map, Option.map, toRef_ofRef]

/-- **C18 `c18_locate`, generated code**: on a text whose lines are valid UTF-8, discovery never fails and
returns the specification's `specLocate` (the first line beginning with a comment form, the rest trimmed). -/
theorem gen_c18_locate (text : List Nat) (hv : ∀ l ∈ Detect.lines text, Rs.rsUtf8Valid l = true) :
    Gen.RsDetector.locate_sourcemap_reference text = .ok ((Spec.specLocate text).map ofRef) := by
  have h := tie_locate_sourcemap_reference text hv
  rw [C18.c18_locate] at h
  exact (map_toRef_eq_iff _ _).mp h

/-- **C18 `c18_first_line`, generated code** -/
theorem gen_c18_first_line (text : List Nat) (hv : ∀ l ∈ Detect.lines text, Rs.rsUtf8Valid l = true)
    (g : Gen.RsDetector.SourceMapRef) :
    Gen.RsDetector.locate_sourcemap_reference text = .ok (some g) ↔
      ∃ pre l post, Detect.lines text = pre ++ l :: post ∧ (∀ x ∈ pre, ¬ C18.Begins x) ∧ C18.Begins l
        ∧ toRef g = Spec.refOf l := by
  rw [← C18.c18_first_line, ← tie_locate_sourcemap_reference text hv, map_toRef_eq_iff]
  simp only [Except.map, Option.map, ofRef_toRef]

/-- **C18 `c18_none_iff`, generated code** -/
theorem gen_c18_none_iff (text : List Nat) (hv : ∀ l ∈ Detect.lines text, Rs.rsUtf8Valid l = true) :
    Gen.RsDetector.locate_sourcemap_reference text = .ok none ↔ ∀ l ∈ Detect.lines text, ¬ C18.Begins l := by
  rw [← C18.c18_none_iff, ← tie_locate_sourcemap_reference text hv, map_toRef_eq_iff]
  simp only [Except.map, Option.map]

/-- **C18 `c18_legacy_iff`, generated code** -/
theorem gen_c18_legacy_iff (text : List Nat) (hv : ∀ l ∈ Detect.lines text, Rs.rsUtf8Valid l = true) :
    (∃ u, Gen.RsDetector.locate_sourcemap_reference text = .ok (some (.LegacyRef u))) ↔
      ∃ pre l post, Detect.lines text = pre ++ l :: post ∧ (∀ x ∈ pre, ¬ C18.Begins x) ∧ Spec.pAt <+: l := by
  rw [← C18.c18_legacy_iff, ← tie_locate_sourcemap_reference text hv]
  apply exists_congr
  intro u
  rw [map_toRef_eq_iff]
  simp only [Except.map, Option.map, ofRef]

/-- **C18 `c18_embedded`, generated code**: a data URL produced by `to_data_url`, placed in a
`//# sourceMappingURL=` comment at the start of a line of a text with valid UTF-8 lines, is what the generated
`locate_sourcemap_reference` returns (as a non-legacy reference), and the model's `decodeDataUrl` gives the
serialised map back. -/
theorem gen_c18_embedded (pre post b : Bytes) (hb : IsBytes b)
    (hpre : pre = [] ∨ ∃ p, pre = p ++ [10])
    (hno : ∀ l ∈ Detect.lines pre, ¬ C18.Begins l)
    (hpost : post = [] ∨ (∃ t, post = 10 :: t) ∨ (∃ t, post = 13 :: 10 :: t))
    (hv : ∀ l ∈ Detect.lines (pre ++ (Spec.pHash ++ toDataUrl b) ++ post), Rs.rsUtf8Valid l = true) :
    Gen.RsDetector.locate_sourcemap_reference (pre ++ (Spec.pHash ++ toDataUrl b) ++ post)
        = .ok (some (.Ref (toDataUrl b)))
      ∧ decodeDataUrl (toDataUrl b) = .ok b := by
  obtain ⟨h1, h2⟩ := C18.c18_embedded pre post b hb hpre hno hpost
  refine ⟨?_, h2⟩
  rw [← tie_locate_sourcemap_reference _ hv, map_toRef_eq_iff] at h1
  exact h1

instance (l : Bytes) : Decidable (C18.Begins l) := by unfold C18.Begins; infer_instance

-- the hypotheses are met by "é\n//@ sourceMappingURL= a.map \r\nx" (a legacy reference on the second line) …
example : Gen.RsDetector.locate_sourcemap_reference
    ([195, 169, 10] ++ Spec.pAt ++ [32, 97, 46, 109, 97, 112, 32, 13, 10, 120])
      = .ok (some (.LegacyRef [97, 46, 109, 97, 112])) := by
  rw [gen_c18_locate _ (by decide)]; exact congrArg Except.ok (by decide)
example : ∃ u, Gen.RsDetector.locate_sourcemap_reference
    ([195, 169, 10] ++ Spec.pAt ++ [32, 97, 46, 109, 97, 112, 32, 13, 10, 120]) = .ok (some (.LegacyRef u)) :=
  (gen_c18_legacy_iff _ (by decide)).mpr
    ⟨[[195, 169]], Spec.pAt ++ [32, 97, 46, 109, 97, 112, 32], [[120]], by decide, by decide, List.prefix_append _ _⟩
-- … and by "é\nx" (no reference)
example : Gen.RsDetector.locate_sourcemap_reference [195, 169, 10, 120] = .ok none :=
  (gen_c18_none_iff _ (by decide)).mpr (by decide)
-- c18_embedded's example (pre = "a\n", post = "\r\n", b = "{}") has valid UTF-8 lines
example : ∀ l ∈ Detect.lines (([97, 10] : Bytes) ++ (Spec.pHash ++ toDataUrl [123, 125]) ++ [13, 10]),
    Rs.rsUtf8Valid l = true := by decide

/-! `is_sourcemap_common` and `c18_detects_serialised` -/

theorem isSourcemapCommon_congr (a b : Detect.Present) (h : ∀ f, f ∈ a ↔ f ∈ b) :
    isSourcemapCommon a = isSourcemapCommon b := by
  have hc : ∀ f, a.contains f = b.contains f := by
    intro f
    rw [Bool.eq_iff_iff, List.contains_iff_mem, List.contains_iff_mem]
    exact h f
  simp only [isSourcemapCommon, hc]

/-- **C18 `c18_detects_serialised`, generated code**: whenever the `Some` fields of a `MinimalRawSourceMap`
are the ones serde's `Deserialize` fills in (`minimalParse`) from what serde's `Serialize` writes (`emit`) of
what `as_raw_sourcemap` builds for a regular map, an index or a Hermes map, the generated
`is_sourcemap_common` answers `true`. -/
theorem gen_c18_detects_serialised (d : Serialisable) (rsm : Gen.RsJsonTypes.MinimalRawSourceMap)
    (h : ∀ f, f ∈ toPresent rsm ↔ f ∈ minimalParse (emit (asRaw d))) :
    Gen.RsDetectCommon.is_sourcemap_common rsm = .ok true := by
  rw [tie_is_sourcemap_common, isSourcemapCommon_congr _ _ h]
  exact congrArg Except.ok (C18.c18_detects_serialised d)

/-- the struct serde's `Deserialize` builds from a key-presence record (the version number is immaterial) -/
def ofPresent (m : Detect.Present) : Gen.RsJsonTypes.MinimalRawSourceMap where
  version := if m.contains fVersion then some 3 else none
  file := if m.contains fFile then some () else none
  sources := if m.contains fSources then some () else none
  source_root := if m.contains fSourceRoot then some () else none
  sources_content := if m.contains fSourcesContent then some () else none
  sections := if m.contains fSections then some () else none
  names := if m.contains fNames then some () else none
  mappings := if m.contains fMappings then some () else none

theorem toPresent_regularP (f r c g i d : Bool) :
    toPresent (ofPresent (minimalParse (emit (asRawRegularP f r c g i d))))
      = minimalParse (emit (asRawRegularP f r c g i d)) := by
  cases f <;> cases r <;> cases c <;> cases g <;> cases i <;> cases d <;> decide

theorem toPresent_hermesP (f r c g i d b : Bool) :
    toPresent (ofPresent (minimalParse (emit (asRawHermesP f r c g i d b))))
      = minimalParse (emit (asRawHermesP f r c g i d b)) := by
  cases f <;> cases r <;> cases c <;> cases g <;> cases i <;> cases d <;> cases b <;> decide

theorem toPresent_indexP (f : Bool) :
    toPresent (ofPresent (minimalParse (emit (asRawIndexP f)))) = minimalParse (emit (asRawIndexP f)) := by
  cases f <;> decide

/-- the hypothesis of `gen_c18_detects_serialised` is met, for every serialisable map, by the struct with
exactly the parsed fields -/
theorem toPresent_ofPresent_serialised (d : Serialisable) :
    toPresent (ofPresent (minimalParse (emit (asRaw d)))) = minimalParse (emit (asRaw d)) := by
  cases d with
  | regular m => exact toPresent_regularP _ _ _ _ _ _
  | index file => exact toPresent_indexP _
  | hermes m fb => exact toPresent_hermesP _ _ _ _ _ _ _

/-- … so the generated `is_sourcemap_common` recognises what the encoder writes, for every map -/
theorem gen_c18_detects_serialised' (d : Serialisable) :
    Gen.RsDetectCommon.is_sourcemap_common (ofPresent (minimalParse (emit (asRaw d)))) = .ok true :=
  gen_c18_detects_serialised d _ (fun f => by rw [toPresent_ofPresent_serialised d])

-- an index map without `file`: only `version` and `sections` are `Some`
example : ofPresent (minimalParse (emit (asRaw (.index none))))
    = { version := some 3, file := none, sources := none, source_root := none, sources_content := none,
        sections := some (), names := none, mappings := none } := by decide

/-! ### axioms -/
#print axioms tie_lines_aux
#print axioms tie_lines_total
#print axioms tie_lines
#print axioms tie_trim
#print axioms refLine_facts
#print axioms locate_total
#print axioms tie_locate_sourcemap_reference
#print axioms locate_error_is_io
#print axioms locate_invalid_utf8
#print axioms valid_hypothesis_needed
#print axioms locate_before_invalid
#print axioms tie_is_sourcemap_common
#print axioms gen_c18_locate
#print axioms gen_c18_first_line
#print axioms gen_c18_none_iff
#print axioms gen_c18_legacy_iff
#print axioms gen_c18_embedded
#print axioms gen_c18_detects_serialised
#print axioms toPresent_ofPresent_serialised
#print axioms gen_c18_detects_serialised'
#print axioms SmVerif.Tie.rsUtf8Valid_append_ascii
#print axioms SmVerif.Tie.rsUtf8Valid_drop_of_prefix
#print axioms SmVerif.Tie.rsSlice_to_end11

end SmVerif.Tie.Detect
