import SmVerif.Generated.RsSourceView
import SmVerif.Model.SourceViewSlice
import SmVerif.Props.C15
import SmVerif.Tie.PreludeLemmas10
/-
Tie proofs for the closure of `SourceView::get_line_slice` (src/sourceview.rs,
`SmVerif/Generated/RsSourceView.lean`): the generated function `get_line_slice_of_line` computes
`SV.sliceLine` of the hand-written model `SmVerif/Model/SourceViewSlice.lean` - the function that
`c15_slice`, `c15_slice_midpair` (SmVerif/Props/C15.lean) are about - for every byte list (valid
UTF-8 or not), every `u32` column and span, and every fuel above the number of characters skipped.

The only hypothesis beyond the Rust types is `line.length + 3 < 2^64` (any `&str` has
`len ≤ isize::MAX < 2^63`): it keeps the `usize` additions `off += c.len_utf8()`,
`idx += c.len_utf16()` below `2^64` - on a byte list that is not valid UTF-8 the last character can
announce up to three bytes more than there are.
-/
namespace SmVerif.Tie.SourceView
open SmVerif SmVerif.Rs SmVerif.SV

/-! ### bridges: prelude mirrors = model -/

theorem tie_len_utf8 (c : Nat) : rsLenUtf8 c = lenUtf8 c := rfl

theorem tie_len_utf16 (c : Nat) : rsLenUtf16 c = lenUtf16 c := rfl

/-- the model's `Chars` iterator with enough fuel is the prelude's `rsChars`, on every byte list -/
theorem charsFuel_eq_rsChars : ∀ (fuel : Nat) (s : List Nat), s.length ≤ fuel → charsFuel fuel s = rsChars s := by
  intro fuel
  induction fuel with
  | zero =>
    intro s hs
    have : s = [] := List.eq_nil_of_length_eq_zero (by omega)
    subst this
    simp [charsFuel]
  | succ fuel ih =>
    intro s hs
    cases s with
    | nil => simp [charsFuel, nextCodePoint]
    | cons b bs =>
      simp only [List.length_cons] at hs
      rw [rsChars_cons]
      unfold charsFuel nextCodePoint
      by_cases h1 : b < 128
      · simp only [h1, ↓reduceIte]
        rw [ih bs (by omega)]
      · by_cases h2 : b < 224
        · simp only [h1, h2, ↓reduceIte]
          rw [ih (bs.drop 1) (by simp only [List.length_drop]; omega)]
        · have e32 : b % 32 % 8 = b % 8 := by omega
          by_cases h3 : b < 240
          · have e16 : b % 32 = b % 16 := by omega
            simp only [h1, h2, h3, ↓reduceIte]
            rw [ih ((bs.drop 1).drop 1) (by simp only [List.length_drop]; omega), e16]
            rcases bs with _ | ⟨y, _ | ⟨z, r⟩⟩ <;> simp [Nat.add_assoc]
          · simp only [h1, h2, h3, ↓reduceIte]
            rw [ih (((bs.drop 1).drop 1).drop 1) (by simp only [List.length_drop]; omega), e32]
            rcases bs with _ | ⟨y, _ | ⟨z, _ | ⟨w, r⟩⟩⟩ <;> simp [Nat.add_assoc, Nat.add_mul] <;> omega

/-- **`str::chars`.**  Prelude mirror = model on ALL byte lists (valid UTF-8 or not: both let the lead
byte decide the width and read a missing continuation byte as 0). -/
theorem tie_chars (s : List Nat) : rsChars s = chars s :=
  (charsFuel_eq_rsChars s.length s (Nat.le_refl _)).symm

/-- **`str::is_char_boundary`.**  Mirror = model for all strings and all indices. -/
theorem tie_is_char_boundary (s : List Nat) (i : Nat) : rsIsCharBoundary s i = isCharBoundary s i := by
  unfold rsIsCharBoundary isCharBoundary
  by_cases h0 : i = 0
  · subst h0; simp
  · by_cases hl : i = s.length
    · subst hl; simp
    · by_cases hlt : i < s.length
      · simp [h0, hl, List.getElem?_eq_getElem hlt]
      · have hn : s[i]? = none := List.getElem?_eq_none (by omega)
        simp [h0, hl, hn]

/-- **`str::get(a..b)`.**  Mirror = model for ALL inputs: the mirror's explicit `b ≤ s.len()` is implied
by `is_char_boundary(b)`, which is what the model (like std) relies on. -/
theorem tie_str_get (s : List Nat) (a b : Nat) : rsStrGet s a b = strGet s a b := by
  rw [rsStrGet_eq]
  unfold strGet
  simp only [tie_is_char_boundary]

/-! ### the two loops -/

/-- the first loop of the model never lengthens the iterator -/
theorem skipLoop_length_le (col : Nat) : ∀ (cs : List Nat) (off idx : Nat),
    (skipLoop col cs off idx).2.2.length ≤ cs.length := by
  intro cs
  induction cs with
  | nil => intro off idx; simp [skipLoop]
  | cons c cs ih =>
    intro off idx
    unfold skipLoop
    by_cases h : idx ≥ col
    · simp only [h, ↓reduceIte]; exact Nat.le_refl _
    · simp only [h, ↓reduceIte, List.length_cons]
      exact Nat.le_succ_of_le (ih _ _)

/-- number of characters that the first loop consumes -/
def skipped (col : Nat) (cs : List Nat) (off idx : Nat) : Nat :=
  cs.length - (skipLoop col cs off idx).2.2.length

theorem skipped_le (col : Nat) (cs : List Nat) (off idx : Nat) : skipped col cs off idx ≤ cs.length :=
  Nat.sub_le _ _

theorem skipped_nil (col off idx : Nat) : skipped col [] off idx = 0 := by simp [skipped]

theorem skipped_cons (col c : Nat) (cs : List Nat) (off idx : Nat) :
    skipped col (c :: cs) off idx =
      if idx ≥ col then 0 else skipped col cs (off + lenUtf8 c) (idx + lenUtf16 c) + 1 := by
  unfold skipped
  rw [skipLoop]
  by_cases h : idx ≥ col
  · simp only [h, ↓reduceIte, Nat.sub_self]
  · have := skipLoop_length_le col cs (off + lenUtf8 c) (idx + lenUtf16 c)
    simp only [h, ↓reduceIte, List.length_cons]
    omega

/-- what the first loop leaves: `off`/`idx` advanced by exactly the `len_utf8`/`len_utf16` of the skipped
characters -/
theorem skipLoop_sums (col : Nat) : ∀ (cs : List Nat) (off idx : Nat),
    (skipLoop col cs off idx).1 + rsSumLen8 (skipLoop col cs off idx).2.2 = off + rsSumLen8 cs ∧
    (skipLoop col cs off idx).2.1 + rsSumLen16 (skipLoop col cs off idx).2.2 = idx + rsSumLen16 cs ∧
    (skipLoop col cs off idx).2.1 + rsSumLen8 (skipLoop col cs off idx).2.2 ≤ idx + rsSumLen8 cs := by
  intro cs
  induction cs with
  | nil => intro off idx; simp [skipLoop]
  | cons c cs ih =>
    intro off idx
    unfold skipLoop
    by_cases h : idx ≥ col
    · rw [if_pos h]
      exact ⟨rfl, rfl, Nat.le_refl _⟩
    · simp only [h, ↓reduceIte, rsSumLen8_cons, rsSumLen16_cons]
      obtain ⟨h1, h2, h3⟩ := ih (off + lenUtf8 c) (idx + lenUtf16 c)
      have := rsLenUtf16_le_rsLenUtf8 c
      rw [tie_len_utf8, tie_len_utf16] at *
      refine ⟨?_, ?_, ?_⟩ <;> omega

/-- **First loop** (`while let Some(&c) = char_iter.peek()`), with enough fuel: the generated loop is the
model's `skipLoop` (results in the generated order `(char_iter, off, idx)`).  One unit of fuel per character
skipped plus one for the iteration that leaves the loop. -/
theorem loop1_eq (col : Nat) : ∀ (cs : List Nat) (fuel off idx : Nat),
    off + rsSumLen8 cs ≤ 18446744073709551615 → idx + rsSumLen8 cs ≤ 18446744073709551615 →
    skipped col cs off idx < fuel →
    Gen.RsSourceView.get_line_slice_of_line.loop1 col fuel cs off idx
      = .ok ((skipLoop col cs off idx).2.2, (skipLoop col cs off idx).1, (skipLoop col cs off idx).2.1) := by
  intro cs
  induction cs with
  | nil =>
    intro fuel off idx _ _ hf
    cases fuel with
    | zero => omega
    | succ fuel => simp [Gen.RsSourceView.get_line_slice_of_line.loop1, skipLoop]
  | cons c cs ih =>
    intro fuel off idx ho hi hf
    cases fuel with
    | zero => omega
    | succ fuel =>
      rw [skipped_cons] at hf
      unfold Gen.RsSourceView.get_line_slice_of_line.loop1 skipLoop
      simp only [List.head?_cons, List.tail_cons]
      by_cases h : idx ≥ col
      · simp only [h, ↓reduceIte]
      · simp only [h, ↓reduceIte] at hf ⊢
        simp only [rsSumLen8_cons] at ho hi
        have h16 := rsLenUtf16_le_rsLenUtf8 c
        have g1 : off + rsLenUtf8 c ≤ 18446744073709551615 := by omega
        have g2 : idx + rsLenUtf16 c ≤ 18446744073709551615 := by omega
        simp only [g1, g2, ↓reduceIte]
        rw [← tie_len_utf8, ← tie_len_utf16] at hf ⊢
        exact ih fuel (off + rsLenUtf8 c) (idx + rsLenUtf16 c) (by omega) (by omega) (by omega)

/-- **First loop, not enough fuel**: with fuel at most the number of characters to skip the generated loop
reports `diverge` (it cannot: the Rust loop ends with the iterator) -/
theorem loop1_diverge (col : Nat) : ∀ (cs : List Nat) (fuel off idx : Nat),
    off + rsSumLen8 cs ≤ 18446744073709551615 → idx + rsSumLen8 cs ≤ 18446744073709551615 →
    fuel ≤ skipped col cs off idx →
    Gen.RsSourceView.get_line_slice_of_line.loop1 col fuel cs off idx = .error .diverge := by
  intro cs
  induction cs with
  | nil =>
    intro fuel off idx _ _ hf
    rw [skipped_nil] at hf
    have : fuel = 0 := by omega
    subst this
    simp [Gen.RsSourceView.get_line_slice_of_line.loop1]
  | cons c cs ih =>
    intro fuel off idx ho hi hf
    cases fuel with
    | zero => simp [Gen.RsSourceView.get_line_slice_of_line.loop1]
    | succ fuel =>
      rw [skipped_cons] at hf
      unfold Gen.RsSourceView.get_line_slice_of_line.loop1
      simp only [List.head?_cons, List.tail_cons]
      by_cases h : idx ≥ col
      · simp only [h, ↓reduceIte] at hf; omega
      · simp only [h, ↓reduceIte] at hf ⊢
        simp only [rsSumLen8_cons] at ho hi
        have h16 := rsLenUtf16_le_rsLenUtf8 c
        have g1 : off + rsLenUtf8 c ≤ 18446744073709551615 := by omega
        have g2 : idx + rsLenUtf16 c ≤ 18446744073709551615 := by omega
        simp only [g1, g2, ↓reduceIte]
        rw [← tie_len_utf8, ← tie_len_utf16] at hf
        exact ih fuel (off + rsLenUtf8 c) (idx + rsLenUtf16 c) (by omega) (by omega) (by omega)

/-- **Second loop** (`for c in char_iter`): the generated loop is the model's `takeLoop` -/
theorem loop2_eq (col span : Nat) (hcs : col + span ≤ 18446744073709551615) : ∀ (cs : List Nat) (offEnd idx : Nat),
    offEnd + rsSumLen8 cs ≤ 18446744073709551615 → idx + rsSumLen8 cs ≤ 18446744073709551615 →
    Gen.RsSourceView.get_line_slice_of_line.loop2 col span cs offEnd idx
      = .ok (takeLoop (col + span) cs offEnd idx) := by
  intro cs
  induction cs with
  | nil => intro offEnd idx _ _; simp [Gen.RsSourceView.get_line_slice_of_line.loop2, takeLoop]
  | cons c cs ih =>
    intro offEnd idx ho hi
    unfold Gen.RsSourceView.get_line_slice_of_line.loop2 takeLoop
    simp only [hcs, ↓reduceIte]
    by_cases h : idx ≥ col + span
    · simp only [h, ↓reduceIte]
    · simp only [h, ↓reduceIte]
      simp only [rsSumLen8_cons] at ho hi
      have h16 := rsLenUtf16_le_rsLenUtf8 c
      have g1 : offEnd + rsLenUtf8 c ≤ 18446744073709551615 := by omega
      have g2 : idx + rsLenUtf16 c ≤ 18446744073709551615 := by omega
      simp only [g1, g2, ↓reduceIte]
      rw [← tie_len_utf8, ← tie_len_utf16]
      exact ih (offEnd + rsLenUtf8 c) (idx + rsLenUtf16 c) (by omega) (by omega)

/-! ### the closure of `get_line_slice` -/

/-- **Main theorem, sharpest form.**  On every byte list shorter than `2^64 - 3`, for `u32` column and span,
with more fuel than characters to skip, the generated closure returns exactly `sliceLine` of the model: no
panic (every `usize` addition stays in range), no `diverge`. -/
theorem tie_get_line_slice_skipped (line : List Nat) (col span fuel : Nat)
    (hcol : col < 2 ^ 32) (hspan : span < 2 ^ 32) (hlen : line.length + 3 < 2 ^ 64)
    (hfuel : skipped col (chars line) 0 0 < fuel) :
    Gen.RsSourceView.get_line_slice_of_line fuel line col span = .ok (sliceLine line col span) := by
  have hsum := rsSumLen8_rsChars line
  rw [tie_chars] at hsum
  have hcs : col + span ≤ 18446744073709551615 := by omega
  have hb : 0 + rsSumLen8 (chars line) ≤ 18446744073709551615 := by omega
  obtain ⟨s1, _, s3⟩ := skipLoop_sums col (chars line) 0 0
  unfold Gen.RsSourceView.get_line_slice_of_line sliceLine
  simp only [tie_chars]
  rw [loop1_eq col (chars line) fuel 0 0 hb hb hfuel]
  simp only []
  rw [loop2_eq col span hcs _ _ _ (by omega) (by omega)]
  simp only [hcs, ↓reduceIte, tie_str_get]
  split <;> rfl

/-- **Main theorem.**  `get_line_slice_of_line fuel line col span = .ok (sliceLine line col span)` for every
`&str`-sized byte list (`len ≤ isize::MAX`; valid UTF-8 is NOT needed), every `u32` column and span, and every
fuel above the number of characters of the line. -/
theorem tie_get_line_slice (line : List Nat) (col span fuel : Nat)
    (hcol : col < 2 ^ 32) (hspan : span < 2 ^ 32) (hlen : line.length < 2 ^ 63)
    (hfuel : (chars line).length < fuel) :
    Gen.RsSourceView.get_line_slice_of_line fuel line col span = .ok (sliceLine line col span) :=
  tie_get_line_slice_skipped line col span fuel hcol hspan (by omega)
    (Nat.lt_of_le_of_lt (skipped_le _ _ _ _) hfuel)

/-- the same with the fuel bound stated on the bytes (`chars` yields at most one character per byte) -/
theorem tie_get_line_slice_bytes (line : List Nat) (col span fuel : Nat)
    (hcol : col < 2 ^ 32) (hspan : span < 2 ^ 32) (hlen : line.length < 2 ^ 63)
    (hfuel : line.length < fuel) :
    Gen.RsSourceView.get_line_slice_of_line fuel line col span = .ok (sliceLine line col span) := by
  have := rsChars_length line
  rw [tie_chars] at this
  exact tie_get_line_slice line col span fuel hcol hspan hlen (by omega)

/-- **Not enough fuel**: with at most as much fuel as characters to skip the generated closure reports
`diverge`, and nothing else - so `fuel > skipped` is exactly the fuel needed. -/
theorem tie_get_line_slice_diverge (line : List Nat) (col span fuel : Nat)
    (hlen : line.length + 3 < 2 ^ 64) (hfuel : fuel ≤ skipped col (chars line) 0 0) :
    Gen.RsSourceView.get_line_slice_of_line fuel line col span = .error .diverge := by
  have hsum := rsSumLen8_rsChars line
  rw [tie_chars] at hsum
  have hb : 0 + rsSumLen8 (chars line) ≤ 18446744073709551615 := by omega
  unfold Gen.RsSourceView.get_line_slice_of_line
  simp only [tie_chars]
  rw [loop1_diverge col (chars line) fuel 0 0 hb hb hfuel]

/-- the closure never panics, whatever the fuel -/
theorem tie_get_line_slice_no_panic (line : List Nat) (col span fuel : Nat)
    (hcol : col < 2 ^ 32) (hspan : span < 2 ^ 32) (hlen : line.length + 3 < 2 ^ 64) :
    Gen.RsSourceView.get_line_slice_of_line fuel line col span ≠ .error .panic := by
  rcases Nat.lt_or_ge (skipped col (chars line) 0 0) fuel with h | h
  · rw [tie_get_line_slice_skipped line col span fuel hcol hspan hlen h]
    intro hc; cases hc
  · rw [tie_get_line_slice_diverge line col span fuel hlen h]
    intro hc; cases hc

/-! ### C15 restated about the generated code

`c15_slice`, `c15_slice_midpair` (Props/C15.lean) are about `getLineSlice`, i.e. `get_line` on the line
cache followed by `sliceLine` on the line found.  The part that concerns the closure, for a given line: -/

/-- **get_line_slice on a character boundary** (the slice part of `c15_slice`): for a column that is not
strictly inside a surrogate pair the generated closure returns `sliceSpec` - the characters covering code
units `c .. c+n`, nothing if the line is shorter. -/
theorem gen_c15_slice (line : List Nat) (hv : ValidUtf8 line) (c n fuel : Nat)
    (hc : c < 2 ^ 32) (hn : n < 2 ^ 32) (hlen : line.length < 2 ^ 63) (hfuel : (chars line).length < fuel)
    (hb : midPair line c = false) :
    Gen.RsSourceView.get_line_slice_of_line fuel line c n = .ok (sliceSpec line c n) := by
  rw [tie_get_line_slice line c n fuel hc hn hlen hfuel, sliceLine_eq_spec line hv c n hb]

/-- **Column strictly inside a surrogate pair** (the slice part of `c15_slice_midpair`): the generated
closure answers the request `(c+1, n-1)`. -/
theorem gen_c15_slice_midpair (line : List Nat) (hv : ValidUtf8 line) (c n fuel : Nat)
    (hc : c < 2 ^ 32) (hn : n < 2 ^ 32) (hlen : line.length < 2 ^ 63) (hfuel : (chars line).length < fuel)
    (hm : midPair line c = true) :
    Gen.RsSourceView.get_line_slice_of_line fuel line c n = .ok (sliceSpec line (c + 1) (n - 1)) := by
  rw [tie_get_line_slice line c n fuel hc hn hlen hfuel, sliceLine_mid line hv c n hm]

/-- `c15_slice` on a view, whatever was requested before: `get_line(l)` returns the `l`-th piece of the
text, and the generated closure applied to that piece (the `and_then` of `get_line_slice`) returns
`sliceSpec` of it. -/
theorem gen_c15_slice_view (src : List Nat) (reqs : List Req) (as : List Ans) (st : St)
    (h : runReqs src {} reqs = .ok (as, st)) (hv : ValidUtf8 src) (l c n fuel : Nat)
    (hc : c < 2 ^ 32) (hn : n < 2 ^ 32)
    (hb : ∀ ln, (splitLines src)[l]? = some ln → midPair ln c = false) :
    ∃ st', getLine src st l = .ok ((splitLines src)[l]?, st') ∧
      ∀ ln, (splitLines src)[l]? = some ln → ln.length < 2 ^ 63 → (chars ln).length < fuel →
        Gen.RsSourceView.get_line_slice_of_line fuel ln c n = .ok (sliceSpec ln c n) := by
  obtain ⟨st', hg⟩ := C15.c15_get_line src reqs as st h l
  refine ⟨st', hg, ?_⟩
  intro ln hl hlen hfuel
  exact gen_c15_slice ln (splitLines_valid src hv ln (getElem?_mem' hl)) c n fuel hc hn hlen hfuel (hb ln hl)

/-- `c15_slice_midpair` on a view, in the same form -/
theorem gen_c15_slice_midpair_view (src : List Nat) (reqs : List Req) (as : List Ans) (st : St)
    (h : runReqs src {} reqs = .ok (as, st)) (hv : ValidUtf8 src) (l c n fuel : Nat) (ln : List Nat)
    (hc : c < 2 ^ 32) (hn : n < 2 ^ 32)
    (hl : (splitLines src)[l]? = some ln) (hm : midPair ln c = true)
    (hlen : ln.length < 2 ^ 63) (hfuel : (chars ln).length < fuel) :
    ∃ st', getLine src st l = .ok (some ln, st') ∧
      Gen.RsSourceView.get_line_slice_of_line fuel ln c n = .ok (sliceSpec ln (c + 1) (n - 1)) := by
  obtain ⟨st', hg⟩ := C15.c15_get_line src reqs as st h l
  rw [hl] at hg
  exact ⟨st', hg, gen_c15_slice_midpair ln (splitLines_valid src hv ln (getElem?_mem' hl)) c n fuel hc hn hlen hfuel hm⟩

/-! ### the hypotheses are met by concrete, non-trivial values -/

/-- `abc👌d` (the line of the crate's own test) -/
def exLine : List Nat := [97, 98, 99, 240, 159, 145, 140, 100]

example : chars exLine = [97, 98, 99, 128076, 100] := by decide
example : rsChars exLine = [97, 98, 99, 128076, 100] := by rw [tie_chars]; decide
example : ValidUtf8 exLine := ⟨[[97], [98], [99], [240, 159, 145, 140], [100]], by decide, rfl⟩
example : exLine.length < 2 ^ 63 ∧ (chars exLine).length < 6 := by decide
example : midPair exLine 3 = false ∧ midPair exLine 4 = true := by decide
/-- three characters skipped for column 3: fuel 4 is enough, fuel 3 is not -/
example : skipped 3 (chars exLine) 0 0 = 3 := by decide
/-- `get_line_slice(0, 3, 2) = Some("👌")` -/
example : Gen.RsSourceView.get_line_slice_of_line 6 exLine 3 2 = .ok (some [240, 159, 145, 140]) := by
  rw [tie_get_line_slice exLine 3 2 6 (by decide) (by decide) (by decide) (by decide)]
  exact congrArg _ (by decide)
example : Gen.RsSourceView.get_line_slice_of_line 3 exLine 3 2 = .error .diverge :=
  tie_get_line_slice_diverge exLine 3 2 3 (by decide) (by decide)
/-- a malformed line (truncated four-byte character): still equal, `off` runs three past the end, `get` answers `None` -/
example : Gen.RsSourceView.get_line_slice_of_line 2 [244] 0 1 = .ok none := by
  rw [tie_get_line_slice [244] 0 1 2 (by decide) (by decide) (by decide) (by decide)]
  exact congrArg _ (by decide)
/-- there `off_end` is `len + 3`: the bound `rsSumLen8_rsChars` (hence `line.length + 3 < 2^64`) is attained -/
example : takeLoop 1 (chars [244]) 0 0 = (4, 2) := by decide

end SmVerif.Tie.SourceView
