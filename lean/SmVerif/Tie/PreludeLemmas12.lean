import SmVerif.Tie.PreludeLemmas3
/-
General lemmas about the operations of `SmVerif/Rs/Prelude.lean` needed by the Adjust tie unit:

* `wrapS 32` of a `u32` (`x as i32`);
* `rsSortByKeyP` (the insertion-sort mirror of `sort_unstable_by_key` with a `(u32, u32)` key, read as a stable
  sort) is core's stable `List.mergeSort` at the order `a ≤ b := ¬ key b < key a`.  Shown through a uniqueness
  principle for stable sorts: two lists sorted by the key that have, for every key value `k`, the same sublist of
  elements with key `k` are equal (`eq_of_sorted_of_filter_eq`).

Built on `PreludeLemmas3.lean` (`ltPair`); core Lean only; names do not clash with `PreludeLemmas.lean` /
`PreludeLemmas2.lean`.
-/
namespace SmVerif.Rs
open SmVerif

/-! ### `as i32` on a `u32` -/

theorem wrapS32_unfold (x : Int) : wrapS 32 x = (x + 2147483648) % 4294967296 - 2147483648 := by
  unfold wrapS
  rfl

/-- `n as i32` for a `u32` value: unchanged below `2^31`, minus `2^32` from there -/
theorem wrapS32_natCast (n : Nat) (h : n < 4294967296) :
    wrapS 32 (n : Int) = if n < 2147483648 then (n : Int) else (n : Int) - 4294967296 := by
  rw [wrapS32_unfold]
  split <;> omega

/-- `x as u32` on an `i32`/`i64`: the prelude's `toU 32` is the model's `wrapU32` -/
theorem toU32_wrapU32 (x : Int) : toU 32 x = wrapU32 x := rfl

/-! ### `ltPair` as a total preorder -/

theorem ltPair_false_trans (a b c : Nat × Nat) (h1 : ltPair b a = false) (h2 : ltPair c b = false) :
    ltPair c a = false := by
  rw [ltPair_eq_false_iff] at *; omega

theorem ltPair_false_total (a b : Nat × Nat) : ltPair b a = false ∨ ltPair a b = false := by
  simp only [ltPair_eq_false_iff]; omega

theorem ltPair_false_of_lt (a b : Nat × Nat) (h : ltPair a b = true) : ltPair b a = false :=
  ltPair_asymm a b h

theorem eq_of_ltPair_false (a b : Nat × Nat) (h1 : ltPair a b = false) (h2 : ltPair b a = false) : a = b := by
  apply (ltPair_equal_iff a b).mp
  simp only [h1, h2, Bool.not_false, Bool.and_self]

/-! ### stable sorts by a `(u32, u32)` key -/

section sort
variable {α : Type} (key : α → Nat × Nat)

/-- sorted by `key` (non-strictly) -/
def SortedByKeyP (l : List α) : Prop := l.Pairwise (fun a b => ltPair (key b) (key a) = false)

theorem rsInsertByKeyP_nil (x : α) : rsInsertByKeyP key x [] = [x] := rfl

theorem rsInsertByKeyP_cons (x y : α) (ys : List α) :
    rsInsertByKeyP key x (y :: ys) =
      if ltPair (key x) (key y) = true then x :: y :: ys else y :: rsInsertByKeyP key x ys := rfl

theorem rsInsertByKeyP_perm (x : α) : ∀ (l : List α), (rsInsertByKeyP key x l).Perm (x :: l) := by
  intro l
  induction l with
  | nil => exact List.Perm.refl _
  | cons y ys ih =>
    rw [rsInsertByKeyP_cons]
    split
    · exact List.Perm.refl _
    · exact (List.Perm.cons y ih).trans (List.Perm.swap x y ys)

theorem rsInsertByKeyP_sorted (x : α) : ∀ (l : List α), SortedByKeyP key l →
    SortedByKeyP key (rsInsertByKeyP key x l) := by
  intro l
  induction l with
  | nil => intro _; exact List.pairwise_singleton _ _
  | cons y ys ih =>
    intro hs
    rw [rsInsertByKeyP_cons]
    have hs' := List.pairwise_cons.mp hs
    by_cases hlt : ltPair (key x) (key y) = true
    · simp only [hlt, ↓reduceIte]
      refine List.pairwise_cons.mpr ⟨?_, hs⟩
      intro b hb
      have hxy : ltPair (key y) (key x) = false := ltPair_asymm _ _ hlt
      rcases List.mem_cons.mp hb with rfl | hb
      · exact hxy
      · exact ltPair_false_trans _ _ _ hxy (hs'.1 b hb)
    · simp only [hlt, Bool.false_eq_true, ↓reduceIte]
      refine List.pairwise_cons.mpr ⟨?_, ih hs'.2⟩
      intro b hb
      have hb' := (rsInsertByKeyP_perm key x ys).mem_iff.mp hb
      rcases List.mem_cons.mp hb' with rfl | hb'
      · simpa using hlt
      · exact hs'.1 b hb'

/-- in a sorted list, the new element goes behind all elements of its key -/
theorem rsInsertByKeyP_filter (x : α) (k : Nat × Nat) : ∀ (l : List α), SortedByKeyP key l →
    (rsInsertByKeyP key x l).filter (fun a => decide (key a = k)) =
      l.filter (fun a => decide (key a = k)) ++ (if key x = k then [x] else []) := by
  intro l
  induction l with
  | nil =>
    intro _
    rw [rsInsertByKeyP_nil]
    by_cases hk : key x = k
    · simp only [List.filter_cons, hk, decide_true, ↓reduceIte, List.filter_nil, List.nil_append]
    · simp only [List.filter_cons, hk, decide_false, Bool.false_eq_true, ↓reduceIte, List.filter_nil,
        List.append_nil]
  | cons y ys ih =>
    intro hs
    rw [rsInsertByKeyP_cons]
    have hs' := List.pairwise_cons.mp hs
    by_cases hlt : ltPair (key x) (key y) = true
    · simp only [hlt, ↓reduceIte]
      by_cases hk : key x = k
      · -- nothing of `y :: ys` has the key of `x`
        have hnil : (y :: ys).filter (fun a => decide (key a = k)) = [] := by
          apply List.filter_eq_nil_iff.mpr
          intro b hb
          have hyb : ltPair (key b) (key y) = false := by
            rcases List.mem_cons.mp hb with rfl | hb
            · exact ltPair_irrefl _
            · exact hs'.1 b hb
          intro hbk
          have hbk' : key b = key x := by rw [hk]; simpa using hbk
          rw [hbk'] at hyb
          rw [hyb] at hlt
          exact Bool.false_ne_true hlt
        rw [List.filter_cons, hnil]
        simp only [hk, decide_true, ↓reduceIte, List.nil_append]
      · rw [List.filter_cons]
        simp only [hk, decide_false, Bool.false_eq_true, ↓reduceIte, List.append_nil]
    · simp only [hlt, Bool.false_eq_true, ↓reduceIte]
      rw [List.filter_cons, List.filter_cons, ih hs'.2]
      by_cases hy : key y = k
      · simp only [hy, decide_true, ↓reduceIte, List.cons_append]
      · simp only [hy, decide_false, Bool.false_eq_true, ↓reduceIte]

theorem foldl_rsInsertByKeyP (xs : List α) : ∀ (acc : List α), SortedByKeyP key acc →
    SortedByKeyP key (xs.foldl (fun acc x => rsInsertByKeyP key x acc) acc) ∧
    (xs.foldl (fun acc x => rsInsertByKeyP key x acc) acc).Perm (acc ++ xs) ∧
    ∀ k, (xs.foldl (fun acc x => rsInsertByKeyP key x acc) acc).filter (fun a => decide (key a = k)) =
      acc.filter (fun a => decide (key a = k)) ++ xs.filter (fun a => decide (key a = k)) := by
  induction xs with
  | nil =>
    intro acc hs
    refine ⟨hs, ?_, ?_⟩
    · rw [List.append_nil]; exact List.Perm.refl _
    · intro k; rw [List.filter_nil, List.append_nil]; rfl
  | cons x xs ih =>
    intro acc hs
    obtain ⟨h1, h2, h3⟩ := ih (rsInsertByKeyP key x acc) (rsInsertByKeyP_sorted key x acc hs)
    refine ⟨h1, ?_, ?_⟩
    · refine h2.trans ?_
      refine ((rsInsertByKeyP_perm key x acc).append_right xs).trans ?_
      exact (List.perm_middle (l₁ := acc) (a := x) (l₂ := xs)).symm
    · intro k
      rw [List.foldl_cons, h3 k, rsInsertByKeyP_filter key x k acc hs, List.filter_cons, List.append_assoc]
      by_cases hk : key x = k
      · simp only [hk, decide_true, ↓reduceIte, List.cons_append, List.nil_append]
      · simp only [hk, decide_false, Bool.false_eq_true, ↓reduceIte, List.nil_append]

theorem rsSortByKeyP_sorted (xs : List α) : SortedByKeyP key (rsSortByKeyP key xs) :=
  (foldl_rsInsertByKeyP key xs [] List.Pairwise.nil).1

theorem rsSortByKeyP_perm (xs : List α) : (rsSortByKeyP key xs).Perm xs := by
  have := (foldl_rsInsertByKeyP key xs [] List.Pairwise.nil).2.1
  rwa [List.nil_append] at this

/-- stability: the elements of each key keep their order -/
theorem rsSortByKeyP_filter (xs : List α) (k : Nat × Nat) :
    (rsSortByKeyP key xs).filter (fun a => decide (key a = k)) = xs.filter (fun a => decide (key a = k)) := by
  have := (foldl_rsInsertByKeyP key xs [] List.Pairwise.nil).2.2 k
  rwa [List.filter_nil, List.nil_append] at this

theorem rsSortByKeyP_length (xs : List α) : (rsSortByKeyP key xs).length = xs.length :=
  (rsSortByKeyP_perm key xs).length_eq

/-- **uniqueness of the stable sort.**  Two lists sorted by `key` in which, for every key value, the elements
of that key come in the same order, are equal. -/
theorem eq_of_sorted_of_filter_eq : ∀ (r1 r2 : List α), SortedByKeyP key r1 → SortedByKeyP key r2 →
    (∀ k, r1.filter (fun a => decide (key a = k)) = r2.filter (fun a => decide (key a = k))) → r1 = r2 := by
  intro r1
  induction r1 with
  | nil =>
    intro r2 _ _ hf
    cases r2 with
    | nil => rfl
    | cons b r2 =>
      have := hf (key b)
      simp only [List.filter_nil, List.filter_cons, decide_true, ↓reduceIte, reduceCtorEq] at this
  | cons a r1 ih =>
    intro r2 hs1 hs2 hf
    cases r2 with
    | nil =>
      have := hf (key a)
      simp only [List.filter_nil, List.filter_cons, decide_true, ↓reduceIte, reduceCtorEq] at this
    | cons b r2 =>
      have hs1' := List.pairwise_cons.mp hs1
      have hs2' := List.pairwise_cons.mp hs2
      -- `a` occurs in `b :: r2`, so `key b ≤ key a`; and the other way round
      have hba : ltPair (key a) (key b) = false := by
        have hmem : a ∈ (b :: r2).filter (fun x => decide (key x = key a)) := by
          rw [← hf (key a)]
          simp only [List.filter_cons, decide_true, ↓reduceIte, List.mem_cons, true_or]
        have hmem' := (List.mem_filter.mp hmem).1
        rcases List.mem_cons.mp hmem' with h | h
        · rw [h]; exact ltPair_irrefl _
        · exact hs2'.1 a h
      have hab : ltPair (key b) (key a) = false := by
        have hmem : b ∈ (a :: r1).filter (fun x => decide (key x = key b)) := by
          rw [hf (key b)]
          simp only [List.filter_cons, decide_true, ↓reduceIte, List.mem_cons, true_or]
        have hmem' := (List.mem_filter.mp hmem).1
        rcases List.mem_cons.mp hmem' with h | h
        · rw [h]; exact ltPair_irrefl _
        · exact hs1'.1 b h
      have hk : key a = key b := eq_of_ltPair_false _ _ hba hab
      have hab' : a = b := by
        have := hf (key a)
        simp only [List.filter_cons, decide_true, ↓reduceIte, hk] at this
        exact (List.cons.inj this).1
      subst hab'
      congr 1
      apply ih r2 hs1'.2 hs2'.2
      intro k
      have := hf k
      rw [List.filter_cons, List.filter_cons] at this
      by_cases hka : key a = k
      · simp only [hka, decide_true, ↓reduceIte] at this
        exact (List.cons.inj this).2
      · simpa only [hka, decide_false, Bool.false_eq_true, ↓reduceIte] using this

/-- the order `a ≤ b` of the stable merge sort that goes with the key -/
def leByKeyP (a b : α) : Bool := !ltPair (key b) (key a)

theorem leByKeyP_trans (a b c : α) (h1 : leByKeyP key a b = true) (h2 : leByKeyP key b c = true) :
    leByKeyP key a c = true := by
  simp only [leByKeyP, Bool.not_eq_true'] at *
  exact ltPair_false_trans _ _ _ h1 h2

theorem leByKeyP_total (a b : α) : (leByKeyP key a b || leByKeyP key b a) = true := by
  simp only [leByKeyP, Bool.or_eq_true, Bool.not_eq_true']
  exact ltPair_false_total _ _

theorem mergeSort_sortedByKeyP (xs : List α) : SortedByKeyP key (xs.mergeSort (leByKeyP key)) := by
  have := List.pairwise_mergeSort (leByKeyP_trans key) (leByKeyP_total key) xs
  unfold SortedByKeyP
  refine this.imp ?_
  intro a b h
  simpa only [leByKeyP, Bool.not_eq_true'] using h

/-- stability of core's merge sort, in the form used here -/
theorem mergeSort_filter (xs : List α) (k : Nat × Nat) :
    (xs.mergeSort (leByKeyP key)).filter (fun a => decide (key a = k)) =
      xs.filter (fun a => decide (key a = k)) := by
  have hpw : (xs.filter (fun a => decide (key a = k))).Pairwise (fun a b => leByKeyP key a b = true) := by
    have : ∀ a ∈ xs.filter (fun a => decide (key a = k)), key a = k := by
      intro a ha
      simpa using (List.mem_filter.mp ha).2
    generalize xs.filter (fun a => decide (key a = k)) = l at this
    induction l with
    | nil => exact List.Pairwise.nil
    | cons a l ih =>
      refine List.pairwise_cons.mpr ⟨?_, ih (fun b hb => this b (List.mem_cons_of_mem _ hb))⟩
      intro b hb
      simp only [leByKeyP, Bool.not_eq_true']
      rw [this a List.mem_cons_self, this b (List.mem_cons_of_mem _ hb)]
      exact ltPair_irrefl _
  have hsub := List.sublist_mergeSort (leByKeyP_trans key) (leByKeyP_total key) hpw List.filter_sublist
  have hsub' := hsub.filter (fun a => decide (key a = k))
  rw [List.filter_filter] at hsub'
  simp only [Bool.and_self] at hsub'
  have hlen := ((List.mergeSort_perm xs (leByKeyP key)).filter (fun a => decide (key a = k))).length_eq
  exact (hsub'.eq_of_length hlen.symm).symm

/-- **the insertion-sort mirror is the stable merge sort** -/
theorem rsSortByKeyP_eq_mergeSort (xs : List α) : rsSortByKeyP key xs = xs.mergeSort (leByKeyP key) := by
  apply eq_of_sorted_of_filter_eq key _ _ (rsSortByKeyP_sorted key xs) (mergeSort_sortedByKeyP key xs)
  intro k
  rw [rsSortByKeyP_filter, mergeSort_filter]

end sort

end SmVerif.Rs
