import SmVerif.Tie.Vlq
import SmVerif.Tie.Lookup
import SmVerif.Tie.PreludeLemmas7
import SmVerif.Generated.RsSerialize
import SmVerif.Model.Mappings
/-
Tie unit "Serialize": `encode_rmi`, `serialize_range_mappings`, `serialize_mappings` (encoder.rs) as translated by
`tools/rs2lean` (`Generated/RsSerialize.lean`) compute what the hand-written model `Model/Mappings.lean` says.

A. `serialize_mappings`
* `tie_serialize_mappings_any`  : for `u32` tokens, fuel `≥ 14` and `>` every line number, in ANY order of the tokens:
                                  generated = model, except that where the model says `diverge` (a token on an earlier
                                  line than its predecessor: `while token.get_dst_line() != prev_dst_line` counts up
                                  for ever) the generated loop reports the overflow panic of `prev_dst_line += 1`
                                  when the fuel lets it count up to `u32::MAX` (then `2^32 ≤ fuel + line` for some line);
* `tie_serialize_mappings`      : lines non-decreasing → generated = model (and `serialize_mappings_ok`: it succeeds);
                                  `tie_serialize_mappings_sortedByPos` the same under `Lookup.SortedByPos`;
* `tie_serialize_mappings_unsorted` : otherwise the model is `.error .diverge` and the generated result is
                                  `.error .diverge` or `.error .panic`;
* `tie_serialize_mappings_diverge`  : with `fuel + line < 2^32` for every line the equation holds in every order;
* `sm_loop2_le`, `sm_loop2_gt`  : the `while` loop alone (exactly when it diverges / panics).
B. `encode_rmi`
* `tie_encode_rmi`              : on a non-empty byte vector (of at most `usize::MAX / 8` bytes) = `out ++ encodeRmi (bits)`;
* `encode_rmi_nil`              : on the empty vector the generated code panics (`bits[..1]`), the model says `"A"`.
C. `serialize_range_mappings`
* `tie_serialize_range_mappings_any`, `tie_serialize_range_mappings`, `serialize_range_mappings_ok`,
  `tie_serialize_range_mappings_unsorted`, `tie_serialize_range_mappings_diverge` : as for A; the loop invariant
  (`rm_loop1`) is `PadOf (rsViewBits rmi_data) bits` (the bytes viewed as bits = the model's bit list padded with
  `false`), `idx - idx_of_first_in_line - skipped_in_line = seg`, `had_rmi = false → rmi_data = []`.

The proofs follow the structure of the generated code (induction on the token list, one `simp only` per branch with
the getters rewritten to `tokAt`), not the generated temp names.
-/
set_option linter.unusedSimpArgs false
set_option linter.unusedVariables false
namespace SmVerif.Tie
open SmVerif SmVerif.Rs

/-! ### vocabulary -/

/-- the `Token` that `SourceMap::tokens()` yields at index `k` -/
def tokAt (sm : Gen.RsTypes.SourceMap) (k : Nat) (r : Gen.RsTypes.RawToken) : Gen.RsTypes.Token :=
  { raw := r, sm := sm, idx := k, offset := 0 }

/-- every `u32` field of a `RawToken` is a `u32` -/
def RawU32 (r : Gen.RsTypes.RawToken) : Prop :=
  r.dst_line < 4294967296 ∧ r.dst_col < 4294967296 ∧ r.src_line < 4294967296 ∧
  r.src_col < 4294967296 ∧ r.src_id < 4294967296 ∧ r.name_id < 4294967296

instance (r : Gen.RsTypes.RawToken) : Decidable (RawU32 r) := by unfold RawU32; infer_instance

/-- `sm.tokens().enumerate()` from index `k` on -/
def tokEnum (sm : Gen.RsTypes.SourceMap) (k : Nat) (rest : List Gen.RsTypes.RawToken) :
    List (Nat × Gen.RsTypes.Token) :=
  enumFrom k ((enumFrom k rest).map fun p =>
    ({ raw := p.2, sm := sm, idx := p.1, offset := 0 } : Gen.RsTypes.Token))

theorem tokEnum_nil (sm : Gen.RsTypes.SourceMap) (k : Nat) : tokEnum sm k [] = [] := rfl

theorem tokEnum_cons (sm : Gen.RsTypes.SourceMap) (k : Nat) (r : Gen.RsTypes.RawToken)
    (rest : List Gen.RsTypes.RawToken) :
    tokEnum sm k (r :: rest) = (k, tokAt sm k r) :: tokEnum sm (k + 1) rest := rfl

/-- the iteration `sm.tokens().enumerate()` enumerates `sm.tokens` -/
theorem rsEnumerate_rsTokens (sm : Gen.RsTypes.SourceMap) :
    rsEnumerate (Gen.RsTypes.rsTokens sm) = tokEnum sm 0 sm.tokens := rfl

theorem toTok_inj (a b : Gen.RsTypes.RawToken) : toTok a = toTok b ↔ a = b := by
  constructor
  · intro h
    cases a; cases b
    simp only [toTok, Tok.mk.injEq] at h
    simp only [Gen.RsTypes.RawToken.mk.injEq]
    exact ⟨h.1, h.2.1, h.2.2.1, h.2.2.2.1, h.2.2.2.2.1, h.2.2.2.2.2.1, h.2.2.2.2.2.2⟩
  · intro h; rw [h]

/-! ### getters on `tokAt` -/
section getters
variable (sm : Gen.RsTypes.SourceMap) (k : Nat) (r : Gen.RsTypes.RawToken)

theorem get_dst_line_tokAt : Gen.RsTypes.Token.get_dst_line (tokAt sm k r) = .ok (toTok r).dl := rfl
theorem get_dst_col_tokAt : Gen.RsTypes.Token.get_dst_col (tokAt sm k r) = .ok (toTok r).dc := rfl
theorem get_src_line_tokAt : Gen.RsTypes.Token.get_src_line (tokAt sm k r) = .ok (toTok r).sl := rfl
theorem get_src_id_tokAt : Gen.RsTypes.Token.get_src_id (tokAt sm k r) = .ok (toTok r).src := rfl
theorem get_name_id_tokAt : Gen.RsTypes.Token.get_name_id (tokAt sm k r) = .ok (toTok r).name := rfl
theorem is_range_tokAt : Gen.RsTypes.Token.is_range (tokAt sm k r) = .ok (toTok r).rng := rfl
theorem has_source_tokAt :
    Gen.RsTypes.Token.has_source (tokAt sm k r) = .ok (Mappings.hasSource (toTok r)) := rfl

theorem get_src_col_tokAt (h : r.src_col < 4294967296) :
    Gen.RsTypes.Token.get_src_col (tokAt sm k r) = .ok (toTok r).sc := by
  simp only [Gen.RsTypes.Token.get_src_col, tokAt, toTok, Nat.add_zero]
  congr 1
  omega

/-- `Token::has_name` (`get_name().is_some()`: the id is not the sentinel and resolves) -/
theorem has_name_tokAt :
    Gen.RsTypes.Token.has_name (tokAt sm k r) = .ok (Mappings.hasName sm.names.length (toTok r)) := by
  have hN : NONE = 4294967295 := rfl
  simp only [Gen.RsTypes.Token.has_name, Gen.RsTypes.Token.get_name, Gen.RsTypes.SourceMap.get_name,
    tokAt, Mappings.hasName, toTok, hN]
  by_cases h : r.name_id = 4294967295
  · simp [h]
  · by_cases hlt : r.name_id < sm.names.length
    · simp [h, hlt]
    · simp [h, hlt]

theorem get_token_eq (i : Nat) (p : Gen.RsTypes.RawToken) (h : sm.tokens[i]? = some p) :
    Gen.RsTypes.SourceMap.get_token sm i = .ok (some (tokAt sm i p)) := by
  simp only [Gen.RsTypes.SourceMap.get_token, h, Option.map_some, tokAt]

theorem token_eq_tokAt (i j : Nat) (a b : Gen.RsTypes.RawToken) :
    Gen.RsTypes.Token.eq (tokAt sm i a) (tokAt sm j b) = .ok (decide (a = b)) := rfl

end getters

/-! ### `encode_vlq_diff` in the model's words -/

theorem encode_vlq_diff_eq (fuel : Nat) (hf : 14 ≤ fuel) (out : List Nat) (a b : Nat)
    (ha : a < 4294967296) (hb : b < 4294967296) :
    Gen.RsEncoder.encode_vlq_diff fuel out a b = .ok (out ++ Mappings.vlqDiff a b) := by
  rw [Vlq.tie_encode_vlq_diff out a b ha hb fuel hf]
  unfold Mappings.vlqDiff
  rw [Vlq.encodeVlq_of_zig _ (by omega) (by omega)]
  rfl

/-! ### the `while token.get_dst_line() != prev_dst_line` loop -/

/-- going forward: one `;` per line, for fuel larger than the distance -/
theorem sm_loop2_le (tok : Gen.RsTypes.Token) :
    ∀ (fuel : Nat) (rv : List Nat) (p : Nat), p ≤ tok.raw.dst_line → tok.raw.dst_line < 4294967296 →
      tok.raw.dst_line - p < fuel →
      Gen.RsSerialize.serialize_mappings.loop2 tok fuel rv p =
        .ok (rv ++ List.replicate (tok.raw.dst_line - p) Mappings.SEMI, tok.raw.dst_line) := by
  intro fuel
  induction fuel with
  | zero => intro rv p _ _ h; omega
  | succ fuel ih =>
    intro rv p hp hd hf
    simp only [Gen.RsSerialize.serialize_mappings.loop2, Gen.RsTypes.Token.get_dst_line]
    by_cases he : tok.raw.dst_line = p
    · subst he
      simp only [ne_eq, not_true_eq_false, ↓reduceIte, Nat.sub_self, List.replicate_zero, List.append_nil]
    · have h1 : p + 1 ≤ 4294967295 := by omega
      have h2 : tok.raw.dst_line - p = (tok.raw.dst_line - (p + 1)) + 1 := by omega
      simp only [ne_eq, he, not_false_eq_true, ↓reduceIte, h1, Nat.reduceLT]
      rw [ih _ _ (by omega) hd (by omega), h2, List.replicate_succ]
      simp only [Mappings.SEMI, List.append_assoc, List.singleton_append]

/-- going backward: the loop counts `prev_dst_line` up until the fuel runs out or the `u32` addition overflows -/
theorem sm_loop2_gt (tok : Gen.RsTypes.Token) :
    ∀ (fuel : Nat) (rv : List Nat) (p : Nat), tok.raw.dst_line < p → p < 4294967296 →
      Gen.RsSerialize.serialize_mappings.loop2 tok fuel rv p =
        if fuel + p < 4294967296 then .error .diverge else .error .panic := by
  intro fuel
  induction fuel with
  | zero =>
    intro rv p _ hp
    have : 0 + p < 4294967296 := by omega
    simp only [Gen.RsSerialize.serialize_mappings.loop2, this, ↓reduceIte]
  | succ fuel ih =>
    intro rv p hd hp
    have he : ¬ tok.raw.dst_line = p := by omega
    simp only [Gen.RsSerialize.serialize_mappings.loop2, Gen.RsTypes.Token.get_dst_line, ne_eq, he,
      not_false_eq_true, ↓reduceIte, Nat.reduceLT]
    by_cases h1 : p + 1 ≤ 4294967295
    · simp only [h1, ↓reduceIte]
      rw [ih _ _ (by omega) (by omega)]
      have : (fuel + (p + 1) < 4294967296) = (fuel + 1 + p < 4294967296) := by
        apply propext; omega
      simp only [this]
    · have : ¬ (fuel + 1 + p < 4294967296) := by omega
      simp only [h1, this, ↓reduceIte]


/-! ### the token loop of `serialize_mappings` -/

/-- How the generated loop and the model's loop relate: the same bytes, or the model says `diverge` (a token on an
earlier line than its predecessor) and the generated `while` loop runs out of fuel - or, with enough fuel to count
up to `u32::MAX` (`P`), hits the overflow check of `prev_dst_line += 1`. -/
def Agree (P : Prop) (g : Res (Nat × List Nat × Nat × Nat × Nat × Nat × Nat)) (m : Res (List Nat)) : Prop :=
  (∃ a r b c d e f, g = .ok (a, r, b, c, d, e, f) ∧ m = .ok r) ∨
  (m = .error .diverge ∧ (g = .error .diverge ∨ (g = .error .panic ∧ P)))

theorem sm_loop1 (sm : Gen.RsTypes.SourceMap) (fuel : Nat) (hf : 14 ≤ fuel)
    (hu : ∀ r ∈ sm.tokens, RawU32 r) (hl : ∀ r ∈ sm.tokens, r.dst_line < fuel)
    (P : Prop) (hP : ∀ r ∈ sm.tokens, 4294967296 ≤ fuel + r.dst_line → P) :
    ∀ (rest : List Gen.RsTypes.RawToken) (k : Nat) (prev : Option Gen.RsTypes.RawToken),
      sm.tokens.drop k = rest →
      ((k = 0 ∧ prev = none) ∨ (∃ p, 0 < k ∧ prev = some p ∧ sm.tokens[k - 1]? = some p)) →
      ∀ (line col sl sc name src : Nat) (out : List Nat),
        line < 4294967296 → col < 4294967296 → sl < 4294967296 → sc < 4294967296 →
        name < 4294967296 → src < 4294967296 →
        (4294967296 ≤ fuel + line → sm.tokens ≠ [] → P) →
        Agree P
          (Gen.RsSerialize.serialize_mappings.loop1 fuel sm (tokEnum sm k rest) col out line src sl sc name)
          (Mappings.serializeLoop sm.names.length (rest.map toTok) (prev.map toTok)
            { line := line, col := col, sl := sl, sc := sc, name := name, src := src } out) := by
  intro rest
  induction rest with
  | nil =>
    intro k prev _ _ line col sl sc name src out _ _ _ _ _ _ _
    exact Or.inl ⟨_, _, _, _, _, _, _, rfl, rfl⟩
  | cons r rest ih =>
    intro k prev hdrop hprev line col sl sc name src out hline hcol hsl hsc hname hsrc hPl
    have hk : sm.tokens[k]? = some r := by
      have := List.getElem?_drop (xs := sm.tokens) (i := k) (j := 0)
      rw [hdrop] at this
      simpa using this.symm
    have hmem : r ∈ sm.tokens := List.mem_of_getElem? hk
    obtain ⟨h1, h2, h3, h4, h5, h6⟩ := hu r hmem
    have hfl := hl r hmem
    have hdrop' : sm.tokens.drop (k + 1) = rest := by
      have := congrArg (List.drop 1) hdrop
      simpa [List.drop_drop] using this
    have IH := ih (k + 1) (some r) hdrop' (Or.inr ⟨r, by omega, rfl, hk⟩)
    have e1 : (toTok r).dl < 4294967296 := h1
    have e2 : (toTok r).dc < 4294967296 := h2
    have e3 : (toTok r).sl < 4294967296 := h3
    have e4 : (toTok r).sc < 4294967296 := h4
    have e5 : (toTok r).src < 4294967296 := h5
    have e6 : (toTok r).name < 4294967296 := h6
    rw [tokEnum_cons]
    simp only [List.map_cons]
    have hP' : 4294967296 ≤ fuel + (toTok r).dl → sm.tokens ≠ [] → P := fun h _ => hP r hmem h
    by_cases hne : (toTok r).dl = line
    · -- same line
      subst hne
      rcases hprev with ⟨hk0, hp0⟩ | ⟨p, hkpos, hp, hpk⟩
      · -- first token of the map
        subst hk0 hp0
        cases hs : Mappings.hasSource (toTok r) <;> cases hn : Mappings.hasName sm.names.length (toTok r) <;>
        · simp only [Gen.RsSerialize.serialize_mappings.loop1, get_dst_line_tokAt, get_dst_col_tokAt,
            get_src_line_tokAt, get_src_id_tokAt, get_name_id_tokAt, has_source_tokAt, has_name_tokAt,
            get_src_col_tokAt sm 0 r h4, ne_eq, not_true_eq_false, not_false_eq_true, ↓reduceIte,
            gt_iff_lt, Nat.lt_irrefl,
            encode_vlq_diff_eq fuel hf, e1, e2, e3, e4, e5, e6, hcol, hsl, hsc, hname, hsrc, Nat.reduceLT,
            Mappings.serializeLoop, Mappings.encodeTok, hs, hn, Bool.false_eq_true, Option.map_none,
            List.append_assoc]
          exact IH _ _ _ _ _ _ _ (by assumption) (by assumption) (by assumption) (by assumption)
            (by assumption) (by assumption) hPl
      · subst hp
        have hk1 : 1 ≤ k := hkpos
        by_cases hrp : p = r
        · -- exact duplicate of the previous token: skipped
          subst hrp
          simp only [Gen.RsSerialize.serialize_mappings.loop1, get_dst_line_tokAt, ne_eq,
            not_true_eq_false, ↓reduceIte, gt_iff_lt, hkpos, hk1, get_token_eq sm (k - 1) p hpk,
            token_eq_tokAt, decide_true, Mappings.serializeLoop, Option.map_some]
          exact IH _ _ _ _ _ _ _ hline hcol hsl hsc hname hsrc hPl
        · have hrp' : ¬ r = p := fun h => hrp h.symm
          have hrp'' : ¬ toTok p = toTok r := fun h => hrp ((toTok_inj p r).mp h)
          cases hs : Mappings.hasSource (toTok r) <;> cases hn : Mappings.hasName sm.names.length (toTok r) <;>
          · simp only [Gen.RsSerialize.serialize_mappings.loop1, get_dst_line_tokAt, get_dst_col_tokAt,
              get_src_line_tokAt, get_src_id_tokAt, get_name_id_tokAt, has_source_tokAt, has_name_tokAt,
              get_src_col_tokAt sm k r h4, ne_eq, not_true_eq_false, not_false_eq_true, ↓reduceIte,
              gt_iff_lt, hkpos, hk1, get_token_eq sm (k - 1) p hpk, token_eq_tokAt, hrp', hrp'', decide_false,
              encode_vlq_diff_eq fuel hf, e1, e2, e3, e4, e5, e6, hcol, hsl, hsc, hname, hsrc, Nat.reduceLT,
              Mappings.serializeLoop, Mappings.encodeTok, hs, hn, Bool.false_eq_true, Option.map_some,
              Mappings.COMMA, List.append_assoc]
            exact IH _ _ _ _ _ _ _ (by assumption) (by assumption) (by assumption) (by assumption)
              (by assumption) (by assumption) hPl
    · by_cases hlt : (toTok r).dl < line
      · -- an earlier line: the model says `diverge`; the generated loop counts up
        have hG := sm_loop2_gt (tokAt sm k r) fuel out line hlt hline
        by_cases hfl2 : fuel + line < 4294967296
        · simp only [hfl2, ↓reduceIte] at hG
          simp only [Gen.RsSerialize.serialize_mappings.loop1, get_dst_line_tokAt, hne, ne_eq,
            not_false_eq_true, ↓reduceIte, hG, Mappings.serializeLoop, hlt]
          exact Or.inr ⟨rfl, Or.inl rfl⟩
        · simp only [hfl2, ↓reduceIte] at hG
          simp only [Gen.RsSerialize.serialize_mappings.loop1, get_dst_line_tokAt, hne, ne_eq,
            not_false_eq_true, ↓reduceIte, hG, Mappings.serializeLoop, hlt]
          exact Or.inr ⟨rfl, Or.inr ⟨rfl, hPl (by omega) (List.ne_nil_of_mem hmem)⟩⟩
      · have hL : Gen.RsSerialize.serialize_mappings.loop2 (tokAt sm k r) fuel out line =
            .ok (out ++ List.replicate ((toTok r).dl - line) Mappings.SEMI, (toTok r).dl) :=
          sm_loop2_le (tokAt sm k r) fuel out line (Nat.le_of_not_lt hlt) h1
            (Nat.lt_of_le_of_lt (Nat.sub_le _ _) hfl)
        cases hs : Mappings.hasSource (toTok r) <;> cases hn : Mappings.hasName sm.names.length (toTok r) <;>
        · simp only [Gen.RsSerialize.serialize_mappings.loop1, get_dst_line_tokAt, get_dst_col_tokAt,
            get_src_line_tokAt, get_src_id_tokAt, get_name_id_tokAt, has_source_tokAt, has_name_tokAt,
            get_src_col_tokAt sm k r h4, hne, hlt, hL, ne_eq, not_false_eq_true, ↓reduceIte,
            encode_vlq_diff_eq fuel hf, e1, e2, e3, e4, e5, e6, hcol, hsl, hsc, hname, hsrc, Nat.reduceLT,
            Mappings.serializeLoop, Mappings.encodeTok, hs, hn, Bool.false_eq_true, List.append_assoc]
          exact IH _ _ _ _ _ _ _ (by assumption) (by assumption) (by assumption) (by assumption)
            (by assumption) (by assumption) hP'

/-! ### when the model says `diverge` (a fact about the model alone) -/

/-- lines never go back, starting from line `l` -/
def LinesFrom : Nat → List Tok → Prop
  | _, [] => True
  | l, t :: ts => l ≤ t.dl ∧ LinesFrom t.dl ts

theorem linesFrom_iff : ∀ (ts : List Tok) (l : Nat),
    LinesFrom l ts ↔ (∀ t ∈ ts, l ≤ t.dl) ∧ ts.Pairwise (fun a b => a.dl ≤ b.dl) := by
  intro ts
  induction ts with
  | nil => intro l; simp [LinesFrom]
  | cons t ts ih =>
    intro l
    simp only [LinesFrom, ih, List.mem_cons, forall_eq_or_imp, List.pairwise_cons]
    constructor
    · rintro ⟨h1, h2, h3⟩
      exact ⟨⟨h1, fun a ha => Nat.le_trans h1 (h2 a ha)⟩, h2, h3⟩
    · rintro ⟨⟨h1, _⟩, h3, h4⟩
      exact ⟨h1, h3, h4⟩

theorem linesFrom_zero (ts : List Tok) :
    LinesFrom 0 ts ↔ (ts.map (·.dl)).Pairwise (· ≤ ·) := by
  rw [linesFrom_iff, List.pairwise_map]
  simp only [Nat.zero_le, implies_true, true_and]

theorem encodeTok_line (n : Nat) (t : Tok) (st : Mappings.EState) :
    (Mappings.encodeTok n t st).2.line = st.line := by
  unfold Mappings.encodeTok
  simp only []
  split
  · split <;> rfl
  · rfl

/-- one step of the model's loop on a token that is not on an earlier line -/
theorem serializeLoop_step (n : Nat) (t : Tok) (ts : List Tok) (prev : Option Tok) (st : Mappings.EState)
    (out : List Nat) (h : st.line ≤ t.dl) :
    ∃ st' out', st'.line = t.dl ∧
      Mappings.serializeLoop n (t :: ts) prev st out = Mappings.serializeLoop n ts (some t) st' out' := by
  by_cases he : t.dl = st.line
  · have hline : (Mappings.encodeTok n t st).2.line = t.dl := by rw [encodeTok_line, he]
    cases prev with
    | none =>
      rcases hx : Mappings.encodeTok n t st with ⟨bytes, st'⟩
      rw [hx] at hline
      exact ⟨st', out ++ bytes, hline, by
        simp only [Mappings.serializeLoop, he, ne_eq, not_true_eq_false, ↓reduceIte, hx]⟩
    | some p =>
      by_cases hp : p = t
      · exact ⟨st, out, he.symm, by
          simp only [Mappings.serializeLoop, he, ne_eq, not_true_eq_false, ↓reduceIte, hp]⟩
      · rcases hx : Mappings.encodeTok n t st with ⟨bytes, st'⟩
        rw [hx] at hline
        exact ⟨st', out ++ [Mappings.COMMA] ++ bytes, hline, by
          simp only [Mappings.serializeLoop, he, ne_eq, not_true_eq_false, ↓reduceIte, hx, hp]⟩
  · have hlt : ¬ t.dl < st.line := by omega
    have hline := encodeTok_line n t { st with line := t.dl, col := 0 }
    rcases hx : Mappings.encodeTok n t { st with line := t.dl, col := 0 } with ⟨bytes, st'⟩
    rw [hx] at hline
    exact ⟨st', out ++ List.replicate (t.dl - st.line) Mappings.SEMI ++ bytes, hline, by
      simp only [Mappings.serializeLoop, he, ne_eq, not_false_eq_true, ↓reduceIte, hx, hlt]⟩

/-- the model's `serialize_mappings` loop fails only with `diverge`, and exactly when a token is on an earlier
line than the running line -/
theorem serializeLoop_cases (n : Nat) : ∀ (ts : List Tok) (prev : Option Tok) (st : Mappings.EState)
    (out : List Nat),
    (LinesFrom st.line ts → ∃ r, Mappings.serializeLoop n ts prev st out = .ok r) ∧
    (¬ LinesFrom st.line ts → Mappings.serializeLoop n ts prev st out = .error .diverge) := by
  intro ts
  induction ts with
  | nil =>
    intro prev st out
    exact ⟨fun _ => ⟨out, rfl⟩, fun h => absurd trivial h⟩
  | cons t ts ih =>
    intro prev st out
    by_cases h : st.line ≤ t.dl
    · obtain ⟨st', out', hl, heq⟩ := serializeLoop_step n t ts prev st out h
      rw [heq]
      have := ih (some t) st' out'
      rw [hl] at this
      simp only [LinesFrom, h, true_and]
      exact this
    · have hlt : t.dl < st.line := by omega
      have hne : t.dl ≠ st.line := by omega
      simp only [LinesFrom, h, false_and, false_implies, not_false_eq_true, true_implies, true_and,
        Mappings.serializeLoop, hne, ne_eq, ↓reduceIte, hlt]

/-- `serializeMappings` succeeds when the lines never decrease, and says `diverge` otherwise -/
theorem serializeMappings_sorted (ts : List Tok) (n : Nat) (h : (ts.map (·.dl)).Pairwise (· ≤ ·)) :
    ∃ r, Mappings.serializeMappings ts n = .ok r :=
  (serializeLoop_cases n ts none {} []).1 ((linesFrom_zero ts).mpr h)

theorem serializeMappings_unsorted (ts : List Tok) (n : Nat) (h : ¬ (ts.map (·.dl)).Pairwise (· ≤ ·)) :
    Mappings.serializeMappings ts n = .error .diverge :=
  (serializeLoop_cases n ts none {} []).2 (fun hl => h ((linesFrom_zero ts).mp hl))

/-! ### `serialize_mappings` -/

/-- **serialize_mappings**, without any assumption on the order of the tokens: the generated function returns
what the model returns - except that where the model says `diverge` (a token on an earlier line than its
predecessor) and the fuel suffices to count `prev_dst_line` up to `u32::MAX`, the generated code reports the
overflow panic of `prev_dst_line += 1` instead. -/
theorem tie_serialize_mappings_any (sm : Gen.RsTypes.SourceMap) (hu32 : ∀ r ∈ sm.tokens, RawU32 r)
    (fuel : Nat) (hf : 14 ≤ fuel) (hfl : ∀ r ∈ sm.tokens, r.dst_line < fuel) :
    Gen.RsSerialize.serialize_mappings fuel sm =
        Mappings.serializeMappings (sm.tokens.map toTok) sm.names.length ∨
    (Mappings.serializeMappings (sm.tokens.map toTok) sm.names.length = .error .diverge ∧
      Gen.RsSerialize.serialize_mappings fuel sm = .error .panic ∧
      ∃ r ∈ sm.tokens, 4294967296 ≤ fuel + r.dst_line) := by
  have hA := sm_loop1 sm fuel hf hu32 hfl (∃ r ∈ sm.tokens, 4294967296 ≤ fuel + r.dst_line)
    (fun r hr h => ⟨r, hr, h⟩) sm.tokens 0 none rfl (Or.inl ⟨rfl, rfl⟩) 0 0 0 0 0 0 []
    (by omega) (by omega) (by omega) (by omega) (by omega) (by omega)
    (fun h hne => by
      obtain ⟨r, hr⟩ := List.exists_mem_of_ne_nil _ hne
      exact ⟨r, hr, by omega⟩)
  unfold Gen.RsSerialize.serialize_mappings Mappings.serializeMappings
  rw [rsEnumerate_rsTokens]
  rcases hA with ⟨a, r, b, c, d, e, f, hg, hm⟩ | ⟨hm, hg | ⟨hg, hP⟩⟩
  · left
    simp only [hg]
    exact hm.symm
  · left
    simp only [hg]
    exact hm.symm
  · right
    simp only [hg]
    exact ⟨hm, trivial, hP⟩

theorem lines_toTok (sm : Gen.RsTypes.SourceMap) :
    ((sm.tokens.map toTok).map (·.dl)).Pairwise (· ≤ ·) ↔ (sm.tokens.map (·.dst_line)).Pairwise (· ≤ ·) := by
  rw [List.pairwise_map, List.pairwise_map, List.pairwise_map]
  exact Iff.rfl

/-- **serialize_mappings = the model**, for every source map whose tokens are `u32`s and whose lines never
decrease (what `SourceMap::new`'s sort guarantees), with fuel `≥ 14` (a VLQ value) and `>` the largest line
number (the `;` loop). -/
theorem tie_serialize_mappings (sm : Gen.RsTypes.SourceMap) (hu32 : ∀ r ∈ sm.tokens, RawU32 r)
    (hsorted : (sm.tokens.map (·.dst_line)).Pairwise (· ≤ ·))
    (fuel : Nat) (hf : 14 ≤ fuel) (hfl : ∀ r ∈ sm.tokens, r.dst_line < fuel) :
    Gen.RsSerialize.serialize_mappings fuel sm =
      Mappings.serializeMappings (sm.tokens.map toTok) sm.names.length := by
  rcases tie_serialize_mappings_any sm hu32 fuel hf hfl with h | ⟨hm, _⟩
  · exact h
  · obtain ⟨r, hr⟩ := serializeMappings_sorted (sm.tokens.map toTok) sm.names.length
      ((lines_toTok sm).mpr hsorted)
    rw [hr] at hm
    cases hm

/-- the same for tokens sorted by position, the invariant of `SourceMap` -/
theorem tie_serialize_mappings_sortedByPos (sm : Gen.RsTypes.SourceMap) (hu32 : ∀ r ∈ sm.tokens, RawU32 r)
    (hsorted : Lookup.SortedByPos (sm.tokens.map toTok))
    (fuel : Nat) (hf : 14 ≤ fuel) (hfl : ∀ r ∈ sm.tokens, r.dst_line < fuel) :
    Gen.RsSerialize.serialize_mappings fuel sm =
      Mappings.serializeMappings (sm.tokens.map toTok) sm.names.length := by
  apply tie_serialize_mappings sm hu32 _ fuel hf hfl
  rw [← lines_toTok, List.pairwise_map]
  refine List.Pairwise.imp ?_ hsorted
  intro a b h
  simp only [Lookup.posLe, Lookup.Tok.pos, Bool.or_eq_true, Bool.and_eq_true, decide_eq_true_eq] at h
  rcases h with h | ⟨h, _⟩
  · exact Nat.le_of_lt (of_decide_eq_true h)
  · exact Nat.le_of_eq (of_decide_eq_true h)

/-- … and it succeeds -/
theorem serialize_mappings_ok (sm : Gen.RsTypes.SourceMap) (hu32 : ∀ r ∈ sm.tokens, RawU32 r)
    (hsorted : (sm.tokens.map (·.dst_line)).Pairwise (· ≤ ·))
    (fuel : Nat) (hf : 14 ≤ fuel) (hfl : ∀ r ∈ sm.tokens, r.dst_line < fuel) :
    ∃ bytes, Gen.RsSerialize.serialize_mappings fuel sm = .ok bytes := by
  rw [tie_serialize_mappings sm hu32 hsorted fuel hf hfl]
  exact serializeMappings_sorted _ _ ((lines_toTok sm).mpr hsorted)

/-- **otherwise** (some token is on an earlier line than its predecessor; the model says `diverge`) the generated
function fails too: it runs out of fuel, or - with fuel enough to count up to `u32::MAX` - panics on the overflow
check of `prev_dst_line += 1`. -/
theorem tie_serialize_mappings_unsorted (sm : Gen.RsTypes.SourceMap) (hu32 : ∀ r ∈ sm.tokens, RawU32 r)
    (hunsorted : ¬ (sm.tokens.map (·.dst_line)).Pairwise (· ≤ ·))
    (fuel : Nat) (hf : 14 ≤ fuel) (hfl : ∀ r ∈ sm.tokens, r.dst_line < fuel) :
    Mappings.serializeMappings (sm.tokens.map toTok) sm.names.length = .error .diverge ∧
    (Gen.RsSerialize.serialize_mappings fuel sm = .error .diverge ∨
      (Gen.RsSerialize.serialize_mappings fuel sm = .error .panic ∧
        ∃ r ∈ sm.tokens, 4294967296 ≤ fuel + r.dst_line)) := by
  have hm := serializeMappings_unsorted (sm.tokens.map toTok) sm.names.length
    (fun h => hunsorted ((lines_toTok sm).mp h))
  refine ⟨hm, ?_⟩
  rcases tie_serialize_mappings_any sm hu32 fuel hf hfl with h | ⟨_, hg, hP⟩
  · left; rw [h, hm]
  · right; exact ⟨hg, hP⟩

/-- with fuel below `2^32 - (largest line)` the equation holds for every order of the tokens, `diverge` included -/
theorem tie_serialize_mappings_diverge (sm : Gen.RsTypes.SourceMap) (hu32 : ∀ r ∈ sm.tokens, RawU32 r)
    (fuel : Nat) (hf : 14 ≤ fuel) (hfl : ∀ r ∈ sm.tokens, r.dst_line < fuel)
    (hsmall : ∀ r ∈ sm.tokens, fuel + r.dst_line < 4294967296) :
    Gen.RsSerialize.serialize_mappings fuel sm =
      Mappings.serializeMappings (sm.tokens.map toTok) sm.names.length := by
  rcases tie_serialize_mappings_any sm hu32 fuel hf hfl with h | ⟨_, _, r, hr, h⟩
  · exact h
  · have := hsmall r hr
    omega

/-! examples: `exampleMap` (Tie/Lookup.lean) has tokens on lines 0, 0, 2 -/
example : ∀ r ∈ exampleMap.tokens, RawU32 r := by decide
example : (exampleMap.tokens.map (·.dst_line)).Pairwise (· ≤ ·) := by decide
example : ∀ r ∈ exampleMap.tokens, r.dst_line < 14 := by decide
example : Gen.RsSerialize.serialize_mappings 14 exampleMap =
    Mappings.serializeMappings (exampleMap.tokens.map toTok) exampleMap.names.length :=
  tie_serialize_mappings exampleMap (by decide) (by decide) 14 (by omega) (by decide)
/-- lines going back: 2, 0 -/
def unsortedMap : Gen.RsTypes.SourceMap := { (default : SmVerif.Gen.RsTypes.SourceMap) with tokens := [exTokC, exTokA], names := [] }
example : ¬ (unsortedMap.tokens.map (·.dst_line)).Pairwise (· ≤ ·) := by decide
example : Gen.RsSerialize.serialize_mappings 20 unsortedMap = .error .diverge := by
  rw [tie_serialize_mappings_diverge unsortedMap (by decide) 20 (by omega) (by decide) (by decide)]
  exact serializeMappings_unsorted _ _ (by decide)
/-- the fuel bound is sharp: a token on line 14 needs 15 iterations of the `while` loop (14 `;` and the exit test) -/
example : Gen.RsSerialize.serialize_mappings 14
    { (default : SmVerif.Gen.RsTypes.SourceMap) with tokens := [{ exTokA with dst_line := 14 }], names := [] } = .error .diverge := by rfl

/-- the overflow panic of `prev_dst_line += 1`, on the loop alone (a whole map reaching it needs 2^32 iterations) -/
example : Gen.RsSerialize.serialize_mappings.loop2 (tokAt exampleMap 0 exTokA) 10 [] 4294967290 =
    .error .panic := by
  rw [sm_loop2_gt _ _ _ _ (by decide) (by decide)]
  simp only [Nat.reduceAdd, Nat.reduceLT, ↓reduceIte]

/-! ## `encode_rmi` -/

/-- `encode_byte` on sextets (as in Tie/Small.lean, which cannot be imported next to Tie/Vlq.lean) -/
theorem rmi_encode_byte (b : Nat) (hb : b < 64) :
    Gen.RsEncoder.encode_byte b = .ok (Mappings.rmiChar b) := by
  unfold Gen.RsEncoder.encode_byte Mappings.rmiChar
  simp only []
  repeat' split
  all_goals first
    | rfl
    | (exfalso; omega)
    | (simp only [Except.ok.injEq]; omega)

/-- the prelude's `load_le` is the model's `bitsVal` -/
theorem rsLoadLe_eq_bitsVal : ∀ (bs : List Bool), rsLoadLe bs = Mappings.bitsVal bs := by
  intro bs
  induction bs with
  | nil => rfl
  | cons b bs ih => simp only [rsLoadLe, Mappings.bitsVal, ih]

/-- the prelude's `chunks(6)` is the model's `chunks6` -/
theorem rsChunks6_eq : ∀ (k : Nat) (bs : List Bool), bs.length ≤ k → rsChunks 6 bs = Mappings.chunks6 bs := by
  intro k
  induction k with
  | zero =>
    intro bs hk
    have : bs = [] := List.eq_nil_of_length_eq_zero (by omega)
    subst this
    rw [rsChunks_nil, Mappings.chunks6]
  | succ k ih =>
    intro bs hk
    cases bs with
    | nil => rw [rsChunks_nil, Mappings.chunks6]
    | cons b bs =>
      rw [rsChunks_cons 6 (by omega), Mappings.chunks6]
      rw [ih]
      simp only [List.length_drop, List.length_cons] at hk ⊢
      omega

/-- the second loop: one base64 character per chunk -/
theorem rmi_loop2 : ∀ (cs : List (List Bool)) (out : List Nat),
    (∀ c ∈ cs, 0 < c.length ∧ c.length ≤ 6) →
    Gen.RsSerialize.encode_rmi.loop2 cs out =
      .ok (out ++ cs.map (fun c => Mappings.rmiChar (Mappings.bitsVal c))) := by
  intro cs
  induction cs with
  | nil => intro out _; simp only [Gen.RsSerialize.encode_rmi.loop2, List.map_nil, List.append_nil]
  | cons c cs ih =>
    intro out h
    obtain ⟨h0, h6⟩ := h c (List.mem_cons_self ..)
    have hg : 0 < c.length ∧ c.length ≤ 8 := ⟨h0, by omega⟩
    have hlt : rsLoadLe c < 64 := by
      have h1 := rsLoadLe_lt c
      have h2 : 2 ^ c.length ≤ 2 ^ 6 := Nat.pow_le_pow_right (by omega) h6
      omega
    simp only [Gen.RsSerialize.encode_rmi.loop2, hg, and_self, ↓reduceIte, rmi_encode_byte _ hlt]
    rw [ih _ (fun c' hc' => h c' (List.mem_cons_of_mem _ hc'))]
    simp only [rsLoadLe_eq_bitsVal, List.map_cons, List.append_assoc, List.singleton_append]

/-- the model's `trimFalse`, from the left -/
theorem trimFalse_cons (b : Bool) (bs : List Bool) :
    Mappings.trimFalse (b :: bs) =
      if Mappings.trimFalse bs = [] then (if b then [true] else []) else b :: Mappings.trimFalse bs := by
  unfold Mappings.trimFalse
  rw [List.reverse_cons, List.dropWhile_append]
  by_cases h : List.dropWhile (fun x => decide (x = false)) bs.reverse = []
  · simp only [h, List.isEmpty_nil, ↓reduceIte, List.reverse_nil]
    cases b <;> simp [List.dropWhile]
  · have h' : ¬ (List.dropWhile (fun x => decide (x = false)) bs.reverse).reverse = [] := by
      simpa using h
    simp only [List.isEmpty_iff, h, h', ↓reduceIte, List.reverse_append, List.reverse_cons, List.reverse_nil,
      List.nil_append, List.singleton_append]

/-- `trimFalse` is a prefix -/
theorem trimFalse_take : ∀ (bs : List Bool), bs.take (Mappings.trimFalse bs).length = Mappings.trimFalse bs := by
  intro bs
  induction bs with
  | nil => rfl
  | cons b bs ih =>
    rw [trimFalse_cons]
    by_cases h : Mappings.trimFalse bs = []
    · cases b <;> simp [h]
    · simp only [h, ↓reduceIte, List.length_cons, List.take_succ_cons, ih]

/-- the first loop finds the index of the last set bit (or keeps `last`) -/
theorem rmi_loop1 : ∀ (bs : List Bool) (k last : Nat),
    Gen.RsSerialize.encode_rmi.loop1 (enumFrom k bs) last =
      .ok (if Mappings.trimFalse bs = [] then last else k + (Mappings.trimFalse bs).length - 1) := by
  intro bs
  induction bs with
  | nil => intro k last; rfl
  | cons b bs ih =>
    intro k last
    rw [trimFalse_cons]
    simp only [enumFrom, Gen.RsSerialize.encode_rmi.loop1]
    by_cases h : Mappings.trimFalse bs = []
    · cases b
      · simp only [Bool.false_eq_true, ↓reduceIte, ih, h]
      · simp only [↓reduceIte, ih, h, List.cons_ne_nil, List.length_cons, List.length_nil]
        congr 1
    · have hpos : 0 < (Mappings.trimFalse bs).length := List.length_pos_iff.mpr h
      cases b
      · simp only [Bool.false_eq_true, ↓reduceIte, ih, h, List.cons_ne_nil, List.length_cons]
        congr 1; omega
      · simp only [↓reduceIte, ih, h, List.cons_ne_nil, List.length_cons]
        congr 1; omega

/-- `encode_rmi` on the level of bits: keep the bits up to the last set one (bit 0 when none is set) -/
theorem rmi_take (bs : List Bool) (h : bs ≠ []) :
    bs.take ((if Mappings.trimFalse bs = [] then 0 else 0 + (Mappings.trimFalse bs).length - 1) + 1) =
      (if (Mappings.trimFalse bs).isEmpty then [false] else Mappings.trimFalse bs) := by
  by_cases ht : Mappings.trimFalse bs = []
  · simp only [ht, ↓reduceIte, List.isEmpty_nil]
    cases bs with
    | nil => exact absurd rfl h
    | cons b bs =>
      rw [trimFalse_cons] at ht
      cases b
      · rfl
      · split at ht <;> simp at ht
  · have hpos : 0 < (Mappings.trimFalse bs).length := List.length_pos_iff.mpr ht
    have : 0 + (Mappings.trimFalse bs).length - 1 + 1 = (Mappings.trimFalse bs).length := by omega
    simp only [ht, ↓reduceIte, List.isEmpty_iff, this, trimFalse_take]

/-- **encode_rmi** = the model's `encodeRmi` on the bits of the bytes, appended to `out`, for every non-empty
byte vector.  (On the empty vector `bits[..last + 1]` panics; the model's `encodeRmi []` is `"A"`.  The only
caller passes a vector that has just been resized to at least one byte.) -/
theorem tie_encode_rmi (out : List Nat) (data : List Nat) (hdata : data ≠ [])
    (hsize : 8 * data.length ≤ 18446744073709551615) :
    Gen.RsSerialize.encode_rmi out data = .ok (out ++ Mappings.encodeRmi (rsViewBits data)) := by
  have hne := rsViewBits_ne_nil data hdata
  rw [← rsViewBits_length] at hsize
  unfold Gen.RsSerialize.encode_rmi Mappings.encodeRmi
  generalize rsViewBits data = bits at hne hsize
  have hlen : (Mappings.trimFalse bits).length ≤ bits.length := by
    have := congrArg List.length (trimFalse_take bits)
    rw [List.length_take] at this
    omega
  have hpos : 0 < bits.length := List.length_pos_iff.mpr hne
  have hle : (if Mappings.trimFalse bits = [] then 0 else 0 + (Mappings.trimFalse bits).length - 1) + 1
      ≤ bits.length := by split <;> omega
  have h64 : (if Mappings.trimFalse bits = [] then 0 else 0 + (Mappings.trimFalse bits).length - 1) + 1
      ≤ 18446744073709551615 := by omega
  have hs := rsSlice_ok bits 0 _ (Nat.zero_le _) hle
  simp only [List.drop_zero, Nat.sub_zero, rmi_take bits hne] at hs
  simp only [rsEnumerate, rmi_loop1, h64, ↓reduceIte, hs]
  generalize (if (Mappings.trimFalse bits).isEmpty = true then [false] else Mappings.trimFalse bits) = t
  rw [rmi_loop2 _ _ (rsChunks_mem_length 6 (by omega) t.length t (Nat.le_refl _)),
    rsChunks6_eq t.length t (Nat.le_refl _)]

example : ([0, 128] : List Nat) ≠ [] ∧ 8 * ([0, 128] : List Nat).length ≤ 18446744073709551615 := by decide
-- `#eval` gives `[59, 65, 65, 73]` on both sides
example : Gen.RsSerialize.encode_rmi [59] [0, 128] = .ok ([59] ++ Mappings.encodeRmi (rsViewBits [0, 128])) :=
  tie_encode_rmi _ _ (by decide) (by decide)

/-- on the empty vector the generated code panics -/
theorem encode_rmi_nil (out : List Nat) : Gen.RsSerialize.encode_rmi out [] = .error .panic := rfl

/-! ## `serialize_range_mappings` -/

/-- `a` is `b` padded with `false`s (the bytes of `rmi_data` viewed as bits, against the model's bit list) -/
def PadOf (a b : List Bool) : Prop := ∃ pad, a = b ++ List.replicate pad false

theorem padOf_nil : PadOf [] [] := ⟨0, rfl⟩

theorem dropWhile_replicate_false (n : Nat) (l : List Bool) :
    (List.replicate n false ++ l).dropWhile (fun x => decide (x = false)) =
      l.dropWhile (fun x => decide (x = false)) := by
  induction n with
  | zero => rfl
  | succ n ih => rw [List.replicate_succ, List.cons_append, List.dropWhile_cons]; simp [ih]

theorem trimFalse_append_replicate (bs : List Bool) (n : Nat) :
    Mappings.trimFalse (bs ++ List.replicate n false) = Mappings.trimFalse bs := by
  unfold Mappings.trimFalse
  rw [List.reverse_append, List.reverse_replicate, dropWhile_replicate_false]

/-- trailing `false`s do not change `encodeRmi` -/
theorem encodeRmi_padOf (a b : List Bool) (h : PadOf a b) : Mappings.encodeRmi a = Mappings.encodeRmi b := by
  obtain ⟨pad, rfl⟩ := h
  unfold Mappings.encodeRmi
  rw [trimFalse_append_replicate]

/-- setting a bit inside the padded vector is the model's `setBit` -/
theorem padOf_set (a b : List Bool) (h : PadOf a b) (num : Nat) (hn : num < a.length) :
    PadOf (a.set num true) (Mappings.setBit b num) := by
  obtain ⟨pad, rfl⟩ := h
  unfold Mappings.setBit
  by_cases hlt : num < b.length
  · have h0 : num + 1 - b.length = 0 := by omega
    refine ⟨pad, ?_⟩
    rw [h0, List.replicate_zero, List.append_nil, List.set_append_left _ _ hlt]
  · simp only [List.length_append, List.length_replicate] at hn
    have hsplit : pad = (num + 1 - b.length) + (pad - (num + 1 - b.length)) := by omega
    refine ⟨pad - (num + 1 - b.length), ?_⟩
    have hlt' : num < (b ++ List.replicate (num + 1 - b.length) false).length := by
      simp only [List.length_append, List.length_replicate]; omega
    rw [← List.set_append_left _ _ hlt', List.append_assoc, List.replicate_append_replicate, ← hsplit]

theorem rmiChar_lt (v : Nat) : Mappings.rmiChar v < 128 := by
  unfold Mappings.rmiChar
  repeat' split
  all_goals omega

theorem encodeRmi_lt (bs : List Bool) : ∀ c ∈ Mappings.encodeRmi bs, c < 128 := by
  intro c hc
  simp only [Mappings.encodeRmi, List.mem_map] at hc
  obtain ⟨_, _, rfl⟩ := hc
  exact rmiChar_lt _

/-- `rmi_data.resize(..); rmi_data.view_bits_mut().set(num, true)` against the model's `setBit` -/
theorem rmi_set_step (rmi : List Nat) (bits : List Bool) (seg : Nat) (hb : ∀ b ∈ rmi, b < 256)
    (hpad : PadOf (rsViewBits rmi) bits) :
    ∃ rmi2, (if rmi.length * 8 ≤ seg then rsSetBit (rsResize rmi (seg / 8 + 1) 0) seg true
        else rsSetBit rmi seg true) = .ok rmi2 ∧
      (∀ b ∈ rmi2, b < 256) ∧ PadOf (rsViewBits rmi2) (Mappings.setBit bits seg) ∧ rmi2 ≠ [] ∧
      (rmi2.length * 8 ≤ rmi.length * 8 ∨ rmi2.length * 8 ≤ seg + 8) := by
  by_cases hgrow : rmi.length * 8 ≤ seg
  · simp only [hgrow, ↓reduceIte]
    have hle : rmi.length ≤ seg / 8 + 1 := by omega
    rw [rsResize_grow rmi _ 0 hle]
    have hb' : ∀ b ∈ rmi ++ List.replicate (seg / 8 + 1 - rmi.length) 0, b < 256 := by
      intro b hbm
      rcases List.mem_append.mp hbm with h | h
      · exact hb b h
      · rw [(List.mem_replicate.mp h).2]; omega
    have hlen' : (rmi ++ List.replicate (seg / 8 + 1 - rmi.length) 0).length = seg / 8 + 1 := by
      simp only [List.length_append, List.length_replicate]; omega
    obtain ⟨rmi2, hset, hview, hlen, hlt⟩ := rsSetBit_true _ hb' seg (by rw [hlen']; omega)
    refine ⟨rmi2, hset, hlt, ?_, ?_, Or.inr (by rw [hlen, hlen']; omega)⟩
    · rw [hview]
      apply padOf_set
      · obtain ⟨pad, hp⟩ := hpad
        refine ⟨pad + 8 * (seg / 8 + 1 - rmi.length), ?_⟩
        rw [rsViewBits_append, rsViewBits_replicate_zero, hp, List.append_assoc, List.replicate_append_replicate]
      · rw [rsViewBits_length, hlen']; omega
    · intro h0
      rw [h0, hlen'] at hlen
      simp at hlen
  · simp only [hgrow, ↓reduceIte]
    obtain ⟨rmi2, hset, hview, hlen, hlt⟩ := rsSetBit_true rmi hb seg (by omega)
    refine ⟨rmi2, hset, hlt, ?_, ?_, Or.inl (by rw [hlen]; omega)⟩
    · rw [hview]
      exact padOf_set _ _ hpad _ (by rw [rsViewBits_length]; omega)
    · intro h0
      rw [h0] at hlen
      simp only [List.length_nil] at hlen
      omega

/-! ### the `while token.get_dst_line() != prev_line` loop of `serialize_range_mappings` -/

theorem rm_loop2_same (idx : Nat) (tok : Gen.RsTypes.Token) (fuel : Nat) (buf rmi : List Nat) (had : Bool)
    (first skipped : Nat) :
    Gen.RsSerialize.serialize_range_mappings.loop2 idx tok (fuel + 1) buf rmi tok.raw.dst_line had first skipped =
      .ok (buf, rmi, tok.raw.dst_line, had, first, skipped) := by
  simp only [Gen.RsSerialize.serialize_range_mappings.loop2, Gen.RsTypes.Token.get_dst_line, ne_eq,
    not_true_eq_false, ↓reduceIte]

theorem rm_loop2_false (idx : Nat) (tok : Gen.RsTypes.Token) (rmi : List Nat) :
    ∀ (fuel : Nat) (buf : List Nat) (p first skipped : Nat), p ≤ tok.raw.dst_line →
      tok.raw.dst_line < 4294967296 → tok.raw.dst_line - p < fuel →
      Gen.RsSerialize.serialize_range_mappings.loop2 idx tok fuel buf rmi p false first skipped =
        .ok (buf ++ List.replicate (tok.raw.dst_line - p) Mappings.SEMI, rmi, tok.raw.dst_line, false,
          (if p = tok.raw.dst_line then first else idx), (if p = tok.raw.dst_line then skipped else 0)) := by
  intro fuel
  induction fuel with
  | zero => intro buf p first skipped _ _ h; omega
  | succ fuel ih =>
    intro buf p first skipped hp hd hf
    by_cases he : p = tok.raw.dst_line
    · subst he
      rw [rm_loop2_same]
      simp only [Nat.sub_self, List.replicate_zero, List.append_nil, ↓reduceIte]
    · have he' : ¬ tok.raw.dst_line = p := fun h => he h.symm
      have h1 : p + 1 ≤ 4294967295 := by omega
      have h2 : tok.raw.dst_line - p = (tok.raw.dst_line - (p + 1)) + 1 := by omega
      simp only [Gen.RsSerialize.serialize_range_mappings.loop2, Gen.RsTypes.Token.get_dst_line, ne_eq, he',
        not_false_eq_true, ↓reduceIte, Bool.false_eq_true, h1]
      rw [ih _ _ _ _ (by omega) hd (by omega), h2, List.replicate_succ]
      simp only [he, ↓reduceIte, ite_self, Mappings.SEMI, List.append_assoc, List.singleton_append]

/-- a token on a later line: flush the line's bit vector (if any), then one `;` per line -/
theorem rm_loop2_newline (idx : Nat) (tok : Gen.RsTypes.Token) (fuel : Nat) (buf rmi : List Nat) (p : Nat)
    (had : Bool) (first skipped : Nat) (hp : p < tok.raw.dst_line) (hd : tok.raw.dst_line < 4294967296)
    (hf : tok.raw.dst_line - p < fuel)
    (h1 : had = true → rmi ≠ [] ∧ 8 * rmi.length ≤ 18446744073709551615) (h0 : had = false → rmi = []) :
    Gen.RsSerialize.serialize_range_mappings.loop2 idx tok fuel buf rmi p had first skipped =
      .ok ((if had = true then buf ++ Mappings.encodeRmi (rsViewBits rmi) else buf) ++
          Mappings.SEMI :: List.replicate (tok.raw.dst_line - p - 1) Mappings.SEMI,
        [], tok.raw.dst_line, false, idx, 0) := by
  have hrep : tok.raw.dst_line - p = (tok.raw.dst_line - p - 1) + 1 := by omega
  cases had with
  | false =>
    rw [rm_loop2_false idx tok rmi fuel buf p first skipped (by omega) hd hf, h0 rfl, hrep, List.replicate_succ]
    have : ¬ p = tok.raw.dst_line := by omega
    simp only [this, ↓reduceIte, Bool.false_eq_true, Nat.add_sub_cancel]
  | true =>
    obtain ⟨hne, hsz⟩ := h1 rfl
    cases fuel with
    | zero => omega
    | succ fuel =>
      have he' : ¬ tok.raw.dst_line = p := by omega
      have hp1 : p + 1 ≤ 4294967295 := by omega
      simp only [Gen.RsSerialize.serialize_range_mappings.loop2, Gen.RsTypes.Token.get_dst_line, ne_eq, he',
        not_false_eq_true, ↓reduceIte, tie_encode_rmi buf rmi hne hsz, hp1]
      rw [rm_loop2_false idx tok [] fuel _ (p + 1) idx 0 (by omega) hd (by omega)]
      have : tok.raw.dst_line - (p + 1) = tok.raw.dst_line - p - 1 := by omega
      simp only [this, ite_self, Mappings.SEMI, List.append_assoc, List.singleton_append]

/-- a token on an earlier line: the loop counts up until the fuel runs out or `prev_line += 1` overflows -/
theorem rm_loop2_gt (idx : Nat) (tok : Gen.RsTypes.Token) :
    ∀ (fuel : Nat) (buf rmi : List Nat) (p : Nat) (had : Bool) (first skipped : Nat),
      tok.raw.dst_line < p → p < 4294967296 →
      (had = true → rmi ≠ [] ∧ 8 * rmi.length ≤ 18446744073709551615) →
      Gen.RsSerialize.serialize_range_mappings.loop2 idx tok fuel buf rmi p had first skipped =
        if fuel + p < 4294967296 then .error .diverge else .error .panic := by
  intro fuel
  induction fuel with
  | zero =>
    intro buf rmi p had first skipped _ hp _
    have : 0 + p < 4294967296 := by omega
    simp only [Gen.RsSerialize.serialize_range_mappings.loop2, this, ↓reduceIte]
  | succ fuel ih =>
    intro buf rmi p had first skipped hd hp h1
    have he : ¬ tok.raw.dst_line = p := by omega
    have hiff : (fuel + (p + 1) < 4294967296) = (fuel + 1 + p < 4294967296) := by apply propext; omega
    by_cases hp1 : p + 1 ≤ 4294967295
    · have hrec : ∀ buf' rmi', Gen.RsSerialize.serialize_range_mappings.loop2 idx tok fuel buf' rmi' (p + 1) false
            idx 0 = if fuel + 1 + p < 4294967296 then .error .diverge else .error .panic := by
        intro buf' rmi'
        rw [ih buf' rmi' (p + 1) false idx 0 (by omega) (by omega) (fun h => by cases h)]
        simp only [hiff]
      cases had with
      | false =>
        simp only [Gen.RsSerialize.serialize_range_mappings.loop2, Gen.RsTypes.Token.get_dst_line, ne_eq, he,
          not_false_eq_true, ↓reduceIte, Bool.false_eq_true, hp1, hrec]
      | true =>
        obtain ⟨hne, hsz⟩ := h1 rfl
        simp only [Gen.RsSerialize.serialize_range_mappings.loop2, Gen.RsTypes.Token.get_dst_line, ne_eq, he,
          not_false_eq_true, ↓reduceIte, tie_encode_rmi buf rmi hne hsz, hp1, hrec]
    · have hno : ¬ (fuel + 1 + p < 4294967296) := by omega
      cases had with
      | false =>
        simp only [Gen.RsSerialize.serialize_range_mappings.loop2, Gen.RsTypes.Token.get_dst_line, ne_eq, he,
          not_false_eq_true, ↓reduceIte, Bool.false_eq_true, hp1, hno]
      | true =>
        obtain ⟨hne, hsz⟩ := h1 rfl
        simp only [Gen.RsSerialize.serialize_range_mappings.loop2, Gen.RsTypes.Token.get_dst_line, ne_eq, he,
          not_false_eq_true, ↓reduceIte, tie_encode_rmi buf rmi hne hsz, hp1, hno]

/-! ### the token loop of `serialize_range_mappings` -/

/-- How the generated loop and the model's loop relate (as `Agree` above): the final state of the generated loop
determines the model's result; or the model says `diverge` and the generated `while` loop runs out of fuel or
overflows `prev_line`. -/
def AgreeR (P : Prop) (g : Res (List Nat × List Nat × Nat × Bool × Nat × Nat × Bool))
    (m : Res (Option (List Nat))) : Prop :=
  (∃ buf rmi line had first skipped empty bits,
      g = .ok (buf, rmi, line, had, first, skipped, empty) ∧ PadOf (rsViewBits rmi) bits ∧
      (had = true → rmi ≠ []) ∧ rmi.length * 8 ≤ 9223372036854775807 + 8 ∧ (∀ c ∈ buf, c < 128) ∧
      m = (if empty = true then .ok none
            else .ok (some (if had = true then buf ++ Mappings.encodeRmi bits else buf)))) ∨
  (m = .error .diverge ∧ (g = .error .diverge ∨ (g = .error .panic ∧ P)))

theorem all_lt_append (a b : List Nat) (n : Nat) (ha : ∀ c ∈ a, c < n) (hb : ∀ c ∈ b, c < n) :
    ∀ c ∈ a ++ b, c < n := by
  intro c hc
  rcases List.mem_append.mp hc with h | h
  · exact ha c h
  · exact hb c h

theorem all_lt_semis (k : Nat) : ∀ c ∈ Mappings.SEMI :: List.replicate k Mappings.SEMI, c < 128 := by
  intro c hc
  rcases List.mem_cons.mp hc with h | h
  · rw [h]; decide
  · rw [(List.mem_replicate.mp h).2]; decide

/-- side conditions of the induction hypothesis of `rm_loop1` -/
local macro "rm_side" hne2:ident : tactic => `(tactic|
  first
    | assumption
    | exact padOf_nil
    | omega
    | (simp only [List.length_nil]; omega)
    | (intro b hb; cases hb; done)
    | (intro h; first | (cases h; done) | exact $hne2 | rfl))

theorem rm_loop1 (sm : Gen.RsTypes.SourceMap) (fuel : Nat)
    (hu : ∀ r ∈ sm.tokens, r.dst_line < 4294967296) (hl : ∀ r ∈ sm.tokens, r.dst_line < fuel)
    (hsize : sm.tokens.length ≤ 9223372036854775807)
    (P : Prop) (hP : ∀ r ∈ sm.tokens, 4294967296 ≤ fuel + r.dst_line → P) :
    ∀ (rest : List Gen.RsTypes.RawToken) (k : Nat) (prev : Option Gen.RsTypes.RawToken),
      sm.tokens.drop k = rest → k ≤ sm.tokens.length →
      ((k = 0 ∧ prev = none) ∨ (∃ p, 0 < k ∧ prev = some p ∧ sm.tokens[k - 1]? = some p)) →
      ∀ (line : Nat) (bits : List Bool) (had : Bool) (seg : Nat) (empty : Bool) (out rmi : List Nat)
        (first skipped : Nat),
        line < 4294967296 → PadOf (rsViewBits rmi) bits → (∀ b ∈ rmi, b < 256) →
        (had = true → rmi ≠ []) → (had = false → rmi = []) → rmi.length * 8 ≤ k + 8 →
        first + skipped + seg = k → (k = 0 ∨ first < k) → (∀ c ∈ out, c < 128) →
        (4294967296 ≤ fuel + line → sm.tokens ≠ [] → P) →
        AgreeR P
          (Gen.RsSerialize.serialize_range_mappings.loop1 fuel sm (tokEnum sm k rest) out rmi line had first
            skipped empty)
          (Mappings.serializeRmiLoop (rest.map toTok) (prev.map toTok) line bits had seg empty out) := by
  intro rest
  induction rest with
  | nil =>
    intro k prev hdrop hkle _ line bits had seg empty out rmi first skipped _ hpad _ hne _ hlen _ _ hout _
    exact Or.inl ⟨out, rmi, line, had, first, skipped, empty, bits, rfl, hpad, hne, by omega, hout, rfl⟩
  | cons r rest ih =>
    intro k prev hdrop hkle hprev line bits had seg empty out rmi first skipped hline hpad hbytes hhad1 hhad0 hlen
      hsum hfirst hout hPl
    have hk : sm.tokens[k]? = some r := by
      have := List.getElem?_drop (xs := sm.tokens) (i := k) (j := 0)
      rw [hdrop] at this
      simpa using this.symm
    have hklt : k < sm.tokens.length := by
      rcases List.getElem?_eq_some_iff.mp hk with ⟨h, _⟩
      exact h
    have hmem : r ∈ sm.tokens := List.mem_of_getElem? hk
    have e1 : (toTok r).dl < 4294967296 := hu r hmem
    have hfl : (toTok r).dl < fuel := hl r hmem
    have hdrop' : sm.tokens.drop (k + 1) = rest := by
      have := congrArg (List.drop 1) hdrop
      simpa [List.drop_drop] using this
    have IH := ih (k + 1) (some r) hdrop' hklt (Or.inr ⟨r, by omega, rfl, hk⟩)
    have hP' : 4294967296 ≤ fuel + (toTok r).dl → sm.tokens ≠ [] → P := fun h _ => hP r hmem h
    have hsz : had = true → rmi ≠ [] ∧ 8 * rmi.length ≤ 18446744073709551615 :=
      fun h => ⟨hhad1 h, by omega⟩
    rw [tokEnum_cons]
    simp only [List.map_cons]
    by_cases hlt : (toTok r).dl < line
    · -- an earlier line: the model says `diverge`; the generated loop counts up
      have hG := rm_loop2_gt k (tokAt sm k r) fuel out rmi line had first skipped hlt hline hsz
      by_cases hfl2 : fuel + line < 4294967296
      · simp only [hfl2, ↓reduceIte] at hG
        simp only [Gen.RsSerialize.serialize_range_mappings.loop1, hG, Mappings.serializeRmiLoop, hlt, ↓reduceIte]
        exact Or.inr ⟨rfl, Or.inl rfl⟩
      · simp only [hfl2, ↓reduceIte] at hG
        simp only [Gen.RsSerialize.serialize_range_mappings.loop1, hG, Mappings.serializeRmiLoop, hlt, ↓reduceIte]
        exact Or.inr ⟨rfl, Or.inr ⟨rfl, hPl (by omega) (List.ne_nil_of_mem hmem)⟩⟩
    · by_cases hne : (toTok r).dl = line
      · -- the same line
        subst hne
        have hL : Gen.RsSerialize.serialize_range_mappings.loop2 k (tokAt sm k r) fuel out rmi (toTok r).dl had
            first skipped = .ok (out, rmi, (toTok r).dl, had, first, skipped) := by
          obtain ⟨f, rfl⟩ : ∃ f, fuel = f + 1 := ⟨fuel - 1, by omega⟩
          exact rm_loop2_same k (tokAt sm k r) f out rmi had first skipped
        have hfk : first ≤ k := by omega
        have hsk : skipped ≤ k - first := by omega
        have hnum : k - first - skipped = seg := by omega
        have h64a : rmi.length * 8 ≤ 18446744073709551615 := by omega
        have h64b : seg / 8 + 1 ≤ 18446744073709551615 := by omega
        have h64c : skipped + 1 ≤ 18446744073709551615 := by omega
        obtain ⟨rmi2, hset, hb2, hpad2, hne2, hlen2⟩ := rmi_set_step rmi bits seg hbytes hpad
        rcases hprev with ⟨hk0, hp0⟩ | ⟨p, hkpos, hp, hpk⟩
        · -- the first token of the map
          subst hk0 hp0
          cases hr : (toTok r).rng
          · simp only [Gen.RsSerialize.serialize_range_mappings.loop1, hL, is_range_tokAt, hr,
              Mappings.serializeRmiLoop, Nat.lt_irrefl, ↓reduceIte, gt_iff_lt, Nat.not_lt_zero, ne_eq,
              not_true_eq_false, decide_false, Bool.not_false, Bool.true_and, Option.map_none, reduceCtorEq,
              Bool.false_eq_true]
            apply IH <;> rm_side hne2
          · by_cases hgrow : rmi.length * 8 ≤ seg <;>
            · simp only [hgrow, ↓reduceIte] at hset
              simp only [Gen.RsSerialize.serialize_range_mappings.loop1, hL, is_range_tokAt, hr,
                Mappings.serializeRmiLoop, Nat.lt_irrefl, ↓reduceIte, gt_iff_lt, Nat.not_lt_zero, ne_eq,
                not_true_eq_false, decide_false, Bool.not_false, Bool.true_and, Option.map_none, reduceCtorEq,
                Bool.false_eq_true, hfk, hsk, hnum, h64a, h64b, hgrow, hset]
              apply IH <;> rm_side hne2
        · subst hp
          have hfk' : first < k := by omega
          have hk1 : 1 ≤ k := hkpos
          by_cases hrp : p = r
          · -- exact duplicate of the previous token: skipped
            subst hrp
            simp only [Gen.RsSerialize.serialize_range_mappings.loop1, hL, Mappings.serializeRmiLoop,
              Nat.lt_irrefl, ↓reduceIte, gt_iff_lt, hfk', hk1, get_token_eq sm (k - 1) p hpk, token_eq_tokAt,
              decide_true, ne_eq, not_true_eq_false, decide_false, Bool.not_false, Bool.true_and,
              Option.map_some, h64c]
            apply IH <;> rm_side hne2
          · have hrp' : ¬ r = p := fun h => hrp h.symm
            cases hr : (toTok r).rng
            · simp only [Gen.RsSerialize.serialize_range_mappings.loop1, hL, is_range_tokAt, hr,
                Mappings.serializeRmiLoop, Nat.lt_irrefl, ↓reduceIte, gt_iff_lt, hfk', hk1,
                get_token_eq sm (k - 1) p hpk, token_eq_tokAt, hrp', hrp, ne_eq,
                not_true_eq_false, decide_false, Bool.not_false, Bool.true_and, Option.map_some,
                Option.some.injEq, toTok_inj, Bool.false_eq_true]
              apply IH <;> rm_side hne2
            · by_cases hgrow : rmi.length * 8 ≤ seg <;>
              · simp only [hgrow, ↓reduceIte] at hset
                simp only [Gen.RsSerialize.serialize_range_mappings.loop1, hL, is_range_tokAt, hr,
                  Mappings.serializeRmiLoop, Nat.lt_irrefl, ↓reduceIte, gt_iff_lt, hfk', hk1,
                  get_token_eq sm (k - 1) p hpk, token_eq_tokAt, hrp', hrp, ne_eq,
                  not_true_eq_false, decide_false, Bool.not_false, Bool.true_and, Option.map_some,
                  Option.some.injEq, toTok_inj, Bool.false_eq_true, hfk, hsk, hnum, h64a, h64b, hgrow, hset]
                apply IH <;> rm_side hne2
      · -- a later line
        have hout' : ∀ c ∈ (if had = true then out ++ Mappings.encodeRmi bits else out) ++
            Mappings.SEMI :: List.replicate ((toTok r).dl - line - 1) Mappings.SEMI, c < 128 := by
          apply all_lt_append _ _ _ _ (all_lt_semis _)
          split
          · exact all_lt_append _ _ _ hout (encodeRmi_lt _)
          · exact hout
        have hL : Gen.RsSerialize.serialize_range_mappings.loop2 k (tokAt sm k r) fuel out rmi line had
            first skipped = .ok ((if had = true then out ++ Mappings.encodeRmi bits else out) ++
              Mappings.SEMI :: List.replicate ((toTok r).dl - line - 1) Mappings.SEMI,
              [], (toTok r).dl, false, k, 0) := by
          rw [← encodeRmi_padOf _ _ hpad]
          exact rm_loop2_newline k (tokAt sm k r) fuel out rmi line had first skipped
            (show line < (toTok r).dl by omega) e1 (show (toTok r).dl - line < fuel by omega) hsz hhad0
        obtain ⟨rmi2, hset, hb2, hpad2, hne2, hlen2⟩ := rmi_set_step [] [] 0 (by simp) padOf_nil
        simp only [List.length_nil, Nat.zero_mul, Nat.le_refl, ↓reduceIte, Nat.zero_div, Nat.zero_add,
          Nat.reduceLeDiff, or_self] at hset hlen2
        cases hr : (toTok r).rng
        · simp only [Gen.RsSerialize.serialize_range_mappings.loop1, hL, is_range_tokAt, hr,
            Mappings.serializeRmiLoop, hlt, hne, ↓reduceIte, gt_iff_lt, Nat.lt_irrefl, ne_eq,
            not_false_eq_true, decide_true, Bool.not_true, Bool.false_and, Bool.false_eq_true]
          generalize (if had = true then out ++ Mappings.encodeRmi bits else out) ++
            Mappings.SEMI :: List.replicate ((toTok r).dl - line - 1) Mappings.SEMI = out' at hout' ⊢
          apply IH <;> rm_side hne2
        · simp only [Gen.RsSerialize.serialize_range_mappings.loop1, hL, is_range_tokAt, hr,
            Mappings.serializeRmiLoop, hlt, hne, ↓reduceIte, gt_iff_lt, Nat.lt_irrefl, ne_eq,
            not_false_eq_true, decide_true, Bool.not_true, Bool.false_and, Bool.false_eq_true,
            Nat.le_refl, Nat.sub_self, Nat.sub_zero, Nat.zero_le, List.length_nil, Nat.zero_mul, Nat.zero_div,
            Nat.zero_add, Nat.reduceLeDiff, hset]
          generalize (if had = true then out ++ Mappings.encodeRmi bits else out) ++
            Mappings.SEMI :: List.replicate ((toTok r).dl - line - 1) Mappings.SEMI = out' at hout' ⊢
          apply IH <;> rm_side hne2

/-! ### when the model's `serializeRmiLoop` says `diverge` -/

theorem serializeRmiLoop_step (t : Tok) (ts : List Tok) (prev : Option Tok) (line : Nat) (bits : List Bool)
    (had : Bool) (seg : Nat) (empty : Bool) (out : List Nat) (h : ¬ t.dl < line) :
    ∃ bits' had' seg' empty' out',
      Mappings.serializeRmiLoop (t :: ts) prev line bits had seg empty out =
        Mappings.serializeRmiLoop ts (some t) t.dl bits' had' seg' empty' out' := by
  simp only [Mappings.serializeRmiLoop, h, ↓reduceIte]
  split
  · exact ⟨_, _, _, _, _, rfl⟩
  · split
    · exact ⟨_, _, _, _, _, rfl⟩
    · exact ⟨_, _, _, _, _, rfl⟩

theorem serializeRmiLoop_cases : ∀ (ts : List Tok) (prev : Option Tok) (line : Nat) (bits : List Bool)
    (had : Bool) (seg : Nat) (empty : Bool) (out : List Nat),
    (LinesFrom line ts → ∃ r, Mappings.serializeRmiLoop ts prev line bits had seg empty out = .ok r) ∧
    (¬ LinesFrom line ts → Mappings.serializeRmiLoop ts prev line bits had seg empty out = .error .diverge) := by
  intro ts
  induction ts with
  | nil =>
    intro prev line bits had seg empty out
    refine ⟨fun _ => ?_, fun h => absurd trivial h⟩
    simp only [Mappings.serializeRmiLoop]
    split
    · exact ⟨_, rfl⟩
    · exact ⟨_, rfl⟩
  | cons t ts ih =>
    intro prev line bits had seg empty out
    by_cases h : line ≤ t.dl
    · obtain ⟨bits', had', seg', empty', out', heq⟩ :=
        serializeRmiLoop_step t ts prev line bits had seg empty out (by omega)
      rw [heq]
      simp only [LinesFrom, h, true_and]
      exact ih (some t) t.dl bits' had' seg' empty' out'
    · have hlt : t.dl < line := by omega
      simp only [LinesFrom, h, false_and, false_implies, not_false_eq_true, true_implies, true_and,
        Mappings.serializeRmiLoop, ↓reduceIte, hlt]

theorem serializeRangeMappings_sorted (ts : List Tok) (h : (ts.map (·.dl)).Pairwise (· ≤ ·)) :
    ∃ r, Mappings.serializeRangeMappings ts = .ok r :=
  (serializeRmiLoop_cases ts none 0 [] false 0 true []).1 ((linesFrom_zero ts).mpr h)

theorem serializeRangeMappings_unsorted (ts : List Tok) (h : ¬ (ts.map (·.dl)).Pairwise (· ≤ ·)) :
    Mappings.serializeRangeMappings ts = .error .diverge :=
  (serializeRmiLoop_cases ts none 0 [] false 0 true []).2 (fun hl => h ((linesFrom_zero ts).mp hl))

/-! ### `serialize_range_mappings` -/

/-- **serialize_range_mappings**, without any assumption on the order of the tokens: the generated function
returns what the model returns - except that where the model says `diverge` and the fuel suffices to count
`prev_line` up to `u32::MAX`, the generated code reports the overflow panic of `prev_line += 1` instead.
In particular the `usize` arithmetic (`idx - idx_of_first_in_line - skipped_in_line`, `num / 8 + 1`,
`skipped_in_line += 1`), the `resize`/`set` on `rmi_data`, `encode_rmi` and the final `String::from_utf8(..)
.unwrap()` never fail. -/
theorem tie_serialize_range_mappings_any (sm : Gen.RsTypes.SourceMap)
    (hu32 : ∀ r ∈ sm.tokens, r.dst_line < 4294967296) (hsize : sm.tokens.length ≤ 9223372036854775807)
    (fuel : Nat) (hfl : ∀ r ∈ sm.tokens, r.dst_line < fuel) :
    Gen.RsSerialize.serialize_range_mappings fuel sm =
        Mappings.serializeRangeMappings (sm.tokens.map toTok) ∨
    (Mappings.serializeRangeMappings (sm.tokens.map toTok) = .error .diverge ∧
      Gen.RsSerialize.serialize_range_mappings fuel sm = .error .panic ∧
      ∃ r ∈ sm.tokens, 4294967296 ≤ fuel + r.dst_line) := by
  have hA := rm_loop1 sm fuel hu32 hfl hsize (∃ r ∈ sm.tokens, 4294967296 ≤ fuel + r.dst_line)
    (fun r hr h => ⟨r, hr, h⟩) sm.tokens 0 none rfl (Nat.zero_le _) (Or.inl ⟨rfl, rfl⟩)
    0 [] false 0 true [] [] 0 0 (by omega) padOf_nil (by intro b hb; cases hb) (by intro h; cases h)
    (fun _ => rfl) (by simp) rfl (Or.inl rfl) (by intro b hb; cases hb)
    (fun h hne => by
      obtain ⟨r, hr⟩ := List.exists_mem_of_ne_nil _ hne
      exact ⟨r, hr, by omega⟩)
  unfold Gen.RsSerialize.serialize_range_mappings Mappings.serializeRangeMappings
  rw [rsEnumerate_rsTokens]
  rw [Option.map_none] at hA
  rcases hA with ⟨buf, rmi, line, had, first, skipped, empty, bits, hg, hpad, hne, hlen, hbuf, hm⟩ |
    ⟨hm, hg | ⟨hg, hP⟩⟩
  · left
    rw [hm]
    simp only [hg]
    cases empty with
    | true => simp only [↓reduceIte]
    | false =>
      cases had with
      | false =>
        have hall : buf.all (fun b_ => decide (b_ < 128)) = true := by
          rw [List.all_eq_true]; intro c hc; exact decide_eq_true (hbuf c hc)
        simp only [Bool.false_eq_true, ↓reduceIte, hall]
      | true =>
        have hall : (buf ++ Mappings.encodeRmi bits).all (fun b_ => decide (b_ < 128)) = true := by
          rw [List.all_eq_true]; intro c hc
          exact decide_eq_true (all_lt_append _ _ _ hbuf (encodeRmi_lt _) c hc)
        simp only [Bool.false_eq_true, ↓reduceIte, tie_encode_rmi buf rmi (hne rfl) (by omega),
          encodeRmi_padOf _ _ hpad, hall]
  · left
    simp only [hg]
    exact hm.symm
  · right
    simp only [hg]
    exact ⟨hm, trivial, hP⟩

/-- **serialize_range_mappings = the model**, for every source map whose lines are `u32`s and never decrease,
with fuel `>` the largest line number.  (`hsize`: a `Vec` holds at most `isize::MAX` elements.) -/
theorem tie_serialize_range_mappings (sm : Gen.RsTypes.SourceMap)
    (hu32 : ∀ r ∈ sm.tokens, r.dst_line < 4294967296) (hsize : sm.tokens.length ≤ 9223372036854775807)
    (hsorted : (sm.tokens.map (·.dst_line)).Pairwise (· ≤ ·))
    (fuel : Nat) (hfl : ∀ r ∈ sm.tokens, r.dst_line < fuel) :
    Gen.RsSerialize.serialize_range_mappings fuel sm =
      Mappings.serializeRangeMappings (sm.tokens.map toTok) := by
  rcases tie_serialize_range_mappings_any sm hu32 hsize fuel hfl with h | ⟨hm, _⟩
  · exact h
  · obtain ⟨r, hr⟩ := serializeRangeMappings_sorted (sm.tokens.map toTok) ((lines_toTok sm).mpr hsorted)
    rw [hr] at hm
    cases hm

/-- … in particular it does not fail -/
theorem serialize_range_mappings_ok (sm : Gen.RsTypes.SourceMap)
    (hu32 : ∀ r ∈ sm.tokens, r.dst_line < 4294967296) (hsize : sm.tokens.length ≤ 9223372036854775807)
    (hsorted : (sm.tokens.map (·.dst_line)).Pairwise (· ≤ ·))
    (fuel : Nat) (hfl : ∀ r ∈ sm.tokens, r.dst_line < fuel) :
    ∃ v, Gen.RsSerialize.serialize_range_mappings fuel sm = .ok v := by
  rw [tie_serialize_range_mappings sm hu32 hsize hsorted fuel hfl]
  exact serializeRangeMappings_sorted _ ((lines_toTok sm).mpr hsorted)

/-- **otherwise** the model says `diverge` and the generated function fails too: out of fuel, or the overflow
panic of `prev_line += 1` when the fuel reaches `u32::MAX` -/
theorem tie_serialize_range_mappings_unsorted (sm : Gen.RsTypes.SourceMap)
    (hu32 : ∀ r ∈ sm.tokens, r.dst_line < 4294967296) (hsize : sm.tokens.length ≤ 9223372036854775807)
    (hunsorted : ¬ (sm.tokens.map (·.dst_line)).Pairwise (· ≤ ·))
    (fuel : Nat) (hfl : ∀ r ∈ sm.tokens, r.dst_line < fuel) :
    Mappings.serializeRangeMappings (sm.tokens.map toTok) = .error .diverge ∧
    (Gen.RsSerialize.serialize_range_mappings fuel sm = .error .diverge ∨
      (Gen.RsSerialize.serialize_range_mappings fuel sm = .error .panic ∧
        ∃ r ∈ sm.tokens, 4294967296 ≤ fuel + r.dst_line)) := by
  have hm := serializeRangeMappings_unsorted (sm.tokens.map toTok) (fun h => hunsorted ((lines_toTok sm).mp h))
  refine ⟨hm, ?_⟩
  rcases tie_serialize_range_mappings_any sm hu32 hsize fuel hfl with h | ⟨_, hg, hP⟩
  · left; rw [h, hm]
  · right; exact ⟨hg, hP⟩

/-- with fuel below `2^32 - (largest line)` the equation holds for every order of the tokens -/
theorem tie_serialize_range_mappings_diverge (sm : Gen.RsTypes.SourceMap)
    (hu32 : ∀ r ∈ sm.tokens, r.dst_line < 4294967296) (hsize : sm.tokens.length ≤ 9223372036854775807)
    (fuel : Nat) (hfl : ∀ r ∈ sm.tokens, r.dst_line < fuel)
    (hsmall : ∀ r ∈ sm.tokens, fuel + r.dst_line < 4294967296) :
    Gen.RsSerialize.serialize_range_mappings fuel sm =
      Mappings.serializeRangeMappings (sm.tokens.map toTok) := by
  rcases tie_serialize_range_mappings_any sm hu32 hsize fuel hfl with h | ⟨_, _, r, hr, h⟩
  · exact h
  · have := hsmall r hr
    omega

example : ∀ r ∈ exampleMap.tokens, r.dst_line < 4294967296 := by decide
example : exampleMap.tokens.length ≤ 9223372036854775807 := by decide
example : Gen.RsSerialize.serialize_range_mappings 3 exampleMap =
    Mappings.serializeRangeMappings (exampleMap.tokens.map toTok) :=
  tie_serialize_range_mappings exampleMap (by decide) (by decide) (by decide) 3 (by decide)
example : Gen.RsSerialize.serialize_range_mappings 20 unsortedMap = .error .diverge := by
  rw [tie_serialize_range_mappings_diverge unsortedMap (by decide) (by decide) 20 (by decide) (by decide)]
  exact serializeRangeMappings_unsorted _ (by decide)

/-! ### axioms -/
#print axioms tie_serialize_mappings_any
#print axioms tie_serialize_mappings
#print axioms tie_serialize_mappings_sortedByPos
#print axioms serialize_mappings_ok
#print axioms tie_serialize_mappings_unsorted
#print axioms tie_serialize_mappings_diverge
#print axioms tie_encode_rmi
#print axioms encode_rmi_nil
#print axioms tie_serialize_range_mappings_any
#print axioms tie_serialize_range_mappings
#print axioms serialize_range_mappings_ok
#print axioms tie_serialize_range_mappings_unsorted
#print axioms tie_serialize_range_mappings_diverge

end SmVerif.Tie
