import SmVerif.Generated.RsJsIdent
import SmVerif.Model.NameRes
import SmVerif.Proofs.NameResText
import SmVerif.Props.C17
import SmVerif.Tie.PreludeLemmas14
/-
Tie proofs for src/js_identifiers.rs (`SmVerif/Generated/RsJsIdent.lean`): the generated
`is_valid_start`, `is_valid_continue`, `strip_identifier`, `is_valid_javascript_identifier`,
`get_javascript_token` compute what the hand-written model `SmVerif/Model/NameRes.lean` says
(`isValidStart`, `isValidContinue`, `stripIdentifier`, `isValidJsIdentifier`, `getJavascriptToken` -
the functions `c17_identifier_chars`, `c17_identifier_text`, `c17_not_identifier_none` are about).

The generated code works on UTF-8 bytes (`List Nat`) and code points (`Nat`), the model on `List Char`.
The bridge is the encoder `Rs.enc : List Char → List Nat` of `Tie/PreludeLemmas14.lean` (the standard
formula, equal to core's `String.utf8EncodeChar`): a Rust `&str` is exactly an `enc cs`
(`str_is_enc`: every `rsUtf8Valid` byte string is one), so the theorems below quantify over all
`cs : List Char`, i.e. over all `&str`.

Hypotheses:
* `hS`, `hC` link the external Unicode predicates as the generated code takes them (`Nat → Bool`, on code
  points) to the model's (`Char → Bool`); they say nothing about the predicates themselves;
* `hW` (only `get_javascript_token`): the model's `isWs` is an arbitrary parameter, the generated code uses
  `split_whitespace`, i.e. `char::is_whitespace`; `hW` says the parameter is that predicate, written out
  as the table `Rs.rsIsWhitespaceCp` of the 25 White_Space code points;
* `hlen : (enc cs).length < 2^63` - every `&str` has `len ≤ isize::MAX`; it keeps the `usize` addition
  `i + c.len_utf8()` below `2^64`.
-/
namespace SmVerif.Tie.JsIdent
open SmVerif SmVerif.Rs SmVerif.NameRes SmVerif.Gen.RsJsIdent

/-! ### characters -/

theorem char_beq (a b : Char) : (a == b) = decide (a.toNat = b.toNat) := by
  by_cases h : a = b
  · subst h; simp
  · have : a.toNat ≠ b.toNat := fun e => h (Char.ext (UInt32.toNat_inj.1 e))
    simp [h, this]

theorem tie_len8 (c : Char) : len8 c = rsLenUtf8 c.toNat := rfl

theorem tie_u8len (cs : List Char) : u8len cs = (enc cs).length := by
  induction cs with
  | nil => rfl
  | cons c cs ih => simp only [u8len, enc_cons, List.length_append, encChar_length, tie_len8, ih]

theorem tie_is_ascii_alphabetic (c : Char) : rsIsAsciiAlphabetic c.toNat = isAsciiAlpha c := rfl

theorem tie_is_ascii_alphanumeric (c : Char) :
    rsIsAsciiAlphanumeric c.toNat = (isAsciiAlpha c || isAsciiDigit c) := rfl

/-- **`is_valid_start`.**  Generated = model, for every character and every pair of predicates. -/
theorem tie_is_valid_start (P : Preds) (idS idC : Nat → Bool) (hS : ∀ c : Char, idS c.toNat = P.idStart c)
    (c : Char) : is_valid_start idS idC c.toNat = .ok (isValidStart P c) := by
  unfold is_valid_start isValidStart isAscii
  rw [char_beq c '$', char_beq c '_', tie_is_ascii_alphabetic, hS]
  rfl

/-- **`is_valid_continue`.**  Generated = model. -/
theorem tie_is_valid_continue (P : Preds) (idS idC : Nat → Bool) (hC : ∀ c : Char, idC c.toNat = P.idContinue c)
    (c : Char) : is_valid_continue idS idC c.toNat = .ok (isValidContinue P c) := by
  unfold is_valid_continue isValidContinue isAscii
  rw [char_beq c '$', char_beq c '_', char_beq c ZWNJ, char_beq c ZWJ, tie_is_ascii_alphanumeric, hC]
  have e1 : ZWNJ.toNat = 8204 := by decide
  have e2 : ZWJ.toNat = 8205 := by decide
  have e3 : '$'.toNat = 36 := by decide
  have e4 : '_'.toNat = 95 := by decide
  rw [e1, e2, e3, e4]
  simp only [Bool.or_assoc]

/-- predicates given on code points, seen as the model's `Preds` -/
def predsOf (idS idC : Nat → Bool) (ws : Nat → Bool) : Preds :=
  ⟨fun c => idS c.toNat, fun c => idC c.toNat, fun c => ws c.toNat⟩

-- the hypotheses `hS`, `hC` are met by every pair of code-point predicates
example (idS idC ws : Nat → Bool) : ∀ c : Char, idS c.toNat = (predsOf idS idC ws).idStart c := fun _ => rfl
example (idS idC ws : Nat → Bool) : ∀ c : Char, idC c.toNat = (predsOf idS idC ws).idContinue c := fun _ => rfl


/-! ### the UTF-8 bridge in the model's vocabulary (`u8len`); the general lemmas are in `Tie/PreludeLemmas14.lean` -/

/-- every `&str` (a byte string accepted by `str::from_utf8`) is the encoding of a unique list of characters -/
theorem str_is_enc (s : List Nat) (h : rsUtf8Valid s = true) : ∃ cs, s = enc cs ∧ ∀ cs', s = enc cs' → cs' = cs := by
  obtain ⟨cs, hcs⟩ := exists_enc_of_rsUtf8Valid s h
  exact ⟨cs, hcs.symm, fun cs' h' => enc_injective (by rw [← h', hcs])⟩

/-- `s.chars()` -/
theorem tie_chars_enc (cs : List Char) : rsChars (enc cs) = cs.map Char.toNat := rsChars_enc cs

/-- `s.char_indices()`: the `k`-th item is the `k`-th character with the `u8len` of the `k` characters before it -/
theorem tie_char_indices (cs : List Char) (k : Nat) :
    (rsCharIndices (enc cs))[k]? = cs[k]?.map fun c => (u8len (cs.take k), c.toNat) := by
  rw [rsCharIndices_enc_getElem?, tie_u8len]

theorem tie_char_indices_length (cs : List Char) : (rsCharIndices (enc cs)).length = cs.length :=
  rsCharIndices_enc_length cs

/-- `&s[..n]` for `n` the byte length of a prefix of `k` characters: no panic, the encoded prefix -/
theorem tie_str_slice_prefix (cs : List Char) (k : Nat) :
    rsStrSlice (enc cs) 0 (u8len (cs.take k)) = .ok (enc (cs.take k)) := by
  rw [tie_u8len]; exact rsStrSlice_enc_take cs k

/-- … and it is the model's `sliceTo` -/
theorem tie_slice_to_prefix (cs : List Char) (k : Nat) :
    rsStrSlice (enc cs) 0 (u8len (cs.take k)) = (sliceTo cs (u8len (cs.take k))).map enc := by
  rw [tie_str_slice_prefix]
  have := takeBytes_append (cs.take k) (cs.drop k)
  rw [List.take_append_drop] at this
  simp only [sliceTo, this]
  rfl

/-! ### `strip_identifier` -/

/-- the `for (i, c) in iter` loop: generated = model; the `usize` addition does not overflow as long as the
byte offsets stay below `2^64` -/
theorem loop1_eq (P : Preds) (idS idC : Nat → Bool) (hC : ∀ c : Char, idC c.toNat = P.idContinue c) :
    ∀ (l : List Char) (i e : Nat), i + (enc l).length ≤ 18446744073709551615 →
      strip_identifier.loop1 idS idC (rsCharIndicesFrom i (l.map Char.toNat)) e = .ok (stripLoop P l i e) := by
  intro l
  induction l with
  | nil => intro i e _; rfl
  | cons c l ih =>
    intro i e hb
    rw [enc_cons, List.length_append, encChar_length] at hb
    rw [List.map_cons, rsCharIndicesFrom_cons]
    unfold strip_identifier.loop1 stripLoop
    simp only [tie_is_valid_continue P idS idC hC, tie_len8]
    by_cases hv : isValidContinue P c = true
    · simp only [hv, ↓reduceIte]
      rw [if_pos (by omega)]
      exact ih _ _ (by omega)
    · simp only [hv, Bool.false_eq_true, ↓reduceIte]

/-- **`strip_identifier`.**  Generated = model on every `&str`; in particular `&s[..end_idx]` never panics:
`end_idx` is the byte length of an encoded prefix, hence a character boundary (multi-byte characters
included - the crate once sliced at a character count here). -/
theorem tie_strip_identifier (P : Preds) (idS idC : Nat → Bool) (hS : ∀ c : Char, idS c.toNat = P.idStart c)
    (hC : ∀ c : Char, idC c.toNat = P.idContinue c) (cs : List Char) (hlen : (enc cs).length < 2 ^ 63) :
    strip_identifier idS idC (enc cs) = (stripIdentifier P cs).map (Option.map enc) := by
  rw [stripIdentifier_eq]
  cases cs with
  | nil => simp [strip_identifier, rsCharIndices, rsCharIndicesFrom_nil, stripSpec, Except.map]
  | cons c cs =>
    have hlen' : rsLenUtf8 c.toNat + (enc cs).length < 2 ^ 63 := by
      rw [enc_cons, List.length_append, encChar_length] at hlen; exact hlen
    unfold strip_identifier
    simp only [rsCharIndices, rsChars_enc, List.map_cons, rsCharIndicesFrom_cons, List.head?_cons, List.tail_cons,
      tie_is_valid_start P idS idC hS, Nat.zero_add, stripSpec, Except.map]
    by_cases hv : isValidStart P c = true
    · simp only [hv, ↓reduceIte, Option.map_some]
      rw [loop1_eq P idS idC hC cs _ _ (by omega), ← tie_len8, stripLoop_eq]
      have hs := rsStrSlice_enc_prefix (c :: cs.takeWhile (isValidContinue P)) (cs.dropWhile (isValidContinue P))
      rw [List.cons_append, List.takeWhile_append_dropWhile, ← tie_u8len] at hs
      simp only [u8len] at hs
      simp only [hs]
    · simp only [hv, Bool.false_eq_true, ↓reduceIte, Option.map_none]

/-- `strip_identifier` never fails on a `&str` -/
theorem strip_identifier_total (idS idC : Nat → Bool) (cs : List Char) (hlen : (enc cs).length < 2 ^ 63) :
    ∃ r, strip_identifier idS idC (enc cs) = .ok r := by
  rw [tie_strip_identifier (predsOf idS idC fun _ => false) idS idC (fun _ => rfl) (fun _ => rfl) cs hlen,
    stripIdentifier_eq]
  exact ⟨_, rfl⟩

/-- **`is_valid_javascript_identifier`.**  Generated = model (both compare byte lengths). -/
theorem tie_is_valid_javascript_identifier (P : Preds) (idS idC : Nat → Bool)
    (hS : ∀ c : Char, idS c.toNat = P.idStart c) (hC : ∀ c : Char, idC c.toNat = P.idContinue c)
    (cs : List Char) (hlen : (enc cs).length < 2 ^ 63) :
    is_valid_javascript_identifier idS idC (enc cs) = isValidJsIdentifier P cs := by
  unfold is_valid_javascript_identifier isValidJsIdentifier
  rw [tie_strip_identifier P idS idC hS hC cs hlen, stripIdentifier_eq]
  simp only [Except.map]
  cases stripSpec P cs with
  | none =>
    simp only [tie_u8len]
    by_cases h : 0 = (enc cs).length <;> simp [h]
  | some t =>
    simp only [tie_u8len]
    by_cases h : (enc t).length = (enc cs).length <;> simp [h]

/-! ### `get_javascript_token` -/

theorem enc_takeWhile_length_le (p : Char → Bool) (cs : List Char) : (enc (cs.takeWhile p)).length ≤ (enc cs).length := by
  have := congrArg (fun l => (enc l).length) (List.takeWhile_append_dropWhile (p := p) (l := cs))
  simp only [enc_append, List.length_append] at this
  omega

theorem enc_dropWhile_length_le (p : Char → Bool) (cs : List Char) : (enc (cs.dropWhile p)).length ≤ (enc cs).length := by
  have := congrArg (fun l => (enc l).length) (List.takeWhile_append_dropWhile (p := p) (l := cs))
  simp only [enc_append, List.length_append] at this
  omega

/-- `s.split_whitespace().next()` on a `&str` = the model's `firstWord`, when the model's `isWs` is
`char::is_whitespace` -/
theorem tie_first_word (P : Preds) (hW : ∀ c : Char, P.isWs c = rsIsWhitespaceCp c.toNat) (cs : List Char) :
    (rsSplitWhitespace (enc cs)).head? = (firstWord P cs).map enc := by
  have hfun : P.isWs = fun c => rsIsWhitespaceCp c.toNat := funext hW
  rw [rsSplitWhitespace_enc_head]
  unfold firstWord
  rw [hfun]
  cases (cs.dropWhile fun c => rsIsWhitespaceCp c.toNat) with
  | nil => rfl
  | cons d w => rfl

/-- **`get_javascript_token`.**  Generated = model on every `&str`.  `hW`: the model's white-space parameter
is `char::is_whitespace` (the generated code has no such parameter: it calls `split_whitespace`). -/
theorem tie_get_javascript_token (P : Preds) (idS idC : Nat → Bool) (hS : ∀ c : Char, idS c.toNat = P.idStart c)
    (hC : ∀ c : Char, idC c.toNat = P.idContinue c) (hW : ∀ c : Char, P.isWs c = rsIsWhitespaceCp c.toNat)
    (cs : List Char) (hlen : (enc cs).length < 2 ^ 63) :
    get_javascript_token idS idC (enc cs) = (getJavascriptToken P cs).map (Option.map enc) := by
  unfold get_javascript_token getJavascriptToken
  rw [tie_first_word P hW cs]
  cases hf : firstWord P cs with
  | none => rfl
  | some w =>
    have hwlen : (enc w).length < 2 ^ 63 := by
      unfold firstWord at hf
      split at hf
      · exact absurd hf (by simp)
      · have h1 := enc_takeWhile_length_le (fun c => !P.isWs c) (cs.dropWhile P.isWs)
        have h2 := enc_dropWhile_length_le P.isWs cs
        simp only [Option.some.injEq] at hf
        rw [← hf]; omega
    simp only [Option.map_some]
    rw [tie_strip_identifier P idS idC hS hC w hwlen]
    cases stripIdentifier P w <;> rfl


/-! ### the same, quantified over byte strings: every value of type `&str` -/

theorem tie_strip_identifier_str (P : Preds) (idS idC : Nat → Bool) (hS : ∀ c : Char, idS c.toNat = P.idStart c)
    (hC : ∀ c : Char, idC c.toNat = P.idContinue c) (s : List Nat) (hv : rsUtf8Valid s = true)
    (hlen : s.length < 2 ^ 63) :
    ∃ cs, s = enc cs ∧ strip_identifier idS idC s = (stripIdentifier P cs).map (Option.map enc) := by
  obtain ⟨cs, rfl, _⟩ := str_is_enc s hv
  exact ⟨cs, rfl, tie_strip_identifier P idS idC hS hC cs hlen⟩

theorem tie_is_valid_javascript_identifier_str (P : Preds) (idS idC : Nat → Bool)
    (hS : ∀ c : Char, idS c.toNat = P.idStart c) (hC : ∀ c : Char, idC c.toNat = P.idContinue c)
    (s : List Nat) (hv : rsUtf8Valid s = true) (hlen : s.length < 2 ^ 63) :
    ∃ cs, s = enc cs ∧ is_valid_javascript_identifier idS idC s = isValidJsIdentifier P cs := by
  obtain ⟨cs, rfl, _⟩ := str_is_enc s hv
  exact ⟨cs, rfl, tie_is_valid_javascript_identifier P idS idC hS hC cs hlen⟩

theorem tie_get_javascript_token_str (P : Preds) (idS idC : Nat → Bool)
    (hS : ∀ c : Char, idS c.toNat = P.idStart c) (hC : ∀ c : Char, idC c.toNat = P.idContinue c)
    (hW : ∀ c : Char, P.isWs c = rsIsWhitespaceCp c.toNat) (s : List Nat) (hv : rsUtf8Valid s = true)
    (hlen : s.length < 2 ^ 63) :
    ∃ cs, s = enc cs ∧ get_javascript_token idS idC s = (getJavascriptToken P cs).map (Option.map enc) := by
  obtain ⟨cs, rfl, _⟩ := str_is_enc s hv
  exact ⟨cs, rfl, tie_get_javascript_token P idS idC hS hC hW cs hlen⟩

/-- none of the three functions can panic on a `&str`, whatever the Unicode predicates say -/
theorem js_identifiers_total (idS idC : Nat → Bool) (s : List Nat) (hv : rsUtf8Valid s = true)
    (hlen : s.length < 2 ^ 63) :
    (∃ r, strip_identifier idS idC s = .ok r) ∧ (∃ r, is_valid_javascript_identifier idS idC s = .ok r) ∧
    (∃ r, get_javascript_token idS idC s = .ok r) := by
  let P := predsOf idS idC rsIsWhitespaceCp
  obtain ⟨cs, rfl, _⟩ := str_is_enc s hv
  refine ⟨?_, ?_, ?_⟩
  · rw [tie_strip_identifier P idS idC (fun _ => rfl) (fun _ => rfl) cs hlen, stripIdentifier_eq]
    exact ⟨_, rfl⟩
  · rw [tie_is_valid_javascript_identifier P idS idC (fun _ => rfl) (fun _ => rfl) cs hlen, isValidJsIdentifier_eq]
    exact ⟨_, rfl⟩
  · rw [tie_get_javascript_token P idS idC (fun _ => rfl) (fun _ => rfl) (fun _ => rfl) cs hlen,
      getJavascriptToken_eq]
    exact ⟨_, rfl⟩

/-! ### the C17 theorems that speak about these functions, restated on the generated code -/

/-- `c17_identifier_chars` on the generated `is_valid_start` / `is_valid_continue`: `$`, `_`, ASCII letters
(digits after the start), ZWNJ / ZWJ after the start, and outside ASCII exactly what the Unicode tables say -/
theorem gen_c17_identifier_chars (idS idC : Nat → Bool) :
    is_valid_start idS idC 36 = .ok true ∧ is_valid_start idS idC 95 = .ok true ∧
    is_valid_continue idS idC 36 = .ok true ∧ is_valid_continue idS idC 95 = .ok true ∧
    is_valid_continue idS idC 0x200c = .ok true ∧ is_valid_continue idS idC 0x200d = .ok true ∧
    (∀ c : Char, c.toNat < 128 →
      is_valid_start idS idC c.toNat = .ok (c == '$' || c == '_' || isAsciiAlpha c)) ∧
    (∀ c : Char, c.toNat < 128 →
      is_valid_continue idS idC c.toNat = .ok (c == '$' || c == '_' || isAsciiAlpha c || isAsciiDigit c)) ∧
    (∀ c : Char, ¬ c.toNat < 128 → is_valid_start idS idC c.toNat = .ok (idS c.toNat)) ∧
    (∀ c : Char, ¬ c.toNat < 128 →
      is_valid_continue idS idC c.toNat = .ok (c == ZWNJ || c == ZWJ || idC c.toNat)) := by
  let P := predsOf idS idC fun _ => false
  have hs := tie_is_valid_start P idS idC (fun _ => rfl)
  have hc := tie_is_valid_continue P idS idC (fun _ => rfl)
  obtain ⟨h1, h2, h3, h4, h5, h6, h7, h8, h9, h10⟩ := C17.c17_identifier_chars P
  refine ⟨?_, ?_, ?_, ?_, ?_, ?_, ?_, ?_, ?_, ?_⟩
  · rw [← h1]; exact hs '$'
  · rw [← h2]; exact hs '_'
  · rw [← h3]; exact hc '$'
  · rw [← h4]; exact hc '_'
  · rw [← h5]; exact hc ZWNJ
  · rw [← h6]; exact hc ZWJ
  · intro c h; rw [hs c, h7 c (by simpa [isAscii] using h)]
  · intro c h; rw [hc c, h8 c (by simpa [isAscii] using h)]
  · intro c h; rw [hs c, h9 c (by simpa [isAscii] using h)]; rfl
  · intro c h; rw [hc c, h10 c (by simpa [isAscii] using h)]; rfl

/-- what `is_valid_javascript_identifier` decides: identifiers - and the empty string -/
theorem gen_is_valid_javascript_identifier (P : Preds) (idS idC : Nat → Bool)
    (hS : ∀ c : Char, idS c.toNat = P.idStart c) (hC : ∀ c : Char, idC c.toNat = P.idContinue c)
    (cs : List Char) (hlen : (enc cs).length < 2 ^ 63) :
    is_valid_javascript_identifier idS idC (enc cs) = .ok (cs.isEmpty || isIdentifier P cs) := by
  rw [tie_is_valid_javascript_identifier P idS idC hS hC cs hlen, isValidJsIdentifier_eq]

/-- the part of `c17_not_identifier_none` that is about this unit: the guard of
`get_original_function_name` rejects every non-empty name that is not an identifier, without failing
(the rest of that theorem is about `SourceMap::get_original_function_name`, not part of this unit) -/
theorem gen_c17_not_identifier_none (P : Preds) (idS idC : Nat → Bool)
    (hS : ∀ c : Char, idS c.toNat = P.idStart c) (hC : ∀ c : Char, idC c.toNat = P.idContinue c)
    (name : List Char) (hlen : (enc name).length < 2 ^ 63) (hne : name ≠ []) (hn : isIdentifier P name = false) :
    is_valid_javascript_identifier idS idC (enc name) = .ok false := by
  rw [gen_is_valid_javascript_identifier P idS idC hS hC name hlen, hn]
  cases name with
  | nil => exact absurd rfl hne
  | cons c cs => rfl

/-- `c17_identifier_text` on the generated `get_javascript_token`: an identifier at the start of the text is
read back whole, whatever it is made of, provided it is followed by the end, a blank, or a character that
cannot continue an identifier -/
theorem gen_c17_identifier_text (P : Preds) (idS idC : Nat → Bool)
    (hS : ∀ c : Char, idS c.toNat = P.idStart c) (hC : ∀ c : Char, idC c.toNat = P.idContinue c)
    (hW : ∀ c : Char, P.isWs c = rsIsWhitespaceCp c.toNat) (s post : List Char)
    (hlen : (enc (s ++ post)).length < 2 ^ 63) (hid : isIdentifier P s = true)
    (hws : ∀ c ∈ s, P.isWs c = false)
    (hpost : post = [] ∨ ∃ d r, post = d :: r ∧ (isValidContinue P d = false ∨ P.isWs d = true)) :
    get_javascript_token idS idC (enc (s ++ post)) = .ok (some (enc s)) := by
  have h := C17.c17_identifier_text P [s ++ post] 0 [] s post (by simp) hid hws hpost
  simp only [textAt, u16len, List.getElem?_cons_zero, suffixAt] at h
  rw [tie_get_javascript_token P idS idC hS hC hW _ hlen, getJavascriptToken_eq, h]
  rfl

/-! ### witnesses: the hypotheses are met by non-trivial values -/

/-- Unicode predicates of the examples: `é` and `𝒳` are letters -/
def exId (n : Nat) : Bool := n = 0xe9 || n = 0x1d4b3
def exP : Preds := predsOf exId exId rsIsWhitespaceCp

example : ∀ c : Char, exP.isWs c = rsIsWhitespaceCp c.toNat := fun _ => rfl
example : (enc "  é𝒳_1‍$+é".toList).length < 2 ^ 63 := by decide
-- multi-byte characters inside the identifier, a no-break space (2 bytes) before it
example : get_javascript_token exId exId (enc "  é𝒳_1‍$+é".toList) = .ok (some (enc "é𝒳_1‍$".toList)) := by
  rw [tie_get_javascript_token exP exId exId (fun _ => rfl) (fun _ => rfl) (fun _ => rfl) _ (by decide)]
  rfl
example : strip_identifier exId exId (enc "é𝒳x é".toList) = .ok (some [195, 169, 240, 157, 146, 179, 120]) := by
  rw [tie_strip_identifier exP exId exId (fun _ => rfl) (fun _ => rfl) _ (by decide)]
  rfl
example : is_valid_javascript_identifier exId exId (enc "é𝒳x é".toList) = .ok false := by
  rw [tie_is_valid_javascript_identifier exP exId exId (fun _ => rfl) (fun _ => rfl) _ (by decide)]
  rfl
example : isIdentifier exP "1a".toList = false := by decide
example : rsUtf8Valid [32, 195, 169, 240, 157, 146, 179, 120] = true := by decide
example : rsIsWhitespaceCp 0x3000 = true ∧ rsIsWhitespaceCp 0x200b = false := by decide

end SmVerif.Tie.JsIdent
#print axioms SmVerif.Tie.JsIdent.tie_is_valid_start
#print axioms SmVerif.Tie.JsIdent.tie_is_valid_continue
#print axioms SmVerif.Tie.JsIdent.tie_strip_identifier
#print axioms SmVerif.Tie.JsIdent.tie_is_valid_javascript_identifier
#print axioms SmVerif.Tie.JsIdent.tie_get_javascript_token
#print axioms SmVerif.Tie.JsIdent.str_is_enc
#print axioms SmVerif.Tie.JsIdent.tie_char_indices
#print axioms SmVerif.Tie.JsIdent.tie_str_slice_prefix
#print axioms SmVerif.Tie.JsIdent.tie_strip_identifier_str
#print axioms SmVerif.Tie.JsIdent.tie_is_valid_javascript_identifier_str
#print axioms SmVerif.Tie.JsIdent.tie_get_javascript_token_str
#print axioms SmVerif.Tie.JsIdent.js_identifiers_total
#print axioms SmVerif.Tie.JsIdent.gen_c17_identifier_chars
#print axioms SmVerif.Tie.JsIdent.gen_c17_not_identifier_none
#print axioms SmVerif.Tie.JsIdent.gen_c17_identifier_text
