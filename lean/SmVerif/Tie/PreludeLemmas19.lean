import SmVerif.Rs.Prelude
/-
General lemmas about the prelude operations used by the tie unit "GetLine" (`SourceView::get_line`,
sourceview.rs): `rsSlice` to the end / from the start of a list, `rsIndex` below the length, and the core
`List.findIdx?` facts the unit needs (`str::find`/`position` is translated to `List.findIdx?`).
Stand-alone (imports only the prelude); every name carries the suffix `19`, so the file can be imported
together with any other `PreludeLemmas*.lean`.
-/
namespace SmVerif.Tie
open SmVerif SmVerif.Rs

/-! ### `rsSlice` -/

/-- `&xs[i..]` written as `&xs[i..xs.len()]` -/
theorem rsSlice_to_end19 {α} (xs : List α) (i : Nat) (h : i ≤ xs.length) :
    rsSlice xs i xs.length = .ok (xs.drop i) := by
  have h2 : (i ≤ xs.length ∧ xs.length ≤ xs.length) := ⟨h, Nat.le_refl _⟩
  simp only [rsSlice, h2, and_self, ↓reduceIte]
  congr 1
  apply List.take_of_length_le
  simp only [List.length_drop, Nat.le_refl]

/-- `&xs[i..]` panics when `i` is beyond the end -/
theorem rsSlice_to_end_panic19 {α} (xs : List α) (i : Nat) (h : xs.length < i) :
    rsSlice xs i xs.length = .error .panic := by
  have h2 : ¬ (i ≤ xs.length ∧ xs.length ≤ xs.length) := by omega
  simp only [rsSlice, h2, ↓reduceIte]

/-- `&xs[..k]` -/
theorem rsSlice_zero19 {α} (xs : List α) (k : Nat) (h : k ≤ xs.length) :
    rsSlice xs 0 k = .ok (xs.take k) := by
  have h2 : (0 ≤ k ∧ k ≤ xs.length) := ⟨Nat.zero_le _, h⟩
  simp only [rsSlice, h2, and_self, ↓reduceIte, List.drop_zero, Nat.sub_zero]

/-! ### `rsIndex` -/

theorem rsIndex_of_lt19 {α} (xs : List α) (i : Nat) (h : i < xs.length) : rsIndex xs i = .ok xs[i] := by
  simp only [rsIndex, List.getElem?_eq_getElem h]

theorem rsIndex_of_getElem?19 {α} (xs : List α) (i : Nat) (v : α) (h : xs[i]? = some v) :
    rsIndex xs i = .ok v := by
  simp only [rsIndex, h]

/-! ### `List.findIdx?` (`Iterator::position`) -/

/-- a position found is inside the list -/
theorem findIdx?_lt19 {α} (p : α → Bool) (xs : List α) (i : Nat) (h : xs.findIdx? p = some i) :
    i < xs.length := by
  obtain ⟨hi, _⟩ := List.findIdx?_eq_some_iff_getElem.1 h
  exact hi

/-- `xs.getD i d` below the length -/
theorem getD_of_lt19 {α} (xs : List α) (i : Nat) (d : α) (h : i < xs.length) : xs.getD i d = xs[i] := by
  simp only [List.getD_eq_getElem?_getD, List.getElem?_eq_getElem h, Option.getD_some]

/-- `xs[i]? = some v` implies `i < xs.length` -/
theorem lt_of_getElem?_some19 {α} (xs : List α) (i : Nat) (v : α) (h : xs[i]? = some v) : i < xs.length :=
  (List.getElem?_eq_some_iff.1 h).1

end SmVerif.Tie
