import SmVerif.Rs.Prelude
/-
General lemmas about the operations of `SmVerif/Rs/Prelude.lean` needed by the HermesDecode tie unit:
`Result::ok()` (`rsOk`), the `nums.next()` / `nums.next().unwrap_or(0)` shape (`head?` / `tail` / `getD`),
the pieces of `str::split` (`rsSplitOn`), the `as u32` cast after an overflow-checked `i64` addition.
Core Lean only, model-free; names chosen not to clash with the other `PreludeLemmas*.lean`.
-/
namespace SmVerif.Rs
open SmVerif

/-! ### `Result::ok()` -/

theorem rsOk_of_ok {α} (v : α) : rsOk (.ok v : Res α) = .ok (some v) := rfl

theorem rsOk_of_panic {α} : rsOk (.error .panic : Res α) = .error .panic := rfl

theorem rsOk_of_diverge {α} : rsOk (.error .diverge : Res α) = .error .diverge := rfl

/-- every `Err(_)` value of the callee becomes `None` -/
theorem rsOk_of_err {α} {e : Err} (hp : e ≠ .panic) (hd : e ≠ .diverge) :
    rsOk (.error e : Res α) = .ok none := by
  cases e <;> first | rfl | exact absurd rfl hp | exact absurd rfl hd

/-- `rsOk` fails exactly when the callee panics or hangs, with the same outcome -/
theorem rsOk_eq_error {α} {r : Res α} {e : Err} (h : rsOk r = .error e) :
    r = .error e ∧ (e = .panic ∨ e = .diverge) := by
  cases r with
  | ok v => cases h
  | error e' =>
    by_cases hp : e' = .panic
    · subst hp
      rw [rsOk_of_panic] at h
      cases h
      exact ⟨rfl, Or.inl rfl⟩
    · by_cases hd : e' = .diverge
      · subst hd
        rw [rsOk_of_diverge] at h
        cases h
        exact ⟨rfl, Or.inr rfl⟩
      · rw [rsOk_of_err hp hd] at h
        cases h

/-- `rsOk` answers `None` exactly for the callee's own `Err` values -/
theorem rsOk_eq_none {α} {r : Res α} (h : rsOk r = .ok none) :
    ∃ e, r = .error e ∧ e ≠ .panic ∧ e ≠ .diverge := by
  cases r with
  | ok v => cases h
  | error e =>
    refine ⟨e, rfl, ?_, ?_⟩
    · intro hp; subst hp; rw [rsOk_of_panic] at h; cases h
    · intro hd; subst hd; rw [rsOk_of_diverge] at h; cases h

theorem rsOk_eq_some {α} {r : Res α} {v : α} (h : rsOk r = .ok (some v)) : r = .ok v := by
  cases r with
  | ok w => cases h; rfl
  | error e =>
    by_cases hp : e = .panic
    · subst hp; cases h
    · by_cases hd : e = .diverge
      · subst hd; cases h
      · rw [rsOk_of_err hp hd] at h; cases h

/-! ### `Except.map` on outcomes -/

theorem res_map_ok {α β} (f : α → β) (x : α) : (Except.ok x : Res α).map f = .ok (f x) := rfl

theorem res_map_error {α β} (f : α → β) (e : Err) : (Except.error e : Res α).map f = .error e := rfl

theorem res_map_eq_ok {α β} {f : α → β} {r : Res α} {y : β} (h : r.map f = .ok y) : ∃ x, r = .ok x ∧ f x = y := by
  cases r with
  | error e => cases h
  | ok x => cases h; exact ⟨x, rfl, rfl⟩

theorem res_map_eq_error {α β} {f : α → β} {r : Res α} {e : Err} (h : r.map f = .error e) : r = .error e := by
  cases r with
  | error e' => cases h; rfl
  | ok x => cases h

/-- an injective abstraction loses nothing: equal images, equal outcomes -/
theorem res_map_inj {α β} {f : α → β} (hf : ∀ a b, f a = f b → a = b) {r s : Res α} (h : r.map f = s.map f) :
    r = s := by
  cases r with
  | error e => cases s with
    | error e' => cases h; rfl
    | ok y => cases h
  | ok x => cases s with
    | error e' => cases h
    | ok y =>
      simp only [Except.map, Except.ok.injEq] at h
      rw [hf x y h]

/-! ### `it.next()`, `it.next().unwrap_or(d)` on a drained vector -/

/-- the first `next().unwrap_or(d)` -/
theorem head?_getD_eq_getD {α} (l : List α) (d : α) : l.head?.getD d = l.getD 0 d := by
  cases l <;> rfl

/-- positions in the vector after one `next()` -/
theorem tail_getD_eq_getD_succ {α} (l : List α) (i : Nat) (d : α) : l.tail.getD i d = l.getD (i + 1) d := by
  cases l with
  | nil => rfl
  | cons a t => rfl

/-- the second `next().unwrap_or(d)` -/
theorem tail_head?_getD_eq_getD {α} (l : List α) (d : α) : l.tail.head?.getD d = l.getD 1 d := by
  cases l with
  | nil => rfl
  | cons a t => cases t <;> rfl

/-- the third `next().unwrap_or(d)` -/
theorem tail_tail_head?_getD_eq_getD {α} (l : List α) (d : α) : l.tail.tail.head?.getD d = l.getD 2 d := by
  cases l with
  | nil => rfl
  | cons a t =>
    cases t with
    | nil => rfl
    | cons b u => cases u <;> rfl

/-! ### `str::split` -/

/-- the bytes of a piece of `split` are bytes of the string -/
theorem mem_of_mem_rsSplitOn (sep : Nat) : ∀ (s p : List Nat), p ∈ rsSplitOn sep s → ∀ c ∈ p, c ∈ s := by
  intro s
  induction s with
  | nil =>
    intro p hp c hc
    simp only [rsSplitOn, List.mem_singleton] at hp
    subst hp
    cases hc
  | cons x xs ih =>
    intro p hp c hc
    rw [rsSplitOn] at hp
    by_cases hx : x = sep
    · simp only [hx, ↓reduceIte, List.mem_cons] at hp
      rcases hp with rfl | hp
      · cases hc
      · exact List.mem_cons_of_mem _ (ih p hp c hc)
    · simp only [hx, ↓reduceIte] at hp
      cases hsp : rsSplitOn sep xs with
      | nil =>
        simp only [hsp, List.mem_singleton] at hp
        subst hp
        simp only [List.mem_singleton] at hc
        subst hc
        exact List.mem_cons_self
      | cons q qs =>
        simp only [hsp, List.mem_cons] at hp
        rcases hp with rfl | hp
        · simp only [List.mem_cons] at hc
          rcases hc with rfl | hc
          · exact List.mem_cons_self
          · exact List.mem_cons_of_mem _ (ih q (by rw [hsp]; exact List.mem_cons_self) c hc)
        · exact List.mem_cons_of_mem _ (ih p (by rw [hsp]; exact List.mem_cons_of_mem _ hp) c hc)

/-- `split` always yields at least one piece -/
theorem rsSplitOn_ne_nil (sep : Nat) (s : List Nat) : rsSplitOn sep s ≠ [] := by
  cases s with
  | nil => simp [rsSplitOn]
  | cons x xs =>
    rw [rsSplitOn]
    by_cases hx : x = sep
    · simp only [hx, ↓reduceIte]; exact List.cons_ne_nil _ _
    · simp only [hx, ↓reduceIte]
      cases rsSplitOn sep xs <;> exact List.cons_ne_nil _ _

/-- a string without the separator is its own single piece -/
theorem rsSplitOn_of_not_mem (sep : Nat) : ∀ s : List Nat, sep ∉ s → rsSplitOn sep s = [s] := by
  intro s
  induction s with
  | nil => intro _; rfl
  | cons x xs ih =>
    intro h
    have hx : x ≠ sep := fun e => h (by rw [e]; exact List.mem_cons_self)
    have hxs : sep ∉ xs := fun e => h (List.mem_cons_of_mem _ e)
    rw [rsSplitOn]
    simp only [hx, ↓reduceIte, ih hxs]

/-! ### `(i64::from(cur) + d) as u32` -/

/-- a `u32` running value is unchanged when the `i64` sum stays a `u32` -/
theorem toU32_add_of_lt {cur : Nat} {d : Int} (h0 : 0 ≤ (cur : Int) + d) (h1 : (cur : Int) + d < 4294967296) :
    toU 32 ((cur : Int) + d) = ((cur : Int) + d).toNat := by
  unfold toU
  have : (2 : Int) ^ 32 = 4294967296 := rfl
  rw [this, Int.emod_eq_of_lt h0 h1]

/-- the cast always lands in `u32` -/
theorem toU32_lt (x : Int) : toU 32 x < 4294967296 := by
  unfold toU
  have : (2 : Int) ^ 32 = 4294967296 := rfl
  rw [this]
  omega

end SmVerif.Rs
