import SmVerif.Tie.PreludeLemmas2
/-
General lemmas about the prelude operations used by the Reader tie unit: `rsReaderRead` (an inner `Read`
as the list of chunks it still has to deliver), `rsCopyInto` (`dst[a..b].copy_from_slice(src)`) and `rsSlice`
of a buffer whose front holds a known chunk.
-/
namespace SmVerif.Rs
open SmVerif

/-! ### `rsReaderRead` -/

@[simp] theorem rsReaderRead_nil (buf : List Nat) : rsReaderRead [] buf = (0, buf, []) := rfl

/-- empty chunks are skipped -/
@[simp] theorem rsReaderRead_cons_nil (cs : List (List Nat)) (buf : List Nat) :
    rsReaderRead ([] :: cs) buf = rsReaderRead cs buf := by
  simp only [rsReaderRead, ↓reduceIte]

/-- a non-empty chunk that fits the buffer is handed over whole -/
theorem rsReaderRead_cons_fit (c : List Nat) (cs : List (List Nat)) (buf : List Nat)
    (hc : c ≠ []) (hfit : c.length ≤ buf.length) :
    rsReaderRead (c :: cs) buf = (c.length, c ++ buf.drop c.length, cs) := by
  have hmin : min c.length buf.length = c.length := Nat.min_eq_left hfit
  simp only [rsReaderRead, hc, ↓reduceIte, hmin, Nat.lt_irrefl, List.take_length]

/-- the buffer keeps its length -/
theorem rsReaderRead_length (cs : List (List Nat)) (buf : List Nat) :
    (rsReaderRead cs buf).2.1.length = buf.length := by
  induction cs with
  | nil => rfl
  | cons c cs ih =>
    by_cases hc : c = []
    · subst hc; rw [rsReaderRead_cons_nil]; exact ih
    · simp only [rsReaderRead, hc, ↓reduceIte, List.length_append, List.length_take, List.length_drop]
      omega

/-- the number of bytes read is at most the buffer's length -/
theorem rsReaderRead_le (cs : List (List Nat)) (buf : List Nat) :
    (rsReaderRead cs buf).1 ≤ buf.length := by
  induction cs with
  | nil => exact Nat.zero_le _
  | cons c cs ih =>
    by_cases hc : c = []
    · subst hc; rw [rsReaderRead_cons_nil]; exact ih
    · simp only [rsReaderRead, hc, ↓reduceIte]
      exact Nat.min_le_right _ _

/-! ### `rsCopyInto` -/

/-- `dst[..n].copy_from_slice(src)` with `src.len() == n ≤ dst.len()` -/
theorem rsCopyInto_front {α} (dst src : List α) (n : Nat) (hn : src.length = n) (hfit : n ≤ dst.length) :
    rsCopyInto dst 0 n src = .ok (src ++ dst.drop n) := by
  simp only [rsCopyInto, Nat.zero_le, hfit, hn, Nat.sub_zero, and_self, ↓reduceIte, List.take_zero,
    List.nil_append]

theorem rsCopyInto_front_panic {α} (dst src : List α) (n : Nat) (h : dst.length < n) :
    rsCopyInto dst 0 n src = .error .panic := by
  have : ¬ n ≤ dst.length := by omega
  simp only [rsCopyInto, this, false_and, and_false, ↓reduceIte]

/-! ### `rsSlice` of a buffer whose front is known -/

/-- `&backing[off..n]` when `backing[..n]` is `c` -/
theorem rsSlice_of_take {α} (backing c : List α) (off : Nat) (hback : backing.take c.length = c)
    (hoff : off ≤ c.length) : rsSlice backing off c.length = .ok (c.drop off) := by
  have hlen : c.length ≤ backing.length := by
    have := congrArg List.length hback
    simp only [List.length_take] at this
    omega
  rw [rsSlice_of_le backing off c.length hoff hlen, ← List.drop_take, hback]

end SmVerif.Rs
