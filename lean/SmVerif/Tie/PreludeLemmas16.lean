import SmVerif.Rs.Prelude
/-
Prelude lemmas of tie unit 16 ("Index"): `Except.map` on `Res` values, outcome by outcome.  No clash with the other
`PreludeLemmas*` files (everything is in the namespace `SmVerif.Rs.L16`).

Note for later units: the re-wrapping `match r with | .error e => .error e | .ok t => .ok t` that the translator emits
for `Ok(x?)` / a tail call under `?` cannot be removed by a rewrite lemma (each generated function has its own matcher
constant, and stuck matcher applications are not unfolded by `isDefEq`); use `split <;> simp only [*]` on the goal.
-/
namespace SmVerif.Rs.L16
open SmVerif SmVerif.Rs

/-- `Except.map` and the three outcomes of a lookup -/
theorem map_ok {α β : Type} (f : α → β) (a : α) : (Except.ok a : Res α).map f = .ok (f a) := rfl
theorem map_error {α β : Type} (f : α → β) (e : Err) : (Except.error e : Res α).map f = .error e := rfl

/-- an outcome that is `.ok` after `map` was `.ok` before -/
theorem ok_of_map_ok {α β : Type} (f : α → β) (r : Res α) (b : β) (h : r.map f = .ok b) :
    ∃ a, r = .ok a ∧ f a = b := by
  cases r with
  | error e => cases h
  | ok a => simp only [Except.map, Except.ok.injEq] at h; exact ⟨a, rfl, h⟩

/-- an error after `map` is the same error before -/
theorem error_of_map_error {α β : Type} (f : α → β) (r : Res α) (e : Err) (h : r.map f = .error e) :
    r = .error e := by
  cases r with
  | error e' => simp only [Except.map, Except.error.injEq] at h; rw [h]
  | ok a => cases h

/-- `map` of a composition -/
theorem map_map {α β γ : Type} (f : α → β) (g : β → γ) (r : Res α) : (r.map f).map g = r.map (g ∘ f) := by
  cases r <;> rfl

#print axioms ok_of_map_ok
#print axioms error_of_map_error
#print axioms map_map

end SmVerif.Rs.L16
