import SmVerif.Rs.Prelude
/-
General lemmas about the operations of `SmVerif/Rs/Prelude.lean` needed by the Lookup tie unit:
`rsRange`, `ltPair`, `bsLoop` / `binarySearchBy` (the mirror of std's `binary_search_by`).
Kept apart from `PreludeLemmas.lean` / `PreludeLemmas2.lean` (written by other units; the names here do not
clash with either of them, so that this file can be imported together with one of them).  Core Lean only.
-/
namespace SmVerif.Rs
open SmVerif

/-! ### `rsRange` -/

/-- `(0..n)` -/
theorem rsRange_zero (n : Nat) : rsRange 0 n = List.range n := by
  simp only [rsRange, Nat.sub_zero, Nat.add_zero, List.map_id']

/-- `(0..n+1).rev()` starts at `n` -/
theorem rsRange_zero_succ_reverse (n : Nat) :
    (rsRange 0 (n + 1)).reverse = n :: (rsRange 0 n).reverse := by
  rw [rsRange_zero, rsRange_zero, List.range_succ, List.reverse_append]
  rfl

theorem rsRange_zero_zero_reverse : (rsRange 0 0).reverse = [] := rfl

/-! ### `ltPair`: the strict lexicographic order of `(u32, u32)` -/

theorem ltPair_iff (a b : Nat × Nat) :
    ltPair a b = true ↔ (a.1 < b.1 ∨ (a.1 = b.1 ∧ a.2 < b.2)) := by
  simp only [ltPair, decide_eq_true_eq]

theorem ltPair_eq_false_iff (a b : Nat × Nat) :
    ltPair a b = false ↔ ¬ (a.1 < b.1 ∨ (a.1 = b.1 ∧ a.2 < b.2)) := by
  simp only [ltPair, decide_eq_false_iff_not]

theorem ltPair_irrefl (a : Nat × Nat) : ltPair a a = false := by
  rw [ltPair_eq_false_iff]; omega

theorem ltPair_asymm (a b : Nat × Nat) (h : ltPair a b = true) : ltPair b a = false := by
  rw [ltPair_iff] at h
  rw [ltPair_eq_false_iff]; omega

theorem ltPair_trans (a b c : Nat × Nat) (h1 : ltPair a b = true) (h2 : ltPair b c = true) :
    ltPair a c = true := by
  rw [ltPair_iff] at *; omega

/-- `cmp == Equal` (neither `Less` nor `Greater`) is equality of the pairs: the order is total -/
theorem ltPair_equal_iff (a b : Nat × Nat) : (!ltPair a b && !ltPair b a) = true ↔ a = b := by
  obtain ⟨a1, a2⟩ := a
  obtain ⟨b1, b2⟩ := b
  simp only [ltPair, Bool.and_eq_true, Bool.not_eq_true', decide_eq_false_iff_not, Prod.mk.injEq]
  omega

/-! ### `bsLoop` / `binarySearchBy` -/

/-- one step of the loop, with the new `base` named -/
theorem bsLoop_succ {κ} (lt : κ → κ → Bool) (keys : List κ) (key : κ) (fuel size base : Nat) :
    bsLoop lt keys key (fuel + 1) size base =
      if size ≤ 1 then base
      else bsLoop lt keys key fuel (size - size / 2)
        (match keys[base + size / 2]? with
          | some k => if lt key k then base else base + size / 2
          | none => base) := rfl

/-- the probe moves `base` to itself or to `mid` -/
theorem bsLoop_step_cases {κ} (lt : κ → κ → Bool) (keys : List κ) (key : κ) (base mid : Nat) :
    (match keys[mid]? with
      | some k => if lt key k then base else mid
      | none => base) = base ∨
    (match keys[mid]? with
      | some k => if lt key k then base else mid
      | none => base) = mid := by
  cases keys[mid]? with
  | none => exact Or.inl rfl
  | some k =>
    cases h : lt key k with
    | true => left; simp only [h, ↓reduceIte]
    | false => right; simp only [h, Bool.false_eq_true, ↓reduceIte]

/-- the loop stays inside the window `[base, base + size)` it was given, whatever the fuel -/
theorem bsLoop_bounds {κ} (lt : κ → κ → Bool) (keys : List κ) (key : κ) :
    ∀ fuel size base, 1 ≤ size →
      base ≤ bsLoop lt keys key fuel size base ∧ bsLoop lt keys key fuel size base < base + size := by
  intro fuel
  induction fuel with
  | zero => intro size base h; simp only [bsLoop]; omega
  | succ fuel ih =>
    intro size base h
    rw [bsLoop_succ]
    by_cases hs : size ≤ 1
    · simp only [hs, ↓reduceIte]; omega
    · simp only [hs, ↓reduceIte]
      have hd : size / 2 < size := Nat.div_lt_self (by omega) (by omega)
      have hd1 : 1 ≤ size / 2 := by omega
      rcases bsLoop_step_cases lt keys key base (base + size / 2) with h' | h'
      · rw [h']
        have := ih (size - size / 2) base (by omega)
        omega
      · rw [h']
        have := ih (size - size / 2) (base + size / 2) (by omega)
        omega

/-- `fuel = size` is enough (the window at least halves): more fuel does not change the result -/
theorem bsLoop_fuel {κ} (lt : κ → κ → Bool) (keys : List κ) (key : κ) :
    ∀ fuel1 fuel2 size base, size ≤ fuel1 → size ≤ fuel2 →
      bsLoop lt keys key fuel1 size base = bsLoop lt keys key fuel2 size base := by
  intro fuel1
  induction fuel1 with
  | zero =>
    intro fuel2 size base h1 _
    have : size = 0 := by omega
    subst this
    cases fuel2 with
    | zero => rfl
    | succ f => rw [bsLoop_succ]; simp only [Nat.zero_le, ↓reduceIte, bsLoop]
  | succ fuel1 ih =>
    intro fuel2 size base h1 h2
    cases fuel2 with
    | zero =>
      have : size = 0 := by omega
      subst this
      rw [bsLoop_succ]; simp only [Nat.zero_le, ↓reduceIte, bsLoop]
    | succ fuel2 =>
      rw [bsLoop_succ, bsLoop_succ]
      by_cases hs : size ≤ 1
      · simp only [hs, ↓reduceIte]
      · simp only [hs, ↓reduceIte]
        have hd1 : 1 ≤ size / 2 := by omega
        exact ih fuel2 _ _ (by omega) (by omega)

/-- `Ok(i)`: `i` is an index of the slice -/
theorem binarySearchBy_ok_lt {κ} (lt : κ → κ → Bool) (keys : List κ) (key : κ) (i : Nat)
    (h : binarySearchBy lt keys key = .ok i) : i < keys.length := by
  unfold binarySearchBy at h
  by_cases h0 : keys.length = 0
  · simp only [h0, ↓reduceIte, reduceCtorEq] at h
  · simp only [h0, ↓reduceIte] at h
    have hb := (bsLoop_bounds lt keys key keys.length keys.length 0 (by omega)).2
    split at h
    · simp only [reduceCtorEq] at h
    · split at h
      · simp only [Except.ok.injEq] at h; omega
      · split at h <;> simp only [reduceCtorEq] at h

/-- `Err(i)`: `i` is an insertion point, at most the length -/
theorem binarySearchBy_error_le {κ} (lt : κ → κ → Bool) (keys : List κ) (key : κ) (i : Nat)
    (h : binarySearchBy lt keys key = .error i) : i ≤ keys.length := by
  unfold binarySearchBy at h
  by_cases h0 : keys.length = 0
  · simp only [h0, ↓reduceIte, Except.error.injEq] at h; omega
  · simp only [h0, ↓reduceIte] at h
    have hb := (bsLoop_bounds lt keys key keys.length keys.length 0 (by omega)).2
    split at h
    · simp only [Except.error.injEq] at h; omega
    · split at h
      · simp only [reduceCtorEq] at h
      · split at h <;> simp only [Except.error.injEq] at h <;> omega

example : binarySearchBy ltPair [(0, 0), (0, 5), (2, 1)] (0, 5) = .ok 1 := rfl
example : binarySearchBy ltPair [(0, 0), (0, 5), (2, 1)] (1, 7) = .error 2 := rfl

end SmVerif.Rs
