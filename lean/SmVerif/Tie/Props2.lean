import SmVerif.Tie.Header
import SmVerif.Props.C12
/-
Property theorems composed with tie theorems, header side: C12 stated directly about the generated
`strip_junk_header` / `is_junk_json` (`SmVerif/Generated/RsDecoder.lean`).  Companion of `Tie/Props.lean`
(separate file: `Tie/PreludeLemmas.lean` and `Tie/PreludeLemmas2.lean` cannot be imported together).
The C19 compositions are at the end of `Tie/Paths.lean` (`tie_c19_resolves`, `tie_c19_dot_iff`).
-/
namespace SmVerif.Tie.Props
open SmVerif SmVerif.Rs SmVerif.Header

/-- **C12, header rule, slice path, generated code.**  A header is skipped iff the generated `is_junk_json`
accepts the first byte: with a non-junk first byte `strip_junk_header` passes the input through untouched, with
a junk first byte it drops the first line (keeping the `\n`), refuses a `\r` followed by another byte, and
leaves nothing when the input ends inside the header. -/
theorem gen_c12_header_rule_slice (b : Nat) (rest : List Nat) :
    (Gen.RsDecoder.is_junk_json b = .ok false →
      Gen.RsDecoder.strip_junk_header (b :: rest) = .ok (b :: rest)) ∧
    (Gen.RsDecoder.is_junk_json b = .ok true →
      Gen.RsDecoder.strip_junk_header (b :: rest) = Spec.afterFirstLine true rest) := by
  obtain ⟨h0, h1⟩ := C12.c12_header_rule b rest [b :: rest]
    (by intro c hc; simp only [List.mem_singleton] at hc; subst hc; exact List.cons_ne_nil _ _)
    (by simp only [List.flatten_cons, List.flatten_nil, List.append_nil])
  rw [tie_is_junk_json, tie_strip_junk_header]
  constructor
  · intro hj
    exact (h0 (Except.ok.inj hj)).2
  · intro hj
    exact (h1 (Except.ok.inj hj)).2

-- `]x\n7` (junk start) and `x]\n7` (not)
example : Gen.RsDecoder.is_junk_json 93 = .ok true ∧ Gen.RsDecoder.is_junk_json 120 = .ok false := ⟨rfl, rfl⟩
example : Gen.RsDecoder.strip_junk_header [120, 93, 10, 55] = .ok [120, 93, 10, 55] :=
  (gen_c12_header_rule_slice 120 [93, 10, 55]).1 rfl

/-- the empty input is passed through as well -/
theorem gen_c12_header_rule_empty : Gen.RsDecoder.strip_junk_header [] = .ok [] := by
  rw [tie_strip_junk_header]; rfl

/-- **C12, reader against slice, generated slice path.**  For every chunking (non-empty reads), the reader path
of the model and the generated `strip_junk_header` on the concatenated input hand the parser the same document
- up to the one leading `\n` the slice path keeps - and refuse exactly the same inputs. -/
theorem gen_c12_reader_eq_slice (chunks : List (List Nat)) (hne : ∀ c ∈ chunks, c ≠ []) :
    C12.AgreeWs (readerOutput chunks) (Gen.RsDecoder.strip_junk_header chunks.flatten) := by
  rw [tie_strip_junk_header]
  exact C12.c12_reader_eq_slice chunks hne

/-- errors on exactly the same inputs -/
theorem gen_c12_errors_coincide (chunks : List (List Nat)) (hne : ∀ c ∈ chunks, c ≠ []) :
    (∃ e, readerOutput chunks = .error e) ↔ (∃ e, Gen.RsDecoder.strip_junk_header chunks.flatten = .error e) := by
  rw [tie_strip_junk_header]
  exact C12.c12_errors_coincide chunks hne

example : ∀ c ∈ [[41, 93, 125, 39, 13], [10, 123], [125]], c ≠ ([] : List Nat) := by decide

/-! ### axioms -/
#print axioms gen_c12_header_rule_slice
#print axioms gen_c12_header_rule_empty
#print axioms gen_c12_reader_eq_slice
#print axioms gen_c12_errors_coincide

end SmVerif.Tie.Props
