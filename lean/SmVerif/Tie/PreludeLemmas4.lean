import SmVerif.Rs.Prelude
/-
General lemmas about the operations of `SmVerif/Rs/Prelude.lean` needed by the Decode tie unit
(`rsResize`, `rsStoreLe`, `rsZipPad`, `toU 32`, `wrapS 64` of a length, the `Option.map`/`getD` shape of
`bits.get(i).map(|v| *v).unwrap_or_default()`).  Core Lean only; names chosen not to clash with
`PreludeLemmas.lean` / `PreludeLemmas2.lean`.
-/
namespace SmVerif.Rs
open SmVerif

/-! ### `as u32`, `as i64` -/

/-- `x as u32` on an `i64`: the prelude's `toU 32` is the model's `wrapU32` -/
theorem toU32_eq_wrapU32 (x : Int) : toU 32 x = wrapU32 x := rfl

theorem wrapU32_lt_two_pow (x : Int) : wrapU32 x < 4294967296 := by
  unfold wrapU32; omega

/-- a value that already is a `u32` is unchanged by `as u32` -/
theorem wrapU32_of_lt {x : Int} (h0 : 0 ≤ x) (h1 : x < 4294967296) : wrapU32 x = x.toNat := by
  unfold wrapU32
  rw [Int.emod_eq_of_lt h0 h1]

/-- `n as i64` for a `usize` below `2^63` -/
theorem wrapS64_natCast (n : Nat) (h : n < 2 ^ 63) : wrapS 64 (n : Int) = (n : Int) := by
  have h63 : (2 : Nat) ^ 63 = 9223372036854775808 := rfl
  have : wrapS 64 (n : Int) = ((n : Int) + 9223372036854775808) % 18446744073709551616 - 9223372036854775808 := rfl
  rw [this]
  omega

/-! ### `rsResize` -/

theorem rsResize_nil {α} (n : Nat) (x : α) : rsResize ([] : List α) n x = List.replicate n x := by
  unfold rsResize
  cases n with
  | zero => rfl
  | succ n => simp

theorem rsResize_length {α} (xs : List α) (n : Nat) (x : α) : (rsResize xs n x).length = n := by
  unfold rsResize
  split
  · simp only [List.length_take]; omega
  · simp only [List.length_append, List.length_replicate]; omega

/-! ### `rsStoreLe` -/

/-- the six bits that `store_le` writes for a sextet, least significant first -/
theorem range6_testBit (v : Nat) :
    (List.range 6).map (fun i => v.testBit i)
      = [decide (v % 2 = 1), decide (v / 2 % 2 = 1), decide (v / 4 % 2 = 1), decide (v / 8 % 2 = 1),
         decide (v / 16 % 2 = 1), decide (v / 32 % 2 = 1)] := by
  have : (List.range 6).map (fun i => v.testBit i)
      = [v.testBit 0, v.testBit 1, v.testBit 2, v.testBit 3, v.testBit 4, v.testBit 5] := rfl
  rw [this]
  simp only [Nat.testBit_eq_decide_div_mod_eq]
  have h0 : v / 2 ^ 0 = v := by simp
  have h1 : (2 : Nat) ^ 1 = 2 := rfl
  have h2 : (2 : Nat) ^ 2 = 4 := rfl
  have h3 : (2 : Nat) ^ 3 = 8 := rfl
  have h4 : (2 : Nat) ^ 4 = 16 := rfl
  have h5 : (2 : Nat) ^ 5 = 32 := rfl
  rw [h0, h1, h2, h3, h4, h5]

/-- storing into the `n`-th group of six bits of a buffer that is long enough: the groups before are
kept, the six bits are replaced, the rest is kept -/
theorem rsStoreLe_group6 (pre rest : List Bool) (n v : Nat) (hpre : pre.length = 6 * n)
    (hrest : 6 ≤ rest.length) :
    rsStoreLe (pre ++ rest) (6 * n) (6 * (n + 1)) v
      = .ok (pre ++ (List.range 6).map (fun i => v.testBit i) ++ rest.drop 6) := by
  unfold rsStoreLe
  have hc : 6 * n < 6 * (n + 1) ∧ 6 * (n + 1) ≤ (pre ++ rest).length ∧ 6 * (n + 1) - 6 * n ≤ 8 := by
    simp only [List.length_append]; omega
  simp only [hc, and_self, ↓reduceIte]
  have h6 : 6 * (n + 1) - 6 * n = 6 := by omega
  rw [h6, List.take_left' hpre, List.drop_append]
  have hd : List.drop (6 * (n + 1)) pre = [] := List.drop_eq_nil_of_le (by omega)
  have h6' : 6 * (n + 1) - pre.length = 6 := by omega
  rw [hd, h6', List.nil_append]

/-! ### `rsZipPad` -/

/-- one step of `xs.zip(ys.chain(repeat(pad)))`, in the `headD` / `tail` form that the model uses -/
theorem rsZipPad_cons {α β} (x : α) (xs : List α) (ys : List β) (pad : β) :
    rsZipPad (x :: xs) ys pad = (x, ys.headD pad) :: rsZipPad xs ys.tail pad := by
  cases ys <;> rfl

theorem rsZipPad_length {α β} (xs : List α) : ∀ (ys : List β) (pad : β), (rsZipPad xs ys pad).length = xs.length := by
  induction xs with
  | nil => intro ys pad; rfl
  | cons x xs ih => intro ys pad; rw [rsZipPad_cons, List.length_cons, ih, List.length_cons]

/-! ### `bits.get(i).map(|v| *v).unwrap_or_default()` -/

theorem getElem?_map_id_getD (bits : List Bool) (i : Nat) :
    ((bits[i]?).map (fun v_ => (let v := v_
      v))).getD default = bits.getD i false := by
  rw [List.getD_eq_getElem?_getD]
  cases bits[i]? <;> rfl

example : rsStoreLe (List.replicate 12 false) 6 12 37 =
    .ok [false, false, false, false, false, false, true, false, true, false, false, true] := by
  have := rsStoreLe_group6 (List.replicate 6 false) (List.replicate 6 false) 1 37 rfl (by decide)
  exact this
example : rsZipPad [1, 2, 3] [10] 0 = [(1, 10), (2, 0), (3, 0)] := rfl

end SmVerif.Rs
