import SmVerif.Generated.Consts
import SmVerif.Model.SourceMap
/-
Document level of the Source Map format (C01, C02, C03): the serde record `RawSourceMap`
(jsontypes.rs) as an abstract value, the decoders that consume it (decoder.rs `decode_common`,
`decode_regular`, `decode_index`; hermes.rs `decode_hermes` as far as the document is concerned)
and the encoders that produce it (encoder.rs `as_raw_sourcemap` for `SourceMap`, `SourceMapIndex`,
`SourceMapHermes`, `DecodedMap`).

JSON text ↔ `RawSourceMap` is serde / serde_json (trusted); the model starts at the record.
Which keys serde writes for a record is driven by the regenerated table `Consts.serdeFields`.
-/
namespace SmVerif.Raw
open SmVerif

/-- a `serde_json::Value` as far as the decoder tells values apart -/
inductive JVal where
  | str (s : Bytes)
  | num (text : Bytes)     -- `Value::Number(n)`, carried as `n.to_string()`
  | other                  -- bool, array, object, (inside an array) null
  deriving DecidableEq, Repr, Inhabited

/-- one metadata entry of `x_facebook_sources` (`FacebookScopeMapping`): names, mappings -/
structure FbMeta where
  names : List Bytes
  mappings : Bytes
  deriving DecidableEq, Repr, Inhabited
/-- `FacebookSources` without its outer `Option`: per source `null` or a list of metadata entries.
The payload is kept verbatim by the code; the parsed function maps are C14's. -/
abbrev FbSources := List (Option (List FbMeta))

/-- the non-recursive fields of `RawSourceMap` -/
structure RawFlat where
  version : Option Nat := none
  file : Option JVal := none
  sources : Option (List (Option Bytes)) := none
  sourceRoot : Option Bytes := none
  sourcesContent : Option (List (Option Bytes)) := none
  names : Option (List JVal) := none
  rangeMappings : Option Bytes := none
  mappings : Option Bytes := none
  ignoreList : Option (List Nat) := none
  fbOffsets : Option (List (Option Nat)) := none      -- x_facebook_offsets
  metroPaths : Option (List Bytes) := none            -- x_metro_module_paths
  fbSources : Option FbSources := none                -- x_facebook_sources
  debugId : Option Bytes := none                      -- key `debug_id`
  debugIdNew : Option Bytes := none                   -- key `debugId`
  deriving DecidableEq, Repr, Inhabited

mutual
/-- `RawSourceMap`: `plain` has `sections: None`, `indexed` has `sections: Some(..)` -/
inductive RawDoc where
  | plain (f : RawFlat)
  | indexed (f : RawFlat) (secs : RawSecs)
/-- `Vec<RawSection>` -/
inductive RawSecs where
  | nil
  | cons (line col : Nat) (url : Option Bytes) (map : RawOpt) (rest : RawSecs)
/-- `Option<Box<RawSourceMap>>` -/
inductive RawOpt where
  | none
  | some (d : RawDoc)
end

mutual
/-- `DecodedMap` -/
inductive DMap where
  | regular (m : SMap)
  | index (file : Option Bytes) (secs : DSecs) (fbOffsets : Option (List (Option Nat)))
      (metroPaths : Option (List Bytes))
  /-- `SourceMapHermes`: the map and `raw_facebook_sources` (function maps: C14) -/
  | hermes (m : SMap) (raw : FbSources)
/-- `Vec<SourceMapSection>` -/
inductive DSecs where
  | nil
  | cons (line col : Nat) (url : Option Bytes) (map : DOpt) (rest : DSecs)
inductive DOpt where
  | none
  | some (m : DMap)
end

def RawDoc.flat : RawDoc → RawFlat
  | .plain f => f
  | .indexed f _ => f

def RawDoc.hasSections : RawDoc → Bool
  | .plain _ => false
  | .indexed _ _ => true

/-! ### decoding -/

/-- names: `Value::String(s) => s`, `Value::Number(n) => n.to_string()`, `_ => ""` -/
def lenientName : JVal → Bytes
  | .str s => s
  | .num t => t
  | .other => []

/-- file: `Value::String(s) => s`, `_ => "<invalid>"`; `which` = 0 regular, 1 index -/
def lenientFile (which : Nat) : JVal → Bytes
  | .str s => s
  | _ => Consts.invalidFile.getD which []

/-- `a.or(b)` -/
def optOr {α} (a b : Option α) : Option α :=
  match a with
  | some x => some x
  | none => b

/-- `decode_regular` -/
def decodeRegular (f : RawFlat) : Res SMap :=
  let names := f.names.getD []
  let sources := f.sources.getD []
  match Mappings.decodeMappings (f.mappings.getD []) (f.rangeMappings.getD []) sources.length names.length with
  | .error e => .error e
  | .ok toks =>
    let m := SMap.new (f.file.map (lenientFile 0)) toks (names.map lenientName)
      (sources.map fun s => s.getD []) f.sourcesContent
    let m := m.setSourceRoot f.sourceRoot
    let m := { m with debugId := optOr f.debugId f.debugIdNew }
    .ok ((f.ignoreList.getD []).foldl SMap.addToIgnoreList m)

/-- `decode_hermes` as far as the document goes -/
def decodeHermes (f : RawFlat) : Res DMap :=
  match f.fbSources with
  | none => .error .incompatible
  | some raw => match decodeRegular f with
    | .error e => .error e
    | .ok m => .ok (.hermes m raw)

def offLe (a b : Nat × Nat) : Bool := a.1 < b.1 || (a.1 = b.1 && a.2 ≤ b.2)

/-- insert a section in front of the first one whose offset is not smaller -/
def insertSec (line col : Nat) (url : Option Bytes) (map : DOpt) : DSecs → DSecs
  | .nil => .cons line col url map .nil
  | .cons l c u m rest =>
    if offLe (line, col) (l, c) then .cons line col url map (.cons l c u m rest)
    else .cons l c u m (insertSec line col url map rest)

/-- `sections.sort_by_key(get_offset)`: a stable sort -/
def sortSecs : DSecs → DSecs
  | .nil => .nil
  | .cons l c u m rest => insertSec l c u m (sortSecs rest)

mutual
/-- `decode_common`: the three tests in the order the code makes them -/
def decodeCommon : RawDoc → Res DMap
  | .indexed f secs =>
    -- `decode_index`
    match decodeSecs secs with
    | .error e => .error e
    | .ok ds => .ok (.index (f.file.map (lenientFile 1)) (sortSecs ds) f.fbOffsets f.metroPaths)
  | .plain f =>
    if f.fbSources.isSome then decodeHermes f
    else match decodeRegular f with
      | .error e => .error e
      | .ok m => .ok (.regular m)
def decodeSecs : RawSecs → Res DSecs
  | .nil => .ok .nil
  | .cons l c u m rest =>
    match decodeOpt m with
    | .error e => .error e
    | .ok dm => match decodeSecs rest with
      | .error e => .error e
      | .ok ds => .ok (.cons l c u dm ds)
def decodeOpt : RawOpt → Res DOpt
  | .none => .ok .none
  | .some d => match decodeCommon d with
    | .error e => .error e
    | .ok m => .ok (.some m)
end

/-! ### encoding -/

/-- `as_raw_sourcemap` for `SourceMap` -/
def asRawRegular (m : SMap) : Res RawFlat :=
  let contents := m.sourceContents
  let have_ := contents.any Option.isSome
  match Mappings.serializeRangeMappings m.tokens with
  | .error e => .error e
  | .ok rm => match Mappings.serializeMappings m.tokens m.names.length with
    | .error e => .error e
    | .ok mp => .ok {
        version := some (Consts.encoderVersions.getD 0 0)
        file := m.file.map JVal.str
        sources := some (m.sources.map some)
        sourceRoot := m.root
        sourcesContent := if have_ then some contents else none
        names := some (m.names.map JVal.str)
        rangeMappings := rm
        mappings := some mp
        ignoreList := if m.ignore.isEmpty then none else some m.ignore
        debugId := m.debugId }

/-- the fields `as_raw_sourcemap` for `SourceMapIndex` fills besides `sections` -/
def indexFlat (file : Option Bytes) : RawFlat :=
  { version := some (Consts.encoderVersions.getD 1 0), file := file.map JVal.str }

mutual
/-- `as_raw_sourcemap` for `DecodedMap` -/
def asRaw : DMap → Res RawDoc
  | .regular m => match asRawRegular m with
    | .error e => .error e
    | .ok f => .ok (.plain f)
  | .hermes m raw => match asRawRegular m with
    | .error e => .error e
    | .ok f => .ok (.plain { f with fbSources := some raw })
  | .index file secs _ _ => match asRawSecs secs with
    | .error e => .error e
    | .ok rs => .ok (.indexed (indexFlat file) rs)
def asRawSecs : DSecs → Res RawSecs
  | .nil => .ok .nil
  | .cons l c u m rest =>
    match asRawOpt m with
    | .error e => .error e
    | .ok rm => match asRawSecs rest with
      | .error e => .error e
      | .ok rs => .ok (.cons l c u rm rs)
def asRawOpt : DOpt → Res RawOpt
  | .none => .ok .none
  | .some m => match asRaw m with
    | .error e => .error e
    | .ok d => .ok (.some d)
end

/-! ### which keys serde writes -/

/-- is the field (by its Rust name) `Some`? -/
def fieldSome (d : RawDoc) (field : String) : Bool :=
  let f := d.flat
  if field = "version" then f.version.isSome
  else if field = "file" then f.file.isSome
  else if field = "sources" then f.sources.isSome
  else if field = "source_root" then f.sourceRoot.isSome
  else if field = "sources_content" then f.sourcesContent.isSome
  else if field = "sections" then d.hasSections
  else if field = "names" then f.names.isSome
  else if field = "range_mappings" then f.rangeMappings.isSome
  else if field = "mappings" then f.mappings.isSome
  else if field = "ignore_list" then f.ignoreList.isSome
  else if field = "x_facebook_offsets" then f.fbOffsets.isSome
  else if field = "x_metro_module_paths" then f.metroPaths.isSome
  else if field = "x_facebook_sources" then f.fbSources.isSome
  else if field = "debug_id" then f.debugId.isSome
  else if field = "_debug_id_new" then f.debugIdNew.isSome
  else false

/-- the keys of the JSON object serde writes for a record, in order, each with `true` when it
carries a value and `false` when it is written as `null`: a `None` field is left out exactly when
it is marked `skip_serializing_if = "Option::is_none"` in jsontypes.rs -/
def emittedOf (table : List (String × List Nat × Bool)) (isSome : String → Bool) : List (Bytes × Bool) :=
  table.filterMap fun (field, key, skip) =>
    if isSome field then some (key, true)
    else if skip then none
    else some (key, false)

def emitted (d : RawDoc) : List (Bytes × Bool) := emittedOf Consts.serdeFields (fieldSome d)

def emittedKeys (d : RawDoc) : List Bytes := (emitted d).map (·.1)

/-- the keys of one entry of `sections` (`RawSection`): `offset` always has a value -/
def sectionEmitted (url : Option Bytes) (map : RawOpt) : List (Bytes × Bool) :=
  emittedOf Consts.serdeSectionFields fun field =>
    if field = "offset" then true
    else if field = "url" then url.isSome
    else if field = "map" then (match map with | .none => false | .some _ => true)
    else false

end SmVerif.Raw
