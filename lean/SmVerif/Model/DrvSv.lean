import SmVerif.Model.Proto
import SmVerif.Model.SourceViewSlice
/- driver family `sv.` (C15) -/
namespace SmVerif.DrvSv
open SmVerif SmVerif.Proto SmVerif.SV

def parseReq (s : String) : Option Req :=
  match s.toList with
  | 'g' :: r => some (.get (parseNat (String.ofList r)))
  | ['c'] => some .count
  | ['a'] => some .all
  | 's' :: r =>
    match (String.ofList r).splitOn ":" with
    | [l, c, n] => some (.slice (parseNat l) (parseNat c) (parseNat n))
    | _ => none
  | _ => none

def showLine : Option (List Nat) → String
  | none => "-"
  | some l => "l" ++ (if l.isEmpty then "" else toHex l)

def showAns : Ans → String
  | .line l => showLine l
  | .count n => toString n
  | .all ls => "[" ++ "/".intercalate (ls.map fun l => showLine (some l)) ++ "]"

def handleSv (toks : List String) : String :=
  match toks with
  | [op, hx, rs] =>
    if op ≠ "sv.seq" ∧ op ≠ "sv.corr" then "bad-op\t-\t0" else
    let src := parseHex hx
    match (splitList rs).mapM parseReq with
    | none => "bad-op\t-\t0"
    | some reqs =>
      let model := match runReqs src {} reqs with
        | .ok (as, _) => "ok " ++ showList showAns as
        | .error e => "err " ++ e.toString
      if op = "sv.corr" then s!"{model}\t-\t1" else
      let spec := "ok " ++ showList showAns (reqs.map (specAns src))
      -- a slice column strictly inside a surrogate pair stays inside the property: the specification includes the
      -- cut pair ("whole surrogate pairs included"), the code starts after it - open finding F22, recognised by
      -- its failure class in tools/gen/c15.py; everything else about such a case is judged normally
      let wf := if !validUtf8 src then "0" else "1"
      s!"{model}\t{spec}\t{wf}"
  | _ => "bad-op\t-\t0"

end SmVerif.DrvSv
