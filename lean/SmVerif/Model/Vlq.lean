import SmVerif.Generated.Consts
import SmVerif.Model.Basic
/-
Model of src/vlq.rs: `parse_vlq_segment_into`, `encode_vlq`, `generate_vlq_segment`,
plus an independent reading of the VLQ standard (`specVlq`).
Bytes are `Nat`s; base64 digits are `Nat < 64`.
-/
namespace SmVerif.Vlq
open SmVerif

/-- `B64[c]` as the code uses it after the `enc < 0` test: the digit, or `none`. -/
def b64Rev (c : Nat) : Option Nat :=
  match Consts.b64Table[c]? with
  | some v => if v < 0 then none else some v.toNat
  | none => none

/-- `B64_CHARS[d]` -/
def b64Char (d : Nat) : Nat := Consts.b64Chars.getD d 0

def zig (x : Int) : Nat := if x < 0 then 2 * x.natAbs + 1 else 2 * x.natAbs
def unzig (n : Nat) : Int := if n % 2 = 1 then -((n / 2 : Nat) : Int) else ((n / 2 : Nat) : Int)

/-- what `cur & 1; cur >>= 1; if sign {cur = -cur}` computes on an `i64` accumulator
(`%`/`/` on `Int` are Euclidean/floor here, i.e. two's complement `&1` and `>>1`) -/
def finish (cur : Int) : Int := if cur % 2 ≠ 0 then -(cur / 2) else cur / 2

/-- The accumulator loop over base64 *digits* (`Nat < 64`):
`cur` accumulator (i64 value), `k` number of digits consumed for the current value
(`shift = 5k`), `acc` reversed output.  `checked_shl` fails for `shift ≥ 64`, i.e. `k ≥ 13`;
the shifted digit is truncated to 64 bits exactly as `<<` does; the `+=` would panic on
i64 overflow (with overflow checks). -/
def decLoop : List Nat → Int → Nat → List Int → Res (List Int)
  | [], cur, k, acc =>
    if cur ≠ 0 ∨ k ≠ 0 then .error .leftover
    else if acc = [] then .error .novalues
    else .ok acc.reverse
  | d :: ds, cur, k, acc =>
    if 13 ≤ k then .error .overflow
    else
      let cur' := cur + wrap64 ((d % 32 : Nat) * (2 : Int) ^ (5 * k))
      if !inI64 cur' then .error .panic
      else if d / 32 = 0 then decLoop ds 0 0 (finish cur' :: acc)
      else decLoop ds cur' (k + 1) acc

/-- bytes → digits, `none` at the first byte outside the alphabet (with its position) -/
def toDigits : List Nat → Option (List Nat)
  | [] => some []
  | c :: cs => match b64Rev c with
    | none => none
    | some d => (toDigits cs).map (d :: ·)

/-- `parse_vlq_segment` on the bytes of the segment.  The byte → digit lookup is interleaved
with the loop in the Rust code: a foreign byte is reported only if no earlier digit already
failed with overflow; `parseLoop` mirrors that order. -/
def parseLoop : List Nat → Int → Nat → List Int → Res (List Int)
  | [], cur, k, acc => decLoop [] cur k acc
  | c :: cs, cur, k, acc =>
    match b64Rev c with
    | none => .error .b64
    | some d =>
      if 13 ≤ k then .error .overflow
      else
        let cur' := cur + wrap64 ((d % 32 : Nat) * (2 : Int) ^ (5 * k))
        if !inI64 cur' then .error .panic
        else if d / 32 = 0 then parseLoop cs 0 0 (finish cur' :: acc)
        else parseLoop cs cur' (k + 1) acc

def parseVlq (s : List Nat) : Res (List Int) := parseLoop s 0 0 []

/-- little-endian base-32 digits of `n`, continuation flag (32) on all but the last -/
def encDigits (n : Nat) : List Nat :=
  if h : n < 32 then [n] else (n % 32 + 32) :: encDigits (n / 32)
termination_by n
decreasing_by omega

/-- `encode_vlq(out, num)` for an `i64` `num`: `-num` panics for `i64::MIN`; `<< 1`
wraps; when the wrapped value is negative the `loop` never reaches `num == 0`. -/
def encodeVlq (n : Int) : Res (List Nat) :=
  if n = -9223372036854775808 then .error .panic
  else
    let z : Int := if n < 0 then wrap64 (2 * (-n)) + 1 else wrap64 (2 * n)
    if z < 0 then .error .diverge
    else .ok ((encDigits z.toNat).map b64Char)

/-- `generate_vlq_segment` -/
def encodeSeg : List Int → Res (List Nat)
  | [] => .ok []
  | x :: xs => match encodeVlq x with
    | .error e => .error e
    | .ok a => match encodeSeg xs with
      | .error e => .error e
      | .ok b => .ok (a ++ b)

/-! ### Independent reading of the standard -/

/-- split a digit string into complete groups (each ending in a digit `< 32`) and the
unterminated rest -/
def splitGroups : List Nat → List Nat → List (List Nat) × List Nat
  | [], cur => ([], cur.reverse)
  | d :: ds, cur =>
    if d / 32 = 0 then
      let (gs, r) := splitGroups ds []
      ((d :: cur).reverse :: gs, r)
    else splitGroups ds (d :: cur)

/-- Σ (dᵢ mod 32) · 32^i -/
def groupValue : List Nat → Nat
  | [] => 0
  | d :: ds => d % 32 + 32 * groupValue ds

/-- The standard: values are sign-magnitude with the sign in bit 0; unterminated value,
empty input and a value of more than 13 digits are errors (the first over-long value wins
because a reader meets it before it can see the end of input). -/
def specVlq (ds : List Nat) : Res (List Int) :=
  let (gs, r) := splitGroups ds []
  if (gs.any (fun g => decide (13 < g.length))) || decide (13 < r.length) then .error .overflow
  else if r ≠ [] then .error .leftover
  else if gs = [] then .error .novalues
  else .ok (gs.map (fun g => unzig (groupValue g)))

end SmVerif.Vlq
