import SmVerif.Model.Builder
import SmVerif.Model.BldSpec
/-
C13 — model side: sequences of calls interpreted over the model of `SourceMapBuilder` (`Bld`) and
of `SourceMap` (`SMap`), and the observations the correspondence run compares.
-/
namespace SmVerif
open C13Spec

namespace Bld

/-- one builder call on the model -/
def step (b : Bld) : BOp → Res (Bld × BOut)
  | .addSource s => .ok ((b.addSource s).1, .id (b.addSource s).2)
  | .addName s => .ok ((b.addName s).1, .id (b.addName s).2)
  | .add dl dc sl sc src name rng =>
    let r := b.add dl dc sl sc src name rng
    .ok (r.1, .tok r.2.src r.2.name)
  | .addRaw dl dc sl sc src name rng =>
    let r := b.addRaw dl dc sl sc src name rng
    .ok (r.1, .tok r.2.src r.2.name)
  | .setSourceContents i v =>
    match b.setSourceContents i v with
    | .ok b' => .ok (b', .unit)
    | .error e => .error e
  | .addToIgnoreList i => .ok (b.addToIgnoreList i, .unit)
  | .setSourceRoot r => .ok (b.setSourceRoot r, .unit)
  | .setFile f => .ok (b.setFile f, .unit)
  | .setDebugId d => .ok (b.setDebugId d, .unit)
  | .getSource i => .ok (b, .str (b.getSource i))

def run (b : Bld) : List BOp → Res (Bld × List BOut)
  | [] => .ok (b, [])
  | op :: ops =>
    match b.step op with
    | .error e => .error e
    | .ok (b', o) =>
      match run b' ops with
      | .error e => .error e
      | .ok (b'', os) => .ok (b'', o :: os)

end Bld

namespace SMap

/-- a token of a map as the API shows it (`Token::get_source`, `get_name`, …) -/
def tokView (m : SMap) (t : Tok) : TokView :=
  { dl := t.dl, dc := t.dc, sl := t.sl, sc := t.sc, rng := t.rng, src := m.tokSource t, name := m.tokName t }

/-- everything C13 observes of a map: tokens resolved to strings, sources as read and as written,
the root as written, names, contents per source, ignore list, file, debug id -/
def view (m : SMap) : MapView :=
  { toks := m.tokens.map m.tokView,
    read := m.sourcesRead, raw := m.asRawFields.sources, rootW := m.asRawFields.root,
    names := m.names, contents := m.sourceContents, ignore := m.ignore, file := m.file,
    debugId := m.debugId }

/-- one call on the model of a map -/
def step (m : SMap) : MOp → Res SMap
  | .setSourceRoot r => .ok (m.setSourceRoot r)
  | .setSource i v => m.setSource i v
  | .setSourceContents i v => m.setSourceContents i v
  | .reload => .ok m.reload
  | .addToIgnoreList i => .ok (m.addToIgnoreList i)
  | .setFile f => .ok (m.setFile f)
  | .setDebugId d => .ok (m.setDebugId d)

def runOps (m : SMap) : List MOp → Res SMap
  | [] => .ok m
  | op :: ops =>
    match m.step op with
    | .error e => .error e
    | .ok m' => runOps m' ops

/-- the states after each call (the initial state first) -/
def trace (m : SMap) : List MOp → Res (List SMap)
  | [] => .ok [m]
  | op :: ops =>
    match m.step op with
    | .error e => .error e
    | .ok m' =>
      match trace m' ops with
      | .error e => .error e
      | .ok ms => .ok (m :: ms)

end SMap
end SmVerif
