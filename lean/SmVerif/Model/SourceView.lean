import SmVerif.Model.Basic
/-
Sequential model of `SourceView` line indexing (sourceview.rs `get_line`, `line_count`, `lines`).
The text is its UTF-8 byte string (`List Nat`); a line is the byte string of the slice returned.
`processed` mirrors `processed_until`, `lines` the cached `Vec<&str>`.

The concurrent model (Model/SourceViewConc.lean, C16) runs the same `scan` step under a lock.
-/
namespace SmVerif.SV
open SmVerif

structure St where
  processed : Nat := 0
  lines : List (List Nat) := []
  deriving Repr, DecidableEq

def isNl (b : Nat) : Bool := b = 10 || b = 13

/-- one iteration of the indexing loop on `rest = source[processed..]`:
`(line pushed, amount added to processed_until, done)` -/
def scan (rest : List Nat) : List Nat × Nat × Bool :=
  match rest.findIdx? isNl with
  | some i =>
    let adv := if rest.getD i 0 = 13 ∧ rest[i + 1]? = some 10 then i + 2 else i + 1
    (rest.take i, adv, false)
  | none => (rest, rest.length + 1, true)

/-- the `while !done` loop of `get_line`, entered with the lock held; `fuel` bounds the number of
iterations (running out of fuel is `diverge`; slicing `source[processed..]` with
`processed > len` is the panic site of F11) -/
def indexLoop (src : List Nat) (idx : Nat) : Nat → St → Res (Option (List Nat) × St)
  | 0, _ => .error .diverge
  | fuel + 1, st =>
    if st.processed > src.length then .error .panic
    else
      let (line, adv, done) := scan (src.drop st.processed)
      let st' : St := { processed := st.processed + adv, lines := st.lines ++ [line] }
      match st'.lines[idx]? with
      | some l => .ok (some l, st')
      | none => if done then .ok (none, st') else indexLoop src idx fuel st'

/-- enough fuel for any text: every iteration advances `processed` by at least one -/
def fuelFor (src : List Nat) : Nat := src.length + 2

/-- `get_line(idx)` by a single thread -/
def getLine (src : List Nat) (st : St) (idx : Nat) : Res (Option (List Nat) × St) :=
  -- cached-line check
  match st.lines[idx]? with
  | some l => .ok (some l, st)
  | none =>
    -- finished check
    if st.processed > src.length then .ok (st.lines[idx]?, st)
    else
      -- under the lock: re-check the cache and the finished flag, then index
      match st.lines[idx]? with
      | some l => .ok (some l, st)
      | none =>
        if st.processed > src.length then .ok (none, st)
        else indexLoop src idx (fuelFor src) st

/-- `line_count()`: `get_line(!0)` then the length of the cache -/
def lineCount (src : List Nat) (st : St) : Res (Nat × St) :=
  match getLine src st NONE with
  | .error e => .error e
  | .ok (_, st') => .ok (st'.lines.length, st')

/-- `lines()` iterator collected: `get_line(0), get_line(1), …` until `None` -/
def linesIter (src : List Nat) : Nat → Nat → St → List (List Nat) → Res (List (List Nat) × St)
  | 0, _, _, _ => .error .diverge
  | fuel + 1, i, st, acc =>
    match getLine src st i with
    | .error e => .error e
    | .ok (none, st') => .ok (acc.reverse, st')
    | .ok (some l, st') => linesIter src fuel (i + 1) st' (l :: acc)

def allLines (src : List Nat) (st : St) : Res (List (List Nat) × St) :=
  linesIter src (fuelFor src + 1) 0 st []

/-! ### specification: splitting at `\r\n`, `\n` or a lone `\r` -/

/-- pieces of the text: a trailing terminator yields a final empty line, the empty text one empty
line.  Written as a plain left-to-right scan over the bytes with the current piece as accumulator,
independent of `scan`/`findIdx?`. -/
def splitLinesAux : List Nat → List Nat → List (List Nat)
  | [], cur => [cur.reverse]
  | 13 :: 10 :: rest, cur => cur.reverse :: splitLinesAux rest []
  | 13 :: rest, cur => cur.reverse :: splitLinesAux rest []
  | 10 :: rest, cur => cur.reverse :: splitLinesAux rest []
  | b :: rest, cur => splitLinesAux rest (b :: cur)

def splitLines (src : List Nat) : List (List Nat) := splitLinesAux src []

end SmVerif.SV
