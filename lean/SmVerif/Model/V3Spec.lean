import SmVerif.Model.Lookup
/-
Independent reading of the Source Map v3 `mappings` format (C02, C03, C06) and the normal form a
token list takes when it goes through the wire format (C01, C07).
Written without reference to the decoder's control flow: first *all* segments are located and read
with the standard VLQ reader (`specVlq`), then positions are accumulated.
-/
namespace SmVerif.V3
open SmVerif Vlq Mappings

/-- a located segment: generated line, index on the line, its bytes -/
structure Seg where
  line : Nat
  idx : Nat
  bytes : List Nat
  deriving Repr

/-- all non-empty segments of a mappings string, in document order -/
def segments (m : List Nat) : List Seg :=
  ((splitOn SEMI m).zipIdx.map fun (ln, l) =>
    ((splitOn COMMA ln).zipIdx.filter (fun (s, _) => s ≠ [])).map fun (s, i) => { line := l, idx := i, bytes := s : Seg }).flatten

/-- fields of a segment as the standard reads them; `none` for a foreign byte, a cut-off value,
a value longer than 13 digits or an empty segment -/
def fields (s : List Nat) : Option (List Int) :=
  match toDigits s with
  | none => none
  | some ds => match specVlq ds with
    | .ok vs => some vs
    | .error _ => none

/-- every value of at most 13 digits in the segment fits 63 bits (always true of an encoder's
output; beyond that the code's `i64` accumulator truncates and no property constrains the result) -/
def segFits (s : List Nat) : Bool :=
  match toDigits s with
  | none => true
  | some ds => (splitGroups ds []).1.all fun g => decide (13 < g.length) || decide (groupValue g < 9223372036854775808)

structure Acc where
  line : Nat := 0
  col : Int := 0
  src : Int := 0
  sl : Int := 0
  sc : Int := 0
  name : Int := 0

inductive Reading where
  | fault            -- the string is malformed in one of the ways C06 lists
  | outside          -- well-formed as text, but some coordinate leaves the u32 range (not constrained)
  | toks (ts : List Tok)
  deriving Repr

def inU32 (x : Int) : Bool := 0 ≤ x && x < 4294967296

/-- accumulate: generated column restarts on each line, the other four run across the document;
an unreadable segment, a segment of 2, 3 or more than 5 fields, or a source / name index that
leaves its array is a fault -/
def accumulate (nsrc nnames : Nat) (rbits : Nat → Nat → Bool) :
    List (Seg × Option (List Int)) → Acc → List Tok → Bool → Reading
  | [], _, out, outside => if outside then .outside else .toks out.reverse
  | (_, none) :: _, _, _, _ => .fault
  | (s, some f) :: rest, a, out, outside =>
    let col0 := if s.line = a.line then a.col else 0
    match f with
    | [c] =>
      let col := col0 + c
      accumulate nsrc nnames rbits rest { a with line := s.line, col := col }
        ({ dl := s.line, dc := col.toNat, sl := 0, sc := 0, src := NONE, name := NONE, rng := rbits s.line s.idx } :: out)
        (outside || !inU32 col)
    | [c, ds, dl, dc] =>
      let col := col0 + c
      let src := a.src + ds
      if src < 0 ∨ src ≥ nsrc then .fault
      else
        let a' := { a with line := s.line, col := col, src := src, sl := a.sl + dl, sc := a.sc + dc }
        accumulate nsrc nnames rbits rest a'
          ({ dl := s.line, dc := col.toNat, sl := a'.sl.toNat, sc := a'.sc.toNat, src := src.toNat, name := NONE, rng := rbits s.line s.idx } :: out)
          (outside || !inU32 col || !inU32 a'.sl || !inU32 a'.sc)
    | [c, ds, dl, dc, dn] =>
      let col := col0 + c
      let src := a.src + ds
      let name := a.name + dn
      if src < 0 ∨ src ≥ nsrc then .fault
      else if name < 0 ∨ name ≥ nnames then .fault
      else
        let a' : Acc := { line := s.line, col := col, src := src, sl := a.sl + dl, sc := a.sc + dc, name := name }
        accumulate nsrc nnames rbits rest a'
          ({ dl := s.line, dc := col.toNat, sl := a'.sl.toNat, sc := a'.sc.toNat, src := src.toNat, name := name.toNat, rng := rbits s.line s.idx } :: out)
          (outside || !inU32 col || !inU32 a'.sl || !inU32 a'.sc)
    | _ => .fault

/-- range bit of segment `i` on line `l` according to a `rangeMappings` string -/
def rangeBit (rmi : List Nat) (l i : Nat) : Bool :=
  match decodeRmi ((splitOn SEMI rmi).getD l []) with
  | some bits => bits.getD i false
  | none => false

/-- The independent reading: tokens in document order, before ordering by generated position.
`outside` as soon as some coordinate leaves the u32 range (the decoder truncates there) or some
13-digit value does not fit 63 bits. -/
def specDecode (m rmi : List Nat) (nsrc nnames : Nat) : Reading :=
  let segs := segments m
  if segs.any (fun s => !segFits s.bytes) then .outside
  else accumulate nsrc nnames (rangeBit rmi) (segs.map fun s => (s, fields s.bytes)) {} [] false

/-! ### the normal form of a token list that went through the wire format -/

/-- hidden fields carry no information: a token without source has no original position and no
name; a name that does not resolve is not written -/
def normTok (nnames : Nat) (t : Tok) : Tok :=
  if t.src = NONE then { t with sl := 0, sc := 0, name := NONE }
  else if t.name ≠ NONE ∧ t.name < nnames then t
  else { t with name := NONE }

/-- removal of exact consecutive duplicates (on the same line; tokens on different lines differ) -/
def dedup : List Tok → List Tok
  | [] => []
  | [t] => [t]
  | a :: b :: rest => if a = b then dedup (b :: rest) else a :: dedup (b :: rest)

/-- well-formed token list for `nsrc` sources: u32 coordinates; a source id is absent or resolves -/
def wfTok (nsrc : Nat) (t : Tok) : Bool :=
  t.dl < U32 && t.dc < U32 && t.sl < U32 && t.sc < U32 && t.src < U32 && t.name < U32 &&
  (t.src = NONE || t.src < nsrc)

def wfToks (nsrc : Nat) (ts : List Tok) : Bool := ts.all (wfTok nsrc)

/-- `to_writer` followed by `from_slice` at the level of the mappings / rangeMappings strings, for a
map whose tokens are `ts` (already ordered, as `SourceMap` keeps them) -/
def encDec (nsrc nnames : Nat) (ts : List Tok) : Res (List Tok) :=
  match serializeRangeMappings ts with
  | .error e => .error e
  | .ok r => match serializeMappings ts nnames with
    | .error e => .error e
    | .ok m => decodeMappings m (r.getD []) nsrc nnames

/-- what C01/C07 demand of `decode (encode ts)` -/
def roundTripSpec (nnames : Nat) (ts : List Tok) : List Tok :=
  (dedup (Lookup.sortToks ts)).map (normTok nnames)

end SmVerif.V3
