import SmVerif.Model.Proto
import SmVerif.Model.RamBundle
/- driver family `ram.` (C20) -/
namespace SmVerif.DrvRam
open SmVerif SmVerif.Proto SmVerif.Ram

def showData (d : List Nat) : String := "m" ++ (if d.isEmpty then "" else toHex d)

def showMod : Res (Option (List Nat)) → String
  | .ok none => "none"
  | .ok (some d) => showData d
  | .error e => "e" ++ e.toString

/-- output for raw bytes -/
def runBytes (bs : List Nat) (ids : List Nat) (lim : Nat) : String :=
  let rec_ := if isRamBundle bs then "1" else "0"
  match parse bs with
  | .error e => s!"err {e.toString} rec={rec_}"
  | .ok b =>
    let startup := match startupCode b with
      | .ok s => showData s
      | .error e => "e" ++ e.toString
    let mods := ids.map fun id => showMod (getModule b id)
    let it := (iterModules b lim).map fun (id, r) =>
      match r with
      | .ok d => s!"{id}:{showData d}"
      | .error e => s!"{id}:e{e.toString}"
    s!"ok rec={rec_} {b.count} startup={startup} mods={showList id mods} iter={showList id it}"

def parseSlot (s : String) : Option (List Nat) :=
  if s = "none" then none else some (hexPairs (s.toList.drop 1))

def handleRam (toks : List String) : String :=
  match toks with
  | ["ram.wf", hx, st, slots] =>
    -- C20, first sentence: what the property demands for a bundle that was written from this description
    let sl := (splitList slots ";").map parseSlot
    let n := sl.length
    let startup := parseHex st
    let mods := (List.range (n + 2)).map fun id =>
      if id < n then (match sl.getD id none with | none => "none" | some d => showData d) else "eramindex"
    let it := (sl.zipIdx.filterMap fun (s, i) => s.map fun d => s!"{i}:{showData d}")
    let spec := s!"ok rec=1 {n} startup={showData startup} mods={showList id mods} iter={showList id it}"
    s!"{runBytes (parseHex hx) (List.range (n + 2)) (n + 2)}\t{spec}\t1"
  | ["ram.parse", hx, ids, lim] =>
    s!"{runBytes (parseHex hx) (parseNats ids) (parseNat lim)}\t=\t1"
  | _ => "bad-op\t-\t0"

end SmVerif.DrvRam
