import SmVerif.Model.SourceMap
/-
Model of `SourceMap::adjust_mappings` (types.rs:910-1040): the `Range` helper, `create_ranges`,
the two-pointer sweep (the `'outer: for` over the adjustment ranges with its two `while` loops over the
original ranges), the `i32` arithmetic of the displacement (overflow checks on: out of `i32` → panic;
the `as i32` / `as u32` casts wrap silently), and the final sort.

Also the *specification* `composeSpec`, written from the property statement (C10) alone: stretches
`[start, end)`, one token per pair of stretches with a non-empty overlap.
-/
namespace SmVerif.Adjust
open SmVerif SmVerif.Lookup

/-! ### model -/

/-- `struct Range { start, end, value }` -/
structure Range where
  start : Pos
  stop : Pos
  value : Tok
  deriving Repr, DecidableEq

/-- `|t| (t.dst_line, t.dst_col)`: key of the original tokens -/
def dstKey (t : Tok) : Pos := (t.dl, t.dc)
/-- `|t| (t.src_line, t.src_col)`: key of the adjustment tokens -/
def srcKey (t : Tok) : Pos := (t.sl, t.sc)

/-- `std::cmp::min` on `(u32, u32)` -/
def posMin (a b : Pos) : Pos := if posLe a b then a else b
/-- `std::cmp::max` on `(u32, u32)` -/
def posMax (a b : Pos) : Pos := if posLe a b then b else a

/-- `tokens.sort_unstable_by_key(key)`, modelled as a stable sort (see `Lookup.sortToks`) -/
def sortByKey (key : Tok → Pos) (ts : List Tok) : List Tok :=
  ts.mergeSort (fun a b => posLe (key a) (key b))

/-- the `while let Some(t) = token_iter.next()` loop of `create_ranges` over the sorted tokens:
`end = min(next_start or (MAX, MAX), (start.0, MAX))` -/
def rangesOfSorted (key : Tok → Pos) : List Tok → List Range
  | [] => []
  | t :: rest =>
    let start := key t
    let nextStart : Pos := match rest with
      | [] => (NONE, NONE)
      | n :: _ => key n
    { start := start, stop := posMin nextStart (start.1, NONE), value := t } :: rangesOfSorted key rest

/-- `create_ranges` -/
def createRanges (key : Tok → Pos) (ts : List Tok) : List Range :=
  rangesOfSorted key (sortByKey key ts)

/-- `x as i32` for a `u32` -/
def asI32 (x : Nat) : Int := if x < 2147483648 then (x : Int) else (x : Int) - 4294967296
def inI32 (x : Int) : Bool := -2147483648 ≤ x && x ≤ 2147483647
/-- checked `i32` subtraction / addition (overflow checks on) -/
def i32Sub (a b : Int) : Res Int := if inI32 (a - b) then .ok (a - b) else .error .panic
def i32Add (a b : Int) : Res Int := if inI32 (a + b) then .ok (a + b) else .error .panic

/-- `(line_diff, col_diff)` of an adjustment range: `dst as i32 - src as i32` -/
def diffs (a : Range) : Res (Int × Int) :=
  match i32Sub (asI32 a.value.dl) (asI32 a.value.sl) with
  | .error e => .error e
  | .ok ld =>
    match i32Sub (asI32 a.value.dc) (asI32 a.value.sc) with
    | .error e => .error e
    | .ok cd => .ok (ld, cd)

/-- the token pushed for an (original range, adjustment range) pair -/
def emit (a o : Range) (ld cd : Int) : Res Tok :=
  let p := posMax o.start a.start
  match i32Add (asI32 p.1) ld with
  | .error e => .error e
  | .ok l =>
    match i32Add (asI32 p.2) cd with
    | .error e => .error e
    | .ok c => .ok { o.value with dl := wrapU32 l, dc := wrapU32 c }

/-- `while original_range.end <= adjustment_range.start { next or break 'outer }`:
`none` = the original ranges ran out (`break 'outer`) -/
def skip (a : Range) (o : Range) : List Range → Option (Range × List Range)
  | [] => if posLe o.stop a.start then none else some (o, [])
  | o' :: os => if posLe o.stop a.start then skip a o' os else some (o, o' :: os)

/-- `while original_range.start < adjustment_range.end { push; if o.end >= a.end {break} else {next or
break 'outer} }`: the tokens pushed, and the current original range afterwards (`none` = `break 'outer`) -/
def inner (a : Range) (ld cd : Int) (o : Range) : List Range → Res (List Tok × Option (Range × List Range))
  | [] =>
    if posLt o.start a.stop then
      match emit a o ld cd with
      | .error e => .error e
      | .ok t => if posLe a.stop o.stop then .ok ([t], some (o, [])) else .ok ([t], none)
    else .ok ([], some (o, []))
  | o' :: os =>
    if posLt o.start a.stop then
      match emit a o ld cd with
      | .error e => .error e
      | .ok t =>
        if posLe a.stop o.stop then .ok ([t], some (o, o' :: os))
        else match inner a ld cd o' os with
          | .error e => .error e
          | .ok (ts, st) => .ok (t :: ts, st)
    else .ok ([], some (o, o' :: os))

/-- the `'outer: for &adjustment_range in &adjustment_ranges` loop; the displacement is computed
first for every adjustment range that is reached -/
def sweep (o : Range) (os : List Range) : List Range → Res (List Tok)
  | [] => .ok []
  | a :: as =>
    match diffs a with
    | .error e => .error e
    | .ok (ld, cd) =>
      match skip a o os with
      | none => .ok []
      | some (o1, os1) =>
        match inner a ld cd o1 os1 with
        | .error e => .error e
        | .ok (ts, none) => .ok ts
        | .ok (ts, some (o2, os2)) =>
          match sweep o2 os2 as with
          | .error e => .error e
          | .ok rest => .ok (ts ++ rest)

/-- the token list of `self` after `adjust_mappings` -/
def adjustToks (orig adj : List Tok) : Res (List Tok) :=
  match createRanges dstKey orig with
  | [] => .ok []                      -- `None => return` (the tokens were taken: empty)
  | o :: os =>
    match sweep o os (createRanges srcKey adj) with
    | .error e => .error e
    | .ok ts => .ok (sortToks ts)

/-- `SourceMap::adjust_mappings`: only `self.tokens` is written -/
def adjust (m adj : SMap) : Res SMap :=
  match adjustToks m.tokens adj.tokens with
  | .error e => .error e
  | .ok ts => .ok { m with tokens := ts }

/-! ### specification (from the property statement) -/

/-- position `p` comes strictly before `q` in a map whose tokens are keyed by `key`: smaller key, or the
same key and earlier in the map's token order -/
def follows (key : Tok → Pos) (t : Tok) (i : Nat) (u : Tok) (j : Nat) : Bool :=
  posLt (key t) (key u) || (key t == key u && i < j)

/-- end of the stretch of the `i`-th token `t` of `ts`: the position of the next token (the least
position among the tokens that follow it), but at most the end of its line -/
def stretchEnd (key : Tok → Pos) (ts : List Tok) (i : Nat) (t : Tok) : Pos :=
  ((ts.zipIdx.filter fun p => follows key t i p.1 p.2).map fun p => key p.1).foldl posMin ((key t).1, NONE)

/-- the stretches `(start, end, token)` of a map under `key` -/
def stretches (key : Tok → Pos) (ts : List Tok) : List (Pos × Pos × Tok) :=
  ts.zipIdx.map fun p => (key p.1, stretchEnd key ts p.2 p.1, p.1)

/-- the token the property demands for an original stretch `o` and an adjustment stretch `a`, if their
overlap `[max starts, min ends)` is non-empty: at the start of the overlap moved by `a`'s
generated-minus-original displacement, with `o`'s data -/
def composeOne (o a : Pos × Pos × Tok) : Option Tok :=
  let s := posMax o.1 a.1
  let e := posMin o.2.1 a.2.1
  if posLt s e then
    some { o.2.2 with dl := s.1 + a.2.2.dl - a.2.2.sl, dc := s.2 + a.2.2.dc - a.2.2.sc }
  else none

/-- tokens demanded by the property, before ordering: one per (adjustment stretch, original stretch)
pair with a non-empty overlap -/
def composePairs (o a : List Tok) : List Tok :=
  (stretches srcKey a).flatMap fun sa => (stretches dstKey o).filterMap fun so => composeOne so sa

/-- the demanded result: ordered by generated position -/
def composeSpec (o a : List Tok) : List Tok := sortToks (composePairs o a)

/-- representable as `u32` -/
def fitsU32 (ts : List Tok) : Bool := ts.all fun t => t.dl ≤ NONE && t.dc ≤ NONE

/-- hypothesis of the theorems: no two tokens at one key -/
def distinctKeys (key : Tok → Pos) (ts : List Tok) : Bool :=
  (ts.map key).Pairwise (· ≠ ·)

/-- hypothesis of the theorems: every coordinate below `2^30` (so no `i32` computation overflows and no
column is `u32::MAX`) -/
def coordsSmall (ts : List Tok) : Bool :=
  ts.all fun t => t.dl < 1073741824 && t.dc < 1073741824 && t.sl < 1073741824 && t.sc < 1073741824

end SmVerif.Adjust
