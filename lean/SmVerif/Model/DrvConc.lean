import SmVerif.Model.Proto
import SmVerif.Model.SourceViewConc
/- driver family `conc.` (C16) -/
namespace SmVerif.DrvConc
open SmVerif SmVerif.Proto SmVerif.SVC

def parseCall (s : String) : Call :=
  if s.startsWith "g" then .g (parseNat (s.drop 1).toString)
  else if s = "c" then .c
  else .a

def parseProgs (s : String) : List (List Call) :=
  (s.splitOn ";").map fun p => (splitList p).map parseCall

def showLine : Option (List Nat) → String
  | none => "-"
  | some l => "l" ++ (if l.isEmpty then "" else toHex l)

def showVal : Val → String
  | .line l => showLine l
  | .count n => s!"n{n}"
  | .all ls => "[" ++ "/".intercalate (ls.map fun l => showLine (some l)) ++ "]"
  | .panic => "P"

def showThread (vs : List Val) : String :=
  if vs.isEmpty then "-" else ",".intercalate (vs.map showVal)

def showRun (per : List (List Val)) (usable : Val) : String :=
  "ok " ++ ";".intercalate (per.map showThread) ++ " usable=" ++ showVal usable

/-! `conc.trace`: the same replay, logging the pause point each thread is parked at after every
schedule entry (`1` = yield_point(1) = phase `fin`, `2` = yield_point(2) = phase `acq`, `s` = start of a
later call) -/

def pauseMark (s : State) (t : Nat) : Option String :=
  match s.threads[t]? with
  | some th =>
    match th.pc with
    | .gl _ _ .fin => some "1"
    | .gl _ _ .acq => some "2"
    | .idle => if th.prog.isEmpty then none else some "s"
    | _ => none
  | none => none

def isFinished (s : State) (t : Nat) : Bool :=
  match s.threads[t]? with
  | some th => th.finished
  | none => true

def stepTrace (src : List Nat) (st : State × List (List String)) (t : Nat) : State × List (List String) :=
  if isFinished st.1 t then st
  else
    let s' := runToPause true src (pauseFuel src) st.1 t
    match pauseMark s' t with
    | some m => (s', st.2.modify t (· ++ [m]))
    | none => (s', st.2)

def finishTrace (src : List Nat) : Nat → State × List (List String) → Nat → State × List (List String)
  | 0, st, _ => st
  | fuel + 1, st, t => if isFinished st.1 t then st else finishTrace src fuel (stepTrace src st t) t

def replayTrace (src : List Nat) (progs : List (List Call)) (sched : List Nat) : State × List (List String) :=
  let st := sched.foldl (stepTrace src) (initState progs, progs.map fun _ => [])
  (List.range progs.length).foldl
    (fun st t => finishTrace src (((progs.getD t []).length + 1) * (2 * (src.length + 3) + 1)) st t) st

def showTrace (tr : List (List String)) : String :=
  ";".intercalate (tr.map fun v => if v.isEmpty then "-" else ".".intercalate v)

def handleConc (toks : List String) : String :=
  match toks with
  | ["conc.trace", hx, progs, sched] =>
    let src := parseHex hx
    let ps := parseProgs progs
    let sc := (splitList sched).map parseNat
    let s := replay true src ps sc
    let (s2, tr) := replayTrace src ps sc
    let model := showRun (s.threads.map fun th => th.results.map (·.2)) (usableAfter true src s)
      ++ " trace=" ++ showTrace tr ++ (if s2 == s then "" else " replay-mismatch")
    -- the property does not speak about the path inside get_line: model-vs-code only
    s!"{model}\t-\t1"
  | ["conc.stress", hx, _threads, rounds, _seed] =>
    let _ := parseHex hx
    -- by c16_no_panic / c16_linearizable / c16_view_usable_after every interleaving gives the sequential answers
    let r := min (parseNat rounds) 100000
    s!"ok rounds={r} mismatches=0 panics=0 unusable=0\t=\t1"
  | ["conc.run", hx, progs, sched] =>
    let src := parseHex hx
    let ps := parseProgs progs
    let sc := (splitList sched).map parseNat
    let s := replay true src ps sc
    let model := showRun (s.threads.map fun th => th.results.map (·.2)) (usableAfter true src s)
    -- C16: every call answered as a single thread on a fresh view would, from the split of the text alone
    let spec := showRun (ps.map fun p => p.map (specAns src)) (specAns src (.g 0))
    s!"{model}\t{spec}\t1"
  | _ => "bad-op\t-\t0"

end SmVerif.DrvConc
