import SmVerif.Model.SourceMap
/-
C09 - specification of `SourceMap::rewrite`, written from the property statement and not from the
builder: no interning tables, no ids, no loop state.  Everything is said about what a reader of the
map observes: tokens through `Token::get_source` / `get_name`, the `sources()` / `names()` /
`source_contents()` iterators, `get_file`, `get_debug_id`.
-/
namespace SmVerif.RwSpec
open SmVerif

/-- what a position resolves to: generated position, source *name* (as read through `get_source`,
i.e. with the source root applied), original position, name string, range flag -/
structure View where
  dl : Nat
  dc : Nat
  src : Option Bytes
  sl : Nat
  sc : Nat
  name : Option Bytes
  rng : Bool
  deriving DecidableEq, Repr

def view (m : SMap) (t : Tok) : View :=
  { dl := t.dl, dc := t.dc, src := m.tokSource t, sl := t.sl, sc := t.sc, name := m.tokName t, rng := t.rng }

/-- the distinct strings of a list, in the order of their first use -/
def firstUse : List Bytes → List Bytes
  | [] => []
  | x :: xs => x :: (firstUse xs).filter (fun y => y != x)

/-- a prefix is used with a trailing `/` -/
def normPrefix (p : Bytes) : Bytes := if p.getLast? = some 47 then p else p ++ [47]

/-- the first listed prefix that the name starts with is removed; at most one -/
def strip (prefixes : List Bytes) (s : Bytes) : Bytes :=
  match (prefixes.map normPrefix).find? (fun p => p.isPrefixOf s) with
  | some p => s.drop p.length
  | none => s

/-- the view a token must have after the rewrite -/
def xform (withNames : Bool) (prefixes : List Bytes) (v : View) : View :=
  { v with src := v.src.map (strip prefixes), name := if withNames then v.name else none }

/-- source names in use, first use first (before prefix stripping) -/
def srcStrings (m : SMap) : List Bytes := firstUse (m.tokens.filterMap m.tokSource)

/-- names in use, first use first -/
def nameStrings (m : SMap) : List Bytes := firstUse (m.tokens.filterMap m.tokName)

/-- contents found for source name `s` along a token list: the tokens are visited in order and the
first one named `s` whose *own source id* has contents decides -/
def contentsIn (m : SMap) (ts : List Tok) (s : Bytes) : Option Bytes :=
  (ts.filter fun t => m.tokSource t == some s).findSome? fun t => m.getSourceContents t.src

/-- The contents that stay attached to source name `s`.  Several source ids of the input may carry
the same name (duplicates in `sources`, or different raw names made equal by the source root) with
different contents: the first token named `s` whose own source id has contents decides.  (A later
id with the same name never overrides it; an id without contents is skipped.) -/
def contentsFor (m : SMap) (s : Bytes) : Option Bytes := contentsIn m m.tokens s

/-- the observable result demanded by the property -/
structure Out where
  toks : List View
  sources : List Bytes
  names : List Bytes
  contents : List (Option Bytes)      -- one entry per source
  file : Option Bytes
  debugId : Option Bytes
  deriving DecidableEq, Repr

def rewriteSpec (m : SMap) (withNames withContents : Bool) (prefixes : List Bytes) : Out :=
  { toks := m.tokens.map fun t => xform withNames prefixes (view m t)
    sources := (srcStrings m).map (strip prefixes)
    names := if withNames then nameStrings m else []
    contents := (srcStrings m).map fun s => if withContents then contentsFor m s else none
    file := m.file
    debugId := m.debugId }

/-- the same observation taken from a map -/
def observe (m : SMap) : Out :=
  { toks := m.tokens.map (view m)
    sources := m.prefixed.getD m.sources          -- `sources()` iterates `get_source`
    names := m.names
    contents := m.sourceContents
    file := m.file
    debugId := m.debugId }

end SmVerif.RwSpec
