import SmVerif.Model.SourceView
/-
Model of `SourceView::get_line_slice` (sourceview.rs) on top of the sequential `getLine` model, the
`lines()` iterator with its `u32` counter, a sequence of requests executed on ONE view (`runReqs`),
and the declarative specification of all four requests (`specAns`, `sliceSpec`, `lineStarts`).

A line is the UTF-8 byte string (`List Nat`) of the `&str` returned by `get_line`.
-/
namespace SmVerif.SV
open SmVerif

/-! ### `str::chars` -- `core::str::validations::next_code_point`, literally -/

/-- one step of the `Chars` iterator: the code point and the bytes left.  A missing continuation
byte cannot happen on a `str` (the std code reads it unchecked); the model reads `0`. -/
def nextCodePoint : List Nat → Option (Nat × List Nat)
  | [] => none
  | x :: r =>
    if x < 128 then some (x, r)
    else
      let init := x % 32                      -- utf8_first_byte(x, 2)
      let y := r.headD 0
      let r := r.drop 1
      if x < 224 then some (init * 64 + y % 64, r)       -- utf8_acc_cont_byte(init, y)
      else
        let z := r.headD 0
        let r := r.drop 1
        let yz := (y % 64) * 64 + z % 64
        if x < 240 then some (init * 4096 + yz, r)       -- init << 12 | y_z
        else
          let w := r.headD 0
          let r := r.drop 1
          some ((init % 8) * 262144 + (yz * 64 + w % 64), r)   -- (init & 7) << 18 | acc(y_z, w)

/-- `line.chars()` collected; `fuel` = number of bytes (every step consumes at least one) -/
def charsFuel : Nat → List Nat → List Nat
  | 0, _ => []
  | fuel + 1, bs =>
    match nextCodePoint bs with
    | none => []
    | some (cp, rest) => cp :: charsFuel fuel rest

def chars (bs : List Nat) : List Nat := charsFuel bs.length bs

/-- `char::len_utf8` -/
def lenUtf8 (cp : Nat) : Nat := if cp < 128 then 1 else if cp < 2048 then 2 else if cp < 65536 then 3 else 4
/-- `char::len_utf16` -/
def lenUtf16 (cp : Nat) : Nat := if cp < 65536 then 1 else 2

/-! ### `get_line_slice` -/

/-- first loop (`while let Some(&c) = char_iter.peek()`): skip characters while `idx < col`;
returns `(off, idx, rest of the iterator)` -/
def skipLoop (col : Nat) : List Nat → Nat → Nat → Nat × Nat × List Nat
  | [], off, idx => (off, idx, [])
  | c :: cs, off, idx =>
    if idx ≥ col then (off, idx, c :: cs)
    else skipLoop col cs (off + lenUtf8 c) (idx + lenUtf16 c)

/-- second loop (`for c in char_iter`): take characters while `idx < col + span`;
returns `(off_end, idx)` -/
def takeLoop (lim : Nat) : List Nat → Nat → Nat → Nat × Nat
  | [], offEnd, idx => (offEnd, idx)
  | c :: cs, offEnd, idx =>
    if idx ≥ lim then (offEnd, idx)
    else takeLoop lim cs (offEnd + lenUtf8 c) (idx + lenUtf16 c)

/-- `str::is_char_boundary` -/
def isCharBoundary (s : List Nat) (i : Nat) : Bool :=
  if i = 0 then true
  else match s[i]? with
    | none => i = s.length
    | some b => b < 128 || b ≥ 192          -- (b as i8) >= -0x40

/-- `str::get(a..b)` -/
def strGet (s : List Nat) (a b : Nat) : Option (List Nat) :=
  if a ≤ b ∧ isCharBoundary s a ∧ isCharBoundary s b then some ((s.drop a).take (b - a)) else none

/-- the closure of `get_line_slice` on the line found.  `col as usize + span as usize` cannot
overflow on a 64-bit target (both are `u32`), so the sum is a plain `Nat` sum. -/
def sliceLine (line : List Nat) (col span : Nat) : Option (List Nat) :=
  let (off, idx, rest) := skipLoop col (chars line) 0 0
  let (offEnd, idx') := takeLoop (col + span) rest off idx
  if idx' < col + span then none else strGet line off offEnd

/-- `get_line_slice(line, col, span)` -/
def getLineSlice (src : List Nat) (st : St) (line col span : Nat) : Res (Option (List Nat) × St) :=
  match getLine src st line with
  | .error e => .error e
  | .ok (none, st') => .ok (none, st')
  | .ok (some l, st') => .ok (sliceLine l col span, st')

/-! ### `lines()` with the `u32` counter of `Lines` -/

/-- `Lines::next` repeated: `self.idx += 1` is a `u32` addition (overflow check on) -/
def linesIter32 (src : List Nat) : Nat → Nat → St → List (List Nat) → Res (List (List Nat) × St)
  | 0, _, _, _ => .error .diverge
  | fuel + 1, i, st, acc =>
    match getLine src st i with
    | .error e => .error e
    | .ok (none, st') => .ok (acc.reverse, st')
    | .ok (some l, st') =>
      if i + 1 ≥ U32 then .error .panic
      else linesIter32 src fuel (i + 1) st' (l :: acc)

def allLines32 (src : List Nat) (st : St) : Res (List (List Nat) × St) :=
  linesIter32 src (fuelFor src + 1) 0 st []

/-! ### a sequence of requests on one view -/

inductive Req where
  | get (idx : Nat)                 -- get_line(idx)
  | count                           -- line_count()
  | all                             -- lines().collect()
  | slice (line col span : Nat)     -- get_line_slice(line, col, span)
  deriving Repr, DecidableEq

inductive Ans where
  | line (l : Option (List Nat))
  | count (n : Nat)
  | all (ls : List (List Nat))
  deriving Repr, DecidableEq

def step (src : List Nat) (st : St) : Req → Res (Ans × St)
  | .get i =>
    match getLine src st i with
    | .error e => .error e
    | .ok (r, st') => .ok (.line r, st')
  | .count =>
    match lineCount src st with
    | .error e => .error e
    | .ok (n, st') => .ok (.count n, st')
  | .all =>
    match allLines32 src st with
    | .error e => .error e
    | .ok (ls, st') => .ok (.all ls, st')
  | .slice l c n =>
    match getLineSlice src st l c n with
    | .error e => .error e
    | .ok (r, st') => .ok (.line r, st')

/-- the requests in order on one view, state threaded through -/
def runReqs (src : List Nat) : St → List Req → Res (List Ans × St)
  | st, [] => .ok ([], st)
  | st, q :: qs =>
    match step src st q with
    | .error e => .error e
    | .ok (a, st') =>
      match runReqs src st' qs with
      | .error e => .error e
      | .ok (as, st'') => .ok (a :: as, st'')

/-! ### specification (stateless; from the property text)

Characters of a UTF-8 text: a character is a leading byte followed by its continuation bytes
(`10xxxxxx`).  Its code point is the payload of the leading byte followed by the six payload bits of
every continuation byte; it occupies two UTF-16 code units (a surrogate pair) iff the code point
is beyond the Basic Multilingual Plane. -/

def isCont (b : Nat) : Bool := 128 ≤ b && b < 192

/-- split before every byte that is not a continuation byte -/
def specCharsAux : List Nat → List Nat → List (List Nat)
  | [], cur => if cur.isEmpty then [] else [cur.reverse]
  | b :: rest, cur =>
    if isCont b then specCharsAux rest (b :: cur)
    else if cur.isEmpty then specCharsAux rest [b]
    else cur.reverse :: specCharsAux rest [b]

def specChars (line : List Nat) : List (List Nat) := specCharsAux line []

/-- payload of a leading byte: `0xxxxxxx`, `110xxxxx`, `1110xxxx`, `11110xxx` -/
def leadPayload (b : Nat) : Nat :=
  if b < 128 then b else if b < 224 then b - 192 else if b < 240 then b - 224 else b - 240

def codePoint : List Nat → Nat
  | [] => 0
  | b :: conts => conts.foldl (fun acc c => acc * 64 + (c - 128)) (leadPayload b)

/-- UTF-16 code units of one character -/
def units (ch : List Nat) : Nat := if codePoint ch ≥ 65536 then 2 else 1

/-- every character with the index of its first UTF-16 code unit -/
def withStarts : List (List Nat) → Nat → List (Nat × List Nat)
  | [], _ => []
  | ch :: cs, s => (s, ch) :: withStarts cs (s + units ch)

def totalUnits (cs : List (List Nat)) : Nat := (cs.map units).sum

/-- the characters covering code units `c .. c+n` of the line, whole surrogate pairs included
(a character occupying units `[s, s+u)` is covered when that interval meets `[c, c+n)`, i.e. when
`max s c < min (s+u) (c+n)`);
nothing if the line is shorter than `c+n` code units -/
def sliceSpec (line : List Nat) (c n : Nat) : Option (List Nat) :=
  let cs := specChars line
  if totalUnits cs < c + n then none
  else some (((withStarts cs 0).filter fun (s, ch) => max s c < min (s + units ch) (c + n)).flatMap (·.2))

/-- `c` lies strictly inside a surrogate pair of the line -/
def midPair (line : List Nat) (c : Nat) : Bool :=
  (withStarts (specChars line) 0).any fun (s, ch) => s < c ∧ c < s + units ch

/-- byte offsets at which the pieces of `splitLines` begin (same scan as `splitLinesAux`, keeping
the position instead of the bytes) -/
def lineStartsAux : List Nat → Nat → List Nat
  | [], _ => []
  | 13 :: 10 :: rest, pos => (pos + 2) :: lineStartsAux rest (pos + 2)
  | 13 :: rest, pos => (pos + 1) :: lineStartsAux rest (pos + 1)
  | 10 :: rest, pos => (pos + 1) :: lineStartsAux rest (pos + 1)
  | _ :: rest, pos => lineStartsAux rest (pos + 1)

def lineStarts (src : List Nat) : List Nat := 0 :: lineStartsAux src 0

/-- what the property demands for one request, from the text alone -/
def specAns (src : List Nat) : Req → Ans
  | .get i => .line (splitLines src)[i]?
  | .count => .count (splitLines src).length
  | .all => .all (splitLines src)
  | .slice l c n => .line ((splitLines src)[l]?.bind fun ln => sliceSpec ln c n)

/-- a slice request whose column lies strictly inside a surrogate pair of an existing line: the
property text does not settle it (Props/C15.lean, `c15_slice_midpair`) -/
def reqMidPair (src : List Nat) : Req → Bool
  | .slice l c _ => match (splitLines src)[l]? with
    | some ln => midPair ln c
    | none => false
  | _ => false

/-! ### well-formed UTF-8 (the invariant of `str`), Unicode Table 3-7 -/

def validChar : List Nat → Bool
  | [a] => a < 128
  | [a, b] => 194 ≤ a && a ≤ 223 && isCont b
  | [a, b, c] =>
    isCont c &&
    ((a = 224 && 160 ≤ b && b ≤ 191) || (225 ≤ a && a ≤ 236 && isCont b) ||
     (a = 237 && 128 ≤ b && b ≤ 159) || (238 ≤ a && a ≤ 239 && isCont b))
  | [a, b, c, d] =>
    isCont c && isCont d &&
    ((a = 240 && 144 ≤ b && b ≤ 191) || (241 ≤ a && a ≤ 243 && isCont b) ||
     (a = 244 && 128 ≤ b && b ≤ 143))
  | _ => false

/-- the text is a concatenation of well-formed characters -/
def ValidUtf8 (bs : List Nat) : Prop := ∃ cs : List (List Nat), (∀ c ∈ cs, validChar c = true) ∧ bs = cs.flatten

/-- executable check of `ValidUtf8` (used by the driver to mark the quantifier) -/
def validUtf8Fuel : Nat → List Nat → Bool
  | 0, bs => bs.isEmpty
  | fuel + 1, bs =>
    match bs with
    | [] => true
    | a :: _ =>
      let w := if a < 128 then 1 else if a < 224 then 2 else if a < 240 then 3 else 4
      validChar (bs.take w) && bs.length ≥ w && validUtf8Fuel fuel (bs.drop w)

def validUtf8 (bs : List Nat) : Bool := validUtf8Fuel bs.length bs

end SmVerif.SV
