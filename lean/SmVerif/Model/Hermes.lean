import SmVerif.Model.Lookup
/-
Model of src/hermes.rs (as of the `fix:` commits 9c69ebb, d55f932, 8cc023f):
  decode_hermes                    the per-source function-map decoder
  SourceMapHermes::get_scope_for_token / get_original_function_name
  Encodable::as_raw_sourcemap      (the raw `x_facebook_sources` payload is written back verbatim)
Byte strings (mapping strings, names) are `List Nat`.
-/
namespace SmVerif.Hermes
open SmVerif SmVerif.Vlq SmVerif.Mappings SmVerif.Lookup

/-- a function name (UTF-8 bytes; only compared and printed) -/
abbrev Name := List Nat

/-- `HermesScopeOffset` -/
structure Entry where
  line : Nat
  column : Nat
  name : Nat
  deriving DecidableEq, Repr, Inhabited

/-- `HermesFunctionMap` -/
structure FMap where
  names : List Name
  entries : List Entry
  deriving DecidableEq, Repr

/-- `FacebookScopeMapping` (one metadata entry of a source) -/
structure Meta where
  names : List Name
  mappings : List Nat
  deriving DecidableEq, Repr

/-- one element of `x_facebook_sources`: `null` or a list of metadata entries -/
abbrev RawSrc := Option (List Meta)

def Entry.pos (e : Entry) : Pos := (e.line, e.column)

/-! ### decode_hermes: the function-map decoder -/

/-- `(i64::from(cur) + d) as u32`: the `i64` addition is overflow-checked in the harness build, the
cast truncates -/
def addCast (cur : Nat) (d : Int) : Res Nat :=
  let s := (cur : Int) + d
  if !inI64 s then .error .panic else .ok (wrapU32 s)

/-- one parsed segment: `column += nums.next()?; name_index += nums.next().unwrap_or(0);
line += nums.next().unwrap_or(0)` (further fields are ignored).  `.ok none` is the `?` exit. -/
def stepSeg (column name line : Nat) (nums : List Int) : Res (Option Entry) :=
  match nums with
  | [] => .ok none
  | n0 :: rest =>
    match addCast column n0 with
    | .error e => .error e
    | .ok c => match addCast name (rest.getD 0 0) with
      | .error e => .error e
      | .ok n => match addCast line (rest.getD 1 0) with
        | .error e => .error e
        | .ok l => .ok (some { line := l, column := c, name := n })

/-- `for mapping in line_mapping.split(',')`: running column / name index / line, entries pushed
onto `acc` (reversed).  `.ok none`: `parse_vlq_segment_into(..).ok()?` or `nums.next()?` left the
closure with `None` (this source gets no function map). -/
def decodeSegs : List (List Nat) → Nat → Nat → Nat → List Entry → Res (Option (Nat × Nat × List Entry))
  | [], _, name, line, acc => .ok (some (name, line, acc))
  | seg :: segs, column, name, line, acc =>
    if seg = [] then decodeSegs segs column name line acc
    else match parseVlq seg with
      | .error e => if e = .panic then .error .panic else .ok none
      | .ok nums => match stepSeg column name line nums with
        | .error e => .error e
        | .ok none => .ok none
        | .ok (some e) => decodeSegs segs e.column e.name e.line (e :: acc)

/-- `for line_mapping in raw_mappings.split(';')`: the column restarts at 0 on every piece, name
index and line run on -/
def decodeLines : List (List Nat) → Nat → Nat → List Entry → Res (Option (List Entry))
  | [], _, _, acc => .ok (some acc.reverse)
  | ln :: lns, name, line, acc =>
    if ln = [] then decodeLines lns name line acc
    else match decodeSegs (splitOn COMMA ln) 0 name line acc with
      | .error e => .error e
      | .ok none => .ok none
      | .ok (some (name', line', acc')) => decodeLines lns name' line' acc'

/-- the closure body for one metadata entry: `line = 1`, `name_index = 0` -/
def decodeMeta (m : Meta) : Res (Option FMap) :=
  match decodeLines (splitOn SEMI m.mappings) 0 1 [] with
  | .error e => .error e
  | .ok none => .ok none
  | .ok (some es) => .ok (some { names := m.names, entries := es })

/-- `v.as_ref()?.iter().next()?`: `null` and `[]` give no function map; only the first metadata
entry is read -/
def decodeSrc : RawSrc → Res (Option FMap)
  | none => .ok none
  | some [] => .ok none
  | some (m :: _) => decodeMeta m

/-- `x_facebook_sources.iter().map(..).collect()` -/
def decodeSources : List RawSrc → Res (List (Option FMap))
  | [] => .ok []
  | r :: rs => match decodeSrc r with
    | .error e => .error e
    | .ok f => match decodeSources rs with
      | .error e => .error e
      | .ok fs => .ok (f :: fs)

/-! ### the document -/

/-- what the harness puts into the JSON document: `sources` / `names` only by their number -/
structure HDoc where
  nsrc : Nat
  nnames : Nat
  mappings : List Nat
  rmi : Option (List Nat)
  fsources : Option (List RawSrc)
  deriving Repr

/-- `SourceMapHermes` -/
structure HMap where
  nsrc : Nat
  nnames : Nat
  toks : List Tok
  fms : List (Option FMap)
  raw : List RawSrc
  deriving Repr

/-- `SourceMapHermes::from_slice`: without `x_facebook_sources` the document decodes as a regular
map (`decode_regular` runs first and may fail) and is then refused; with it the function maps are
decoded first, then `decode_regular` + `SourceMap::new` (sort) -/
def decodeHermes (d : HDoc) : Res HMap :=
  match d.fsources with
  | none =>
    match decodeMappings d.mappings (d.rmi.getD []) d.nsrc d.nnames with
    | .error e => .error e
    | .ok _ => .error .incompatible
  | some raw =>
    match decodeSources raw with
    | .error e => .error e
    | .ok fms =>
      match decodeMappings d.mappings (d.rmi.getD []) d.nsrc d.nnames with
      | .error e => .error e
      | .ok ts => .ok { nsrc := d.nsrc, nnames := d.nnames, toks := sortToks ts, fms := fms, raw := raw }

/-- `to_writer` → `as_raw_sourcemap`: the token part as every map (range mappings first), the raw
`x_facebook_sources` cloned back unchanged -/
def encodeHermes (h : HMap) : Res HDoc :=
  match serializeRangeMappings h.toks with
  | .error e => .error e
  | .ok r => match serializeMappings h.toks h.nnames with
    | .error e => .error e
    | .ok m => .ok { nsrc := h.nsrc, nnames := h.nnames, mappings := m, rmi := r, fsources := some h.raw }

/-! ### scope lookup -/

/-- std `slice::partition_point(|o| key(o) <= q)` = `binary_search_by(|x| if pred(x) {Less} else
{Greater}).unwrap_or_else(|i| i)`: the same bisection as `binary_search_by_key` (`bsearchLoop`), the
final probe never compares equal -/
def partitionPoint (keys : List Pos) (q : Pos) : Nat :=
  if keys.length = 0 then 0
  else
    let base := bsearchLoop keys q keys.length keys.length 0
    base + (if posLe (keys.getD base (0, 0)) q then 1 else 0)

/-- `get_scope_for_token` as a function of the token's source id, source line and *reported*
source column (`get_src_col`, which includes the range offset) -/
def scopeAt (fms : List (Option FMap)) (src sl sc : Nat) : Option Name :=
  match fms[src]? with
  | none => none
  | some none => none
  | some (some fm) =>
    if sl + 1 > NONE then none        -- `checked_add(1)?`
    else
      let idx := partitionPoint (fm.entries.map Entry.pos) (sl + 1, sc)
      if idx = 0 then none            -- `checked_sub(1)?`
      else match fm.entries[idx - 1]? with
        | none => none
        | some e => fm.names[e.name]?

/-- `get_scope_for_token` on a token obtained from the token iterator (offset 0) -/
def scopeTok (fms : List (Option FMap)) (t : Tok) : Option Name := scopeAt fms t.src t.sl t.sc

/-- `get_original_function_name(bytecode_offset)`: `lookup_token(0, offset)?`, then the scope -/
def functionName (h : HMap) (off : Nat) : Res (Option Name) :=
  match lookup h.toks (0, off) with
  | .error e => .error e
  | .ok none => .ok none
  | .ok (some (_, t, c)) => .ok (scopeAt h.fms t.src t.sl c)

end SmVerif.Hermes
