import SmVerif.Model.Proto
import SmVerif.Model.Adjust
/- driver family `adj.` (C10) -/
namespace SmVerif.DrvAdjust
open SmVerif SmVerif.Proto SmVerif.Lookup SmVerif.Adjust

def parseTok (s : String) : Tok :=
  let f := (s.splitOn ":").map parseNat
  let g (i : Nat) : Nat := f.getD i 0
  { dl := g 0, dc := g 1, sl := g 2, sc := g 3, src := g 4, name := g 5, rng := g 6 != 0 }

def parseToks (s : String) : List Tok := (splitList s ";").map parseTok

def showTok (t : Tok) : String :=
  s!"{t.dl}:{t.dc}:{t.sl}:{t.sc}:{t.src}:{t.name}:{if t.rng then 1 else 0}"

def showToks (ts : List Tok) : String := showList showTok ts ";"

def tokKey (t : Tok) : List Nat := [t.dl, t.dc, t.sl, t.sc, t.src, t.name, if t.rng then 1 else 0]
def lexLe : List Nat → List Nat → Bool
  | [], _ => true
  | _ :: _, [] => false
  | a :: as, b :: bs => a < b || (a == b && lexLe as bs)
/-- canonical order for comparison: position first, ties by the other fields -/
def canonToks (ts : List Tok) : List Tok := ts.mergeSort fun a b => lexLe (tokKey a) (tokKey b)

def handleAdj (toks : List String) : String :=
  match toks with
  | ["adj.run", o, a] =>
    -- both maps are built with `SourceMap::new`, which orders the tokens by generated position
    let orig := sortToks (parseToks o)
    let adj := sortToks (parseToks a)
    let model := showRes (fun ts => showToks (canonToks ts) ++ " u=1") (adjustToks orig adj)
    let want := composeSpec orig adj
    let spec := if fitsU32 want then "ok " ++ showToks (canonToks want) ++ " u=1" else "-"
    -- inside the property's quantifier ("small and medium grids"): all coordinates below 2^30
    let wf := coordsSmall orig && coordsSmall adj
    s!"{model}\t{spec}\t{if wf then "1" else "0"}"
  | _ => "bad-op\t-\t0"

end SmVerif.DrvAdjust
