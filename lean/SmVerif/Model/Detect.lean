import SmVerif.Generated.Consts
import SmVerif.Model.Basic
import SmVerif.Model.SourceMap
/-
Model of reference discovery, data URLs and source-map detection (property C18):
  detector.rs  locate_sourcemap_reference(_slice), SourceMapRef, is_sourcemap_common
  decoder.rs   decode_data_url (DATA_PREAMBLE*), up to the `decode_slice` call
  types.rs     SourceMap::to_data_url, after the `encode` call
  jsontypes.rs MinimalRawSourceMap / RawSourceMap as key-presence records
  encoder.rs   as_raw_sourcemap (which fields are `Some`) for regular, index and Hermes maps
plus std's `BufRead::lines`, `str::trim` and RFC 4648 base64 with padding (what
`base64_simd::STANDARD.encode` writes and what `data_encoding::BASE64.decode` accepts, block by block).

Texts are byte strings (`List Nat`) that hold **valid UTF-8**: `BufRead::lines` reports invalid UTF-8 as
an `Io` error, which is not modelled (the correspondence run only sends valid UTF-8).  On valid UTF-8 the
byte-level `trim` below is exactly `str::trim` (UTF-8 is self-synchronising, so a White_Space code point
is at the start / end of a string iff its encoding is a prefix / suffix of the bytes).

The second half of the file (`Spec`) is the declarative specification the driver prints in the `spec`
column; it shares nothing with the model's control flow except `trim` and `stripCr`, which have their
own characterisations in Props/C18.lean.
-/
namespace SmVerif.Detect
open SmVerif

/-! ### `BufRead::lines` -/

/-- the `if buf.ends_with('\r') { buf.pop(); }` of `Lines::next`, after the `\n` was popped -/
def stripCr (l : Bytes) : Bytes := if l.getLast? = some 13 then l.dropLast else l

/-- `BufReader::new(rdr).lines()` collected: `cur` is the line buffer being filled by `read_line`
(kept reversed: `push` is `::`).  A final piece without `\n` is a line (as it is, no `\r` stripping)
unless it is empty. -/
def linesAux : Bytes → Bytes → List Bytes
  | cur, [] => if cur.isEmpty then [] else [cur.reverse]
  | cur, b :: r => if b = 10 then stripCr cur.reverse :: linesAux [] r else linesAux (b :: cur) r

def lines (text : Bytes) : List Bytes := linesAux [] text

/-! ### `str::trim` (White_Space code points in UTF-8) -/

/-- U+0009..U+000D, U+0020 -/
def isAsciiWs (a : Nat) : Bool := (9 ≤ a && a ≤ 13) || a = 32
/-- U+0085, U+00A0 -/
def isWs2 (a b : Nat) : Bool := a = 0xC2 && (b = 0x85 || b = 0xA0)
/-- U+1680, U+2000..U+200A, U+2028, U+2029, U+202F, U+205F, U+3000 -/
def isWs3 (a b c : Nat) : Bool :=
  (a = 0xE1 && b = 0x9A && c = 0x80)
  || (a = 0xE2 && b = 0x80 && ((0x80 ≤ c && c ≤ 0x8A) || c = 0xA8 || c = 0xA9 || c = 0xAF))
  || (a = 0xE2 && b = 0x81 && c = 0x9F)
  || (a = 0xE3 && b = 0x80 && c = 0x80)

/-- number of bytes of the whitespace character the string starts with (0: none) -/
def wsLen : Bytes → Nat
  | a :: b :: c :: _ => if isAsciiWs a then 1 else if isWs2 a b then 2 else if isWs3 a b c then 3 else 0
  | [a, b] => if isAsciiWs a then 1 else if isWs2 a b then 2 else 0
  | [a] => if isAsciiWs a then 1 else 0
  | [] => 0

/-- the same for the character the string ends with, on the reversed string -/
def wsLenRev : Bytes → Nat
  | a :: b :: c :: _ => if isAsciiWs a then 1 else if isWs2 b a then 2 else if isWs3 c b a then 3 else 0
  | [a, b] => if isAsciiWs a then 1 else if isWs2 b a then 2 else 0
  | [a] => if isAsciiWs a then 1 else 0
  | [] => 0

def trimStartFuel : Nat → Bytes → Bytes
  | 0, s => s
  | n + 1, s => if wsLen s = 0 then s else trimStartFuel n (s.drop (wsLen s))

def trimEndFuel : Nat → Bytes → Bytes
  | 0, r => r
  | n + 1, r => if wsLenRev r = 0 then r else trimEndFuel n (r.drop (wsLenRev r))

def trimStart (s : Bytes) : Bytes := trimStartFuel s.length s
def trimEnd (s : Bytes) : Bytes := (trimEndFuel s.length s.reverse).reverse
/-- `str::trim` -/
def trim (s : Bytes) : Bytes := trimEnd (trimStart s)

/-! ### `locate_sourcemap_reference` -/

/-- `SourceMapRef` -/
inductive Ref where
  | ref (url : Bytes)
  | legacy (url : Bytes)
  deriving DecidableEq, Repr

def startsWith (l p : Bytes) : Bool := p.isPrefixOf l

/-- `line.starts_with("//# sourceMappingURL=") || line.starts_with("//@ sourceMappingURL=")`
(the regenerated literals, in source order) -/
def isRefLine (l : Bytes) : Bool := Consts.refPrefixes.any (startsWith l)

/-- the body of the `if`: `&line.as_bytes()[21..]` panics on a shorter line -/
def refOfLine (l : Bytes) : Res Ref :=
  if l.length < Consts.refSkip then .error .panic
  else
    let url := trim (l.drop Consts.refSkip)
    if startsWith l Consts.refLegacyMarker then .ok (.legacy url) else .ok (.ref url)

/-- the `for line in ….lines()` loop with its early return -/
def locateLoop : List Bytes → Res (Option Ref)
  | [] => .ok none
  | l :: ls =>
    if isRefLine l then
      match refOfLine l with
      | .ok r => .ok (some r)
      | .error e => .error e
    else locateLoop ls

def locateReference (text : Bytes) : Res (Option Ref) := locateLoop (lines text)

/-! ### RFC 4648 base64 with padding -/

/-- the alphabet, arithmetically: `A-Z a-z 0-9 + /` -/
def encChar (d : Nat) : Nat :=
  if d < 26 then 65 + d else if d < 52 then 71 + d else if d < 62 then d - 4 else if d = 62 then 43 else 47

def decChar (c : Nat) : Option Nat :=
  if 65 ≤ c ∧ c ≤ 90 then some (c - 65)
  else if 97 ≤ c ∧ c ≤ 122 then some (c - 71)
  else if 48 ≤ c ∧ c ≤ 57 then some (c + 4)
  else if c = 43 then some 62
  else if c = 47 then some 63
  else none

/-- `=` -/
def PAD : Nat := 61

/-- `base64_simd::STANDARD.encode`: three bytes → four symbols, the tail padded -/
def b64Encode : Bytes → Bytes
  | a :: b :: c :: r =>
    encChar (a / 4) :: encChar ((a % 4) * 16 + b / 16) :: encChar ((b % 16) * 4 + c / 64) :: encChar (c % 64)
      :: b64Encode r
  | [a, b] => [encChar (a / 4), encChar ((a % 4) * 16 + b / 16), encChar ((b % 16) * 4), PAD]
  | [a] => [encChar (a / 4), encChar ((a % 4) * 16), PAD, PAD]
  | [] => []

/-- one block of four characters as `data_encoding` reads it (`check_pad`, `decode_mut`,
`check_trail`): trailing `=` are padding, at least two symbols, unused bits must be zero -/
def decBlock (c0 c1 c2 c3 : Nat) : Option Bytes :=
  if c3 ≠ PAD then
    match decChar c0, decChar c1, decChar c2, decChar c3 with
    | some d0, some d1, some d2, some d3 => some [d0 * 4 + d1 / 16, (d1 % 16) * 16 + d2 / 4, (d2 % 4) * 64 + d3]
    | _, _, _, _ => none
  else if c2 ≠ PAD then
    match decChar c0, decChar c1, decChar c2 with
    | some d0, some d1, some d2 => if d2 % 4 = 0 then some [d0 * 4 + d1 / 16, (d1 % 16) * 16 + d2 / 4] else none
    | _, _, _ => none
  else if c1 ≠ PAD then
    match decChar c0, decChar c1 with
    | some d0, some d1 => if d1 % 16 = 0 then some [d0 * 4 + d1 / 16] else none
    | _, _ => none
  else none

/-- `data_encoding::BASE64.decode`: the length must be a multiple of four; blocks are decoded one after
the other (a padded block may be followed by further blocks); every failure is `InvalidDataUrl` -/
def b64Decode : Bytes → Res Bytes
  | [] => .ok []
  | c0 :: c1 :: c2 :: c3 :: r =>
    match decBlock c0 c1 c2 c3 with
    | none => .error .dataurl
    | some o =>
      match b64Decode r with
      | .ok t => .ok (o ++ t)
      | .error e => .error e
  | _ => .error .dataurl

/-! ### data URLs -/

/-- `SourceMap::to_data_url` after `encode(self, &mut buf)`: `json` is the serialised map -/
def toDataUrl (json : Bytes) : Bytes := Consts.dataUrlProduced ++ b64Encode json

/-- `str::strip_prefix` -/
def stripPrefix (p s : Bytes) : Option Bytes := if p.isPrefixOf s then some (s.drop p.length) else none

/-- `decode_data_url` up to the `decode_slice(&data[..])` call: the bytes handed to the JSON decoder.
`strip_prefix(A).or_else(|| strip_prefix(B))` over the regenerated preambles, in source order. -/
def decodeDataUrl (url : Bytes) : Res Bytes :=
  match Consts.dataUrlAccepted.findSome? (fun p => stripPrefix p url) with
  | none => .error .dataurl
  | some d => b64Decode d

/-! ### `is_sourcemap_common` over key-presence records

A `RawSourceMap` / `MinimalRawSourceMap` value is abstracted to the list of its rust fields that are
`Some`; a JSON document to its top-level `(key, value is not null)` pairs. -/

def fVersion : Bytes := [118, 101, 114, 115, 105, 111, 110]
def fFile : Bytes := [102, 105, 108, 101]
def fSources : Bytes := [115, 111, 117, 114, 99, 101, 115]
def fSourceRoot : Bytes := [115, 111, 117, 114, 99, 101, 95, 114, 111, 111, 116]
def fSourcesContent : Bytes := [115, 111, 117, 114, 99, 101, 115, 95, 99, 111, 110, 116, 101, 110, 116]
def fSections : Bytes := [115, 101, 99, 116, 105, 111, 110, 115]
def fNames : Bytes := [110, 97, 109, 101, 115]
def fRangeMappings : Bytes := [114, 97, 110, 103, 101, 95, 109, 97, 112, 112, 105, 110, 103, 115]
def fMappings : Bytes := [109, 97, 112, 112, 105, 110, 103, 115]
def fIgnoreList : Bytes := [105, 103, 110, 111, 114, 101, 95, 108, 105, 115, 116]
def fXFacebookSources : Bytes := [120, 95, 102, 97, 99, 101, 98, 111, 111, 107, 95, 115, 111, 117, 114, 99, 101, 115]
def fDebugId : Bytes := [100, 101, 98, 117, 103, 95, 105, 100]

/-- rust fields that are `Some` -/
abbrev Present := List Bytes
/-- top-level `(key, value ≠ null)` pairs of a JSON object, in document order -/
abbrev Doc := List (Bytes × Bool)

/-- `is_sourcemap_common` (Rust precedence: `a && (b && c) || d`) -/
def isSourcemapCommon (m : Present) : Bool :=
  (m.contains fVersion || m.contains fFile)
    && ((m.contains fSources || m.contains fSourceRoot || m.contains fSourcesContent || m.contains fNames)
        && m.contains fMappings)
  || m.contains fSections

/-- serde's derived `Serialize` of `RawSourceMap` (regenerated field table): a `None` field is written
as `null` unless it carries `skip_serializing_if = "Option::is_none"` -/
def emit (raw : Present) : Doc :=
  Consts.rawFieldsB.filterMap fun (f, k, skip) =>
    if raw.contains f then some (k, true) else if skip then none else some (k, false)

/-- serde's derived `Deserialize` of `MinimalRawSourceMap` (regenerated field table) on an object whose
values have the right types: a field is `Some` iff its key is there with a non-null value; unknown
keys are ignored -/
def minimalParse (doc : Doc) : Present :=
  Consts.minimalFields.filterMap fun (f, k) =>
    if doc.any (fun kv => kv.1 == k && kv.2) then some f else none

/-- `is_sourcemap_slice` on a well-typed JSON object without junk header -/
def isSourcemapDoc (doc : Doc) : Bool := isSourcemapCommon (minimalParse doc)

def optField (b : Bool) (f : Bytes) : Present := if b then [f] else []

/-- `impl Encodable for SourceMap`: which fields of the `RawSourceMap` are `Some` -/
def asRawRegularP (file root contents range ignore dbg : Bool) : Present :=
  [fVersion, fSources, fNames, fMappings] ++ optField file fFile ++ optField root fSourceRoot
    ++ optField contents fSourcesContent ++ optField range fRangeMappings ++ optField ignore fIgnoreList
    ++ optField dbg fDebugId

/-- `impl Encodable for SourceMapIndex` -/
def asRawIndexP (file : Bool) : Present := [fVersion, fSections] ++ optField file fFile

/-- `impl Encodable for SourceMapHermes`: the regular map's record with `x_facebook_sources` cloned in -/
def asRawHermesP (file root contents range ignore dbg fb : Bool) : Present :=
  asRawRegularP file root contents range ignore dbg ++ optField fb fXFacebookSources

/-- whether `serialize_range_mappings` returns `Some`: some token is a range token -/
def hasRange (m : SMap) : Bool := m.tokens.any (·.rng)

/-- the three kinds of maps the encoder serialises -/
inductive Serialisable where
  | regular (m : SMap)
  | index (file : Option Bytes)
  | hermes (m : SMap) (fbSources : Bool)

def asRaw : Serialisable → Present
  | .regular m =>
    asRawRegularP m.file.isSome m.root.isSome (m.contents.any Option.isSome) (hasRange m) (!m.ignore.isEmpty) m.debugId.isSome
  | .index file => asRawIndexP file.isSome
  | .hermes m fb =>
    asRawHermesP m.file.isSome m.root.isSome (m.contents.any Option.isSome) (hasRange m) (!m.ignore.isEmpty) m.debugId.isSome fb

/-! ## Specification (declarative; printed in the `spec` column) -/
namespace Spec

/-- `//# sourceMappingURL=` -/
def pHash : Bytes := [47, 47, 35, 32, 115, 111, 117, 114, 99, 101, 77, 97, 112, 112, 105, 110, 103, 85, 82, 76, 61]
/-- `//@ sourceMappingURL=` -/
def pAt : Bytes := [47, 47, 64, 32, 115, 111, 117, 114, 99, 101, 77, 97, 112, 112, 105, 110, 103, 85, 82, 76, 61]

/-- the pieces between line feeds: the unique `ps ≠ []` without `\n` in any piece whose
`\n`-intercalation is the text (`splitNl_spec`, `splitNl_unique` in Proofs/DetectLines.lean) -/
def splitNl : Bytes → List Bytes
  | [] => [[]]
  | b :: r =>
    if b = 10 then [] :: splitNl r
    else match splitNl r with
      | [] => [[b]]
      | p :: ps => (b :: p) :: ps

/-- the lines of a text: every piece that is terminated by `\n`, without one trailing `\r`; then what
follows the last `\n`, if anything does -/
def specLines (text : Bytes) : List Bytes :=
  let ps := splitNl text
  ps.dropLast.map stripCr ++ (match ps.getLast? with | some l => if l = [] then [] else [l] | none => [])

def begins (l : Bytes) : Bool := pHash.isPrefixOf l || pAt.isPrefixOf l

/-- what the reference found on a line is: the rest of the line trimmed, legacy for the `@` form -/
def refOf (l : Bytes) : Ref :=
  if pAt.isPrefixOf l then .legacy (trim (l.drop pAt.length)) else .ref (trim (l.drop pHash.length))

/-- the first line that begins with one of the two comment forms -/
def specLocate (text : Bytes) : Option Ref := ((specLines text).find? begins).map refOf

/-! RFC 4648 §4 read as a bit string: the bytes most significant bit first, zero-padded to a multiple
of 6 bits, each 6-bit group looked up in the alphabet, `=` up to a multiple of 4 characters. -/

def alphabet : Bytes :=
  [65, 66, 67, 68, 69, 70, 71, 72, 73, 74, 75, 76, 77, 78, 79, 80, 81, 82, 83, 84, 85, 86, 87, 88, 89, 90,
   97, 98, 99, 100, 101, 102, 103, 104, 105, 106, 107, 108, 109, 110, 111, 112, 113, 114, 115, 116, 117, 118,
   119, 120, 121, 122, 48, 49, 50, 51, 52, 53, 54, 55, 56, 57, 43, 47]

def bitsOfByte (b : Nat) : List Nat := [b / 128 % 2, b / 64 % 2, b / 32 % 2, b / 16 % 2, b / 8 % 2, b / 4 % 2, b / 2 % 2, b % 2]

def valOfBits (bits : List Nat) : Nat := bits.foldl (fun acc x => 2 * acc + x) 0

def groups6 : Nat → List Nat → List (List Nat)
  | 0, _ => []
  | n + 1, bits => if bits.isEmpty then [] else (bits.take 6 ++ List.replicate (6 - (bits.take 6).length) 0) :: groups6 n (bits.drop 6)

def specB64 (bs : Bytes) : Bytes :=
  let bits := bs.flatMap bitsOfByte
  let syms := (groups6 bits.length bits).map fun g => alphabet.getD (valOfBits g) 0
  syms ++ List.replicate ((4 - syms.length % 4) % 4) 61

/-- `data:application/json;charset=utf-8;base64,` or `data:application/json;base64,` -/
def dataPrefixes : List Bytes :=
  [[100, 97, 116, 97, 58, 97, 112, 112, 108, 105, 99, 97, 116, 105, 111, 110, 47, 106, 115, 111, 110, 59,
    99, 104, 97, 114, 115, 101, 116, 61, 117, 116, 102, 45, 56, 59, 98, 97, 115, 101, 54, 52, 44],
   [100, 97, 116, 97, 58, 97, 112, 112, 108, 105, 99, 97, 116, 105, 111, 110, 47, 106, 115, 111, 110, 59,
    98, 97, 115, 101, 54, 52, 44]]

/-- is `url` a base64 JSON data URL for `json` in the sense of RFC 2397 / RFC 4648 -/
def isDataUrlOf (url json : Bytes) : Bool := dataPrefixes.any fun p => url == p ++ specB64 json

end Spec
end SmVerif.Detect
