import SmVerif.Model.Builder
/-
Model of index maps (types.rs): `DecodedMap`, `SourceMapIndex`, `SourceMapSection`,
`SourceMapIndex::flatten` (builder loop with checked offset additions, recursion into nested
indexes, unresolved section → CannotFlatten, final `into_sourcemap`), `SourceMapIndex::lookup_token`
(greatest_lower_bound over the section offsets, then the offset subtraction) and the section sort of
`decode_index` (decoder.rs).

Second half: the independent specification of C08 (`Spec.*`) - no builder, no bisection.
-/
namespace SmVerif

mutual
/-- `DecodedMap` -/
inductive DMap where
  | regular (m : SMap)
  | hermes (m : SMap)                          -- `SourceMapHermes` derefs to its `sm` for both operations
  | index (file : Option Bytes) (secs : Secs)
/-- `Vec<SourceMapSection>`: offset, url, embedded map (absent = `unres`) -/
inductive Secs where
  | nil
  | unres (ol oc : Nat) (url : Option Bytes) (rest : Secs)
  | cons (ol oc : Nat) (url : Option Bytes) (d : DMap) (rest : Secs)
end

/-- what a `Token` reports: source and name as strings, original line and (range-shifted) column -/
structure Origin where
  src : Option Bytes
  sl : Nat
  sc : Nat
  name : Option Bytes
  deriving DecidableEq, Repr

namespace Index
open Lookup

/-- section offsets in section order -/
def offsets : Secs → List Pos
  | .nil => []
  | .unres ol oc _ rest => (ol, oc) :: offsets rest
  | .cons ol oc _ _ rest => (ol, oc) :: offsets rest

/-! ### flatten -/

/-- body of the token loop of `flatten` for one token `t` of the section map `m` -/
def flattenTok (m : SMap) (ol oc : Nat) (t : Tok) (b : Bld) : Res Bld :=
  -- `dst_col.checked_add(off_col)` (first line only), then `dst_line.checked_add(off_line)`
  if t.dl = 0 ∧ t.dc + oc > NONE then .error .flatten
  else if t.dl + ol > NONE then .error .flatten
  else
    let dc := if t.dl = 0 then t.dc + oc else t.dc
    let (b1, raw) := b.add (t.dl + ol) dc t.sl t.sc (m.tokSource t) (m.tokName t) t.rng
    let r2 : Res Bld :=
      if (m.tokSource t).isSome && !b1.hasSourceContents raw.src then
        b1.setSourceContents raw.src (m.getSourceContents t.src)
      else .ok b1
    match r2 with
    | .error e => .error e
    | .ok b2 => .ok (if m.ignore.contains t.src then b2.addToIgnoreList raw.src else b2)

def flattenToks (m : SMap) (ol oc : Nat) : List Tok → Bld → Res Bld
  | [], b => .ok b
  | t :: ts, b =>
    match flattenTok m ol oc t b with
    | .error e => .error e
    | .ok b => flattenToks m ol oc ts b

mutual
/-- the map a section contributes: itself, or the flattened nested index -/
def sectionMap : DMap → Res SMap
  | .regular m => .ok m
  | .hermes m => .ok m
  | .index file secs =>
    match flattenSecs secs (Bld.new file) with
    | .error e => .error e
    | .ok b => .ok b.intoSourcemap
/-- the section loop of `flatten` -/
def flattenSecs : Secs → Bld → Res Bld
  | .nil, b => .ok b
  | .unres _ _ _ _, _ => .error .flatten          -- "Section has an unresolved sourcemap"
  | .cons ol oc _ d rest, b =>
    match sectionMap d with
    | .error e => .error e
    | .ok m =>
      match flattenToks m ol oc m.tokens b with
      | .error e => .error e
      | .ok b => flattenSecs rest b
end

/-- `SourceMapIndex::flatten` -/
def flatten (file : Option Bytes) (secs : Secs) : Res SMap := sectionMap (.index file secs)

/-! ### lookup -/

/-- the `Token` view of a lookup result on map `m` -/
def originOf (m : SMap) (t : Tok) (c : Nat) : Origin :=
  { src := m.tokSource t, sl := t.sl, sc := c, name := m.tokName t }

def leafLookup (m : SMap) (q : Pos) : Res (Option Origin) :=
  match lookup m.tokens q with
  | .error e => .error e
  | .ok none => .ok none
  | .ok (some (_, t, c)) => .ok (some (originOf m t c))

mutual
/-- `DecodedMap::lookup_token` -/
def dmapLookup : DMap → Pos → Res (Option Origin)
  | .regular m, q => leafLookup m q
  | .hermes m, q => leafLookup m q
  | .index _ secs, q =>
    match glb (offsets secs) q with
    | none => .ok none
    | some i => lookupAt secs i q
/-- the part of `SourceMapIndex::lookup_token` after the section has been chosen:
`section.get_sourcemap()?`, then `map.lookup_token(line - off_line, if line == off_line {col - off_col} else {col})`
with checked u32 subtractions -/
def lookupAt : Secs → Nat → Pos → Res (Option Origin)
  | .nil, _, _ => .ok none
  | .unres _ _ _ _, 0, _ => .ok none
  | .unres _ _ _ rest, i + 1, q => lookupAt rest i q
  | .cons ol oc _ d _, 0, q =>
    if q.1 < ol then .error .panic
    else if q.1 = ol then
      if q.2 < oc then .error .panic else dmapLookup d (q.1 - ol, q.2 - oc)
    else dmapLookup d (q.1 - ol, q.2)
  | .cons _ _ _ _ rest, i + 1, q => lookupAt rest i q
end

/-- `SourceMapIndex::lookup_token` -/
def indexLookup (secs : Secs) (q : Pos) : Res (Option Origin) := dmapLookup (.index none secs) q

/-! ### `decode_index`: `sections.sort_by_key(get_offset)` (stable), at every nesting level -/

def insertSec (ol oc : Nat) (url : Option Bytes) (d : Option DMap) : Secs → Secs
  | .nil => match d with
    | some d => .cons ol oc url d .nil
    | none => .unres ol oc url .nil
  | .unres ol' oc' url' rest =>
    if posLe (ol', oc') (ol, oc) && !((ol', oc') == (ol, oc)) then .unres ol' oc' url' (insertSec ol oc url d rest)
    else match d with
      | some d => .cons ol oc url d (.unres ol' oc' url' rest)
      | none => .unres ol oc url (.unres ol' oc' url' rest)
  | .cons ol' oc' url' d' rest =>
    if posLe (ol', oc') (ol, oc) && !((ol', oc') == (ol, oc)) then .cons ol' oc' url' d' (insertSec ol oc url d rest)
    else match d with
      | some d => .cons ol oc url d (.cons ol' oc' url' d' rest)
      | none => .unres ol oc url (.cons ol' oc' url' d' rest)

mutual
def decodeSort : DMap → DMap
  | .regular m => .regular m
  | .hermes m => .hermes m
  | .index f secs => .index f (decodeSortSecs secs)
def decodeSortSecs : Secs → Secs
  | .nil => .nil
  | .unres ol oc url rest => insertSec ol oc url none (decodeSortSecs rest)
  | .cons ol oc url d rest => insertSec ol oc url (some (decodeSort d)) (decodeSortSecs rest)
end

end Index

/-! ## Specification (independent of the builder and of the bisection) -/
namespace Index.Spec
open Lookup

/-- a token as the API shows it: generated position, source and name as strings, original
position, range flag -/
structure VTok where
  dl : Nat
  dc : Nat
  src : Option Bytes
  sl : Nat
  sc : Nat
  name : Option Bytes
  rng : Bool
  deriving DecidableEq, Repr

/-- a token together with what its map says about its source: the contents and whether the source
is on the ignore list -/
structure XTok where
  v : VTok
  cont : Option Bytes
  ign : Bool
  deriving DecidableEq, Repr

def VTok.pos (v : VTok) : Pos := (v.dl, v.dc)

/-- move a token down by the section's line offset and, on the section's first line only, right
by its column offset -/
def shiftV (ol oc : Nat) (v : VTok) : VTok :=
  { v with dl := v.dl + ol, dc := if v.dl = 0 then v.dc + oc else v.dc }

def shiftX (ol oc : Nat) (x : XTok) : XTok := { x with v := shiftV ol oc x.v }

/-- the addition stays inside u32 -/
def fitsShift (ol oc : Nat) (v : VTok) : Bool :=
  decide (v.dl + ol ≤ NONE) && (v.dl != 0 || decide (v.dc + oc ≤ NONE))

def xOfTok (m : SMap) (t : Tok) : XTok :=
  { v := { dl := t.dl, dc := t.dc, src := m.tokSource t, sl := t.sl, sc := t.sc, name := m.tokName t, rng := t.rng },
    cont := m.getSourceContents t.src, ign := m.ignore.contains t.src }

/-- contents of a source name: the first contents present among the tokens naming it -/
def firstCont (xs : List XTok) : Option Bytes → Option Bytes
  | none => none
  | some s => xs.findSome? fun x => if x.v.src = some s then x.cont else none

/-- a source name is ignored when some token naming it has an ignored source -/
def anyIgn (xs : List XTok) (s : Option Bytes) : Bool := xs.any fun x => x.ign && x.v.src == s

/-- re-read contents / ignore flags by source *name* (what a flattened map knows) -/
def byName (xs : List XTok) : List XTok :=
  xs.map fun x => { x with cont := firstCont xs x.v.src, ign := anyIgn xs x.v.src }

def sortX (xs : List XTok) : List XTok := xs.mergeSort fun a b => posLe a.v.pos b.v.pos

mutual
/-- the tokens a map describes; an index describes the (position-ordered) concatenation of its
sections' shifted tokens -/
def specX : DMap → List XTok
  | .regular m => m.tokens.map (xOfTok m)
  | .hermes m => m.tokens.map (xOfTok m)
  | .index _ secs => sortX (byName (specSecs secs))
/-- concatenation over the sections, each section's tokens shifted by its offset (flatten order) -/
def specSecs : Secs → List XTok
  | .nil => []
  | .unres _ _ _ rest => specSecs rest
  | .cons ol oc _ d rest => (specX d).map (shiftX ol oc) ++ specSecs rest
end

/-- `flattenSpec`: the tokens of the flattened map before ordering -/
def flattenSpec (secs : Secs) : List XTok := specSecs secs

mutual
/-- every section is resolved and no offset addition overflows, at every nesting level -/
def flattenable : DMap → Bool
  | .regular _ => true
  | .hermes _ => true
  | .index _ secs => flattenableSecs secs
def flattenableSecs : Secs → Bool
  | .nil => true
  | .unres _ _ _ _ => false
  | .cons ol oc _ d rest =>
    flattenable d && (specX d).all (fun x => fitsShift ol oc x.v) && flattenableSecs rest
end

/-- order in which sources (names) get their ids: first appearance -/
def dedupFirst : List Bytes → List Bytes → List Bytes
  | [], acc => acc
  | s :: ss, acc => if acc.contains s then dedupFirst ss acc else dedupFirst ss (acc ++ [s])

/-! ### well-formed index maps (the quantifier of C08) -/

def SortedB (ts : List Tok) : Bool :=
  match ts with
  | [] => true
  | t :: rest => rest.all (fun u => posLe (Tok.pos t) (Tok.pos u)) && SortedB rest

def firstOffset : Secs → Option Pos
  | .nil => none
  | .unres ol oc _ _ => some (ol, oc)
  | .cons ol oc _ _ _ => some (ol, oc)

mutual
/-- sections at strictly increasing offsets, every section resolved (unless `allowUnres`), its shifted
tokens inside u32 and strictly before the next section's offset; nested indexes likewise; plain maps
ordered (an invariant of `SourceMap`, C04) -/
def wfG (allowUnres : Bool) : DMap → Bool
  | .regular m => SortedB m.tokens
  | .hermes m => SortedB m.tokens
  | .index _ secs => wfSecsG allowUnres secs
def wfSecsG (allowUnres : Bool) : Secs → Bool
  | .nil => true
  | .unres ol oc _ rest =>
    allowUnres &&
    (match firstOffset rest with
     | none => true
     | some o => posLt (ol, oc) o) &&
    wfSecsG allowUnres rest
  | .cons ol oc _ d rest =>
    wfG allowUnres d && (specX d).all (fun x => fitsShift ol oc x.v) &&
    (match firstOffset rest with
     | none => true
     | some o => posLt (ol, oc) o && (specX d).all (fun x => posLt (shiftV ol oc x.v).pos o)) &&
    wfSecsG allowUnres rest
end

/-- the quantifier of C08 -/
def wf (d : DMap) : Bool := wfG false d
def wfSecs (secs : Secs) : Bool := wfSecsG false secs

mutual
def tokCount : DMap → Nat
  | .regular m => m.tokens.length
  | .hermes m => m.tokens.length
  | .index _ secs => tokCountSecs secs
def tokCountSecs : Secs → Nat
  | .nil => 0
  | .unres _ _ _ rest => tokCountSecs rest
  | .cons _ _ _ d rest => tokCount d + tokCountSecs rest
end

/-! ### lookups, declaratively -/

def originV (v : VTok) (q : Pos) : Origin :=
  { src := v.src, sl := v.sl,
    sc := if v.rng && v.dl = q.1 then satAdd v.sc (q.2 - v.dc) else v.sc, name := v.name }

/-- admissible answers of a lookup on a token list (cf. `Lookup.lookupSpec`): nothing at or before
`q` gives `[]`; otherwise the tokens at the greatest position not after `q` - the first of them when
`q` is exactly that position -/
def lookupAlts (vs : List VTok) (q : Pos) : List Origin :=
  let cands := vs.filter fun v => posLe v.pos q
  match cands with
  | [] => []
  | c :: cs =>
    let best := cs.foldl (fun b v => if posLt b v.pos then v.pos else b) c.pos
    let atBest := cands.filter fun v => v.pos = best
    ((if best = q then atBest.take 1 else atBest).map fun v => originV v q)

/-- the query in a section's own coordinates -/
def subPos (q o : Pos) : Pos := (q.1 - o.1, if q.1 = o.1 then q.2 - o.2 else q.2)

def better (o q : Pos) (best : Option Pos) : Bool :=
  posLe o q && (match best with | none => true | some b => posLt b o)

mutual
/-- admissible answers of a lookup on a decoded map: for an index, the answers of the section with
the greatest offset not after the position, asked at the position relative to that offset -/
def lookupSpecD : DMap → Pos → List Origin
  | .regular m, q => lookupAlts (m.tokens.map fun t => (xOfTok m t).v) q
  | .hermes m, q => lookupAlts (m.tokens.map fun t => (xOfTok m t).v) q
  | .index _ secs, q => lookupSpecSecs secs q none []
def lookupSpecSecs : Secs → Pos → Option Pos → List Origin → List Origin
  | .nil, _, _, acc => acc
  | .unres ol oc _ rest, q, best, acc =>
    if better (ol, oc) q best then lookupSpecSecs rest q (some (ol, oc)) []
    else lookupSpecSecs rest q best acc
  | .cons ol oc _ d rest, q, best, acc =>
    if better (ol, oc) q best then lookupSpecSecs rest q (some (ol, oc)) (lookupSpecD d (subPos q (ol, oc)))
    else lookupSpecSecs rest q best acc
end

end Index.Spec
end SmVerif
