import SmVerif.Model.Proto
import SmVerif.Model.Raw
import SmVerif.Model.DocSpec
/-
Driver family `doc.` (C01, C02, C03): reads the structured description of a JSON document from the
case line (the harness renders the same tokens to JSON text; grammar in harness/src/ops/doc.rs) into
a `RawDoc`, runs the model, and prints what the property demands.
-/
namespace SmVerif.DrvDoc
open SmVerif SmVerif.Raw SmVerif.Proto SmVerif.DocSpec

deriving instance DecidableEq for RawDoc

def hexOf (s : String) : Bytes := hexPairs s.toList

/-- `s<hex>` → the string, anything else (`null`) → none -/
def optStr (v : String) : Option Bytes :=
  if v.startsWith "s" then some (hexPairs (v.toList.drop 1)) else none

def parseJVal (v : String) : JVal :=
  if v = "null" then .other
  else if v.startsWith "s" then .str (hexPairs (v.toList.drop 1))
  else if v.startsWith "n" then .num ((v.toList.drop 1).map Char.toNat)
  else .other

/-- `[a,b,…]`, `[]`, or `null` -/
def optList {α} (v : String) (f : String → α) : Option (List α) :=
  if v = "null" then none else if v = "[]" then some []
  else some (((String.ofList ((v.toList.drop 1).dropLast)).splitOn ",").map f)

def optNat (v : String) : Option Nat := if v = "null" then none else some (parseNat v)

def hexDash (h : String) : Bytes := if h = "-" then [] else hexOf h

def parseFbEntry (v : String) : Option (List FbMeta) :=
  if v = "null" then none
  else
    let body := String.ofList (v.toList.drop 1)
    if body = "" then some []
    else some ((body.splitOn "+").map fun m =>
      match m.splitOn "/" with
      | [ns, mp] => { names := if ns = "[]" then [] else (ns.splitOn ".").map hexDash, mappings := hexDash mp }
      | _ => { names := [], mappings := [] })

def setItem (f : RawFlat) (k v : String) : RawFlat :=
  if k = "ver" then { f with version := optNat v }
  else if k = "file" then { f with file := if v = "null" then none else some (parseJVal v) }
  else if k = "srcs" then { f with sources := optList v optStr }
  else if k = "root" then { f with sourceRoot := optStr v }
  else if k = "sc" then { f with sourcesContent := optList v optStr }
  else if k = "names" then { f with names := optList v parseJVal }
  else if k = "rm" then { f with rangeMappings := optStr v }
  else if k = "map" then { f with mappings := optStr v }
  else if k = "ign" then { f with ignoreList := optList v parseNat }
  else if k = "fbo" then { f with fbOffsets := optList v optNat }
  else if k = "mmp" then { f with metroPaths := optList v fun s => (optStr s).getD [] }
  else if k = "fbs" then { f with fbSources := optList v parseFbEntry }
  else if k = "did" then { f with debugId := optStr v }
  else if k = "didn" then { f with debugIdNew := optStr v }
  else f      -- `x=` (an unknown key) and `amap=` do not reach the record

def splitKV (s : String) : String × String :=
  match s.splitOn "=" with
  | k :: rest => (k, "=".intercalate rest)
  | [] => ("", "")

structure PState where
  flat : RawFlat := {}
  secs : Option RawSecs := none
  amap : Option String := none

mutual
/-- `{ item* }` → document, the (mappings, abstract deltas) pairs met, remaining tokens -/
partial def parseDoc (ts : List String) (am : List (Bytes × String)) :
    Option (RawDoc × List (Bytes × String) × List String) :=
  match ts with
  | "{" :: rest => parseItems rest {} am
  | _ => none
partial def parseItems (ts : List String) (st : PState) (am : List (Bytes × String)) :
    Option (RawDoc × List (Bytes × String) × List String) :=
  match ts with
  | [] => none
  | "}" :: rest =>
    let am := match st.flat.mappings, st.amap with
      | some m, some a => (m, a) :: am
      | _, _ => am
    let d := match st.secs with
      | none => RawDoc.plain st.flat
      | some s => RawDoc.indexed st.flat s
    some (d, am, rest)
  | "secs=[" :: rest =>
    match parseSecs rest am with
    | none => none
    | some (secs, am, rest) => parseItems rest { st with secs := some secs } am
  | tk :: rest =>
    let (k, v) := splitKV tk
    if k = "amap" then parseItems rest { st with amap := some v } am
    else if k = "secs" then parseItems rest { st with secs := none } am
    else parseItems rest { st with flat := setItem st.flat k v } am
partial def parseSecs (ts : List String) (am : List (Bytes × String)) :
    Option (RawSecs × List (Bytes × String) × List String) :=
  match ts with
  | "]" :: rest => some (.nil, am, rest)
  | "(" :: rest =>
    match parseSec rest 0 0 none .none am with
    | none => none
    | some (l, c, u, m, am, rest) =>
      match parseSecs rest am with
      | none => none
      | some (more, am, rest) => some (.cons l c u m more, am, rest)
  | _ => none
partial def parseSec (ts : List String) (l c : Nat) (u : Option Bytes) (m : RawOpt) (am : List (Bytes × String)) :
    Option (Nat × Nat × Option Bytes × RawOpt × List (Bytes × String) × List String) :=
  match ts with
  | ")" :: rest => some (l, c, u, m, am, rest)
  | "map" :: rest =>
    match parseDoc rest am with
    | none => none
    | some (d, am, rest) => parseSec rest l c u (.some d) am
  | tk :: rest =>
    let (k, v) := splitKV tk
    if k = "off" then
      match v.splitOn ":" with
      | [a, b] => parseSec rest (parseNat a) (parseNat b) u m am
      | _ => none
    else if k = "url" then parseSec rest l c (optStr v) m am
    else if k = "map" then parseSec rest l c u .none am
    else none
  | [] => none
end

/-- the generator's own VLQ text against the standard reading: every segment reads as the abstract
fields it was written from -/
def amapOk (m : Bytes) (a : String) : Bool :=
  let tl := Mappings.splitOn Mappings.SEMI m
  let al := a.splitOn ";"
  tl.length = al.length && (tl.zip al).all fun (tline, aline) =>
    let ts := Mappings.splitOn Mappings.COMMA tline
    let as := aline.splitOn ","
    ts.length = as.length && (ts.zip as).all fun (tseg, aseg) =>
      if aseg = "" then tseg = []
      else V3.fields tseg = some ((aseg.splitOn ":").map parseInt)

def parseTok (s : String) : Tok :=
  let f := (s.splitOn ":").map parseNat
  let g (i : Nat) : Nat := f.getD i 0
  { dl := g 0, dc := g 1, sl := g 2, sc := g 3, src := g 4, name := g 5, rng := g 6 != 0 }

/-- the `toks=` item of a `new`-mode description -/
def toksOf (ts : List String) : List Tok :=
  match ts.find? (fun t => t.startsWith "toks=") with
  | none => []
  | some t => ((String.ofList (t.toList.drop 5)).splitOn ";").map parseTok

/-- `SourceMap::new` + `set_source_root` + `set_debug_id` + `add_to_ignore_list`, as the harness calls them -/
def buildNew (f : RawFlat) (toks : List Tok) : SMap :=
  let m := SMap.new (f.file.map (lenientFile 0)) toks ((f.names.getD []).map lenientName)
    ((f.sources.getD []).map fun s => s.getD []) f.sourcesContent
  let m := m.setSourceRoot f.sourceRoot
  let m := { m with debugId := f.debugId }
  (f.ignoreList.getD []).foldl SMap.addToIgnoreList m

def fbOfRaw : RawDoc → String
  | .plain f => (match f.fbSources with | none => "~" | some r => showFb r)
  | .indexed _ _ => "~"

/-- the ops on a map built from raw components -/
def handleNew (op : String) (f : RawFlat) (toks : List Tok) : String :=
  let m := buildNew f toks
  let d1 := DMap.regular m
  let nsrc := (f.sources.getD []).length
  if op = "doc.dec" then s!"ok {showDMap true d1}\t-\t1"
  else match asRaw d1 with
    | .error e => s!"err enc-{e.toString}\tencodes\t1"
    | .ok r1 =>
      if op = "doc.enc" then
        let spec := if !V3.wfToks nsrc toks || toks.any (·.rng) then "-" else
          match checkEncoded d1 r1 with
          | none => "="
          | some x => "violates " ++ x
        s!"ok {showRaw r1}\t{spec}\t1"
      else if op = "doc.rt" then
        match decodeCommon r1 with
        | .error e => s!"err re-{e.toString}\tre-decodes\t1"
        | .ok d2 =>
          match asRaw d2 with
          | .error e => s!"err enc-{e.toString}\tencodes\t1"
          | .ok r2 =>
            let model := "ok " ++ showDMap false d1 ++ " " ++ showDMap false d2 ++
              s!" stable={b2s (decide (r1 = r2))} reader=1 fb=~"
            -- second-generation stability is claimed for decoded maps only: for a raw-constructed map
            -- the flag is whatever the model says
            let spec := if !wfNewC01 nsrc toks then "-" else
              let x := obsView "R" (viewNew f toks)
              "ok " ++ x ++ " " ++ x ++ s!" stable={b2s (decide (r1 = r2))} reader=1 fb=~"
            s!"{model}\t{spec}\t1"
      else "bad-op\t-\t0"

def handleDoc (toks : List String) : String :=
  match toks with
  | op :: opt :: rest =>
    match parseDoc rest [] with
    | some (d, am, []) =>
      if (opt.splitOn ":").getD 2 "dec" = "new" then handleNew op d.flat (toksOf rest)
      else if !(am.all fun (m, a) => amapOk m a) then "err gen-vlq-mismatch\tgen-vlq-mismatch\t1"
      else if op = "doc.dec" then
        let model := match decodeCommon d with
          | .ok m => "ok " ++ showDMap true m
          | .error e => "err " ++ e.toString
        let spec := match readDoc true d with
          | .fault => "err"
          | .silent => "-"
          | .val s => "ok " ++ s
        s!"{model}\t{spec}\t1"
      else if op = "doc.rt" then
        match decodeCommon d with
        | .error e => s!"err {e.toString}\t{match readDoc false d with | .fault => "err" | .silent => "-" | .val _ => "decodes"}\t1"
        | .ok d1 =>
          match asRaw d1 with
          | .error e => s!"err enc-{e.toString}\tencodes\t1"
          | .ok r1 =>
            match decodeCommon r1 with
            | .error e => s!"err re-{e.toString}\tre-decodes\t1"
            | .ok d2 =>
              match asRaw d2 with
              | .error e => s!"err enc-{e.toString}\tencodes\t1"
              | .ok r2 =>
                let model := "ok " ++ showDMap false d1 ++ " " ++ showDMap false d2 ++
                  s!" stable={b2s (decide (r1 = r2))} reader=1 fb={fbOfRaw r1}"
                -- C01: the map read back shows what the document's own reading shows; bytes are stable
                let spec := if dmapHasRange d1 then "-" else
                  match readDoc false d with
                  | .fault => "err"
                  | .silent => "-"
                  | .val x => "ok " ++ x ++ " " ++ x ++ s!" stable=1 reader=1 fb={fbOfRaw d}"
                s!"{model}\t{spec}\t1"
      else if op = "doc.enc" then
        match decodeCommon d with
        | .error e => s!"err {e.toString}\t-\t1"
        | .ok d1 =>
          match asRaw d1 with
          | .error e => s!"err enc-{e.toString}\tencodes\t1"
          | .ok r1 =>
            let model := "ok " ++ showRaw r1
            let spec := if dmapHasRange d1 then "-" else
              match checkEncoded d1 r1 with
              | none => "="
              | some x => "violates " ++ x
            s!"{model}\t{spec}\t1"
      else "bad-op\t-\t0"
    | _ => "bad-op-case\t-\t0"
  | _ => "bad-op\t-\t0"

end SmVerif.DrvDoc
