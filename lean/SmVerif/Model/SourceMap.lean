import SmVerif.Generated.Consts
import SmVerif.Model.Lookup
/-
Model of `SourceMap` (types.rs) as a value: fields, `new`, the source-root / prefixed-sources
bookkeeping, setters and accessors.  Strings are byte strings (`List Nat`).
-/
namespace SmVerif

abbrev Bytes := List Nat

/-- `SourceMap` -/
structure SMap where
  file : Option Bytes := none
  tokens : List Tok := []
  names : List Bytes := []
  root : Option Bytes := none
  sources : List Bytes := []                 -- raw names, as serialised
  prefixed : Option (List Bytes) := none     -- `sources_prefixed`
  contents : List (Option Bytes) := []       -- `sources_content` (may be shorter than `sources`)
  ignore : List Nat := []                    -- `BTreeSet<u32>`: strictly increasing
  debugId : Option Bytes := none
  deriving Repr, DecidableEq

namespace SMap

def isPrefixOf (p s : Bytes) : Bool := p.isPrefixOf s

/-- `prefix_source`: the absolute prefixes are regenerated from types.rs -/
def prefixSource (root source : Bytes) : Bytes :=
  let root := if root.getLast? = some 47 then root.dropLast else root
  let isAbs := !source.isEmpty && Consts.absPrefixes.any (fun p => isPrefixOf p source)
  if isAbs then source else root ++ 47 :: source

/-- `SourceMap::new`: sorts the tokens; everything else as given -/
def new (file : Option Bytes) (tokens : List Tok) (names sources : List Bytes)
    (contents : Option (List (Option Bytes))) : SMap :=
  { file := file, tokens := Lookup.sortToks tokens, names := names, sources := sources,
    contents := contents.getD [] }

/-- `set_source_root` -/
def setSourceRoot (m : SMap) (root : Option Bytes) : SMap :=
  match root with
  | some r => if r.isEmpty then { m with root := root, prefixed := none }
              else { m with root := root, prefixed := some (m.sources.map (prefixSource r)) }
  | none => { m with root := none, prefixed := none }

/-- `get_source` -/
def getSource (m : SMap) (i : Nat) : Option Bytes := (m.prefixed.getD m.sources)[i]?

/-- `set_source`: indexing panics for an id that does not exist -/
def setSource (m : SMap) (i : Nat) (v : Bytes) : Res SMap :=
  if i ≥ m.sources.length then .error .panic
  else
    let m' := { m with sources := m.sources.set i v }
    match m.prefixed with
    | none => .ok m'
    | some p =>
      if i ≥ p.length then .error .panic
      else match m.root with
        | none => .error .panic          -- `unwrap()` on a missing root
        | some r => .ok { m' with prefixed := some (p.set i (prefixSource r v)) }

/-- `Vec::resize(n, None)` -/
def resizeOpt (l : List (Option Bytes)) (n : Nat) : List (Option Bytes) :=
  if l.length ≥ n then l.take n else l ++ List.replicate (n - l.length) none

/-- `set_source_contents` -/
def setSourceContents (m : SMap) (i : Nat) (v : Option Bytes) : Res SMap :=
  let c := if m.contents.length ≠ m.sources.length then resizeOpt m.contents m.sources.length else m.contents
  if i ≥ c.length then .error .panic else .ok { m with contents := c.set i v }

/-- `get_source_contents` -/
def getSourceContents (m : SMap) (i : Nat) : Option Bytes := (m.contents[i]?).join

/-- ordered insert without duplicates (`BTreeSet::insert`) -/
def insertSorted (x : Nat) : List Nat → List Nat
  | [] => [x]
  | y :: ys => if x < y then x :: y :: ys else if x = y then y :: ys else y :: insertSorted x ys

def addToIgnoreList (m : SMap) (i : Nat) : SMap := { m with ignore := insertSorted i m.ignore }

def getName (m : SMap) (i : Nat) : Option Bytes := m.names[i]?

/-- `Token::get_source`, `get_name` -/
def tokSource (m : SMap) (t : Tok) : Option Bytes := if t.src = NONE then none else m.getSource t.src
def tokName (m : SMap) (t : Tok) : Option Bytes := if t.name = NONE then none else m.getName t.name

/-- `source_contents()` iterator: one entry per *source* -/
def sourceContents (m : SMap) : List (Option Bytes) :=
  (List.range m.sources.length).map m.getSourceContents

/-- `set_file`, `set_debug_id` -/
def setFile (m : SMap) (f : Option Bytes) : SMap := { m with file := f }
def setDebugId (m : SMap) (d : Option Bytes) : SMap := { m with debugId := d }

/-- `sources()` iterator: `get_source(0), get_source(1), …` until the first `None` -/
def sourcesRead (m : SMap) : List Bytes := m.prefixed.getD m.sources

/-- the serde-level fields that `as_raw_sourcemap` (encoder.rs) writes and `decode_regular`
(decoder.rs) reads, apart from `mappings`/`rangeMappings` (C01-C03); JSON text itself is trusted serde -/
structure RawFields where
  sources : List Bytes                          -- `sources: Some(vec of Some(name))`
  root : Option Bytes                           -- `sourceRoot`, skipped when `None`
  contents : Option (List (Option Bytes))       -- `sourcesContent`, skipped when `None`
  names : List Bytes
  file : Option Bytes
  ignore : Option (List Nat)                    -- `ignoreList`, skipped when `None`
  debugId : Option Bytes                        -- `debug_id`
  deriving Repr, DecidableEq

/-- `as_raw_sourcemap`: the *raw* sources and the root are written, never the prefixed names; contents
are one entry per source and only written when at least one is present; an empty ignore list is omitted -/
def asRawFields (m : SMap) : RawFields :=
  let cs := m.sourceContents
  { sources := m.sources, root := m.root,
    contents := if cs.any Option.isSome then some cs else none,
    names := m.names, file := m.file,
    ignore := if m.ignore.isEmpty then none else some m.ignore,
    debugId := m.debugId }

/-- `decode_regular` after the token loop: `SourceMap::new`, `set_source_root`, `set_debug_id`,
`add_to_ignore_list` for every listed id.  `toks` are the decoded tokens (C01/C02). -/
def ofRawFields (r : RawFields) (toks : List Tok) : SMap :=
  let m := SMap.new r.file toks r.names r.sources r.contents
  let m := m.setSourceRoot r.root
  let m := m.setDebugId r.debugId
  (r.ignore.getD []).foldl (fun m i => m.addToIgnoreList i) m

/-- `to_writer` followed by `from_slice` for a map whose tokens survive the mappings round trip
unchanged (C01; the C13 correspondence uses token-less maps for this op) -/
def reload (m : SMap) : SMap := ofRawFields (asRawFields m) m.tokens

end SMap
end SmVerif
