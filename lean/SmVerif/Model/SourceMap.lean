import SmVerif.Generated.Consts
import SmVerif.Model.Lookup
/-
Model of `SourceMap` (types.rs) as a value: fields, `new`, the source-root / prefixed-sources
bookkeeping, setters and accessors.  Strings are byte strings (`List Nat`).
-/
namespace SmVerif

abbrev Bytes := List Nat

/-- `SourceMap` -/
structure SMap where
  file : Option Bytes := none
  tokens : List Tok := []
  names : List Bytes := []
  root : Option Bytes := none
  sources : List Bytes := []                 -- raw names, as serialised
  prefixed : Option (List Bytes) := none     -- `sources_prefixed`
  contents : List (Option Bytes) := []       -- `sources_content` (may be shorter than `sources`)
  ignore : List Nat := []                    -- `BTreeSet<u32>`: strictly increasing
  debugId : Option Bytes := none
  deriving Repr, DecidableEq

namespace SMap

def isPrefixOf (p s : Bytes) : Bool := p.isPrefixOf s

/-- `prefix_source`: the absolute prefixes are regenerated from types.rs -/
def prefixSource (root source : Bytes) : Bytes :=
  let root := if root.getLast? = some 47 then root.dropLast else root
  let isAbs := !source.isEmpty && Consts.absPrefixes.any (fun p => isPrefixOf p source)
  if isAbs then source else root ++ 47 :: source

/-- `SourceMap::new`: sorts the tokens; everything else as given -/
def new (file : Option Bytes) (tokens : List Tok) (names sources : List Bytes)
    (contents : Option (List (Option Bytes))) : SMap :=
  { file := file, tokens := Lookup.sortToks tokens, names := names, sources := sources,
    contents := contents.getD [] }

/-- `set_source_root` -/
def setSourceRoot (m : SMap) (root : Option Bytes) : SMap :=
  match root with
  | some r => if r.isEmpty then { m with root := root, prefixed := none }
              else { m with root := root, prefixed := some (m.sources.map (prefixSource r)) }
  | none => { m with root := none, prefixed := none }

/-- `get_source` -/
def getSource (m : SMap) (i : Nat) : Option Bytes := (m.prefixed.getD m.sources)[i]?

/-- `set_source`: indexing panics for an id that does not exist -/
def setSource (m : SMap) (i : Nat) (v : Bytes) : Res SMap :=
  if i ≥ m.sources.length then .error .panic
  else
    let m' := { m with sources := m.sources.set i v }
    match m.prefixed with
    | none => .ok m'
    | some p =>
      if i ≥ p.length then .error .panic
      else match m.root with
        | none => .error .panic          -- `unwrap()` on a missing root
        | some r => .ok { m' with prefixed := some (p.set i (prefixSource r v)) }

/-- `Vec::resize(n, None)` -/
def resizeOpt (l : List (Option Bytes)) (n : Nat) : List (Option Bytes) :=
  if l.length ≥ n then l.take n else l ++ List.replicate (n - l.length) none

/-- `set_source_contents` -/
def setSourceContents (m : SMap) (i : Nat) (v : Option Bytes) : Res SMap :=
  let c := if m.contents.length ≠ m.sources.length then resizeOpt m.contents m.sources.length else m.contents
  if i ≥ c.length then .error .panic else .ok { m with contents := c.set i v }

/-- `get_source_contents` -/
def getSourceContents (m : SMap) (i : Nat) : Option Bytes := (m.contents[i]?).join

/-- ordered insert without duplicates (`BTreeSet::insert`) -/
def insertSorted (x : Nat) : List Nat → List Nat
  | [] => [x]
  | y :: ys => if x < y then x :: y :: ys else if x = y then y :: ys else y :: insertSorted x ys

def addToIgnoreList (m : SMap) (i : Nat) : SMap := { m with ignore := insertSorted i m.ignore }

def getName (m : SMap) (i : Nat) : Option Bytes := m.names[i]?

/-- `Token::get_source`, `get_name` -/
def tokSource (m : SMap) (t : Tok) : Option Bytes := if t.src = NONE then none else m.getSource t.src
def tokName (m : SMap) (t : Tok) : Option Bytes := if t.name = NONE then none else m.getName t.name

/-- `source_contents()` iterator: one entry per *source* -/
def sourceContents (m : SMap) : List (Option Bytes) :=
  (List.range m.sources.length).map m.getSourceContents

end SMap
end SmVerif
