import SmVerif.Model.Basic
/-
Line-protocol helpers for the driver: hex, integer lists, result printing.
-/
namespace SmVerif.Proto
open SmVerif

def hexVal (c : Char) : Nat :=
  if '0' ≤ c ∧ c ≤ '9' then c.toNat - 48
  else if 'a' ≤ c ∧ c ≤ 'f' then c.toNat - 87
  else if 'A' ≤ c ∧ c ≤ 'F' then c.toNat - 55
  else 0

def hexPairs : List Char → List Nat
  | a :: b :: r => (hexVal a * 16 + hexVal b) :: hexPairs r
  | _ => []

/-- `-` is the empty byte string -/
def parseHex (s : String) : List Nat := if s = "-" then [] else hexPairs s.toList

def hexDigit (n : Nat) : Char := if n < 10 then Char.ofNat (48 + n) else Char.ofNat (87 + n)

def toHex (bs : List Nat) : String :=
  if bs.isEmpty then "-" else String.ofList (bs.flatMap fun b => [hexDigit (b / 16), hexDigit (b % 16)])

def parseInt (s : String) : Int := s.toInt?.getD 0
def parseNat (s : String) : Nat := s.toNat?.getD 0

def splitList (s : String) (sep : String := ",") : List String :=
  if s = "-" ∨ s = "" then [] else s.splitOn sep

def parseInts (s : String) : List Int := (splitList s).map parseInt
def parseNats (s : String) : List Nat := (splitList s).map parseNat

def showList {α} (f : α → String) (xs : List α) (sep : String := ",") : String :=
  if xs.isEmpty then "-" else sep.intercalate (xs.map f)

def showInts (xs : List Int) : String := showList toString xs
def showNats (xs : List Nat) : String := showList toString xs

def showRes {α} (f : α → String) : Res α → String
  | .ok a => "ok " ++ f a
  | .error e => "err " ++ e.toString

def b2s (b : Bool) : String := if b then "1" else "0"

end SmVerif.Proto
