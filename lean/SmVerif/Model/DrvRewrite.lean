import SmVerif.Model.Proto
import SmVerif.Model.Rewrite
import SmVerif.Model.RewriteSpec
/- driver family `rw.` (C09); field conventions as in harness/src/ops/rw.rs -/
namespace SmVerif.DrvRewrite
open SmVerif SmVerif.Proto SmVerif.Rw

def listOf (f : String) : List Bytes := if f = "_" then [] else (f.splitOn ",").map parseHex
def optOf (f : String) : Option Bytes := if f = "~" then none else some (parseHex f)
def optListOf (f : String) : List (Option Bytes) := if f = "_" then [] else (f.splitOn ",").map optOf

def parseTok (s : String) : Tok :=
  let f := (s.splitOn ":").map parseNat
  let g (i : Nat) : Nat := f.getD i 0
  { dl := g 0, dc := g 1, sl := g 2, sc := g 3, src := g 4, name := g 5, rng := g 6 != 0 }
def parseToks (s : String) : List Tok := (splitList s ";").map parseTok

def showOpt : Option Bytes → String
  | none => "~"
  | some b => toHex b
def showItems (xs : List String) (sep : String) : String := if xs.isEmpty then "_" else sep.intercalate xs

def showView (v : RwSpec.View) : String :=
  s!"{v.dl}:{v.dc}:{showOpt v.src}:{v.sl}:{v.sc}:{showOpt v.name}:{b2s v.rng}"

def showOut (o : RwSpec.Out) : String :=
  s!"ok T={showItems (o.toks.map showView) ";"} S={showItems (o.sources.map toHex) ","} N={showItems (o.names.map toHex) ","} C={showItems (o.contents.map showOpt) ","} F={showOpt o.file} D={showOpt o.debugId}"

def showRawTok (t : Tok) : String := s!"{t.dl}:{t.dc}:{t.sl}:{t.sc}:{t.src}:{t.name}:{b2s t.rng}"

def showRaw (m : SMap) : String :=
  s!"ok T={showItems (m.tokens.map showRawTok) ";"} R={showOpt m.root} I={showItems (m.ignore.map toString) ","} n={m.sources.length}/{m.names.length}"

/-- the input map, built as the harness builds it -/
def buildMap (srcs names root conts file dbg toks ign : String) : SMap :=
  let contents := if conts = "_" then none else some (optListOf conts)
  let m := SMap.new (optOf file) (parseToks toks) (listOf names) (listOf srcs) contents
  let m := m.setSourceRoot (optOf root)
  let m := { m with debugId := optOf dbg }
  (parseNats ign).foldl (fun m i => m.addToIgnoreList i) m

def parseFmap (f : String) : Option FMap :=
  if f = "~" then none
  else match f.splitOn "=" with
    | [ns, es] =>
      let names := if ns = "" then [] else (ns.splitOn "+").map parseHex
      let entries := if es = "" then [] else (es.splitOn "+").map fun e =>
        let v := (e.splitOn ".").map parseNat
        (v.getD 0 0, v.getD 1 0, v.getD 2 0)
      some { names := names, entries := entries }
    | _ => none

/-- do two tokens of the map that carry the same source name always select equal function maps? (the
hypothesis of `c09_hermes_scope`; it holds in particular when the source names are distinct) -/
def sameNameSameFmap (m : SMap) (fms : List (Option FMap)) : Bool :=
  m.tokens.all fun t => m.tokens.all fun u =>
    !(m.tokSource t == m.tokSource u) || (m.tokSource t).isNone || ((fms[t.src]?).join == (fms[u.src]?).join)

def handleRewrite (toks : List String) : String :=
  match toks with
  | [op, srcs, names, root, conts, file, dbg, tks, ign, wn, wc, pre] =>
    if op != "rw.run" && op != "rw.raw" then "bad-op\t-\t0" else
    let m := buildMap srcs names root conts file dbg tks ign
    let o : RewriteOpts := { withNames := wn != "0", withContents := wc != "0", stripPrefixes := listOf pre }
    let r := m.rewrite o
    if op = "rw.run" then
      let model := match r with
        | .ok m' => showOut (RwSpec.observe m')
        | .error e => "err " ++ e.toString
      let spec := showOut (RwSpec.rewriteSpec m o.withNames o.withContents o.stripPrefixes)
      s!"{model}\t{spec}\t1"
    else
      let model := match r with
        | .ok m' => showRaw m'
        | .error e => "err " ++ e.toString
      s!"{model}\t-\t1"
  | ["rw.hermes", srcs, names, fmaps, tks, wn, wc, pre] =>
    let fms : List (Option FMap) := if fmaps = "_" then [] else (fmaps.splitOn ",").map parseFmap
    let m := SMap.new none (parseToks tks) (listOf names) (listOf srcs) none
    let o : RewriteOpts := { withNames := wn != "0", withContents := wc != "0", stripPrefixes := listOf pre }
    match hermesRewrite m fms o with
    | .error e => s!"err {e.toString}\t-\t1"
    | .ok (m', fms') =>
      let before := m.tokens.map fun t => showOpt (scopeFor fmScope fms t)
      let after := m'.tokens.map fun t => showOpt (scopeFor fmScope fms' t)
      let x := String.join (fms'.map fun f => if f.isSome then "1" else "0")
      let x := if x = "" then "_" else x
      let pairs := (before.zip after).map fun (a, b) => s!"{a}/{b}"
      let model := s!"ok {showItems pairs ";"} X={x}"
      -- the property: every token resolves to the same enclosing function as before
      let spec := s!"ok {showItems (before.map fun a => s!"{a}/{a}") ";"} X={x}"
      -- one function map per source; sources that share a NAME but carry different function maps are
      -- merged by rewrite (open finding F19): the specification still demands unchanged scopes there
      let inside := fms.length = (listOf srcs).length
      s!"{model}\t{if inside then spec else "-"}\t1"
  | _ => "bad-op\t-\t0"

end SmVerif.DrvRewrite
