import SmVerif.Model.SourceView
/-
Small-step model of a `SourceView` shared between threads (sourceview.rs `get_line`, `line_count`,
`lines`), C16.  It runs the `scan` step of the sequential model (Model/SourceView.lean) under a lock.

Shared state (`Sh`): `processed` (= `processed_until`), `history` (every value `processed` has had;
the un-synchronised relaxed load of the "finished check" may return ANY of them - a superset of
what the hardware memory model allows), `lines` (the `Vec` inside the mutex), `lock` (the thread
holding the mutex), `poisoned`.

Per thread (`Th`): the remaining program (calls `g idx` / `c` / `a`), the results so far, and a pc.
Phases of `get_line(idx)` exactly as the code has them:

  start   `self.lines.lock().unwrap()` + cached-line check + unlock      (one atomic step; needs the
                                                                         lock free)
          -- yield_point(1) --
  fin     `processed_until.load(Relaxed) > len` ?                        (no lock; any history value)
  finGet    finished: `self.lines.lock().unwrap().get(idx).copied()`     (atomic; needs the lock free)
          -- yield_point(2) --
  acq     second `lock().unwrap()`; re-check of the cache; `done := processed_until > len` read
          under the lock; either returns (unlock) or keeps the lock       (atomic; needs the lock free)
  loop    one iteration of `while !done`: slice `source[processed..]` (panic when `processed > len`),
          `scan`, `fetch_add`, `push`, `lines.get(idx)`; the last one unlocks
                                                                         (one step per iteration, so
                                                                         that other threads' relaxed
                                                                         loads can fall in between)
`line_count` = `get_line(!0)` then `lock + len` (phase `cnt`); `lines()` = `get_line(0)`,
`get_line(1)`, … until `None` (the iterator's `u32` index overflows - a panic in the harness build -
after line 2^32-1).

A `lock().unwrap()` on a poisoned mutex panics; a panic while holding the lock poisons it.
All accesses to `lines` and all writes to `processed_until` happen inside critical sections, so the
critical sections are atomic for every observer except the relaxed load of `fin`, which is why
only the loop is split into steps.

`fixed = false` is the code before commit 663e049 (no re-check under the second lock, `return None`
straight after the finished check); it is kept as the regression witness of F11.
-/
namespace SmVerif.SVC
open SmVerif SmVerif.SV

inductive Call where
  | g (idx : Nat)   -- get_line(idx)
  | c               -- line_count()
  | a               -- lines().collect()
  deriving DecidableEq, Repr

inductive Val where
  | line (l : Option (List Nat))
  | count (n : Nat)
  | all (ls : List (List Nat))
  | panic
  deriving DecidableEq, Repr

/-- on whose behalf `get_line` runs -/
inductive Ctx where
  | plain
  | count
  | all (acc : List (List Nat))
  deriving DecidableEq, Repr

inductive Ph where
  | start | fin | finGet | acq | loop
  deriving DecidableEq, Repr

inductive Pc where
  | idle                                   -- between calls (start of the next call, or finished)
  | gl (ctx : Ctx) (idx : Nat) (ph : Ph)   -- inside get_line(idx)
  | cnt                                    -- line_count: `self.lines.lock().unwrap().len()`
  | panicked
  deriving DecidableEq, Repr

structure Th where
  prog : List Call
  results : List (Call × Val) := []
  pc : Pc := .idle
  deriving DecidableEq, Repr

structure Sh where
  processed : Nat := 0
  history : List Nat := [0]
  lines : List (List Nat) := []
  lock : Option Nat := none
  poisoned : Bool := false
  deriving DecidableEq, Repr

structure State where
  sh : Sh := {}
  threads : List Th
  deriving DecidableEq, Repr

def initState (progs : List (List Call)) : State :=
  { threads := progs.map fun p => { prog := p } }

/-- the current call returns `v` -/
def Th.finish (th : Th) (v : Val) : Th :=
  match th.prog with
  | [] => { th with pc := .idle }
  | cl :: rest => { prog := rest, results := th.results ++ [(cl, v)], pc := .idle }

/-- the current call panics: recorded as `P`, the thread ends -/
def Th.crash (th : Th) : Th :=
  match th.prog with
  | [] => { th with pc := .panicked }
  | cl :: _ => { prog := [], results := th.results ++ [(cl, .panic)], pc := .panicked }

/-- `get_line(idx)` returns `r` to its caller `ctx` -/
def Th.ret (th : Th) (ctx : Ctx) (idx : Nat) (r : Option (List Nat)) : Th :=
  match ctx with
  | .plain => th.finish (.line r)
  | .count => { th with pc := .cnt }
  | .all acc =>
    match r with
    | none => th.finish (.all acc)
    | some l =>
      -- `self.idx += 1` on a u32
      if idx + 1 ≥ U32 then th.crash
      else { th with pc := .gl (.all (acc ++ [l])) (idx + 1) .start }

/-- first critical section: lock, cached-line check, unlock -/
def startStep (sh : Sh) (th : Th) (ctx : Ctx) (idx : Nat) : Option (Sh × Th) :=
  if sh.lock ≠ none then none
  else if sh.poisoned then some (sh, th.crash)
  else match sh.lines[idx]? with
    | some l => some (sh, th.ret ctx idx (some l))
    | none => some (sh, { th with pc := .gl ctx idx .fin })

/-- one step of thread `me`; `v` is the value returned by the relaxed load (used in phase `fin` only,
must be an element of the history).  `none`: the thread cannot move (blocked on the lock, finished). -/
def tstep (fixed : Bool) (src : List Nat) (sh : Sh) (me : Nat) (th : Th) (v : Nat) : Option (Sh × Th) :=
  match th.pc with
  | .panicked => none
  | .idle =>
    match th.prog with
    | [] => none
    | .g i :: _ => startStep sh th .plain i
    | .c :: _ => startStep sh th .count NONE
    | .a :: _ => startStep sh th (.all []) 0
  | .gl ctx idx .start => startStep sh th ctx idx
  | .gl ctx idx .fin =>
    if v ∈ sh.history then
      if v > src.length then
        (if fixed then some (sh, { th with pc := .gl ctx idx .finGet }) else some (sh, th.ret ctx idx none))
      else some (sh, { th with pc := .gl ctx idx .acq })
    else none
  | .gl ctx idx .finGet =>
    if sh.lock ≠ none then none
    else if sh.poisoned then some (sh, th.crash)
    else some (sh, th.ret ctx idx sh.lines[idx]?)
  | .gl ctx idx .acq =>
    if sh.lock ≠ none then none
    else if sh.poisoned then some (sh, th.crash)
    else if fixed then
      match sh.lines[idx]? with
      | some l => some (sh, th.ret ctx idx (some l))
      | none =>
        if sh.processed > src.length then some (sh, th.ret ctx idx none)
        else some ({ sh with lock := some me }, { th with pc := .gl ctx idx .loop })
    else some ({ sh with lock := some me }, { th with pc := .gl ctx idx .loop })
  | .gl ctx idx .loop =>
    if sh.lock ≠ some me then none
    else if sh.processed > src.length then
      -- `&source.as_bytes()[processed..]` out of range: panic with the guard alive
      some ({ sh with lock := none, poisoned := true }, th.crash)
    else
      let r := scan (src.drop sh.processed)
      let p' := sh.processed + r.2.1
      let lines' := sh.lines ++ [r.1]
      match lines'[idx]? with
      | some l =>
        some ({ sh with processed := p', history := sh.history ++ [p'], lines := lines', lock := none },
              th.ret ctx idx (some l))
      | none =>
        if r.2.2 then
          some ({ sh with processed := p', history := sh.history ++ [p'], lines := lines', lock := none },
                th.ret ctx idx none)
        else some ({ sh with processed := p', history := sh.history ++ [p'], lines := lines' }, th)
  | .cnt =>
    if sh.lock ≠ none then none
    else if sh.poisoned then some (sh, th.crash)
    else some (sh, th.finish (.count sh.lines.length))

def step? (fixed : Bool) (src : List Nat) (s : State) (t v : Nat) : Option State :=
  match s.threads[t]? with
  | none => none
  | some th =>
    match tstep fixed src s.sh t th v with
    | none => none
    | some (sh', th') => some { sh := sh', threads := s.threads.set t th' }

/-- the calls of a thread: those answered so far, then those still to run -/
def Th.calls (th : Th) : List Call := th.results.map (·.1) ++ th.prog

/-- the states the (repaired) code can reach from a fresh view: any number of threads with any
programs, any interleaving of their steps, any history value for each relaxed load, and further
threads (later callers) joining at any time.  `progs` lists the programs of the threads present. -/
inductive Reachable (src : List Nat) : List (List Call) → State → Prop
  | init (progs : List (List Call)) : Reachable src progs (initState progs)
  | step {progs : List (List Call)} {s s' : State} {t v : Nat} :
      Reachable src progs s → step? true src s t v = some s' → Reachable src progs s'
  | spawn {progs : List (List Call)} {s : State} (p : List Call) :
      Reachable src progs s → Reachable src (progs ++ [p]) { s with threads := s.threads ++ [{ prog := p }] }

def Th.finished (th : Th) : Bool :=
  match th.pc with
  | .panicked => true
  | .idle => th.prog.isEmpty
  | _ => false

/-! ### deterministic replay of a harness schedule (`conc.run`)

The harness parks every thread at its pause points - the start of each call after the first,
`yield_point(1)` (= entering phase `fin`), `yield_point(2)` (= entering phase `acq`) - and one schedule
entry lets one thread run to its next pause point or to the end of its program.  Only one thread
runs at a time, so the relaxed load returns the current value. -/

def Th.atPause (th : Th) : Bool :=
  match th.pc with
  | .idle => true
  | .panicked => true
  | .gl _ _ .fin => true
  | .gl _ _ .acq => true
  | _ => false

def runToPause (fixed : Bool) (src : List Nat) : Nat → State → Nat → State
  | 0, s, _ => s
  | fuel + 1, s, t =>
    match step? fixed src s t s.sh.processed with
    | none => s
    | some s' =>
      match s'.threads[t]? with
      | some th => if th.atPause then s' else runToPause fixed src fuel s' t
      | none => s'

/-- thread `t` alone until it cannot move any more -/
def runToEnd (fixed : Bool) (src : List Nat) : Nat → State → Nat → State
  | 0, s, _ => s
  | fuel + 1, s, t =>
    match step? fixed src s t s.sh.processed with
    | none => s
    | some s' => runToEnd fixed src fuel s' t

/-- between two pause points: at most every loop iteration plus every cached line of a `lines()` -/
def pauseFuel (src : List Nat) : Nat := 4 * src.length + 16
def endFuel (src : List Nat) (s : State) : Nat :=
  (s.threads.foldl (fun n th => n + th.prog.length + 1) 1) * (6 * (src.length + 4))

def replay (fixed : Bool) (src : List Nat) (progs : List (List Call)) (sched : List Nat) : State :=
  let s := sched.foldl (fun s t => runToPause fixed src (pauseFuel src) s t) (initState progs)
  (List.range progs.length).foldl (fun s t => runToEnd fixed src (endFuel src s) s t) s

/-- a later caller on the same view: `get_line(0)` by a new thread -/
def usableAfter (fixed : Bool) (src : List Nat) (s : State) : Val :=
  let t := s.threads.length
  let s1 : State := { s with threads := s.threads ++ [{ prog := [.g 0] }] }
  let s2 := runToEnd fixed src (6 * (src.length + 4)) s1 t
  match s2.threads[t]? with
  | some th => match th.results with
    | [(_, v)] => v
    | _ => .panic
  | none => .panic

/-! ### specification: each call answered from the split of the text alone -/

def specAns (src : List Nat) : Call → Val
  | .g i => .line (splitLines src)[i]?
  | .c => .count (splitLines src).length
  | .a => .all (splitLines src)

end SmVerif.SVC
