import SmVerif.Model.Basic
import SmVerif.Generated.Consts
/-
C12 — the XSSI junk-header stripping of `decoder.rs`, on both decoding paths, and `decode_data_url`.

* `StripHeaderReader` (decoder.rs:17-103) is mirrored as a machine over **read calls**: the inner
  reader is a list of chunks (what its successive `read` calls return; `[]` left = end of input,
  where it returns `Ok(0)` for ever).  One call of `StripHeaderReader::read` is `read`, the body
  of `strip_head_read` is `stripHeadRead` (the `loop`) + `scan` (the `for (offset, &byte)` loop with
  its two copying exits).  `consume` is the caller (`BufReader` + `serde_json::from_reader`): it
  calls `read` until `Ok(0)` or `Err` and sees the concatenation of what was returned.
* `strip_junk_header` (decoder.rs:105-125) is `stripJunkHeader`, index arithmetic included.
* `decode_data_url` (decoder.rs:341-355) is `decodeDataUrl` up to the call of `decode_slice`: its
  value is the byte string handed to `decode_slice`.  `data_encoding::BASE64.decode` is modelled by
  an RFC 4648 decoder (`b64Decode`, canonical: padding required, non-zero trailing bits refused,
  every 4-character block may be padded as in data-encoding), `base64_simd::STANDARD.encode` by
  `b64Encode`.
* `Spec` is the chunking-independent reading of the rule, written from the property statement.

JSON parsing (serde_json, reader ≡ slice on the same bytes) is outside the model.
-/
namespace SmVerif.Header
open SmVerif

def CR : Nat := 13
def LF : Nat := 10

/-- `enum HeaderState` -/
inductive HState where
  | undecided | junk | awaitingNewline | pastHeader
  deriving DecidableEq, Repr, Inhabited

/-- `is_junk_json`, over the byte set regenerated from the source -/
def isJunk (b : Nat) : Bool := Consts.junkBytes.contains b

/-- how the `for (offset, &byte) in local_buf[0..read]` loop of `strip_head_read` ends -/
inductive Scan where
  /-- `return Ok(out.len())` after `out` was copied to the front of `buf` -/
  | ret (out : List Nat) (st : HState)
  /-- `fail!(io::Error::new(InvalidData, "expected newline"))`; the state is left as it was -/
  | fail
  /-- the loop ran off the end of the chunk: back to the top of `loop` with this state -/
  | next (st : HState)
  deriving Repr

/-- The per-byte loop over one chunk.  `chunk` is `local_buf[..read]`, `off` the `offset` of the
byte about to be looked at, the list argument the bytes not yet looked at.
`Undecided` + non-junk byte copies the *whole* chunk (`buf[..read] = local_buf[..read]`),
`PastHeader` copies `local_buf[offset..read]`. -/
def scan (chunk : List Nat) : HState → Nat → List Nat → Scan
  | st, _, [] => .next st
  | .undecided, off, b :: rest =>
    if isJunk b then scan chunk .junk (off + 1) rest else .ret chunk .pastHeader
  | .junk, off, b :: rest =>
    scan chunk (if b = CR then .awaitingNewline else if b = LF then .pastHeader else .junk) (off + 1) rest
  | .awaitingNewline, off, b :: rest =>
    if b = LF then scan chunk .pastHeader (off + 1) rest else .fail
  | .pastHeader, off, _ :: _ => .ret (chunk.drop off) .pastHeader

/-- result of one `read` call: what the caller gets (`Ok(n)` + the `n` bytes, or `Err`), the new
header state, and what the inner reader still has to deliver -/
structure CallRes where
  out : Res (List Nat)
  st : HState
  rest : List (List Nat)

/-- `strip_head_read`: `loop { let read = self.r.read(local_buf)?; if read == 0 { return Ok(0) } … }`.
A chunk eaten entirely by the header does **not** end the call: the loop asks the inner reader again. -/
def stripHeadRead : HState → List (List Nat) → CallRes
  | st, [] => ⟨.ok [], st, []⟩
  | st, c :: cs =>
    if c = [] then ⟨.ok [], st, cs⟩
    else match scan c st 0 c with
      | .ret out st' => ⟨.ok out, st', cs⟩
      | .fail => ⟨.error .io, st, cs⟩
      | .next st' => stripHeadRead st' cs

/-- `<StripHeaderReader as Read>::read` -/
def read (st : HState) (chunks : List (List Nat)) : CallRes :=
  if st = .pastHeader then
    match chunks with
    | [] => ⟨.ok [], st, []⟩
    | c :: cs => ⟨.ok c, st, cs⟩
  else stripHeadRead st chunks

/-- the caller: read until `Ok(0)` or `Err`; the value is everything that was delivered.
(`fuel` bounds the number of calls; `diverge` would mean the caller never sees an end.) -/
def consume : Nat → HState → List (List Nat) → Res (List Nat)
  | 0, _, _ => .error .diverge
  | fuel + 1, st, chunks =>
    let r := read st chunks
    match r.out with
    | .error e => .error e
    | .ok [] => .ok []
    | .ok (b :: out) =>
      match consume fuel r.st r.rest with
      | .ok more => .ok (b :: out ++ more)
      | .error e => .error e

/-- the byte stream `serde_json::from_reader` is given by `decode(rdr)` / `is_sourcemap(rdr)` when
the reader `rdr` delivers `chunks` -/
def readerOutput (chunks : List (List Nat)) : Res (List Nat) :=
  consume (chunks.length + 1) .undecided chunks

/-- number of inner `read` calls made until the caller stops, for a run that ends in `Err` -/
def innerReadsToError : Nat → HState → List (List Nat) → Nat → Option Nat
  | 0, _, _, _ => none
  | fuel + 1, st, chunks, total =>
    let r := read st chunks
    match r.out with
    | .error _ => some (total - r.rest.length)
    | .ok [] => none
    | .ok _ => innerReadsToError fuel r.st r.rest total

/-! ### `strip_junk_header` -/

/-- the `for (idx, &byte) in slice.iter().enumerate()` loop -/
def stripLoop (slice : List Nat) : Bool → Nat → List Nat → Res (List Nat)
  | _, _, [] => .ok (slice.drop slice.length)
  | need, idx, b :: rest =>
    if need && b != LF then .error .io
    else if isJunk b then stripLoop slice need (idx + 1) rest
    else if b = CR then stripLoop slice true (idx + 1) rest
    else if b = LF then .ok (slice.drop idx)
    else stripLoop slice need (idx + 1) rest

/-- `strip_junk_header`: the bytes `serde_json::from_slice` is given by `decode_slice` -/
def stripJunkHeader (slice : List Nat) : Res (List Nat) :=
  match slice with
  | [] => .ok slice
  | b :: _ => if !isJunk b then .ok slice else stripLoop slice false 0 slice

/-! ### RFC 4648 base64 (standard alphabet, padded) -/

def PAD : Nat := 61

/-- sextet → character -/
def b64Char (v : Nat) : Nat :=
  if v < 26 then v + 65 else if v < 52 then v + 71 else if v < 62 then v - 4 else if v = 62 then 43 else 47

/-- character → sextet -/
def b64Val (c : Nat) : Option Nat :=
  if 65 ≤ c ∧ c ≤ 90 then some (c - 65)
  else if 97 ≤ c ∧ c ≤ 122 then some (c - 71)
  else if 48 ≤ c ∧ c ≤ 57 then some (c + 4)
  else if c = 43 then some 62
  else if c = 47 then some 63
  else none

/-- RFC 4648 §4 encoder -/
def b64Encode : List Nat → List Nat
  | [] => []
  | [a] => [b64Char (a / 4), b64Char (a % 4 * 16), PAD, PAD]
  | [a, b] => [b64Char (a / 4), b64Char (a % 4 * 16 + b / 16), b64Char (b % 16 * 4), PAD]
  | a :: b :: c :: rest =>
    b64Char (a / 4) :: b64Char (a % 4 * 16 + b / 16) :: b64Char (b % 16 * 4 + c / 64) :: b64Char (c % 64)
      :: b64Encode rest

/-- one block of four characters: `xxxx`, `xxx=` or `xx==`; unused low bits must be zero -/
def b64Block (a b c d : Nat) : Option (List Nat) :=
  match b64Val a, b64Val b with
  | some va, some vb =>
    if c = PAD ∧ d = PAD then
      if vb % 16 = 0 then some [va * 4 + vb / 16] else none
    else match b64Val c with
      | none => none
      | some vc =>
        if d = PAD then
          if vc % 4 = 0 then some [va * 4 + vb / 16, vb % 16 * 16 + vc / 4] else none
        else match b64Val d with
          | none => none
          | some vd => some [va * 4 + vb / 16, vb % 16 * 16 + vc / 4, vc % 4 * 64 + vd]
  | _, _ => none

/-- `data_encoding::BASE64.decode`: length a multiple of four, block by block -/
def b64Decode : List Nat → Option (List Nat)
  | [] => some []
  | a :: b :: c :: d :: rest =>
    match b64Block a b c d, b64Decode rest with
    | some x, some y => some (x ++ y)
    | _, _ => none
  | _ => none

/-! ### `decode_data_url` -/

/-- `str::strip_prefix` -/
def stripPrefix : List Nat → List Nat → Option (List Nat)
  | [], s => some s
  | _ :: _, [] => none
  | p :: ps, c :: cs => if p = c then stripPrefix ps cs else none

/-- `url.strip_prefix(DATA_PREAMBLE).or_else(|| url.strip_prefix(DATA_PREAMBLE_UTF8))`, over the
regenerated list of accepted preambles -/
def stripAccepted : List (List Nat) → List Nat → Option (List Nat)
  | [], _ => none
  | p :: ps, url => match stripPrefix p url with
    | some r => some r
    | none => stripAccepted ps url

/-- `decode_data_url` up to its last line: the value is the argument of `decode_slice` -/
def decodeDataUrl (url : List Nat) : Res (List Nat) :=
  match stripAccepted Consts.dataUrlAccepted url with
  | none => .error .dataurl
  | some b64 =>
    match b64Decode b64 with
    | none => .error .dataurl
    | some data => .ok data

/-- `SourceMap::to_data_url` after serialisation: produced prefix + base64 of the JSON bytes -/
def toDataUrl (json : List Nat) : List Nat := Consts.dataUrlProduced ++ b64Encode json

/-! ### Specification (from the property statement; no chunks, no states of the reader) -/
namespace Spec

/-- the four bytes that start an XSSI junk header: `)` `]` `}` `'` -/
def junkStart : List Nat := [41, 93, 125, 39]

def isNl (b : Nat) : Bool := b == 10 || b == 13

/-- The byte-level automaton over the whole (flattened) input: what the JSON parser must be given
on the reader path. -/
def runBytes : HState → List Nat → Res (List Nat)
  | _, [] => .ok []
  | .undecided, b :: rest => if junkStart.contains b then runBytes .junk rest else .ok (b :: rest)
  | .junk, b :: rest =>
    runBytes (if b = 13 then .awaitingNewline else if b = 10 then .pastHeader else .junk) rest
  | .awaitingNewline, b :: rest => if b = 10 then runBytes .pastHeader rest else .error .io
  | .pastHeader, bs => .ok bs

/-- Declarative reading.  `keepNl` distinguishes the two paths: the slice path hands the parser the
terminating `\n` too (JSON whitespace), the reader path does not.
First line = everything before the first `\n` or `\r`; `\n` and `\r\n` end it, a `\r` followed by
anything else is refused, end of input inside the header leaves nothing. -/
def afterFirstLine (keepNl : Bool) (bs : List Nat) : Res (List Nat) :=
  match bs.dropWhile (fun b => !isNl b) with
  | [] => .ok []
  | b :: t =>
    if b = 10 then .ok (if keepNl then 10 :: t else t)
    else match t with
      | [] => .ok []
      | c :: u => if c = 10 then .ok (if keepNl then 10 :: u else u) else .error .io

def strip (keepNl : Bool) (bs : List Nat) : Res (List Nat) :=
  match bs with
  | [] => .ok []
  | b :: rest => if junkStart.contains b then afterFirstLine keepNl rest else .ok (b :: rest)

end Spec

end SmVerif.Header
