import SmVerif.Model.Proto
import SmVerif.Model.HermesSpec
/-
Driver for the `hermes.` op family (C14).

  hermes.scope <nsrc> <nnames> <mappings hex> <rangeMappings hex|none> <fsrc> <offsets>

  fsrc    := absent | - | src (';' src)*          absent: no x_facebook_sources key; -: []
  src     := n | e | meta ('+' meta)*             n: null, e: []
  meta    := names ':' mappings-hex               names := - | name ('.' name)*, name := hex | _ (empty)
  offsets := - | u32 (',' u32)*

Output `ok T,<scope per token…>,O,<scope per offset…>,R1`; a scope is the hex of the name, `_` for the
empty name, `~` for none.  Tokens in canonical order (all seven fields).  `R1`: after `to_writer`
and decoding again the answers are the same (token answers compared as sets, because the writer drops
exact duplicate tokens).
-/
namespace SmVerif.DrvHermes
open SmVerif SmVerif.Proto SmVerif.Hermes SmVerif.Lookup

def parseName (s : String) : Name := if s = "_" then [] else parseHex s

def parseMeta (s : String) : Meta :=
  match s.splitOn ":" with
  | [n, m] => { names := (splitList n ".").map parseName, mappings := parseHex m }
  | _ => { names := [], mappings := [] }

def parseSrc (s : String) : RawSrc :=
  if s = "n" then none else if s = "e" then some [] else some ((s.splitOn "+").map parseMeta)

def parseFsrc (s : String) : Option (List RawSrc) :=
  if s = "absent" then none else if s = "-" then some [] else some ((s.splitOn ";").map parseSrc)

def showName : Option Name → String
  | none => "~"
  | some [] => "_"
  | some bs => toHex bs

def tokKey (t : Tok) : List Nat := [t.dl, t.dc, t.sl, t.sc, t.src, t.name, if t.rng then 1 else 0]
def lexLe : List Nat → List Nat → Bool
  | [], _ => true
  | _ :: _, [] => false
  | a :: as, b :: bs => a < b || (a == b && lexLe as bs)
def canonToks (ts : List Tok) : List Tok := ts.mergeSort fun a b => lexLe (tokKey a) (tokKey b)

def dedupAdj : List String → List String
  | [] => []
  | [a] => [a]
  | a :: b :: r => if a = b then dedupAdj (b :: r) else a :: dedupAdj (b :: r)

def keyed (fms : List (Option FMap)) (ts : List Tok) : List String :=
  dedupAdj ((canonToks ts).map fun t => s!"{tokKey t}={showName (scopeTok fms t)}")

def offAnswers (h : HMap) (offs : List Nat) : Res (List String) :=
  offs.foldr (fun o acc => match acc with
    | .error e => .error e
    | .ok l => match functionName h o with
      | .error e => .error e
      | .ok n => .ok (showName n :: l)) (.ok [])

/-- the implementation's answers according to the model -/
def runModel (d : HDoc) (offs : List Nat) : String :=
  match decodeHermes d with
  | .error e => "err " ++ e.toString
  | .ok h =>
    match offAnswers h offs with
    | .error e => "err " ++ e.toString
    | .ok oa =>
      let ta := (canonToks h.toks).map fun t => showName (scopeTok h.fms t)
      let rt := match encodeHermes h with
        | .error e => "R-enc-" ++ e.toString
        | .ok d' => match decodeHermes d' with
          | .error e => "R-dec-" ++ e.toString
          | .ok h' => match offAnswers h' offs with
            | .error e => "R-off-" ++ e.toString
            | .ok oa' => if oa' = oa ∧ keyed h'.fms h'.toks = keyed h.fms h.toks then "R1" else "R0"
      "ok " ++ ",".intercalate (["T"] ++ ta ++ ["O"] ++ oa ++ [rt])

/-! ### what the property demands (independent reading) -/

inductive SpecFm where
  | silent                 -- outside the property's quantifier (values beyond 63 bits / u32, unsorted entries)
  | nomap                  -- no function map: null, [], unreadable text
  | map (fm : FMap)

def specFm : RawSrc → SpecFm
  | none => .nomap
  | some [] => .nomap
  | some (m :: _) =>
    if !Metro.fits m then .silent
    else match Metro.read m with
      | none => .nomap
      | some es =>
        if !Metro.inRange m || !Metro.isSorted es then .silent
        else .map { names := m.names, entries := es }

/-- `none`: silent.  A token on source line `u32::MAX` has no representable 1-based line: the literal
reading gives the last entry (every entry precedes line 2^32), the code gives none - both admitted. -/
def specScope (fms : List SpecFm) (src sl sc : Nat) : Option String :=
  match fms[src]? with
  | none => some "~"
  | some .silent => none
  | some .nomap => some "~"
  | some (.map fm) =>
    let a := showName (Metro.scope fm sl sc)
    if sl = NONE ∧ a ≠ "~" then some (a ++ "|~") else some a

def collect : List (Option String) → Option (List String)
  | [] => some []
  | none :: _ => none
  | some a :: r => (collect r).map (a :: ·)

def runSpec (d : HDoc) (offs : List Nat) : String :=
  match d.fsources with
  | none => "-"
  | some raw =>
    let mb := d.mappings
    let rb := d.rmi.getD []
    let rmiOk := ((Mappings.splitOn Mappings.SEMI mb).zipIdx.all fun (ln, l) =>
      ln = [] || (Mappings.decodeRmi ((Mappings.splitOn Mappings.SEMI rb).getD l [])).isSome)
    if !rmiOk then "-" else
    match V3.specDecode mb rb d.nsrc d.nnames with
    | .fault => "err"
    | .outside => "-"
    | .toks ts =>
      let ts := sortToks ts
      let fms := raw.map specFm
      let ta := (canonToks ts).map fun t => specScope fms t.src t.sl t.sc
      let oa := offs.map fun o =>
        match lookup ts (0, o) with
        | .error _ => none
        | .ok none => some "~"
        | .ok (some (_, t, c)) => specScope fms t.src t.sl c
      match collect ta, collect oa with
      | some ta, some oa => "ok " ++ ",".intercalate (["T"] ++ ta ++ ["O"] ++ oa ++ ["R1"])
      | _, _ => "-"

def handleHermes (toks : List String) : String :=
  match toks with
  | ["hermes.scope", nsrc, nn, m, r, fs, offs] =>
    let d : HDoc := { nsrc := parseNat nsrc, nnames := parseNat nn, mappings := parseHex m,
                      rmi := if r = "none" then none else some (parseHex r), fsources := parseFsrc fs }
    let offs := parseNats offs
    s!"{runModel d offs}\t{runSpec d offs}\t1"
  | _ => "bad-op\t-\t0"

end SmVerif.DrvHermes
