import SmVerif.Generated.Consts
import SmVerif.Model.Lookup
/-
Model of function-name resolution:
  js_identifiers.rs  (`is_valid_start`, `is_valid_continue`, `strip_identifier`,
                      `is_valid_javascript_identifier`, `get_javascript_token`)
  sourceview.rs      (`RevTokenIter::next` with its `(line, last_char_offset, last_byte_offset)`
                      cache, `SourceView::get_original_function_name` with `take(128).peekable()`)
  types.rs           (`SourceMap::get_original_function_name` = `lookup_token` + the above,
                      `Token::get_name`)

Text is `List Char`; a `&str` slice is a list of chars, byte offsets into it are `Nat`s counted
with `len8` (UTF-8 length of a char), columns are counted with `len16` (UTF-16 length).
The model is parametric in the three character predicates that come from outside the crate
(`unicode_id_start::is_id_start_unicode`, `is_id_continue_unicode`, `char::is_whitespace`).
-/
namespace SmVerif.NameRes
open SmVerif SmVerif.Lookup

abbrev Str := List Char

/-- `char::len_utf8` -/
def len8 (c : Char) : Nat :=
  if c.toNat < 0x80 then 1 else if c.toNat < 0x800 then 2 else if c.toNat < 0x10000 then 3 else 4
/-- `char::len_utf16` -/
def len16 (c : Char) : Nat := if c.toNat < 0x10000 then 1 else 2

/-- `str::len` (bytes) -/
def u8len : Str → Nat
  | [] => 0
  | c :: cs => len8 c + u8len cs
/-- length in UTF-16 code units -/
def u16len : Str → Nat
  | [] => 0
  | c :: cs => len16 c + u16len cs

/-- the trusted character predicates -/
structure Preds where
  idStart : Char → Bool      -- unicode_id_start::is_id_start_unicode
  idContinue : Char → Bool   -- unicode_id_start::is_id_continue_unicode
  isWs : Char → Bool         -- char::is_whitespace

/-! ### js_identifiers.rs -/

def ZWNJ : Char := Char.ofNat 0x200c
def ZWJ : Char := Char.ofNat 0x200d

def isAscii (c : Char) : Bool := c.toNat < 128
def isAsciiAlpha (c : Char) : Bool := (65 ≤ c.toNat && c.toNat ≤ 90) || (97 ≤ c.toNat && c.toNat ≤ 122)
def isAsciiDigit (c : Char) : Bool := 48 ≤ c.toNat && c.toNat ≤ 57

/-- `is_valid_start` -/
def isValidStart (P : Preds) (c : Char) : Bool :=
  c == '$' || c == '_' || isAsciiAlpha c || (if isAscii c then false else P.idStart c)

/-- `is_valid_continue` -/
def isValidContinue (P : Preds) (c : Char) : Bool :=
  c == '$' || c == '_' || c == ZWNJ || c == ZWJ || isAsciiAlpha c || isAsciiDigit c ||
    (if isAscii c then false else P.idContinue c)

/-- `s.get(..n)`: the prefix of `n` bytes, `none` when `n` is past the end or not on a char
boundary -/
def takeBytes : Str → Nat → Option Str
  | [], n => if n = 0 then some [] else none
  | c :: cs, n =>
    if n = 0 then some []
    else if n < len8 c then none
    else (takeBytes cs (n - len8 c)).map (c :: ·)

/-- `s.get(n..)` -/
def dropBytes : Str → Nat → Option Str
  | [], n => if n = 0 then some [] else none
  | c :: cs, n =>
    if n = 0 then some (c :: cs)
    else if n < len8 c then none
    else dropBytes cs (n - len8 c)

/-- `&s[..e]`: panics where `get` gives `None` -/
def sliceTo (s : Str) (e : Nat) : Res Str :=
  match takeBytes s e with
  | some p => .ok p
  | none => .error .panic

/-- the `for (i, c) in iter` loop of `strip_identifier`: `i` is the byte index of `c`, `e` the
running `end_idx` -/
def stripLoop (P : Preds) : Str → Nat → Nat → Nat
  | [], _, e => e
  | c :: cs, i, e => if isValidContinue P c then stripLoop P cs (i + len8 c) (i + len8 c) else e

/-- `strip_identifier` -/
def stripIdentifier (P : Preds) (s : Str) : Res (Option Str) :=
  match s with
  | [] => .ok none
  | c :: cs =>
    if !isValidStart P c then .ok none
    else
      match sliceTo s (stripLoop P cs (len8 c) (len8 c)) with
      | .ok p => .ok (some p)
      | .error e => .error e

/-- `is_valid_javascript_identifier`: stripping does not shorten the string (byte lengths) -/
def isValidJsIdentifier (P : Preds) (s : Str) : Res Bool :=
  match stripIdentifier P s with
  | .error e => .error e
  | .ok r => .ok ((match r with | some t => u8len t | none => 0) == u8len s)

/-- `s.split_whitespace().next()` -/
def firstWord (P : Preds) (s : Str) : Option Str :=
  match s.dropWhile P.isWs with
  | [] => none
  | w => some (w.takeWhile fun c => !P.isWs c)

/-- `get_javascript_token` -/
def getJavascriptToken (P : Preds) (s : Str) : Res (Option Str) :=
  match firstWord P s with
  | some w => stripIdentifier P w
  | none => .ok none

/-! ### sourceview.rs: `RevTokenIter` -/

/-- `source_line: Option<(&str, usize, usize, usize)>` -/
structure Cache where
  text : Str      -- the line
  line : Nat      -- dst_line
  col : Nat       -- last_char_offset (UTF-16 column of the previous token)
  off : Nat       -- last_byte_offset
  deriving Repr, DecidableEq

/-- `RevTokenIter` (`sv` and the map are the parameters `lines`, `ts` of `revNext`); a `Token` is
its index and its raw token -/
structure RevIter where
  tok : Option (Nat × Tok)
  cache : Option Cache
  deriving Repr

/-- what the iterator yields: the token and the identifier found at its position -/
abbrev Item := (Nat × Tok) × Option Str

/-- the forward scan `for c in source_line.chars() { if idx >= col {break}; off += len8; idx += len16 }` -/
def fwd (col : Nat) : Str → Nat → Nat → Nat
  | [], off, _ => off
  | c :: cs, off, idx => if idx ≥ col then off else fwd col cs (off + len8 c) (idx + len16 c)

/-- the backward scan over `source_line.get(..last_byte_offset).unwrap_or("").chars().rev()`;
`new_offset -= c.len_utf8()` is a checked `usize` subtraction -/
def bwd (move : Nat) : Str → Nat → Nat → Res Nat
  | [], off, _ => .ok off
  | c :: cs, off, idx =>
    if idx ≥ move then .ok off
    else if off < len8 c then .error .panic
    else bwd move cs (off - len8 c) (idx + len16 c)

/-- the `if_chain!` at the top of `next`: the line to scan and the cached `(last_char_offset,
last_byte_offset)`; `none` stands for the two `!0` sentinels (a cached byte offset is smaller than a
line length, so never `usize::MAX`).  `lines[i]?` is `SourceView::get_line(i)`. -/
def selectLine (lines : List Str) (cache : Option Cache) (t : Tok) : Str × Option (Nat × Nat) :=
  match cache with
  | some c =>
    if c.line = t.dl then (c.text, some (c.col, c.off))
    else (match lines[t.dl]? with | some l => (l, none) | none => ([], none))
  | none => (match lines[t.dl]? with | some l => (l, none) | none => ([], none))

/-- "find the byte offset where our token starts" -/
def findOffset (text : Str) (last : Option (Nat × Nat)) (col : Nat) : Res Nat :=
  match last with
  | none => .ok (fwd col text 0 0)
  | some (lastCol, lastOff) =>
    if lastCol < col then .error .panic                  -- `last_char_offset - dst_col` on `usize`
    else bwd (lastCol - col) ((takeBytes text lastOff).getD []).reverse lastOff 0

/-- "remember where we were" and the result -/
def emit (P : Preds) (text : Str) (tk : Nat × Tok) (tok' : Option (Nat × Tok)) (off : Nat) :
    Res (Option Item × RevIter) :=
  if off ≥ u8len text then
    .ok (some (tk, none), { tok := tok', cache := none })
  else
    let st' : RevIter := { tok := tok', cache := some ⟨text, tk.2.dl, tk.2.dc, off⟩ }
    match dropBytes text off with
    | none => .ok (some (tk, none), st')
    | some rest =>
      match getJavascriptToken P rest with
      | .error e => .error e
      | .ok r => .ok (some (tk, r), st')

/-- `RevTokenIter::next` -/
def revNext (P : Preds) (lines : List Str) (ts : List Tok) (st : RevIter) :
    Res (Option Item × RevIter) :=
  match st.tok with
  | none => .ok (none, st)                                    -- `self.token.take()?`
  | some (idx, t) =>
    let tok' : Option (Nat × Tok) :=
      if idx > 0 then (ts[idx - 1]?).map fun u => (idx - 1, u) else none
    let sel := selectLine lines st.cache t
    match findOffset sel.1 sel.2 t.dc with
    | .error e => .error e
    | .ok off => emit P sel.1 (idx, t) tok' off

/-- pull at most `n` items (what `take(n)` lets through), stopping at the first `None` -/
def revCollect (P : Preds) (lines : List Str) (ts : List Tok) : Nat → RevIter → Res (List Item)
  | 0, _ => .ok []
  | n + 1, st =>
    match revNext P lines ts st with
    | .error e => .error e
    | .ok (none, _) => .ok []
    | .ok (some x, st') =>
      match revCollect P lines ts n st' with
      | .error e => .error e
      | .ok l => .ok (x :: l)

/-! ### sourceview.rs: `get_original_function_name` -/

/-- `Peekable<Take<RevTokenIter>>` -/
structure PkIter where
  rev : RevIter
  n : Nat                           -- what `Take` still lets through
  peeked : Option (Option Item)     -- `Peekable::peeked`

/-- `Take::next` -/
def takeNext (P : Preds) (lines : List Str) (ts : List Tok) (it : PkIter) : Res (Option Item × PkIter) :=
  if it.n = 0 then .ok (none, it)
  else
    match revNext P lines ts it.rev with
    | .error e => .error e
    | .ok (r, rev') => .ok (r, { it with rev := rev', n := it.n - 1 })

/-- `Peekable::next` -/
def pkNext (P : Preds) (lines : List Str) (ts : List Tok) (it : PkIter) : Res (Option Item × PkIter) :=
  match it.peeked with
  | some v => .ok (v, { it with peeked := none })
  | none => takeNext P lines ts it

/-- `Peekable::peek` -/
def pkPeek (P : Preds) (lines : List Str) (ts : List Tok) (it : PkIter) : Res (Option Item × PkIter) :=
  match it.peeked with
  | some v => .ok (v, it)
  | none =>
    match takeNext P lines ts it with
    | .error e => .error e
    | .ok (r, it') => .ok (r, { it' with peeked := some r })

def FUNCTION : Str := ['f', 'u', 'n', 'c', 't', 'i', 'o', 'n']

/-- `Token::get_name` -/
def tokName {ν} (names : List ν) (t : Tok) : Option ν := if t.name = NONE then none else names[t.name]?

/-- the `while let Some(..) = iter.next()` loop; `fuel` bounds the iterations -/
def resolveLoop {ν} (P : Preds) (lines : List Str) (ts : List Tok) (names : List ν) (name : Str) :
    Nat → PkIter → Res (Option ν)
  | 0, _ => .error .diverge
  | fuel + 1, it =>
    match pkNext P lines ts it with
    | .error e => .error e
    | .ok (none, _) => .ok none
    | .ok (some (tk, ident), it1) =>
      if ident = some name then
        match pkPeek P lines ts it1 with
        | .error e => .error e
        | .ok (some (_, some id2), it2) =>
          if id2 = FUNCTION then .ok (tokName names tk.2) else resolveLoop P lines ts names name fuel it2
        | .ok (_, it2) => resolveLoop P lines ts names name fuel it2
      else resolveLoop P lines ts names name fuel it1

/-- `SourceView::get_original_function_name(token, minified_name)` -/
def svResolve {ν} (P : Preds) (lines : List Str) (ts : List Tok) (names : List ν)
    (token : Nat × Tok) (name : Str) : Res (Option ν) :=
  match isValidJsIdentifier P name with
  | .error e => .error e
  | .ok false => .ok none
  | .ok true =>
    resolveLoop P lines ts names name (Consts.nameWindow + 2)
      { rev := { tok := some token, cache := none }, n := Consts.nameWindow, peeked := none }

/-- `SourceMap::get_original_function_name(line, col, minified_name, sv)`; `ts` are the map's
tokens as stored (ordered by `SourceMap::new`) -/
def resolve {ν} (P : Preds) (lines : List Str) (ts : List Tok) (names : List ν)
    (q : Pos) (name : Str) : Res (Option ν) :=
  match lookup ts q with
  | .error e => .error e
  | .ok none => .ok none
  | .ok (some (i, t, _)) => svResolve P lines ts names (i, t) name

/-- `SourceView::get_line` for every index at once: split at `\r\n`, `\n` or a lone `\r`
(char-level twin of `SV.splitLines`; the driver cross-checks the two on every case) -/
def splitLinesAux : Str → Str → List Str
  | [], cur => [cur.reverse]
  | '\r' :: '\n' :: rest, cur => cur.reverse :: splitLinesAux rest []
  | '\r' :: rest, cur => cur.reverse :: splitLinesAux rest []
  | '\n' :: rest, cur => cur.reverse :: splitLinesAux rest []
  | c :: rest, cur => splitLinesAux rest (c :: cur)

def splitLines (s : Str) : List Str := splitLinesAux s []

end SmVerif.NameRes
