/-
Shared vocabulary of the executable model.  Import-free (core only) so that the
line-protocol driver links as a native executable.
-/
namespace SmVerif

/-- Outcome kinds of the modelled Rust functions.  `panic` and `diverge` are
explicit so that crash-freedom and termination are statements about values. -/
inductive Err where
  | b64          -- Error::InvalidBase64
  | leftover     -- Error::VlqLeftover
  | novalues     -- Error::VlqNoValues
  | overflow     -- Error::VlqOverflow
  | segsize      -- Error::BadSegmentSize
  | srcref       -- Error::BadSourceReference
  | nameref      -- Error::BadNameReference
  | io           -- Error::Io (bad newline after a junk header)
  | json         -- Error::BadJson (not modelled beyond "serde said no")
  | dataurl      -- Error::InvalidDataUrl
  | flatten      -- Error::CannotFlatten
  | incompatible -- Error::IncompatibleSourceMap
  | rammagic | ramindex | ramentry | scroll
  | panic        -- the Rust code would panic here (overflow check, index, unwrap)
  | diverge      -- the Rust code would not terminate
  deriving DecidableEq, Repr, Inhabited

def Err.toString : Err → String
  | .b64 => "b64" | .leftover => "leftover" | .novalues => "novalues" | .overflow => "overflow"
  | .segsize => "segsize" | .srcref => "srcref" | .nameref => "nameref" | .io => "io"
  | .json => "json" | .dataurl => "dataurl" | .flatten => "flatten" | .incompatible => "incompatible"
  | .rammagic => "rammagic" | .ramindex => "ramindex" | .ramentry => "ramentry" | .scroll => "scroll"
  | .panic => "panic" | .diverge => "diverge"

abbrev Res (α : Type) := Except Err α

/-- a result is *safe* when the Rust code neither panics nor hangs -/
def Res.safe {α} : Res α → Prop
  | .error .panic => False
  | .error .diverge => False
  | _ => True

/-- `u32::MAX`, also the `!0` "no source / no name" sentinel -/
def NONE : Nat := 4294967295
def U32 : Nat := 4294967296

/-- two's-complement truncation to `i64` -/
def wrap64 (x : Int) : Int := (x + 9223372036854775808) % 18446744073709551616 - 9223372036854775808
/-- `x as u32` for an `i64` value -/
def wrapU32 (x : Int) : Nat := (x % 4294967296).toNat

def inI64 (x : Int) : Bool := -9223372036854775808 ≤ x && x ≤ 9223372036854775807

end SmVerif
