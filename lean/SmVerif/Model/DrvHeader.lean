import SmVerif.Model.Proto
import SmVerif.Model.Header
/- driver family `hdr.` (C12) -/
namespace SmVerif.DrvHeader
open SmVerif SmVerif.Proto SmVerif.Header

/-- `BufReader`'s default capacity: the `buf.len()` of every read call made by `decode(rdr)` -/
def BUF : Nat := 8192

/-- what the harness' `ChunkReader` delivers: the requested sizes cycled, each at least 1 and capped by
the caller's buffer and by what is left -/
def splitChunks (sizes : List Nat) : Nat → Nat → List Nat → List (List Nat)
  | 0, _, _ => []
  | _, _, [] => []
  | fuel + 1, i, bs =>
    let want := if sizes.isEmpty then BUF else max 1 (sizes.getD (i % sizes.length) 1)
    let n := min want BUF
    bs.take n :: splitChunks sizes fuel (i + 1) (bs.drop n)

def chunksOf (bytes : List Nat) (sizes : List Nat) : List (List Nat) :=
  splitChunks sizes (bytes.length + 1) 0 bytes

/-- cut position: the output must be a suffix of the input; printed as the number of bytes removed -/
def showCut (bytes : List Nat) : Res (List Nat) → String
  | .ok out =>
    let k := bytes.length - out.length
    if bytes.drop k == out then toString k else "NOT-A-SUFFIX"
  | .error .io => "io"
  | .error e => "E" ++ e.toString

def showRn (chunks : List (List Nat)) : String :=
  match innerReadsToError (chunks.length + 1) .undecided chunks chunks.length with
  | some n => toString n
  | none => "-"

/-- cut `bs` after every position whose bit is set in `mask` (bit i = a read boundary after byte i) -/
def cutByMask (mask : Nat) : Nat → List Nat → List Nat → List (List Nat)
  | _, [], cur => if cur.isEmpty then [] else [cur.reverse]
  | i, b :: rest, cur =>
    if rest.isEmpty || (mask >>> i) % 2 == 1 then (b :: cur).reverse :: cutByMask mask (i + 1) rest []
    else cutByMask mask (i + 1) rest (b :: cur)

/-- mode 1 / 2: chunkings with at most that many split points; mode 9: every chunking (same
enumeration as the harness; the unsplit one first) -/
def chunkings (bytes : List Nat) (mode : Nat) : List (List (List Nat)) :=
  let len := bytes.length
  if len = 0 then [[]] else
  if mode ≥ 9 then (List.range (2 ^ (min (len - 1) 20))).map fun mask => cutByMask mask 0 bytes [] else
  let one := (List.range (len - 1)).map fun i => [bytes.take (i + 1), bytes.drop (i + 1)]
  let two := if mode < 2 then [] else
    (List.range (len - 1)).flatMap fun i =>
      ((List.range (len - 1)).filter (fun j => i < j)).map fun j =>
        [bytes.take (i + 1), (bytes.drop (i + 1)).take (j - i), bytes.drop (j + 1)]
  [bytes] :: one ++ two

def handleHdr (toks : List String) : String :=
  match toks with
  | ["hdr.chunked", hx, szs] =>
    let bytes := parseHex hx
    let chunks := chunksOf bytes (parseNats szs)
    let rk := showCut bytes (readerOutput chunks)
    let sk := showCut bytes (stripJunkHeader bytes)
    let rn := showRn chunks
    let line (a b : String) := s!"ok rk={a} sk={b} r=match s=match agree=1 ir=match is=match iagree=1 rn={rn}"
    -- the property: both paths see the stream the rule describes (the slice path with its `\n`), whatever the chunks
    let spec := line (showCut bytes (Spec.strip false bytes)) (showCut bytes (Spec.strip true bytes))
    s!"{line rk sk}\t{spec}\t1"
  | ["hdr.splits", hx, mode] =>
    let bytes := parseHex hx
    let cs := chunkings bytes (parseNat mode)
    let outs := cs.map readerOutput
    let first := outs.headD (.ok [])
    let same (a b : Res (List Nat)) : Bool := showCut bytes a == showCut bytes b
    let bad := (outs.filter fun o => !same o first).length
    let rn := (cs.map fun c => (innerReadsToError (c.length + 1) .undecided c c.length).getD 0).foldl (· + ·) 0
    let line (a b : String) (bad : Nat) := s!"ok rk={a} sk={b} s=match is=match n={cs.length} bad={bad} rn={rn}"
    let spec := line (showCut bytes (Spec.strip false bytes)) (showCut bytes (Spec.strip true bytes)) 0
    s!"{line (showCut bytes first) (showCut bytes (stripJunkHeader bytes)) bad}\t{spec}\t1"
  | ["hdr.dataurl", hx] =>
    let url := parseHex hx
    let model := match decodeDataUrl url with
      | .ok p => s!"ok p={toHex p} d=match"
      | .error e => "err " ++ e.toString
    -- the property speaks about `accepted prefix ++ RFC 4648 encoding of a payload`: a candidate payload is
    -- confirmed by *encoding* it again
    let spec := match stripAccepted Consts.dataUrlAccepted url with
      | none => "-"
      | some b64 => match b64Decode b64 with
        | none => "-"
        | some p => if b64Encode p == b64 then s!"ok p={toHex p} d=match" else "-"
    s!"{model}\t{spec}\t1"
  | ["hdr.b64enc", hx] =>
    s!"ok {toHex (toDataUrl (parseHex hx))} rt=match\t=\t1"
  | _ => "bad-op\t-\t0"

end SmVerif.DrvHeader
