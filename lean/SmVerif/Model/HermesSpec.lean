import SmVerif.Model.Hermes
import SmVerif.Model.V3Spec
/-
Independent reading of Metro's function-map format (`x_facebook_sources[i][0] = {names, mappings}`)
and of the scope lookup, written from the format description and not from the decoder's control flow:

* `mappings` is a `;`-separated list of groups, each a `,`-separated list of segments; empty pieces
  carry nothing.  Every segment is a base64-VLQ list read by the *standard* VLQ reader
  (`V3.fields`, i.e. `specVlq`) with fields `(Δcolumn, Δname-index, Δline)`, the last two optional
  (default 0), anything after them ignored.
* the column of an entry is the sum of the Δcolumn fields of its group up to and including it
  (columns restart in every group); its name index is the sum of *all* Δname-index fields up to and
  including it; its line is 1 plus the sum of all Δline fields up to and including it.
* the scope of a position is the name of the last entry (in document order) whose (line, column) is
  at or before the position, lines counted from 1, columns from 0.

No running state: positions are prefix sums.
-/
namespace SmVerif.Hermes.Metro
open SmVerif SmVerif.Mappings SmVerif.Lookup SmVerif.Hermes

/-- `some` of all values when every element is `some` -/
def allSome {α} : List (Option α) → Option (List α)
  | [] => some []
  | none :: _ => none
  | some a :: r => (allSome r).map (a :: ·)

/-- the non-empty pieces of a string cut at `sep` -/
def pieces (sep : Nat) (s : List Nat) : List (List Nat) := (splitOn sep s).filter (· ≠ [])

/-- the segment texts of a mapping string: one list per non-empty `;` group -/
def groupTexts (m : List Nat) : List (List (List Nat)) := (pieces SEMI m).map (pieces COMMA)

/-- the fields of every segment, `none` as soon as one segment is not a VLQ list by the standard -/
def readGroups (m : List Nat) : Option (List (List (List Int))) :=
  allSome ((groupTexts m).map fun g => allSome (g.map V3.fields))

/-- inclusive prefix sums: `[x₀, x₀+x₁, x₀+x₁+x₂, …]` -/
def prefixSums : List Int → List Int
  | [] => []
  | x :: xs => x :: (prefixSums xs).map (x + ·)

def fld (i : Nat) (seg : List Int) : Int := seg.getD i 0

/-- positions as mathematical integers: (line, column, name index) of every entry, document order -/
def triples (gs : List (List (List Int))) : List (Int × Int × Int) :=
  let flat := gs.flatten
  let cols := (gs.map fun g => prefixSums (g.map (fld 0))).flatten
  let names := prefixSums (flat.map (fld 1))
  let lines := (prefixSums (flat.map (fld 2))).map (1 + ·)
  List.zip lines (List.zip cols names)

def toEntry (t : Int × Int × Int) : Entry := { line := t.1.toNat, column := t.2.1.toNat, name := t.2.2.toNat }

/-- Metro's reading of one metadata entry: `none` when the mapping string is not readable -/
def read (m : Meta) : Option (List Entry) := (readGroups m.mappings).map fun gs => (triples gs).map toEntry

/-- every VLQ value of every segment fits 63 bits (beyond that the code's accumulator truncates) -/
def fits (m : Meta) : Bool := (groupTexts m.mappings).all fun g => g.all V3.segFits

/-- every line, column and name index of the reading is a `u32` -/
def inRange (m : Meta) : Bool :=
  match readGroups m.mappings with
  | none => true
  | some gs => (triples gs).all fun t => V3.inU32 t.1 && V3.inU32 t.2.1 && V3.inU32 t.2.2

/-- **well-formed function-map text** (decidable): values fit 63 bits and, if the text is readable,
all positions and name indices are `u32`s.  (An unreadable text is well-formed in this sense: the
property says what happens to it.) -/
def wfMeta (m : Meta) : Bool := fits m && inRange m

/-- well-formedness of one element of `x_facebook_sources`: only the first metadata entry matters -/
def wfSrc : RawSrc → Bool
  | some (m :: _) => wfMeta m
  | _ => true

/-- the function map the property attaches to a source: none for `null`, `[]` and an unreadable text -/
def fmOf : RawSrc → Option FMap
  | none => none
  | some [] => none
  | some (m :: _) => (read m).map fun es => { names := m.names, entries := es }

/-- entries in non-decreasing order of position (ties allowed) -/
def Sorted (es : List Entry) : Prop := List.Pairwise (fun a b => posLe a.pos b.pos = true) es

def isSorted : List Entry → Bool
  | [] => true
  | [_] => true
  | a :: b :: r => posLe a.pos b.pos && isSorted (b :: r)

/-- the last entry, in document order, at or before `q` -/
def lastLE (es : List Entry) (q : Pos) : Option Entry := (es.filter fun e => posLe e.pos q).getLast?

/-- the scope of original position (0-based line `sl`, 0-based column `sc`) -/
def scope (fm : FMap) (sl sc : Nat) : Option Name :=
  match lastLE fm.entries (sl + 1, sc) with
  | none => none
  | some e => fm.names[e.name]?

end SmVerif.Hermes.Metro
