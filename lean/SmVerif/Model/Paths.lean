import SmVerif.Model.Basic
/-
Model of utils.rs `make_relative_path` (with `find_common_prefix_of_sorted_vec` on two items) and
the specification "resolving the result against the base file's directory gives the target".
Paths are byte strings; components are byte strings.
-/
namespace SmVerif.Paths

def isSep (b : Nat) : Bool := b == 47 || b == 92     -- '/' and '\'

/-- `str::split(&['/', '\\'][..])`, empty pieces kept -/
def splitSep : List Nat → List (List Nat)
  | [] => [[]]
  | c :: cs =>
    if isSep c then [] :: splitSep cs
    else match splitSep cs with
      | [] => [[c]]
      | p :: ps => (c :: p) :: ps

/-- `.split(..).filter(|x| !x.is_empty())` -/
def comps (p : List Nat) : List (List Nat) := (splitSep p).filter (· ≠ [])

/-- the inner loop of `find_common_prefix_of_sorted_vec` for one `seq`: `Some(idx)` of the last
leading match against `shortest`, as a count (`0` = `None`) -/
def leadingMatches : List (List Nat) → List (List Nat) → Nat
  | s :: ss, q :: qs => if q = s then 1 + leadingMatches ss qs else 0
  | _, _ => 0

/-- `find_common_prefix_of_sorted_vec(&[a, b]).map(len).unwrap_or(0)` after
`items.sort_by_key(|x| x.len())` (stable) on `[target, base]`: the running minimum over both
sequences, `None` modelled as 0 -/
def commonPrefixTwo (target base : List (List Nat)) : Nat :=
  let (shortest, other) := if target.length ≤ base.length then (target, base) else (base, target)
  let m1 := leadingMatches shortest shortest
  let m2 := leadingMatches shortest other
  -- `if max_idx.is_none() || seq_max_idx < max_idx { max_idx = seq_max_idx }`
  if m1 = 0 then m2 else if m2 < m1 then m2 else m1

def joinSlash : List (List Nat) → List Nat
  | [] => []
  | [c] => c
  | c :: cs => c ++ 47 :: joinSlash cs

/-- `make_relative_path(base, target)` (after the F15 repair) -/
def makeRel (base target : List Nat) : List Nat :=
  let t := comps target
  let b := (comps base).dropLast
  let k := commonPrefixTwo t b
  let rel := (List.replicate (b.length - k) [46, 46, 47]).flatten ++ joinSlash (t.drop k)
  if rel = [] then [46] else rel

/-! ### specification -/

def DOT : List Nat := [46]
def DOTDOT : List Nat := [46, 46]

/-- resolve the components of a relative path against a directory (a component stack) -/
def resolve (dir : List (List Nat)) : List (List Nat) → List (List Nat)
  | [] => dir
  | c :: cs =>
    if c = DOTDOT then resolve dir.dropLast cs
    else if c = DOT then resolve dir cs
    else resolve (dir ++ [c]) cs

/-- an ordinary component is not `.` or `..` (components never contain separators or are empty) -/
def ordinary (p : List Nat) : Prop := ∀ c ∈ comps p, c ≠ DOT ∧ c ≠ DOTDOT

end SmVerif.Paths
