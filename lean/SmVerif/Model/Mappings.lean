import SmVerif.Model.Vlq
/-
Model of the `mappings` / `rangeMappings` wire format:
  decoder.rs  decode_rmi, decode_regular (the token loop)
  encoder.rs  encode_rmi, serialize_range_mappings, serialize_mappings
Byte strings are `List Nat`.
-/
namespace SmVerif

/-- `RawToken` -/
structure Tok where
  dl : Nat
  dc : Nat
  sl : Nat
  sc : Nat
  src : Nat
  name : Nat
  rng : Bool
  deriving DecidableEq, Repr, Inhabited

namespace Mappings
open Vlq

def SEMI : Nat := 59
def COMMA : Nat := 44

/-- `str::split(sep)`: always at least one piece -/
def splitOn (sep : Nat) : List Nat → List (List Nat)
  | [] => [[]]
  | c :: cs =>
    if c = sep then [] :: splitOn sep cs
    else match splitOn sep cs with
      | [] => [[c]]          -- unreachable: splitOn never returns []
      | p :: ps => (c :: p) :: ps

/-! ### range-mapping bitfields -/

/-- the byte → 6-bit value match of `decode_rmi` (its own table, not `B64`) -/
def rmiVal (b : Nat) : Option Nat :=
  if 65 ≤ b ∧ b ≤ 90 then some (b - 65)
  else if 97 ≤ b ∧ b ≤ 122 then some (b - 97 + 26)
  else if 48 ≤ b ∧ b ≤ 57 then some (b - 48 + 52)
  else if b = 43 then some 62
  else if b = 47 then some 63
  else none

/-- six bits, least significant first (`store_le` into an `Lsb0` bit slice) -/
def bits6 (v : Nat) : List Bool :=
  [v % 2 = 1, v / 2 % 2 = 1, v / 4 % 2 = 1, v / 8 % 2 = 1, v / 16 % 2 = 1, v / 32 % 2 = 1]

/-- `decode_rmi`: `none` on a byte outside the alphabet -/
def decodeRmi : List Nat → Option (List Bool)
  | [] => some []
  | b :: bs => match rmiVal b with
    | none => none
    | some v => (decodeRmi bs).map (bits6 v ++ ·)

/-- `encode_byte` of `encode_rmi` -/
def rmiChar (v : Nat) : Nat :=
  if v ≤ 25 then v + 65 else if v ≤ 51 then v + 97 - 26 else if v ≤ 61 then v + 48 - 52
  else if v = 62 then 43 else 47

def bitsVal : List Bool → Nat
  | [] => 0
  | b :: bs => (if b then 1 else 0) + 2 * bitsVal bs

def chunks6 : List Bool → List (List Bool)
  | [] => []
  | b :: bs =>
    let l := b :: bs
    l.take 6 :: chunks6 (l.drop 6)
termination_by l => l.length
decreasing_by simp; omega

/-- drop trailing `false`s -/
def trimFalse (bs : List Bool) : List Bool :=
  (bs.reverse.dropWhile (· = false)).reverse

/-- `encode_rmi` on a bit vector that has at least one bit set: trim after the last set bit,
6-bit chunks, little-endian within a chunk.  (With no bit set the Rust code keeps bit 0.) -/
def encodeRmi (bs : List Bool) : List Nat :=
  let t := trimFalse bs
  let t := if t.isEmpty then [false] else t
  (chunks6 t).map fun c => rmiChar (bitsVal c)

/-- set bit `i` in a growing bit vector -/
def setBit (bs : List Bool) (i : Nat) : List Bool :=
  (bs ++ List.replicate (i + 1 - bs.length) false).set i true

/-! ### decoding -/

structure DState where
  src : Nat := 0
  sl : Nat := 0
  sc : Nat := 0
  name : Nat := 0
  deriving Repr

/-- one segment (already VLQ-parsed) → token and new running state.  `i` is the index of the
segment on its line (for the range bit). -/
def decodeSeg (nsrc nnames : Nat) (dl : Nat) (bits : List Bool) (i : Nat) (dc : Nat) (st : DState)
    (nums : List Int) : Res (Tok × Nat × DState) :=
  match nums with
  | [] => .error .panic     -- unreachable: parse never returns an empty list (nums[0] would panic)
  | n0 :: rest =>
    let dc' := wrapU32 ((dc : Int) + n0)
    let rng := bits.getD i false
    match rest with
    | [] => .ok ({ dl := dl, dc := dc', sl := 0, sc := 0, src := NONE, name := NONE, rng := rng }, dc', st)
    | [n1, n2, n3] =>
      let s := (st.src : Int) + n1
      if s < 0 ∨ s ≥ (nsrc : Int) then .error .srcref
      else
        let st' : DState := { st with src := s.toNat, sl := wrapU32 (st.sl + n2), sc := wrapU32 (st.sc + n3) }
        .ok ({ dl := dl, dc := dc', sl := st'.sl, sc := st'.sc, src := st'.src, name := NONE, rng := rng }, dc', st')
    | [n1, n2, n3, n4] =>
      let s := (st.src : Int) + n1
      if s < 0 ∨ s ≥ (nsrc : Int) then .error .srcref
      else
        let nm := (st.name : Int) + n4
        if nm < 0 ∨ nm ≥ (nnames : Int) then .error .nameref
        else
          let st' : DState := { src := s.toNat, sl := wrapU32 (st.sl + n2), sc := wrapU32 (st.sc + n3), name := nm.toNat }
          .ok ({ dl := dl, dc := dc', sl := st'.sl, sc := st'.sc, src := st'.src, name := st'.name, rng := rng }, dc', st')
    | _ => .error .segsize

/-- the segments of one line -/
def decodeSegs (nsrc nnames dl : Nat) (bits : List Bool) :
    List (List Nat) → Nat → Nat → DState → List Tok → Res (DState × List Tok)
  | [], _, _, st, acc => .ok (st, acc)
  | seg :: segs, i, dc, st, acc =>
    if seg = [] then decodeSegs nsrc nnames dl bits segs (i + 1) dc st acc
    else match parseVlq seg with
      | .error e => .error e
      | .ok nums => match decodeSeg nsrc nnames dl bits i dc st nums with
        | .error e => .error e
        | .ok (t, dc', st') => decodeSegs nsrc nnames dl bits segs (i + 1) dc' st' (t :: acc)

/-- the lines; `rl` are the remaining pieces of `rangeMappings` (missing pieces are empty) -/
def decodeLines (nsrc nnames : Nat) :
    List (List Nat) → List (List Nat) → Nat → DState → List Tok → Res (List Tok)
  | [], _, _, _, acc => .ok acc.reverse
  | line :: lines, rl, dl, st, acc =>
    let rstr := rl.headD []
    if line = [] then decodeLines nsrc nnames lines rl.tail (dl + 1) st acc
    else match decodeRmi rstr with
      | none => .error .b64
      | some bits => match decodeSegs nsrc nnames dl bits (splitOn COMMA line) 0 0 st acc with
        | .error e => .error e
        | .ok (st', acc') => decodeLines nsrc nnames lines rl.tail (dl + 1) st' acc'

/-- the token loop of `decode_regular`, tokens in document order (before `SourceMap::new` sorts) -/
def decodeMappings (mappings rmi : List Nat) (nsrc nnames : Nat) : Res (List Tok) :=
  decodeLines nsrc nnames (splitOn SEMI mappings) (splitOn SEMI rmi) 0 {} []

/-! ### encoding -/

def hasSource (t : Tok) : Bool := t.src ≠ NONE
/-- `Token::has_name`: the name must resolve -/
def hasName (nnames : Nat) (t : Tok) : Bool := t.name ≠ NONE && decide (t.name < nnames)

def vlqDiff (a b : Nat) : List Nat :=
  match encodeVlq ((a : Int) - (b : Int)) with
  | .ok s => s
  | .error _ => []       -- unreachable for u32 arguments

structure EState where
  line : Nat := 0
  col : Nat := 0
  sl : Nat := 0
  sc : Nat := 0
  name : Nat := 0
  src : Nat := 0
  deriving Repr

def encodeTok (nnames : Nat) (t : Tok) (st : EState) : List Nat × EState :=
  let a := vlqDiff t.dc st.col
  let st := { st with col := t.dc }
  if hasSource t then
    let b := vlqDiff t.src st.src ++ vlqDiff t.sl st.sl ++ vlqDiff t.sc st.sc
    let st := { st with src := t.src, sl := t.sl, sc := t.sc }
    if hasName nnames t then (a ++ b ++ vlqDiff t.name st.name, { st with name := t.name })
    else (a ++ b, st)
  else (a, st)

/-- `serialize_mappings`: `prev` is the previous token (for the exact-duplicate skip).  A token on
an earlier line than the running line makes the `while` loop run away (`diverge`). -/
def serializeLoop (nnames : Nat) : List Tok → Option Tok → EState → List Nat → Res (List Nat)
  | [], _, _, out => .ok out
  | t :: ts, prev, st, out =>
    if t.dl ≠ st.line then
      if t.dl < st.line then .error .diverge
      else
        let out := out ++ List.replicate (t.dl - st.line) SEMI
        let (bytes, st') := encodeTok nnames t { st with line := t.dl, col := 0 }
        serializeLoop nnames ts (some t) st' (out ++ bytes)
    else
      match prev with
      | none =>
        let (bytes, st') := encodeTok nnames t st
        serializeLoop nnames ts (some t) st' (out ++ bytes)
      | some p =>
        if p = t then serializeLoop nnames ts (some t) st out
        else
          let (bytes, st') := encodeTok nnames t st
          serializeLoop nnames ts (some t) st' (out ++ [COMMA] ++ bytes)

def serializeMappings (toks : List Tok) (nnames : Nat) : Res (List Nat) :=
  serializeLoop nnames toks none {} []

/-- `serialize_range_mappings` (after the F3/F4/F5 repairs): `bits` is the bit vector of the
current line, `seg` the index of the next emitted segment on it. -/
def serializeRmiLoop : List Tok → Option Tok → Nat → List Bool → Bool → Nat → Bool → List Nat →
    Res (Option (List Nat))
  | [], _, _, bits, had, _, empty, out =>
    if empty then .ok none
    else .ok (some (if had then out ++ encodeRmi bits else out))
  | t :: ts, prev, line, bits, had, seg, empty, out =>
    if t.dl < line then .error .diverge
    else
      let newline := t.dl ≠ line
      let out := if newline then
          (if had then out ++ encodeRmi bits else out) ++ SEMI :: (List.replicate (t.dl - line - 1) SEMI)
        else out
      let bits := if newline then [] else bits
      let had := if newline then false else had
      let seg := if newline then 0 else seg
      let dup := !newline && (prev = some t)
      if dup then serializeRmiLoop ts (some t) t.dl bits had seg empty out
      else if t.rng then serializeRmiLoop ts (some t) t.dl (setBit bits seg) true (seg + 1) false out
      else serializeRmiLoop ts (some t) t.dl bits had (seg + 1) empty out

def serializeRangeMappings (toks : List Tok) : Res (Option (List Nat)) :=
  serializeRmiLoop toks none 0 [] false 0 true []

end Mappings
end SmVerif
