import SmVerif.Model.Proto
import SmVerif.Model.Detect
/- driver family `det.` (C18) -/
namespace SmVerif.DrvDetect
open SmVerif SmVerif.Proto SmVerif.Detect

def showRef : Option Ref → String
  | none => "none"
  | some (.ref u) => s!"ref {toHex u}"
  | some (.legacy u) => s!"legacy {toHex u}"

def strBytes (s : String) : Bytes := s.toUTF8.toList.map (·.toNat)
def bytesStr (b : Bytes) : String := String.ofList (b.map Char.ofNat)

/-- `key:1,key:0` → top-level `(key, non-null)` pairs -/
def parseDoc (s : String) : Doc :=
  (splitList s).map fun kv =>
    match kv.splitOn ":" with
    | [k, v] => (strBytes k, v = "1")
    | _ => (strBytes kv, true)

def showDoc (d : Doc) : String :=
  showList (fun kv => if kv.2 then bytesStr kv.1 else bytesStr kv.1 ++ ":null") d

def isOkSomeRef (r : Res (Option Ref)) (url : Bytes) : Bool :=
  match r with
  | .ok (some (.ref u)) => u == url
  | _ => false

def isOkBytes (r : Res Bytes) (b : Bytes) : Bool :=
  match r with
  | .ok x => x == b
  | _ => false

def handleDet (toks : List String) : String :=
  match toks with
  | ["det.locate", hx] =>
    let text := parseHex hx
    let model := showRes showRef (locateReference text)
    -- C18, first sentence: first line beginning with one of the two forms, URL trimmed, `@` = legacy
    let spec := "ok " ++ showRef (Spec.specLocate text)
    s!"{model}\t{spec}\t1"
  | ["det.dataurl", _json, enc, pre, post] =>
    let e := parseHex enc
    let url := toDataUrl e
    let rt := isOkBytes (decodeDataUrl url) e
    let text := parseHex pre ++ Spec.pHash ++ url ++ parseHex post
    let emb := isOkSomeRef (locateReference text) url && rt
    let model := s!"ok {toHex e} {toHex url} rt={b2s rt} emb={b2s emb}"
    -- C18, second sentence: the URL produced is a base64 JSON data URL of the serialisation (RFC 4648 read
    -- as a bit string), it decodes back, and it is found again wherever the comment is the first reference
    let sUrl := Spec.dataPrefixes.headD [] ++ Spec.specB64 e
    let sEmb := Spec.specLocate (parseHex pre ++ Spec.pHash ++ sUrl ++ parseHex post) == some (.ref sUrl)
    let spec := s!"ok {toHex e} {toHex sUrl} rt=1 emb={b2s sEmb}"
    s!"{model}\t{spec}\t1"
  | ["det.decode", url, payload] =>
    let r := decodeDataUrl (parseHex url)
    if payload = "x" then
      let model := match r with
        | .error .dataurl => "err dataurl"
        | _ => "ok accepted"
      s!"{model}\t-\t1"
    else
      -- the generator's own RFC 4648 encoder produced this URL from `payload`
      s!"{showRes toHex r}\tok {payload}\t1"
  | ["det.is_sm", _doc, pres] =>
    let b := if pres = "bad" then false else isSourcemapDoc (parseDoc pres)
    s!"ok {b2s b}\t-\t1"
  | ["det.ser", _json, kind, flags] =>
    let h (c : Char) : Bool := flags.toList.contains c
    let raw : Present :=
      if kind = "index" then asRawIndexP (h 'f')
      else if kind = "hermes" then asRawHermesP (h 'f') (h 'r') (h 'c') (h 'g') (h 'i') (h 'd') (h 'b')
      else asRawRegularP (h 'f') (h 'r') (h 'c') (h 'g') (h 'i') (h 'd')
    let doc := emit raw
    let model := s!"ok {kind} {showDoc doc} {b2s (isSourcemapDoc doc)}"
    -- C18, last clause: whatever is serialised is recognised
    let spec := s!"ok {kind} {showDoc doc} 1"
    s!"{model}\t{spec}\t1"
  | _ => "bad-op\t-\t0"

end SmVerif.DrvDetect
