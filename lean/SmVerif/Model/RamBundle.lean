import SmVerif.Generated.Consts
import SmVerif.Model.Basic
/-
Model of the indexed RAM bundle reader (ram_bundle.rs: `IndexedRamBundle::parse`, `startup_code`,
`get_module`, `RamBundleModuleIter`, `is_ram_bundle_slice`) on top of `scroll::Pread`'s bounds rules:
  * `pread_with(offset, ..)` fails with `BadOffset` when `offset >= len`;
  * a `u32` needs 4 bytes, a `&[u8]` of `size` needs `size <= len - offset`.
All `usize` sums stay far below 2^64 for 32-bit fields (64-bit target), so they are plain `Nat`.
-/
namespace SmVerif.Ram
open SmVerif

/-- little-endian u32 at `off` (`pread_with::<u32>(off, LE)`) -/
def le32 (bs : List Nat) (off : Nat) : Option Nat :=
  if off + 4 ≤ bs.length then
    some (bs.getD off 0 + 256 * bs.getD (off + 1) 0 + 65536 * bs.getD (off + 2) 0 + 16777216 * bs.getD (off + 3) 0)
  else none

/-- `pread_with::<&[u8]>(off, size)` -/
def slice (bs : List Nat) (off size : Nat) : Option (List Nat) :=
  if off ≥ bs.length then none          -- BadOffset (also for size = 0)
  else if size > bs.length - off then none  -- TooBig
  else some ((bs.drop off).take size)

structure Bundle where
  bytes : List Nat
  count : Nat
  startupSize : Nat
  startupOff : Nat
  deriving Repr

def HEADER : Nat := 12
def ENTRY : Nat := 8

/-- `IndexedRamBundle::parse` -/
def parse (bs : List Nat) : Res Bundle :=
  match le32 bs 0, le32 bs 4, le32 bs 8 with
  | some magic, some count, some ssize =>
    if magic ≠ Consts.ramMagic then .error .rammagic
    else .ok { bytes := bs, count := count, startupSize := ssize, startupOff := HEADER + count * ENTRY }
  | _, _, _ => .error .scroll

/-- `is_ram_bundle_slice` -/
def isRamBundle (bs : List Nat) : Bool :=
  match le32 bs 0, le32 bs 4, le32 bs 8 with
  | some magic, some _, some _ => magic == Consts.ramMagic
  | _, _, _ => false

/-- `startup_code` -/
def startupCode (b : Bundle) : Res (List Nat) :=
  match slice b.bytes b.startupOff b.startupSize with
  | some s => .ok s
  | none => .error .scroll

/-- `get_module` -/
def getModule (b : Bundle) (id : Nat) : Res (Option (List Nat)) :=
  if id ≥ b.count then .error .ramindex
  else
    let eo := HEADER + id * ENTRY
    match le32 b.bytes eo, le32 b.bytes (eo + 4) with
    | some off, some len =>
      if off = 0 ∧ len = 0 then .ok none
      else if len = 0 then .error .ramentry
      else match slice b.bytes (b.startupOff + off) (len - 1) with
        | some d => .ok (some d)
        | none => .error .scroll
    | _, _ => .error .scroll

/-- `iter_modules` restricted to the ids `< limit` (the harness caps the walk): present modules
with their ids and per-id errors, in id order -/
def iterModules (b : Bundle) (limit : Nat) : List (Nat × Res (List Nat)) :=
  (List.range (min b.count limit)).filterMap fun id =>
    match getModule b id with
    | .ok none => none
    | .ok (some d) => some (id, .ok d)
    | .error e => some (id, .error e)

/-! ### writing a bundle (specification side) -/

def putLe32 (n : Nat) : List Nat := [n % 256, n / 256 % 256, n / 65536 % 256, n / 16777216 % 256]

/-- offsets (relative to the startup code) of modules laid out in id order behind the startup code -/
def layout : List (Option (List Nat)) → Nat → List (Nat × Nat)
  | [], _ => []
  | none :: rest, pos => (0, 0) :: layout rest pos
  | some d :: rest, pos => (pos, d.length + 1) :: layout rest (pos + d.length + 1)

def body : List (Option (List Nat)) → List Nat
  | [] => []
  | none :: rest => body rest
  | some d :: rest => d ++ 0 :: body rest

/-- an indexed RAM bundle image: header, table, startup code, modules each followed by NUL -/
def serialize (startup : List Nat) (slots : List (Option (List Nat))) : List Nat :=
  putLe32 Consts.ramMagic ++ putLe32 slots.length ++ putLe32 startup.length ++
    ((layout slots startup.length).map fun (o, l) => putLe32 o ++ putLe32 l).flatten ++
    startup ++ body slots

end SmVerif.Ram
