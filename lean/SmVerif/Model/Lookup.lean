import SmVerif.Model.Mappings
/-
Model of utils.rs `greatest_lower_bound` (on top of std's `binary_search_by`), of
`SourceMap::new`'s sort and of `SourceMap::lookup_token`.
-/
namespace SmVerif.Lookup
open SmVerif

abbrev Pos := Nat × Nat

def posLe (a b : Pos) : Bool := a.1 < b.1 || (a.1 = b.1 && a.2 ≤ b.2)
def posLt (a b : Pos) : Bool := a.1 < b.1 || (a.1 = b.1 && a.2 < b.2)

def Tok.pos (t : Tok) : Pos := (t.dl, t.dc)

/-- `tokens.sort_unstable_by_key(|t| (t.dst_line, t.dst_col))`, modelled as a *stable* sort
(trusted-base note: the shipped `sort_unstable` leaves ties of an already sorted slice in place and
is an insertion sort below 21 elements) -/
def sortToks (ts : List Tok) : List Tok := ts.mergeSort (fun a b => posLe (Tok.pos a) (Tok.pos b))

/-- tokens ordered by generated position -/
def SortedByPos (ts : List Tok) : Prop :=
  List.Pairwise (fun a b => posLe (Tok.pos a) (Tok.pos b) = true) ts

/-- std `slice::binary_search_by` (Rust 1.95): `size` halves until 1, `base` moves right while the
probe is not Greater.  Returns `(found, index)`. -/
def bsearchLoop (keys : List Pos) (q : Pos) : Nat → Nat → Nat → Nat
  | 0, _, base => base
  | fuel + 1, size, base =>
    if size ≤ 1 then base
    else
      let half := size / 2
      let mid := base + half
      let base' := if posLt q (keys.getD mid (0, 0)) then base else mid
      bsearchLoop keys q fuel (size - half) base'

def bsearch (keys : List Pos) (q : Pos) : Bool × Nat :=
  if keys.length = 0 then (false, 0)
  else
    let base := bsearchLoop keys q keys.length keys.length 0
    let k := keys.getD base (0, 0)
    if k = q then (true, base)
    else (false, base + (if posLt k q then 1 else 0))

/-- walk back over equal keys: `for i in (0..idx).rev() { if key(i) == q {idx = i} else break }` -/
def walkBack (keys : List Pos) (q : Pos) : Nat → Nat
  | 0 => 0
  | i + 1 => if keys.getD i (0, 0) = q then walkBack keys q i else i + 1

/-- `greatest_lower_bound` (with the repaired index): index of the returned element -/
def glb (keys : List Pos) (q : Pos) : Option Nat :=
  match bsearch keys q with
  | (true, idx) => some (walkBack keys q idx)
  | (false, idx) => if idx = 0 then none else some (idx - 1)

/-- `saturating_add` on u32 -/
def satAdd (a b : Nat) : Nat := if a + b > NONE then NONE else a + b

/-- `SourceMap::lookup_token`: index, token, and the source column the returned `Token` reports
(`get_src_col` adds the range offset).  `col - dst_col` is a checked u32 subtraction. -/
def lookup (ts : List Tok) (q : Pos) : Res (Option (Nat × Tok × Nat)) :=
  match glb (ts.map Tok.pos) q with
  | none => .ok none
  | some i =>
    match ts[i]? with
    | none => .ok none
    | some t =>
      if t.rng && t.dl = q.1 then
        if q.2 < t.dc then .error .panic
        else .ok (some (i, t, satAdd t.sc (q.2 - t.dc)))
      else .ok (some (i, t, t.sc))

/-! ### specification -/

/-- The admissible answers of a lookup: no token at or before `q` gives `[]`; otherwise the tokens
(with their iteration index) at the greatest position not after `q` - all of them when the query is
past that position (the property does not say which), only the first when `q` is exactly that
position. -/
def lookupSpec (ts : List Tok) (q : Pos) : List (Nat × Tok) :=
  let cands := (ts.zipIdx.filter fun p => posLe (Tok.pos p.1) q)
  match cands with
  | [] => []
  | c :: cs =>
    let best := cs.foldl (fun b p => if posLt b (Tok.pos p.1) then Tok.pos p.1 else b) (Tok.pos c.1)
    let atBest := (cands.filter fun p => Tok.pos p.1 = best).map fun p => (p.2, p.1)
    if best = q then atBest.take 1 else atBest

end SmVerif.Lookup
