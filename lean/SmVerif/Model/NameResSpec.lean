import SmVerif.Model.NameRes
/-
C17 - specification of function-name resolution, written from the property statement: no cache,
no byte offsets, no iterator.

* `suffixAt line col`  - the rest of the line from UTF-16 column `col`; defined only when `col` is
  the UTF-16 length of a prefix of the line (so: `none` inside a surrogate pair and past the end;
  `some []` exactly at the end).
* `textAt`             - the identifier at the start of the first whitespace-delimited word of that
  suffix (so a token that points at blanks before a word reads that word).
* `startSpec`          - the looked-up token (C04): the first token exactly at the position if
  there is one, otherwise the last token before it.
* `resolveSpec`        - among the at most 128 tokens walking back from it, the first whose text is
  the given name and whose predecessor *inside the window* has text `function`: that token's name.
-/
namespace SmVerif.NameRes
open SmVerif SmVerif.Lookup

/-- the line's suffix at UTF-16 column `col` -/
def suffixAt : Str → Nat → Option Str
  | s, 0 => some s
  | [], _ + 1 => none
  | c :: cs, n + 1 => if n + 1 < len16 c then none else suffixAt cs (n + 1 - len16 c)

/-- a JavaScript identifier: a start character followed by continue characters -/
def isIdentifier (P : Preds) : Str → Bool
  | [] => false
  | c :: cs => isValidStart P c && cs.all (isValidContinue P)

/-- the identifier at the start of the first word of `s` -/
def identAtStart (P : Preds) (s : Str) : Option Str :=
  match (s.dropWhile P.isWs).takeWhile (fun c => !P.isWs c) with
  | [] => none
  | c :: cs => if isValidStart P c then some (c :: cs.takeWhile (isValidContinue P)) else none

/-- text of a token at generated position `(line, col)` -/
def textAt (P : Preds) (lines : List Str) (line col : Nat) : Option Str :=
  match lines[line]? with
  | none => none
  | some l =>
    match suffixAt l col with
    | none => none
    | some s => identAtStart P s

/-- least index satisfying `p` -/
def firstIdxWhere (p : Tok → Bool) : List Tok → Option Nat
  | [] => none
  | t :: ts => if p t then some 0 else (firstIdxWhere p ts).map (· + 1)

/-- greatest index satisfying `p` -/
def lastIdxWhere (p : Tok → Bool) : List Tok → Option Nat
  | [] => none
  | t :: ts =>
    match lastIdxWhere p ts with
    | some j => some (j + 1)
    | none => if p t then some 0 else none

/-- index of the looked-up token -/
def startSpec (ts : List Tok) (q : Pos) : Option Nat :=
  match firstIdxWhere (fun t => Tok.pos t = q) ts with
  | some i => some i
  | none => lastIdxWhere (fun t => posLt (Tok.pos t) q) ts

/-- token indices `i, i-1, …`, at most `n` of them -/
def windowIdx (i n : Nat) : List Nat := (List.range (min (i + 1) n)).map fun k => i - k

/-- the `n` tokens walking back from token `i`, each with its text -/
def itemsBack (P : Preds) (lines : List Str) (ts : List Tok) (i n : Nat) : List Item :=
  (windowIdx i n).filterMap fun j => (ts[j]?).map fun t => ((j, t), textAt P lines t.dl t.dc)

/-- the window: at most `nameWindow` (= 128, regenerated from sourceview.rs) tokens -/
def windowItems (P : Preds) (lines : List Str) (ts : List Tok) (i : Nat) : List Item :=
  itemsBack P lines ts i Consts.nameWindow

/-- first item with text `name` whose successor in the list (the preceding token) has text `function` -/
def findDecl (name : Str) (items : List Item) : Option Item :=
  ((items.zip items.tail).find? fun p => p.1.2 = some name ∧ p.2.2 = some FUNCTION).map (·.1)

def resolveSpec {ν} (P : Preds) (lines : List Str) (ts : List Tok) (names : List ν)
    (q : Pos) (name : Str) : Option ν :=
  if !isIdentifier P name then none
  else
    match startSpec ts q with
    | none => none
    | some i =>
      (findDecl name (windowItems P lines ts i)).bind fun x => tokName names x.1.2

/-- the property speaks about tokens whose column is a position of the line: the UTF-16 length of
a prefix, or at/after the end of the line (or on a line that does not exist) -/
def onBoundary (lines : List Str) (t : Tok) : Bool :=
  match lines[t.dl]? with
  | none => true
  | some l => u16len l ≤ t.dc || (suffixAt l t.dc).isSome

end SmVerif.NameRes
