import SmVerif.Model.Raw
import SmVerif.Model.V3Spec
import SmVerif.Model.Proto
/-
Executable *specifications* for the document level (C01, C02, C03), written from the property
statements and not from the decoder's / encoder's control flow:

* `readDoc` — the independent reading of a v3 document (C02): what kind of map it is, the tokens by
  the independent reading of `mappings` (`V3.specDecode`) ordered by generated position, null sources
  as empty names, numeric names as decimal text, `debug_id` before `debugId`, a non-empty `sourceRoot`
  joined to every source that is not absolute.
* `obs…` — the observational view under which C01 compares a map before and after a write/read.
* `checkEncoded` — what C03 demands of the record the encoder produces for a map.

Also the printers shared by both sides of the correspondence (formatting only).
-/
namespace SmVerif.DocSpec
open SmVerif SmVerif.Raw SmVerif.Proto

/-! ### printing (shared, formatting only) -/

def o (x : Option Bytes) : String :=
  match x with
  | none => "~"
  | some s => toHex s

def lst (xs : List String) (sep : String := ",") : String :=
  if xs.isEmpty then "." else sep.intercalate xs

/-- what the accessors of a regular map show -/
structure View where
  file : Option Bytes
  root : Option Bytes
  did : Option Bytes
  sources : List (Option Bytes)        -- `get_source(i)`, i < source count
  raw : List (Option Bytes)            -- the same without a source root
  names : List Bytes
  contentsFull : List (Option Bytes)   -- `get_source_contents(i)`, i < source count + 4
  contentsPer : List (Option Bytes)    -- `source_contents()`: one per source
  ignore : List Nat
  toks : List (Tok × Option Bytes × Option Bytes)   -- token, `get_source()`, `get_name()`

def tokKey (t : Tok) : List Nat := [t.dl, t.dc, t.sl, t.sc, t.src, t.name, if t.rng then 1 else 0]
def lexLe : List Nat → List Nat → Bool
  | [], _ => true
  | _ :: _, [] => false
  | a :: as, b :: bs => a < b || (a == b && lexLe as bs)

def showTokFull (x : Tok × Option Bytes × Option Bytes) : String :=
  let t := x.1
  s!"{t.dl}:{t.dc}:{t.sl}:{t.sc}:{t.src}:{t.name}:{if t.rng then 1 else 0}:{o x.2.1}:{o x.2.2}"

/-- `doc.dec` dump; tokens sharing a position are printed in a canonical order (`sort_unstable`
does not define their order) -/
def dumpView (tag : String) (v : View) : String :=
  let ts := v.toks.mergeSort fun a b => lexLe (tokKey a.1) (tokKey b.1)
  tag ++ "{f=" ++ o v.file ++ ";r=" ++ o v.root ++ ";d=" ++ o v.did ++ ";s=" ++ lst (v.sources.map o) ++
    ";w=" ++ lst (v.raw.map o) ++ ";n=" ++ lst (v.names.map toHex) ++ ";c=" ++ lst (v.contentsFull.map o) ++
    ";i=" ++ lst (v.ignore.map toString) ++ ";t=" ++ lst (ts.map showTokFull) "/" ++ "}"

/-- removal of exact consecutive duplicates -/
def dedupBy {α} [DecidableEq α] : List α → List α
  | [] => []
  | [t] => [t]
  | a :: b :: rest => if a = b then dedupBy (b :: rest) else a :: dedupBy (b :: rest)

def showTokObs (x : Tok × Option Bytes × Option Bytes) : String :=
  let t := x.1
  if t.src = NONE then s!"{t.dl}:{t.dc}:~:-:-:~:{if t.rng then 1 else 0}"
  else s!"{t.dl}:{t.dc}:{o x.2.1}:{t.sl}:{t.sc}:{o x.2.2}:{if t.rng then 1 else 0}"

/-- C01's observational view of a regular map: token sequence up to exact consecutive duplicates,
each token as (generated position, source name, original position if it has a source, name) -/
def obsView (tag : String) (v : View) : String :=
  -- duplicates are removed in the view: neighbouring tokens that show the same through every accessor
  let ts := dedupBy (v.toks.map showTokObs)
  tag ++ "{f=" ++ o v.file ++ ";r=" ++ o v.root ++ ";d=" ++ o v.did ++ ";s=" ++ lst (v.sources.map o) ++
    ";n=" ++ lst (v.names.map toHex) ++ ";c=" ++ lst (v.contentsPer.map o) ++
    ";i=" ++ lst (v.ignore.map toString) ++ ";t=" ++ lst ts "/" ++ "}"

def showSection (l c : Nat) (url : Option Bytes) (m : String) : String :=
  s!"[{l}:{c};{o url};{m}]"

def showIndex (full : Bool) (file : Option Bytes) (fbo : Option (List (Option Nat))) (mmp : Option (List Bytes))
    (secs : List String) : String :=
  let s := if secs.isEmpty then "." else String.join secs
  if full then
    let fo := match fbo with
      | none => "~"
      | some v => lst (v.map fun x => match x with | none => "~" | some n => toString n)
    let mp := match mmp with
      | none => "~"
      | some v => lst (v.map toHex)
    "I{f=" ++ o file ++ ";o=" ++ fo ++ ";p=" ++ mp ++ ";S=" ++ s ++ "}"
  else "I{f=" ++ o file ++ ";S=" ++ s ++ "}"

/-! ### C02: the independent reading of a document -/

inductive Outcome (α : Type) where
  | fault            -- the property demands an error
  | silent           -- the property says nothing about this document
  | val (a : α)

/-- "absolute": starts with `/`, `http:` or `https:` (the literals of the property statement) -/
def isAbsolute (s : Bytes) : Bool :=
  [47].isPrefixOf s || [104, 116, 116, 112, 58].isPrefixOf s || [104, 116, 116, 112, 115, 58].isPrefixOf s

/-- the root without one trailing `/` -/
def stripSlash (root : Bytes) : Bytes := if root.getLast? = some 47 then root.dropLast else root

/-- a source as a reader of the format sees it -/
def joinRoot (root : Option Bytes) (s : Bytes) : Bytes :=
  match root with
  | none => s
  | some r => if r.isEmpty then s else if isAbsolute s then s else stripSlash r ++ [47] ++ s

def posLe (a b : Tok) : Bool := a.dl < b.dl || (a.dl = b.dl && a.dc ≤ b.dc)

/-- order by generated position, tokens at one position in document order -/
def insertByPos (t : Tok) : List Tok → List Tok
  | [] => [t]
  | u :: us => if posLe t u then t :: u :: us else u :: insertByPos t us
def sortByPos : List Tok → List Tok
  | [] => []
  | t :: ts => insertByPos t (sortByPos ts)

def sortDedupNat (l : List Nat) : List Nat := dedupBy (l.mergeSort fun a b => a ≤ b)

def rmiReadable (m rmi : Bytes) : Bool :=
  (Mappings.splitOn Mappings.SEMI m).zipIdx.all fun (ln, l) =>
    ln = [] || (Mappings.decodeRmi ((Mappings.splitOn Mappings.SEMI rmi).getD l [])).isSome

/-- the reading of a document without `sections` -/
def readFlat (f : RawFlat) : Outcome View :=
  if f.version ≠ some 3 then .silent else
  let nonStringFile := match f.file with | some (.str _) => false | none => false | _ => true
  let oddName := (f.names.getD []).any fun n => match n with | .other => true | _ => false
  if nonStringFile || oddName then .silent else
  let raw : List Bytes := (f.sources.getD []).map fun s => match s with | none => [] | some x => x
  let names : List Bytes := (f.names.getD []).map fun n => match n with | .str s => s | .num t => t | .other => []
  let m := f.mappings.getD []
  let rmi := f.rangeMappings.getD []
  if !rmiReadable m rmi then .silent else
  match V3.specDecode m rmi raw.length names.length with
  | .fault => .fault
  | .outside => .silent
  | .toks ts =>
    let sources := raw.map (joinRoot f.sourceRoot)
    let contents := f.sourcesContent.getD []
    .val {
      file := match f.file with | some (.str s) => some s | _ => none
      root := f.sourceRoot
      did := match f.debugId with | some d => some d | none => f.debugIdNew
      sources := sources.map some
      raw := raw.map some
      names := names
      contentsFull := (List.range (raw.length + 4)).map fun i => (contents[i]?).join
      contentsPer := (List.range raw.length).map fun i => (contents[i]?).join
      ignore := sortDedupNat (f.ignoreList.getD [])
      toks := (sortByPos ts).map fun t =>
        (t, if t.src = NONE then none else sources[t.src]?, if t.name = NONE then none else names[t.name]?) }

/-- what a map built from raw components (`SourceMap::new` + setters; `new` mode of the ops) shows,
written from the components: sources joined with the root, tokens ordered by generated position
(ties in the given order), a name id that does not resolve shows no name -/
def viewNew (f : RawFlat) (toks : List Tok) : View :=
  let raw : List Bytes := (f.sources.getD []).map fun s => match s with | none => [] | some x => x
  let names : List Bytes := (f.names.getD []).map fun n => match n with | .str s => s | .num t => t | .other => []
  let sources := raw.map (joinRoot f.sourceRoot)
  let contents := f.sourcesContent.getD []
  { file := match f.file with | some (.str s) => some s | _ => none
    root := f.sourceRoot
    did := f.debugId
    sources := sources.map some
    raw := raw.map some
    names := names
    contentsFull := (List.range (raw.length + 4)).map fun i => (contents[i]?).join
    contentsPer := (List.range raw.length).map fun i => (contents[i]?).join
    ignore := sortDedupNat (f.ignoreList.getD [])
    toks := (sortByPos toks).map fun t =>
      (t, if t.src = NONE then none else sources[t.src]?, if t.name = NONE then none else names[t.name]?) }

/-- C01's quantifier for raw-constructed maps: u32 coordinates, every token has either no source and
no name or an in-range source (and optionally a name), no range tokens -/
def wfNewC01 (nsrc : Nat) (toks : List Tok) : Bool :=
  V3.wfToks nsrc toks && toks.all fun t => (t.src ≠ NONE || t.name = NONE) && !t.rng

def insertSecStr (x : (Nat × Nat) × String) : List ((Nat × Nat) × String) → List ((Nat × Nat) × String)
  | [] => [x]
  | y :: ys =>
    if x.1.1 < y.1.1 || (x.1.1 = y.1.1 && x.1.2 ≤ y.1.2) then x :: y :: ys else y :: insertSecStr x ys
def sortSecStr : List ((Nat × Nat) × String) → List ((Nat × Nat) × String)
  | [] => []
  | x :: xs => insertSecStr x (sortSecStr xs)

mutual
/-- the reading of a document, printed (`full`: the `doc.dec` dump, otherwise C01's observational
view).  `sections` makes an index map (sections by offset), otherwise `x_facebook_sources` a Hermes
map, otherwise a regular map. -/
def readDoc (full : Bool) : RawDoc → Outcome String
  | .indexed f secs =>
    let nonStringFile := match f.file with | some (.str _) => false | none => false | _ => true
    if nonStringFile then .silent else
    match readSecs full secs with
    | .fault => .fault
    | .silent => .silent
    | .val ss =>
      .val (showIndex full (match f.file with | some (.str s) => some s | _ => none) f.fbOffsets f.metroPaths
        ((sortSecStr ss).map (·.2)))
  | .plain f =>
    match readFlat f with
    | .fault => .fault
    | .silent => .silent
    | .val v =>
      let tag := if f.fbSources.isSome then "H" else "R"
      .val (if full then dumpView tag v else obsView tag v)
def readSecs (full : Bool) : RawSecs → Outcome (List ((Nat × Nat) × String))
  | .nil => .val []
  | .cons l c u m rest =>
    match readOpt full m with
    | .fault => .fault
    | .silent => (match readSecs full rest with | .fault => .fault | _ => .silent)
    | .val ms => match readSecs full rest with
      | .fault => .fault
      | .silent => .silent
      | .val ss => .val (((l, c), showSection l c u ms) :: ss)
def readOpt (full : Bool) : RawOpt → Outcome String
  | .none => .val "~"
  | .some d => readDoc full d
end

/-! ### views of the model's decoded maps (what the accessors of the model show) -/

def viewOfSMap (m : SMap) : View :=
  let n := m.sources.length
  { file := m.file, root := m.root, did := m.debugId
    sources := (List.range n).map m.getSource
    raw := (List.range n).map (m.setSourceRoot none).getSource
    names := m.names
    contentsFull := (List.range (n + 4)).map m.getSourceContents
    contentsPer := m.sourceContents
    ignore := m.ignore
    toks := m.tokens.map fun t => (t, m.tokSource t, m.tokName t) }

mutual
def showDMap (full : Bool) : DMap → String
  | .regular m => if full then dumpView "R" (viewOfSMap m) else obsView "R" (viewOfSMap m)
  | .hermes m _ => if full then dumpView "H" (viewOfSMap m) else obsView "H" (viewOfSMap m)
  | .index file secs fbo mmp => showIndex full file fbo mmp (showDSecs full secs)
def showDSecs (full : Bool) : DSecs → List String
  | .nil => []
  | .cons l c u m rest => showSection l c u (showDOpt full m) :: showDSecs full rest
def showDOpt (full : Bool) : DOpt → String
  | .none => "~"
  | .some m => showDMap full m
end

/-- does the map hold a range token anywhere (those are C07's)? -/
def smapHasRange (m : SMap) : Bool := m.tokens.any (·.rng)
mutual
def dmapHasRange : DMap → Bool
  | .regular m => smapHasRange m
  | .hermes m _ => smapHasRange m
  | .index _ secs _ _ => dsecsHasRange secs
def dsecsHasRange : DSecs → Bool
  | .nil => false
  | .cons _ _ _ m rest => doptHasRange m || dsecsHasRange rest
def doptHasRange : DOpt → Bool
  | .none => false
  | .some m => dmapHasRange m
end

/-! ### the encoder's record, printed the way the harness prints the JSON it parsed back -/

def keyStr (k : Bytes) : String := String.ofList (k.map Char.ofNat)

def showFb (raw : FbSources) : String :=
  lst (raw.map fun e => match e with
    | none => "null"
    | some metas => "m" ++ "+".intercalate (metas.map fun mt =>
        (if mt.names.isEmpty then "[]" else ".".intercalate (mt.names.map toHex)) ++ "/" ++ toHex mt.mappings))

def jvalOut : JVal → String
  | .str s => toHex s
  | _ => "?"

def optList {α} (x : Option (List α)) (f : α → String) : String :=
  match x with
  | none => "~"
  | some l => lst (l.map f)

mutual
def showRaw : RawDoc → String
  | d@(.plain f) => showRawWith d f "~"
  | d@(.indexed f secs) => showRawWith d f (let s := showRawSecs secs; if s.isEmpty then "." else String.join s)
def showRawSecs : RawSecs → List String
  | .nil => []
  | .cons l c u m rest =>
    let e := sectionEmitted u m
    ("[k=" ++ lst (e.map fun x => keyStr x.1) ++ ";z=" ++ lst ((e.filter fun x => !x.2).map fun x => keyStr x.1) ++
      s!";off={l}:{c};u=" ++ o u ++ ";m=" ++ showRawOpt m ++ "]") :: showRawSecs rest
def showRawOpt : RawOpt → String
  | .none => "~"
  | .some d => showRaw d
def showRawWith (d : RawDoc) (f : RawFlat) (secs : String) : String :=
  let e := emitted d
  "E{k=" ++ lst (e.map fun x => keyStr x.1) ++ ";z=" ++ lst ((e.filter fun x => !x.2).map fun x => keyStr x.1) ++
    ";v=" ++ (match f.version with | none => "~" | some v => toString v) ++
    ";f=" ++ (match f.file with | none => "~" | some v => jvalOut v) ++
    ";s=" ++ optList f.sources o ++ ";r=" ++ o f.sourceRoot ++ ";c=" ++ optList f.sourcesContent o ++
    ";n=" ++ optList f.names jvalOut ++ ";g=" ++ o f.rangeMappings ++ ";m=" ++ o f.mappings ++
    ";i=" ++ optList f.ignoreList toString ++ ";d=" ++ o f.debugId ++ ";D=" ++ o f.debugIdNew ++
    ";b=" ++ (match f.fbSources with | none => "~" | some r => showFb r) ++
    ";o=" ++ optList f.fbOffsets (fun x => match x with | none => "~" | some n => toString n) ++
    ";p=" ++ optList f.metroPaths toHex ++ ";S=" ++ secs ++ "}"
end

/-! ### C03: what the property demands of the record written for a map -/

def key (s : String) : Bytes := s.toList.map Char.toNat

/-- the optional keys the property names: left out rather than written as `null` -/
def optionalKeys : List Bytes := [key "file", key "sourceRoot", key "sourcesContent", key "ignoreList", key "debug_id"]

def hasKey (e : List (Bytes × Bool)) (k : Bytes) : Bool := e.any fun x => x.1 = k
def isNullKey (e : List (Bytes × Bool)) (k : Bytes) : Bool := e.any fun x => x.1 = k && !x.2

/-- a regular (or Hermes) map `m` against the record `f` written for it (`e` = the keys serde emits).
Returns the first demand that is not met. -/
def checkFlat (m : SMap) (f : RawFlat) (e : List (Bytes × Bool)) : Option String :=
  let nsrc := m.sources.length
  if f.version ≠ some 3 then some "version" else
  match f.mappings with
  | none => some "no-mappings"
  | some mp =>
    -- the independent reader gets back exactly the map's tokens (indices, not names)
    let want := V3.roundTripSpec m.names.length m.tokens
    match V3.specDecode mp (f.rangeMappings.getD []) nsrc m.names.length with
    | .fault => some "mappings-unreadable"
    | .outside => some "mappings-outside"
    | .toks back =>
      if back ≠ want then some "mappings-differ" else
      -- sources: what a reader joins from `sources` + `sourceRoot` is what the map shows
      let srcs := (f.sources.getD []).map fun s => joinRoot f.sourceRoot (s.getD [])
      if f.sources.isNone || (f.sources.getD []).any Option.isNone then some "sources-null" else
      if srcs.map some ≠ (List.range nsrc).map m.getSource then some "sources" else
      if f.names ≠ some (m.names.map JVal.str) then some "names" else
      if f.sourceRoot ≠ m.root then some "sourceRoot" else
      if f.file ≠ m.file.map JVal.str then some "file" else
      if f.debugId ≠ m.debugId then some "debug_id" else
      if f.ignoreList.getD [] ≠ m.ignore then some "ignoreList" else
      if f.ignoreList = some [] then some "ignoreList-empty" else
      let per := (List.range nsrc).map fun i => ((f.sourcesContent.getD [])[i]?).join
      if per ≠ m.sourceContents then some "sourcesContent" else
      if (f.sourcesContent.getD []).length > nsrc then some "sourcesContent-long" else
      -- a key whose value the map does not have is left out, never `null`
      if optionalKeys.any (isNullKey e) then some "null-key" else
      if m.file.isNone && hasKey e (key "file") then some "file-key" else
      if m.root.isNone && hasKey e (key "sourceRoot") then some "sourceRoot-key" else
      if m.sourceContents.all Option.isNone && hasKey e (key "sourcesContent") then some "sourcesContent-key" else
      if m.ignore.isEmpty && hasKey e (key "ignoreList") then some "ignoreList-key" else
      if m.debugId.isNone && hasKey e (key "debug_id") then some "debug_id-key" else
      if !(hasKey e (key "version") && hasKey e (key "mappings") && hasKey e (key "sources") && hasKey e (key "names")) then
        some "required-key"
      else none

mutual
def checkEncoded : DMap → RawDoc → Option String
  | .regular m, d@(.plain f) => checkFlat m f (emitted d)
  | .hermes m raw, d@(.plain f) =>
    if f.fbSources ≠ some raw then some "x_facebook_sources" else checkFlat m f (emitted d)
  | .index file secs _ _, d@(.indexed f rs) =>
    if f.version ≠ some 3 then some "version" else
    if f.file ≠ file.map JVal.str then some "file" else
    if file.isNone && hasKey (emitted d) (key "file") then some "file-key" else
    if isNullKey (emitted d) (key "file") then some "null-key" else
    checkSecs secs rs
  | _, _ => some "kind"
def checkSecs : DSecs → RawSecs → Option String
  | .nil, .nil => none
  | .cons l c u m rest, .cons l' c' u' m' rest' =>
    if l ≠ l' || c ≠ c' then some "offset" else
    if u ≠ u' then some "url" else
    match checkOpt m m' with
    | some x => some x
    | none => checkSecs rest rest'
  | _, _ => some "section-count"
def checkOpt : DOpt → RawOpt → Option String
  | .none, .none => none
  | .some m, .some d => checkEncoded m d
  | _, _ => some "section-map"
end

end SmVerif.DocSpec
