import SmVerif.Generated.Consts
/-
C13 — specification side: the vocabulary of calls (builder calls, in-place setters on a map) and the
*abstract interning model* the property talks about.  Written from the property statement; it does
not look at the builder's hash maps, at `sources_prefixed`, or at any other representation choice
(it imports nothing of the model).  Strings are byte strings.

  builder:  `sources : List String` without duplicates, `id s = index of the first occurrence`,
            a new string gets the next unused id (`= length`);
  map:      `raw : List String`, `root : Option String`,
            `read i = if root empty ∨ isAbs raw[i] then raw[i] else stripSlash root ++ "/" ++ raw[i]`;
            writing emits `raw` and `root`; reading back what was written changes nothing.
-/
namespace SmVerif.C13Spec

abbrev Str := List Nat

/-- calls on a `SourceMapBuilder` -/
inductive BOp where
  | addSource (s : Str)
  | addName (s : Str)
  | add (dl dc sl sc : Nat) (src name : Option Str) (rng : Bool)
  | addRaw (dl dc sl sc : Nat) (src name : Option Nat) (rng : Bool)
  | setSourceContents (i : Nat) (v : Option Str)
  | addToIgnoreList (i : Nat)
  | setSourceRoot (r : Option Str)
  | setFile (f : Option Str)
  | setDebugId (d : Option Str)
  | getSource (i : Nat)
  deriving Repr, DecidableEq

/-- what a builder call returns -/
inductive BOut where
  | unit
  | id (i : Nat)                       -- add_source / add_name
  | tok (src name : Nat)               -- the ids in the `RawToken` returned by add / add_raw
  | str (s : Option Str)               -- get_source
  deriving Repr, DecidableEq

/-- calls on a `SourceMap` -/
inductive MOp where
  | setSourceRoot (r : Option Str)
  | setSource (i : Nat) (v : Str)
  | setSourceContents (i : Nat) (v : Option Str)
  | reload                             -- to_writer, then from_slice on what was written
  | addToIgnoreList (i : Nat)
  | setFile (f : Option Str)
  | setDebugId (d : Option Str)
  deriving Repr, DecidableEq

def NONE : Nat := 4294967295

/-! ### the documented joining rule -/

/-- the documented absolute forms: a leading `/`, `http:`, `https:` -/
def absForms : List Str := [[47], [104, 116, 116, 112, 58], [104, 116, 116, 112, 115, 58]]

/-- the literals above are the ones `prefix_source` tests *now* (regenerated from types.rs) -/
theorem absForms_current : absForms = Consts.absPrefixes := by decide

def isAbs (s : Str) : Bool := absForms.any fun p => p.isPrefixOf s

/-- one trailing `/` of the root is not doubled -/
def stripSlash (r : Str) : Str := if r.getLast? = some 47 then r.dropLast else r

/-- how a source reads under a root -/
def join (root : Option Str) (s : Str) : Str :=
  match root with
  | none => s
  | some r => if r = [] ∨ isAbs s then s else stripSlash r ++ [47] ++ s

/-! ### ordered set of ids (the ignore list) -/
def setInsert (x : Nat) : List Nat → List Nat
  | [] => [x]
  | y :: ys => if x < y then x :: y :: ys else if x = y then y :: ys else y :: setInsert x ys

/-! ### abstract builder -/

/-- a token as it was added: with strings (`add`) or with ids (`add_raw`) -/
inductive ATok where
  | named (dl dc sl sc : Nat) (src name : Option Str) (rng : Bool)
  | raw (dl dc sl sc : Nat) (src name : Option Nat) (rng : Bool)
  deriving Repr, DecidableEq

structure ABld where
  sources : List Str := []          -- distinct, in order of first appearance
  names : List Str := []
  toks : List ATok := []
  contents : List (Nat × Option Str) := []   -- log of `set_source_contents`, latest first
  ignore : List Nat := []
  root : Option Str := none
  file : Option Str := none
  debugId : Option Str := none
  deriving Repr, DecidableEq

/-- the id of a string: index of its first occurrence; for a new string that is the next unused id -/
def internId (l : List Str) (s : Str) : Nat := l.idxOf s
/-- the table after interning: unchanged for a known string, appended for a new one -/
def intern (l : List Str) (s : Str) : List Str := if s ∈ l then l else l ++ [s]

def optId (l : List Str) : Option Str → Nat
  | none => NONE
  | some s => internId l s
def optIntern (l : List Str) : Option Str → List Str
  | none => l
  | some s => intern l s

/-- one builder call; `none` = the call is a documented panic (id of a source that does not exist) -/
def ABld.step (a : ABld) : BOp → Option (ABld × BOut)
  | .addSource s => some ({ a with sources := intern a.sources s }, .id (internId a.sources s))
  | .addName s => some ({ a with names := intern a.names s }, .id (internId a.names s))
  | .add dl dc sl sc src name rng =>
    some ({ a with sources := optIntern a.sources src, names := optIntern a.names name,
                   toks := a.toks ++ [.named dl dc sl sc src name rng] },
          .tok (optId a.sources src) (optId a.names name))
  | .addRaw dl dc sl sc src name rng =>
    some ({ a with toks := a.toks ++ [.raw dl dc sl sc src name rng] }, .tok (src.getD NONE) (name.getD NONE))
  | .setSourceContents i v =>
    if i < a.sources.length ∧ i ≠ NONE then some ({ a with contents := (i, v) :: a.contents }, .unit) else none
  | .addToIgnoreList i => some ({ a with ignore := setInsert i a.ignore }, .unit)
  | .setSourceRoot r => some ({ a with root := r }, .unit)
  | .setFile f => some ({ a with file := f }, .unit)
  | .setDebugId d => some ({ a with debugId := d }, .unit)
  | .getSource i => some (a, .str a.sources[i]?)

def ABld.run (a : ABld) : List BOp → Option (ABld × List BOut)
  | [] => some (a, [])
  | op :: ops =>
    match a.step op with
    | none => none
    | some (a', o) =>
      match ABld.run a' ops with
      | none => none
      | some (a'', os) => some (a'', o :: os)

/-- a token of the finished map as the API shows it: position, flag, source and name *strings* -/
structure TokView where
  dl : Nat
  dc : Nat
  sl : Nat
  sc : Nat
  rng : Bool
  src : Option Str
  name : Option Str
  deriving Repr, DecidableEq

def optIdx (l : List Str) : Option Nat → Option Str
  | none => none
  | some i => if i = NONE then none else l[i]?

/-- what an added token must resolve to in the finished map -/
def ABld.tokView (a : ABld) : ATok → TokView
  | .named dl dc sl sc src name rng =>
    { dl, dc, sl, sc, rng, src := src.map (join a.root), name }
  | .raw dl dc sl sc src name rng =>
    { dl, dc, sl, sc, rng, src := (optIdx a.sources src).map (join a.root), name := optIdx a.names name }

def posLe (a b : TokView) : Bool := a.dl < b.dl || (a.dl == b.dl && a.dc ≤ b.dc)

/-- latest contents set for source `i` -/
def lookupLog (i : Nat) : List (Nat × Option Str) → Option Str
  | [] => none
  | (j, v) :: rest => if j = i then v else lookupLog i rest

/-- everything the finished map reports -/
structure MapView where
  toks : List TokView
  read : List Str                 -- sources through `get_source`
  raw : List Str                  -- `sources` as serialised
  rootW : Option Str              -- `sourceRoot` as serialised
  names : List Str
  contents : List (Option Str)    -- `get_source_contents` per source
  ignore : List Nat
  file : Option Str
  debugId : Option Str
  deriving Repr, DecidableEq

def ABld.finish (a : ABld) : MapView :=
  { toks := (a.toks.map a.tokView).mergeSort posLe,
    read := a.sources.map (join a.root), raw := a.sources, rootW := a.root, names := a.names,
    contents := (List.range a.sources.length).map fun i => lookupLog i a.contents,
    ignore := a.ignore, file := a.file, debugId := a.debugId }

/-! ### abstract map -/

structure AMap where
  raw : List Str
  root : Option Str
  contents : List (Option Str)     -- one per source
  names : List Str
  ignore : List Nat
  file : Option Str
  debugId : Option Str
  deriving Repr, DecidableEq

def AMap.read (a : AMap) (i : Nat) : Option Str := a.raw[i]?.map (join a.root)

/-- one call on a map; `none` = documented panic (a source that does not exist) -/
def AMap.step (a : AMap) : MOp → Option AMap
  | .setSourceRoot r => some { a with root := r }
  | .setSource i v => if i < a.raw.length then some { a with raw := a.raw.set i v } else none
  | .setSourceContents i v => if i < a.raw.length then some { a with contents := a.contents.set i v } else none
  | .reload => some a
  | .addToIgnoreList i => some { a with ignore := setInsert i a.ignore }
  | .setFile f => some { a with file := f }
  | .setDebugId d => some { a with debugId := d }

/-- the states after each call (the initial state first) -/
def AMap.trace (a : AMap) : List MOp → Option (List AMap)
  | [] => some [a]
  | op :: ops =>
    match a.step op with
    | none => none
    | some a' => (AMap.trace a' ops).map (a :: ·)

def AMap.run (a : AMap) : List MOp → Option AMap
  | [] => some a
  | op :: ops => match a.step op with
    | none => none
    | some a' => AMap.run a' ops

def AMap.view (a : AMap) : MapView :=
  { toks := [], read := a.raw.map (join a.root), raw := a.raw, rootW := a.root, names := a.names,
    contents := a.contents, ignore := a.ignore, file := a.file, debugId := a.debugId }

end SmVerif.C13Spec
