import SmVerif.Model.Proto
import SmVerif.Model.NameResSpec
import SmVerif.Model.SourceView
/- driver family `name.` (C17)

  name.resolve <text-hex> <tokens> <nnames> <queries> <pool>
    tokens  : `dl:dc:sl:sc:src:name:rng;…` (as given to `SourceMap::new`)
    queries : `line:col:<name-hex>;…`
    pool    : `codepoint:flags,…` for every non-ASCII character of the text and the names;
              flags: 1 = valid identifier start, 2 = valid identifier continue, 4 = whitespace
              (the harness cross-checks every entry against the crate and `char::is_whitespace`)
  output    : `ok r,r,…` with `r` = the resolved name (`n<k>`) or `-`
-/
namespace SmVerif.DrvName
open SmVerif SmVerif.Proto SmVerif.NameRes SmVerif.Lookup

def parseTok (s : String) : Tok :=
  let f := (s.splitOn ":").map parseNat
  let g (i : Nat) : Nat := f.getD i 0
  { dl := g 0, dc := g 1, sl := g 2, sc := g 3, src := g 4, name := g 5, rng := g 6 != 0 }

def bytesOf (l : List Nat) : ByteArray := ByteArray.mk (l.map (·.toUInt8)).toArray

/-- UTF-8 text of a hex field -/
def strOfHex (h : String) : Option Str := (String.fromUTF8? (bytesOf (parseHex h))).map (·.toList)

def utf8Of (s : Str) : List Nat := (String.ofList s).toUTF8.toList.map (·.toNat)

def mkPreds (pool : List (Nat × Nat)) : Preds :=
  let flag (c : Char) : Nat := match pool.find? (fun p => p.1 = c.toNat) with | some p => p.2 | none => 0
  { idStart := fun c => flag c % 2 = 1,
    idContinue := fun c => (flag c / 2) % 2 = 1,
    isWs := fun c => if c.toNat < 128 then (9 ≤ c.toNat && c.toNat ≤ 13) || c.toNat = 32 else (flag c / 4) % 2 = 1 }

def showName : Option String → String
  | some s => s
  | none => "-"

def handleName (toks : List String) : String :=
  match toks with
  | ["name.resolve", th, ts, nn, qs, pl] =>
    match strOfHex th with
    | none => "skip\t-\t1"
    | some text =>
      let P := mkPreds ((splitList pl).map fun e => let f := (e.splitOn ":").map parseNat; (f.getD 0 0, f.getD 1 0))
      let lines := splitLines text
      if lines.map utf8Of ≠ SV.splitLines (parseHex th) then "split-mismatch\t-\t1" else
      let toks := sortToks ((splitList ts ";").map parseTok)
      let names := (List.range (parseNat nn)).map fun i => s!"n{i}"
      let queries := (splitList qs ";").map fun e =>
        let f := e.splitOn ":"
        ((parseNat (f.getD 0 ""), parseNat (f.getD 1 "")), (strOfHex (f.getD 2 "-")).getD [])
      let rs := queries.map fun (q, name) => resolve P lines toks names q name
      let model := match rs.find? (fun (r : Res (Option String)) => match r with | .error _ => true | _ => false) with
        | some (.error e) => "err " ++ e.toString
        | _ => "ok " ++ showList (fun (r : Res (Option String)) => match r with | .ok v => showName v | .error _ => "!") rs
      -- the property speaks when every token in every query's window sits on a position of its line
      let inside := queries.all fun (q, _) =>
        match startSpec toks q with
        | none => true
        | some i => (windowIdx i Consts.nameWindow).all fun j => match toks[j]? with | some t => onBoundary lines t | none => true
      let spec := if inside then
          "ok " ++ showList (fun (q, name) => showName (resolveSpec P lines toks names q name)) queries
        else "-"
      s!"{model}\t{spec}\t1"
  | _ => "bad-op\t-\t0"

end SmVerif.DrvName
