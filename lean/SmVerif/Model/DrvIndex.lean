import SmVerif.Model.Proto
import SmVerif.Model.Index
/- driver family `idx.` (C08): `idx.flatten <mode> <index…>` and `idx.lookup <mode> <queries> <index…>`

index description (space separated, prefix notation):
  DMAP    := R <map> | H <map> | I <file> SECTION* E
  SECTION := S <ol> <oc> <url> DMAP | U <ol> <oc> <url>
  <map>   := <root> <sources> <names> <contents> <ignore> <tokens>
strings: `~` none, `-` empty, else hex; lists: `.` empty, else `,`-separated (tokens `;`-separated)
mode `c`: the index as constructed; mode `j`: after a trip through JSON (`decode_index` orders the sections)
-/
namespace SmVerif.DrvIndex
open SmVerif SmVerif.Proto SmVerif.Lookup SmVerif.Index SmVerif.Index.Spec

def parseOptStr (s : String) : Option Bytes := if s = "~" then none else some (parseHex s)
def listOf (s : String) (sep : String := ",") : List String :=
  if s = "." ∨ s = "" then [] else s.splitOn sep
def showOptStr : Option Bytes → String
  | none => "~"
  | some b => toHex b
def showL {α} (f : α → String) (xs : List α) (sep : String := ",") : String :=
  if xs.isEmpty then "." else sep.intercalate (xs.map f)

def parseTok (s : String) : Tok :=
  let f := (s.splitOn ":").map parseNat
  let g (i : Nat) : Nat := f.getD i 0
  { dl := g 0, dc := g 1, sl := g 2, sc := g 3, src := g 4, name := g 5, rng := g 6 != 0 }

/-- `SourceMap::new` + `set_source_root` + `add_to_ignore_list` -/
def mkMap (root sources names contents ignore tokens : String) : SMap :=
  let cs := (listOf contents).map parseOptStr
  let m := SMap.new none ((listOf tokens ";").map parseTok) ((listOf names).map parseHex)
    ((listOf sources).map parseHex) (if cs.isEmpty then none else some cs)
  let m := match parseOptStr root with
    | none => m
    | some r => m.setSourceRoot (some r)
  (listOf ignore).foldl (fun m i => m.addToIgnoreList (parseNat i)) m

mutual
partial def parseD : List String → Option (DMap × List String)
  | "R" :: root :: so :: na :: co :: ig :: tk :: rest => some (.regular (mkMap root so na co ig tk), rest)
  | "H" :: root :: so :: na :: co :: ig :: tk :: rest => some (.hermes (mkMap root so na co ig tk), rest)
  | "I" :: file :: rest =>
    match parseS rest with
    | some (secs, rest) => some (.index (parseOptStr file) secs, rest)
    | none => none
  | _ => none
partial def parseS : List String → Option (Secs × List String)
  | "E" :: rest => some (.nil, rest)
  | "U" :: ol :: oc :: url :: rest =>
    match parseS rest with
    | some (secs, rest) => some (.unres (parseNat ol) (parseNat oc) (parseOptStr url) secs, rest)
    | none => none
  | "S" :: ol :: oc :: url :: rest =>
    match parseD rest with
    | some (d, rest) =>
      match parseS rest with
      | some (secs, rest) => some (.cons (parseNat ol) (parseNat oc) (parseOptStr url) d secs, rest)
      | none => none
    | none => none
  | _ => none
end

def parseIndex (mode : String) (toks : List String) : Option (Option Bytes × Secs) :=
  match parseD toks with
  | some (.index f secs, []) =>
    if mode = "j" then
      (match decodeSort (.index f secs) with
       | .index f secs => some (f, secs)
       | _ => none)
    else if mode = "c" then some (f, secs) else none
  | _ => none

def showV (v : VTok) : String :=
  s!"{v.dl}:{v.dc}:{showOptStr v.src}:{v.sl}:{v.sc}:{showOptStr v.name}:{b2s v.rng}"

def viewTok (m : SMap) (t : Tok) : VTok := (xOfTok m t).v

/-- the flattened map as the harness prints it -/
def showMap (m : SMap) : String :=
  let srcs := (List.range m.sources.length).map m.getSource
  s!"ok T={showL showV (m.tokens.map (viewTok m)) ";"} S={showL showOptStr srcs} N={showL toHex m.names} C={showL showOptStr m.sourceContents} G={showL toString m.ignore}"

/-- the same line from the specification -/
def showSpecFlatten (secs : Secs) : String :=
  if !flattenableSecs secs then "err"
  else
    let xs := flattenSpec secs
    if anyIgn xs none then "-"    -- an ignored id without a source: nothing is demanded
    else
      let srcs := dedupFirst (xs.filterMap (·.v.src)) []
      let names := dedupFirst (xs.filterMap (·.v.name)) []
      let conts := srcs.map fun s => firstCont xs (some s)
      let ign := (srcs.zipIdx.filter fun p => anyIgn xs (some p.1)).map (·.2)
      s!"ok T={showL showV ((sortX xs).map (·.v)) ";"} S={showL toHex srcs} N={showL toHex names} C={showL showOptStr conts} G={showL toString ign}"

def showOrigin (o : Origin) : String := s!"{showOptStr o.src}:{o.sl}:{o.sc}:{showOptStr o.name}"
def showHit : Option Origin → String
  | none => "_"
  | some o => showOrigin o

def parsePos (s : String) : Pos :=
  let f := (s.splitOn ":").map parseNat
  (f.getD 0 0, f.getD 1 0)

def isErr {α} : Res α → Bool
  | .error _ => true
  | .ok _ => false

def handleIdx (toks : List String) : String :=
  match toks with
  | "idx.flatten" :: mode :: rest =>
    match parseIndex mode rest with
    | none => "bad-op\t-\t0"
    | some (f, secs) =>
      let model := match flatten f secs with
        | .ok m => showMap m
        | .error e => "err " ++ e.toString
      s!"{model}\t{showSpecFlatten secs}\t1"
  | "idx.lookup" :: mode :: qs :: rest =>
    match parseIndex mode rest with
    | none => "bad-op\t-\t0"
    | some (f, secs) =>
      let qs := (listOf qs).map parsePos
      let flat := flatten f secs
      let is := qs.map fun q => indexLookup secs q
      let fs : List (Res (Option Origin)) := qs.map fun q =>
        match flat with
        | .ok m => leafLookup m q
        | .error _ => .ok none
      let model :=
        if is.any isErr || fs.any isErr then "err panic"
        else "ok " ++ showL id ((is.zip fs).map fun (i, fl) =>
          let si := match i with | .ok h => showHit h | .error _ => "?"
          let sf := match flat, fl with
            | .error _, _ => "!"
            | .ok _, .ok h => showHit h
            | .ok _, .error _ => "?"
          s!"{si}/{sf}")
      -- C08: the section with the greatest offset not after the position answers; what it finds,
      -- the flattened map finds as well
      let d : DMap := .index f secs
      let spec :=
        if wf d then
          let vs := (sortX (flattenSpec secs)).map (·.v)
          "ok " ++ showL id (qs.map fun q =>
            match lookupSpecD d q with
            | [] => (match lookupAlts vs q with
              | [] => "_/_"
              | bs => "|".intercalate (bs.map fun b => "_/" ++ showOrigin b))
            | as => "|".intercalate (as.map fun a => showOrigin a ++ "/" ++ showOrigin a))
        else if wfG true d && !flattenableSecs secs then
          "ok " ++ showL id (qs.map fun q =>
            match lookupSpecD d q with
            | [] => "_/!"
            | as => "|".intercalate (as.map fun a => showOrigin a ++ "/!"))
        else "-"
      s!"{model}\t{spec}\t1"
  | _ => "bad-op\t-\t0"

end SmVerif.DrvIndex
