import SmVerif.Model.Proto
import SmVerif.Model.BldSeq
/- driver families `bld.` and `smap.` (C13) -/
namespace SmVerif.DrvBld
open SmVerif SmVerif.Proto SmVerif.C13Spec

/-- optional string: `~` = None, `-` = Some(""), hex otherwise -/
def parseOpt (s : String) : Option (List Nat) := if s = "~" then none else some (parseHex s)
def parseOptNat (s : String) : Option Nat := if s = "~" then none else some (parseNat s)
def showOpt : Option (List Nat) → String
  | none => "~"
  | some b => toHex b
/-- list of strings: `.` = empty list -/
def parseStrs (s : String) : List (List Nat) := if s = "." then [] else (s.splitOn ",").map parseHex
def parseOpts (s : String) : List (Option (List Nat)) := if s = "." then [] else (s.splitOn ",").map parseOpt
def showL {α} (f : α → String) (xs : List α) (sep : String := ",") : String :=
  if xs.isEmpty then "." else sep.intercalate (xs.map f)
def showId (n : Nat) : String := if n = C13Spec.NONE then "~" else toString n

def parseBOp (s : String) : Option BOp :=
  match s.splitOn ":" with
  | ["as", x] => some (.addSource (parseHex x))
  | ["an", x] => some (.addName (parseHex x))
  | ["ad", dl, dc, sl, sc, src, name, rng] =>
    some (.add (parseNat dl) (parseNat dc) (parseNat sl) (parseNat sc) (parseOpt src) (parseOpt name) (rng != "0"))
  | ["ar", dl, dc, sl, sc, src, name, rng] =>
    some (.addRaw (parseNat dl) (parseNat dc) (parseNat sl) (parseNat sc) (parseOptNat src) (parseOptNat name) (rng != "0"))
  | ["sc", i, v] => some (.setSourceContents (parseNat i) (parseOpt v))
  | ["ig", i] => some (.addToIgnoreList (parseNat i))
  | ["sr", r] => some (.setSourceRoot (parseOpt r))
  | ["sf", r] => some (.setFile (parseOpt r))
  | ["sd", r] => some (.setDebugId (parseOpt r))
  | ["gs", i] => some (.getSource (parseNat i))
  | _ => none

def parseMOp (s : String) : Option MOp :=
  match s.splitOn ":" with
  | ["sr", r] => some (.setSourceRoot (parseOpt r))
  | ["ss", i, v] => some (.setSource (parseNat i) (parseHex v))
  | ["sc", i, v] => some (.setSourceContents (parseNat i) (parseOpt v))
  | ["rt"] => some .reload
  | ["ig", i] => some (.addToIgnoreList (parseNat i))
  | ["sf", r] => some (.setFile (parseOpt r))
  | ["sd", r] => some (.setDebugId (parseOpt r))
  | _ => none

def allSome {α} : List (Option α) → Option (List α)
  | [] => some []
  | none :: _ => none
  | some a :: r => (allSome r).map (a :: ·)

def showBOut : BOut → String
  | .unit => "_"
  | .id i => s!"i{i}"
  | .tok s n => s!"t{showId s}/{showId n}"
  | .str s => s!"g{showOpt s}"

def showTokView (t : TokView) : String :=
  s!"{t.dl}:{t.dc}:{t.sl}:{t.sc}:{b2s t.rng}:{showOpt t.src}:{showOpt t.name}"

def showView (v : MapView) (withToks : Bool) : String :=
  (if withToks then s!"T={showL showTokView v.toks ";"} " else "") ++
  s!"S={showL toHex v.read} W={showL toHex v.raw} R={showOpt v.rootW} N={showL toHex v.names} " ++
  s!"C={showL showOpt v.contents} I={showL toString v.ignore} F={showOpt v.file} D={showOpt v.debugId}"

def splitOps (s : String) : List String := if s = "." then [] else s.splitOn ";"

def handleBld (toks : List String) : String :=
  match toks with
  | ["bld.seq", file, ops] =>
    match allSome ((splitOps ops).map parseBOp) with
    | none => "bad-op\t-\t0"
    | some ops =>
      let f := parseOpt file
      let model := match (Bld.new f).run ops with
        | .error e => "err " ++ e.toString
        | .ok (b, outs) => s!"ok {showL showBOut outs} {showView b.intoSourcemap.view true}"
      -- the abstract interning model of the property, run on the same calls
      let spec := match ({ file := f } : ABld).run ops with
        | none => "-"
        | some (a, outs) => s!"ok {showL showBOut outs} {showView a.finish true}"
      s!"{model}\t{spec}\t1"
  | ["smap.seq", srcs, conts, names, ops] =>
    match allSome ((splitOps ops).map parseMOp) with
    | none => "bad-op\t-\t0"
    | some ops =>
      let sources := parseStrs srcs
      let contents : Option (List (Option (List Nat))) := if conts = "~" then none else some (parseOpts conts)
      let nms := parseStrs names
      let m0 := SMap.new none [] nms sources contents
      let model := match m0.trace ops with
        | .error e => "err " ++ e.toString
        | .ok ms => "ok " ++ " ; ".intercalate (ms.map fun (m : SMap) => showView m.view false)
      -- abstract map: raw names, no root, the contents `get_source_contents` reports per source
      let a0 : AMap := { raw := sources, root := none,
                         contents := (List.range sources.length).map fun i => ((contents.getD [])[i]?).join,
                         names := nms, ignore := [], file := none, debugId := none }
      let spec := match a0.trace ops with
        | none => "-"
        | some as => "ok " ++ " ; ".intercalate (as.map fun (a : AMap) => showView a.view false)
      s!"{model}\t{spec}\t1"
  | _ => "bad-op\t-\t0"

end SmVerif.DrvBld
